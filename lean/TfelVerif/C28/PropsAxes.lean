/- C28 (part 2) — orthotropic axes conventions and reduced hypotheses, on the definitions traced (T1) from the real
   templates by harness/C28/trace.cxx:  sfe_* = convertStressFreeExpansionStrain<H,C>, hill_* = computeHillTensor<H,C>,
   stiff_*_{U,A}_* = computeOrthotropicStiffnessTensor<H,{UNALTERED,ALTERED},C>, j2o*/j3o* = computeJ2O/computeJ3O and
   derivatives (OrthotropicPlasticity.ixx).  H: AGPE, AGPS (1D axisymmetrical generalised plane strain / stress), AXI, PS, PE,
   GPE (2D), TRI (3D).

   Storage (Mandel): index 0,1,2 = 11,22,33; 3 = 12; 4 = 13; 5 = 23. Documented conventions
   (OrthotropicAxesConvention.hxx): material properties are always given in the 3D material frame;
   PIPE: in plane stress / plane strain / generalised plane strain the second and third material axes are exchanged
   with respect to 3D (so reduced index 1 <-> 3D index 2, reduced 12 <-> 3D 13); identical axes in 1D, axisymmetrical, 3D;
   PLATE and DEFAULT: identical axes everywhere.
   Every theorem: the reduced-hypothesis object is, component by component, the 3D object read through that
   permutation — for all material coefficients (file generated once by harness/C28/genprops.py, then fixed). -/
import TfelVerif.C28.Lemmas
import TfelVerif.C28.Gen

namespace TfelVerif.C28.PropsAxes
open TfelVerif TfelVerif.C28 TfelVerif.C28.Gen
set_option linter.unusedVariables false
set_option linter.unusedSectionVars false

variable {K : Type} [Field K] (c c3 : K) (fn : Fns K)

/-! ## convertStressFreeExpansionStrain: 3D-frame diagonal tensor -> frame of the hypothesis -/

theorem sfe_AGPE_DEFAULT (s0 s1 s2 : K) :
    sfe_AGPE_DEFAULT_all c c3 fn s0 s1 s2 = [s0, s1, s2] := by
  simp only [gen_simp]

theorem sfe_AGPE_PIPE (s0 s1 s2 : K) :
    sfe_AGPE_PIPE_all c c3 fn s0 s1 s2 = [s0, s1, s2] := by
  simp only [gen_simp]

theorem sfe_AGPE_PLATE (s0 s1 s2 : K) :
    sfe_AGPE_PLATE_all c c3 fn s0 s1 s2 = [s0, s1, s2] := by
  simp only [gen_simp]

theorem sfe_AGPS_DEFAULT (s0 s1 s2 : K) :
    sfe_AGPS_DEFAULT_all c c3 fn s0 s1 s2 = [s0, s1, s2] := by
  simp only [gen_simp]

theorem sfe_AGPS_PIPE (s0 s1 s2 : K) :
    sfe_AGPS_PIPE_all c c3 fn s0 s1 s2 = [s0, s1, s2] := by
  simp only [gen_simp]

theorem sfe_AGPS_PLATE (s0 s1 s2 : K) :
    sfe_AGPS_PLATE_all c c3 fn s0 s1 s2 = [s0, s1, s2] := by
  simp only [gen_simp]

theorem sfe_AXI_DEFAULT (s0 s1 s2 s3 : K) :
    sfe_AXI_DEFAULT_all c c3 fn s0 s1 s2 s3 = [s0, s1, s2, s3] := by
  simp only [gen_simp]

theorem sfe_AXI_PIPE (s0 s1 s2 s3 : K) :
    sfe_AXI_PIPE_all c c3 fn s0 s1 s2 s3 = [s0, s1, s2, s3] := by
  simp only [gen_simp]

theorem sfe_AXI_PLATE (s0 s1 s2 s3 : K) :
    sfe_AXI_PLATE_all c c3 fn s0 s1 s2 s3 = [s0, s1, s2, s3] := by
  simp only [gen_simp]

theorem sfe_PS_DEFAULT (s0 s1 s2 s3 : K) :
    sfe_PS_DEFAULT_all c c3 fn s0 s1 s2 s3 = [s0, s1, s2, s3] := by
  simp only [gen_simp]

theorem sfe_PS_PIPE (s0 s1 s2 s3 : K) :
    sfe_PS_PIPE_all c c3 fn s0 s1 s2 s3 = [s0, s2, s1, s3] := by
  simp only [gen_simp]

theorem sfe_PS_PLATE (s0 s1 s2 s3 : K) :
    sfe_PS_PLATE_all c c3 fn s0 s1 s2 s3 = [s0, s1, s2, s3] := by
  simp only [gen_simp]

theorem sfe_PE_DEFAULT (s0 s1 s2 s3 : K) :
    sfe_PE_DEFAULT_all c c3 fn s0 s1 s2 s3 = [s0, s1, s2, s3] := by
  simp only [gen_simp]

theorem sfe_PE_PIPE (s0 s1 s2 s3 : K) :
    sfe_PE_PIPE_all c c3 fn s0 s1 s2 s3 = [s0, s2, s1, s3] := by
  simp only [gen_simp]

theorem sfe_PE_PLATE (s0 s1 s2 s3 : K) :
    sfe_PE_PLATE_all c c3 fn s0 s1 s2 s3 = [s0, s1, s2, s3] := by
  simp only [gen_simp]

theorem sfe_GPE_DEFAULT (s0 s1 s2 s3 : K) :
    sfe_GPE_DEFAULT_all c c3 fn s0 s1 s2 s3 = [s0, s1, s2, s3] := by
  simp only [gen_simp]

theorem sfe_GPE_PIPE (s0 s1 s2 s3 : K) :
    sfe_GPE_PIPE_all c c3 fn s0 s1 s2 s3 = [s0, s2, s1, s3] := by
  simp only [gen_simp]

theorem sfe_GPE_PLATE (s0 s1 s2 s3 : K) :
    sfe_GPE_PLATE_all c c3 fn s0 s1 s2 s3 = [s0, s1, s2, s3] := by
  simp only [gen_simp]

theorem sfe_TRI_DEFAULT (s0 s1 s2 s3 s4 s5 : K) :
    sfe_TRI_DEFAULT_all c c3 fn s0 s1 s2 s3 s4 s5 = [s0, s1, s2, s3, s4, s5] := by
  simp only [gen_simp]

theorem sfe_TRI_PIPE (s0 s1 s2 s3 s4 s5 : K) :
    sfe_TRI_PIPE_all c c3 fn s0 s1 s2 s3 s4 s5 = [s0, s1, s2, s3, s4, s5] := by
  simp only [gen_simp]

theorem sfe_TRI_PLATE (s0 s1 s2 s3 s4 s5 : K) :
    sfe_TRI_PLATE_all c c3 fn s0 s1 s2 s3 s4 s5 = [s0, s1, s2, s3, s4, s5] := by
  simp only [gen_simp]

/-! ## Hill tensors -/

/-- 3D, as documented in Hill.hxx: σ:H:σ = F(σ11-σ22)² + G(σ22-σ33)² + H(σ33-σ11)² + 2Lσ12² + 2Mσ13² + 2Nσ23²
    (Mandel storage: the shear components carry a factor c = √2) -/
theorem hill_TRI_quadratic_form (hc : c * c = 2) (hF hG hH hL hM hN x11 x22 x33 x12 x13 x23 : K) :
    quad6 (hill_TRI_DEFAULT_all c c3 fn hF hG hH hL hM hN) [x11, x22, x33, c * x12, c * x13, c * x23] =
      hF * (x11 - x22) ^ 2 + hG * (x22 - x33) ^ 2 + hH * (x33 - x11) ^ 2 +
        2 * hL * x12 ^ 2 + 2 * hM * x13 ^ 2 + 2 * hN * x23 ^ 2 := by
  simp only [gen_simp, quad6]
  have h2 : c ^ 2 = 2 := by rw [pow_two, hc]
  ring_nf
  simp only [h2]
  ring

/-- in 3D the three conventions coincide -/
theorem hill_TRI_conventions (hF hG hH hL hM hN : K) :
    hill_TRI_PIPE_all c c3 fn hF hG hH hL hM hN = hill_TRI_DEFAULT_all c c3 fn hF hG hH hL hM hN ∧
    hill_TRI_PLATE_all c c3 fn hF hG hH hL hM hN = hill_TRI_DEFAULT_all c c3 fn hF hG hH hL hM hN := by
  constructor <;> simp only [gen_simp]

/-- AxisymmetricalGeneralisedPlaneStrain, DEFAULT: component (i,j) is component (π i, π j) of the 3D Hill tensor, π = [0, 1, 2] -/
theorem hill_AGPE_DEFAULT (hF hG hH hL hM hN : K) :
    hill_AGPE_DEFAULT_r0_0 c c3 fn hF hG hH hL hM hN = hill_TRI_DEFAULT_r0_0 c c3 fn hF hG hH hL hM hN ∧
    hill_AGPE_DEFAULT_r0_1 c c3 fn hF hG hH hL hM hN = hill_TRI_DEFAULT_r0_1 c c3 fn hF hG hH hL hM hN ∧
    hill_AGPE_DEFAULT_r0_2 c c3 fn hF hG hH hL hM hN = hill_TRI_DEFAULT_r0_2 c c3 fn hF hG hH hL hM hN ∧
    hill_AGPE_DEFAULT_r1_0 c c3 fn hF hG hH hL hM hN = hill_TRI_DEFAULT_r1_0 c c3 fn hF hG hH hL hM hN ∧
    hill_AGPE_DEFAULT_r1_1 c c3 fn hF hG hH hL hM hN = hill_TRI_DEFAULT_r1_1 c c3 fn hF hG hH hL hM hN ∧
    hill_AGPE_DEFAULT_r1_2 c c3 fn hF hG hH hL hM hN = hill_TRI_DEFAULT_r1_2 c c3 fn hF hG hH hL hM hN ∧
    hill_AGPE_DEFAULT_r2_0 c c3 fn hF hG hH hL hM hN = hill_TRI_DEFAULT_r2_0 c c3 fn hF hG hH hL hM hN ∧
    hill_AGPE_DEFAULT_r2_1 c c3 fn hF hG hH hL hM hN = hill_TRI_DEFAULT_r2_1 c c3 fn hF hG hH hL hM hN ∧
    hill_AGPE_DEFAULT_r2_2 c c3 fn hF hG hH hL hM hN = hill_TRI_DEFAULT_r2_2 c c3 fn hF hG hH hL hM hN := by
  axes_eq

/-- AxisymmetricalGeneralisedPlaneStrain, PIPE: component (i,j) is component (π i, π j) of the 3D Hill tensor, π = [0, 1, 2] -/
theorem hill_AGPE_PIPE (hF hG hH hL hM hN : K) :
    hill_AGPE_PIPE_r0_0 c c3 fn hF hG hH hL hM hN = hill_TRI_DEFAULT_r0_0 c c3 fn hF hG hH hL hM hN ∧
    hill_AGPE_PIPE_r0_1 c c3 fn hF hG hH hL hM hN = hill_TRI_DEFAULT_r0_1 c c3 fn hF hG hH hL hM hN ∧
    hill_AGPE_PIPE_r0_2 c c3 fn hF hG hH hL hM hN = hill_TRI_DEFAULT_r0_2 c c3 fn hF hG hH hL hM hN ∧
    hill_AGPE_PIPE_r1_0 c c3 fn hF hG hH hL hM hN = hill_TRI_DEFAULT_r1_0 c c3 fn hF hG hH hL hM hN ∧
    hill_AGPE_PIPE_r1_1 c c3 fn hF hG hH hL hM hN = hill_TRI_DEFAULT_r1_1 c c3 fn hF hG hH hL hM hN ∧
    hill_AGPE_PIPE_r1_2 c c3 fn hF hG hH hL hM hN = hill_TRI_DEFAULT_r1_2 c c3 fn hF hG hH hL hM hN ∧
    hill_AGPE_PIPE_r2_0 c c3 fn hF hG hH hL hM hN = hill_TRI_DEFAULT_r2_0 c c3 fn hF hG hH hL hM hN ∧
    hill_AGPE_PIPE_r2_1 c c3 fn hF hG hH hL hM hN = hill_TRI_DEFAULT_r2_1 c c3 fn hF hG hH hL hM hN ∧
    hill_AGPE_PIPE_r2_2 c c3 fn hF hG hH hL hM hN = hill_TRI_DEFAULT_r2_2 c c3 fn hF hG hH hL hM hN := by
  axes_eq

/-- AxisymmetricalGeneralisedPlaneStress, DEFAULT: component (i,j) is component (π i, π j) of the 3D Hill tensor, π = [0, 1, 2] -/
theorem hill_AGPS_DEFAULT (hF hG hH hL hM hN : K) :
    hill_AGPS_DEFAULT_r0_0 c c3 fn hF hG hH hL hM hN = hill_TRI_DEFAULT_r0_0 c c3 fn hF hG hH hL hM hN ∧
    hill_AGPS_DEFAULT_r0_1 c c3 fn hF hG hH hL hM hN = hill_TRI_DEFAULT_r0_1 c c3 fn hF hG hH hL hM hN ∧
    hill_AGPS_DEFAULT_r0_2 c c3 fn hF hG hH hL hM hN = hill_TRI_DEFAULT_r0_2 c c3 fn hF hG hH hL hM hN ∧
    hill_AGPS_DEFAULT_r1_0 c c3 fn hF hG hH hL hM hN = hill_TRI_DEFAULT_r1_0 c c3 fn hF hG hH hL hM hN ∧
    hill_AGPS_DEFAULT_r1_1 c c3 fn hF hG hH hL hM hN = hill_TRI_DEFAULT_r1_1 c c3 fn hF hG hH hL hM hN ∧
    hill_AGPS_DEFAULT_r1_2 c c3 fn hF hG hH hL hM hN = hill_TRI_DEFAULT_r1_2 c c3 fn hF hG hH hL hM hN ∧
    hill_AGPS_DEFAULT_r2_0 c c3 fn hF hG hH hL hM hN = hill_TRI_DEFAULT_r2_0 c c3 fn hF hG hH hL hM hN ∧
    hill_AGPS_DEFAULT_r2_1 c c3 fn hF hG hH hL hM hN = hill_TRI_DEFAULT_r2_1 c c3 fn hF hG hH hL hM hN ∧
    hill_AGPS_DEFAULT_r2_2 c c3 fn hF hG hH hL hM hN = hill_TRI_DEFAULT_r2_2 c c3 fn hF hG hH hL hM hN := by
  axes_eq

/-- AxisymmetricalGeneralisedPlaneStress, PIPE: component (i,j) is component (π i, π j) of the 3D Hill tensor, π = [0, 1, 2] -/
theorem hill_AGPS_PIPE (hF hG hH hL hM hN : K) :
    hill_AGPS_PIPE_r0_0 c c3 fn hF hG hH hL hM hN = hill_TRI_DEFAULT_r0_0 c c3 fn hF hG hH hL hM hN ∧
    hill_AGPS_PIPE_r0_1 c c3 fn hF hG hH hL hM hN = hill_TRI_DEFAULT_r0_1 c c3 fn hF hG hH hL hM hN ∧
    hill_AGPS_PIPE_r0_2 c c3 fn hF hG hH hL hM hN = hill_TRI_DEFAULT_r0_2 c c3 fn hF hG hH hL hM hN ∧
    hill_AGPS_PIPE_r1_0 c c3 fn hF hG hH hL hM hN = hill_TRI_DEFAULT_r1_0 c c3 fn hF hG hH hL hM hN ∧
    hill_AGPS_PIPE_r1_1 c c3 fn hF hG hH hL hM hN = hill_TRI_DEFAULT_r1_1 c c3 fn hF hG hH hL hM hN ∧
    hill_AGPS_PIPE_r1_2 c c3 fn hF hG hH hL hM hN = hill_TRI_DEFAULT_r1_2 c c3 fn hF hG hH hL hM hN ∧
    hill_AGPS_PIPE_r2_0 c c3 fn hF hG hH hL hM hN = hill_TRI_DEFAULT_r2_0 c c3 fn hF hG hH hL hM hN ∧
    hill_AGPS_PIPE_r2_1 c c3 fn hF hG hH hL hM hN = hill_TRI_DEFAULT_r2_1 c c3 fn hF hG hH hL hM hN ∧
    hill_AGPS_PIPE_r2_2 c c3 fn hF hG hH hL hM hN = hill_TRI_DEFAULT_r2_2 c c3 fn hF hG hH hL hM hN := by
  axes_eq

/-- Axisymmetrical, DEFAULT: component (i,j) is component (π i, π j) of the 3D Hill tensor, π = [0, 1, 2, 3] -/
theorem hill_AXI_DEFAULT (hF hG hH hL hM hN : K) :
    hill_AXI_DEFAULT_r0_0 c c3 fn hF hG hH hL hM hN = hill_TRI_DEFAULT_r0_0 c c3 fn hF hG hH hL hM hN ∧
    hill_AXI_DEFAULT_r0_1 c c3 fn hF hG hH hL hM hN = hill_TRI_DEFAULT_r0_1 c c3 fn hF hG hH hL hM hN ∧
    hill_AXI_DEFAULT_r0_2 c c3 fn hF hG hH hL hM hN = hill_TRI_DEFAULT_r0_2 c c3 fn hF hG hH hL hM hN ∧
    hill_AXI_DEFAULT_r0_3 c c3 fn hF hG hH hL hM hN = hill_TRI_DEFAULT_r0_3 c c3 fn hF hG hH hL hM hN ∧
    hill_AXI_DEFAULT_r1_0 c c3 fn hF hG hH hL hM hN = hill_TRI_DEFAULT_r1_0 c c3 fn hF hG hH hL hM hN ∧
    hill_AXI_DEFAULT_r1_1 c c3 fn hF hG hH hL hM hN = hill_TRI_DEFAULT_r1_1 c c3 fn hF hG hH hL hM hN ∧
    hill_AXI_DEFAULT_r1_2 c c3 fn hF hG hH hL hM hN = hill_TRI_DEFAULT_r1_2 c c3 fn hF hG hH hL hM hN ∧
    hill_AXI_DEFAULT_r1_3 c c3 fn hF hG hH hL hM hN = hill_TRI_DEFAULT_r1_3 c c3 fn hF hG hH hL hM hN ∧
    hill_AXI_DEFAULT_r2_0 c c3 fn hF hG hH hL hM hN = hill_TRI_DEFAULT_r2_0 c c3 fn hF hG hH hL hM hN ∧
    hill_AXI_DEFAULT_r2_1 c c3 fn hF hG hH hL hM hN = hill_TRI_DEFAULT_r2_1 c c3 fn hF hG hH hL hM hN ∧
    hill_AXI_DEFAULT_r2_2 c c3 fn hF hG hH hL hM hN = hill_TRI_DEFAULT_r2_2 c c3 fn hF hG hH hL hM hN ∧
    hill_AXI_DEFAULT_r2_3 c c3 fn hF hG hH hL hM hN = hill_TRI_DEFAULT_r2_3 c c3 fn hF hG hH hL hM hN ∧
    hill_AXI_DEFAULT_r3_0 c c3 fn hF hG hH hL hM hN = hill_TRI_DEFAULT_r3_0 c c3 fn hF hG hH hL hM hN ∧
    hill_AXI_DEFAULT_r3_1 c c3 fn hF hG hH hL hM hN = hill_TRI_DEFAULT_r3_1 c c3 fn hF hG hH hL hM hN ∧
    hill_AXI_DEFAULT_r3_2 c c3 fn hF hG hH hL hM hN = hill_TRI_DEFAULT_r3_2 c c3 fn hF hG hH hL hM hN ∧
    hill_AXI_DEFAULT_r3_3 c c3 fn hF hG hH hL hM hN = hill_TRI_DEFAULT_r3_3 c c3 fn hF hG hH hL hM hN := by
  axes_eq

/-- Axisymmetrical, PIPE: component (i,j) is component (π i, π j) of the 3D Hill tensor, π = [0, 1, 2, 3] -/
theorem hill_AXI_PIPE (hF hG hH hL hM hN : K) :
    hill_AXI_PIPE_r0_0 c c3 fn hF hG hH hL hM hN = hill_TRI_DEFAULT_r0_0 c c3 fn hF hG hH hL hM hN ∧
    hill_AXI_PIPE_r0_1 c c3 fn hF hG hH hL hM hN = hill_TRI_DEFAULT_r0_1 c c3 fn hF hG hH hL hM hN ∧
    hill_AXI_PIPE_r0_2 c c3 fn hF hG hH hL hM hN = hill_TRI_DEFAULT_r0_2 c c3 fn hF hG hH hL hM hN ∧
    hill_AXI_PIPE_r0_3 c c3 fn hF hG hH hL hM hN = hill_TRI_DEFAULT_r0_3 c c3 fn hF hG hH hL hM hN ∧
    hill_AXI_PIPE_r1_0 c c3 fn hF hG hH hL hM hN = hill_TRI_DEFAULT_r1_0 c c3 fn hF hG hH hL hM hN ∧
    hill_AXI_PIPE_r1_1 c c3 fn hF hG hH hL hM hN = hill_TRI_DEFAULT_r1_1 c c3 fn hF hG hH hL hM hN ∧
    hill_AXI_PIPE_r1_2 c c3 fn hF hG hH hL hM hN = hill_TRI_DEFAULT_r1_2 c c3 fn hF hG hH hL hM hN ∧
    hill_AXI_PIPE_r1_3 c c3 fn hF hG hH hL hM hN = hill_TRI_DEFAULT_r1_3 c c3 fn hF hG hH hL hM hN ∧
    hill_AXI_PIPE_r2_0 c c3 fn hF hG hH hL hM hN = hill_TRI_DEFAULT_r2_0 c c3 fn hF hG hH hL hM hN ∧
    hill_AXI_PIPE_r2_1 c c3 fn hF hG hH hL hM hN = hill_TRI_DEFAULT_r2_1 c c3 fn hF hG hH hL hM hN ∧
    hill_AXI_PIPE_r2_2 c c3 fn hF hG hH hL hM hN = hill_TRI_DEFAULT_r2_2 c c3 fn hF hG hH hL hM hN ∧
    hill_AXI_PIPE_r2_3 c c3 fn hF hG hH hL hM hN = hill_TRI_DEFAULT_r2_3 c c3 fn hF hG hH hL hM hN ∧
    hill_AXI_PIPE_r3_0 c c3 fn hF hG hH hL hM hN = hill_TRI_DEFAULT_r3_0 c c3 fn hF hG hH hL hM hN ∧
    hill_AXI_PIPE_r3_1 c c3 fn hF hG hH hL hM hN = hill_TRI_DEFAULT_r3_1 c c3 fn hF hG hH hL hM hN ∧
    hill_AXI_PIPE_r3_2 c c3 fn hF hG hH hL hM hN = hill_TRI_DEFAULT_r3_2 c c3 fn hF hG hH hL hM hN ∧
    hill_AXI_PIPE_r3_3 c c3 fn hF hG hH hL hM hN = hill_TRI_DEFAULT_r3_3 c c3 fn hF hG hH hL hM hN := by
  axes_eq

/-- PlaneStress, DEFAULT: component (i,j) is component (π i, π j) of the 3D Hill tensor, π = [0, 1, 2, 3] -/
theorem hill_PS_DEFAULT (hF hG hH hL hM hN : K) :
    hill_PS_DEFAULT_r0_0 c c3 fn hF hG hH hL hM hN = hill_TRI_DEFAULT_r0_0 c c3 fn hF hG hH hL hM hN ∧
    hill_PS_DEFAULT_r0_1 c c3 fn hF hG hH hL hM hN = hill_TRI_DEFAULT_r0_1 c c3 fn hF hG hH hL hM hN ∧
    hill_PS_DEFAULT_r0_2 c c3 fn hF hG hH hL hM hN = hill_TRI_DEFAULT_r0_2 c c3 fn hF hG hH hL hM hN ∧
    hill_PS_DEFAULT_r0_3 c c3 fn hF hG hH hL hM hN = hill_TRI_DEFAULT_r0_3 c c3 fn hF hG hH hL hM hN ∧
    hill_PS_DEFAULT_r1_0 c c3 fn hF hG hH hL hM hN = hill_TRI_DEFAULT_r1_0 c c3 fn hF hG hH hL hM hN ∧
    hill_PS_DEFAULT_r1_1 c c3 fn hF hG hH hL hM hN = hill_TRI_DEFAULT_r1_1 c c3 fn hF hG hH hL hM hN ∧
    hill_PS_DEFAULT_r1_2 c c3 fn hF hG hH hL hM hN = hill_TRI_DEFAULT_r1_2 c c3 fn hF hG hH hL hM hN ∧
    hill_PS_DEFAULT_r1_3 c c3 fn hF hG hH hL hM hN = hill_TRI_DEFAULT_r1_3 c c3 fn hF hG hH hL hM hN ∧
    hill_PS_DEFAULT_r2_0 c c3 fn hF hG hH hL hM hN = hill_TRI_DEFAULT_r2_0 c c3 fn hF hG hH hL hM hN ∧
    hill_PS_DEFAULT_r2_1 c c3 fn hF hG hH hL hM hN = hill_TRI_DEFAULT_r2_1 c c3 fn hF hG hH hL hM hN ∧
    hill_PS_DEFAULT_r2_2 c c3 fn hF hG hH hL hM hN = hill_TRI_DEFAULT_r2_2 c c3 fn hF hG hH hL hM hN ∧
    hill_PS_DEFAULT_r2_3 c c3 fn hF hG hH hL hM hN = hill_TRI_DEFAULT_r2_3 c c3 fn hF hG hH hL hM hN ∧
    hill_PS_DEFAULT_r3_0 c c3 fn hF hG hH hL hM hN = hill_TRI_DEFAULT_r3_0 c c3 fn hF hG hH hL hM hN ∧
    hill_PS_DEFAULT_r3_1 c c3 fn hF hG hH hL hM hN = hill_TRI_DEFAULT_r3_1 c c3 fn hF hG hH hL hM hN ∧
    hill_PS_DEFAULT_r3_2 c c3 fn hF hG hH hL hM hN = hill_TRI_DEFAULT_r3_2 c c3 fn hF hG hH hL hM hN ∧
    hill_PS_DEFAULT_r3_3 c c3 fn hF hG hH hL hM hN = hill_TRI_DEFAULT_r3_3 c c3 fn hF hG hH hL hM hN := by
  axes_eq

/-- PlaneStress, PIPE: component (i,j) is component (π i, π j) of the 3D Hill tensor, π = [0, 2, 1, 4] -/
theorem hill_PS_PIPE (hF hG hH hL hM hN : K) :
    hill_PS_PIPE_r0_0 c c3 fn hF hG hH hL hM hN = hill_TRI_DEFAULT_r0_0 c c3 fn hF hG hH hL hM hN ∧
    hill_PS_PIPE_r0_1 c c3 fn hF hG hH hL hM hN = hill_TRI_DEFAULT_r0_2 c c3 fn hF hG hH hL hM hN ∧
    hill_PS_PIPE_r0_2 c c3 fn hF hG hH hL hM hN = hill_TRI_DEFAULT_r0_1 c c3 fn hF hG hH hL hM hN ∧
    hill_PS_PIPE_r0_3 c c3 fn hF hG hH hL hM hN = hill_TRI_DEFAULT_r0_4 c c3 fn hF hG hH hL hM hN ∧
    hill_PS_PIPE_r1_0 c c3 fn hF hG hH hL hM hN = hill_TRI_DEFAULT_r2_0 c c3 fn hF hG hH hL hM hN ∧
    hill_PS_PIPE_r1_1 c c3 fn hF hG hH hL hM hN = hill_TRI_DEFAULT_r2_2 c c3 fn hF hG hH hL hM hN ∧
    hill_PS_PIPE_r1_2 c c3 fn hF hG hH hL hM hN = hill_TRI_DEFAULT_r2_1 c c3 fn hF hG hH hL hM hN ∧
    hill_PS_PIPE_r1_3 c c3 fn hF hG hH hL hM hN = hill_TRI_DEFAULT_r2_4 c c3 fn hF hG hH hL hM hN ∧
    hill_PS_PIPE_r2_0 c c3 fn hF hG hH hL hM hN = hill_TRI_DEFAULT_r1_0 c c3 fn hF hG hH hL hM hN ∧
    hill_PS_PIPE_r2_1 c c3 fn hF hG hH hL hM hN = hill_TRI_DEFAULT_r1_2 c c3 fn hF hG hH hL hM hN ∧
    hill_PS_PIPE_r2_2 c c3 fn hF hG hH hL hM hN = hill_TRI_DEFAULT_r1_1 c c3 fn hF hG hH hL hM hN ∧
    hill_PS_PIPE_r2_3 c c3 fn hF hG hH hL hM hN = hill_TRI_DEFAULT_r1_4 c c3 fn hF hG hH hL hM hN ∧
    hill_PS_PIPE_r3_0 c c3 fn hF hG hH hL hM hN = hill_TRI_DEFAULT_r4_0 c c3 fn hF hG hH hL hM hN ∧
    hill_PS_PIPE_r3_1 c c3 fn hF hG hH hL hM hN = hill_TRI_DEFAULT_r4_2 c c3 fn hF hG hH hL hM hN ∧
    hill_PS_PIPE_r3_2 c c3 fn hF hG hH hL hM hN = hill_TRI_DEFAULT_r4_1 c c3 fn hF hG hH hL hM hN ∧
    hill_PS_PIPE_r3_3 c c3 fn hF hG hH hL hM hN = hill_TRI_DEFAULT_r4_4 c c3 fn hF hG hH hL hM hN := by
  axes_eq

/-- PlaneStress, PLATE: component (i,j) is component (π i, π j) of the 3D Hill tensor, π = [0, 1, 2, 3] -/
theorem hill_PS_PLATE (hF hG hH hL hM hN : K) :
    hill_PS_PLATE_r0_0 c c3 fn hF hG hH hL hM hN = hill_TRI_DEFAULT_r0_0 c c3 fn hF hG hH hL hM hN ∧
    hill_PS_PLATE_r0_1 c c3 fn hF hG hH hL hM hN = hill_TRI_DEFAULT_r0_1 c c3 fn hF hG hH hL hM hN ∧
    hill_PS_PLATE_r0_2 c c3 fn hF hG hH hL hM hN = hill_TRI_DEFAULT_r0_2 c c3 fn hF hG hH hL hM hN ∧
    hill_PS_PLATE_r0_3 c c3 fn hF hG hH hL hM hN = hill_TRI_DEFAULT_r0_3 c c3 fn hF hG hH hL hM hN ∧
    hill_PS_PLATE_r1_0 c c3 fn hF hG hH hL hM hN = hill_TRI_DEFAULT_r1_0 c c3 fn hF hG hH hL hM hN ∧
    hill_PS_PLATE_r1_1 c c3 fn hF hG hH hL hM hN = hill_TRI_DEFAULT_r1_1 c c3 fn hF hG hH hL hM hN ∧
    hill_PS_PLATE_r1_2 c c3 fn hF hG hH hL hM hN = hill_TRI_DEFAULT_r1_2 c c3 fn hF hG hH hL hM hN ∧
    hill_PS_PLATE_r1_3 c c3 fn hF hG hH hL hM hN = hill_TRI_DEFAULT_r1_3 c c3 fn hF hG hH hL hM hN ∧
    hill_PS_PLATE_r2_0 c c3 fn hF hG hH hL hM hN = hill_TRI_DEFAULT_r2_0 c c3 fn hF hG hH hL hM hN ∧
    hill_PS_PLATE_r2_1 c c3 fn hF hG hH hL hM hN = hill_TRI_DEFAULT_r2_1 c c3 fn hF hG hH hL hM hN ∧
    hill_PS_PLATE_r2_2 c c3 fn hF hG hH hL hM hN = hill_TRI_DEFAULT_r2_2 c c3 fn hF hG hH hL hM hN ∧
    hill_PS_PLATE_r2_3 c c3 fn hF hG hH hL hM hN = hill_TRI_DEFAULT_r2_3 c c3 fn hF hG hH hL hM hN ∧
    hill_PS_PLATE_r3_0 c c3 fn hF hG hH hL hM hN = hill_TRI_DEFAULT_r3_0 c c3 fn hF hG hH hL hM hN ∧
    hill_PS_PLATE_r3_1 c c3 fn hF hG hH hL hM hN = hill_TRI_DEFAULT_r3_1 c c3 fn hF hG hH hL hM hN ∧
    hill_PS_PLATE_r3_2 c c3 fn hF hG hH hL hM hN = hill_TRI_DEFAULT_r3_2 c c3 fn hF hG hH hL hM hN ∧
    hill_PS_PLATE_r3_3 c c3 fn hF hG hH hL hM hN = hill_TRI_DEFAULT_r3_3 c c3 fn hF hG hH hL hM hN := by
  axes_eq

/-- PlaneStrain, DEFAULT: component (i,j) is component (π i, π j) of the 3D Hill tensor, π = [0, 1, 2, 3] -/
theorem hill_PE_DEFAULT (hF hG hH hL hM hN : K) :
    hill_PE_DEFAULT_r0_0 c c3 fn hF hG hH hL hM hN = hill_TRI_DEFAULT_r0_0 c c3 fn hF hG hH hL hM hN ∧
    hill_PE_DEFAULT_r0_1 c c3 fn hF hG hH hL hM hN = hill_TRI_DEFAULT_r0_1 c c3 fn hF hG hH hL hM hN ∧
    hill_PE_DEFAULT_r0_2 c c3 fn hF hG hH hL hM hN = hill_TRI_DEFAULT_r0_2 c c3 fn hF hG hH hL hM hN ∧
    hill_PE_DEFAULT_r0_3 c c3 fn hF hG hH hL hM hN = hill_TRI_DEFAULT_r0_3 c c3 fn hF hG hH hL hM hN ∧
    hill_PE_DEFAULT_r1_0 c c3 fn hF hG hH hL hM hN = hill_TRI_DEFAULT_r1_0 c c3 fn hF hG hH hL hM hN ∧
    hill_PE_DEFAULT_r1_1 c c3 fn hF hG hH hL hM hN = hill_TRI_DEFAULT_r1_1 c c3 fn hF hG hH hL hM hN ∧
    hill_PE_DEFAULT_r1_2 c c3 fn hF hG hH hL hM hN = hill_TRI_DEFAULT_r1_2 c c3 fn hF hG hH hL hM hN ∧
    hill_PE_DEFAULT_r1_3 c c3 fn hF hG hH hL hM hN = hill_TRI_DEFAULT_r1_3 c c3 fn hF hG hH hL hM hN ∧
    hill_PE_DEFAULT_r2_0 c c3 fn hF hG hH hL hM hN = hill_TRI_DEFAULT_r2_0 c c3 fn hF hG hH hL hM hN ∧
    hill_PE_DEFAULT_r2_1 c c3 fn hF hG hH hL hM hN = hill_TRI_DEFAULT_r2_1 c c3 fn hF hG hH hL hM hN ∧
    hill_PE_DEFAULT_r2_2 c c3 fn hF hG hH hL hM hN = hill_TRI_DEFAULT_r2_2 c c3 fn hF hG hH hL hM hN ∧
    hill_PE_DEFAULT_r2_3 c c3 fn hF hG hH hL hM hN = hill_TRI_DEFAULT_r2_3 c c3 fn hF hG hH hL hM hN ∧
    hill_PE_DEFAULT_r3_0 c c3 fn hF hG hH hL hM hN = hill_TRI_DEFAULT_r3_0 c c3 fn hF hG hH hL hM hN ∧
    hill_PE_DEFAULT_r3_1 c c3 fn hF hG hH hL hM hN = hill_TRI_DEFAULT_r3_1 c c3 fn hF hG hH hL hM hN ∧
    hill_PE_DEFAULT_r3_2 c c3 fn hF hG hH hL hM hN = hill_TRI_DEFAULT_r3_2 c c3 fn hF hG hH hL hM hN ∧
    hill_PE_DEFAULT_r3_3 c c3 fn hF hG hH hL hM hN = hill_TRI_DEFAULT_r3_3 c c3 fn hF hG hH hL hM hN := by
  axes_eq

/-- PlaneStrain, PIPE: component (i,j) is component (π i, π j) of the 3D Hill tensor, π = [0, 2, 1, 4] -/
theorem hill_PE_PIPE (hF hG hH hL hM hN : K) :
    hill_PE_PIPE_r0_0 c c3 fn hF hG hH hL hM hN = hill_TRI_DEFAULT_r0_0 c c3 fn hF hG hH hL hM hN ∧
    hill_PE_PIPE_r0_1 c c3 fn hF hG hH hL hM hN = hill_TRI_DEFAULT_r0_2 c c3 fn hF hG hH hL hM hN ∧
    hill_PE_PIPE_r0_2 c c3 fn hF hG hH hL hM hN = hill_TRI_DEFAULT_r0_1 c c3 fn hF hG hH hL hM hN ∧
    hill_PE_PIPE_r0_3 c c3 fn hF hG hH hL hM hN = hill_TRI_DEFAULT_r0_4 c c3 fn hF hG hH hL hM hN ∧
    hill_PE_PIPE_r1_0 c c3 fn hF hG hH hL hM hN = hill_TRI_DEFAULT_r2_0 c c3 fn hF hG hH hL hM hN ∧
    hill_PE_PIPE_r1_1 c c3 fn hF hG hH hL hM hN = hill_TRI_DEFAULT_r2_2 c c3 fn hF hG hH hL hM hN ∧
    hill_PE_PIPE_r1_2 c c3 fn hF hG hH hL hM hN = hill_TRI_DEFAULT_r2_1 c c3 fn hF hG hH hL hM hN ∧
    hill_PE_PIPE_r1_3 c c3 fn hF hG hH hL hM hN = hill_TRI_DEFAULT_r2_4 c c3 fn hF hG hH hL hM hN ∧
    hill_PE_PIPE_r2_0 c c3 fn hF hG hH hL hM hN = hill_TRI_DEFAULT_r1_0 c c3 fn hF hG hH hL hM hN ∧
    hill_PE_PIPE_r2_1 c c3 fn hF hG hH hL hM hN = hill_TRI_DEFAULT_r1_2 c c3 fn hF hG hH hL hM hN ∧
    hill_PE_PIPE_r2_2 c c3 fn hF hG hH hL hM hN = hill_TRI_DEFAULT_r1_1 c c3 fn hF hG hH hL hM hN ∧
    hill_PE_PIPE_r2_3 c c3 fn hF hG hH hL hM hN = hill_TRI_DEFAULT_r1_4 c c3 fn hF hG hH hL hM hN ∧
    hill_PE_PIPE_r3_0 c c3 fn hF hG hH hL hM hN = hill_TRI_DEFAULT_r4_0 c c3 fn hF hG hH hL hM hN ∧
    hill_PE_PIPE_r3_1 c c3 fn hF hG hH hL hM hN = hill_TRI_DEFAULT_r4_2 c c3 fn hF hG hH hL hM hN ∧
    hill_PE_PIPE_r3_2 c c3 fn hF hG hH hL hM hN = hill_TRI_DEFAULT_r4_1 c c3 fn hF hG hH hL hM hN ∧
    hill_PE_PIPE_r3_3 c c3 fn hF hG hH hL hM hN = hill_TRI_DEFAULT_r4_4 c c3 fn hF hG hH hL hM hN := by
  axes_eq

/-- PlaneStrain, PLATE: component (i,j) is component (π i, π j) of the 3D Hill tensor, π = [0, 1, 2, 3] -/
theorem hill_PE_PLATE (hF hG hH hL hM hN : K) :
    hill_PE_PLATE_r0_0 c c3 fn hF hG hH hL hM hN = hill_TRI_DEFAULT_r0_0 c c3 fn hF hG hH hL hM hN ∧
    hill_PE_PLATE_r0_1 c c3 fn hF hG hH hL hM hN = hill_TRI_DEFAULT_r0_1 c c3 fn hF hG hH hL hM hN ∧
    hill_PE_PLATE_r0_2 c c3 fn hF hG hH hL hM hN = hill_TRI_DEFAULT_r0_2 c c3 fn hF hG hH hL hM hN ∧
    hill_PE_PLATE_r0_3 c c3 fn hF hG hH hL hM hN = hill_TRI_DEFAULT_r0_3 c c3 fn hF hG hH hL hM hN ∧
    hill_PE_PLATE_r1_0 c c3 fn hF hG hH hL hM hN = hill_TRI_DEFAULT_r1_0 c c3 fn hF hG hH hL hM hN ∧
    hill_PE_PLATE_r1_1 c c3 fn hF hG hH hL hM hN = hill_TRI_DEFAULT_r1_1 c c3 fn hF hG hH hL hM hN ∧
    hill_PE_PLATE_r1_2 c c3 fn hF hG hH hL hM hN = hill_TRI_DEFAULT_r1_2 c c3 fn hF hG hH hL hM hN ∧
    hill_PE_PLATE_r1_3 c c3 fn hF hG hH hL hM hN = hill_TRI_DEFAULT_r1_3 c c3 fn hF hG hH hL hM hN ∧
    hill_PE_PLATE_r2_0 c c3 fn hF hG hH hL hM hN = hill_TRI_DEFAULT_r2_0 c c3 fn hF hG hH hL hM hN ∧
    hill_PE_PLATE_r2_1 c c3 fn hF hG hH hL hM hN = hill_TRI_DEFAULT_r2_1 c c3 fn hF hG hH hL hM hN ∧
    hill_PE_PLATE_r2_2 c c3 fn hF hG hH hL hM hN = hill_TRI_DEFAULT_r2_2 c c3 fn hF hG hH hL hM hN ∧
    hill_PE_PLATE_r2_3 c c3 fn hF hG hH hL hM hN = hill_TRI_DEFAULT_r2_3 c c3 fn hF hG hH hL hM hN ∧
    hill_PE_PLATE_r3_0 c c3 fn hF hG hH hL hM hN = hill_TRI_DEFAULT_r3_0 c c3 fn hF hG hH hL hM hN ∧
    hill_PE_PLATE_r3_1 c c3 fn hF hG hH hL hM hN = hill_TRI_DEFAULT_r3_1 c c3 fn hF hG hH hL hM hN ∧
    hill_PE_PLATE_r3_2 c c3 fn hF hG hH hL hM hN = hill_TRI_DEFAULT_r3_2 c c3 fn hF hG hH hL hM hN ∧
    hill_PE_PLATE_r3_3 c c3 fn hF hG hH hL hM hN = hill_TRI_DEFAULT_r3_3 c c3 fn hF hG hH hL hM hN := by
  axes_eq

/-- GeneralisedPlaneStrain, DEFAULT: component (i,j) is component (π i, π j) of the 3D Hill tensor, π = [0, 1, 2, 3] -/
theorem hill_GPE_DEFAULT (hF hG hH hL hM hN : K) :
    hill_GPE_DEFAULT_r0_0 c c3 fn hF hG hH hL hM hN = hill_TRI_DEFAULT_r0_0 c c3 fn hF hG hH hL hM hN ∧
    hill_GPE_DEFAULT_r0_1 c c3 fn hF hG hH hL hM hN = hill_TRI_DEFAULT_r0_1 c c3 fn hF hG hH hL hM hN ∧
    hill_GPE_DEFAULT_r0_2 c c3 fn hF hG hH hL hM hN = hill_TRI_DEFAULT_r0_2 c c3 fn hF hG hH hL hM hN ∧
    hill_GPE_DEFAULT_r0_3 c c3 fn hF hG hH hL hM hN = hill_TRI_DEFAULT_r0_3 c c3 fn hF hG hH hL hM hN ∧
    hill_GPE_DEFAULT_r1_0 c c3 fn hF hG hH hL hM hN = hill_TRI_DEFAULT_r1_0 c c3 fn hF hG hH hL hM hN ∧
    hill_GPE_DEFAULT_r1_1 c c3 fn hF hG hH hL hM hN = hill_TRI_DEFAULT_r1_1 c c3 fn hF hG hH hL hM hN ∧
    hill_GPE_DEFAULT_r1_2 c c3 fn hF hG hH hL hM hN = hill_TRI_DEFAULT_r1_2 c c3 fn hF hG hH hL hM hN ∧
    hill_GPE_DEFAULT_r1_3 c c3 fn hF hG hH hL hM hN = hill_TRI_DEFAULT_r1_3 c c3 fn hF hG hH hL hM hN ∧
    hill_GPE_DEFAULT_r2_0 c c3 fn hF hG hH hL hM hN = hill_TRI_DEFAULT_r2_0 c c3 fn hF hG hH hL hM hN ∧
    hill_GPE_DEFAULT_r2_1 c c3 fn hF hG hH hL hM hN = hill_TRI_DEFAULT_r2_1 c c3 fn hF hG hH hL hM hN ∧
    hill_GPE_DEFAULT_r2_2 c c3 fn hF hG hH hL hM hN = hill_TRI_DEFAULT_r2_2 c c3 fn hF hG hH hL hM hN ∧
    hill_GPE_DEFAULT_r2_3 c c3 fn hF hG hH hL hM hN = hill_TRI_DEFAULT_r2_3 c c3 fn hF hG hH hL hM hN ∧
    hill_GPE_DEFAULT_r3_0 c c3 fn hF hG hH hL hM hN = hill_TRI_DEFAULT_r3_0 c c3 fn hF hG hH hL hM hN ∧
    hill_GPE_DEFAULT_r3_1 c c3 fn hF hG hH hL hM hN = hill_TRI_DEFAULT_r3_1 c c3 fn hF hG hH hL hM hN ∧
    hill_GPE_DEFAULT_r3_2 c c3 fn hF hG hH hL hM hN = hill_TRI_DEFAULT_r3_2 c c3 fn hF hG hH hL hM hN ∧
    hill_GPE_DEFAULT_r3_3 c c3 fn hF hG hH hL hM hN = hill_TRI_DEFAULT_r3_3 c c3 fn hF hG hH hL hM hN := by
  axes_eq

/-- GeneralisedPlaneStrain, PIPE: component (i,j) is component (π i, π j) of the 3D Hill tensor, π = [0, 2, 1, 4] -/
theorem hill_GPE_PIPE (hF hG hH hL hM hN : K) :
    hill_GPE_PIPE_r0_0 c c3 fn hF hG hH hL hM hN = hill_TRI_DEFAULT_r0_0 c c3 fn hF hG hH hL hM hN ∧
    hill_GPE_PIPE_r0_1 c c3 fn hF hG hH hL hM hN = hill_TRI_DEFAULT_r0_2 c c3 fn hF hG hH hL hM hN ∧
    hill_GPE_PIPE_r0_2 c c3 fn hF hG hH hL hM hN = hill_TRI_DEFAULT_r0_1 c c3 fn hF hG hH hL hM hN ∧
    hill_GPE_PIPE_r0_3 c c3 fn hF hG hH hL hM hN = hill_TRI_DEFAULT_r0_4 c c3 fn hF hG hH hL hM hN ∧
    hill_GPE_PIPE_r1_0 c c3 fn hF hG hH hL hM hN = hill_TRI_DEFAULT_r2_0 c c3 fn hF hG hH hL hM hN ∧
    hill_GPE_PIPE_r1_1 c c3 fn hF hG hH hL hM hN = hill_TRI_DEFAULT_r2_2 c c3 fn hF hG hH hL hM hN ∧
    hill_GPE_PIPE_r1_2 c c3 fn hF hG hH hL hM hN = hill_TRI_DEFAULT_r2_1 c c3 fn hF hG hH hL hM hN ∧
    hill_GPE_PIPE_r1_3 c c3 fn hF hG hH hL hM hN = hill_TRI_DEFAULT_r2_4 c c3 fn hF hG hH hL hM hN ∧
    hill_GPE_PIPE_r2_0 c c3 fn hF hG hH hL hM hN = hill_TRI_DEFAULT_r1_0 c c3 fn hF hG hH hL hM hN ∧
    hill_GPE_PIPE_r2_1 c c3 fn hF hG hH hL hM hN = hill_TRI_DEFAULT_r1_2 c c3 fn hF hG hH hL hM hN ∧
    hill_GPE_PIPE_r2_2 c c3 fn hF hG hH hL hM hN = hill_TRI_DEFAULT_r1_1 c c3 fn hF hG hH hL hM hN ∧
    hill_GPE_PIPE_r2_3 c c3 fn hF hG hH hL hM hN = hill_TRI_DEFAULT_r1_4 c c3 fn hF hG hH hL hM hN ∧
    hill_GPE_PIPE_r3_0 c c3 fn hF hG hH hL hM hN = hill_TRI_DEFAULT_r4_0 c c3 fn hF hG hH hL hM hN ∧
    hill_GPE_PIPE_r3_1 c c3 fn hF hG hH hL hM hN = hill_TRI_DEFAULT_r4_2 c c3 fn hF hG hH hL hM hN ∧
    hill_GPE_PIPE_r3_2 c c3 fn hF hG hH hL hM hN = hill_TRI_DEFAULT_r4_1 c c3 fn hF hG hH hL hM hN ∧
    hill_GPE_PIPE_r3_3 c c3 fn hF hG hH hL hM hN = hill_TRI_DEFAULT_r4_4 c c3 fn hF hG hH hL hM hN := by
  axes_eq

/-- GeneralisedPlaneStrain, PLATE: component (i,j) is component (π i, π j) of the 3D Hill tensor, π = [0, 1, 2, 3] -/
theorem hill_GPE_PLATE (hF hG hH hL hM hN : K) :
    hill_GPE_PLATE_r0_0 c c3 fn hF hG hH hL hM hN = hill_TRI_DEFAULT_r0_0 c c3 fn hF hG hH hL hM hN ∧
    hill_GPE_PLATE_r0_1 c c3 fn hF hG hH hL hM hN = hill_TRI_DEFAULT_r0_1 c c3 fn hF hG hH hL hM hN ∧
    hill_GPE_PLATE_r0_2 c c3 fn hF hG hH hL hM hN = hill_TRI_DEFAULT_r0_2 c c3 fn hF hG hH hL hM hN ∧
    hill_GPE_PLATE_r0_3 c c3 fn hF hG hH hL hM hN = hill_TRI_DEFAULT_r0_3 c c3 fn hF hG hH hL hM hN ∧
    hill_GPE_PLATE_r1_0 c c3 fn hF hG hH hL hM hN = hill_TRI_DEFAULT_r1_0 c c3 fn hF hG hH hL hM hN ∧
    hill_GPE_PLATE_r1_1 c c3 fn hF hG hH hL hM hN = hill_TRI_DEFAULT_r1_1 c c3 fn hF hG hH hL hM hN ∧
    hill_GPE_PLATE_r1_2 c c3 fn hF hG hH hL hM hN = hill_TRI_DEFAULT_r1_2 c c3 fn hF hG hH hL hM hN ∧
    hill_GPE_PLATE_r1_3 c c3 fn hF hG hH hL hM hN = hill_TRI_DEFAULT_r1_3 c c3 fn hF hG hH hL hM hN ∧
    hill_GPE_PLATE_r2_0 c c3 fn hF hG hH hL hM hN = hill_TRI_DEFAULT_r2_0 c c3 fn hF hG hH hL hM hN ∧
    hill_GPE_PLATE_r2_1 c c3 fn hF hG hH hL hM hN = hill_TRI_DEFAULT_r2_1 c c3 fn hF hG hH hL hM hN ∧
    hill_GPE_PLATE_r2_2 c c3 fn hF hG hH hL hM hN = hill_TRI_DEFAULT_r2_2 c c3 fn hF hG hH hL hM hN ∧
    hill_GPE_PLATE_r2_3 c c3 fn hF hG hH hL hM hN = hill_TRI_DEFAULT_r2_3 c c3 fn hF hG hH hL hM hN ∧
    hill_GPE_PLATE_r3_0 c c3 fn hF hG hH hL hM hN = hill_TRI_DEFAULT_r3_0 c c3 fn hF hG hH hL hM hN ∧
    hill_GPE_PLATE_r3_1 c c3 fn hF hG hH hL hM hN = hill_TRI_DEFAULT_r3_1 c c3 fn hF hG hH hL hM hN ∧
    hill_GPE_PLATE_r3_2 c c3 fn hF hG hH hL hM hN = hill_TRI_DEFAULT_r3_2 c c3 fn hF hG hH hL hM hN ∧
    hill_GPE_PLATE_r3_3 c c3 fn hF hG hH hL hM hN = hill_TRI_DEFAULT_r3_3 c c3 fn hF hG hH hL hM hN := by
  axes_eq

/-- PIPE, plane hypotheses: the Hill stress of a 2D stress state (x11, x22, x33, x12) equals the 3D Hill stress of the
    same state expressed in the 3D material frame (second and third axes exchanged) -/
theorem hill_PS_PIPE_same_response (hc : c * c = 2) (hF hG hH hL hM hN x11 x22 x33 x12 : K) :
    quad4 (hill_PS_PIPE_all c c3 fn hF hG hH hL hM hN) [x11, x22, x33, c * x12] =
      quad6 (hill_TRI_DEFAULT_all c c3 fn hF hG hH hL hM hN) [x11, x33, x22, 0, c * x12, 0] := by
  simp only [gen_simp, quad4, quad6]
  ring

theorem hill_PE_PIPE_same_response (hc : c * c = 2) (hF hG hH hL hM hN x11 x22 x33 x12 : K) :
    quad4 (hill_PE_PIPE_all c c3 fn hF hG hH hL hM hN) [x11, x22, x33, c * x12] =
      quad6 (hill_TRI_DEFAULT_all c c3 fn hF hG hH hL hM hN) [x11, x33, x22, 0, c * x12, 0] := by
  simp only [gen_simp, quad4, quad6]
  ring

theorem hill_GPE_PIPE_same_response (hc : c * c = 2) (hF hG hH hL hM hN x11 x22 x33 x12 : K) :
    quad4 (hill_GPE_PIPE_all c c3 fn hF hG hH hL hM hN) [x11, x22, x33, c * x12] =
      quad6 (hill_TRI_DEFAULT_all c c3 fn hF hG hH hL hM hN) [x11, x33, x22, 0, c * x12, 0] := by
  simp only [gen_simp, quad4, quad6]
  ring

/-! ## orthotropic stiffness tensors -/

/-- 3D, documented meaning: the normal block is the inverse of the compliance matrix
    S = [[1/E1, -ν12/E1, -ν13/E1], [-ν12/E1, 1/E2, -ν23/E2], [-ν13/E1, -ν23/E2, 1/E3]]  (C·S = 1, nine equations),
    the shear block is diag(2 G12, 2 G13, 2 G23) in Mandel storage. `hd`: the determinant formed by the code is not 0. -/
theorem stiff_TRI_inverse_of_compliance (E1 E2 E3 nu12 nu23 nu13 G12 G23 G13 : K)
    (hd : stiff_TRI_U_DEFAULT_den3 c c3 fn E1 E2 E3 nu12 nu23 nu13 G12 G23 G13 ≠ 0) :
    stiff_TRI_U_DEFAULT_r0_0 c c3 fn E1 E2 E3 nu12 nu23 nu13 G12 G23 G13 * (1 / E1) + stiff_TRI_U_DEFAULT_r0_1 c c3 fn E1 E2 E3 nu12 nu23 nu13 G12 G23 G13 * (-nu12 / E1) + stiff_TRI_U_DEFAULT_r0_2 c c3 fn E1 E2 E3 nu12 nu23 nu13 G12 G23 G13 * (-nu13 / E1) = 1 ∧
    stiff_TRI_U_DEFAULT_r0_0 c c3 fn E1 E2 E3 nu12 nu23 nu13 G12 G23 G13 * (-nu12 / E1) + stiff_TRI_U_DEFAULT_r0_1 c c3 fn E1 E2 E3 nu12 nu23 nu13 G12 G23 G13 * (1 / E2) + stiff_TRI_U_DEFAULT_r0_2 c c3 fn E1 E2 E3 nu12 nu23 nu13 G12 G23 G13 * (-nu23 / E2) = 0 ∧
    stiff_TRI_U_DEFAULT_r0_0 c c3 fn E1 E2 E3 nu12 nu23 nu13 G12 G23 G13 * (-nu13 / E1) + stiff_TRI_U_DEFAULT_r0_1 c c3 fn E1 E2 E3 nu12 nu23 nu13 G12 G23 G13 * (-nu23 / E2) + stiff_TRI_U_DEFAULT_r0_2 c c3 fn E1 E2 E3 nu12 nu23 nu13 G12 G23 G13 * (1 / E3) = 0 ∧
    stiff_TRI_U_DEFAULT_r1_0 c c3 fn E1 E2 E3 nu12 nu23 nu13 G12 G23 G13 * (1 / E1) + stiff_TRI_U_DEFAULT_r1_1 c c3 fn E1 E2 E3 nu12 nu23 nu13 G12 G23 G13 * (-nu12 / E1) + stiff_TRI_U_DEFAULT_r1_2 c c3 fn E1 E2 E3 nu12 nu23 nu13 G12 G23 G13 * (-nu13 / E1) = 0 ∧
    stiff_TRI_U_DEFAULT_r1_0 c c3 fn E1 E2 E3 nu12 nu23 nu13 G12 G23 G13 * (-nu12 / E1) + stiff_TRI_U_DEFAULT_r1_1 c c3 fn E1 E2 E3 nu12 nu23 nu13 G12 G23 G13 * (1 / E2) + stiff_TRI_U_DEFAULT_r1_2 c c3 fn E1 E2 E3 nu12 nu23 nu13 G12 G23 G13 * (-nu23 / E2) = 1 ∧
    stiff_TRI_U_DEFAULT_r1_0 c c3 fn E1 E2 E3 nu12 nu23 nu13 G12 G23 G13 * (-nu13 / E1) + stiff_TRI_U_DEFAULT_r1_1 c c3 fn E1 E2 E3 nu12 nu23 nu13 G12 G23 G13 * (-nu23 / E2) + stiff_TRI_U_DEFAULT_r1_2 c c3 fn E1 E2 E3 nu12 nu23 nu13 G12 G23 G13 * (1 / E3) = 0 ∧
    stiff_TRI_U_DEFAULT_r2_0 c c3 fn E1 E2 E3 nu12 nu23 nu13 G12 G23 G13 * (1 / E1) + stiff_TRI_U_DEFAULT_r2_1 c c3 fn E1 E2 E3 nu12 nu23 nu13 G12 G23 G13 * (-nu12 / E1) + stiff_TRI_U_DEFAULT_r2_2 c c3 fn E1 E2 E3 nu12 nu23 nu13 G12 G23 G13 * (-nu13 / E1) = 0 ∧
    stiff_TRI_U_DEFAULT_r2_0 c c3 fn E1 E2 E3 nu12 nu23 nu13 G12 G23 G13 * (-nu12 / E1) + stiff_TRI_U_DEFAULT_r2_1 c c3 fn E1 E2 E3 nu12 nu23 nu13 G12 G23 G13 * (1 / E2) + stiff_TRI_U_DEFAULT_r2_2 c c3 fn E1 E2 E3 nu12 nu23 nu13 G12 G23 G13 * (-nu23 / E2) = 0 ∧
    stiff_TRI_U_DEFAULT_r2_0 c c3 fn E1 E2 E3 nu12 nu23 nu13 G12 G23 G13 * (-nu13 / E1) + stiff_TRI_U_DEFAULT_r2_1 c c3 fn E1 E2 E3 nu12 nu23 nu13 G12 G23 G13 * (-nu23 / E2) + stiff_TRI_U_DEFAULT_r2_2 c c3 fn E1 E2 E3 nu12 nu23 nu13 G12 G23 G13 * (1 / E3) = 1 ∧
    stiff_TRI_U_DEFAULT_r3_3 c c3 fn E1 E2 E3 nu12 nu23 nu13 G12 G23 G13 = 2 * G12 ∧
    stiff_TRI_U_DEFAULT_r4_4 c c3 fn E1 E2 E3 nu12 nu23 nu13 G12 G23 G13 = 2 * G13 ∧
    stiff_TRI_U_DEFAULT_r5_5 c c3 fn E1 E2 E3 nu12 nu23 nu13 G12 G23 G13 = 2 * G23 := by
  stiff3d hd

/-- AxisymmetricalGeneralisedPlaneStrain, UNALTERED, DEFAULT: component (i,j) = component (π i, π j) of the 3D stiffness tensor, π = [0, 1, 2] -/
theorem stiff_AGPE_U_DEFAULT (E1 E2 E3 nu12 nu23 nu13 G12 G23 G13 : K) :
    stiff_AGPE_U_DEFAULT_r0_0 c c3 fn E1 E2 E3 nu12 nu23 nu13 G12 G23 G13 = stiff_TRI_U_DEFAULT_r0_0 c c3 fn E1 E2 E3 nu12 nu23 nu13 G12 G23 G13 ∧
    stiff_AGPE_U_DEFAULT_r0_1 c c3 fn E1 E2 E3 nu12 nu23 nu13 G12 G23 G13 = stiff_TRI_U_DEFAULT_r0_1 c c3 fn E1 E2 E3 nu12 nu23 nu13 G12 G23 G13 ∧
    stiff_AGPE_U_DEFAULT_r0_2 c c3 fn E1 E2 E3 nu12 nu23 nu13 G12 G23 G13 = stiff_TRI_U_DEFAULT_r0_2 c c3 fn E1 E2 E3 nu12 nu23 nu13 G12 G23 G13 ∧
    stiff_AGPE_U_DEFAULT_r1_0 c c3 fn E1 E2 E3 nu12 nu23 nu13 G12 G23 G13 = stiff_TRI_U_DEFAULT_r1_0 c c3 fn E1 E2 E3 nu12 nu23 nu13 G12 G23 G13 ∧
    stiff_AGPE_U_DEFAULT_r1_1 c c3 fn E1 E2 E3 nu12 nu23 nu13 G12 G23 G13 = stiff_TRI_U_DEFAULT_r1_1 c c3 fn E1 E2 E3 nu12 nu23 nu13 G12 G23 G13 ∧
    stiff_AGPE_U_DEFAULT_r1_2 c c3 fn E1 E2 E3 nu12 nu23 nu13 G12 G23 G13 = stiff_TRI_U_DEFAULT_r1_2 c c3 fn E1 E2 E3 nu12 nu23 nu13 G12 G23 G13 ∧
    stiff_AGPE_U_DEFAULT_r2_0 c c3 fn E1 E2 E3 nu12 nu23 nu13 G12 G23 G13 = stiff_TRI_U_DEFAULT_r2_0 c c3 fn E1 E2 E3 nu12 nu23 nu13 G12 G23 G13 ∧
    stiff_AGPE_U_DEFAULT_r2_1 c c3 fn E1 E2 E3 nu12 nu23 nu13 G12 G23 G13 = stiff_TRI_U_DEFAULT_r2_1 c c3 fn E1 E2 E3 nu12 nu23 nu13 G12 G23 G13 ∧
    stiff_AGPE_U_DEFAULT_r2_2 c c3 fn E1 E2 E3 nu12 nu23 nu13 G12 G23 G13 = stiff_TRI_U_DEFAULT_r2_2 c c3 fn E1 E2 E3 nu12 nu23 nu13 G12 G23 G13 := by
  axes_eq

/-- AxisymmetricalGeneralisedPlaneStrain, UNALTERED, PIPE: component (i,j) = component (π i, π j) of the 3D stiffness tensor, π = [0, 1, 2] -/
theorem stiff_AGPE_U_PIPE (E1 E2 E3 nu12 nu23 nu13 G12 G23 G13 : K) :
    stiff_AGPE_U_PIPE_r0_0 c c3 fn E1 E2 E3 nu12 nu23 nu13 G12 G23 G13 = stiff_TRI_U_DEFAULT_r0_0 c c3 fn E1 E2 E3 nu12 nu23 nu13 G12 G23 G13 ∧
    stiff_AGPE_U_PIPE_r0_1 c c3 fn E1 E2 E3 nu12 nu23 nu13 G12 G23 G13 = stiff_TRI_U_DEFAULT_r0_1 c c3 fn E1 E2 E3 nu12 nu23 nu13 G12 G23 G13 ∧
    stiff_AGPE_U_PIPE_r0_2 c c3 fn E1 E2 E3 nu12 nu23 nu13 G12 G23 G13 = stiff_TRI_U_DEFAULT_r0_2 c c3 fn E1 E2 E3 nu12 nu23 nu13 G12 G23 G13 ∧
    stiff_AGPE_U_PIPE_r1_0 c c3 fn E1 E2 E3 nu12 nu23 nu13 G12 G23 G13 = stiff_TRI_U_DEFAULT_r1_0 c c3 fn E1 E2 E3 nu12 nu23 nu13 G12 G23 G13 ∧
    stiff_AGPE_U_PIPE_r1_1 c c3 fn E1 E2 E3 nu12 nu23 nu13 G12 G23 G13 = stiff_TRI_U_DEFAULT_r1_1 c c3 fn E1 E2 E3 nu12 nu23 nu13 G12 G23 G13 ∧
    stiff_AGPE_U_PIPE_r1_2 c c3 fn E1 E2 E3 nu12 nu23 nu13 G12 G23 G13 = stiff_TRI_U_DEFAULT_r1_2 c c3 fn E1 E2 E3 nu12 nu23 nu13 G12 G23 G13 ∧
    stiff_AGPE_U_PIPE_r2_0 c c3 fn E1 E2 E3 nu12 nu23 nu13 G12 G23 G13 = stiff_TRI_U_DEFAULT_r2_0 c c3 fn E1 E2 E3 nu12 nu23 nu13 G12 G23 G13 ∧
    stiff_AGPE_U_PIPE_r2_1 c c3 fn E1 E2 E3 nu12 nu23 nu13 G12 G23 G13 = stiff_TRI_U_DEFAULT_r2_1 c c3 fn E1 E2 E3 nu12 nu23 nu13 G12 G23 G13 ∧
    stiff_AGPE_U_PIPE_r2_2 c c3 fn E1 E2 E3 nu12 nu23 nu13 G12 G23 G13 = stiff_TRI_U_DEFAULT_r2_2 c c3 fn E1 E2 E3 nu12 nu23 nu13 G12 G23 G13 := by
  axes_eq

/-- AxisymmetricalGeneralisedPlaneStrain, ALTERED (no alteration for this hypothesis), DEFAULT: component (i,j) = component (π i, π j) of the 3D stiffness tensor, π = [0, 1, 2] -/
theorem stiff_AGPE_A_DEFAULT (E1 E2 E3 nu12 nu23 nu13 G12 G23 G13 : K) :
    stiff_AGPE_A_DEFAULT_r0_0 c c3 fn E1 E2 E3 nu12 nu23 nu13 G12 G23 G13 = stiff_TRI_U_DEFAULT_r0_0 c c3 fn E1 E2 E3 nu12 nu23 nu13 G12 G23 G13 ∧
    stiff_AGPE_A_DEFAULT_r0_1 c c3 fn E1 E2 E3 nu12 nu23 nu13 G12 G23 G13 = stiff_TRI_U_DEFAULT_r0_1 c c3 fn E1 E2 E3 nu12 nu23 nu13 G12 G23 G13 ∧
    stiff_AGPE_A_DEFAULT_r0_2 c c3 fn E1 E2 E3 nu12 nu23 nu13 G12 G23 G13 = stiff_TRI_U_DEFAULT_r0_2 c c3 fn E1 E2 E3 nu12 nu23 nu13 G12 G23 G13 ∧
    stiff_AGPE_A_DEFAULT_r1_0 c c3 fn E1 E2 E3 nu12 nu23 nu13 G12 G23 G13 = stiff_TRI_U_DEFAULT_r1_0 c c3 fn E1 E2 E3 nu12 nu23 nu13 G12 G23 G13 ∧
    stiff_AGPE_A_DEFAULT_r1_1 c c3 fn E1 E2 E3 nu12 nu23 nu13 G12 G23 G13 = stiff_TRI_U_DEFAULT_r1_1 c c3 fn E1 E2 E3 nu12 nu23 nu13 G12 G23 G13 ∧
    stiff_AGPE_A_DEFAULT_r1_2 c c3 fn E1 E2 E3 nu12 nu23 nu13 G12 G23 G13 = stiff_TRI_U_DEFAULT_r1_2 c c3 fn E1 E2 E3 nu12 nu23 nu13 G12 G23 G13 ∧
    stiff_AGPE_A_DEFAULT_r2_0 c c3 fn E1 E2 E3 nu12 nu23 nu13 G12 G23 G13 = stiff_TRI_U_DEFAULT_r2_0 c c3 fn E1 E2 E3 nu12 nu23 nu13 G12 G23 G13 ∧
    stiff_AGPE_A_DEFAULT_r2_1 c c3 fn E1 E2 E3 nu12 nu23 nu13 G12 G23 G13 = stiff_TRI_U_DEFAULT_r2_1 c c3 fn E1 E2 E3 nu12 nu23 nu13 G12 G23 G13 ∧
    stiff_AGPE_A_DEFAULT_r2_2 c c3 fn E1 E2 E3 nu12 nu23 nu13 G12 G23 G13 = stiff_TRI_U_DEFAULT_r2_2 c c3 fn E1 E2 E3 nu12 nu23 nu13 G12 G23 G13 := by
  axes_eq

/-- AxisymmetricalGeneralisedPlaneStrain, ALTERED (no alteration for this hypothesis), PIPE: component (i,j) = component (π i, π j) of the 3D stiffness tensor, π = [0, 1, 2] -/
theorem stiff_AGPE_A_PIPE (E1 E2 E3 nu12 nu23 nu13 G12 G23 G13 : K) :
    stiff_AGPE_A_PIPE_r0_0 c c3 fn E1 E2 E3 nu12 nu23 nu13 G12 G23 G13 = stiff_TRI_U_DEFAULT_r0_0 c c3 fn E1 E2 E3 nu12 nu23 nu13 G12 G23 G13 ∧
    stiff_AGPE_A_PIPE_r0_1 c c3 fn E1 E2 E3 nu12 nu23 nu13 G12 G23 G13 = stiff_TRI_U_DEFAULT_r0_1 c c3 fn E1 E2 E3 nu12 nu23 nu13 G12 G23 G13 ∧
    stiff_AGPE_A_PIPE_r0_2 c c3 fn E1 E2 E3 nu12 nu23 nu13 G12 G23 G13 = stiff_TRI_U_DEFAULT_r0_2 c c3 fn E1 E2 E3 nu12 nu23 nu13 G12 G23 G13 ∧
    stiff_AGPE_A_PIPE_r1_0 c c3 fn E1 E2 E3 nu12 nu23 nu13 G12 G23 G13 = stiff_TRI_U_DEFAULT_r1_0 c c3 fn E1 E2 E3 nu12 nu23 nu13 G12 G23 G13 ∧
    stiff_AGPE_A_PIPE_r1_1 c c3 fn E1 E2 E3 nu12 nu23 nu13 G12 G23 G13 = stiff_TRI_U_DEFAULT_r1_1 c c3 fn E1 E2 E3 nu12 nu23 nu13 G12 G23 G13 ∧
    stiff_AGPE_A_PIPE_r1_2 c c3 fn E1 E2 E3 nu12 nu23 nu13 G12 G23 G13 = stiff_TRI_U_DEFAULT_r1_2 c c3 fn E1 E2 E3 nu12 nu23 nu13 G12 G23 G13 ∧
    stiff_AGPE_A_PIPE_r2_0 c c3 fn E1 E2 E3 nu12 nu23 nu13 G12 G23 G13 = stiff_TRI_U_DEFAULT_r2_0 c c3 fn E1 E2 E3 nu12 nu23 nu13 G12 G23 G13 ∧
    stiff_AGPE_A_PIPE_r2_1 c c3 fn E1 E2 E3 nu12 nu23 nu13 G12 G23 G13 = stiff_TRI_U_DEFAULT_r2_1 c c3 fn E1 E2 E3 nu12 nu23 nu13 G12 G23 G13 ∧
    stiff_AGPE_A_PIPE_r2_2 c c3 fn E1 E2 E3 nu12 nu23 nu13 G12 G23 G13 = stiff_TRI_U_DEFAULT_r2_2 c c3 fn E1 E2 E3 nu12 nu23 nu13 G12 G23 G13 := by
  axes_eq

/-- AxisymmetricalGeneralisedPlaneStress, UNALTERED, DEFAULT: component (i,j) = component (π i, π j) of the 3D stiffness tensor, π = [0, 1, 2] -/
theorem stiff_AGPS_U_DEFAULT (E1 E2 E3 nu12 nu23 nu13 G12 G23 G13 : K) :
    stiff_AGPS_U_DEFAULT_r0_0 c c3 fn E1 E2 E3 nu12 nu23 nu13 G12 G23 G13 = stiff_TRI_U_DEFAULT_r0_0 c c3 fn E1 E2 E3 nu12 nu23 nu13 G12 G23 G13 ∧
    stiff_AGPS_U_DEFAULT_r0_1 c c3 fn E1 E2 E3 nu12 nu23 nu13 G12 G23 G13 = stiff_TRI_U_DEFAULT_r0_1 c c3 fn E1 E2 E3 nu12 nu23 nu13 G12 G23 G13 ∧
    stiff_AGPS_U_DEFAULT_r0_2 c c3 fn E1 E2 E3 nu12 nu23 nu13 G12 G23 G13 = stiff_TRI_U_DEFAULT_r0_2 c c3 fn E1 E2 E3 nu12 nu23 nu13 G12 G23 G13 ∧
    stiff_AGPS_U_DEFAULT_r1_0 c c3 fn E1 E2 E3 nu12 nu23 nu13 G12 G23 G13 = stiff_TRI_U_DEFAULT_r1_0 c c3 fn E1 E2 E3 nu12 nu23 nu13 G12 G23 G13 ∧
    stiff_AGPS_U_DEFAULT_r1_1 c c3 fn E1 E2 E3 nu12 nu23 nu13 G12 G23 G13 = stiff_TRI_U_DEFAULT_r1_1 c c3 fn E1 E2 E3 nu12 nu23 nu13 G12 G23 G13 ∧
    stiff_AGPS_U_DEFAULT_r1_2 c c3 fn E1 E2 E3 nu12 nu23 nu13 G12 G23 G13 = stiff_TRI_U_DEFAULT_r1_2 c c3 fn E1 E2 E3 nu12 nu23 nu13 G12 G23 G13 ∧
    stiff_AGPS_U_DEFAULT_r2_0 c c3 fn E1 E2 E3 nu12 nu23 nu13 G12 G23 G13 = stiff_TRI_U_DEFAULT_r2_0 c c3 fn E1 E2 E3 nu12 nu23 nu13 G12 G23 G13 ∧
    stiff_AGPS_U_DEFAULT_r2_1 c c3 fn E1 E2 E3 nu12 nu23 nu13 G12 G23 G13 = stiff_TRI_U_DEFAULT_r2_1 c c3 fn E1 E2 E3 nu12 nu23 nu13 G12 G23 G13 ∧
    stiff_AGPS_U_DEFAULT_r2_2 c c3 fn E1 E2 E3 nu12 nu23 nu13 G12 G23 G13 = stiff_TRI_U_DEFAULT_r2_2 c c3 fn E1 E2 E3 nu12 nu23 nu13 G12 G23 G13 := by
  axes_eq

/-- AxisymmetricalGeneralisedPlaneStress, UNALTERED, PIPE: component (i,j) = component (π i, π j) of the 3D stiffness tensor, π = [0, 1, 2] -/
theorem stiff_AGPS_U_PIPE (E1 E2 E3 nu12 nu23 nu13 G12 G23 G13 : K) :
    stiff_AGPS_U_PIPE_r0_0 c c3 fn E1 E2 E3 nu12 nu23 nu13 G12 G23 G13 = stiff_TRI_U_DEFAULT_r0_0 c c3 fn E1 E2 E3 nu12 nu23 nu13 G12 G23 G13 ∧
    stiff_AGPS_U_PIPE_r0_1 c c3 fn E1 E2 E3 nu12 nu23 nu13 G12 G23 G13 = stiff_TRI_U_DEFAULT_r0_1 c c3 fn E1 E2 E3 nu12 nu23 nu13 G12 G23 G13 ∧
    stiff_AGPS_U_PIPE_r0_2 c c3 fn E1 E2 E3 nu12 nu23 nu13 G12 G23 G13 = stiff_TRI_U_DEFAULT_r0_2 c c3 fn E1 E2 E3 nu12 nu23 nu13 G12 G23 G13 ∧
    stiff_AGPS_U_PIPE_r1_0 c c3 fn E1 E2 E3 nu12 nu23 nu13 G12 G23 G13 = stiff_TRI_U_DEFAULT_r1_0 c c3 fn E1 E2 E3 nu12 nu23 nu13 G12 G23 G13 ∧
    stiff_AGPS_U_PIPE_r1_1 c c3 fn E1 E2 E3 nu12 nu23 nu13 G12 G23 G13 = stiff_TRI_U_DEFAULT_r1_1 c c3 fn E1 E2 E3 nu12 nu23 nu13 G12 G23 G13 ∧
    stiff_AGPS_U_PIPE_r1_2 c c3 fn E1 E2 E3 nu12 nu23 nu13 G12 G23 G13 = stiff_TRI_U_DEFAULT_r1_2 c c3 fn E1 E2 E3 nu12 nu23 nu13 G12 G23 G13 ∧
    stiff_AGPS_U_PIPE_r2_0 c c3 fn E1 E2 E3 nu12 nu23 nu13 G12 G23 G13 = stiff_TRI_U_DEFAULT_r2_0 c c3 fn E1 E2 E3 nu12 nu23 nu13 G12 G23 G13 ∧
    stiff_AGPS_U_PIPE_r2_1 c c3 fn E1 E2 E3 nu12 nu23 nu13 G12 G23 G13 = stiff_TRI_U_DEFAULT_r2_1 c c3 fn E1 E2 E3 nu12 nu23 nu13 G12 G23 G13 ∧
    stiff_AGPS_U_PIPE_r2_2 c c3 fn E1 E2 E3 nu12 nu23 nu13 G12 G23 G13 = stiff_TRI_U_DEFAULT_r2_2 c c3 fn E1 E2 E3 nu12 nu23 nu13 G12 G23 G13 := by
  axes_eq

/-- AxisymmetricalGeneralisedPlaneStress, ALTERED, DEFAULT: in-plane components = static condensation of the 3D stiffness tensor on the stress-free 3D axis 1 (C_ij − C_ik C_kj / C_kk read through π = [0, 1, 2]), zero row and column for that axis -/
theorem stiff_AGPS_A_DEFAULT (E1 E2 E3 nu12 nu23 nu13 G12 G23 G13 : K) :
    stiff_AGPS_A_DEFAULT_r0_0 c c3 fn E1 E2 E3 nu12 nu23 nu13 G12 G23 G13 = stiff_TRI_U_DEFAULT_r0_0 c c3 fn E1 E2 E3 nu12 nu23 nu13 G12 G23 G13 - stiff_TRI_U_DEFAULT_r0_1 c c3 fn E1 E2 E3 nu12 nu23 nu13 G12 G23 G13 * (stiff_TRI_U_DEFAULT_r1_0 c c3 fn E1 E2 E3 nu12 nu23 nu13 G12 G23 G13 / stiff_TRI_U_DEFAULT_r1_1 c c3 fn E1 E2 E3 nu12 nu23 nu13 G12 G23 G13) ∧
    stiff_AGPS_A_DEFAULT_r0_1 c c3 fn E1 E2 E3 nu12 nu23 nu13 G12 G23 G13 = 0 ∧
    stiff_AGPS_A_DEFAULT_r0_2 c c3 fn E1 E2 E3 nu12 nu23 nu13 G12 G23 G13 = stiff_TRI_U_DEFAULT_r0_2 c c3 fn E1 E2 E3 nu12 nu23 nu13 G12 G23 G13 - stiff_TRI_U_DEFAULT_r0_1 c c3 fn E1 E2 E3 nu12 nu23 nu13 G12 G23 G13 * (stiff_TRI_U_DEFAULT_r1_2 c c3 fn E1 E2 E3 nu12 nu23 nu13 G12 G23 G13 / stiff_TRI_U_DEFAULT_r1_1 c c3 fn E1 E2 E3 nu12 nu23 nu13 G12 G23 G13) ∧
    stiff_AGPS_A_DEFAULT_r1_0 c c3 fn E1 E2 E3 nu12 nu23 nu13 G12 G23 G13 = 0 ∧
    stiff_AGPS_A_DEFAULT_r1_1 c c3 fn E1 E2 E3 nu12 nu23 nu13 G12 G23 G13 = 0 ∧
    stiff_AGPS_A_DEFAULT_r1_2 c c3 fn E1 E2 E3 nu12 nu23 nu13 G12 G23 G13 = 0 ∧
    stiff_AGPS_A_DEFAULT_r2_0 c c3 fn E1 E2 E3 nu12 nu23 nu13 G12 G23 G13 = stiff_TRI_U_DEFAULT_r2_0 c c3 fn E1 E2 E3 nu12 nu23 nu13 G12 G23 G13 - stiff_TRI_U_DEFAULT_r2_1 c c3 fn E1 E2 E3 nu12 nu23 nu13 G12 G23 G13 * (stiff_TRI_U_DEFAULT_r1_0 c c3 fn E1 E2 E3 nu12 nu23 nu13 G12 G23 G13 / stiff_TRI_U_DEFAULT_r1_1 c c3 fn E1 E2 E3 nu12 nu23 nu13 G12 G23 G13) ∧
    stiff_AGPS_A_DEFAULT_r2_1 c c3 fn E1 E2 E3 nu12 nu23 nu13 G12 G23 G13 = 0 ∧
    stiff_AGPS_A_DEFAULT_r2_2 c c3 fn E1 E2 E3 nu12 nu23 nu13 G12 G23 G13 = stiff_TRI_U_DEFAULT_r2_2 c c3 fn E1 E2 E3 nu12 nu23 nu13 G12 G23 G13 - stiff_TRI_U_DEFAULT_r2_1 c c3 fn E1 E2 E3 nu12 nu23 nu13 G12 G23 G13 * (stiff_TRI_U_DEFAULT_r1_2 c c3 fn E1 E2 E3 nu12 nu23 nu13 G12 G23 G13 / stiff_TRI_U_DEFAULT_r1_1 c c3 fn E1 E2 E3 nu12 nu23 nu13 G12 G23 G13) := by
  axes_eq

/-- AxisymmetricalGeneralisedPlaneStress, ALTERED, PIPE: in-plane components = static condensation of the 3D stiffness tensor on the stress-free 3D axis 1 (C_ij − C_ik C_kj / C_kk read through π = [0, 1, 2]), zero row and column for that axis -/
theorem stiff_AGPS_A_PIPE (E1 E2 E3 nu12 nu23 nu13 G12 G23 G13 : K) :
    stiff_AGPS_A_PIPE_r0_0 c c3 fn E1 E2 E3 nu12 nu23 nu13 G12 G23 G13 = stiff_TRI_U_DEFAULT_r0_0 c c3 fn E1 E2 E3 nu12 nu23 nu13 G12 G23 G13 - stiff_TRI_U_DEFAULT_r0_1 c c3 fn E1 E2 E3 nu12 nu23 nu13 G12 G23 G13 * (stiff_TRI_U_DEFAULT_r1_0 c c3 fn E1 E2 E3 nu12 nu23 nu13 G12 G23 G13 / stiff_TRI_U_DEFAULT_r1_1 c c3 fn E1 E2 E3 nu12 nu23 nu13 G12 G23 G13) ∧
    stiff_AGPS_A_PIPE_r0_1 c c3 fn E1 E2 E3 nu12 nu23 nu13 G12 G23 G13 = 0 ∧
    stiff_AGPS_A_PIPE_r0_2 c c3 fn E1 E2 E3 nu12 nu23 nu13 G12 G23 G13 = stiff_TRI_U_DEFAULT_r0_2 c c3 fn E1 E2 E3 nu12 nu23 nu13 G12 G23 G13 - stiff_TRI_U_DEFAULT_r0_1 c c3 fn E1 E2 E3 nu12 nu23 nu13 G12 G23 G13 * (stiff_TRI_U_DEFAULT_r1_2 c c3 fn E1 E2 E3 nu12 nu23 nu13 G12 G23 G13 / stiff_TRI_U_DEFAULT_r1_1 c c3 fn E1 E2 E3 nu12 nu23 nu13 G12 G23 G13) ∧
    stiff_AGPS_A_PIPE_r1_0 c c3 fn E1 E2 E3 nu12 nu23 nu13 G12 G23 G13 = 0 ∧
    stiff_AGPS_A_PIPE_r1_1 c c3 fn E1 E2 E3 nu12 nu23 nu13 G12 G23 G13 = 0 ∧
    stiff_AGPS_A_PIPE_r1_2 c c3 fn E1 E2 E3 nu12 nu23 nu13 G12 G23 G13 = 0 ∧
    stiff_AGPS_A_PIPE_r2_0 c c3 fn E1 E2 E3 nu12 nu23 nu13 G12 G23 G13 = stiff_TRI_U_DEFAULT_r2_0 c c3 fn E1 E2 E3 nu12 nu23 nu13 G12 G23 G13 - stiff_TRI_U_DEFAULT_r2_1 c c3 fn E1 E2 E3 nu12 nu23 nu13 G12 G23 G13 * (stiff_TRI_U_DEFAULT_r1_0 c c3 fn E1 E2 E3 nu12 nu23 nu13 G12 G23 G13 / stiff_TRI_U_DEFAULT_r1_1 c c3 fn E1 E2 E3 nu12 nu23 nu13 G12 G23 G13) ∧
    stiff_AGPS_A_PIPE_r2_1 c c3 fn E1 E2 E3 nu12 nu23 nu13 G12 G23 G13 = 0 ∧
    stiff_AGPS_A_PIPE_r2_2 c c3 fn E1 E2 E3 nu12 nu23 nu13 G12 G23 G13 = stiff_TRI_U_DEFAULT_r2_2 c c3 fn E1 E2 E3 nu12 nu23 nu13 G12 G23 G13 - stiff_TRI_U_DEFAULT_r2_1 c c3 fn E1 E2 E3 nu12 nu23 nu13 G12 G23 G13 * (stiff_TRI_U_DEFAULT_r1_2 c c3 fn E1 E2 E3 nu12 nu23 nu13 G12 G23 G13 / stiff_TRI_U_DEFAULT_r1_1 c c3 fn E1 E2 E3 nu12 nu23 nu13 G12 G23 G13) := by
  axes_eq

/-- Axisymmetrical, UNALTERED, DEFAULT: component (i,j) = component (π i, π j) of the 3D stiffness tensor, π = [0, 1, 2, 3] -/
theorem stiff_AXI_U_DEFAULT (E1 E2 E3 nu12 nu23 nu13 G12 G23 G13 : K) :
    stiff_AXI_U_DEFAULT_r0_0 c c3 fn E1 E2 E3 nu12 nu23 nu13 G12 G23 G13 = stiff_TRI_U_DEFAULT_r0_0 c c3 fn E1 E2 E3 nu12 nu23 nu13 G12 G23 G13 ∧
    stiff_AXI_U_DEFAULT_r0_1 c c3 fn E1 E2 E3 nu12 nu23 nu13 G12 G23 G13 = stiff_TRI_U_DEFAULT_r0_1 c c3 fn E1 E2 E3 nu12 nu23 nu13 G12 G23 G13 ∧
    stiff_AXI_U_DEFAULT_r0_2 c c3 fn E1 E2 E3 nu12 nu23 nu13 G12 G23 G13 = stiff_TRI_U_DEFAULT_r0_2 c c3 fn E1 E2 E3 nu12 nu23 nu13 G12 G23 G13 ∧
    stiff_AXI_U_DEFAULT_r0_3 c c3 fn E1 E2 E3 nu12 nu23 nu13 G12 G23 G13 = stiff_TRI_U_DEFAULT_r0_3 c c3 fn E1 E2 E3 nu12 nu23 nu13 G12 G23 G13 ∧
    stiff_AXI_U_DEFAULT_r1_0 c c3 fn E1 E2 E3 nu12 nu23 nu13 G12 G23 G13 = stiff_TRI_U_DEFAULT_r1_0 c c3 fn E1 E2 E3 nu12 nu23 nu13 G12 G23 G13 ∧
    stiff_AXI_U_DEFAULT_r1_1 c c3 fn E1 E2 E3 nu12 nu23 nu13 G12 G23 G13 = stiff_TRI_U_DEFAULT_r1_1 c c3 fn E1 E2 E3 nu12 nu23 nu13 G12 G23 G13 ∧
    stiff_AXI_U_DEFAULT_r1_2 c c3 fn E1 E2 E3 nu12 nu23 nu13 G12 G23 G13 = stiff_TRI_U_DEFAULT_r1_2 c c3 fn E1 E2 E3 nu12 nu23 nu13 G12 G23 G13 ∧
    stiff_AXI_U_DEFAULT_r1_3 c c3 fn E1 E2 E3 nu12 nu23 nu13 G12 G23 G13 = stiff_TRI_U_DEFAULT_r1_3 c c3 fn E1 E2 E3 nu12 nu23 nu13 G12 G23 G13 ∧
    stiff_AXI_U_DEFAULT_r2_0 c c3 fn E1 E2 E3 nu12 nu23 nu13 G12 G23 G13 = stiff_TRI_U_DEFAULT_r2_0 c c3 fn E1 E2 E3 nu12 nu23 nu13 G12 G23 G13 ∧
    stiff_AXI_U_DEFAULT_r2_1 c c3 fn E1 E2 E3 nu12 nu23 nu13 G12 G23 G13 = stiff_TRI_U_DEFAULT_r2_1 c c3 fn E1 E2 E3 nu12 nu23 nu13 G12 G23 G13 ∧
    stiff_AXI_U_DEFAULT_r2_2 c c3 fn E1 E2 E3 nu12 nu23 nu13 G12 G23 G13 = stiff_TRI_U_DEFAULT_r2_2 c c3 fn E1 E2 E3 nu12 nu23 nu13 G12 G23 G13 ∧
    stiff_AXI_U_DEFAULT_r2_3 c c3 fn E1 E2 E3 nu12 nu23 nu13 G12 G23 G13 = stiff_TRI_U_DEFAULT_r2_3 c c3 fn E1 E2 E3 nu12 nu23 nu13 G12 G23 G13 ∧
    stiff_AXI_U_DEFAULT_r3_0 c c3 fn E1 E2 E3 nu12 nu23 nu13 G12 G23 G13 = stiff_TRI_U_DEFAULT_r3_0 c c3 fn E1 E2 E3 nu12 nu23 nu13 G12 G23 G13 ∧
    stiff_AXI_U_DEFAULT_r3_1 c c3 fn E1 E2 E3 nu12 nu23 nu13 G12 G23 G13 = stiff_TRI_U_DEFAULT_r3_1 c c3 fn E1 E2 E3 nu12 nu23 nu13 G12 G23 G13 ∧
    stiff_AXI_U_DEFAULT_r3_2 c c3 fn E1 E2 E3 nu12 nu23 nu13 G12 G23 G13 = stiff_TRI_U_DEFAULT_r3_2 c c3 fn E1 E2 E3 nu12 nu23 nu13 G12 G23 G13 ∧
    stiff_AXI_U_DEFAULT_r3_3 c c3 fn E1 E2 E3 nu12 nu23 nu13 G12 G23 G13 = stiff_TRI_U_DEFAULT_r3_3 c c3 fn E1 E2 E3 nu12 nu23 nu13 G12 G23 G13 := by
  axes_eq

/-- Axisymmetrical, UNALTERED, PIPE: component (i,j) = component (π i, π j) of the 3D stiffness tensor, π = [0, 1, 2, 3] -/
theorem stiff_AXI_U_PIPE (E1 E2 E3 nu12 nu23 nu13 G12 G23 G13 : K) :
    stiff_AXI_U_PIPE_r0_0 c c3 fn E1 E2 E3 nu12 nu23 nu13 G12 G23 G13 = stiff_TRI_U_DEFAULT_r0_0 c c3 fn E1 E2 E3 nu12 nu23 nu13 G12 G23 G13 ∧
    stiff_AXI_U_PIPE_r0_1 c c3 fn E1 E2 E3 nu12 nu23 nu13 G12 G23 G13 = stiff_TRI_U_DEFAULT_r0_1 c c3 fn E1 E2 E3 nu12 nu23 nu13 G12 G23 G13 ∧
    stiff_AXI_U_PIPE_r0_2 c c3 fn E1 E2 E3 nu12 nu23 nu13 G12 G23 G13 = stiff_TRI_U_DEFAULT_r0_2 c c3 fn E1 E2 E3 nu12 nu23 nu13 G12 G23 G13 ∧
    stiff_AXI_U_PIPE_r0_3 c c3 fn E1 E2 E3 nu12 nu23 nu13 G12 G23 G13 = stiff_TRI_U_DEFAULT_r0_3 c c3 fn E1 E2 E3 nu12 nu23 nu13 G12 G23 G13 ∧
    stiff_AXI_U_PIPE_r1_0 c c3 fn E1 E2 E3 nu12 nu23 nu13 G12 G23 G13 = stiff_TRI_U_DEFAULT_r1_0 c c3 fn E1 E2 E3 nu12 nu23 nu13 G12 G23 G13 ∧
    stiff_AXI_U_PIPE_r1_1 c c3 fn E1 E2 E3 nu12 nu23 nu13 G12 G23 G13 = stiff_TRI_U_DEFAULT_r1_1 c c3 fn E1 E2 E3 nu12 nu23 nu13 G12 G23 G13 ∧
    stiff_AXI_U_PIPE_r1_2 c c3 fn E1 E2 E3 nu12 nu23 nu13 G12 G23 G13 = stiff_TRI_U_DEFAULT_r1_2 c c3 fn E1 E2 E3 nu12 nu23 nu13 G12 G23 G13 ∧
    stiff_AXI_U_PIPE_r1_3 c c3 fn E1 E2 E3 nu12 nu23 nu13 G12 G23 G13 = stiff_TRI_U_DEFAULT_r1_3 c c3 fn E1 E2 E3 nu12 nu23 nu13 G12 G23 G13 ∧
    stiff_AXI_U_PIPE_r2_0 c c3 fn E1 E2 E3 nu12 nu23 nu13 G12 G23 G13 = stiff_TRI_U_DEFAULT_r2_0 c c3 fn E1 E2 E3 nu12 nu23 nu13 G12 G23 G13 ∧
    stiff_AXI_U_PIPE_r2_1 c c3 fn E1 E2 E3 nu12 nu23 nu13 G12 G23 G13 = stiff_TRI_U_DEFAULT_r2_1 c c3 fn E1 E2 E3 nu12 nu23 nu13 G12 G23 G13 ∧
    stiff_AXI_U_PIPE_r2_2 c c3 fn E1 E2 E3 nu12 nu23 nu13 G12 G23 G13 = stiff_TRI_U_DEFAULT_r2_2 c c3 fn E1 E2 E3 nu12 nu23 nu13 G12 G23 G13 ∧
    stiff_AXI_U_PIPE_r2_3 c c3 fn E1 E2 E3 nu12 nu23 nu13 G12 G23 G13 = stiff_TRI_U_DEFAULT_r2_3 c c3 fn E1 E2 E3 nu12 nu23 nu13 G12 G23 G13 ∧
    stiff_AXI_U_PIPE_r3_0 c c3 fn E1 E2 E3 nu12 nu23 nu13 G12 G23 G13 = stiff_TRI_U_DEFAULT_r3_0 c c3 fn E1 E2 E3 nu12 nu23 nu13 G12 G23 G13 ∧
    stiff_AXI_U_PIPE_r3_1 c c3 fn E1 E2 E3 nu12 nu23 nu13 G12 G23 G13 = stiff_TRI_U_DEFAULT_r3_1 c c3 fn E1 E2 E3 nu12 nu23 nu13 G12 G23 G13 ∧
    stiff_AXI_U_PIPE_r3_2 c c3 fn E1 E2 E3 nu12 nu23 nu13 G12 G23 G13 = stiff_TRI_U_DEFAULT_r3_2 c c3 fn E1 E2 E3 nu12 nu23 nu13 G12 G23 G13 ∧
    stiff_AXI_U_PIPE_r3_3 c c3 fn E1 E2 E3 nu12 nu23 nu13 G12 G23 G13 = stiff_TRI_U_DEFAULT_r3_3 c c3 fn E1 E2 E3 nu12 nu23 nu13 G12 G23 G13 := by
  axes_eq

/-- Axisymmetrical, ALTERED (no alteration for this hypothesis), DEFAULT: component (i,j) = component (π i, π j) of the 3D stiffness tensor, π = [0, 1, 2, 3] -/
theorem stiff_AXI_A_DEFAULT (E1 E2 E3 nu12 nu23 nu13 G12 G23 G13 : K) :
    stiff_AXI_A_DEFAULT_r0_0 c c3 fn E1 E2 E3 nu12 nu23 nu13 G12 G23 G13 = stiff_TRI_U_DEFAULT_r0_0 c c3 fn E1 E2 E3 nu12 nu23 nu13 G12 G23 G13 ∧
    stiff_AXI_A_DEFAULT_r0_1 c c3 fn E1 E2 E3 nu12 nu23 nu13 G12 G23 G13 = stiff_TRI_U_DEFAULT_r0_1 c c3 fn E1 E2 E3 nu12 nu23 nu13 G12 G23 G13 ∧
    stiff_AXI_A_DEFAULT_r0_2 c c3 fn E1 E2 E3 nu12 nu23 nu13 G12 G23 G13 = stiff_TRI_U_DEFAULT_r0_2 c c3 fn E1 E2 E3 nu12 nu23 nu13 G12 G23 G13 ∧
    stiff_AXI_A_DEFAULT_r0_3 c c3 fn E1 E2 E3 nu12 nu23 nu13 G12 G23 G13 = stiff_TRI_U_DEFAULT_r0_3 c c3 fn E1 E2 E3 nu12 nu23 nu13 G12 G23 G13 ∧
    stiff_AXI_A_DEFAULT_r1_0 c c3 fn E1 E2 E3 nu12 nu23 nu13 G12 G23 G13 = stiff_TRI_U_DEFAULT_r1_0 c c3 fn E1 E2 E3 nu12 nu23 nu13 G12 G23 G13 ∧
    stiff_AXI_A_DEFAULT_r1_1 c c3 fn E1 E2 E3 nu12 nu23 nu13 G12 G23 G13 = stiff_TRI_U_DEFAULT_r1_1 c c3 fn E1 E2 E3 nu12 nu23 nu13 G12 G23 G13 ∧
    stiff_AXI_A_DEFAULT_r1_2 c c3 fn E1 E2 E3 nu12 nu23 nu13 G12 G23 G13 = stiff_TRI_U_DEFAULT_r1_2 c c3 fn E1 E2 E3 nu12 nu23 nu13 G12 G23 G13 ∧
    stiff_AXI_A_DEFAULT_r1_3 c c3 fn E1 E2 E3 nu12 nu23 nu13 G12 G23 G13 = stiff_TRI_U_DEFAULT_r1_3 c c3 fn E1 E2 E3 nu12 nu23 nu13 G12 G23 G13 ∧
    stiff_AXI_A_DEFAULT_r2_0 c c3 fn E1 E2 E3 nu12 nu23 nu13 G12 G23 G13 = stiff_TRI_U_DEFAULT_r2_0 c c3 fn E1 E2 E3 nu12 nu23 nu13 G12 G23 G13 ∧
    stiff_AXI_A_DEFAULT_r2_1 c c3 fn E1 E2 E3 nu12 nu23 nu13 G12 G23 G13 = stiff_TRI_U_DEFAULT_r2_1 c c3 fn E1 E2 E3 nu12 nu23 nu13 G12 G23 G13 ∧
    stiff_AXI_A_DEFAULT_r2_2 c c3 fn E1 E2 E3 nu12 nu23 nu13 G12 G23 G13 = stiff_TRI_U_DEFAULT_r2_2 c c3 fn E1 E2 E3 nu12 nu23 nu13 G12 G23 G13 ∧
    stiff_AXI_A_DEFAULT_r2_3 c c3 fn E1 E2 E3 nu12 nu23 nu13 G12 G23 G13 = stiff_TRI_U_DEFAULT_r2_3 c c3 fn E1 E2 E3 nu12 nu23 nu13 G12 G23 G13 ∧
    stiff_AXI_A_DEFAULT_r3_0 c c3 fn E1 E2 E3 nu12 nu23 nu13 G12 G23 G13 = stiff_TRI_U_DEFAULT_r3_0 c c3 fn E1 E2 E3 nu12 nu23 nu13 G12 G23 G13 ∧
    stiff_AXI_A_DEFAULT_r3_1 c c3 fn E1 E2 E3 nu12 nu23 nu13 G12 G23 G13 = stiff_TRI_U_DEFAULT_r3_1 c c3 fn E1 E2 E3 nu12 nu23 nu13 G12 G23 G13 ∧
    stiff_AXI_A_DEFAULT_r3_2 c c3 fn E1 E2 E3 nu12 nu23 nu13 G12 G23 G13 = stiff_TRI_U_DEFAULT_r3_2 c c3 fn E1 E2 E3 nu12 nu23 nu13 G12 G23 G13 ∧
    stiff_AXI_A_DEFAULT_r3_3 c c3 fn E1 E2 E3 nu12 nu23 nu13 G12 G23 G13 = stiff_TRI_U_DEFAULT_r3_3 c c3 fn E1 E2 E3 nu12 nu23 nu13 G12 G23 G13 := by
  axes_eq

/-- Axisymmetrical, ALTERED (no alteration for this hypothesis), PIPE: component (i,j) = component (π i, π j) of the 3D stiffness tensor, π = [0, 1, 2, 3] -/
theorem stiff_AXI_A_PIPE (E1 E2 E3 nu12 nu23 nu13 G12 G23 G13 : K) :
    stiff_AXI_A_PIPE_r0_0 c c3 fn E1 E2 E3 nu12 nu23 nu13 G12 G23 G13 = stiff_TRI_U_DEFAULT_r0_0 c c3 fn E1 E2 E3 nu12 nu23 nu13 G12 G23 G13 ∧
    stiff_AXI_A_PIPE_r0_1 c c3 fn E1 E2 E3 nu12 nu23 nu13 G12 G23 G13 = stiff_TRI_U_DEFAULT_r0_1 c c3 fn E1 E2 E3 nu12 nu23 nu13 G12 G23 G13 ∧
    stiff_AXI_A_PIPE_r0_2 c c3 fn E1 E2 E3 nu12 nu23 nu13 G12 G23 G13 = stiff_TRI_U_DEFAULT_r0_2 c c3 fn E1 E2 E3 nu12 nu23 nu13 G12 G23 G13 ∧
    stiff_AXI_A_PIPE_r0_3 c c3 fn E1 E2 E3 nu12 nu23 nu13 G12 G23 G13 = stiff_TRI_U_DEFAULT_r0_3 c c3 fn E1 E2 E3 nu12 nu23 nu13 G12 G23 G13 ∧
    stiff_AXI_A_PIPE_r1_0 c c3 fn E1 E2 E3 nu12 nu23 nu13 G12 G23 G13 = stiff_TRI_U_DEFAULT_r1_0 c c3 fn E1 E2 E3 nu12 nu23 nu13 G12 G23 G13 ∧
    stiff_AXI_A_PIPE_r1_1 c c3 fn E1 E2 E3 nu12 nu23 nu13 G12 G23 G13 = stiff_TRI_U_DEFAULT_r1_1 c c3 fn E1 E2 E3 nu12 nu23 nu13 G12 G23 G13 ∧
    stiff_AXI_A_PIPE_r1_2 c c3 fn E1 E2 E3 nu12 nu23 nu13 G12 G23 G13 = stiff_TRI_U_DEFAULT_r1_2 c c3 fn E1 E2 E3 nu12 nu23 nu13 G12 G23 G13 ∧
    stiff_AXI_A_PIPE_r1_3 c c3 fn E1 E2 E3 nu12 nu23 nu13 G12 G23 G13 = stiff_TRI_U_DEFAULT_r1_3 c c3 fn E1 E2 E3 nu12 nu23 nu13 G12 G23 G13 ∧
    stiff_AXI_A_PIPE_r2_0 c c3 fn E1 E2 E3 nu12 nu23 nu13 G12 G23 G13 = stiff_TRI_U_DEFAULT_r2_0 c c3 fn E1 E2 E3 nu12 nu23 nu13 G12 G23 G13 ∧
    stiff_AXI_A_PIPE_r2_1 c c3 fn E1 E2 E3 nu12 nu23 nu13 G12 G23 G13 = stiff_TRI_U_DEFAULT_r2_1 c c3 fn E1 E2 E3 nu12 nu23 nu13 G12 G23 G13 ∧
    stiff_AXI_A_PIPE_r2_2 c c3 fn E1 E2 E3 nu12 nu23 nu13 G12 G23 G13 = stiff_TRI_U_DEFAULT_r2_2 c c3 fn E1 E2 E3 nu12 nu23 nu13 G12 G23 G13 ∧
    stiff_AXI_A_PIPE_r2_3 c c3 fn E1 E2 E3 nu12 nu23 nu13 G12 G23 G13 = stiff_TRI_U_DEFAULT_r2_3 c c3 fn E1 E2 E3 nu12 nu23 nu13 G12 G23 G13 ∧
    stiff_AXI_A_PIPE_r3_0 c c3 fn E1 E2 E3 nu12 nu23 nu13 G12 G23 G13 = stiff_TRI_U_DEFAULT_r3_0 c c3 fn E1 E2 E3 nu12 nu23 nu13 G12 G23 G13 ∧
    stiff_AXI_A_PIPE_r3_1 c c3 fn E1 E2 E3 nu12 nu23 nu13 G12 G23 G13 = stiff_TRI_U_DEFAULT_r3_1 c c3 fn E1 E2 E3 nu12 nu23 nu13 G12 G23 G13 ∧
    stiff_AXI_A_PIPE_r3_2 c c3 fn E1 E2 E3 nu12 nu23 nu13 G12 G23 G13 = stiff_TRI_U_DEFAULT_r3_2 c c3 fn E1 E2 E3 nu12 nu23 nu13 G12 G23 G13 ∧
    stiff_AXI_A_PIPE_r3_3 c c3 fn E1 E2 E3 nu12 nu23 nu13 G12 G23 G13 = stiff_TRI_U_DEFAULT_r3_3 c c3 fn E1 E2 E3 nu12 nu23 nu13 G12 G23 G13 := by
  axes_eq

/-- PlaneStress, UNALTERED, DEFAULT: component (i,j) = component (π i, π j) of the 3D stiffness tensor, π = [0, 1, 2, 3] -/
theorem stiff_PS_U_DEFAULT (E1 E2 E3 nu12 nu23 nu13 G12 G23 G13 : K) :
    stiff_PS_U_DEFAULT_r0_0 c c3 fn E1 E2 E3 nu12 nu23 nu13 G12 G23 G13 = stiff_TRI_U_DEFAULT_r0_0 c c3 fn E1 E2 E3 nu12 nu23 nu13 G12 G23 G13 ∧
    stiff_PS_U_DEFAULT_r0_1 c c3 fn E1 E2 E3 nu12 nu23 nu13 G12 G23 G13 = stiff_TRI_U_DEFAULT_r0_1 c c3 fn E1 E2 E3 nu12 nu23 nu13 G12 G23 G13 ∧
    stiff_PS_U_DEFAULT_r0_2 c c3 fn E1 E2 E3 nu12 nu23 nu13 G12 G23 G13 = stiff_TRI_U_DEFAULT_r0_2 c c3 fn E1 E2 E3 nu12 nu23 nu13 G12 G23 G13 ∧
    stiff_PS_U_DEFAULT_r0_3 c c3 fn E1 E2 E3 nu12 nu23 nu13 G12 G23 G13 = stiff_TRI_U_DEFAULT_r0_3 c c3 fn E1 E2 E3 nu12 nu23 nu13 G12 G23 G13 ∧
    stiff_PS_U_DEFAULT_r1_0 c c3 fn E1 E2 E3 nu12 nu23 nu13 G12 G23 G13 = stiff_TRI_U_DEFAULT_r1_0 c c3 fn E1 E2 E3 nu12 nu23 nu13 G12 G23 G13 ∧
    stiff_PS_U_DEFAULT_r1_1 c c3 fn E1 E2 E3 nu12 nu23 nu13 G12 G23 G13 = stiff_TRI_U_DEFAULT_r1_1 c c3 fn E1 E2 E3 nu12 nu23 nu13 G12 G23 G13 ∧
    stiff_PS_U_DEFAULT_r1_2 c c3 fn E1 E2 E3 nu12 nu23 nu13 G12 G23 G13 = stiff_TRI_U_DEFAULT_r1_2 c c3 fn E1 E2 E3 nu12 nu23 nu13 G12 G23 G13 ∧
    stiff_PS_U_DEFAULT_r1_3 c c3 fn E1 E2 E3 nu12 nu23 nu13 G12 G23 G13 = stiff_TRI_U_DEFAULT_r1_3 c c3 fn E1 E2 E3 nu12 nu23 nu13 G12 G23 G13 ∧
    stiff_PS_U_DEFAULT_r2_0 c c3 fn E1 E2 E3 nu12 nu23 nu13 G12 G23 G13 = stiff_TRI_U_DEFAULT_r2_0 c c3 fn E1 E2 E3 nu12 nu23 nu13 G12 G23 G13 ∧
    stiff_PS_U_DEFAULT_r2_1 c c3 fn E1 E2 E3 nu12 nu23 nu13 G12 G23 G13 = stiff_TRI_U_DEFAULT_r2_1 c c3 fn E1 E2 E3 nu12 nu23 nu13 G12 G23 G13 ∧
    stiff_PS_U_DEFAULT_r2_2 c c3 fn E1 E2 E3 nu12 nu23 nu13 G12 G23 G13 = stiff_TRI_U_DEFAULT_r2_2 c c3 fn E1 E2 E3 nu12 nu23 nu13 G12 G23 G13 ∧
    stiff_PS_U_DEFAULT_r2_3 c c3 fn E1 E2 E3 nu12 nu23 nu13 G12 G23 G13 = stiff_TRI_U_DEFAULT_r2_3 c c3 fn E1 E2 E3 nu12 nu23 nu13 G12 G23 G13 ∧
    stiff_PS_U_DEFAULT_r3_0 c c3 fn E1 E2 E3 nu12 nu23 nu13 G12 G23 G13 = stiff_TRI_U_DEFAULT_r3_0 c c3 fn E1 E2 E3 nu12 nu23 nu13 G12 G23 G13 ∧
    stiff_PS_U_DEFAULT_r3_1 c c3 fn E1 E2 E3 nu12 nu23 nu13 G12 G23 G13 = stiff_TRI_U_DEFAULT_r3_1 c c3 fn E1 E2 E3 nu12 nu23 nu13 G12 G23 G13 ∧
    stiff_PS_U_DEFAULT_r3_2 c c3 fn E1 E2 E3 nu12 nu23 nu13 G12 G23 G13 = stiff_TRI_U_DEFAULT_r3_2 c c3 fn E1 E2 E3 nu12 nu23 nu13 G12 G23 G13 ∧
    stiff_PS_U_DEFAULT_r3_3 c c3 fn E1 E2 E3 nu12 nu23 nu13 G12 G23 G13 = stiff_TRI_U_DEFAULT_r3_3 c c3 fn E1 E2 E3 nu12 nu23 nu13 G12 G23 G13 := by
  axes_eq

/-- PlaneStress, UNALTERED, PIPE: component (i,j) = component (π i, π j) of the 3D stiffness tensor, π = [0, 2, 1, 4] -/
theorem stiff_PS_U_PIPE (E1 E2 E3 nu12 nu23 nu13 G12 G23 G13 : K) (hE2 : E2 ≠ 0) (hE3 : E3 ≠ 0) :
    stiff_PS_U_PIPE_r0_0 c c3 fn E1 E2 E3 nu12 nu23 nu13 G12 G23 G13 = stiff_TRI_U_DEFAULT_r0_0 c c3 fn E1 E2 E3 nu12 nu23 nu13 G12 G23 G13 ∧
    stiff_PS_U_PIPE_r0_1 c c3 fn E1 E2 E3 nu12 nu23 nu13 G12 G23 G13 = stiff_TRI_U_DEFAULT_r0_2 c c3 fn E1 E2 E3 nu12 nu23 nu13 G12 G23 G13 ∧
    stiff_PS_U_PIPE_r0_2 c c3 fn E1 E2 E3 nu12 nu23 nu13 G12 G23 G13 = stiff_TRI_U_DEFAULT_r0_1 c c3 fn E1 E2 E3 nu12 nu23 nu13 G12 G23 G13 ∧
    stiff_PS_U_PIPE_r0_3 c c3 fn E1 E2 E3 nu12 nu23 nu13 G12 G23 G13 = stiff_TRI_U_DEFAULT_r0_4 c c3 fn E1 E2 E3 nu12 nu23 nu13 G12 G23 G13 ∧
    stiff_PS_U_PIPE_r1_0 c c3 fn E1 E2 E3 nu12 nu23 nu13 G12 G23 G13 = stiff_TRI_U_DEFAULT_r2_0 c c3 fn E1 E2 E3 nu12 nu23 nu13 G12 G23 G13 ∧
    stiff_PS_U_PIPE_r1_1 c c3 fn E1 E2 E3 nu12 nu23 nu13 G12 G23 G13 = stiff_TRI_U_DEFAULT_r2_2 c c3 fn E1 E2 E3 nu12 nu23 nu13 G12 G23 G13 ∧
    stiff_PS_U_PIPE_r1_2 c c3 fn E1 E2 E3 nu12 nu23 nu13 G12 G23 G13 = stiff_TRI_U_DEFAULT_r2_1 c c3 fn E1 E2 E3 nu12 nu23 nu13 G12 G23 G13 ∧
    stiff_PS_U_PIPE_r1_3 c c3 fn E1 E2 E3 nu12 nu23 nu13 G12 G23 G13 = stiff_TRI_U_DEFAULT_r2_4 c c3 fn E1 E2 E3 nu12 nu23 nu13 G12 G23 G13 ∧
    stiff_PS_U_PIPE_r2_0 c c3 fn E1 E2 E3 nu12 nu23 nu13 G12 G23 G13 = stiff_TRI_U_DEFAULT_r1_0 c c3 fn E1 E2 E3 nu12 nu23 nu13 G12 G23 G13 ∧
    stiff_PS_U_PIPE_r2_1 c c3 fn E1 E2 E3 nu12 nu23 nu13 G12 G23 G13 = stiff_TRI_U_DEFAULT_r1_2 c c3 fn E1 E2 E3 nu12 nu23 nu13 G12 G23 G13 ∧
    stiff_PS_U_PIPE_r2_2 c c3 fn E1 E2 E3 nu12 nu23 nu13 G12 G23 G13 = stiff_TRI_U_DEFAULT_r1_1 c c3 fn E1 E2 E3 nu12 nu23 nu13 G12 G23 G13 ∧
    stiff_PS_U_PIPE_r2_3 c c3 fn E1 E2 E3 nu12 nu23 nu13 G12 G23 G13 = stiff_TRI_U_DEFAULT_r1_4 c c3 fn E1 E2 E3 nu12 nu23 nu13 G12 G23 G13 ∧
    stiff_PS_U_PIPE_r3_0 c c3 fn E1 E2 E3 nu12 nu23 nu13 G12 G23 G13 = stiff_TRI_U_DEFAULT_r4_0 c c3 fn E1 E2 E3 nu12 nu23 nu13 G12 G23 G13 ∧
    stiff_PS_U_PIPE_r3_1 c c3 fn E1 E2 E3 nu12 nu23 nu13 G12 G23 G13 = stiff_TRI_U_DEFAULT_r4_2 c c3 fn E1 E2 E3 nu12 nu23 nu13 G12 G23 G13 ∧
    stiff_PS_U_PIPE_r3_2 c c3 fn E1 E2 E3 nu12 nu23 nu13 G12 G23 G13 = stiff_TRI_U_DEFAULT_r4_1 c c3 fn E1 E2 E3 nu12 nu23 nu13 G12 G23 G13 ∧
    stiff_PS_U_PIPE_r3_3 c c3 fn E1 E2 E3 nu12 nu23 nu13 G12 G23 G13 = stiff_TRI_U_DEFAULT_r4_4 c c3 fn E1 E2 E3 nu12 nu23 nu13 G12 G23 G13 := by
  stiff_eq hE2 hE3

/-- PlaneStress, ALTERED, DEFAULT: in-plane components = static condensation of the 3D stiffness tensor on the stress-free 3D axis 2 (C_ij − C_ik C_kj / C_kk read through π = [0, 1, 2, 3]), zero row and column for that axis -/
theorem stiff_PS_A_DEFAULT (E1 E2 E3 nu12 nu23 nu13 G12 G23 G13 : K) :
    stiff_PS_A_DEFAULT_r0_0 c c3 fn E1 E2 E3 nu12 nu23 nu13 G12 G23 G13 = stiff_TRI_U_DEFAULT_r0_0 c c3 fn E1 E2 E3 nu12 nu23 nu13 G12 G23 G13 - stiff_TRI_U_DEFAULT_r0_2 c c3 fn E1 E2 E3 nu12 nu23 nu13 G12 G23 G13 * (stiff_TRI_U_DEFAULT_r2_0 c c3 fn E1 E2 E3 nu12 nu23 nu13 G12 G23 G13 / stiff_TRI_U_DEFAULT_r2_2 c c3 fn E1 E2 E3 nu12 nu23 nu13 G12 G23 G13) ∧
    stiff_PS_A_DEFAULT_r0_1 c c3 fn E1 E2 E3 nu12 nu23 nu13 G12 G23 G13 = stiff_TRI_U_DEFAULT_r0_1 c c3 fn E1 E2 E3 nu12 nu23 nu13 G12 G23 G13 - stiff_TRI_U_DEFAULT_r0_2 c c3 fn E1 E2 E3 nu12 nu23 nu13 G12 G23 G13 * (stiff_TRI_U_DEFAULT_r2_1 c c3 fn E1 E2 E3 nu12 nu23 nu13 G12 G23 G13 / stiff_TRI_U_DEFAULT_r2_2 c c3 fn E1 E2 E3 nu12 nu23 nu13 G12 G23 G13) ∧
    stiff_PS_A_DEFAULT_r0_2 c c3 fn E1 E2 E3 nu12 nu23 nu13 G12 G23 G13 = 0 ∧
    stiff_PS_A_DEFAULT_r0_3 c c3 fn E1 E2 E3 nu12 nu23 nu13 G12 G23 G13 = 0 ∧
    stiff_PS_A_DEFAULT_r1_0 c c3 fn E1 E2 E3 nu12 nu23 nu13 G12 G23 G13 = stiff_TRI_U_DEFAULT_r1_0 c c3 fn E1 E2 E3 nu12 nu23 nu13 G12 G23 G13 - stiff_TRI_U_DEFAULT_r1_2 c c3 fn E1 E2 E3 nu12 nu23 nu13 G12 G23 G13 * (stiff_TRI_U_DEFAULT_r2_0 c c3 fn E1 E2 E3 nu12 nu23 nu13 G12 G23 G13 / stiff_TRI_U_DEFAULT_r2_2 c c3 fn E1 E2 E3 nu12 nu23 nu13 G12 G23 G13) ∧
    stiff_PS_A_DEFAULT_r1_1 c c3 fn E1 E2 E3 nu12 nu23 nu13 G12 G23 G13 = stiff_TRI_U_DEFAULT_r1_1 c c3 fn E1 E2 E3 nu12 nu23 nu13 G12 G23 G13 - stiff_TRI_U_DEFAULT_r1_2 c c3 fn E1 E2 E3 nu12 nu23 nu13 G12 G23 G13 * (stiff_TRI_U_DEFAULT_r2_1 c c3 fn E1 E2 E3 nu12 nu23 nu13 G12 G23 G13 / stiff_TRI_U_DEFAULT_r2_2 c c3 fn E1 E2 E3 nu12 nu23 nu13 G12 G23 G13) ∧
    stiff_PS_A_DEFAULT_r1_2 c c3 fn E1 E2 E3 nu12 nu23 nu13 G12 G23 G13 = 0 ∧
    stiff_PS_A_DEFAULT_r1_3 c c3 fn E1 E2 E3 nu12 nu23 nu13 G12 G23 G13 = 0 ∧
    stiff_PS_A_DEFAULT_r2_0 c c3 fn E1 E2 E3 nu12 nu23 nu13 G12 G23 G13 = 0 ∧
    stiff_PS_A_DEFAULT_r2_1 c c3 fn E1 E2 E3 nu12 nu23 nu13 G12 G23 G13 = 0 ∧
    stiff_PS_A_DEFAULT_r2_2 c c3 fn E1 E2 E3 nu12 nu23 nu13 G12 G23 G13 = 0 ∧
    stiff_PS_A_DEFAULT_r2_3 c c3 fn E1 E2 E3 nu12 nu23 nu13 G12 G23 G13 = 0 ∧
    stiff_PS_A_DEFAULT_r3_0 c c3 fn E1 E2 E3 nu12 nu23 nu13 G12 G23 G13 = 0 ∧
    stiff_PS_A_DEFAULT_r3_1 c c3 fn E1 E2 E3 nu12 nu23 nu13 G12 G23 G13 = 0 ∧
    stiff_PS_A_DEFAULT_r3_2 c c3 fn E1 E2 E3 nu12 nu23 nu13 G12 G23 G13 = 0 ∧
    stiff_PS_A_DEFAULT_r3_3 c c3 fn E1 E2 E3 nu12 nu23 nu13 G12 G23 G13 = stiff_TRI_U_DEFAULT_r3_3 c c3 fn E1 E2 E3 nu12 nu23 nu13 G12 G23 G13 := by
  axes_eq

/-- PlaneStress, ALTERED, PIPE: in-plane components = static condensation of the 3D stiffness tensor on the stress-free 3D axis 1 (C_ij − C_ik C_kj / C_kk read through π = [0, 2, 1, 4]), zero row and column for that axis -/
theorem stiff_PS_A_PIPE (E1 E2 E3 nu12 nu23 nu13 G12 G23 G13 : K) (hE2 : E2 ≠ 0) (hE3 : E3 ≠ 0) :
    stiff_PS_A_PIPE_r0_0 c c3 fn E1 E2 E3 nu12 nu23 nu13 G12 G23 G13 = stiff_TRI_U_DEFAULT_r0_0 c c3 fn E1 E2 E3 nu12 nu23 nu13 G12 G23 G13 - stiff_TRI_U_DEFAULT_r0_1 c c3 fn E1 E2 E3 nu12 nu23 nu13 G12 G23 G13 * (stiff_TRI_U_DEFAULT_r1_0 c c3 fn E1 E2 E3 nu12 nu23 nu13 G12 G23 G13 / stiff_TRI_U_DEFAULT_r1_1 c c3 fn E1 E2 E3 nu12 nu23 nu13 G12 G23 G13) ∧
    stiff_PS_A_PIPE_r0_1 c c3 fn E1 E2 E3 nu12 nu23 nu13 G12 G23 G13 = stiff_TRI_U_DEFAULT_r0_2 c c3 fn E1 E2 E3 nu12 nu23 nu13 G12 G23 G13 - stiff_TRI_U_DEFAULT_r0_1 c c3 fn E1 E2 E3 nu12 nu23 nu13 G12 G23 G13 * (stiff_TRI_U_DEFAULT_r1_2 c c3 fn E1 E2 E3 nu12 nu23 nu13 G12 G23 G13 / stiff_TRI_U_DEFAULT_r1_1 c c3 fn E1 E2 E3 nu12 nu23 nu13 G12 G23 G13) ∧
    stiff_PS_A_PIPE_r0_2 c c3 fn E1 E2 E3 nu12 nu23 nu13 G12 G23 G13 = 0 ∧
    stiff_PS_A_PIPE_r0_3 c c3 fn E1 E2 E3 nu12 nu23 nu13 G12 G23 G13 = 0 ∧
    stiff_PS_A_PIPE_r1_0 c c3 fn E1 E2 E3 nu12 nu23 nu13 G12 G23 G13 = stiff_TRI_U_DEFAULT_r2_0 c c3 fn E1 E2 E3 nu12 nu23 nu13 G12 G23 G13 - stiff_TRI_U_DEFAULT_r2_1 c c3 fn E1 E2 E3 nu12 nu23 nu13 G12 G23 G13 * (stiff_TRI_U_DEFAULT_r1_0 c c3 fn E1 E2 E3 nu12 nu23 nu13 G12 G23 G13 / stiff_TRI_U_DEFAULT_r1_1 c c3 fn E1 E2 E3 nu12 nu23 nu13 G12 G23 G13) ∧
    stiff_PS_A_PIPE_r1_1 c c3 fn E1 E2 E3 nu12 nu23 nu13 G12 G23 G13 = stiff_TRI_U_DEFAULT_r2_2 c c3 fn E1 E2 E3 nu12 nu23 nu13 G12 G23 G13 - stiff_TRI_U_DEFAULT_r2_1 c c3 fn E1 E2 E3 nu12 nu23 nu13 G12 G23 G13 * (stiff_TRI_U_DEFAULT_r1_2 c c3 fn E1 E2 E3 nu12 nu23 nu13 G12 G23 G13 / stiff_TRI_U_DEFAULT_r1_1 c c3 fn E1 E2 E3 nu12 nu23 nu13 G12 G23 G13) ∧
    stiff_PS_A_PIPE_r1_2 c c3 fn E1 E2 E3 nu12 nu23 nu13 G12 G23 G13 = 0 ∧
    stiff_PS_A_PIPE_r1_3 c c3 fn E1 E2 E3 nu12 nu23 nu13 G12 G23 G13 = 0 ∧
    stiff_PS_A_PIPE_r2_0 c c3 fn E1 E2 E3 nu12 nu23 nu13 G12 G23 G13 = 0 ∧
    stiff_PS_A_PIPE_r2_1 c c3 fn E1 E2 E3 nu12 nu23 nu13 G12 G23 G13 = 0 ∧
    stiff_PS_A_PIPE_r2_2 c c3 fn E1 E2 E3 nu12 nu23 nu13 G12 G23 G13 = 0 ∧
    stiff_PS_A_PIPE_r2_3 c c3 fn E1 E2 E3 nu12 nu23 nu13 G12 G23 G13 = 0 ∧
    stiff_PS_A_PIPE_r3_0 c c3 fn E1 E2 E3 nu12 nu23 nu13 G12 G23 G13 = 0 ∧
    stiff_PS_A_PIPE_r3_1 c c3 fn E1 E2 E3 nu12 nu23 nu13 G12 G23 G13 = 0 ∧
    stiff_PS_A_PIPE_r3_2 c c3 fn E1 E2 E3 nu12 nu23 nu13 G12 G23 G13 = 0 ∧
    stiff_PS_A_PIPE_r3_3 c c3 fn E1 E2 E3 nu12 nu23 nu13 G12 G23 G13 = stiff_TRI_U_DEFAULT_r4_4 c c3 fn E1 E2 E3 nu12 nu23 nu13 G12 G23 G13 := by
  stiff_eq hE2 hE3

/-- PlaneStrain, UNALTERED, DEFAULT: component (i,j) = component (π i, π j) of the 3D stiffness tensor, π = [0, 1, 2, 3] -/
theorem stiff_PE_U_DEFAULT (E1 E2 E3 nu12 nu23 nu13 G12 G23 G13 : K) :
    stiff_PE_U_DEFAULT_r0_0 c c3 fn E1 E2 E3 nu12 nu23 nu13 G12 G23 G13 = stiff_TRI_U_DEFAULT_r0_0 c c3 fn E1 E2 E3 nu12 nu23 nu13 G12 G23 G13 ∧
    stiff_PE_U_DEFAULT_r0_1 c c3 fn E1 E2 E3 nu12 nu23 nu13 G12 G23 G13 = stiff_TRI_U_DEFAULT_r0_1 c c3 fn E1 E2 E3 nu12 nu23 nu13 G12 G23 G13 ∧
    stiff_PE_U_DEFAULT_r0_2 c c3 fn E1 E2 E3 nu12 nu23 nu13 G12 G23 G13 = stiff_TRI_U_DEFAULT_r0_2 c c3 fn E1 E2 E3 nu12 nu23 nu13 G12 G23 G13 ∧
    stiff_PE_U_DEFAULT_r0_3 c c3 fn E1 E2 E3 nu12 nu23 nu13 G12 G23 G13 = stiff_TRI_U_DEFAULT_r0_3 c c3 fn E1 E2 E3 nu12 nu23 nu13 G12 G23 G13 ∧
    stiff_PE_U_DEFAULT_r1_0 c c3 fn E1 E2 E3 nu12 nu23 nu13 G12 G23 G13 = stiff_TRI_U_DEFAULT_r1_0 c c3 fn E1 E2 E3 nu12 nu23 nu13 G12 G23 G13 ∧
    stiff_PE_U_DEFAULT_r1_1 c c3 fn E1 E2 E3 nu12 nu23 nu13 G12 G23 G13 = stiff_TRI_U_DEFAULT_r1_1 c c3 fn E1 E2 E3 nu12 nu23 nu13 G12 G23 G13 ∧
    stiff_PE_U_DEFAULT_r1_2 c c3 fn E1 E2 E3 nu12 nu23 nu13 G12 G23 G13 = stiff_TRI_U_DEFAULT_r1_2 c c3 fn E1 E2 E3 nu12 nu23 nu13 G12 G23 G13 ∧
    stiff_PE_U_DEFAULT_r1_3 c c3 fn E1 E2 E3 nu12 nu23 nu13 G12 G23 G13 = stiff_TRI_U_DEFAULT_r1_3 c c3 fn E1 E2 E3 nu12 nu23 nu13 G12 G23 G13 ∧
    stiff_PE_U_DEFAULT_r2_0 c c3 fn E1 E2 E3 nu12 nu23 nu13 G12 G23 G13 = stiff_TRI_U_DEFAULT_r2_0 c c3 fn E1 E2 E3 nu12 nu23 nu13 G12 G23 G13 ∧
    stiff_PE_U_DEFAULT_r2_1 c c3 fn E1 E2 E3 nu12 nu23 nu13 G12 G23 G13 = stiff_TRI_U_DEFAULT_r2_1 c c3 fn E1 E2 E3 nu12 nu23 nu13 G12 G23 G13 ∧
    stiff_PE_U_DEFAULT_r2_2 c c3 fn E1 E2 E3 nu12 nu23 nu13 G12 G23 G13 = stiff_TRI_U_DEFAULT_r2_2 c c3 fn E1 E2 E3 nu12 nu23 nu13 G12 G23 G13 ∧
    stiff_PE_U_DEFAULT_r2_3 c c3 fn E1 E2 E3 nu12 nu23 nu13 G12 G23 G13 = stiff_TRI_U_DEFAULT_r2_3 c c3 fn E1 E2 E3 nu12 nu23 nu13 G12 G23 G13 ∧
    stiff_PE_U_DEFAULT_r3_0 c c3 fn E1 E2 E3 nu12 nu23 nu13 G12 G23 G13 = stiff_TRI_U_DEFAULT_r3_0 c c3 fn E1 E2 E3 nu12 nu23 nu13 G12 G23 G13 ∧
    stiff_PE_U_DEFAULT_r3_1 c c3 fn E1 E2 E3 nu12 nu23 nu13 G12 G23 G13 = stiff_TRI_U_DEFAULT_r3_1 c c3 fn E1 E2 E3 nu12 nu23 nu13 G12 G23 G13 ∧
    stiff_PE_U_DEFAULT_r3_2 c c3 fn E1 E2 E3 nu12 nu23 nu13 G12 G23 G13 = stiff_TRI_U_DEFAULT_r3_2 c c3 fn E1 E2 E3 nu12 nu23 nu13 G12 G23 G13 ∧
    stiff_PE_U_DEFAULT_r3_3 c c3 fn E1 E2 E3 nu12 nu23 nu13 G12 G23 G13 = stiff_TRI_U_DEFAULT_r3_3 c c3 fn E1 E2 E3 nu12 nu23 nu13 G12 G23 G13 := by
  axes_eq

/-- PlaneStrain, UNALTERED, PIPE: component (i,j) = component (π i, π j) of the 3D stiffness tensor, π = [0, 2, 1, 4] -/
theorem stiff_PE_U_PIPE (E1 E2 E3 nu12 nu23 nu13 G12 G23 G13 : K) (hE2 : E2 ≠ 0) (hE3 : E3 ≠ 0) :
    stiff_PE_U_PIPE_r0_0 c c3 fn E1 E2 E3 nu12 nu23 nu13 G12 G23 G13 = stiff_TRI_U_DEFAULT_r0_0 c c3 fn E1 E2 E3 nu12 nu23 nu13 G12 G23 G13 ∧
    stiff_PE_U_PIPE_r0_1 c c3 fn E1 E2 E3 nu12 nu23 nu13 G12 G23 G13 = stiff_TRI_U_DEFAULT_r0_2 c c3 fn E1 E2 E3 nu12 nu23 nu13 G12 G23 G13 ∧
    stiff_PE_U_PIPE_r0_2 c c3 fn E1 E2 E3 nu12 nu23 nu13 G12 G23 G13 = stiff_TRI_U_DEFAULT_r0_1 c c3 fn E1 E2 E3 nu12 nu23 nu13 G12 G23 G13 ∧
    stiff_PE_U_PIPE_r0_3 c c3 fn E1 E2 E3 nu12 nu23 nu13 G12 G23 G13 = stiff_TRI_U_DEFAULT_r0_4 c c3 fn E1 E2 E3 nu12 nu23 nu13 G12 G23 G13 ∧
    stiff_PE_U_PIPE_r1_0 c c3 fn E1 E2 E3 nu12 nu23 nu13 G12 G23 G13 = stiff_TRI_U_DEFAULT_r2_0 c c3 fn E1 E2 E3 nu12 nu23 nu13 G12 G23 G13 ∧
    stiff_PE_U_PIPE_r1_1 c c3 fn E1 E2 E3 nu12 nu23 nu13 G12 G23 G13 = stiff_TRI_U_DEFAULT_r2_2 c c3 fn E1 E2 E3 nu12 nu23 nu13 G12 G23 G13 ∧
    stiff_PE_U_PIPE_r1_2 c c3 fn E1 E2 E3 nu12 nu23 nu13 G12 G23 G13 = stiff_TRI_U_DEFAULT_r2_1 c c3 fn E1 E2 E3 nu12 nu23 nu13 G12 G23 G13 ∧
    stiff_PE_U_PIPE_r1_3 c c3 fn E1 E2 E3 nu12 nu23 nu13 G12 G23 G13 = stiff_TRI_U_DEFAULT_r2_4 c c3 fn E1 E2 E3 nu12 nu23 nu13 G12 G23 G13 ∧
    stiff_PE_U_PIPE_r2_0 c c3 fn E1 E2 E3 nu12 nu23 nu13 G12 G23 G13 = stiff_TRI_U_DEFAULT_r1_0 c c3 fn E1 E2 E3 nu12 nu23 nu13 G12 G23 G13 ∧
    stiff_PE_U_PIPE_r2_1 c c3 fn E1 E2 E3 nu12 nu23 nu13 G12 G23 G13 = stiff_TRI_U_DEFAULT_r1_2 c c3 fn E1 E2 E3 nu12 nu23 nu13 G12 G23 G13 ∧
    stiff_PE_U_PIPE_r2_2 c c3 fn E1 E2 E3 nu12 nu23 nu13 G12 G23 G13 = stiff_TRI_U_DEFAULT_r1_1 c c3 fn E1 E2 E3 nu12 nu23 nu13 G12 G23 G13 ∧
    stiff_PE_U_PIPE_r2_3 c c3 fn E1 E2 E3 nu12 nu23 nu13 G12 G23 G13 = stiff_TRI_U_DEFAULT_r1_4 c c3 fn E1 E2 E3 nu12 nu23 nu13 G12 G23 G13 ∧
    stiff_PE_U_PIPE_r3_0 c c3 fn E1 E2 E3 nu12 nu23 nu13 G12 G23 G13 = stiff_TRI_U_DEFAULT_r4_0 c c3 fn E1 E2 E3 nu12 nu23 nu13 G12 G23 G13 ∧
    stiff_PE_U_PIPE_r3_1 c c3 fn E1 E2 E3 nu12 nu23 nu13 G12 G23 G13 = stiff_TRI_U_DEFAULT_r4_2 c c3 fn E1 E2 E3 nu12 nu23 nu13 G12 G23 G13 ∧
    stiff_PE_U_PIPE_r3_2 c c3 fn E1 E2 E3 nu12 nu23 nu13 G12 G23 G13 = stiff_TRI_U_DEFAULT_r4_1 c c3 fn E1 E2 E3 nu12 nu23 nu13 G12 G23 G13 ∧
    stiff_PE_U_PIPE_r3_3 c c3 fn E1 E2 E3 nu12 nu23 nu13 G12 G23 G13 = stiff_TRI_U_DEFAULT_r4_4 c c3 fn E1 E2 E3 nu12 nu23 nu13 G12 G23 G13 := by
  stiff_eq hE2 hE3

/-- PlaneStrain, ALTERED (no alteration for this hypothesis), DEFAULT: component (i,j) = component (π i, π j) of the 3D stiffness tensor, π = [0, 1, 2, 3] -/
theorem stiff_PE_A_DEFAULT (E1 E2 E3 nu12 nu23 nu13 G12 G23 G13 : K) :
    stiff_PE_A_DEFAULT_r0_0 c c3 fn E1 E2 E3 nu12 nu23 nu13 G12 G23 G13 = stiff_TRI_U_DEFAULT_r0_0 c c3 fn E1 E2 E3 nu12 nu23 nu13 G12 G23 G13 ∧
    stiff_PE_A_DEFAULT_r0_1 c c3 fn E1 E2 E3 nu12 nu23 nu13 G12 G23 G13 = stiff_TRI_U_DEFAULT_r0_1 c c3 fn E1 E2 E3 nu12 nu23 nu13 G12 G23 G13 ∧
    stiff_PE_A_DEFAULT_r0_2 c c3 fn E1 E2 E3 nu12 nu23 nu13 G12 G23 G13 = stiff_TRI_U_DEFAULT_r0_2 c c3 fn E1 E2 E3 nu12 nu23 nu13 G12 G23 G13 ∧
    stiff_PE_A_DEFAULT_r0_3 c c3 fn E1 E2 E3 nu12 nu23 nu13 G12 G23 G13 = stiff_TRI_U_DEFAULT_r0_3 c c3 fn E1 E2 E3 nu12 nu23 nu13 G12 G23 G13 ∧
    stiff_PE_A_DEFAULT_r1_0 c c3 fn E1 E2 E3 nu12 nu23 nu13 G12 G23 G13 = stiff_TRI_U_DEFAULT_r1_0 c c3 fn E1 E2 E3 nu12 nu23 nu13 G12 G23 G13 ∧
    stiff_PE_A_DEFAULT_r1_1 c c3 fn E1 E2 E3 nu12 nu23 nu13 G12 G23 G13 = stiff_TRI_U_DEFAULT_r1_1 c c3 fn E1 E2 E3 nu12 nu23 nu13 G12 G23 G13 ∧
    stiff_PE_A_DEFAULT_r1_2 c c3 fn E1 E2 E3 nu12 nu23 nu13 G12 G23 G13 = stiff_TRI_U_DEFAULT_r1_2 c c3 fn E1 E2 E3 nu12 nu23 nu13 G12 G23 G13 ∧
    stiff_PE_A_DEFAULT_r1_3 c c3 fn E1 E2 E3 nu12 nu23 nu13 G12 G23 G13 = stiff_TRI_U_DEFAULT_r1_3 c c3 fn E1 E2 E3 nu12 nu23 nu13 G12 G23 G13 ∧
    stiff_PE_A_DEFAULT_r2_0 c c3 fn E1 E2 E3 nu12 nu23 nu13 G12 G23 G13 = stiff_TRI_U_DEFAULT_r2_0 c c3 fn E1 E2 E3 nu12 nu23 nu13 G12 G23 G13 ∧
    stiff_PE_A_DEFAULT_r2_1 c c3 fn E1 E2 E3 nu12 nu23 nu13 G12 G23 G13 = stiff_TRI_U_DEFAULT_r2_1 c c3 fn E1 E2 E3 nu12 nu23 nu13 G12 G23 G13 ∧
    stiff_PE_A_DEFAULT_r2_2 c c3 fn E1 E2 E3 nu12 nu23 nu13 G12 G23 G13 = stiff_TRI_U_DEFAULT_r2_2 c c3 fn E1 E2 E3 nu12 nu23 nu13 G12 G23 G13 ∧
    stiff_PE_A_DEFAULT_r2_3 c c3 fn E1 E2 E3 nu12 nu23 nu13 G12 G23 G13 = stiff_TRI_U_DEFAULT_r2_3 c c3 fn E1 E2 E3 nu12 nu23 nu13 G12 G23 G13 ∧
    stiff_PE_A_DEFAULT_r3_0 c c3 fn E1 E2 E3 nu12 nu23 nu13 G12 G23 G13 = stiff_TRI_U_DEFAULT_r3_0 c c3 fn E1 E2 E3 nu12 nu23 nu13 G12 G23 G13 ∧
    stiff_PE_A_DEFAULT_r3_1 c c3 fn E1 E2 E3 nu12 nu23 nu13 G12 G23 G13 = stiff_TRI_U_DEFAULT_r3_1 c c3 fn E1 E2 E3 nu12 nu23 nu13 G12 G23 G13 ∧
    stiff_PE_A_DEFAULT_r3_2 c c3 fn E1 E2 E3 nu12 nu23 nu13 G12 G23 G13 = stiff_TRI_U_DEFAULT_r3_2 c c3 fn E1 E2 E3 nu12 nu23 nu13 G12 G23 G13 ∧
    stiff_PE_A_DEFAULT_r3_3 c c3 fn E1 E2 E3 nu12 nu23 nu13 G12 G23 G13 = stiff_TRI_U_DEFAULT_r3_3 c c3 fn E1 E2 E3 nu12 nu23 nu13 G12 G23 G13 := by
  axes_eq

/-- PlaneStrain, ALTERED (no alteration for this hypothesis), PIPE: component (i,j) = component (π i, π j) of the 3D stiffness tensor, π = [0, 2, 1, 4] -/
theorem stiff_PE_A_PIPE (E1 E2 E3 nu12 nu23 nu13 G12 G23 G13 : K) (hE2 : E2 ≠ 0) (hE3 : E3 ≠ 0) :
    stiff_PE_A_PIPE_r0_0 c c3 fn E1 E2 E3 nu12 nu23 nu13 G12 G23 G13 = stiff_TRI_U_DEFAULT_r0_0 c c3 fn E1 E2 E3 nu12 nu23 nu13 G12 G23 G13 ∧
    stiff_PE_A_PIPE_r0_1 c c3 fn E1 E2 E3 nu12 nu23 nu13 G12 G23 G13 = stiff_TRI_U_DEFAULT_r0_2 c c3 fn E1 E2 E3 nu12 nu23 nu13 G12 G23 G13 ∧
    stiff_PE_A_PIPE_r0_2 c c3 fn E1 E2 E3 nu12 nu23 nu13 G12 G23 G13 = stiff_TRI_U_DEFAULT_r0_1 c c3 fn E1 E2 E3 nu12 nu23 nu13 G12 G23 G13 ∧
    stiff_PE_A_PIPE_r0_3 c c3 fn E1 E2 E3 nu12 nu23 nu13 G12 G23 G13 = stiff_TRI_U_DEFAULT_r0_4 c c3 fn E1 E2 E3 nu12 nu23 nu13 G12 G23 G13 ∧
    stiff_PE_A_PIPE_r1_0 c c3 fn E1 E2 E3 nu12 nu23 nu13 G12 G23 G13 = stiff_TRI_U_DEFAULT_r2_0 c c3 fn E1 E2 E3 nu12 nu23 nu13 G12 G23 G13 ∧
    stiff_PE_A_PIPE_r1_1 c c3 fn E1 E2 E3 nu12 nu23 nu13 G12 G23 G13 = stiff_TRI_U_DEFAULT_r2_2 c c3 fn E1 E2 E3 nu12 nu23 nu13 G12 G23 G13 ∧
    stiff_PE_A_PIPE_r1_2 c c3 fn E1 E2 E3 nu12 nu23 nu13 G12 G23 G13 = stiff_TRI_U_DEFAULT_r2_1 c c3 fn E1 E2 E3 nu12 nu23 nu13 G12 G23 G13 ∧
    stiff_PE_A_PIPE_r1_3 c c3 fn E1 E2 E3 nu12 nu23 nu13 G12 G23 G13 = stiff_TRI_U_DEFAULT_r2_4 c c3 fn E1 E2 E3 nu12 nu23 nu13 G12 G23 G13 ∧
    stiff_PE_A_PIPE_r2_0 c c3 fn E1 E2 E3 nu12 nu23 nu13 G12 G23 G13 = stiff_TRI_U_DEFAULT_r1_0 c c3 fn E1 E2 E3 nu12 nu23 nu13 G12 G23 G13 ∧
    stiff_PE_A_PIPE_r2_1 c c3 fn E1 E2 E3 nu12 nu23 nu13 G12 G23 G13 = stiff_TRI_U_DEFAULT_r1_2 c c3 fn E1 E2 E3 nu12 nu23 nu13 G12 G23 G13 ∧
    stiff_PE_A_PIPE_r2_2 c c3 fn E1 E2 E3 nu12 nu23 nu13 G12 G23 G13 = stiff_TRI_U_DEFAULT_r1_1 c c3 fn E1 E2 E3 nu12 nu23 nu13 G12 G23 G13 ∧
    stiff_PE_A_PIPE_r2_3 c c3 fn E1 E2 E3 nu12 nu23 nu13 G12 G23 G13 = stiff_TRI_U_DEFAULT_r1_4 c c3 fn E1 E2 E3 nu12 nu23 nu13 G12 G23 G13 ∧
    stiff_PE_A_PIPE_r3_0 c c3 fn E1 E2 E3 nu12 nu23 nu13 G12 G23 G13 = stiff_TRI_U_DEFAULT_r4_0 c c3 fn E1 E2 E3 nu12 nu23 nu13 G12 G23 G13 ∧
    stiff_PE_A_PIPE_r3_1 c c3 fn E1 E2 E3 nu12 nu23 nu13 G12 G23 G13 = stiff_TRI_U_DEFAULT_r4_2 c c3 fn E1 E2 E3 nu12 nu23 nu13 G12 G23 G13 ∧
    stiff_PE_A_PIPE_r3_2 c c3 fn E1 E2 E3 nu12 nu23 nu13 G12 G23 G13 = stiff_TRI_U_DEFAULT_r4_1 c c3 fn E1 E2 E3 nu12 nu23 nu13 G12 G23 G13 ∧
    stiff_PE_A_PIPE_r3_3 c c3 fn E1 E2 E3 nu12 nu23 nu13 G12 G23 G13 = stiff_TRI_U_DEFAULT_r4_4 c c3 fn E1 E2 E3 nu12 nu23 nu13 G12 G23 G13 := by
  stiff_eq hE2 hE3

/-- GeneralisedPlaneStrain, UNALTERED, DEFAULT: component (i,j) = component (π i, π j) of the 3D stiffness tensor, π = [0, 1, 2, 3] -/
theorem stiff_GPE_U_DEFAULT (E1 E2 E3 nu12 nu23 nu13 G12 G23 G13 : K) :
    stiff_GPE_U_DEFAULT_r0_0 c c3 fn E1 E2 E3 nu12 nu23 nu13 G12 G23 G13 = stiff_TRI_U_DEFAULT_r0_0 c c3 fn E1 E2 E3 nu12 nu23 nu13 G12 G23 G13 ∧
    stiff_GPE_U_DEFAULT_r0_1 c c3 fn E1 E2 E3 nu12 nu23 nu13 G12 G23 G13 = stiff_TRI_U_DEFAULT_r0_1 c c3 fn E1 E2 E3 nu12 nu23 nu13 G12 G23 G13 ∧
    stiff_GPE_U_DEFAULT_r0_2 c c3 fn E1 E2 E3 nu12 nu23 nu13 G12 G23 G13 = stiff_TRI_U_DEFAULT_r0_2 c c3 fn E1 E2 E3 nu12 nu23 nu13 G12 G23 G13 ∧
    stiff_GPE_U_DEFAULT_r0_3 c c3 fn E1 E2 E3 nu12 nu23 nu13 G12 G23 G13 = stiff_TRI_U_DEFAULT_r0_3 c c3 fn E1 E2 E3 nu12 nu23 nu13 G12 G23 G13 ∧
    stiff_GPE_U_DEFAULT_r1_0 c c3 fn E1 E2 E3 nu12 nu23 nu13 G12 G23 G13 = stiff_TRI_U_DEFAULT_r1_0 c c3 fn E1 E2 E3 nu12 nu23 nu13 G12 G23 G13 ∧
    stiff_GPE_U_DEFAULT_r1_1 c c3 fn E1 E2 E3 nu12 nu23 nu13 G12 G23 G13 = stiff_TRI_U_DEFAULT_r1_1 c c3 fn E1 E2 E3 nu12 nu23 nu13 G12 G23 G13 ∧
    stiff_GPE_U_DEFAULT_r1_2 c c3 fn E1 E2 E3 nu12 nu23 nu13 G12 G23 G13 = stiff_TRI_U_DEFAULT_r1_2 c c3 fn E1 E2 E3 nu12 nu23 nu13 G12 G23 G13 ∧
    stiff_GPE_U_DEFAULT_r1_3 c c3 fn E1 E2 E3 nu12 nu23 nu13 G12 G23 G13 = stiff_TRI_U_DEFAULT_r1_3 c c3 fn E1 E2 E3 nu12 nu23 nu13 G12 G23 G13 ∧
    stiff_GPE_U_DEFAULT_r2_0 c c3 fn E1 E2 E3 nu12 nu23 nu13 G12 G23 G13 = stiff_TRI_U_DEFAULT_r2_0 c c3 fn E1 E2 E3 nu12 nu23 nu13 G12 G23 G13 ∧
    stiff_GPE_U_DEFAULT_r2_1 c c3 fn E1 E2 E3 nu12 nu23 nu13 G12 G23 G13 = stiff_TRI_U_DEFAULT_r2_1 c c3 fn E1 E2 E3 nu12 nu23 nu13 G12 G23 G13 ∧
    stiff_GPE_U_DEFAULT_r2_2 c c3 fn E1 E2 E3 nu12 nu23 nu13 G12 G23 G13 = stiff_TRI_U_DEFAULT_r2_2 c c3 fn E1 E2 E3 nu12 nu23 nu13 G12 G23 G13 ∧
    stiff_GPE_U_DEFAULT_r2_3 c c3 fn E1 E2 E3 nu12 nu23 nu13 G12 G23 G13 = stiff_TRI_U_DEFAULT_r2_3 c c3 fn E1 E2 E3 nu12 nu23 nu13 G12 G23 G13 ∧
    stiff_GPE_U_DEFAULT_r3_0 c c3 fn E1 E2 E3 nu12 nu23 nu13 G12 G23 G13 = stiff_TRI_U_DEFAULT_r3_0 c c3 fn E1 E2 E3 nu12 nu23 nu13 G12 G23 G13 ∧
    stiff_GPE_U_DEFAULT_r3_1 c c3 fn E1 E2 E3 nu12 nu23 nu13 G12 G23 G13 = stiff_TRI_U_DEFAULT_r3_1 c c3 fn E1 E2 E3 nu12 nu23 nu13 G12 G23 G13 ∧
    stiff_GPE_U_DEFAULT_r3_2 c c3 fn E1 E2 E3 nu12 nu23 nu13 G12 G23 G13 = stiff_TRI_U_DEFAULT_r3_2 c c3 fn E1 E2 E3 nu12 nu23 nu13 G12 G23 G13 ∧
    stiff_GPE_U_DEFAULT_r3_3 c c3 fn E1 E2 E3 nu12 nu23 nu13 G12 G23 G13 = stiff_TRI_U_DEFAULT_r3_3 c c3 fn E1 E2 E3 nu12 nu23 nu13 G12 G23 G13 := by
  axes_eq

/-- GeneralisedPlaneStrain, UNALTERED, PIPE: component (i,j) = component (π i, π j) of the 3D stiffness tensor, π = [0, 2, 1, 4] -/
theorem stiff_GPE_U_PIPE (E1 E2 E3 nu12 nu23 nu13 G12 G23 G13 : K) (hE2 : E2 ≠ 0) (hE3 : E3 ≠ 0) :
    stiff_GPE_U_PIPE_r0_0 c c3 fn E1 E2 E3 nu12 nu23 nu13 G12 G23 G13 = stiff_TRI_U_DEFAULT_r0_0 c c3 fn E1 E2 E3 nu12 nu23 nu13 G12 G23 G13 ∧
    stiff_GPE_U_PIPE_r0_1 c c3 fn E1 E2 E3 nu12 nu23 nu13 G12 G23 G13 = stiff_TRI_U_DEFAULT_r0_2 c c3 fn E1 E2 E3 nu12 nu23 nu13 G12 G23 G13 ∧
    stiff_GPE_U_PIPE_r0_2 c c3 fn E1 E2 E3 nu12 nu23 nu13 G12 G23 G13 = stiff_TRI_U_DEFAULT_r0_1 c c3 fn E1 E2 E3 nu12 nu23 nu13 G12 G23 G13 ∧
    stiff_GPE_U_PIPE_r0_3 c c3 fn E1 E2 E3 nu12 nu23 nu13 G12 G23 G13 = stiff_TRI_U_DEFAULT_r0_4 c c3 fn E1 E2 E3 nu12 nu23 nu13 G12 G23 G13 ∧
    stiff_GPE_U_PIPE_r1_0 c c3 fn E1 E2 E3 nu12 nu23 nu13 G12 G23 G13 = stiff_TRI_U_DEFAULT_r2_0 c c3 fn E1 E2 E3 nu12 nu23 nu13 G12 G23 G13 ∧
    stiff_GPE_U_PIPE_r1_1 c c3 fn E1 E2 E3 nu12 nu23 nu13 G12 G23 G13 = stiff_TRI_U_DEFAULT_r2_2 c c3 fn E1 E2 E3 nu12 nu23 nu13 G12 G23 G13 ∧
    stiff_GPE_U_PIPE_r1_2 c c3 fn E1 E2 E3 nu12 nu23 nu13 G12 G23 G13 = stiff_TRI_U_DEFAULT_r2_1 c c3 fn E1 E2 E3 nu12 nu23 nu13 G12 G23 G13 ∧
    stiff_GPE_U_PIPE_r1_3 c c3 fn E1 E2 E3 nu12 nu23 nu13 G12 G23 G13 = stiff_TRI_U_DEFAULT_r2_4 c c3 fn E1 E2 E3 nu12 nu23 nu13 G12 G23 G13 ∧
    stiff_GPE_U_PIPE_r2_0 c c3 fn E1 E2 E3 nu12 nu23 nu13 G12 G23 G13 = stiff_TRI_U_DEFAULT_r1_0 c c3 fn E1 E2 E3 nu12 nu23 nu13 G12 G23 G13 ∧
    stiff_GPE_U_PIPE_r2_1 c c3 fn E1 E2 E3 nu12 nu23 nu13 G12 G23 G13 = stiff_TRI_U_DEFAULT_r1_2 c c3 fn E1 E2 E3 nu12 nu23 nu13 G12 G23 G13 ∧
    stiff_GPE_U_PIPE_r2_2 c c3 fn E1 E2 E3 nu12 nu23 nu13 G12 G23 G13 = stiff_TRI_U_DEFAULT_r1_1 c c3 fn E1 E2 E3 nu12 nu23 nu13 G12 G23 G13 ∧
    stiff_GPE_U_PIPE_r2_3 c c3 fn E1 E2 E3 nu12 nu23 nu13 G12 G23 G13 = stiff_TRI_U_DEFAULT_r1_4 c c3 fn E1 E2 E3 nu12 nu23 nu13 G12 G23 G13 ∧
    stiff_GPE_U_PIPE_r3_0 c c3 fn E1 E2 E3 nu12 nu23 nu13 G12 G23 G13 = stiff_TRI_U_DEFAULT_r4_0 c c3 fn E1 E2 E3 nu12 nu23 nu13 G12 G23 G13 ∧
    stiff_GPE_U_PIPE_r3_1 c c3 fn E1 E2 E3 nu12 nu23 nu13 G12 G23 G13 = stiff_TRI_U_DEFAULT_r4_2 c c3 fn E1 E2 E3 nu12 nu23 nu13 G12 G23 G13 ∧
    stiff_GPE_U_PIPE_r3_2 c c3 fn E1 E2 E3 nu12 nu23 nu13 G12 G23 G13 = stiff_TRI_U_DEFAULT_r4_1 c c3 fn E1 E2 E3 nu12 nu23 nu13 G12 G23 G13 ∧
    stiff_GPE_U_PIPE_r3_3 c c3 fn E1 E2 E3 nu12 nu23 nu13 G12 G23 G13 = stiff_TRI_U_DEFAULT_r4_4 c c3 fn E1 E2 E3 nu12 nu23 nu13 G12 G23 G13 := by
  stiff_eq hE2 hE3

/-- GeneralisedPlaneStrain, ALTERED (no alteration for this hypothesis), DEFAULT: component (i,j) = component (π i, π j) of the 3D stiffness tensor, π = [0, 1, 2, 3] -/
theorem stiff_GPE_A_DEFAULT (E1 E2 E3 nu12 nu23 nu13 G12 G23 G13 : K) :
    stiff_GPE_A_DEFAULT_r0_0 c c3 fn E1 E2 E3 nu12 nu23 nu13 G12 G23 G13 = stiff_TRI_U_DEFAULT_r0_0 c c3 fn E1 E2 E3 nu12 nu23 nu13 G12 G23 G13 ∧
    stiff_GPE_A_DEFAULT_r0_1 c c3 fn E1 E2 E3 nu12 nu23 nu13 G12 G23 G13 = stiff_TRI_U_DEFAULT_r0_1 c c3 fn E1 E2 E3 nu12 nu23 nu13 G12 G23 G13 ∧
    stiff_GPE_A_DEFAULT_r0_2 c c3 fn E1 E2 E3 nu12 nu23 nu13 G12 G23 G13 = stiff_TRI_U_DEFAULT_r0_2 c c3 fn E1 E2 E3 nu12 nu23 nu13 G12 G23 G13 ∧
    stiff_GPE_A_DEFAULT_r0_3 c c3 fn E1 E2 E3 nu12 nu23 nu13 G12 G23 G13 = stiff_TRI_U_DEFAULT_r0_3 c c3 fn E1 E2 E3 nu12 nu23 nu13 G12 G23 G13 ∧
    stiff_GPE_A_DEFAULT_r1_0 c c3 fn E1 E2 E3 nu12 nu23 nu13 G12 G23 G13 = stiff_TRI_U_DEFAULT_r1_0 c c3 fn E1 E2 E3 nu12 nu23 nu13 G12 G23 G13 ∧
    stiff_GPE_A_DEFAULT_r1_1 c c3 fn E1 E2 E3 nu12 nu23 nu13 G12 G23 G13 = stiff_TRI_U_DEFAULT_r1_1 c c3 fn E1 E2 E3 nu12 nu23 nu13 G12 G23 G13 ∧
    stiff_GPE_A_DEFAULT_r1_2 c c3 fn E1 E2 E3 nu12 nu23 nu13 G12 G23 G13 = stiff_TRI_U_DEFAULT_r1_2 c c3 fn E1 E2 E3 nu12 nu23 nu13 G12 G23 G13 ∧
    stiff_GPE_A_DEFAULT_r1_3 c c3 fn E1 E2 E3 nu12 nu23 nu13 G12 G23 G13 = stiff_TRI_U_DEFAULT_r1_3 c c3 fn E1 E2 E3 nu12 nu23 nu13 G12 G23 G13 ∧
    stiff_GPE_A_DEFAULT_r2_0 c c3 fn E1 E2 E3 nu12 nu23 nu13 G12 G23 G13 = stiff_TRI_U_DEFAULT_r2_0 c c3 fn E1 E2 E3 nu12 nu23 nu13 G12 G23 G13 ∧
    stiff_GPE_A_DEFAULT_r2_1 c c3 fn E1 E2 E3 nu12 nu23 nu13 G12 G23 G13 = stiff_TRI_U_DEFAULT_r2_1 c c3 fn E1 E2 E3 nu12 nu23 nu13 G12 G23 G13 ∧
    stiff_GPE_A_DEFAULT_r2_2 c c3 fn E1 E2 E3 nu12 nu23 nu13 G12 G23 G13 = stiff_TRI_U_DEFAULT_r2_2 c c3 fn E1 E2 E3 nu12 nu23 nu13 G12 G23 G13 ∧
    stiff_GPE_A_DEFAULT_r2_3 c c3 fn E1 E2 E3 nu12 nu23 nu13 G12 G23 G13 = stiff_TRI_U_DEFAULT_r2_3 c c3 fn E1 E2 E3 nu12 nu23 nu13 G12 G23 G13 ∧
    stiff_GPE_A_DEFAULT_r3_0 c c3 fn E1 E2 E3 nu12 nu23 nu13 G12 G23 G13 = stiff_TRI_U_DEFAULT_r3_0 c c3 fn E1 E2 E3 nu12 nu23 nu13 G12 G23 G13 ∧
    stiff_GPE_A_DEFAULT_r3_1 c c3 fn E1 E2 E3 nu12 nu23 nu13 G12 G23 G13 = stiff_TRI_U_DEFAULT_r3_1 c c3 fn E1 E2 E3 nu12 nu23 nu13 G12 G23 G13 ∧
    stiff_GPE_A_DEFAULT_r3_2 c c3 fn E1 E2 E3 nu12 nu23 nu13 G12 G23 G13 = stiff_TRI_U_DEFAULT_r3_2 c c3 fn E1 E2 E3 nu12 nu23 nu13 G12 G23 G13 ∧
    stiff_GPE_A_DEFAULT_r3_3 c c3 fn E1 E2 E3 nu12 nu23 nu13 G12 G23 G13 = stiff_TRI_U_DEFAULT_r3_3 c c3 fn E1 E2 E3 nu12 nu23 nu13 G12 G23 G13 := by
  axes_eq

/-- GeneralisedPlaneStrain, ALTERED (no alteration for this hypothesis), PIPE: component (i,j) = component (π i, π j) of the 3D stiffness tensor, π = [0, 2, 1, 4] -/
theorem stiff_GPE_A_PIPE (E1 E2 E3 nu12 nu23 nu13 G12 G23 G13 : K) (hE2 : E2 ≠ 0) (hE3 : E3 ≠ 0) :
    stiff_GPE_A_PIPE_r0_0 c c3 fn E1 E2 E3 nu12 nu23 nu13 G12 G23 G13 = stiff_TRI_U_DEFAULT_r0_0 c c3 fn E1 E2 E3 nu12 nu23 nu13 G12 G23 G13 ∧
    stiff_GPE_A_PIPE_r0_1 c c3 fn E1 E2 E3 nu12 nu23 nu13 G12 G23 G13 = stiff_TRI_U_DEFAULT_r0_2 c c3 fn E1 E2 E3 nu12 nu23 nu13 G12 G23 G13 ∧
    stiff_GPE_A_PIPE_r0_2 c c3 fn E1 E2 E3 nu12 nu23 nu13 G12 G23 G13 = stiff_TRI_U_DEFAULT_r0_1 c c3 fn E1 E2 E3 nu12 nu23 nu13 G12 G23 G13 ∧
    stiff_GPE_A_PIPE_r0_3 c c3 fn E1 E2 E3 nu12 nu23 nu13 G12 G23 G13 = stiff_TRI_U_DEFAULT_r0_4 c c3 fn E1 E2 E3 nu12 nu23 nu13 G12 G23 G13 ∧
    stiff_GPE_A_PIPE_r1_0 c c3 fn E1 E2 E3 nu12 nu23 nu13 G12 G23 G13 = stiff_TRI_U_DEFAULT_r2_0 c c3 fn E1 E2 E3 nu12 nu23 nu13 G12 G23 G13 ∧
    stiff_GPE_A_PIPE_r1_1 c c3 fn E1 E2 E3 nu12 nu23 nu13 G12 G23 G13 = stiff_TRI_U_DEFAULT_r2_2 c c3 fn E1 E2 E3 nu12 nu23 nu13 G12 G23 G13 ∧
    stiff_GPE_A_PIPE_r1_2 c c3 fn E1 E2 E3 nu12 nu23 nu13 G12 G23 G13 = stiff_TRI_U_DEFAULT_r2_1 c c3 fn E1 E2 E3 nu12 nu23 nu13 G12 G23 G13 ∧
    stiff_GPE_A_PIPE_r1_3 c c3 fn E1 E2 E3 nu12 nu23 nu13 G12 G23 G13 = stiff_TRI_U_DEFAULT_r2_4 c c3 fn E1 E2 E3 nu12 nu23 nu13 G12 G23 G13 ∧
    stiff_GPE_A_PIPE_r2_0 c c3 fn E1 E2 E3 nu12 nu23 nu13 G12 G23 G13 = stiff_TRI_U_DEFAULT_r1_0 c c3 fn E1 E2 E3 nu12 nu23 nu13 G12 G23 G13 ∧
    stiff_GPE_A_PIPE_r2_1 c c3 fn E1 E2 E3 nu12 nu23 nu13 G12 G23 G13 = stiff_TRI_U_DEFAULT_r1_2 c c3 fn E1 E2 E3 nu12 nu23 nu13 G12 G23 G13 ∧
    stiff_GPE_A_PIPE_r2_2 c c3 fn E1 E2 E3 nu12 nu23 nu13 G12 G23 G13 = stiff_TRI_U_DEFAULT_r1_1 c c3 fn E1 E2 E3 nu12 nu23 nu13 G12 G23 G13 ∧
    stiff_GPE_A_PIPE_r2_3 c c3 fn E1 E2 E3 nu12 nu23 nu13 G12 G23 G13 = stiff_TRI_U_DEFAULT_r1_4 c c3 fn E1 E2 E3 nu12 nu23 nu13 G12 G23 G13 ∧
    stiff_GPE_A_PIPE_r3_0 c c3 fn E1 E2 E3 nu12 nu23 nu13 G12 G23 G13 = stiff_TRI_U_DEFAULT_r4_0 c c3 fn E1 E2 E3 nu12 nu23 nu13 G12 G23 G13 ∧
    stiff_GPE_A_PIPE_r3_1 c c3 fn E1 E2 E3 nu12 nu23 nu13 G12 G23 G13 = stiff_TRI_U_DEFAULT_r4_2 c c3 fn E1 E2 E3 nu12 nu23 nu13 G12 G23 G13 ∧
    stiff_GPE_A_PIPE_r3_2 c c3 fn E1 E2 E3 nu12 nu23 nu13 G12 G23 G13 = stiff_TRI_U_DEFAULT_r4_1 c c3 fn E1 E2 E3 nu12 nu23 nu13 G12 G23 G13 ∧
    stiff_GPE_A_PIPE_r3_3 c c3 fn E1 E2 E3 nu12 nu23 nu13 G12 G23 G13 = stiff_TRI_U_DEFAULT_r4_4 c c3 fn E1 E2 E3 nu12 nu23 nu13 G12 G23 G13 := by
  stiff_eq hE2 hE3

/-- Tridimensional, UNALTERED, PIPE: component (i,j) = component (π i, π j) of the 3D stiffness tensor, π = [0, 1, 2, 3, 4, 5] -/
theorem stiff_TRI_U_PIPE (E1 E2 E3 nu12 nu23 nu13 G12 G23 G13 : K) :
    stiff_TRI_U_PIPE_r0_0 c c3 fn E1 E2 E3 nu12 nu23 nu13 G12 G23 G13 = stiff_TRI_U_DEFAULT_r0_0 c c3 fn E1 E2 E3 nu12 nu23 nu13 G12 G23 G13 ∧
    stiff_TRI_U_PIPE_r0_1 c c3 fn E1 E2 E3 nu12 nu23 nu13 G12 G23 G13 = stiff_TRI_U_DEFAULT_r0_1 c c3 fn E1 E2 E3 nu12 nu23 nu13 G12 G23 G13 ∧
    stiff_TRI_U_PIPE_r0_2 c c3 fn E1 E2 E3 nu12 nu23 nu13 G12 G23 G13 = stiff_TRI_U_DEFAULT_r0_2 c c3 fn E1 E2 E3 nu12 nu23 nu13 G12 G23 G13 ∧
    stiff_TRI_U_PIPE_r0_3 c c3 fn E1 E2 E3 nu12 nu23 nu13 G12 G23 G13 = stiff_TRI_U_DEFAULT_r0_3 c c3 fn E1 E2 E3 nu12 nu23 nu13 G12 G23 G13 ∧
    stiff_TRI_U_PIPE_r0_4 c c3 fn E1 E2 E3 nu12 nu23 nu13 G12 G23 G13 = stiff_TRI_U_DEFAULT_r0_4 c c3 fn E1 E2 E3 nu12 nu23 nu13 G12 G23 G13 ∧
    stiff_TRI_U_PIPE_r0_5 c c3 fn E1 E2 E3 nu12 nu23 nu13 G12 G23 G13 = stiff_TRI_U_DEFAULT_r0_5 c c3 fn E1 E2 E3 nu12 nu23 nu13 G12 G23 G13 ∧
    stiff_TRI_U_PIPE_r1_0 c c3 fn E1 E2 E3 nu12 nu23 nu13 G12 G23 G13 = stiff_TRI_U_DEFAULT_r1_0 c c3 fn E1 E2 E3 nu12 nu23 nu13 G12 G23 G13 ∧
    stiff_TRI_U_PIPE_r1_1 c c3 fn E1 E2 E3 nu12 nu23 nu13 G12 G23 G13 = stiff_TRI_U_DEFAULT_r1_1 c c3 fn E1 E2 E3 nu12 nu23 nu13 G12 G23 G13 ∧
    stiff_TRI_U_PIPE_r1_2 c c3 fn E1 E2 E3 nu12 nu23 nu13 G12 G23 G13 = stiff_TRI_U_DEFAULT_r1_2 c c3 fn E1 E2 E3 nu12 nu23 nu13 G12 G23 G13 ∧
    stiff_TRI_U_PIPE_r1_3 c c3 fn E1 E2 E3 nu12 nu23 nu13 G12 G23 G13 = stiff_TRI_U_DEFAULT_r1_3 c c3 fn E1 E2 E3 nu12 nu23 nu13 G12 G23 G13 ∧
    stiff_TRI_U_PIPE_r1_4 c c3 fn E1 E2 E3 nu12 nu23 nu13 G12 G23 G13 = stiff_TRI_U_DEFAULT_r1_4 c c3 fn E1 E2 E3 nu12 nu23 nu13 G12 G23 G13 ∧
    stiff_TRI_U_PIPE_r1_5 c c3 fn E1 E2 E3 nu12 nu23 nu13 G12 G23 G13 = stiff_TRI_U_DEFAULT_r1_5 c c3 fn E1 E2 E3 nu12 nu23 nu13 G12 G23 G13 ∧
    stiff_TRI_U_PIPE_r2_0 c c3 fn E1 E2 E3 nu12 nu23 nu13 G12 G23 G13 = stiff_TRI_U_DEFAULT_r2_0 c c3 fn E1 E2 E3 nu12 nu23 nu13 G12 G23 G13 ∧
    stiff_TRI_U_PIPE_r2_1 c c3 fn E1 E2 E3 nu12 nu23 nu13 G12 G23 G13 = stiff_TRI_U_DEFAULT_r2_1 c c3 fn E1 E2 E3 nu12 nu23 nu13 G12 G23 G13 ∧
    stiff_TRI_U_PIPE_r2_2 c c3 fn E1 E2 E3 nu12 nu23 nu13 G12 G23 G13 = stiff_TRI_U_DEFAULT_r2_2 c c3 fn E1 E2 E3 nu12 nu23 nu13 G12 G23 G13 ∧
    stiff_TRI_U_PIPE_r2_3 c c3 fn E1 E2 E3 nu12 nu23 nu13 G12 G23 G13 = stiff_TRI_U_DEFAULT_r2_3 c c3 fn E1 E2 E3 nu12 nu23 nu13 G12 G23 G13 ∧
    stiff_TRI_U_PIPE_r2_4 c c3 fn E1 E2 E3 nu12 nu23 nu13 G12 G23 G13 = stiff_TRI_U_DEFAULT_r2_4 c c3 fn E1 E2 E3 nu12 nu23 nu13 G12 G23 G13 ∧
    stiff_TRI_U_PIPE_r2_5 c c3 fn E1 E2 E3 nu12 nu23 nu13 G12 G23 G13 = stiff_TRI_U_DEFAULT_r2_5 c c3 fn E1 E2 E3 nu12 nu23 nu13 G12 G23 G13 ∧
    stiff_TRI_U_PIPE_r3_0 c c3 fn E1 E2 E3 nu12 nu23 nu13 G12 G23 G13 = stiff_TRI_U_DEFAULT_r3_0 c c3 fn E1 E2 E3 nu12 nu23 nu13 G12 G23 G13 ∧
    stiff_TRI_U_PIPE_r3_1 c c3 fn E1 E2 E3 nu12 nu23 nu13 G12 G23 G13 = stiff_TRI_U_DEFAULT_r3_1 c c3 fn E1 E2 E3 nu12 nu23 nu13 G12 G23 G13 ∧
    stiff_TRI_U_PIPE_r3_2 c c3 fn E1 E2 E3 nu12 nu23 nu13 G12 G23 G13 = stiff_TRI_U_DEFAULT_r3_2 c c3 fn E1 E2 E3 nu12 nu23 nu13 G12 G23 G13 ∧
    stiff_TRI_U_PIPE_r3_3 c c3 fn E1 E2 E3 nu12 nu23 nu13 G12 G23 G13 = stiff_TRI_U_DEFAULT_r3_3 c c3 fn E1 E2 E3 nu12 nu23 nu13 G12 G23 G13 ∧
    stiff_TRI_U_PIPE_r3_4 c c3 fn E1 E2 E3 nu12 nu23 nu13 G12 G23 G13 = stiff_TRI_U_DEFAULT_r3_4 c c3 fn E1 E2 E3 nu12 nu23 nu13 G12 G23 G13 ∧
    stiff_TRI_U_PIPE_r3_5 c c3 fn E1 E2 E3 nu12 nu23 nu13 G12 G23 G13 = stiff_TRI_U_DEFAULT_r3_5 c c3 fn E1 E2 E3 nu12 nu23 nu13 G12 G23 G13 ∧
    stiff_TRI_U_PIPE_r4_0 c c3 fn E1 E2 E3 nu12 nu23 nu13 G12 G23 G13 = stiff_TRI_U_DEFAULT_r4_0 c c3 fn E1 E2 E3 nu12 nu23 nu13 G12 G23 G13 ∧
    stiff_TRI_U_PIPE_r4_1 c c3 fn E1 E2 E3 nu12 nu23 nu13 G12 G23 G13 = stiff_TRI_U_DEFAULT_r4_1 c c3 fn E1 E2 E3 nu12 nu23 nu13 G12 G23 G13 ∧
    stiff_TRI_U_PIPE_r4_2 c c3 fn E1 E2 E3 nu12 nu23 nu13 G12 G23 G13 = stiff_TRI_U_DEFAULT_r4_2 c c3 fn E1 E2 E3 nu12 nu23 nu13 G12 G23 G13 ∧
    stiff_TRI_U_PIPE_r4_3 c c3 fn E1 E2 E3 nu12 nu23 nu13 G12 G23 G13 = stiff_TRI_U_DEFAULT_r4_3 c c3 fn E1 E2 E3 nu12 nu23 nu13 G12 G23 G13 ∧
    stiff_TRI_U_PIPE_r4_4 c c3 fn E1 E2 E3 nu12 nu23 nu13 G12 G23 G13 = stiff_TRI_U_DEFAULT_r4_4 c c3 fn E1 E2 E3 nu12 nu23 nu13 G12 G23 G13 ∧
    stiff_TRI_U_PIPE_r4_5 c c3 fn E1 E2 E3 nu12 nu23 nu13 G12 G23 G13 = stiff_TRI_U_DEFAULT_r4_5 c c3 fn E1 E2 E3 nu12 nu23 nu13 G12 G23 G13 ∧
    stiff_TRI_U_PIPE_r5_0 c c3 fn E1 E2 E3 nu12 nu23 nu13 G12 G23 G13 = stiff_TRI_U_DEFAULT_r5_0 c c3 fn E1 E2 E3 nu12 nu23 nu13 G12 G23 G13 ∧
    stiff_TRI_U_PIPE_r5_1 c c3 fn E1 E2 E3 nu12 nu23 nu13 G12 G23 G13 = stiff_TRI_U_DEFAULT_r5_1 c c3 fn E1 E2 E3 nu12 nu23 nu13 G12 G23 G13 ∧
    stiff_TRI_U_PIPE_r5_2 c c3 fn E1 E2 E3 nu12 nu23 nu13 G12 G23 G13 = stiff_TRI_U_DEFAULT_r5_2 c c3 fn E1 E2 E3 nu12 nu23 nu13 G12 G23 G13 ∧
    stiff_TRI_U_PIPE_r5_3 c c3 fn E1 E2 E3 nu12 nu23 nu13 G12 G23 G13 = stiff_TRI_U_DEFAULT_r5_3 c c3 fn E1 E2 E3 nu12 nu23 nu13 G12 G23 G13 ∧
    stiff_TRI_U_PIPE_r5_4 c c3 fn E1 E2 E3 nu12 nu23 nu13 G12 G23 G13 = stiff_TRI_U_DEFAULT_r5_4 c c3 fn E1 E2 E3 nu12 nu23 nu13 G12 G23 G13 ∧
    stiff_TRI_U_PIPE_r5_5 c c3 fn E1 E2 E3 nu12 nu23 nu13 G12 G23 G13 = stiff_TRI_U_DEFAULT_r5_5 c c3 fn E1 E2 E3 nu12 nu23 nu13 G12 G23 G13 := by
  axes_eq

/-- Tridimensional, ALTERED (no alteration for this hypothesis), DEFAULT: component (i,j) = component (π i, π j) of the 3D stiffness tensor, π = [0, 1, 2, 3, 4, 5] -/
theorem stiff_TRI_A_DEFAULT (E1 E2 E3 nu12 nu23 nu13 G12 G23 G13 : K) :
    stiff_TRI_A_DEFAULT_r0_0 c c3 fn E1 E2 E3 nu12 nu23 nu13 G12 G23 G13 = stiff_TRI_U_DEFAULT_r0_0 c c3 fn E1 E2 E3 nu12 nu23 nu13 G12 G23 G13 ∧
    stiff_TRI_A_DEFAULT_r0_1 c c3 fn E1 E2 E3 nu12 nu23 nu13 G12 G23 G13 = stiff_TRI_U_DEFAULT_r0_1 c c3 fn E1 E2 E3 nu12 nu23 nu13 G12 G23 G13 ∧
    stiff_TRI_A_DEFAULT_r0_2 c c3 fn E1 E2 E3 nu12 nu23 nu13 G12 G23 G13 = stiff_TRI_U_DEFAULT_r0_2 c c3 fn E1 E2 E3 nu12 nu23 nu13 G12 G23 G13 ∧
    stiff_TRI_A_DEFAULT_r0_3 c c3 fn E1 E2 E3 nu12 nu23 nu13 G12 G23 G13 = stiff_TRI_U_DEFAULT_r0_3 c c3 fn E1 E2 E3 nu12 nu23 nu13 G12 G23 G13 ∧
    stiff_TRI_A_DEFAULT_r0_4 c c3 fn E1 E2 E3 nu12 nu23 nu13 G12 G23 G13 = stiff_TRI_U_DEFAULT_r0_4 c c3 fn E1 E2 E3 nu12 nu23 nu13 G12 G23 G13 ∧
    stiff_TRI_A_DEFAULT_r0_5 c c3 fn E1 E2 E3 nu12 nu23 nu13 G12 G23 G13 = stiff_TRI_U_DEFAULT_r0_5 c c3 fn E1 E2 E3 nu12 nu23 nu13 G12 G23 G13 ∧
    stiff_TRI_A_DEFAULT_r1_0 c c3 fn E1 E2 E3 nu12 nu23 nu13 G12 G23 G13 = stiff_TRI_U_DEFAULT_r1_0 c c3 fn E1 E2 E3 nu12 nu23 nu13 G12 G23 G13 ∧
    stiff_TRI_A_DEFAULT_r1_1 c c3 fn E1 E2 E3 nu12 nu23 nu13 G12 G23 G13 = stiff_TRI_U_DEFAULT_r1_1 c c3 fn E1 E2 E3 nu12 nu23 nu13 G12 G23 G13 ∧
    stiff_TRI_A_DEFAULT_r1_2 c c3 fn E1 E2 E3 nu12 nu23 nu13 G12 G23 G13 = stiff_TRI_U_DEFAULT_r1_2 c c3 fn E1 E2 E3 nu12 nu23 nu13 G12 G23 G13 ∧
    stiff_TRI_A_DEFAULT_r1_3 c c3 fn E1 E2 E3 nu12 nu23 nu13 G12 G23 G13 = stiff_TRI_U_DEFAULT_r1_3 c c3 fn E1 E2 E3 nu12 nu23 nu13 G12 G23 G13 ∧
    stiff_TRI_A_DEFAULT_r1_4 c c3 fn E1 E2 E3 nu12 nu23 nu13 G12 G23 G13 = stiff_TRI_U_DEFAULT_r1_4 c c3 fn E1 E2 E3 nu12 nu23 nu13 G12 G23 G13 ∧
    stiff_TRI_A_DEFAULT_r1_5 c c3 fn E1 E2 E3 nu12 nu23 nu13 G12 G23 G13 = stiff_TRI_U_DEFAULT_r1_5 c c3 fn E1 E2 E3 nu12 nu23 nu13 G12 G23 G13 ∧
    stiff_TRI_A_DEFAULT_r2_0 c c3 fn E1 E2 E3 nu12 nu23 nu13 G12 G23 G13 = stiff_TRI_U_DEFAULT_r2_0 c c3 fn E1 E2 E3 nu12 nu23 nu13 G12 G23 G13 ∧
    stiff_TRI_A_DEFAULT_r2_1 c c3 fn E1 E2 E3 nu12 nu23 nu13 G12 G23 G13 = stiff_TRI_U_DEFAULT_r2_1 c c3 fn E1 E2 E3 nu12 nu23 nu13 G12 G23 G13 ∧
    stiff_TRI_A_DEFAULT_r2_2 c c3 fn E1 E2 E3 nu12 nu23 nu13 G12 G23 G13 = stiff_TRI_U_DEFAULT_r2_2 c c3 fn E1 E2 E3 nu12 nu23 nu13 G12 G23 G13 ∧
    stiff_TRI_A_DEFAULT_r2_3 c c3 fn E1 E2 E3 nu12 nu23 nu13 G12 G23 G13 = stiff_TRI_U_DEFAULT_r2_3 c c3 fn E1 E2 E3 nu12 nu23 nu13 G12 G23 G13 ∧
    stiff_TRI_A_DEFAULT_r2_4 c c3 fn E1 E2 E3 nu12 nu23 nu13 G12 G23 G13 = stiff_TRI_U_DEFAULT_r2_4 c c3 fn E1 E2 E3 nu12 nu23 nu13 G12 G23 G13 ∧
    stiff_TRI_A_DEFAULT_r2_5 c c3 fn E1 E2 E3 nu12 nu23 nu13 G12 G23 G13 = stiff_TRI_U_DEFAULT_r2_5 c c3 fn E1 E2 E3 nu12 nu23 nu13 G12 G23 G13 ∧
    stiff_TRI_A_DEFAULT_r3_0 c c3 fn E1 E2 E3 nu12 nu23 nu13 G12 G23 G13 = stiff_TRI_U_DEFAULT_r3_0 c c3 fn E1 E2 E3 nu12 nu23 nu13 G12 G23 G13 ∧
    stiff_TRI_A_DEFAULT_r3_1 c c3 fn E1 E2 E3 nu12 nu23 nu13 G12 G23 G13 = stiff_TRI_U_DEFAULT_r3_1 c c3 fn E1 E2 E3 nu12 nu23 nu13 G12 G23 G13 ∧
    stiff_TRI_A_DEFAULT_r3_2 c c3 fn E1 E2 E3 nu12 nu23 nu13 G12 G23 G13 = stiff_TRI_U_DEFAULT_r3_2 c c3 fn E1 E2 E3 nu12 nu23 nu13 G12 G23 G13 ∧
    stiff_TRI_A_DEFAULT_r3_3 c c3 fn E1 E2 E3 nu12 nu23 nu13 G12 G23 G13 = stiff_TRI_U_DEFAULT_r3_3 c c3 fn E1 E2 E3 nu12 nu23 nu13 G12 G23 G13 ∧
    stiff_TRI_A_DEFAULT_r3_4 c c3 fn E1 E2 E3 nu12 nu23 nu13 G12 G23 G13 = stiff_TRI_U_DEFAULT_r3_4 c c3 fn E1 E2 E3 nu12 nu23 nu13 G12 G23 G13 ∧
    stiff_TRI_A_DEFAULT_r3_5 c c3 fn E1 E2 E3 nu12 nu23 nu13 G12 G23 G13 = stiff_TRI_U_DEFAULT_r3_5 c c3 fn E1 E2 E3 nu12 nu23 nu13 G12 G23 G13 ∧
    stiff_TRI_A_DEFAULT_r4_0 c c3 fn E1 E2 E3 nu12 nu23 nu13 G12 G23 G13 = stiff_TRI_U_DEFAULT_r4_0 c c3 fn E1 E2 E3 nu12 nu23 nu13 G12 G23 G13 ∧
    stiff_TRI_A_DEFAULT_r4_1 c c3 fn E1 E2 E3 nu12 nu23 nu13 G12 G23 G13 = stiff_TRI_U_DEFAULT_r4_1 c c3 fn E1 E2 E3 nu12 nu23 nu13 G12 G23 G13 ∧
    stiff_TRI_A_DEFAULT_r4_2 c c3 fn E1 E2 E3 nu12 nu23 nu13 G12 G23 G13 = stiff_TRI_U_DEFAULT_r4_2 c c3 fn E1 E2 E3 nu12 nu23 nu13 G12 G23 G13 ∧
    stiff_TRI_A_DEFAULT_r4_3 c c3 fn E1 E2 E3 nu12 nu23 nu13 G12 G23 G13 = stiff_TRI_U_DEFAULT_r4_3 c c3 fn E1 E2 E3 nu12 nu23 nu13 G12 G23 G13 ∧
    stiff_TRI_A_DEFAULT_r4_4 c c3 fn E1 E2 E3 nu12 nu23 nu13 G12 G23 G13 = stiff_TRI_U_DEFAULT_r4_4 c c3 fn E1 E2 E3 nu12 nu23 nu13 G12 G23 G13 ∧
    stiff_TRI_A_DEFAULT_r4_5 c c3 fn E1 E2 E3 nu12 nu23 nu13 G12 G23 G13 = stiff_TRI_U_DEFAULT_r4_5 c c3 fn E1 E2 E3 nu12 nu23 nu13 G12 G23 G13 ∧
    stiff_TRI_A_DEFAULT_r5_0 c c3 fn E1 E2 E3 nu12 nu23 nu13 G12 G23 G13 = stiff_TRI_U_DEFAULT_r5_0 c c3 fn E1 E2 E3 nu12 nu23 nu13 G12 G23 G13 ∧
    stiff_TRI_A_DEFAULT_r5_1 c c3 fn E1 E2 E3 nu12 nu23 nu13 G12 G23 G13 = stiff_TRI_U_DEFAULT_r5_1 c c3 fn E1 E2 E3 nu12 nu23 nu13 G12 G23 G13 ∧
    stiff_TRI_A_DEFAULT_r5_2 c c3 fn E1 E2 E3 nu12 nu23 nu13 G12 G23 G13 = stiff_TRI_U_DEFAULT_r5_2 c c3 fn E1 E2 E3 nu12 nu23 nu13 G12 G23 G13 ∧
    stiff_TRI_A_DEFAULT_r5_3 c c3 fn E1 E2 E3 nu12 nu23 nu13 G12 G23 G13 = stiff_TRI_U_DEFAULT_r5_3 c c3 fn E1 E2 E3 nu12 nu23 nu13 G12 G23 G13 ∧
    stiff_TRI_A_DEFAULT_r5_4 c c3 fn E1 E2 E3 nu12 nu23 nu13 G12 G23 G13 = stiff_TRI_U_DEFAULT_r5_4 c c3 fn E1 E2 E3 nu12 nu23 nu13 G12 G23 G13 ∧
    stiff_TRI_A_DEFAULT_r5_5 c c3 fn E1 E2 E3 nu12 nu23 nu13 G12 G23 G13 = stiff_TRI_U_DEFAULT_r5_5 c c3 fn E1 E2 E3 nu12 nu23 nu13 G12 G23 G13 := by
  axes_eq

/-- Tridimensional, ALTERED (no alteration for this hypothesis), PIPE: component (i,j) = component (π i, π j) of the 3D stiffness tensor, π = [0, 1, 2, 3, 4, 5] -/
theorem stiff_TRI_A_PIPE (E1 E2 E3 nu12 nu23 nu13 G12 G23 G13 : K) :
    stiff_TRI_A_PIPE_r0_0 c c3 fn E1 E2 E3 nu12 nu23 nu13 G12 G23 G13 = stiff_TRI_U_DEFAULT_r0_0 c c3 fn E1 E2 E3 nu12 nu23 nu13 G12 G23 G13 ∧
    stiff_TRI_A_PIPE_r0_1 c c3 fn E1 E2 E3 nu12 nu23 nu13 G12 G23 G13 = stiff_TRI_U_DEFAULT_r0_1 c c3 fn E1 E2 E3 nu12 nu23 nu13 G12 G23 G13 ∧
    stiff_TRI_A_PIPE_r0_2 c c3 fn E1 E2 E3 nu12 nu23 nu13 G12 G23 G13 = stiff_TRI_U_DEFAULT_r0_2 c c3 fn E1 E2 E3 nu12 nu23 nu13 G12 G23 G13 ∧
    stiff_TRI_A_PIPE_r0_3 c c3 fn E1 E2 E3 nu12 nu23 nu13 G12 G23 G13 = stiff_TRI_U_DEFAULT_r0_3 c c3 fn E1 E2 E3 nu12 nu23 nu13 G12 G23 G13 ∧
    stiff_TRI_A_PIPE_r0_4 c c3 fn E1 E2 E3 nu12 nu23 nu13 G12 G23 G13 = stiff_TRI_U_DEFAULT_r0_4 c c3 fn E1 E2 E3 nu12 nu23 nu13 G12 G23 G13 ∧
    stiff_TRI_A_PIPE_r0_5 c c3 fn E1 E2 E3 nu12 nu23 nu13 G12 G23 G13 = stiff_TRI_U_DEFAULT_r0_5 c c3 fn E1 E2 E3 nu12 nu23 nu13 G12 G23 G13 ∧
    stiff_TRI_A_PIPE_r1_0 c c3 fn E1 E2 E3 nu12 nu23 nu13 G12 G23 G13 = stiff_TRI_U_DEFAULT_r1_0 c c3 fn E1 E2 E3 nu12 nu23 nu13 G12 G23 G13 ∧
    stiff_TRI_A_PIPE_r1_1 c c3 fn E1 E2 E3 nu12 nu23 nu13 G12 G23 G13 = stiff_TRI_U_DEFAULT_r1_1 c c3 fn E1 E2 E3 nu12 nu23 nu13 G12 G23 G13 ∧
    stiff_TRI_A_PIPE_r1_2 c c3 fn E1 E2 E3 nu12 nu23 nu13 G12 G23 G13 = stiff_TRI_U_DEFAULT_r1_2 c c3 fn E1 E2 E3 nu12 nu23 nu13 G12 G23 G13 ∧
    stiff_TRI_A_PIPE_r1_3 c c3 fn E1 E2 E3 nu12 nu23 nu13 G12 G23 G13 = stiff_TRI_U_DEFAULT_r1_3 c c3 fn E1 E2 E3 nu12 nu23 nu13 G12 G23 G13 ∧
    stiff_TRI_A_PIPE_r1_4 c c3 fn E1 E2 E3 nu12 nu23 nu13 G12 G23 G13 = stiff_TRI_U_DEFAULT_r1_4 c c3 fn E1 E2 E3 nu12 nu23 nu13 G12 G23 G13 ∧
    stiff_TRI_A_PIPE_r1_5 c c3 fn E1 E2 E3 nu12 nu23 nu13 G12 G23 G13 = stiff_TRI_U_DEFAULT_r1_5 c c3 fn E1 E2 E3 nu12 nu23 nu13 G12 G23 G13 ∧
    stiff_TRI_A_PIPE_r2_0 c c3 fn E1 E2 E3 nu12 nu23 nu13 G12 G23 G13 = stiff_TRI_U_DEFAULT_r2_0 c c3 fn E1 E2 E3 nu12 nu23 nu13 G12 G23 G13 ∧
    stiff_TRI_A_PIPE_r2_1 c c3 fn E1 E2 E3 nu12 nu23 nu13 G12 G23 G13 = stiff_TRI_U_DEFAULT_r2_1 c c3 fn E1 E2 E3 nu12 nu23 nu13 G12 G23 G13 ∧
    stiff_TRI_A_PIPE_r2_2 c c3 fn E1 E2 E3 nu12 nu23 nu13 G12 G23 G13 = stiff_TRI_U_DEFAULT_r2_2 c c3 fn E1 E2 E3 nu12 nu23 nu13 G12 G23 G13 ∧
    stiff_TRI_A_PIPE_r2_3 c c3 fn E1 E2 E3 nu12 nu23 nu13 G12 G23 G13 = stiff_TRI_U_DEFAULT_r2_3 c c3 fn E1 E2 E3 nu12 nu23 nu13 G12 G23 G13 ∧
    stiff_TRI_A_PIPE_r2_4 c c3 fn E1 E2 E3 nu12 nu23 nu13 G12 G23 G13 = stiff_TRI_U_DEFAULT_r2_4 c c3 fn E1 E2 E3 nu12 nu23 nu13 G12 G23 G13 ∧
    stiff_TRI_A_PIPE_r2_5 c c3 fn E1 E2 E3 nu12 nu23 nu13 G12 G23 G13 = stiff_TRI_U_DEFAULT_r2_5 c c3 fn E1 E2 E3 nu12 nu23 nu13 G12 G23 G13 ∧
    stiff_TRI_A_PIPE_r3_0 c c3 fn E1 E2 E3 nu12 nu23 nu13 G12 G23 G13 = stiff_TRI_U_DEFAULT_r3_0 c c3 fn E1 E2 E3 nu12 nu23 nu13 G12 G23 G13 ∧
    stiff_TRI_A_PIPE_r3_1 c c3 fn E1 E2 E3 nu12 nu23 nu13 G12 G23 G13 = stiff_TRI_U_DEFAULT_r3_1 c c3 fn E1 E2 E3 nu12 nu23 nu13 G12 G23 G13 ∧
    stiff_TRI_A_PIPE_r3_2 c c3 fn E1 E2 E3 nu12 nu23 nu13 G12 G23 G13 = stiff_TRI_U_DEFAULT_r3_2 c c3 fn E1 E2 E3 nu12 nu23 nu13 G12 G23 G13 ∧
    stiff_TRI_A_PIPE_r3_3 c c3 fn E1 E2 E3 nu12 nu23 nu13 G12 G23 G13 = stiff_TRI_U_DEFAULT_r3_3 c c3 fn E1 E2 E3 nu12 nu23 nu13 G12 G23 G13 ∧
    stiff_TRI_A_PIPE_r3_4 c c3 fn E1 E2 E3 nu12 nu23 nu13 G12 G23 G13 = stiff_TRI_U_DEFAULT_r3_4 c c3 fn E1 E2 E3 nu12 nu23 nu13 G12 G23 G13 ∧
    stiff_TRI_A_PIPE_r3_5 c c3 fn E1 E2 E3 nu12 nu23 nu13 G12 G23 G13 = stiff_TRI_U_DEFAULT_r3_5 c c3 fn E1 E2 E3 nu12 nu23 nu13 G12 G23 G13 ∧
    stiff_TRI_A_PIPE_r4_0 c c3 fn E1 E2 E3 nu12 nu23 nu13 G12 G23 G13 = stiff_TRI_U_DEFAULT_r4_0 c c3 fn E1 E2 E3 nu12 nu23 nu13 G12 G23 G13 ∧
    stiff_TRI_A_PIPE_r4_1 c c3 fn E1 E2 E3 nu12 nu23 nu13 G12 G23 G13 = stiff_TRI_U_DEFAULT_r4_1 c c3 fn E1 E2 E3 nu12 nu23 nu13 G12 G23 G13 ∧
    stiff_TRI_A_PIPE_r4_2 c c3 fn E1 E2 E3 nu12 nu23 nu13 G12 G23 G13 = stiff_TRI_U_DEFAULT_r4_2 c c3 fn E1 E2 E3 nu12 nu23 nu13 G12 G23 G13 ∧
    stiff_TRI_A_PIPE_r4_3 c c3 fn E1 E2 E3 nu12 nu23 nu13 G12 G23 G13 = stiff_TRI_U_DEFAULT_r4_3 c c3 fn E1 E2 E3 nu12 nu23 nu13 G12 G23 G13 ∧
    stiff_TRI_A_PIPE_r4_4 c c3 fn E1 E2 E3 nu12 nu23 nu13 G12 G23 G13 = stiff_TRI_U_DEFAULT_r4_4 c c3 fn E1 E2 E3 nu12 nu23 nu13 G12 G23 G13 ∧
    stiff_TRI_A_PIPE_r4_5 c c3 fn E1 E2 E3 nu12 nu23 nu13 G12 G23 G13 = stiff_TRI_U_DEFAULT_r4_5 c c3 fn E1 E2 E3 nu12 nu23 nu13 G12 G23 G13 ∧
    stiff_TRI_A_PIPE_r5_0 c c3 fn E1 E2 E3 nu12 nu23 nu13 G12 G23 G13 = stiff_TRI_U_DEFAULT_r5_0 c c3 fn E1 E2 E3 nu12 nu23 nu13 G12 G23 G13 ∧
    stiff_TRI_A_PIPE_r5_1 c c3 fn E1 E2 E3 nu12 nu23 nu13 G12 G23 G13 = stiff_TRI_U_DEFAULT_r5_1 c c3 fn E1 E2 E3 nu12 nu23 nu13 G12 G23 G13 ∧
    stiff_TRI_A_PIPE_r5_2 c c3 fn E1 E2 E3 nu12 nu23 nu13 G12 G23 G13 = stiff_TRI_U_DEFAULT_r5_2 c c3 fn E1 E2 E3 nu12 nu23 nu13 G12 G23 G13 ∧
    stiff_TRI_A_PIPE_r5_3 c c3 fn E1 E2 E3 nu12 nu23 nu13 G12 G23 G13 = stiff_TRI_U_DEFAULT_r5_3 c c3 fn E1 E2 E3 nu12 nu23 nu13 G12 G23 G13 ∧
    stiff_TRI_A_PIPE_r5_4 c c3 fn E1 E2 E3 nu12 nu23 nu13 G12 G23 G13 = stiff_TRI_U_DEFAULT_r5_4 c c3 fn E1 E2 E3 nu12 nu23 nu13 G12 G23 G13 ∧
    stiff_TRI_A_PIPE_r5_5 c c3 fn E1 E2 E3 nu12 nu23 nu13 G12 G23 G13 = stiff_TRI_U_DEFAULT_r5_5 c c3 fn E1 E2 E3 nu12 nu23 nu13 G12 G23 G13 := by
  axes_eq

/-! ## orthotropic plasticity helpers: the 1D / 2D overloads are the 3D ones with vanishing out-of-plane shear -/

theorem j2o_N1_is_3D (s0 s1 s2 a1 a2 a3 a4 a5 a6 : K) :
    j2o_N1_r c c3 fn s0 s1 s2 a1 a2 a3 a4 a5 a6 = j2o_N3_r c c3 fn s0 s1 s2 0 0 0 a1 a2 a3 a4 a5 a6 := by
  axes_eq

/-- first derivative: same in-plane components, and the 3D out-of-plane components vanish -/
theorem j2o_d_N1_is_3D (s0 s1 s2 a1 a2 a3 a4 a5 a6 : K) :
    j2o_d_N1_r0 c c3 fn s0 s1 s2 a1 a2 a3 a4 a5 a6 = j2o_d_N3_r0 c c3 fn s0 s1 s2 0 0 0 a1 a2 a3 a4 a5 a6 ∧
    j2o_d_N1_r1 c c3 fn s0 s1 s2 a1 a2 a3 a4 a5 a6 = j2o_d_N3_r1 c c3 fn s0 s1 s2 0 0 0 a1 a2 a3 a4 a5 a6 ∧
    j2o_d_N1_r2 c c3 fn s0 s1 s2 a1 a2 a3 a4 a5 a6 = j2o_d_N3_r2 c c3 fn s0 s1 s2 0 0 0 a1 a2 a3 a4 a5 a6 ∧
    j2o_d_N3_r3 c c3 fn s0 s1 s2 0 0 0 a1 a2 a3 a4 a5 a6 = 0 ∧
    j2o_d_N3_r4 c c3 fn s0 s1 s2 0 0 0 a1 a2 a3 a4 a5 a6 = 0 ∧
    j2o_d_N3_r5 c c3 fn s0 s1 s2 0 0 0 a1 a2 a3 a4 a5 a6 = 0 := by
  axes_eq

theorem j2o_d2_N1_is_3D (s0 s1 s2 a1 a2 a3 a4 a5 a6 : K) :
    j2o_d2_N1_r0_0 c c3 fn s0 s1 s2 a1 a2 a3 a4 a5 a6 = j2o_d2_N3_r0_0 c c3 fn s0 s1 s2 0 0 0 a1 a2 a3 a4 a5 a6 ∧
    j2o_d2_N1_r0_1 c c3 fn s0 s1 s2 a1 a2 a3 a4 a5 a6 = j2o_d2_N3_r0_1 c c3 fn s0 s1 s2 0 0 0 a1 a2 a3 a4 a5 a6 ∧
    j2o_d2_N1_r0_2 c c3 fn s0 s1 s2 a1 a2 a3 a4 a5 a6 = j2o_d2_N3_r0_2 c c3 fn s0 s1 s2 0 0 0 a1 a2 a3 a4 a5 a6 ∧
    j2o_d2_N1_r1_0 c c3 fn s0 s1 s2 a1 a2 a3 a4 a5 a6 = j2o_d2_N3_r1_0 c c3 fn s0 s1 s2 0 0 0 a1 a2 a3 a4 a5 a6 ∧
    j2o_d2_N1_r1_1 c c3 fn s0 s1 s2 a1 a2 a3 a4 a5 a6 = j2o_d2_N3_r1_1 c c3 fn s0 s1 s2 0 0 0 a1 a2 a3 a4 a5 a6 ∧
    j2o_d2_N1_r1_2 c c3 fn s0 s1 s2 a1 a2 a3 a4 a5 a6 = j2o_d2_N3_r1_2 c c3 fn s0 s1 s2 0 0 0 a1 a2 a3 a4 a5 a6 ∧
    j2o_d2_N1_r2_0 c c3 fn s0 s1 s2 a1 a2 a3 a4 a5 a6 = j2o_d2_N3_r2_0 c c3 fn s0 s1 s2 0 0 0 a1 a2 a3 a4 a5 a6 ∧
    j2o_d2_N1_r2_1 c c3 fn s0 s1 s2 a1 a2 a3 a4 a5 a6 = j2o_d2_N3_r2_1 c c3 fn s0 s1 s2 0 0 0 a1 a2 a3 a4 a5 a6 ∧
    j2o_d2_N1_r2_2 c c3 fn s0 s1 s2 a1 a2 a3 a4 a5 a6 = j2o_d2_N3_r2_2 c c3 fn s0 s1 s2 0 0 0 a1 a2 a3 a4 a5 a6 := by
  axes_eq

theorem j2o_N2_is_3D (s0 s1 s2 s3 a1 a2 a3 a4 a5 a6 : K) :
    j2o_N2_r c c3 fn s0 s1 s2 s3 a1 a2 a3 a4 a5 a6 = j2o_N3_r c c3 fn s0 s1 s2 s3 0 0 a1 a2 a3 a4 a5 a6 := by
  axes_eq

/-- first derivative: same in-plane components, and the 3D out-of-plane components vanish -/
theorem j2o_d_N2_is_3D (s0 s1 s2 s3 a1 a2 a3 a4 a5 a6 : K) :
    j2o_d_N2_r0 c c3 fn s0 s1 s2 s3 a1 a2 a3 a4 a5 a6 = j2o_d_N3_r0 c c3 fn s0 s1 s2 s3 0 0 a1 a2 a3 a4 a5 a6 ∧
    j2o_d_N2_r1 c c3 fn s0 s1 s2 s3 a1 a2 a3 a4 a5 a6 = j2o_d_N3_r1 c c3 fn s0 s1 s2 s3 0 0 a1 a2 a3 a4 a5 a6 ∧
    j2o_d_N2_r2 c c3 fn s0 s1 s2 s3 a1 a2 a3 a4 a5 a6 = j2o_d_N3_r2 c c3 fn s0 s1 s2 s3 0 0 a1 a2 a3 a4 a5 a6 ∧
    j2o_d_N2_r3 c c3 fn s0 s1 s2 s3 a1 a2 a3 a4 a5 a6 = j2o_d_N3_r3 c c3 fn s0 s1 s2 s3 0 0 a1 a2 a3 a4 a5 a6 ∧
    j2o_d_N3_r4 c c3 fn s0 s1 s2 s3 0 0 a1 a2 a3 a4 a5 a6 = 0 ∧
    j2o_d_N3_r5 c c3 fn s0 s1 s2 s3 0 0 a1 a2 a3 a4 a5 a6 = 0 := by
  axes_eq

theorem j2o_d2_N2_is_3D (s0 s1 s2 s3 a1 a2 a3 a4 a5 a6 : K) :
    j2o_d2_N2_r0_0 c c3 fn s0 s1 s2 s3 a1 a2 a3 a4 a5 a6 = j2o_d2_N3_r0_0 c c3 fn s0 s1 s2 s3 0 0 a1 a2 a3 a4 a5 a6 ∧
    j2o_d2_N2_r0_1 c c3 fn s0 s1 s2 s3 a1 a2 a3 a4 a5 a6 = j2o_d2_N3_r0_1 c c3 fn s0 s1 s2 s3 0 0 a1 a2 a3 a4 a5 a6 ∧
    j2o_d2_N2_r0_2 c c3 fn s0 s1 s2 s3 a1 a2 a3 a4 a5 a6 = j2o_d2_N3_r0_2 c c3 fn s0 s1 s2 s3 0 0 a1 a2 a3 a4 a5 a6 ∧
    j2o_d2_N2_r0_3 c c3 fn s0 s1 s2 s3 a1 a2 a3 a4 a5 a6 = j2o_d2_N3_r0_3 c c3 fn s0 s1 s2 s3 0 0 a1 a2 a3 a4 a5 a6 ∧
    j2o_d2_N2_r1_0 c c3 fn s0 s1 s2 s3 a1 a2 a3 a4 a5 a6 = j2o_d2_N3_r1_0 c c3 fn s0 s1 s2 s3 0 0 a1 a2 a3 a4 a5 a6 ∧
    j2o_d2_N2_r1_1 c c3 fn s0 s1 s2 s3 a1 a2 a3 a4 a5 a6 = j2o_d2_N3_r1_1 c c3 fn s0 s1 s2 s3 0 0 a1 a2 a3 a4 a5 a6 ∧
    j2o_d2_N2_r1_2 c c3 fn s0 s1 s2 s3 a1 a2 a3 a4 a5 a6 = j2o_d2_N3_r1_2 c c3 fn s0 s1 s2 s3 0 0 a1 a2 a3 a4 a5 a6 ∧
    j2o_d2_N2_r1_3 c c3 fn s0 s1 s2 s3 a1 a2 a3 a4 a5 a6 = j2o_d2_N3_r1_3 c c3 fn s0 s1 s2 s3 0 0 a1 a2 a3 a4 a5 a6 ∧
    j2o_d2_N2_r2_0 c c3 fn s0 s1 s2 s3 a1 a2 a3 a4 a5 a6 = j2o_d2_N3_r2_0 c c3 fn s0 s1 s2 s3 0 0 a1 a2 a3 a4 a5 a6 ∧
    j2o_d2_N2_r2_1 c c3 fn s0 s1 s2 s3 a1 a2 a3 a4 a5 a6 = j2o_d2_N3_r2_1 c c3 fn s0 s1 s2 s3 0 0 a1 a2 a3 a4 a5 a6 ∧
    j2o_d2_N2_r2_2 c c3 fn s0 s1 s2 s3 a1 a2 a3 a4 a5 a6 = j2o_d2_N3_r2_2 c c3 fn s0 s1 s2 s3 0 0 a1 a2 a3 a4 a5 a6 ∧
    j2o_d2_N2_r2_3 c c3 fn s0 s1 s2 s3 a1 a2 a3 a4 a5 a6 = j2o_d2_N3_r2_3 c c3 fn s0 s1 s2 s3 0 0 a1 a2 a3 a4 a5 a6 ∧
    j2o_d2_N2_r3_0 c c3 fn s0 s1 s2 s3 a1 a2 a3 a4 a5 a6 = j2o_d2_N3_r3_0 c c3 fn s0 s1 s2 s3 0 0 a1 a2 a3 a4 a5 a6 ∧
    j2o_d2_N2_r3_1 c c3 fn s0 s1 s2 s3 a1 a2 a3 a4 a5 a6 = j2o_d2_N3_r3_1 c c3 fn s0 s1 s2 s3 0 0 a1 a2 a3 a4 a5 a6 ∧
    j2o_d2_N2_r3_2 c c3 fn s0 s1 s2 s3 a1 a2 a3 a4 a5 a6 = j2o_d2_N3_r3_2 c c3 fn s0 s1 s2 s3 0 0 a1 a2 a3 a4 a5 a6 ∧
    j2o_d2_N2_r3_3 c c3 fn s0 s1 s2 s3 a1 a2 a3 a4 a5 a6 = j2o_d2_N3_r3_3 c c3 fn s0 s1 s2 s3 0 0 a1 a2 a3 a4 a5 a6 := by
  axes_eq

theorem j3o_N1_is_3D (s0 s1 s2 b1 b2 b3 b4 b5 b6 b7 b8 b9 b10 b11 : K) :
    j3o_N1_r c c3 fn s0 s1 s2 b1 b2 b3 b4 b5 b6 b7 b8 b9 b10 b11 = j3o_N3_r c c3 fn s0 s1 s2 0 0 0 b1 b2 b3 b4 b5 b6 b7 b8 b9 b10 b11 := by
  axes_eq

/-- first derivative: same in-plane components, and the 3D out-of-plane components vanish -/
theorem j3o_d_N1_is_3D (s0 s1 s2 b1 b2 b3 b4 b5 b6 b7 b8 b9 b10 b11 : K) :
    j3o_d_N1_r0 c c3 fn s0 s1 s2 b1 b2 b3 b4 b5 b6 b7 b8 b9 b10 b11 = j3o_d_N3_r0 c c3 fn s0 s1 s2 0 0 0 b1 b2 b3 b4 b5 b6 b7 b8 b9 b10 b11 ∧
    j3o_d_N1_r1 c c3 fn s0 s1 s2 b1 b2 b3 b4 b5 b6 b7 b8 b9 b10 b11 = j3o_d_N3_r1 c c3 fn s0 s1 s2 0 0 0 b1 b2 b3 b4 b5 b6 b7 b8 b9 b10 b11 ∧
    j3o_d_N1_r2 c c3 fn s0 s1 s2 b1 b2 b3 b4 b5 b6 b7 b8 b9 b10 b11 = j3o_d_N3_r2 c c3 fn s0 s1 s2 0 0 0 b1 b2 b3 b4 b5 b6 b7 b8 b9 b10 b11 ∧
    j3o_d_N3_r3 c c3 fn s0 s1 s2 0 0 0 b1 b2 b3 b4 b5 b6 b7 b8 b9 b10 b11 = 0 ∧
    j3o_d_N3_r4 c c3 fn s0 s1 s2 0 0 0 b1 b2 b3 b4 b5 b6 b7 b8 b9 b10 b11 = 0 ∧
    j3o_d_N3_r5 c c3 fn s0 s1 s2 0 0 0 b1 b2 b3 b4 b5 b6 b7 b8 b9 b10 b11 = 0 := by
  axes_eq

theorem j3o_d2_N1_is_3D (s0 s1 s2 b1 b2 b3 b4 b5 b6 b7 b8 b9 b10 b11 : K) :
    j3o_d2_N1_r0_0 c c3 fn s0 s1 s2 b1 b2 b3 b4 b5 b6 b7 b8 b9 b10 b11 = j3o_d2_N3_r0_0 c c3 fn s0 s1 s2 0 0 0 b1 b2 b3 b4 b5 b6 b7 b8 b9 b10 b11 ∧
    j3o_d2_N1_r0_1 c c3 fn s0 s1 s2 b1 b2 b3 b4 b5 b6 b7 b8 b9 b10 b11 = j3o_d2_N3_r0_1 c c3 fn s0 s1 s2 0 0 0 b1 b2 b3 b4 b5 b6 b7 b8 b9 b10 b11 ∧
    j3o_d2_N1_r0_2 c c3 fn s0 s1 s2 b1 b2 b3 b4 b5 b6 b7 b8 b9 b10 b11 = j3o_d2_N3_r0_2 c c3 fn s0 s1 s2 0 0 0 b1 b2 b3 b4 b5 b6 b7 b8 b9 b10 b11 ∧
    j3o_d2_N1_r1_0 c c3 fn s0 s1 s2 b1 b2 b3 b4 b5 b6 b7 b8 b9 b10 b11 = j3o_d2_N3_r1_0 c c3 fn s0 s1 s2 0 0 0 b1 b2 b3 b4 b5 b6 b7 b8 b9 b10 b11 ∧
    j3o_d2_N1_r1_1 c c3 fn s0 s1 s2 b1 b2 b3 b4 b5 b6 b7 b8 b9 b10 b11 = j3o_d2_N3_r1_1 c c3 fn s0 s1 s2 0 0 0 b1 b2 b3 b4 b5 b6 b7 b8 b9 b10 b11 ∧
    j3o_d2_N1_r1_2 c c3 fn s0 s1 s2 b1 b2 b3 b4 b5 b6 b7 b8 b9 b10 b11 = j3o_d2_N3_r1_2 c c3 fn s0 s1 s2 0 0 0 b1 b2 b3 b4 b5 b6 b7 b8 b9 b10 b11 ∧
    j3o_d2_N1_r2_0 c c3 fn s0 s1 s2 b1 b2 b3 b4 b5 b6 b7 b8 b9 b10 b11 = j3o_d2_N3_r2_0 c c3 fn s0 s1 s2 0 0 0 b1 b2 b3 b4 b5 b6 b7 b8 b9 b10 b11 ∧
    j3o_d2_N1_r2_1 c c3 fn s0 s1 s2 b1 b2 b3 b4 b5 b6 b7 b8 b9 b10 b11 = j3o_d2_N3_r2_1 c c3 fn s0 s1 s2 0 0 0 b1 b2 b3 b4 b5 b6 b7 b8 b9 b10 b11 ∧
    j3o_d2_N1_r2_2 c c3 fn s0 s1 s2 b1 b2 b3 b4 b5 b6 b7 b8 b9 b10 b11 = j3o_d2_N3_r2_2 c c3 fn s0 s1 s2 0 0 0 b1 b2 b3 b4 b5 b6 b7 b8 b9 b10 b11 := by
  axes_eq

theorem j3o_N2_is_3D (s0 s1 s2 s3 b1 b2 b3 b4 b5 b6 b7 b8 b9 b10 b11 : K) :
    j3o_N2_r c c3 fn s0 s1 s2 s3 b1 b2 b3 b4 b5 b6 b7 b8 b9 b10 b11 = j3o_N3_r c c3 fn s0 s1 s2 s3 0 0 b1 b2 b3 b4 b5 b6 b7 b8 b9 b10 b11 := by
  axes_eq

/-- first derivative: same in-plane components, and the 3D out-of-plane components vanish -/
theorem j3o_d_N2_is_3D (s0 s1 s2 s3 b1 b2 b3 b4 b5 b6 b7 b8 b9 b10 b11 : K) :
    j3o_d_N2_r0 c c3 fn s0 s1 s2 s3 b1 b2 b3 b4 b5 b6 b7 b8 b9 b10 b11 = j3o_d_N3_r0 c c3 fn s0 s1 s2 s3 0 0 b1 b2 b3 b4 b5 b6 b7 b8 b9 b10 b11 ∧
    j3o_d_N2_r1 c c3 fn s0 s1 s2 s3 b1 b2 b3 b4 b5 b6 b7 b8 b9 b10 b11 = j3o_d_N3_r1 c c3 fn s0 s1 s2 s3 0 0 b1 b2 b3 b4 b5 b6 b7 b8 b9 b10 b11 ∧
    j3o_d_N2_r2 c c3 fn s0 s1 s2 s3 b1 b2 b3 b4 b5 b6 b7 b8 b9 b10 b11 = j3o_d_N3_r2 c c3 fn s0 s1 s2 s3 0 0 b1 b2 b3 b4 b5 b6 b7 b8 b9 b10 b11 ∧
    j3o_d_N2_r3 c c3 fn s0 s1 s2 s3 b1 b2 b3 b4 b5 b6 b7 b8 b9 b10 b11 = j3o_d_N3_r3 c c3 fn s0 s1 s2 s3 0 0 b1 b2 b3 b4 b5 b6 b7 b8 b9 b10 b11 ∧
    j3o_d_N3_r4 c c3 fn s0 s1 s2 s3 0 0 b1 b2 b3 b4 b5 b6 b7 b8 b9 b10 b11 = 0 ∧
    j3o_d_N3_r5 c c3 fn s0 s1 s2 s3 0 0 b1 b2 b3 b4 b5 b6 b7 b8 b9 b10 b11 = 0 := by
  axes_eq

theorem j3o_d2_N2_is_3D (s0 s1 s2 s3 b1 b2 b3 b4 b5 b6 b7 b8 b9 b10 b11 : K) :
    j3o_d2_N2_r0_0 c c3 fn s0 s1 s2 s3 b1 b2 b3 b4 b5 b6 b7 b8 b9 b10 b11 = j3o_d2_N3_r0_0 c c3 fn s0 s1 s2 s3 0 0 b1 b2 b3 b4 b5 b6 b7 b8 b9 b10 b11 ∧
    j3o_d2_N2_r0_1 c c3 fn s0 s1 s2 s3 b1 b2 b3 b4 b5 b6 b7 b8 b9 b10 b11 = j3o_d2_N3_r0_1 c c3 fn s0 s1 s2 s3 0 0 b1 b2 b3 b4 b5 b6 b7 b8 b9 b10 b11 ∧
    j3o_d2_N2_r0_2 c c3 fn s0 s1 s2 s3 b1 b2 b3 b4 b5 b6 b7 b8 b9 b10 b11 = j3o_d2_N3_r0_2 c c3 fn s0 s1 s2 s3 0 0 b1 b2 b3 b4 b5 b6 b7 b8 b9 b10 b11 ∧
    j3o_d2_N2_r0_3 c c3 fn s0 s1 s2 s3 b1 b2 b3 b4 b5 b6 b7 b8 b9 b10 b11 = j3o_d2_N3_r0_3 c c3 fn s0 s1 s2 s3 0 0 b1 b2 b3 b4 b5 b6 b7 b8 b9 b10 b11 ∧
    j3o_d2_N2_r1_0 c c3 fn s0 s1 s2 s3 b1 b2 b3 b4 b5 b6 b7 b8 b9 b10 b11 = j3o_d2_N3_r1_0 c c3 fn s0 s1 s2 s3 0 0 b1 b2 b3 b4 b5 b6 b7 b8 b9 b10 b11 ∧
    j3o_d2_N2_r1_1 c c3 fn s0 s1 s2 s3 b1 b2 b3 b4 b5 b6 b7 b8 b9 b10 b11 = j3o_d2_N3_r1_1 c c3 fn s0 s1 s2 s3 0 0 b1 b2 b3 b4 b5 b6 b7 b8 b9 b10 b11 ∧
    j3o_d2_N2_r1_2 c c3 fn s0 s1 s2 s3 b1 b2 b3 b4 b5 b6 b7 b8 b9 b10 b11 = j3o_d2_N3_r1_2 c c3 fn s0 s1 s2 s3 0 0 b1 b2 b3 b4 b5 b6 b7 b8 b9 b10 b11 ∧
    j3o_d2_N2_r1_3 c c3 fn s0 s1 s2 s3 b1 b2 b3 b4 b5 b6 b7 b8 b9 b10 b11 = j3o_d2_N3_r1_3 c c3 fn s0 s1 s2 s3 0 0 b1 b2 b3 b4 b5 b6 b7 b8 b9 b10 b11 ∧
    j3o_d2_N2_r2_0 c c3 fn s0 s1 s2 s3 b1 b2 b3 b4 b5 b6 b7 b8 b9 b10 b11 = j3o_d2_N3_r2_0 c c3 fn s0 s1 s2 s3 0 0 b1 b2 b3 b4 b5 b6 b7 b8 b9 b10 b11 ∧
    j3o_d2_N2_r2_1 c c3 fn s0 s1 s2 s3 b1 b2 b3 b4 b5 b6 b7 b8 b9 b10 b11 = j3o_d2_N3_r2_1 c c3 fn s0 s1 s2 s3 0 0 b1 b2 b3 b4 b5 b6 b7 b8 b9 b10 b11 ∧
    j3o_d2_N2_r2_2 c c3 fn s0 s1 s2 s3 b1 b2 b3 b4 b5 b6 b7 b8 b9 b10 b11 = j3o_d2_N3_r2_2 c c3 fn s0 s1 s2 s3 0 0 b1 b2 b3 b4 b5 b6 b7 b8 b9 b10 b11 ∧
    j3o_d2_N2_r2_3 c c3 fn s0 s1 s2 s3 b1 b2 b3 b4 b5 b6 b7 b8 b9 b10 b11 = j3o_d2_N3_r2_3 c c3 fn s0 s1 s2 s3 0 0 b1 b2 b3 b4 b5 b6 b7 b8 b9 b10 b11 ∧
    j3o_d2_N2_r3_0 c c3 fn s0 s1 s2 s3 b1 b2 b3 b4 b5 b6 b7 b8 b9 b10 b11 = j3o_d2_N3_r3_0 c c3 fn s0 s1 s2 s3 0 0 b1 b2 b3 b4 b5 b6 b7 b8 b9 b10 b11 ∧
    j3o_d2_N2_r3_1 c c3 fn s0 s1 s2 s3 b1 b2 b3 b4 b5 b6 b7 b8 b9 b10 b11 = j3o_d2_N3_r3_1 c c3 fn s0 s1 s2 s3 0 0 b1 b2 b3 b4 b5 b6 b7 b8 b9 b10 b11 ∧
    j3o_d2_N2_r3_2 c c3 fn s0 s1 s2 s3 b1 b2 b3 b4 b5 b6 b7 b8 b9 b10 b11 = j3o_d2_N3_r3_2 c c3 fn s0 s1 s2 s3 0 0 b1 b2 b3 b4 b5 b6 b7 b8 b9 b10 b11 ∧
    j3o_d2_N2_r3_3 c c3 fn s0 s1 s2 s3 b1 b2 b3 b4 b5 b6 b7 b8 b9 b10 b11 = j3o_d2_N3_r3_3 c c3 fn s0 s1 s2 s3 0 0 b1 b2 b3 b4 b5 b6 b7 b8 b9 b10 b11 := by
  axes_eq

end TfelVerif.C28.PropsAxes
