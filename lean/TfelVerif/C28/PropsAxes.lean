/- C28 (part 2) — orthotropic axes conventions and reduced hypotheses, on the definitions traced (T1) from the real
   templates by harness/C28/trace.cxx:  sfe_* = convertStressFreeExpansionStrain<H,C>, hill_* = computeHillTensor<H,C>,
   stiff_*_{U,A}_* = computeOrthotropicStiffnessTensor<H,{UNALTERED,ALTERED},C>, j2o*/j3o* = computeJ2O/computeJ3O and
   derivatives (OrthotropicPlasticity.ixx).  H: AGPE, AGPS (1D axisymmetrical generalised plane strain / stress), AXI, PS, PE,
   GPE (2D), TRI (3D).

   Storage (Mandel): index 0,1,2 = 11,22,33; 3 = 12; 4 = 13; 5 = 23. Documented conventions
   (OrthotropicAxesConvention.hxx): material properties are always given in the 3D material frame;
   PIPE: in plane stress / plane strain / generalised plane strain the second and third material axes are exchanged
   with respect to 3D (so reduced index 1 <-> 3D index 2, reduced 12 <-> 3D 13); identical axes in 1D, axisymmetrical, 3D;
   PLATE and DEFAULT: identical axes everywhere.
   Every theorem: the reduced-hypothesis object is, component by component, the 3D object read through that
   permutation — for all material coefficients (file generated once by harness/C28/genprops.py, then fixed). -/
import TfelVerif.C28.Lemmas
import TfelVerif.C28.Gen

namespace TfelVerif.C28.PropsAxes
open TfelVerif TfelVerif.C28 TfelVerif.C28.Gen
set_option linter.unusedVariables false
set_option linter.unusedSectionVars false

variable {K : Type} [Field K] (c c3 : K) (fn : Fns K)

/-! ## convertStressFreeExpansionStrain: 3D-frame diagonal tensor -> frame of the hypothesis -/

theorem sfe_AGPE_DEFAULT (s0 s1 s2 : K) :
    sfe_AGPE_DEFAULT_all c c3 fn s0 s1 s2 = [s0, s1, s2] := by
  simp only [gen_simp]

theorem sfe_AGPE_PIPE (s0 s1 s2 : K) :
    sfe_AGPE_PIPE_all c c3 fn s0 s1 s2 = [s0, s1, s2] := by
  simp only [gen_simp]

theorem sfe_AGPE_PLATE (s0 s1 s2 : K) :
    sfe_AGPE_PLATE_all c c3 fn s0 s1 s2 = [s0, s1, s2] := by
  simp only [gen_simp]

theorem sfe_AGPS_DEFAULT (s0 s1 s2 : K) :
    sfe_AGPS_DEFAULT_all c c3 fn s0 s1 s2 = [s0, s1, s2] := by
  simp only [gen_simp]

theorem sfe_AGPS_PIPE (s0 s1 s2 : K) :
    sfe_AGPS_PIPE_all c c3 fn s0 s1 s2 = [s0, s1, s2] := by
  simp only [gen_simp]

theorem sfe_AGPS_PLATE (s0 s1 s2 : K) :
    sfe_AGPS_PLATE_all c c3 fn s0 s1 s2 = [s0, s1, s2] := by
  simp only [gen_simp]

theorem sfe_AXI_DEFAULT (s0 s1 s2 s3 : K) :
    sfe_AXI_DEFAULT_all c c3 fn s0 s1 s2 s3 = [s0, s1, s2, s3] := by
  simp only [gen_simp]

theorem sfe_AXI_PIPE (s0 s1 s2 s3 : K) :
    sfe_AXI_PIPE_all c c3 fn s0 s1 s2 s3 = [s0, s1, s2, s3] := by
  simp only [gen_simp]

theorem sfe_AXI_PLATE (s0 s1 s2 s3 : K) :
    sfe_AXI_PLATE_all c c3 fn s0 s1 s2 s3 = [s0, s1, s2, s3] := by
  simp only [gen_simp]

theorem sfe_PS_DEFAULT (s0 s1 s2 s3 : K) :
    sfe_PS_DEFAULT_all c c3 fn s0 s1 s2 s3 = [s0, s1, s2, s3] := by
  simp only [gen_simp]

theorem sfe_PS_PIPE (s0 s1 s2 s3 : K) :
    sfe_PS_PIPE_all c c3 fn s0 s1 s2 s3 = [s0, s2, s1, s3] := by
  simp only [gen_simp]

theorem sfe_PS_PLATE (s0 s1 s2 s3 : K) :
    sfe_PS_PLATE_all c c3 fn s0 s1 s2 s3 = [s0, s1, s2, s3] := by
  simp only [gen_simp]

theorem sfe_PE_DEFAULT (s0 s1 s2 s3 : K) :
    sfe_PE_DEFAULT_all c c3 fn s0 s1 s2 s3 = [s0, s1, s2, s3] := by
  simp only [gen_simp]

theorem sfe_PE_PIPE (s0 s1 s2 s3 : K) :
    sfe_PE_PIPE_all c c3 fn s0 s1 s2 s3 = [s0, s2, s1, s3] := by
  simp only [gen_simp]

theorem sfe_PE_PLATE (s0 s1 s2 s3 : K) :
    sfe_PE_PLATE_all c c3 fn s0 s1 s2 s3 = [s0, s1, s2, s3] := by
  simp only [gen_simp]

theorem sfe_GPE_DEFAULT (s0 s1 s2 s3 : K) :
    sfe_GPE_DEFAULT_all c c3 fn s0 s1 s2 s3 = [s0, s1, s2, s3] := by
  simp only [gen_simp]

theorem sfe_GPE_PIPE (s0 s1 s2 s3 : K) :
    sfe_GPE_PIPE_all c c3 fn s0 s1 s2 s3 = [s0, s2, s1, s3] := by
  simp only [gen_simp]

theorem sfe_GPE_PLATE (s0 s1 s2 s3 : K) :
    sfe_GPE_PLATE_all c c3 fn s0 s1 s2 s3 = [s0, s1, s2, s3] := by
  simp only [gen_simp]

theorem sfe_TRI_DEFAULT (s0 s1 s2 s3 s4 s5 : K) :
    sfe_TRI_DEFAULT_all c c3 fn s0 s1 s2 s3 s4 s5 = [s0, s1, s2, s3, s4, s5] := by
  simp only [gen_simp]

theorem sfe_TRI_PIPE (s0 s1 s2 s3 s4 s5 : K) :
    sfe_TRI_PIPE_all c c3 fn s0 s1 s2 s3 s4 s5 = [s0, s1, s2, s3, s4, s5] := by
  simp only [gen_simp]

theorem sfe_TRI_PLATE (s0 s1 s2 s3 s4 s5 : K) :
    sfe_TRI_PLATE_all c c3 fn s0 s1 s2 s3 s4 s5 = [s0, s1, s2, s3, s4, s5] := by
  simp only [gen_simp]

/-! ## Hill tensors -/

/-- 3D, as documented in Hill.hxx: σ:H:σ = F(σ11-σ22)² + G(σ22-σ33)² + H(σ33-σ11)² + 2Lσ12² + 2Mσ13² + 2Nσ23²
    (Mandel storage: the shear components carry a factor c = √2) -/
theorem hill_TRI_quadratic_form (hc : c * c = 2) (hF hG hH hL hM hN x11 x22 x33 x12 x13 x23 : K) :
    quad6 (hill_TRI_DEFAULT_all c c3 fn hF hG hH hL hM hN) [x11, x22, x33, c * x12, c * x13, c * x23] =
      hF * (x11 - x22) ^ 2 + hG * (x22 - x33) ^ 2 + hH * (x33 - x11) ^ 2 +
        2 * hL * x12 ^ 2 + 2 * hM * x13 ^ 2 + 2 * hN * x23 ^ 2 := by
  simp only [gen_simp, quad6]
  have h2 : c ^ 2 = 2 := by rw [pow_two, hc]
  ring_nf
  simp only [h2]
  ring

/-- in 3D the three conventions coincide -/
theorem hill_TRI_conventions (hF hG hH hL hM hN : K) :
    hill_TRI_PIPE_all c c3 fn hF hG hH hL hM hN = hill_TRI_DEFAULT_all c c3 fn hF hG hH hL hM hN ∧
    hill_TRI_PLATE_all c c3 fn hF hG hH hL hM hN = hill_TRI_DEFAULT_all c c3 fn hF hG hH hL hM hN := by
  constructor <;> simp only [gen_simp]

/-- AxisymmetricalGeneralisedPlaneStrain, DEFAULT: component (i,j) is component (π i, π j) of the 3D Hill tensor, π = [0, 1, 2] -/
theorem hill_AGPE_DEFAULT (hF hG hH hL hM hN : K) :
    hill_AGPE_DEFAULT_r0_0 c c3 fn hF hG hH hL hM hN = hill_TRI_DEFAULT_r0_0 c c3 fn hF hG hH hL hM hN ∧
    hill_AGPE_DEFAULT_r0_1 c c3 fn hF hG hH hL hM hN = hill_TRI_DEFAULT_r0_1 c c3 fn hF hG hH hL hM hN ∧
    hill_AGPE_DEFAULT_r0_2 c c3 fn hF hG hH hL hM hN = hill_TRI_DEFAULT_r0_2 c c3 fn hF hG hH hL hM hN ∧
    hill_AGPE_DEFAULT_r1_0 c c3 fn hF hG hH hL hM hN = hill_TRI_DEFAULT_r1_0 c c3 fn hF hG hH hL hM hN ∧
    hill_AGPE_DEFAULT_r1_1 c c3 fn hF hG hH hL hM hN = hill_TRI_DEFAULT_r1_1 c c3 fn hF hG hH hL hM hN ∧
    hill_AGPE_DEFAULT_r1_2 c c3 fn hF hG hH hL hM hN = hill_TRI_DEFAULT_r1_2 c c3 fn hF hG hH hL hM hN ∧
    hill_AGPE_DEFAULT_r2_0 c c3 fn hF hG hH hL hM hN = hill_TRI_DEFAULT_r2_0 c c3 fn hF hG hH hL hM hN ∧
    hill_AGPE_DEFAULT_r2_1 c c3 fn hF hG hH hL hM hN = hill_TRI_DEFAULT_r2_1 c c3 fn hF hG hH hL hM hN ∧
    hill_AGPE_DEFAULT_r2_2 c c3 fn hF hG hH hL hM hN = hill_TRI_DEFAULT_r2_2 c c3 fn hF hG hH hL hM hN := by
  axes_eq

/-- AxisymmetricalGeneralisedPlaneStrain, PIPE: component (i,j) is component (π i, π j) of the 3D Hill tensor, π = [0, 1, 2] -/
theorem hill_AGPE_PIPE (hF hG hH hL hM hN : K) :
    hill_AGPE_PIPE_r0_0 c c3 fn hF hG hH hL hM hN = hill_TRI_DEFAULT_r0_0 c c3 fn hF hG hH hL hM hN ∧
    hill_AGPE_PIPE_r0_1 c c3 fn hF hG hH hL hM hN = hill_TRI_DEFAULT_r0_1 c c3 fn hF hG hH hL hM hN ∧
    hill_AGPE_PIPE_r0_2 c c3 fn hF hG hH hL hM hN = hill_TRI_DEFAULT_r0_2 c c3 fn hF hG hH hL hM hN ∧
    hill_AGPE_PIPE_r1_0 c c3 fn hF hG hH hL hM hN = hill_TRI_DEFAULT_r1_0 c c3 fn hF hG hH hL hM hN ∧
    hill_AGPE_PIPE_r1_1 c c3 fn hF hG hH hL hM hN = hill_TRI_DEFAULT_r1_1 c c3 fn hF hG hH hL hM hN ∧
    hill_AGPE_PIPE_r1_2 c c3 fn hF hG hH hL hM hN = hill_TRI_DEFAULT_r1_2 c c3 fn hF hG hH hL hM hN ∧
    hill_AGPE_PIPE_r2_0 c c3 fn hF hG hH hL hM hN = hill_TRI_DEFAULT_r2_0 c c3 fn hF hG hH hL hM hN ∧
    hill_AGPE_PIPE_r2_1 c c3 fn hF hG hH hL hM hN = hill_TRI_DEFAULT_r2_1 c c3 fn hF hG hH hL hM hN ∧
    hill_AGPE_PIPE_r2_2 c c3 fn hF hG hH hL hM hN = hill_TRI_DEFAULT_r2_2 c c3 fn hF hG hH hL hM hN := by
  axes_eq

/-- AxisymmetricalGeneralisedPlaneStress, DEFAULT: component (i,j) is component (π i, π j) of the 3D Hill tensor, π = [0, 1, 2] -/
theorem hill_AGPS_DEFAULT (hF hG hH hL hM hN : K) :
    hill_AGPS_DEFAULT_r0_0 c c3 fn hF hG hH hL hM hN = hill_TRI_DEFAULT_r0_0 c c3 fn hF hG hH hL hM hN ∧
    hill_AGPS_DEFAULT_r0_1 c c3 fn hF hG hH hL hM hN = hill_TRI_DEFAULT_r0_1 c c3 fn hF hG hH hL hM hN ∧
    hill_AGPS_DEFAULT_r0_2 c c3 fn hF hG hH hL hM hN = hill_TRI_DEFAULT_r0_2 c c3 fn hF hG hH hL hM hN ∧
    hill_AGPS_DEFAULT_r1_0 c c3 fn hF hG hH hL hM hN = hill_TRI_DEFAULT_r1_0 c c3 fn hF hG hH hL hM hN ∧
    hill_AGPS_DEFAULT_r1_1 c c3 fn hF hG hH hL hM hN = hill_TRI_DEFAULT_r1_1 c c3 fn hF hG hH hL hM hN ∧
    hill_AGPS_DEFAULT_r1_2 c c3 fn hF hG hH hL hM hN = hill_TRI_DEFAULT_r1_2 c c3 fn hF hG hH hL hM hN ∧
    hill_AGPS_DEFAULT_r2_0 c c3 fn hF hG hH hL hM hN = hill_TRI_DEFAULT_r2_0 c c3 fn hF hG hH hL hM hN ∧
    hill_AGPS_DEFAULT_r2_1 c c3 fn hF hG hH hL hM hN = hill_TRI_DEFAULT_r2_1 c c3 fn hF hG hH hL hM hN ∧
    hill_AGPS_DEFAULT_r2_2 c c3 fn hF hG hH hL hM hN = hill_TRI_DEFAULT_r2_2 c c3 fn hF hG hH hL hM hN := by
  axes_eq

/-- AxisymmetricalGeneralisedPlaneStress, PIPE: component (i,j) is component (π i, π j) of the 3D Hill tensor, π = [0, 1, 2] -/
theorem hill_AGPS_PIPE (hF hG hH hL hM hN : K) :
    hill_AGPS_PIPE_r0_0 c c3 fn hF hG hH hL hM hN = hill_TRI_DEFAULT_r0_0 c c3 fn hF hG hH hL hM hN ∧
    hill_AGPS_PIPE_r0_1 c c3 fn hF hG hH hL hM hN = hill_TRI_DEFAULT_r0_1 c c3 fn hF hG hH hL hM hN ∧
    hill_AGPS_PIPE_r0_2 c c3 fn hF hG hH hL hM hN = hill_TRI_DEFAULT_r0_2 c c3 fn hF hG hH hL hM hN ∧
    hill_AGPS_PIPE_r1_0 c c3 fn hF hG hH hL hM hN = hill_TRI_DEFAULT_r1_0 c c3 fn hF hG hH hL hM hN ∧
    hill_AGPS_PIPE_r1_1 c c3 fn hF hG hH hL hM hN = hill_TRI_DEFAULT_r1_1 c c3 fn hF hG hH hL hM hN ∧
    hill_AGPS_PIPE_r1_2 c c3 fn hF hG hH hL hM hN = hill_TRI_DEFAULT_r1_2 c c3 fn hF hG hH hL hM hN ∧
    hill_AGPS_PIPE_r2_0 c c3 fn hF hG hH hL hM hN = hill_TRI_DEFAULT_r2_0 c c3 fn hF hG hH hL hM hN ∧
    hill_AGPS_PIPE_r2_1 c c3 fn hF hG hH hL hM hN = hill_TRI_DEFAULT_r2_1 c c3 fn hF hG hH hL hM hN ∧
    hill_AGPS_PIPE_r2_2 c c3 fn hF hG hH hL hM hN = hill_TRI_DEFAULT_r2_2 c c3 fn hF hG hH hL hM hN := by
  axes_eq

/-- Axisymmetrical, DEFAULT: component (i,j) is component (π i, π j) of the 3D Hill tensor, π = [0, 1, 2, 3] -/
theorem hill_AXI_DEFAULT (hF hG hH hL hM hN : K) :
    hill_AXI_DEFAULT_r0_0 c c3 fn hF hG hH hL hM hN = hill_TRI_DEFAULT_r0_0 c c3 fn hF hG hH hL hM hN ∧
    hill_AXI_DEFAULT_r0_1 c c3 fn hF hG hH hL hM hN = hill_TRI_DEFAULT_r0_1 c c3 fn hF hG hH hL hM hN ∧
    hill_AXI_DEFAULT_r0_2 c c3 fn hF hG hH hL hM hN = hill_TRI_DEFAULT_r0_2 c c3 fn hF hG hH hL hM hN ∧
    hill_AXI_DEFAULT_r0_3 c c3 fn hF hG hH hL hM hN = hill_TRI_DEFAULT_r0_3 c c3 fn hF hG hH hL hM hN ∧
    hill_AXI_DEFAULT_r1_0 c c3 fn hF hG hH hL hM hN = hill_TRI_DEFAULT_r1_0 c c3 fn hF hG hH hL hM hN ∧
    hill_AXI_DEFAULT_r1_1 c c3 fn hF hG hH hL hM hN = hill_TRI_DEFAULT_r1_1 c c3 fn hF hG hH hL hM hN ∧
    hill_AXI_DEFAULT_r1_2 c c3 fn hF hG hH hL hM hN = hill_TRI_DEFAULT_r1_2 c c3 fn hF hG hH hL hM hN ∧
    hill_AXI_DEFAULT_r1_3 c c3 fn hF hG hH hL hM hN = hill_TRI_DEFAULT_r1_3 c c3 fn hF hG hH hL hM hN ∧
    hill_AXI_DEFAULT_r2_0 c c3 fn hF hG hH hL hM hN = hill_TRI_DEFAULT_r2_0 c c3 fn hF hG hH hL hM hN ∧
    hill_AXI_DEFAULT_r2_1 c c3 fn hF hG hH hL hM hN = hill_TRI_DEFAULT_r2_1 c c3 fn hF hG hH hL hM hN ∧
    hill_AXI_DEFAULT_r2_2 c c3 fn hF hG hH hL hM hN = hill_TRI_DEFAULT_r2_2 c c3 fn hF hG hH hL hM hN ∧
    hill_AXI_DEFAULT_r2_3 c c3 fn hF hG hH hL hM hN = hill_TRI_DEFAULT_r2_3 c c3 fn hF hG hH hL hM hN ∧
    hill_AXI_DEFAULT_r3_0 c c3 fn hF hG hH hL hM hN = hill_TRI_DEFAULT_r3_0 c c3 fn hF hG hH hL hM hN ∧
    hill_AXI_DEFAULT_r3_1 c c3 fn hF hG hH hL hM hN = hill_TRI_DEFAULT_r3_1 c c3 fn hF hG hH hL hM hN ∧
    hill_AXI_DEFAULT_r3_2 c c3 fn hF hG hH hL hM hN = hill_TRI_DEFAULT_r3_2 c c3 fn hF hG hH hL hM hN ∧
    hill_AXI_DEFAULT_r3_3 c c3 fn hF hG hH hL hM hN = hill_TRI_DEFAULT_r3_3 c c3 fn hF hG hH hL hM hN := by
  axes_eq

/-- Axisymmetrical, PIPE: component (i,j) is component (π i, π j) of the 3D Hill tensor, π = [0, 1, 2, 3] -/
theorem hill_AXI_PIPE (hF hG hH hL hM hN : K) :
    hill_AXI_PIPE_r0_0 c c3 fn hF hG hH hL hM hN = hill_TRI_DEFAULT_r0_0 c c3 fn hF hG hH hL hM hN ∧
    hill_AXI_PIPE_r0_1 c c3 fn hF hG hH hL hM hN = hill_TRI_DEFAULT_r0_1 c c3 fn hF hG hH hL hM hN ∧
    hill_AXI_PIPE_r0_2 c c3 fn hF hG hH hL hM hN = hill_TRI_DEFAULT_r0_2 c c3 fn hF hG hH hL hM hN ∧
    hill_AXI_PIPE_r0_3 c c3 fn hF hG hH hL hM hN = hill_TRI_DEFAULT_r0_3 c c3 fn hF hG hH hL hM hN ∧
    hill_AXI_PIPE_r1_0 c c3 fn hF hG hH hL hM hN = hill_TRI_DEFAULT_r1_0 c c3 fn hF hG hH hL hM hN ∧
    hill_AXI_PIPE_r1_1 c c3 fn hF hG hH hL hM hN = hill_TRI_DEFAULT_r1_1 c c3 fn hF hG hH hL hM hN ∧
    hill_AXI_PIPE_r1_2 c c3 fn hF hG hH hL hM hN = hill_TRI_DEFAULT_r1_2 c c3 fn hF hG hH hL hM hN ∧
    hill_AXI_PIPE_r1_3 c c3 fn hF hG hH hL hM hN = hill_TRI_DEFAULT_r1_3 c c3 fn hF hG hH hL hM hN ∧
    hill_AXI_PIPE_r2_0 c c3 fn hF hG hH hL hM hN = hill_TRI_DEFAULT_r2_0 c c3 fn hF hG hH hL hM hN ∧
    hill_AXI_PIPE_r2_1 c c3 fn hF hG hH hL hM hN = hill_TRI_DEFAULT_r2_1 c c3 fn hF hG hH hL hM hN ∧
    hill_AXI_PIPE_r2_2 c c3 fn hF hG hH hL hM hN = hill_TRI_DEFAULT_r2_2 c c3 fn hF hG hH hL hM hN ∧
    hill_AXI_PIPE_r2_3 c c3 fn hF hG hH hL hM hN = hill_TRI_DEFAULT_r2_3 c c3 fn hF hG hH hL hM hN ∧
    hill_AXI_PIPE_r3_0 c c3 fn hF hG hH hL hM hN = hill_TRI_DEFAULT_r3_0 c c3 fn hF hG hH hL hM hN ∧
    hill_AXI_PIPE_r3_1 c c3 fn hF hG hH hL hM hN = hill_TRI_DEFAULT_r3_1 c c3 fn hF hG hH hL hM hN ∧
    hill_AXI_PIPE_r3_2 c c3 fn hF hG hH hL hM hN = hill_TRI_DEFAULT_r3_2 c c3 fn hF hG hH hL hM hN ∧
    hill_AXI_PIPE_r3_3 c c3 fn hF hG hH hL hM hN = hill_TRI_DEFAULT_r3_3 c c3 fn hF hG hH hL hM hN := by
  axes_eq

/-- PlaneStress, DEFAULT: component (i,j) is component (π i, π j) of the 3D Hill tensor, π = [0, 1, 2, 3] -/
theorem hill_PS_DEFAULT (hF hG hH hL hM hN : K) :
    hill_PS_DEFAULT_r0_0 c c3 fn hF hG hH hL hM hN = hill_TRI_DEFAULT_r0_0 c c3 fn hF hG hH hL hM hN ∧
    hill_PS_DEFAULT_r0_1 c c3 fn hF hG hH hL hM hN = hill_TRI_DEFAULT_r0_1 c c3 fn hF hG hH hL hM hN ∧
    hill_PS_DEFAULT_r0_2 c c3 fn hF hG hH hL hM hN = hill_TRI_DEFAULT_r0_2 c c3 fn hF hG hH hL hM hN ∧
    hill_PS_DEFAULT_r0_3 c c3 fn hF hG hH hL hM hN = hill_TRI_DEFAULT_r0_3 c c3 fn hF hG hH hL hM hN ∧
    hill_PS_DEFAULT_r1_0 c c3 fn hF hG hH hL hM hN = hill_TRI_DEFAULT_r1_0 c c3 fn hF hG hH hL hM hN ∧
    hill_PS_DEFAULT_r1_1 c c3 fn hF hG hH hL hM hN = hill_TRI_DEFAULT_r1_1 c c3 fn hF hG hH hL hM hN ∧
    hill_PS_DEFAULT_r1_2 c c3 fn hF hG hH hL hM hN = hill_TRI_DEFAULT_r1_2 c c3 fn hF hG hH hL hM hN ∧
    hill_PS_DEFAULT_r1_3 c c3 fn hF hG hH hL hM hN = hill_TRI_DEFAULT_r1_3 c c3 fn hF hG hH hL hM hN ∧
    hill_PS_DEFAULT_r2_0 c c3 fn hF hG hH hL hM hN = hill_TRI_DEFAULT_r2_0 c c3 fn hF hG hH hL hM hN ∧
    hill_PS_DEFAULT_r2_1 c c3 fn hF hG hH hL hM hN = hill_TRI_DEFAULT_r2_1 c c3 fn hF hG hH hL hM hN ∧
    hill_PS_DEFAULT_r2_2 c c3 fn hF hG hH hL hM hN = hill_TRI_DEFAULT_r2_2 c c3 fn hF hG hH hL hM hN ∧
    hill_PS_DEFAULT_r2_3 c c3 fn hF hG hH hL hM hN = hill_TRI_DEFAULT_r2_3 c c3 fn hF hG hH hL hM hN ∧
    hill_PS_DEFAULT_r3_0 c c3 fn hF hG hH hL hM hN = hill_TRI_DEFAULT_r3_0 c c3 fn hF hG hH hL hM hN ∧
    hill_PS_DEFAULT_r3_1 c c3 fn hF hG hH hL hM hN = hill_TRI_DEFAULT_r3_1 c c3 fn hF hG hH hL hM hN ∧
    hill_PS_DEFAULT_r3_2 c c3 fn hF hG hH hL hM hN = hill_TRI_DEFAULT_r3_2 c c3 fn hF hG hH hL hM hN ∧
    hill_PS_DEFAULT_r3_3 c c3 fn hF hG hH hL hM hN = hill_TRI_DEFAULT_r3_3 c c3 fn hF hG hH hL hM hN := by
  axes_eq

/-- PlaneStress, PIPE: component (i,j) is component (π i, π j) of the 3D Hill tensor, π = [0, 2, 1, 4] -/
theorem hill_PS_PIPE (hF hG hH hL hM hN : K) :
    hill_PS_PIPE_r0_0 c c3 fn hF hG hH hL hM hN = hill_TRI_DEFAULT_r0_0 c c3 fn hF hG hH hL hM hN ∧
    hill_PS_PIPE_r0_1 c c3 fn hF hG hH hL hM hN = hill_TRI_DEFAULT_r0_2 c c3 fn hF hG hH hL hM hN ∧
    hill_PS_PIPE_r0_2 c c3 fn hF hG hH hL hM hN = hill_TRI_DEFAULT_r0_1 c c3 fn hF hG hH hL hM hN ∧
    hill_PS_PIPE_r0_3 c c3 fn hF hG hH hL hM hN = hill_TRI_DEFAULT_r0_4 c c3 fn hF hG hH hL hM hN ∧
    hill_PS_PIPE_r1_0 c c3 fn hF hG hH hL hM hN = hill_TRI_DEFAULT_r2_0 c c3 fn hF hG hH hL hM hN ∧
    hill_PS_PIPE_r1_1 c c3 fn hF hG hH hL hM hN = hill_TRI_DEFAULT_r2_2 c c3 fn hF hG hH hL hM hN ∧
    hill_PS_PIPE_r1_2 c c3 fn hF hG hH hL hM hN = hill_TRI_DEFAULT_r2_1 c c3 fn hF hG hH hL hM hN ∧
    hill_PS_PIPE_r1_3 c c3 fn hF hG hH hL hM hN = hill_TRI_DEFAULT_r2_4 c c3 fn hF hG hH hL hM hN ∧
    hill_PS_PIPE_r2_0 c c3 fn hF hG hH hL hM hN = hill_TRI_DEFAULT_r1_0 c c3 fn hF hG hH hL hM hN ∧
    hill_PS_PIPE_r2_1 c c3 fn hF hG hH hL hM hN = hill_TRI_DEFAULT_r1_2 c c3 fn hF hG hH hL hM hN ∧
    hill_PS_PIPE_r2_2 c c3 fn hF hG hH hL hM hN = hill_TRI_DEFAULT_r1_1 c c3 fn hF hG hH hL hM hN ∧
    hill_PS_PIPE_r2_3 c c3 fn hF hG hH hL hM hN = hill_TRI_DEFAULT_r1_4 c c3 fn hF hG hH hL hM hN ∧
    hill_PS_PIPE_r3_0 c c3 fn hF hG hH hL hM hN = hill_TRI_DEFAULT_r4_0 c c3 fn hF hG hH hL hM hN ∧
    hill_PS_PIPE_r3_1 c c3 fn hF hG hH hL hM hN = hill_TRI_DEFAULT_r4_2 c c3 fn hF hG hH hL hM hN ∧
    hill_PS_PIPE_r3_2 c c3 fn hF hG hH hL hM hN = hill_TRI_DEFAULT_r4_1 c c3 fn hF hG hH hL hM hN ∧
    hill_PS_PIPE_r3_3 c c3 fn hF hG hH hL hM hN = hill_TRI_DEFAULT_r4_4 c c3 fn hF hG hH hL hM hN := by
  axes_eq

/-- PlaneStress, PLATE: component (i,j) is component (π i, π j) of the 3D Hill tensor, π = [0, 1, 2, 3] -/
theorem hill_PS_PLATE (hF hG hH hL hM hN : K) :
    hill_PS_PLATE_r0_0 c c3 fn hF hG hH hL hM hN = hill_TRI_DEFAULT_r0_0 c c3 fn hF hG hH hL hM hN ∧
    hill_PS_PLATE_r0_1 c c3 fn hF hG hH hL hM hN = hill_TRI_DEFAULT_r0_1 c c3 fn hF hG hH hL hM hN ∧
    hill_PS_PLATE_r0_2 c c3 fn hF hG hH hL hM hN = hill_TRI_DEFAULT_r0_2 c c3 fn hF hG hH hL hM hN ∧
    hill_PS_PLATE_r0_3 c c3 fn hF hG hH hL hM hN = hill_TRI_DEFAULT_r0_3 c c3 fn hF hG hH hL hM hN ∧
    hill_PS_PLATE_r1_0 c c3 fn hF hG hH hL hM hN = hill_TRI_DEFAULT_r1_0 c c3 fn hF hG hH hL hM hN ∧
    hill_PS_PLATE_r1_1 c c3 fn hF hG hH hL hM hN = hill_TRI_DEFAULT_r1_1 c c3 fn hF hG hH hL hM hN ∧
    hill_PS_PLATE_r1_2 c c3 fn hF hG hH hL hM hN = hill_TRI_DEFAULT_r1_2 c c3 fn hF hG hH hL hM hN ∧
    hill_PS_PLATE_r1_3 c c3 fn hF hG hH hL hM hN = hill_TRI_DEFAULT_r1_3 c c3 fn hF hG hH hL hM hN ∧
    hill_PS_PLATE_r2_0 c c3 fn hF hG hH hL hM hN = hill_TRI_DEFAULT_r2_0 c c3 fn hF hG hH hL hM hN ∧
    hill_PS_PLATE_r2_1 c c3 fn hF hG hH hL hM hN = hill_TRI_DEFAULT_r2_1 c c3 fn hF hG hH hL hM hN ∧
    hill_PS_PLATE_r2_2 c c3 fn hF hG hH hL hM hN = hill_TRI_DEFAULT_r2_2 c c3 fn hF hG hH hL hM hN ∧
    hill_PS_PLATE_r2_3 c c3 fn hF hG hH hL hM hN = hill_TRI_DEFAULT_r2_3 c c3 fn hF hG hH hL hM hN ∧
    hill_PS_PLATE_r3_0 c c3 fn hF hG hH hL hM hN = hill_TRI_DEFAULT_r3_0 c c3 fn hF hG hH hL hM hN ∧
    hill_PS_PLATE_r3_1 c c3 fn hF hG hH hL hM hN = hill_TRI_DEFAULT_r3_1 c c3 fn hF hG hH hL hM hN ∧
    hill_PS_PLATE_r3_2 c c3 fn hF hG hH hL hM hN = hill_TRI_DEFAULT_r3_2 c c3 fn hF hG hH hL hM hN ∧
    hill_PS_PLATE_r3_3 c c3 fn hF hG hH hL hM hN = hill_TRI_DEFAULT_r3_3 c c3 fn hF hG hH hL hM hN := by
  axes_eq

/-- PlaneStrain, DEFAULT: component (i,j) is component (π i, π j) of the 3D Hill tensor, π = [0, 1, 2, 3] -/
theorem hill_PE_DEFAULT (hF hG hH hL hM hN : K) :
    hill_PE_DEFAULT_r0_0 c c3 fn hF hG hH hL hM hN = hill_TRI_DEFAULT_r0_0 c c3 fn hF hG hH hL hM hN ∧
    hill_PE_DEFAULT_r0_1 c c3 fn hF hG hH hL hM hN = hill_TRI_DEFAULT_r0_1 c c3 fn hF hG hH hL hM hN ∧
    hill_PE_DEFAULT_r0_2 c c3 fn hF hG hH hL hM hN = hill_TRI_DEFAULT_r0_2 c c3 fn hF hG hH hL hM hN ∧
    hill_PE_DEFAULT_r0_3 c c3 fn hF hG hH hL hM hN = hill_TRI_DEFAULT_r0_3 c c3 fn hF hG hH hL hM hN ∧
    hill_PE_DEFAULT_r1_0 c c3 fn hF hG hH hL hM hN = hill_TRI_DEFAULT_r1_0 c c3 fn hF hG hH hL hM hN ∧
    hill_PE_DEFAULT_r1_1 c c3 fn hF hG hH hL hM hN = hill_TRI_DEFAULT_r1_1 c c3 fn hF hG hH hL hM hN ∧
    hill_PE_DEFAULT_r1_2 c c3 fn hF hG hH hL hM hN = hill_TRI_DEFAULT_r1_2 c c3 fn hF hG hH hL hM hN ∧
    hill_PE_DEFAULT_r1_3 c c3 fn hF hG hH hL hM hN = hill_TRI_DEFAULT_r1_3 c c3 fn hF hG hH hL hM hN ∧
    hill_PE_DEFAULT_r2_0 c c3 fn hF hG hH hL hM hN = hill_TRI_DEFAULT_r2_0 c c3 fn hF hG hH hL hM hN ∧
    hill_PE_DEFAULT_r2_1 c c3 fn hF hG hH hL hM hN = hill_TRI_DEFAULT_r2_1 c c3 fn hF hG hH hL hM hN ∧
    hill_PE_DEFAULT_r2_2 c c3 fn hF hG hH hL hM hN = hill_TRI_DEFAULT_r2_2 c c3 fn hF hG hH hL hM hN ∧
    hill_PE_DEFAULT_r2_3 c c3 fn hF hG hH hL hM hN = hill_TRI_DEFAULT_r2_3 c c3 fn hF hG hH hL hM hN ∧
    hill_PE_DEFAULT_r3_0 c c3 fn hF hG hH hL hM hN = hill_TRI_DEFAULT_r3_0 c c3 fn hF hG hH hL hM hN ∧
    hill_PE_DEFAULT_r3_1 c c3 fn hF hG hH hL hM hN = hill_TRI_DEFAULT_r3_1 c c3 fn hF hG hH hL hM hN ∧
    hill_PE_DEFAULT_r3_2 c c3 fn hF hG hH hL hM hN = hill_TRI_DEFAULT_r3_2 c c3 fn hF hG hH hL hM hN ∧
    hill_PE_DEFAULT_r3_3 c c3 fn hF hG hH hL hM hN = hill_TRI_DEFAULT_r3_3 c c3 fn hF hG hH hL hM hN := by
  axes_eq

/-- PlaneStrain, PIPE: component (i,j) is component (π i, π j) of the 3D Hill tensor, π = [0, 2, 1, 4] -/
theorem hill_PE_PIPE (hF hG hH hL hM hN : K) :
    hill_PE_PIPE_r0_0 c c3 fn hF hG hH hL hM hN = hill_TRI_DEFAULT_r0_0 c c3 fn hF hG hH hL hM hN ∧
    hill_PE_PIPE_r0_1 c c3 fn hF hG hH hL hM hN = hill_TRI_DEFAULT_r0_2 c c3 fn hF hG hH hL hM hN ∧
    hill_PE_PIPE_r0_2 c c3 fn hF hG hH hL hM hN = hill_TRI_DEFAULT_r0_1 c c3 fn hF hG hH hL hM hN ∧
    hill_PE_PIPE_r0_3 c c3 fn hF hG hH hL hM hN = hill_TRI_DEFAULT_r0_4 c c3 fn hF hG hH hL hM hN ∧
    hill_PE_PIPE_r1_0 c c3 fn hF hG hH hL hM hN = hill_TRI_DEFAULT_r2_0 c c3 fn hF hG hH hL hM hN ∧
    hill_PE_PIPE_r1_1 c c3 fn hF hG hH hL hM hN = hill_TRI_DEFAULT_r2_2 c c3 fn hF hG hH hL hM hN ∧
    hill_PE_PIPE_r1_2 c c3 fn hF hG hH hL hM hN = hill_TRI_DEFAULT_r2_1 c c3 fn hF hG hH hL hM hN ∧
    hill_PE_PIPE_r1_3 c c3 fn hF hG hH hL hM hN = hill_TRI_DEFAULT_r2_4 c c3 fn hF hG hH hL hM hN ∧
    hill_PE_PIPE_r2_0 c c3 fn hF hG hH hL hM hN = hill_TRI_DEFAULT_r1_0 c c3 fn hF hG hH hL hM hN ∧
    hill_PE_PIPE_r2_1 c c3 fn hF hG hH hL hM hN = hill_TRI_DEFAULT_r1_2 c c3 fn hF hG hH hL hM hN ∧
    hill_PE_PIPE_r2_2 c c3 fn hF hG hH hL hM hN = hill_TRI_DEFAULT_r1_1 c c3 fn hF hG hH hL hM hN ∧
    hill_PE_PIPE_r2_3 c c3 fn hF hG hH hL hM hN = hill_TRI_DEFAULT_r1_4 c c3 fn hF hG hH hL hM hN ∧
    hill_PE_PIPE_r3_0 c c3 fn hF hG hH hL hM hN = hill_TRI_DEFAULT_r4_0 c c3 fn hF hG hH hL hM hN ∧
    hill_PE_PIPE_r3_1 c c3 fn hF hG hH hL hM hN = hill_TRI_DEFAULT_r4_2 c c3 fn hF hG hH hL hM hN ∧
    hill_PE_PIPE_r3_2 c c3 fn hF hG hH hL hM hN = hill_TRI_DEFAULT_r4_1 c c3 fn hF hG hH hL hM hN ∧
    hill_PE_PIPE_r3_3 c c3 fn hF hG hH hL hM hN = hill_TRI_DEFAULT_r4_4 c c3 fn hF hG hH hL hM hN := by
  axes_eq

/-- PlaneStrain, PLATE: component (i,j) is component (π i, π j) of the 3D Hill tensor, π = [0, 1, 2, 3] -/
theorem hill_PE_PLATE (hF hG hH hL hM hN : K) :
    hill_PE_PLATE_r0_0 c c3 fn hF hG hH hL hM hN = hill_TRI_DEFAULT_r0_0 c c3 fn hF hG hH hL hM hN ∧
    hill_PE_PLATE_r0_1 c c3 fn hF hG hH hL hM hN = hill_TRI_DEFAULT_r0_1 c c3 fn hF hG hH hL hM hN ∧
    hill_PE_PLATE_r0_2 c c3 fn hF hG hH hL hM hN = hill_TRI_DEFAULT_r0_2 c c3 fn hF hG hH hL hM hN ∧
    hill_PE_PLATE_r0_3 c c3 fn hF hG hH hL hM hN = hill_TRI_DEFAULT_r0_3 c c3 fn hF hG hH hL hM hN ∧
    hill_PE_PLATE_r1_0 c c3 fn hF hG hH hL hM hN = hill_TRI_DEFAULT_r1_0 c c3 fn hF hG hH hL hM hN ∧
    hill_PE_PLATE_r1_1 c c3 fn hF hG hH hL hM hN = hill_TRI_DEFAULT_r1_1 c c3 fn hF hG hH hL hM hN ∧
    hill_PE_PLATE_r1_2 c c3 fn hF hG hH hL hM hN = hill_TRI_DEFAULT_r1_2 c c3 fn hF hG hH hL hM hN ∧
    hill_PE_PLATE_r1_3 c c3 fn hF hG hH hL hM hN = hill_TRI_DEFAULT_r1_3 c c3 fn hF hG hH hL hM hN ∧
    hill_PE_PLATE_r2_0 c c3 fn hF hG hH hL hM hN = hill_TRI_DEFAULT_r2_0 c c3 fn hF hG hH hL hM hN ∧
    hill_PE_PLATE_r2_1 c c3 fn hF hG hH hL hM hN = hill_TRI_DEFAULT_r2_1 c c3 fn hF hG hH hL hM hN ∧
    hill_PE_PLATE_r2_2 c c3 fn hF hG hH hL hM hN = hill_TRI_DEFAULT_r2_2 c c3 fn hF hG hH hL hM hN ∧
    hill_PE_PLATE_r2_3 c c3 fn hF hG hH hL hM hN = hill_TRI_DEFAULT_r2_3 c c3 fn hF hG hH hL hM hN ∧
    hill_PE_PLATE_r3_0 c c3 fn hF hG hH hL hM hN = hill_TRI_DEFAULT_r3_0 c c3 fn hF hG hH hL hM hN ∧
    hill_PE_PLATE_r3_1 c c3 fn hF hG hH hL hM hN = hill_TRI_DEFAULT_r3_1 c c3 fn hF hG hH hL hM hN ∧
    hill_PE_PLATE_r3_2 c c3 fn hF hG hH hL hM hN = hill_TRI_DEFAULT_r3_2 c c3 fn hF hG hH hL hM hN ∧
    hill_PE_PLATE_r3_3 c c3 fn hF hG hH hL hM hN = hill_TRI_DEFAULT_r3_3 c c3 fn hF hG hH hL hM hN := by
  axes_eq

/-- GeneralisedPlaneStrain, DEFAULT: component (i,j) is component (π i, π j) of the 3D Hill tensor, π = [0, 1, 2, 3] -/
theorem hill_GPE_DEFAULT (hF hG hH hL hM hN : K) :
    hill_GPE_DEFAULT_r0_0 c c3 fn hF hG hH hL hM hN = hill_TRI_DEFAULT_r0_0 c c3 fn hF hG hH hL hM hN ∧
    hill_GPE_DEFAULT_r0_1 c c3 fn hF hG hH hL hM hN = hill_TRI_DEFAULT_r0_1 c c3 fn hF hG hH hL hM hN ∧
    hill_GPE_DEFAULT_r0_2 c c3 fn hF hG hH hL hM hN = hill_TRI_DEFAULT_r0_2 c c3 fn hF hG hH hL hM hN ∧
    hill_GPE_DEFAULT_r0_3 c c3 fn hF hG hH hL hM hN = hill_TRI_DEFAULT_r0_3 c c3 fn hF hG hH hL hM hN ∧
    hill_GPE_DEFAULT_r1_0 c c3 fn hF hG hH hL hM hN = hill_TRI_DEFAULT_r1_0 c c3 fn hF hG hH hL hM hN ∧
    hill_GPE_DEFAULT_r1_1 c c3 fn hF hG hH hL hM hN = hill_TRI_DEFAULT_r1_1 c c3 fn hF hG hH hL hM hN ∧
    hill_GPE_DEFAULT_r1_2 c c3 fn hF hG hH hL hM hN = hill_TRI_DEFAULT_r1_2 c c3 fn hF hG hH hL hM hN ∧
    hill_GPE_DEFAULT_r1_3 c c3 fn hF hG hH hL hM hN = hill_TRI_DEFAULT_r1_3 c c3 fn hF hG hH hL hM hN ∧
    hill_GPE_DEFAULT_r2_0 c c3 fn hF hG hH hL hM hN = hill_TRI_DEFAULT_r2_0 c c3 fn hF hG hH hL hM hN ∧
    hill_GPE_DEFAULT_r2_1 c c3 fn hF hG hH hL hM hN = hill_TRI_DEFAULT_r2_1 c c3 fn hF hG hH hL hM hN ∧
    hill_GPE_DEFAULT_r2_2 c c3 fn hF hG hH hL hM hN = hill_TRI_DEFAULT_r2_2 c c3 fn hF hG hH hL hM hN ∧
    hill_GPE_DEFAULT_r2_3 c c3 fn hF hG hH hL hM hN = hill_TRI_DEFAULT_r2_3 c c3 fn hF hG hH hL hM hN ∧
    hill_GPE_DEFAULT_r3_0 c c3 fn hF hG hH hL hM hN = hill_TRI_DEFAULT_r3_0 c c3 fn hF hG hH hL hM hN ∧
    hill_GPE_DEFAULT_r3_1 c c3 fn hF hG hH hL hM hN = hill_TRI_DEFAULT_r3_1 c c3 fn hF hG hH hL hM hN ∧
    hill_GPE_DEFAULT_r3_2 c c3 fn hF hG hH hL hM hN = hill_TRI_DEFAULT_r3_2 c c3 fn hF hG hH hL hM hN ∧
    hill_GPE_DEFAULT_r3_3 c c3 fn hF hG hH hL hM hN = hill_TRI_DEFAULT_r3_3 c c3 fn hF hG hH hL hM hN := by
  axes_eq

/-- GeneralisedPlaneStrain, PIPE: component (i,j) is component (π i, π j) of the 3D Hill tensor, π = [0, 2, 1, 4] -/
theorem hill_GPE_PIPE (hF hG hH hL hM hN : K) :
    hill_GPE_PIPE_r0_0 c c3 fn hF hG hH hL hM hN = hill_TRI_DEFAULT_r0_0 c c3 fn hF hG hH hL hM hN ∧
    hill_GPE_PIPE_r0_1 c c3 fn hF hG hH hL hM hN = hill_TRI_DEFAULT_r0_2 c c3 fn hF hG hH hL hM hN ∧
    hill_GPE_PIPE_r0_2 c c3 fn hF hG hH hL hM hN = hill_TRI_DEFAULT_r0_1 c c3 fn hF hG hH hL hM hN ∧
    hill_GPE_PIPE_r0_3 c c3 fn hF hG hH hL hM hN = hill_TRI_DEFAULT_r0_4 c c3 fn hF hG hH hL hM hN ∧
    hill_GPE_PIPE_r1_0 c c3 fn hF hG hH hL hM hN = hill_TRI_DEFAULT_r2_0 c c3 fn hF hG hH hL hM hN ∧
    hill_GPE_PIPE_r1_1 c c3 fn hF hG hH hL hM hN = hill_TRI_DEFAULT_r2_2 c c3 fn hF hG hH hL hM hN ∧
    hill_GPE_PIPE_r1_2 c c3 fn hF hG hH hL hM hN = hill_TRI_DEFAULT_r2_1 c c3 fn hF hG hH hL hM hN ∧
    hill_GPE_PIPE_r1_3 c c3 fn hF hG hH hL hM hN = hill_TRI_DEFAULT_r2_4 c c3 fn hF hG hH hL hM hN ∧
    hill_GPE_PIPE_r2_0 c c3 fn hF hG hH hL hM hN = hill_TRI_DEFAULT_r1_0 c c3 fn hF hG hH hL hM hN ∧
    hill_GPE_PIPE_r2_1 c c3 fn hF hG hH hL hM hN = hill_TRI_DEFAULT_r1_2 c c3 fn hF hG hH hL hM hN ∧
    hill_GPE_PIPE_r2_2 c c3 fn hF hG hH hL hM hN = hill_TRI_DEFAULT_r1_1 c c3 fn hF hG hH hL hM hN ∧
    hill_GPE_PIPE_r2_3 c c3 fn hF hG hH hL hM hN = hill_TRI_DEFAULT_r1_4 c c3 fn hF hG hH hL hM hN ∧
    hill_GPE_PIPE_r3_0 c c3 fn hF hG hH hL hM hN = hill_TRI_DEFAULT_r4_0 c c3 fn hF hG hH hL hM hN ∧
    hill_GPE_PIPE_r3_1 c c3 fn hF hG hH hL hM hN = hill_TRI_DEFAULT_r4_2 c c3 fn hF hG hH hL hM hN ∧
    hill_GPE_PIPE_r3_2 c c3 fn hF hG hH hL hM hN = hill_TRI_DEFAULT_r4_1 c c3 fn hF hG hH hL hM hN ∧
    hill_GPE_PIPE_r3_3 c c3 fn hF hG hH hL hM hN = hill_TRI_DEFAULT_r4_4 c c3 fn hF hG hH hL hM hN := by
  axes_eq

/-- GeneralisedPlaneStrain, PLATE: component (i,j) is component (π i, π j) of the 3D Hill tensor, π = [0, 1, 2, 3] -/
theorem hill_GPE_PLATE (hF hG hH hL hM hN : K) :
    hill_GPE_PLATE_r0_0 c c3 fn hF hG hH hL hM hN = hill_TRI_DEFAULT_r0_0 c c3 fn hF hG hH hL hM hN ∧
    hill_GPE_PLATE_r0_1 c c3 fn hF hG hH hL hM hN = hill_TRI_DEFAULT_r0_1 c c3 fn hF hG hH hL hM hN ∧
    hill_GPE_PLATE_r0_2 c c3 fn hF hG hH hL hM hN = hill_TRI_DEFAULT_r0_2 c c3 fn hF hG hH hL hM hN ∧
    hill_GPE_PLATE_r0_3 c c3 fn hF hG hH hL hM hN = hill_TRI_DEFAULT_r0_3 c c3 fn hF hG hH hL hM hN ∧
    hill_GPE_PLATE_r1_0 c c3 fn hF hG hH hL hM hN = hill_TRI_DEFAULT_r1_0 c c3 fn hF hG hH hL hM hN ∧
    hill_GPE_PLATE_r1_1 c c3 fn hF hG hH hL hM hN = hill_TRI_DEFAULT_r1_1 c c3 fn hF hG hH hL hM hN ∧
    hill_GPE_PLATE_r1_2 c c3 fn hF hG hH hL hM hN = hill_TRI_DEFAULT_r1_2 c c3 fn hF hG hH hL hM hN ∧
    hill_GPE_PLATE_r1_3 c c3 fn hF hG hH hL hM hN = hill_TRI_DEFAULT_r1_3 c c3 fn hF hG hH hL hM hN ∧
    hill_GPE_PLATE_r2_0 c c3 fn hF hG hH hL hM hN = hill_TRI_DEFAULT_r2_0 c c3 fn hF hG hH hL hM hN ∧
    hill_GPE_PLATE_r2_1 c c3 fn hF hG hH hL hM hN = hill_TRI_DEFAULT_r2_1 c c3 fn hF hG hH hL hM hN ∧
    hill_GPE_PLATE_r2_2 c c3 fn hF hG hH hL hM hN = hill_TRI_DEFAULT_r2_2 c c3 fn hF hG hH hL hM hN ∧
    hill_GPE_PLATE_r2_3 c c3 fn hF hG hH hL hM hN = hill_TRI_DEFAULT_r2_3 c c3 fn hF hG hH hL hM hN ∧
    hill_GPE_PLATE_r3_0 c c3 fn hF hG hH hL hM hN = hill_TRI_DEFAULT_r3_0 c c3 fn hF hG hH hL hM hN ∧
    hill_GPE_PLATE_r3_1 c c3 fn hF hG hH hL hM hN = hill_TRI_DEFAULT_r3_1 c c3 fn hF hG hH hL hM hN ∧
    hill_GPE_PLATE_r3_2 c c3 fn hF hG hH hL hM hN = hill_TRI_DEFAULT_r3_2 c c3 fn hF hG hH hL hM hN ∧
    hill_GPE_PLATE_r3_3 c c3 fn hF hG hH hL hM hN = hill_TRI_DEFAULT_r3_3 c c3 fn hF hG hH hL hM hN := by
  axes_eq

/-- PIPE, plane hypotheses: the Hill stress of a 2D stress state (x11, x22, x33, x12) equals the 3D Hill stress of the
    same state expressed in the 3D material frame (second and third axes exchanged) -/
theorem hill_PS_PIPE_same_response (hc : c * c = 2) (hF hG hH hL hM hN x11 x22 x33 x12 : K) :
    quad4 (hill_PS_PIPE_all c c3 fn hF hG hH hL hM hN) [x11, x22, x33, c * x12] =
      quad6 (hill_TRI_DEFAULT_all c c3 fn hF hG hH hL hM hN) [x11, x33, x22, 0, c * x12, 0] := by
  simp only [gen_simp, quad4, quad6]
  ring

theorem hill_PE_PIPE_same_response (hc : c * c = 2) (hF hG hH hL hM hN x11 x22 x33 x12 : K) :
    quad4 (hill_PE_PIPE_all c c3 fn hF hG hH hL hM hN) [x11, x22, x33, c * x12] =
      quad6 (hill_TRI_DEFAULT_all c c3 fn hF hG hH hL hM hN) [x11, x33, x22, 0, c * x12, 0] := by
  simp only [gen_simp, quad4, quad6]
  ring

theorem hill_GPE_PIPE_same_response (hc : c * c = 2) (hF hG hH hL hM hN x11 x22 x33 x12 : K) :
    quad4 (hill_GPE_PIPE_all c c3 fn hF hG hH hL hM hN) [x11, x22, x33, c * x12] =
      quad6 (hill_TRI_DEFAULT_all c c3 fn hF hG hH hL hM hN) [x11, x33, x22, 0, c * x12, 0] := by
  simp only [gen_simp, quad4, quad6]
  ring

end TfelVerif.C28.PropsAxes
