/- C28 — helpers for PropsAxes.lean: quadratic forms of row-major lists and the closing tactics -/
import Mathlib.Tactic.Ring
import Mathlib.Tactic.FieldSimp
import Mathlib.Tactic.LinearCombination
import TfelVerif.Common.M3
namespace TfelVerif.C28

/-- quadratic form `xᵀ M x` of an 4x4 row-major list -/
def quad4 {K : Type} [Field K] : List K → List K → K
  | (m00 :: m01 :: m02 :: m03 :: m10 :: m11 :: m12 :: m13 :: m20 :: m21 :: m22 :: m23 :: m30 :: m31 :: m32 :: m33 :: []), [x0, x1, x2, x3] =>
      x0 * m00 * x0 + x0 * m01 * x1 + x0 * m02 * x2 + x0 * m03 * x3 +
      x1 * m10 * x0 + x1 * m11 * x1 + x1 * m12 * x2 + x1 * m13 * x3 +
      x2 * m20 * x0 + x2 * m21 * x1 + x2 * m22 * x2 + x2 * m23 * x3 +
      x3 * m30 * x0 + x3 * m31 * x1 + x3 * m32 * x2 + x3 * m33 * x3
  | _, _ => 0

/-- quadratic form `xᵀ M x` of an 6x6 row-major list -/
def quad6 {K : Type} [Field K] : List K → List K → K
  | (m00 :: m01 :: m02 :: m03 :: m04 :: m05 :: m10 :: m11 :: m12 :: m13 :: m14 :: m15 :: m20 :: m21 :: m22 :: m23 :: m24 :: m25 :: m30 :: m31 :: m32 :: m33 :: m34 :: m35 :: m40 :: m41 :: m42 :: m43 :: m44 :: m45 :: m50 :: m51 :: m52 :: m53 :: m54 :: m55 :: []), [x0, x1, x2, x3, x4, x5] =>
      x0 * m00 * x0 + x0 * m01 * x1 + x0 * m02 * x2 + x0 * m03 * x3 + x0 * m04 * x4 + x0 * m05 * x5 +
      x1 * m10 * x0 + x1 * m11 * x1 + x1 * m12 * x2 + x1 * m13 * x3 + x1 * m14 * x4 + x1 * m15 * x5 +
      x2 * m20 * x0 + x2 * m21 * x1 + x2 * m22 * x2 + x2 * m23 * x3 + x2 * m24 * x4 + x2 * m25 * x5 +
      x3 * m30 * x0 + x3 * m31 * x1 + x3 * m32 * x2 + x3 * m33 * x3 + x3 * m34 * x4 + x3 * m35 * x5 +
      x4 * m40 * x0 + x4 * m41 * x1 + x4 * m42 * x2 + x4 * m43 * x3 + x4 * m44 * x4 + x4 * m45 * x5 +
      x5 * m50 * x0 + x5 * m51 * x1 + x5 * m52 * x2 + x5 * m53 * x3 + x5 * m54 * x4 + x5 * m55 * x5
  | _, _ => 0

/-- ν32 = ν23 E3 / E2 enters the compliance as -ν32/E3 = -ν23/E2 (symmetry of the compliance matrix) -/
theorem pipe_nu32 {K : Type} [Field K] (a E2 E3 : K) (h2 : E2 ≠ 0) (h3 : E3 ≠ 0) : -(a * E3 / E2) / E3 = -a / E2 := by
  field_simp

end TfelVerif.C28

/-- conjunction of component equalities between traced definitions: unfold, then `ring` -/
macro "axes_eq" : tactic =>
  `(tactic| ((repeat' apply And.intro) <;> (simp only [gen_simp]) <;> (first | done | ring1)))

/-- same, for the PIPE plane hypotheses where ν32 = ν23 E3/E2 is formed by the code -/
macro "stiff_eq" h2:ident h3:ident : tactic =>
  `(tactic| ((repeat' apply And.intro) <;> (simp only [gen_simp]) <;>
      (first | done | ring1 | (simp only [TfelVerif.C28.pipe_nu32 _ _ _ $h2 $h3]; ring1))))

/-- `C · S = 1` for the traced 3D stiffness, given the traced determinant `hd : … ≠ 0` -/
macro "stiff3d" hd:ident : tactic =>
  `(tactic| (
      simp only [gen_simp] at $hd:ident ⊢
      generalize_ne $hd => e he
      have h1 : e * e⁻¹ = 1 := mul_inv_cancel₀ $hd
      repeat' apply And.intro
      all_goals first | trivial | ring1 | linear_combination (e⁻¹) * he + h1))
