/- C28 (part 1) — modelling hypotheses: names, round trips, dimension and tensor sizes.
   `Gen.*` (GenTable.lean) is regenerated on every run: the functions are parsed from the bodies in
   src/Material/ModellingHypothesis.cxx (so they are defined on EVERY string and every enumerator), the
   `dump*` tables come from running the real accessors. -/
import TfelVerif.C28.GenTable
namespace TfelVerif.C28
open Gen

/-! ### the parsed functions reproduce what the compiled code answers (translation validation, in the kernel) -/

theorem dump_enum : dumpEnum = Hyp.all.map (fun (h : Hyp) => (h.val, h.name)) := by decide +kernel
theorem dump_hypotheses : dumpHyps = getModellingHypotheses.map Hyp.val := by decide +kernel
theorem dump_accessors :
    dumpH = Hyp.all.map (fun (h : Hyp) => (h.val, Gen.toString h, toUpperCaseString h, getSpaceDimension h,
      getStensorSize h, getTensorSize h)) := by rfl
/-- the compile-time tables `ModellingHypothesisTo{SpaceDimension,StensorSize,TensorSize}` agree with the
    run-time functions -/
theorem dump_templates :
    dumpT.map (fun r => (r.1, some r.2.1, some r.2.2.1, some r.2.2.2)) =
      getModellingHypotheses.map (fun (h : Hyp) => (h.val, getSpaceDimension h, getStensorSize h, getTensorSize h)) := by
  decide +kernel
theorem dump_strings :
    dumpS = dumpS.map (fun r => (r.1, isModellingHypothesis r.1, (fromString r.1).map Hyp.val)) := by decide +kernel

/-! ### the list of hypotheses -/

/-- every enumerator but UNDEFINEDHYPOTHESIS, once -/
theorem hypotheses_complete (h : Hyp) : h ∈ getModellingHypotheses ↔ h ≠ .UNDEFINEDHYPOTHESIS := by
  cases h <;> decide
theorem hypotheses_nodup : getModellingHypotheses.Nodup := by decide

/-! ### string round trips — for arbitrary strings -/

/-- `fromString (Gen.toString h) = h` for every hypothesis -/
theorem fromString_toString (h : Hyp) (hm : h ∈ getModellingHypotheses) :
    (Gen.toString h).bind fromString = some h := by
  cases h <;> first | rfl | (exfalso; revert hm; decide)

/-- `toString (fromString s) = s` for every string that `fromString` accepts -/
theorem toString_fromString (s : String) (h : Hyp) (hs : fromString s = some h) : Gen.toString h = some s := by
  unfold fromString at hs
  repeat' split at hs
  all_goals first | (cases hs; subst_vars; rfl) | (cases hs)

/-- what `fromString` returns is always a genuine hypothesis -/
theorem fromString_mem (s : String) (h : Hyp) (hs : fromString s = some h) : h ∈ getModellingHypotheses := by
  unfold fromString at hs
  repeat' split at hs
  all_goals first | (cases hs; decide) | (cases hs)

/-- `isModellingHypothesis s` ⇔ `s` is the name of a hypothesis of the list ⇔ `fromString` accepts it -/
theorem isModellingHypothesis_iff (s : String) :
    isModellingHypothesis s = true ↔ ∃ h ∈ getModellingHypotheses, Gen.toString h = some s := by
  constructor
  · intro hs
    simp only [isModellingHypothesis, Bool.or_eq_true, beq_iff_eq] at hs
    rcases hs with ((((((h | h) | h) | h) | h) | h) | h) <;> subst h
    · exact ⟨.AXISYMMETRICALGENERALISEDPLANESTRAIN, by decide, rfl⟩
    · exact ⟨.AXISYMMETRICALGENERALISEDPLANESTRESS, by decide, rfl⟩
    · exact ⟨.AXISYMMETRICAL, by decide, rfl⟩
    · exact ⟨.PLANESTRESS, by decide, rfl⟩
    · exact ⟨.PLANESTRAIN, by decide, rfl⟩
    · exact ⟨.GENERALISEDPLANESTRAIN, by decide, rfl⟩
    · exact ⟨.TRIDIMENSIONAL, by decide, rfl⟩
  · rintro ⟨h, hm, hs⟩
    cases h <;> first | (cases hs; rfl) | (exfalso; revert hm; decide)

theorem isModellingHypothesis_iff_fromString (s : String) :
    isModellingHypothesis s = true ↔ (fromString s).isSome = true := by
  rw [isModellingHypothesis_iff]
  constructor
  · rintro ⟨h, hm, hs⟩
    have := fromString_toString h hm
    rw [hs] at this
    simp only [Option.bind_some] at this
    simp [this]
  · intro hs
    rcases Option.isSome_iff_exists.1 hs with ⟨h, hh⟩
    exact ⟨h, fromString_mem s h hh, toString_fromString s h hh⟩

/-- any other string is rejected (the C++ raises) -/
theorem fromString_unrecognised (s : String) (hs : ∀ h, Gen.toString h ≠ some s) : fromString s = none := by
  cases hf : fromString s with
  | none => rfl
  | some h => exact absurd (toString_fromString s h hf) (hs h)

theorem toString_injective (h1 h2 : Hyp) (s : String) (e1 : Gen.toString h1 = some s) (e2 : Gen.toString h2 = some s) :
    h1 = h2 := by
  have mem : ∀ h : Hyp, Gen.toString h = some s → h ∈ getModellingHypotheses := by
    intro h e; cases h <;> first | decide | (simp [Gen.toString] at e)
  have r1 := fromString_toString h1 (mem h1 e1)
  have r2 := fromString_toString h2 (mem h2 e2)
  rw [e1] at r1; rw [e2] at r2
  simp only [Option.bind_some] at r1 r2
  exact Option.some.inj (r1.symm.trans r2)

/-- the upper-case name is the name in upper case -/
theorem toUpperCaseString_eq (h : Hyp) :
    (toUpperCaseString h).map String.toList = (Gen.toString h).map (fun s => s.toList.map Char.toUpper) := by
  cases h <;> decide

/-- UNDEFINEDHYPOTHESIS has no name, no dimension, no size: every accessor raises -/
theorem undefined_raises :
    Gen.toString .UNDEFINEDHYPOTHESIS = none ∧ toUpperCaseString .UNDEFINEDHYPOTHESIS = none ∧
    getSpaceDimension .UNDEFINEDHYPOTHESIS = none ∧ getStensorSize .UNDEFINEDHYPOTHESIS = none ∧
    getTensorSize .UNDEFINEDHYPOTHESIS = none := by decide

/-! ### space dimension and tensor sizes, as documented -/

/-- 1D: the two axisymmetrical generalised hypotheses; 2D: axisymmetrical, plane stress, plane strain,
    generalised plane strain; 3D: tridimensional. Symmetric tensors have 3, 4, 6 components, unsymmetric
    ones 3, 5, 9. -/
theorem documented_table :
    getModellingHypotheses.map (fun h => (Gen.toString h, getSpaceDimension h, getStensorSize h, getTensorSize h)) =
      [(some "AxisymmetricalGeneralisedPlaneStrain", some 1, some 3, some 3),
       (some "AxisymmetricalGeneralisedPlaneStress", some 1, some 3, some 3),
       (some "Axisymmetrical", some 2, some 4, some 5),
       (some "PlaneStress", some 2, some 4, some 5),
       (some "PlaneStrain", some 2, some 4, some 5),
       (some "GeneralisedPlaneStrain", some 2, some 4, some 5),
       (some "Tridimensional", some 3, some 6, some 9)] := by decide

/-- sizes are functions of the dimension: 3 diagonal terms + d(d-1)/2 (resp. d(d-1)) off-diagonal ones -/
theorem sizes_from_dimension (h : Hyp) (hm : h ∈ getModellingHypotheses) :
    ∃ d, getSpaceDimension h = some d ∧ 1 ≤ d ∧ d ≤ 3 ∧
      getStensorSize h = some (3 + d * (d - 1) / 2) ∧ getTensorSize h = some (3 + d * (d - 1)) := by
  cases h
  case UNDEFINEDHYPOTHESIS => exact absurd hm (by decide)
  all_goals first | exact ⟨1, by decide⟩ | exact ⟨2, by decide⟩ | exact ⟨3, by decide⟩

end TfelVerif.C28
