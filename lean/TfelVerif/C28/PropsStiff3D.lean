/- C28 (part 2) — orthotropic axes conventions and reduced hypotheses, on the definitions traced (T1) from the real
   templates by harness/C28/trace.cxx:  sfe_* = convertStressFreeExpansionStrain<H,C>, hill_* = computeHillTensor<H,C>,
   stiff_*_{U,A}_* = computeOrthotropicStiffnessTensor<H,{UNALTERED,ALTERED},C>, j2o*/j3o* = computeJ2O/computeJ3O and
   derivatives (OrthotropicPlasticity.ixx).  H: AGPE, AGPS (1D axisymmetrical generalised plane strain / stress), AXI, PS, PE,
   GPE (2D), TRI (3D).

   Storage (Mandel): index 0,1,2 = 11,22,33; 3 = 12; 4 = 13; 5 = 23. Documented conventions
   (OrthotropicAxesConvention.hxx): material properties are always given in the 3D material frame;
   PIPE: in plane stress / plane strain / generalised plane strain the second and third material axes are exchanged
   with respect to 3D (so reduced index 1 <-> 3D index 2, reduced 12 <-> 3D 13); identical axes in 1D, axisymmetrical, 3D;
   PLATE and DEFAULT: identical axes everywhere.
   Every theorem: the reduced-hypothesis object is, component by component, the 3D object read through that
   permutation — for all material coefficients (file generated once by harness/C28/genprops.py, then fixed). -/
import TfelVerif.C28.Lemmas
import TfelVerif.C28.Gen

namespace TfelVerif.C28.PropsStiff3D
open TfelVerif TfelVerif.C28 TfelVerif.C28.Gen
set_option linter.unusedVariables false
set_option linter.unusedSectionVars false

variable {K : Type} [Field K] (c c3 : K) (fn : Fns K)

/-! ## orthotropic stiffness tensors -/

/-- 3D, documented meaning: the normal block is the inverse of the compliance matrix
    S = [[1/E1, -ν12/E1, -ν13/E1], [-ν12/E1, 1/E2, -ν23/E2], [-ν13/E1, -ν23/E2, 1/E3]]  (C·S = 1, nine equations),
    the shear block is diag(2 G12, 2 G13, 2 G23) in Mandel storage. `hd`: the determinant formed by the code is not 0. -/
theorem stiff_TRI_inverse_of_compliance (E1 E2 E3 nu12 nu23 nu13 G12 G23 G13 : K)
    (hd : stiff_TRI_U_DEFAULT_den3 c c3 fn E1 E2 E3 nu12 nu23 nu13 G12 G23 G13 ≠ 0) :
    stiff_TRI_U_DEFAULT_r0_0 c c3 fn E1 E2 E3 nu12 nu23 nu13 G12 G23 G13 * (1 / E1) + stiff_TRI_U_DEFAULT_r0_1 c c3 fn E1 E2 E3 nu12 nu23 nu13 G12 G23 G13 * (-nu12 / E1) + stiff_TRI_U_DEFAULT_r0_2 c c3 fn E1 E2 E3 nu12 nu23 nu13 G12 G23 G13 * (-nu13 / E1) = 1 ∧
    stiff_TRI_U_DEFAULT_r0_0 c c3 fn E1 E2 E3 nu12 nu23 nu13 G12 G23 G13 * (-nu12 / E1) + stiff_TRI_U_DEFAULT_r0_1 c c3 fn E1 E2 E3 nu12 nu23 nu13 G12 G23 G13 * (1 / E2) + stiff_TRI_U_DEFAULT_r0_2 c c3 fn E1 E2 E3 nu12 nu23 nu13 G12 G23 G13 * (-nu23 / E2) = 0 ∧
    stiff_TRI_U_DEFAULT_r0_0 c c3 fn E1 E2 E3 nu12 nu23 nu13 G12 G23 G13 * (-nu13 / E1) + stiff_TRI_U_DEFAULT_r0_1 c c3 fn E1 E2 E3 nu12 nu23 nu13 G12 G23 G13 * (-nu23 / E2) + stiff_TRI_U_DEFAULT_r0_2 c c3 fn E1 E2 E3 nu12 nu23 nu13 G12 G23 G13 * (1 / E3) = 0 ∧
    stiff_TRI_U_DEFAULT_r1_0 c c3 fn E1 E2 E3 nu12 nu23 nu13 G12 G23 G13 * (1 / E1) + stiff_TRI_U_DEFAULT_r1_1 c c3 fn E1 E2 E3 nu12 nu23 nu13 G12 G23 G13 * (-nu12 / E1) + stiff_TRI_U_DEFAULT_r1_2 c c3 fn E1 E2 E3 nu12 nu23 nu13 G12 G23 G13 * (-nu13 / E1) = 0 ∧
    stiff_TRI_U_DEFAULT_r1_0 c c3 fn E1 E2 E3 nu12 nu23 nu13 G12 G23 G13 * (-nu12 / E1) + stiff_TRI_U_DEFAULT_r1_1 c c3 fn E1 E2 E3 nu12 nu23 nu13 G12 G23 G13 * (1 / E2) + stiff_TRI_U_DEFAULT_r1_2 c c3 fn E1 E2 E3 nu12 nu23 nu13 G12 G23 G13 * (-nu23 / E2) = 1 ∧
    stiff_TRI_U_DEFAULT_r1_0 c c3 fn E1 E2 E3 nu12 nu23 nu13 G12 G23 G13 * (-nu13 / E1) + stiff_TRI_U_DEFAULT_r1_1 c c3 fn E1 E2 E3 nu12 nu23 nu13 G12 G23 G13 * (-nu23 / E2) + stiff_TRI_U_DEFAULT_r1_2 c c3 fn E1 E2 E3 nu12 nu23 nu13 G12 G23 G13 * (1 / E3) = 0 ∧
    stiff_TRI_U_DEFAULT_r2_0 c c3 fn E1 E2 E3 nu12 nu23 nu13 G12 G23 G13 * (1 / E1) + stiff_TRI_U_DEFAULT_r2_1 c c3 fn E1 E2 E3 nu12 nu23 nu13 G12 G23 G13 * (-nu12 / E1) + stiff_TRI_U_DEFAULT_r2_2 c c3 fn E1 E2 E3 nu12 nu23 nu13 G12 G23 G13 * (-nu13 / E1) = 0 ∧
    stiff_TRI_U_DEFAULT_r2_0 c c3 fn E1 E2 E3 nu12 nu23 nu13 G12 G23 G13 * (-nu12 / E1) + stiff_TRI_U_DEFAULT_r2_1 c c3 fn E1 E2 E3 nu12 nu23 nu13 G12 G23 G13 * (1 / E2) + stiff_TRI_U_DEFAULT_r2_2 c c3 fn E1 E2 E3 nu12 nu23 nu13 G12 G23 G13 * (-nu23 / E2) = 0 ∧
    stiff_TRI_U_DEFAULT_r2_0 c c3 fn E1 E2 E3 nu12 nu23 nu13 G12 G23 G13 * (-nu13 / E1) + stiff_TRI_U_DEFAULT_r2_1 c c3 fn E1 E2 E3 nu12 nu23 nu13 G12 G23 G13 * (-nu23 / E2) + stiff_TRI_U_DEFAULT_r2_2 c c3 fn E1 E2 E3 nu12 nu23 nu13 G12 G23 G13 * (1 / E3) = 1 ∧
    stiff_TRI_U_DEFAULT_r3_3 c c3 fn E1 E2 E3 nu12 nu23 nu13 G12 G23 G13 = 2 * G12 ∧
    stiff_TRI_U_DEFAULT_r4_4 c c3 fn E1 E2 E3 nu12 nu23 nu13 G12 G23 G13 = 2 * G13 ∧
    stiff_TRI_U_DEFAULT_r5_5 c c3 fn E1 E2 E3 nu12 nu23 nu13 G12 G23 G13 = 2 * G23 := by
  stiff3d hd

end TfelVerif.C28.PropsStiff3D
