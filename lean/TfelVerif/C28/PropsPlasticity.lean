/- C28 (part 2) — orthotropic axes conventions and reduced hypotheses, on the definitions traced (T1) from the real
   templates by harness/C28/trace.cxx:  sfe_* = convertStressFreeExpansionStrain<H,C>, hill_* = computeHillTensor<H,C>,
   stiff_*_{U,A}_* = computeOrthotropicStiffnessTensor<H,{UNALTERED,ALTERED},C>, j2o*/j3o* = computeJ2O/computeJ3O and
   derivatives (OrthotropicPlasticity.ixx).  H: AGPE, AGPS (1D axisymmetrical generalised plane strain / stress), AXI, PS, PE,
   GPE (2D), TRI (3D).

   Storage (Mandel): index 0,1,2 = 11,22,33; 3 = 12; 4 = 13; 5 = 23. Documented conventions
   (OrthotropicAxesConvention.hxx): material properties are always given in the 3D material frame;
   PIPE: in plane stress / plane strain / generalised plane strain the second and third material axes are exchanged
   with respect to 3D (so reduced index 1 <-> 3D index 2, reduced 12 <-> 3D 13); identical axes in 1D, axisymmetrical, 3D;
   PLATE and DEFAULT: identical axes everywhere.
   Every theorem: the reduced-hypothesis object is, component by component, the 3D object read through that
   permutation — for all material coefficients (file generated once by harness/C28/genprops.py, then fixed). -/
import TfelVerif.C28.Lemmas
import TfelVerif.C28.Gen

namespace TfelVerif.C28.PropsPlasticity
open TfelVerif TfelVerif.C28 TfelVerif.C28.Gen
set_option linter.unusedVariables false
set_option linter.unusedSectionVars false

variable {K : Type} [Field K] (c c3 : K) (fn : Fns K)

/-! ## orthotropic plasticity helpers: the 1D / 2D overloads are the 3D ones with vanishing out-of-plane shear -/

theorem j2o_N1_is_3D (s0 s1 s2 a1 a2 a3 a4 a5 a6 : K) :
    j2o_N1_r c c3 fn s0 s1 s2 a1 a2 a3 a4 a5 a6 = j2o_N3_r c c3 fn s0 s1 s2 0 0 0 a1 a2 a3 a4 a5 a6 := by
  axes_eq

/-- first derivative: same in-plane components, and the 3D out-of-plane components vanish -/
theorem j2o_d_N1_is_3D (s0 s1 s2 a1 a2 a3 a4 a5 a6 : K) :
    j2o_d_N1_r0 c c3 fn s0 s1 s2 a1 a2 a3 a4 a5 a6 = j2o_d_N3_r0 c c3 fn s0 s1 s2 0 0 0 a1 a2 a3 a4 a5 a6 ∧
    j2o_d_N1_r1 c c3 fn s0 s1 s2 a1 a2 a3 a4 a5 a6 = j2o_d_N3_r1 c c3 fn s0 s1 s2 0 0 0 a1 a2 a3 a4 a5 a6 ∧
    j2o_d_N1_r2 c c3 fn s0 s1 s2 a1 a2 a3 a4 a5 a6 = j2o_d_N3_r2 c c3 fn s0 s1 s2 0 0 0 a1 a2 a3 a4 a5 a6 ∧
    j2o_d_N3_r3 c c3 fn s0 s1 s2 0 0 0 a1 a2 a3 a4 a5 a6 = 0 ∧
    j2o_d_N3_r4 c c3 fn s0 s1 s2 0 0 0 a1 a2 a3 a4 a5 a6 = 0 ∧
    j2o_d_N3_r5 c c3 fn s0 s1 s2 0 0 0 a1 a2 a3 a4 a5 a6 = 0 := by
  axes_eq

theorem j2o_d2_N1_is_3D (s0 s1 s2 a1 a2 a3 a4 a5 a6 : K) :
    j2o_d2_N1_r0_0 c c3 fn s0 s1 s2 a1 a2 a3 a4 a5 a6 = j2o_d2_N3_r0_0 c c3 fn s0 s1 s2 0 0 0 a1 a2 a3 a4 a5 a6 ∧
    j2o_d2_N1_r0_1 c c3 fn s0 s1 s2 a1 a2 a3 a4 a5 a6 = j2o_d2_N3_r0_1 c c3 fn s0 s1 s2 0 0 0 a1 a2 a3 a4 a5 a6 ∧
    j2o_d2_N1_r0_2 c c3 fn s0 s1 s2 a1 a2 a3 a4 a5 a6 = j2o_d2_N3_r0_2 c c3 fn s0 s1 s2 0 0 0 a1 a2 a3 a4 a5 a6 ∧
    j2o_d2_N1_r1_0 c c3 fn s0 s1 s2 a1 a2 a3 a4 a5 a6 = j2o_d2_N3_r1_0 c c3 fn s0 s1 s2 0 0 0 a1 a2 a3 a4 a5 a6 ∧
    j2o_d2_N1_r1_1 c c3 fn s0 s1 s2 a1 a2 a3 a4 a5 a6 = j2o_d2_N3_r1_1 c c3 fn s0 s1 s2 0 0 0 a1 a2 a3 a4 a5 a6 ∧
    j2o_d2_N1_r1_2 c c3 fn s0 s1 s2 a1 a2 a3 a4 a5 a6 = j2o_d2_N3_r1_2 c c3 fn s0 s1 s2 0 0 0 a1 a2 a3 a4 a5 a6 ∧
    j2o_d2_N1_r2_0 c c3 fn s0 s1 s2 a1 a2 a3 a4 a5 a6 = j2o_d2_N3_r2_0 c c3 fn s0 s1 s2 0 0 0 a1 a2 a3 a4 a5 a6 ∧
    j2o_d2_N1_r2_1 c c3 fn s0 s1 s2 a1 a2 a3 a4 a5 a6 = j2o_d2_N3_r2_1 c c3 fn s0 s1 s2 0 0 0 a1 a2 a3 a4 a5 a6 ∧
    j2o_d2_N1_r2_2 c c3 fn s0 s1 s2 a1 a2 a3 a4 a5 a6 = j2o_d2_N3_r2_2 c c3 fn s0 s1 s2 0 0 0 a1 a2 a3 a4 a5 a6 := by
  axes_eq

theorem j2o_N2_is_3D (s0 s1 s2 s3 a1 a2 a3 a4 a5 a6 : K) :
    j2o_N2_r c c3 fn s0 s1 s2 s3 a1 a2 a3 a4 a5 a6 = j2o_N3_r c c3 fn s0 s1 s2 s3 0 0 a1 a2 a3 a4 a5 a6 := by
  axes_eq

/-- first derivative: same in-plane components, and the 3D out-of-plane components vanish -/
theorem j2o_d_N2_is_3D (s0 s1 s2 s3 a1 a2 a3 a4 a5 a6 : K) :
    j2o_d_N2_r0 c c3 fn s0 s1 s2 s3 a1 a2 a3 a4 a5 a6 = j2o_d_N3_r0 c c3 fn s0 s1 s2 s3 0 0 a1 a2 a3 a4 a5 a6 ∧
    j2o_d_N2_r1 c c3 fn s0 s1 s2 s3 a1 a2 a3 a4 a5 a6 = j2o_d_N3_r1 c c3 fn s0 s1 s2 s3 0 0 a1 a2 a3 a4 a5 a6 ∧
    j2o_d_N2_r2 c c3 fn s0 s1 s2 s3 a1 a2 a3 a4 a5 a6 = j2o_d_N3_r2 c c3 fn s0 s1 s2 s3 0 0 a1 a2 a3 a4 a5 a6 ∧
    j2o_d_N2_r3 c c3 fn s0 s1 s2 s3 a1 a2 a3 a4 a5 a6 = j2o_d_N3_r3 c c3 fn s0 s1 s2 s3 0 0 a1 a2 a3 a4 a5 a6 ∧
    j2o_d_N3_r4 c c3 fn s0 s1 s2 s3 0 0 a1 a2 a3 a4 a5 a6 = 0 ∧
    j2o_d_N3_r5 c c3 fn s0 s1 s2 s3 0 0 a1 a2 a3 a4 a5 a6 = 0 := by
  axes_eq

theorem j2o_d2_N2_is_3D (s0 s1 s2 s3 a1 a2 a3 a4 a5 a6 : K) :
    j2o_d2_N2_r0_0 c c3 fn s0 s1 s2 s3 a1 a2 a3 a4 a5 a6 = j2o_d2_N3_r0_0 c c3 fn s0 s1 s2 s3 0 0 a1 a2 a3 a4 a5 a6 ∧
    j2o_d2_N2_r0_1 c c3 fn s0 s1 s2 s3 a1 a2 a3 a4 a5 a6 = j2o_d2_N3_r0_1 c c3 fn s0 s1 s2 s3 0 0 a1 a2 a3 a4 a5 a6 ∧
    j2o_d2_N2_r0_2 c c3 fn s0 s1 s2 s3 a1 a2 a3 a4 a5 a6 = j2o_d2_N3_r0_2 c c3 fn s0 s1 s2 s3 0 0 a1 a2 a3 a4 a5 a6 ∧
    j2o_d2_N2_r0_3 c c3 fn s0 s1 s2 s3 a1 a2 a3 a4 a5 a6 = j2o_d2_N3_r0_3 c c3 fn s0 s1 s2 s3 0 0 a1 a2 a3 a4 a5 a6 ∧
    j2o_d2_N2_r1_0 c c3 fn s0 s1 s2 s3 a1 a2 a3 a4 a5 a6 = j2o_d2_N3_r1_0 c c3 fn s0 s1 s2 s3 0 0 a1 a2 a3 a4 a5 a6 ∧
    j2o_d2_N2_r1_1 c c3 fn s0 s1 s2 s3 a1 a2 a3 a4 a5 a6 = j2o_d2_N3_r1_1 c c3 fn s0 s1 s2 s3 0 0 a1 a2 a3 a4 a5 a6 ∧
    j2o_d2_N2_r1_2 c c3 fn s0 s1 s2 s3 a1 a2 a3 a4 a5 a6 = j2o_d2_N3_r1_2 c c3 fn s0 s1 s2 s3 0 0 a1 a2 a3 a4 a5 a6 ∧
    j2o_d2_N2_r1_3 c c3 fn s0 s1 s2 s3 a1 a2 a3 a4 a5 a6 = j2o_d2_N3_r1_3 c c3 fn s0 s1 s2 s3 0 0 a1 a2 a3 a4 a5 a6 ∧
    j2o_d2_N2_r2_0 c c3 fn s0 s1 s2 s3 a1 a2 a3 a4 a5 a6 = j2o_d2_N3_r2_0 c c3 fn s0 s1 s2 s3 0 0 a1 a2 a3 a4 a5 a6 ∧
    j2o_d2_N2_r2_1 c c3 fn s0 s1 s2 s3 a1 a2 a3 a4 a5 a6 = j2o_d2_N3_r2_1 c c3 fn s0 s1 s2 s3 0 0 a1 a2 a3 a4 a5 a6 ∧
    j2o_d2_N2_r2_2 c c3 fn s0 s1 s2 s3 a1 a2 a3 a4 a5 a6 = j2o_d2_N3_r2_2 c c3 fn s0 s1 s2 s3 0 0 a1 a2 a3 a4 a5 a6 ∧
    j2o_d2_N2_r2_3 c c3 fn s0 s1 s2 s3 a1 a2 a3 a4 a5 a6 = j2o_d2_N3_r2_3 c c3 fn s0 s1 s2 s3 0 0 a1 a2 a3 a4 a5 a6 ∧
    j2o_d2_N2_r3_0 c c3 fn s0 s1 s2 s3 a1 a2 a3 a4 a5 a6 = j2o_d2_N3_r3_0 c c3 fn s0 s1 s2 s3 0 0 a1 a2 a3 a4 a5 a6 ∧
    j2o_d2_N2_r3_1 c c3 fn s0 s1 s2 s3 a1 a2 a3 a4 a5 a6 = j2o_d2_N3_r3_1 c c3 fn s0 s1 s2 s3 0 0 a1 a2 a3 a4 a5 a6 ∧
    j2o_d2_N2_r3_2 c c3 fn s0 s1 s2 s3 a1 a2 a3 a4 a5 a6 = j2o_d2_N3_r3_2 c c3 fn s0 s1 s2 s3 0 0 a1 a2 a3 a4 a5 a6 ∧
    j2o_d2_N2_r3_3 c c3 fn s0 s1 s2 s3 a1 a2 a3 a4 a5 a6 = j2o_d2_N3_r3_3 c c3 fn s0 s1 s2 s3 0 0 a1 a2 a3 a4 a5 a6 := by
  axes_eq

theorem j3o_N1_is_3D (s0 s1 s2 b1 b2 b3 b4 b5 b6 b7 b8 b9 b10 b11 : K) :
    j3o_N1_r c c3 fn s0 s1 s2 b1 b2 b3 b4 b5 b6 b7 b8 b9 b10 b11 = j3o_N3_r c c3 fn s0 s1 s2 0 0 0 b1 b2 b3 b4 b5 b6 b7 b8 b9 b10 b11 := by
  axes_eq

/-- first derivative: same in-plane components, and the 3D out-of-plane components vanish -/
theorem j3o_d_N1_is_3D (s0 s1 s2 b1 b2 b3 b4 b5 b6 b7 b8 b9 b10 b11 : K) :
    j3o_d_N1_r0 c c3 fn s0 s1 s2 b1 b2 b3 b4 b5 b6 b7 b8 b9 b10 b11 = j3o_d_N3_r0 c c3 fn s0 s1 s2 0 0 0 b1 b2 b3 b4 b5 b6 b7 b8 b9 b10 b11 ∧
    j3o_d_N1_r1 c c3 fn s0 s1 s2 b1 b2 b3 b4 b5 b6 b7 b8 b9 b10 b11 = j3o_d_N3_r1 c c3 fn s0 s1 s2 0 0 0 b1 b2 b3 b4 b5 b6 b7 b8 b9 b10 b11 ∧
    j3o_d_N1_r2 c c3 fn s0 s1 s2 b1 b2 b3 b4 b5 b6 b7 b8 b9 b10 b11 = j3o_d_N3_r2 c c3 fn s0 s1 s2 0 0 0 b1 b2 b3 b4 b5 b6 b7 b8 b9 b10 b11 ∧
    j3o_d_N3_r3 c c3 fn s0 s1 s2 0 0 0 b1 b2 b3 b4 b5 b6 b7 b8 b9 b10 b11 = 0 ∧
    j3o_d_N3_r4 c c3 fn s0 s1 s2 0 0 0 b1 b2 b3 b4 b5 b6 b7 b8 b9 b10 b11 = 0 ∧
    j3o_d_N3_r5 c c3 fn s0 s1 s2 0 0 0 b1 b2 b3 b4 b5 b6 b7 b8 b9 b10 b11 = 0 := by
  axes_eq

theorem j3o_d2_N1_is_3D (s0 s1 s2 b1 b2 b3 b4 b5 b6 b7 b8 b9 b10 b11 : K) :
    j3o_d2_N1_r0_0 c c3 fn s0 s1 s2 b1 b2 b3 b4 b5 b6 b7 b8 b9 b10 b11 = j3o_d2_N3_r0_0 c c3 fn s0 s1 s2 0 0 0 b1 b2 b3 b4 b5 b6 b7 b8 b9 b10 b11 ∧
    j3o_d2_N1_r0_1 c c3 fn s0 s1 s2 b1 b2 b3 b4 b5 b6 b7 b8 b9 b10 b11 = j3o_d2_N3_r0_1 c c3 fn s0 s1 s2 0 0 0 b1 b2 b3 b4 b5 b6 b7 b8 b9 b10 b11 ∧
    j3o_d2_N1_r0_2 c c3 fn s0 s1 s2 b1 b2 b3 b4 b5 b6 b7 b8 b9 b10 b11 = j3o_d2_N3_r0_2 c c3 fn s0 s1 s2 0 0 0 b1 b2 b3 b4 b5 b6 b7 b8 b9 b10 b11 ∧
    j3o_d2_N1_r1_0 c c3 fn s0 s1 s2 b1 b2 b3 b4 b5 b6 b7 b8 b9 b10 b11 = j3o_d2_N3_r1_0 c c3 fn s0 s1 s2 0 0 0 b1 b2 b3 b4 b5 b6 b7 b8 b9 b10 b11 ∧
    j3o_d2_N1_r1_1 c c3 fn s0 s1 s2 b1 b2 b3 b4 b5 b6 b7 b8 b9 b10 b11 = j3o_d2_N3_r1_1 c c3 fn s0 s1 s2 0 0 0 b1 b2 b3 b4 b5 b6 b7 b8 b9 b10 b11 ∧
    j3o_d2_N1_r1_2 c c3 fn s0 s1 s2 b1 b2 b3 b4 b5 b6 b7 b8 b9 b10 b11 = j3o_d2_N3_r1_2 c c3 fn s0 s1 s2 0 0 0 b1 b2 b3 b4 b5 b6 b7 b8 b9 b10 b11 ∧
    j3o_d2_N1_r2_0 c c3 fn s0 s1 s2 b1 b2 b3 b4 b5 b6 b7 b8 b9 b10 b11 = j3o_d2_N3_r2_0 c c3 fn s0 s1 s2 0 0 0 b1 b2 b3 b4 b5 b6 b7 b8 b9 b10 b11 ∧
    j3o_d2_N1_r2_1 c c3 fn s0 s1 s2 b1 b2 b3 b4 b5 b6 b7 b8 b9 b10 b11 = j3o_d2_N3_r2_1 c c3 fn s0 s1 s2 0 0 0 b1 b2 b3 b4 b5 b6 b7 b8 b9 b10 b11 ∧
    j3o_d2_N1_r2_2 c c3 fn s0 s1 s2 b1 b2 b3 b4 b5 b6 b7 b8 b9 b10 b11 = j3o_d2_N3_r2_2 c c3 fn s0 s1 s2 0 0 0 b1 b2 b3 b4 b5 b6 b7 b8 b9 b10 b11 := by
  axes_eq

theorem j3o_N2_is_3D (s0 s1 s2 s3 b1 b2 b3 b4 b5 b6 b7 b8 b9 b10 b11 : K) :
    j3o_N2_r c c3 fn s0 s1 s2 s3 b1 b2 b3 b4 b5 b6 b7 b8 b9 b10 b11 = j3o_N3_r c c3 fn s0 s1 s2 s3 0 0 b1 b2 b3 b4 b5 b6 b7 b8 b9 b10 b11 := by
  axes_eq

/-- first derivative: same in-plane components, and the 3D out-of-plane components vanish -/
theorem j3o_d_N2_is_3D (s0 s1 s2 s3 b1 b2 b3 b4 b5 b6 b7 b8 b9 b10 b11 : K) :
    j3o_d_N2_r0 c c3 fn s0 s1 s2 s3 b1 b2 b3 b4 b5 b6 b7 b8 b9 b10 b11 = j3o_d_N3_r0 c c3 fn s0 s1 s2 s3 0 0 b1 b2 b3 b4 b5 b6 b7 b8 b9 b10 b11 ∧
    j3o_d_N2_r1 c c3 fn s0 s1 s2 s3 b1 b2 b3 b4 b5 b6 b7 b8 b9 b10 b11 = j3o_d_N3_r1 c c3 fn s0 s1 s2 s3 0 0 b1 b2 b3 b4 b5 b6 b7 b8 b9 b10 b11 ∧
    j3o_d_N2_r2 c c3 fn s0 s1 s2 s3 b1 b2 b3 b4 b5 b6 b7 b8 b9 b10 b11 = j3o_d_N3_r2 c c3 fn s0 s1 s2 s3 0 0 b1 b2 b3 b4 b5 b6 b7 b8 b9 b10 b11 ∧
    j3o_d_N2_r3 c c3 fn s0 s1 s2 s3 b1 b2 b3 b4 b5 b6 b7 b8 b9 b10 b11 = j3o_d_N3_r3 c c3 fn s0 s1 s2 s3 0 0 b1 b2 b3 b4 b5 b6 b7 b8 b9 b10 b11 ∧
    j3o_d_N3_r4 c c3 fn s0 s1 s2 s3 0 0 b1 b2 b3 b4 b5 b6 b7 b8 b9 b10 b11 = 0 ∧
    j3o_d_N3_r5 c c3 fn s0 s1 s2 s3 0 0 b1 b2 b3 b4 b5 b6 b7 b8 b9 b10 b11 = 0 := by
  axes_eq

theorem j3o_d2_N2_is_3D (s0 s1 s2 s3 b1 b2 b3 b4 b5 b6 b7 b8 b9 b10 b11 : K) :
    j3o_d2_N2_r0_0 c c3 fn s0 s1 s2 s3 b1 b2 b3 b4 b5 b6 b7 b8 b9 b10 b11 = j3o_d2_N3_r0_0 c c3 fn s0 s1 s2 s3 0 0 b1 b2 b3 b4 b5 b6 b7 b8 b9 b10 b11 ∧
    j3o_d2_N2_r0_1 c c3 fn s0 s1 s2 s3 b1 b2 b3 b4 b5 b6 b7 b8 b9 b10 b11 = j3o_d2_N3_r0_1 c c3 fn s0 s1 s2 s3 0 0 b1 b2 b3 b4 b5 b6 b7 b8 b9 b10 b11 ∧
    j3o_d2_N2_r0_2 c c3 fn s0 s1 s2 s3 b1 b2 b3 b4 b5 b6 b7 b8 b9 b10 b11 = j3o_d2_N3_r0_2 c c3 fn s0 s1 s2 s3 0 0 b1 b2 b3 b4 b5 b6 b7 b8 b9 b10 b11 ∧
    j3o_d2_N2_r0_3 c c3 fn s0 s1 s2 s3 b1 b2 b3 b4 b5 b6 b7 b8 b9 b10 b11 = j3o_d2_N3_r0_3 c c3 fn s0 s1 s2 s3 0 0 b1 b2 b3 b4 b5 b6 b7 b8 b9 b10 b11 ∧
    j3o_d2_N2_r1_0 c c3 fn s0 s1 s2 s3 b1 b2 b3 b4 b5 b6 b7 b8 b9 b10 b11 = j3o_d2_N3_r1_0 c c3 fn s0 s1 s2 s3 0 0 b1 b2 b3 b4 b5 b6 b7 b8 b9 b10 b11 ∧
    j3o_d2_N2_r1_1 c c3 fn s0 s1 s2 s3 b1 b2 b3 b4 b5 b6 b7 b8 b9 b10 b11 = j3o_d2_N3_r1_1 c c3 fn s0 s1 s2 s3 0 0 b1 b2 b3 b4 b5 b6 b7 b8 b9 b10 b11 ∧
    j3o_d2_N2_r1_2 c c3 fn s0 s1 s2 s3 b1 b2 b3 b4 b5 b6 b7 b8 b9 b10 b11 = j3o_d2_N3_r1_2 c c3 fn s0 s1 s2 s3 0 0 b1 b2 b3 b4 b5 b6 b7 b8 b9 b10 b11 ∧
    j3o_d2_N2_r1_3 c c3 fn s0 s1 s2 s3 b1 b2 b3 b4 b5 b6 b7 b8 b9 b10 b11 = j3o_d2_N3_r1_3 c c3 fn s0 s1 s2 s3 0 0 b1 b2 b3 b4 b5 b6 b7 b8 b9 b10 b11 ∧
    j3o_d2_N2_r2_0 c c3 fn s0 s1 s2 s3 b1 b2 b3 b4 b5 b6 b7 b8 b9 b10 b11 = j3o_d2_N3_r2_0 c c3 fn s0 s1 s2 s3 0 0 b1 b2 b3 b4 b5 b6 b7 b8 b9 b10 b11 ∧
    j3o_d2_N2_r2_1 c c3 fn s0 s1 s2 s3 b1 b2 b3 b4 b5 b6 b7 b8 b9 b10 b11 = j3o_d2_N3_r2_1 c c3 fn s0 s1 s2 s3 0 0 b1 b2 b3 b4 b5 b6 b7 b8 b9 b10 b11 ∧
    j3o_d2_N2_r2_2 c c3 fn s0 s1 s2 s3 b1 b2 b3 b4 b5 b6 b7 b8 b9 b10 b11 = j3o_d2_N3_r2_2 c c3 fn s0 s1 s2 s3 0 0 b1 b2 b3 b4 b5 b6 b7 b8 b9 b10 b11 ∧
    j3o_d2_N2_r2_3 c c3 fn s0 s1 s2 s3 b1 b2 b3 b4 b5 b6 b7 b8 b9 b10 b11 = j3o_d2_N3_r2_3 c c3 fn s0 s1 s2 s3 0 0 b1 b2 b3 b4 b5 b6 b7 b8 b9 b10 b11 ∧
    j3o_d2_N2_r3_0 c c3 fn s0 s1 s2 s3 b1 b2 b3 b4 b5 b6 b7 b8 b9 b10 b11 = j3o_d2_N3_r3_0 c c3 fn s0 s1 s2 s3 0 0 b1 b2 b3 b4 b5 b6 b7 b8 b9 b10 b11 ∧
    j3o_d2_N2_r3_1 c c3 fn s0 s1 s2 s3 b1 b2 b3 b4 b5 b6 b7 b8 b9 b10 b11 = j3o_d2_N3_r3_1 c c3 fn s0 s1 s2 s3 0 0 b1 b2 b3 b4 b5 b6 b7 b8 b9 b10 b11 ∧
    j3o_d2_N2_r3_2 c c3 fn s0 s1 s2 s3 b1 b2 b3 b4 b5 b6 b7 b8 b9 b10 b11 = j3o_d2_N3_r3_2 c c3 fn s0 s1 s2 s3 0 0 b1 b2 b3 b4 b5 b6 b7 b8 b9 b10 b11 ∧
    j3o_d2_N2_r3_3 c c3 fn s0 s1 s2 s3 b1 b2 b3 b4 b5 b6 b7 b8 b9 b10 b11 = j3o_d2_N3_r3_3 c c3 fn s0 s1 s2 s3 0 0 b1 b2 b3 b4 b5 b6 b7 b8 b9 b10 b11 := by
  axes_eq

end TfelVerif.C28.PropsPlasticity
