/- C28 (part 2) — orthotropic axes conventions and reduced hypotheses, on the definitions traced (T1) from the real
   templates by harness/C28/trace.cxx:  sfe_* = convertStressFreeExpansionStrain<H,C>, hill_* = computeHillTensor<H,C>,
   stiff_*_{U,A}_* = computeOrthotropicStiffnessTensor<H,{UNALTERED,ALTERED},C>, j2o*/j3o* = computeJ2O/computeJ3O and
   derivatives (OrthotropicPlasticity.ixx).  H: AGPE, AGPS (1D axisymmetrical generalised plane strain / stress), AXI, PS, PE,
   GPE (2D), TRI (3D).

   Storage (Mandel): index 0,1,2 = 11,22,33; 3 = 12; 4 = 13; 5 = 23. Documented conventions
   (OrthotropicAxesConvention.hxx): material properties are always given in the 3D material frame;
   PIPE: in plane stress / plane strain / generalised plane strain the second and third material axes are exchanged
   with respect to 3D (so reduced index 1 <-> 3D index 2, reduced 12 <-> 3D 13); identical axes in 1D, axisymmetrical, 3D;
   PLATE and DEFAULT: identical axes everywhere.
   Every theorem: the reduced-hypothesis object is, component by component, the 3D object read through that
   permutation — for all material coefficients (file generated once by harness/C28/genprops.py, then fixed). -/
import TfelVerif.C28.Lemmas
import TfelVerif.C28.Gen

namespace TfelVerif.C28.PropsStiffUDefault
open TfelVerif TfelVerif.C28 TfelVerif.C28.Gen
set_option linter.unusedVariables false
set_option linter.unusedSectionVars false

variable {K : Type} [Field K] (c c3 : K) (fn : Fns K)

/-! ## orthotropic stiffness tensors, UNALTERED, DEFAULT convention -/

/-- AxisymmetricalGeneralisedPlaneStrain, UNALTERED, DEFAULT: component (i,j) = component (π i, π j) of the 3D stiffness tensor, π = [0, 1, 2] -/
theorem stiff_AGPE_U_DEFAULT (E1 E2 E3 nu12 nu23 nu13 G12 G23 G13 : K) :
    stiff_AGPE_U_DEFAULT_r0_0 c c3 fn E1 E2 E3 nu12 nu23 nu13 G12 G23 G13 = stiff_TRI_U_DEFAULT_r0_0 c c3 fn E1 E2 E3 nu12 nu23 nu13 G12 G23 G13 ∧
    stiff_AGPE_U_DEFAULT_r0_1 c c3 fn E1 E2 E3 nu12 nu23 nu13 G12 G23 G13 = stiff_TRI_U_DEFAULT_r0_1 c c3 fn E1 E2 E3 nu12 nu23 nu13 G12 G23 G13 ∧
    stiff_AGPE_U_DEFAULT_r0_2 c c3 fn E1 E2 E3 nu12 nu23 nu13 G12 G23 G13 = stiff_TRI_U_DEFAULT_r0_2 c c3 fn E1 E2 E3 nu12 nu23 nu13 G12 G23 G13 ∧
    stiff_AGPE_U_DEFAULT_r1_0 c c3 fn E1 E2 E3 nu12 nu23 nu13 G12 G23 G13 = stiff_TRI_U_DEFAULT_r1_0 c c3 fn E1 E2 E3 nu12 nu23 nu13 G12 G23 G13 ∧
    stiff_AGPE_U_DEFAULT_r1_1 c c3 fn E1 E2 E3 nu12 nu23 nu13 G12 G23 G13 = stiff_TRI_U_DEFAULT_r1_1 c c3 fn E1 E2 E3 nu12 nu23 nu13 G12 G23 G13 ∧
    stiff_AGPE_U_DEFAULT_r1_2 c c3 fn E1 E2 E3 nu12 nu23 nu13 G12 G23 G13 = stiff_TRI_U_DEFAULT_r1_2 c c3 fn E1 E2 E3 nu12 nu23 nu13 G12 G23 G13 ∧
    stiff_AGPE_U_DEFAULT_r2_0 c c3 fn E1 E2 E3 nu12 nu23 nu13 G12 G23 G13 = stiff_TRI_U_DEFAULT_r2_0 c c3 fn E1 E2 E3 nu12 nu23 nu13 G12 G23 G13 ∧
    stiff_AGPE_U_DEFAULT_r2_1 c c3 fn E1 E2 E3 nu12 nu23 nu13 G12 G23 G13 = stiff_TRI_U_DEFAULT_r2_1 c c3 fn E1 E2 E3 nu12 nu23 nu13 G12 G23 G13 ∧
    stiff_AGPE_U_DEFAULT_r2_2 c c3 fn E1 E2 E3 nu12 nu23 nu13 G12 G23 G13 = stiff_TRI_U_DEFAULT_r2_2 c c3 fn E1 E2 E3 nu12 nu23 nu13 G12 G23 G13 := by
  axes_eq

/-- AxisymmetricalGeneralisedPlaneStress, UNALTERED, DEFAULT: component (i,j) = component (π i, π j) of the 3D stiffness tensor, π = [0, 1, 2] -/
theorem stiff_AGPS_U_DEFAULT (E1 E2 E3 nu12 nu23 nu13 G12 G23 G13 : K) :
    stiff_AGPS_U_DEFAULT_r0_0 c c3 fn E1 E2 E3 nu12 nu23 nu13 G12 G23 G13 = stiff_TRI_U_DEFAULT_r0_0 c c3 fn E1 E2 E3 nu12 nu23 nu13 G12 G23 G13 ∧
    stiff_AGPS_U_DEFAULT_r0_1 c c3 fn E1 E2 E3 nu12 nu23 nu13 G12 G23 G13 = stiff_TRI_U_DEFAULT_r0_1 c c3 fn E1 E2 E3 nu12 nu23 nu13 G12 G23 G13 ∧
    stiff_AGPS_U_DEFAULT_r0_2 c c3 fn E1 E2 E3 nu12 nu23 nu13 G12 G23 G13 = stiff_TRI_U_DEFAULT_r0_2 c c3 fn E1 E2 E3 nu12 nu23 nu13 G12 G23 G13 ∧
    stiff_AGPS_U_DEFAULT_r1_0 c c3 fn E1 E2 E3 nu12 nu23 nu13 G12 G23 G13 = stiff_TRI_U_DEFAULT_r1_0 c c3 fn E1 E2 E3 nu12 nu23 nu13 G12 G23 G13 ∧
    stiff_AGPS_U_DEFAULT_r1_1 c c3 fn E1 E2 E3 nu12 nu23 nu13 G12 G23 G13 = stiff_TRI_U_DEFAULT_r1_1 c c3 fn E1 E2 E3 nu12 nu23 nu13 G12 G23 G13 ∧
    stiff_AGPS_U_DEFAULT_r1_2 c c3 fn E1 E2 E3 nu12 nu23 nu13 G12 G23 G13 = stiff_TRI_U_DEFAULT_r1_2 c c3 fn E1 E2 E3 nu12 nu23 nu13 G12 G23 G13 ∧
    stiff_AGPS_U_DEFAULT_r2_0 c c3 fn E1 E2 E3 nu12 nu23 nu13 G12 G23 G13 = stiff_TRI_U_DEFAULT_r2_0 c c3 fn E1 E2 E3 nu12 nu23 nu13 G12 G23 G13 ∧
    stiff_AGPS_U_DEFAULT_r2_1 c c3 fn E1 E2 E3 nu12 nu23 nu13 G12 G23 G13 = stiff_TRI_U_DEFAULT_r2_1 c c3 fn E1 E2 E3 nu12 nu23 nu13 G12 G23 G13 ∧
    stiff_AGPS_U_DEFAULT_r2_2 c c3 fn E1 E2 E3 nu12 nu23 nu13 G12 G23 G13 = stiff_TRI_U_DEFAULT_r2_2 c c3 fn E1 E2 E3 nu12 nu23 nu13 G12 G23 G13 := by
  axes_eq

/-- Axisymmetrical, UNALTERED, DEFAULT: component (i,j) = component (π i, π j) of the 3D stiffness tensor, π = [0, 1, 2, 3] -/
theorem stiff_AXI_U_DEFAULT (E1 E2 E3 nu12 nu23 nu13 G12 G23 G13 : K) :
    stiff_AXI_U_DEFAULT_r0_0 c c3 fn E1 E2 E3 nu12 nu23 nu13 G12 G23 G13 = stiff_TRI_U_DEFAULT_r0_0 c c3 fn E1 E2 E3 nu12 nu23 nu13 G12 G23 G13 ∧
    stiff_AXI_U_DEFAULT_r0_1 c c3 fn E1 E2 E3 nu12 nu23 nu13 G12 G23 G13 = stiff_TRI_U_DEFAULT_r0_1 c c3 fn E1 E2 E3 nu12 nu23 nu13 G12 G23 G13 ∧
    stiff_AXI_U_DEFAULT_r0_2 c c3 fn E1 E2 E3 nu12 nu23 nu13 G12 G23 G13 = stiff_TRI_U_DEFAULT_r0_2 c c3 fn E1 E2 E3 nu12 nu23 nu13 G12 G23 G13 ∧
    stiff_AXI_U_DEFAULT_r0_3 c c3 fn E1 E2 E3 nu12 nu23 nu13 G12 G23 G13 = stiff_TRI_U_DEFAULT_r0_3 c c3 fn E1 E2 E3 nu12 nu23 nu13 G12 G23 G13 ∧
    stiff_AXI_U_DEFAULT_r1_0 c c3 fn E1 E2 E3 nu12 nu23 nu13 G12 G23 G13 = stiff_TRI_U_DEFAULT_r1_0 c c3 fn E1 E2 E3 nu12 nu23 nu13 G12 G23 G13 ∧
    stiff_AXI_U_DEFAULT_r1_1 c c3 fn E1 E2 E3 nu12 nu23 nu13 G12 G23 G13 = stiff_TRI_U_DEFAULT_r1_1 c c3 fn E1 E2 E3 nu12 nu23 nu13 G12 G23 G13 ∧
    stiff_AXI_U_DEFAULT_r1_2 c c3 fn E1 E2 E3 nu12 nu23 nu13 G12 G23 G13 = stiff_TRI_U_DEFAULT_r1_2 c c3 fn E1 E2 E3 nu12 nu23 nu13 G12 G23 G13 ∧
    stiff_AXI_U_DEFAULT_r1_3 c c3 fn E1 E2 E3 nu12 nu23 nu13 G12 G23 G13 = stiff_TRI_U_DEFAULT_r1_3 c c3 fn E1 E2 E3 nu12 nu23 nu13 G12 G23 G13 ∧
    stiff_AXI_U_DEFAULT_r2_0 c c3 fn E1 E2 E3 nu12 nu23 nu13 G12 G23 G13 = stiff_TRI_U_DEFAULT_r2_0 c c3 fn E1 E2 E3 nu12 nu23 nu13 G12 G23 G13 ∧
    stiff_AXI_U_DEFAULT_r2_1 c c3 fn E1 E2 E3 nu12 nu23 nu13 G12 G23 G13 = stiff_TRI_U_DEFAULT_r2_1 c c3 fn E1 E2 E3 nu12 nu23 nu13 G12 G23 G13 ∧
    stiff_AXI_U_DEFAULT_r2_2 c c3 fn E1 E2 E3 nu12 nu23 nu13 G12 G23 G13 = stiff_TRI_U_DEFAULT_r2_2 c c3 fn E1 E2 E3 nu12 nu23 nu13 G12 G23 G13 ∧
    stiff_AXI_U_DEFAULT_r2_3 c c3 fn E1 E2 E3 nu12 nu23 nu13 G12 G23 G13 = stiff_TRI_U_DEFAULT_r2_3 c c3 fn E1 E2 E3 nu12 nu23 nu13 G12 G23 G13 ∧
    stiff_AXI_U_DEFAULT_r3_0 c c3 fn E1 E2 E3 nu12 nu23 nu13 G12 G23 G13 = stiff_TRI_U_DEFAULT_r3_0 c c3 fn E1 E2 E3 nu12 nu23 nu13 G12 G23 G13 ∧
    stiff_AXI_U_DEFAULT_r3_1 c c3 fn E1 E2 E3 nu12 nu23 nu13 G12 G23 G13 = stiff_TRI_U_DEFAULT_r3_1 c c3 fn E1 E2 E3 nu12 nu23 nu13 G12 G23 G13 ∧
    stiff_AXI_U_DEFAULT_r3_2 c c3 fn E1 E2 E3 nu12 nu23 nu13 G12 G23 G13 = stiff_TRI_U_DEFAULT_r3_2 c c3 fn E1 E2 E3 nu12 nu23 nu13 G12 G23 G13 ∧
    stiff_AXI_U_DEFAULT_r3_3 c c3 fn E1 E2 E3 nu12 nu23 nu13 G12 G23 G13 = stiff_TRI_U_DEFAULT_r3_3 c c3 fn E1 E2 E3 nu12 nu23 nu13 G12 G23 G13 := by
  axes_eq

/-- PlaneStress, UNALTERED, DEFAULT: component (i,j) = component (π i, π j) of the 3D stiffness tensor, π = [0, 1, 2, 3] -/
theorem stiff_PS_U_DEFAULT (E1 E2 E3 nu12 nu23 nu13 G12 G23 G13 : K) :
    stiff_PS_U_DEFAULT_r0_0 c c3 fn E1 E2 E3 nu12 nu23 nu13 G12 G23 G13 = stiff_TRI_U_DEFAULT_r0_0 c c3 fn E1 E2 E3 nu12 nu23 nu13 G12 G23 G13 ∧
    stiff_PS_U_DEFAULT_r0_1 c c3 fn E1 E2 E3 nu12 nu23 nu13 G12 G23 G13 = stiff_TRI_U_DEFAULT_r0_1 c c3 fn E1 E2 E3 nu12 nu23 nu13 G12 G23 G13 ∧
    stiff_PS_U_DEFAULT_r0_2 c c3 fn E1 E2 E3 nu12 nu23 nu13 G12 G23 G13 = stiff_TRI_U_DEFAULT_r0_2 c c3 fn E1 E2 E3 nu12 nu23 nu13 G12 G23 G13 ∧
    stiff_PS_U_DEFAULT_r0_3 c c3 fn E1 E2 E3 nu12 nu23 nu13 G12 G23 G13 = stiff_TRI_U_DEFAULT_r0_3 c c3 fn E1 E2 E3 nu12 nu23 nu13 G12 G23 G13 ∧
    stiff_PS_U_DEFAULT_r1_0 c c3 fn E1 E2 E3 nu12 nu23 nu13 G12 G23 G13 = stiff_TRI_U_DEFAULT_r1_0 c c3 fn E1 E2 E3 nu12 nu23 nu13 G12 G23 G13 ∧
    stiff_PS_U_DEFAULT_r1_1 c c3 fn E1 E2 E3 nu12 nu23 nu13 G12 G23 G13 = stiff_TRI_U_DEFAULT_r1_1 c c3 fn E1 E2 E3 nu12 nu23 nu13 G12 G23 G13 ∧
    stiff_PS_U_DEFAULT_r1_2 c c3 fn E1 E2 E3 nu12 nu23 nu13 G12 G23 G13 = stiff_TRI_U_DEFAULT_r1_2 c c3 fn E1 E2 E3 nu12 nu23 nu13 G12 G23 G13 ∧
    stiff_PS_U_DEFAULT_r1_3 c c3 fn E1 E2 E3 nu12 nu23 nu13 G12 G23 G13 = stiff_TRI_U_DEFAULT_r1_3 c c3 fn E1 E2 E3 nu12 nu23 nu13 G12 G23 G13 ∧
    stiff_PS_U_DEFAULT_r2_0 c c3 fn E1 E2 E3 nu12 nu23 nu13 G12 G23 G13 = stiff_TRI_U_DEFAULT_r2_0 c c3 fn E1 E2 E3 nu12 nu23 nu13 G12 G23 G13 ∧
    stiff_PS_U_DEFAULT_r2_1 c c3 fn E1 E2 E3 nu12 nu23 nu13 G12 G23 G13 = stiff_TRI_U_DEFAULT_r2_1 c c3 fn E1 E2 E3 nu12 nu23 nu13 G12 G23 G13 ∧
    stiff_PS_U_DEFAULT_r2_2 c c3 fn E1 E2 E3 nu12 nu23 nu13 G12 G23 G13 = stiff_TRI_U_DEFAULT_r2_2 c c3 fn E1 E2 E3 nu12 nu23 nu13 G12 G23 G13 ∧
    stiff_PS_U_DEFAULT_r2_3 c c3 fn E1 E2 E3 nu12 nu23 nu13 G12 G23 G13 = stiff_TRI_U_DEFAULT_r2_3 c c3 fn E1 E2 E3 nu12 nu23 nu13 G12 G23 G13 ∧
    stiff_PS_U_DEFAULT_r3_0 c c3 fn E1 E2 E3 nu12 nu23 nu13 G12 G23 G13 = stiff_TRI_U_DEFAULT_r3_0 c c3 fn E1 E2 E3 nu12 nu23 nu13 G12 G23 G13 ∧
    stiff_PS_U_DEFAULT_r3_1 c c3 fn E1 E2 E3 nu12 nu23 nu13 G12 G23 G13 = stiff_TRI_U_DEFAULT_r3_1 c c3 fn E1 E2 E3 nu12 nu23 nu13 G12 G23 G13 ∧
    stiff_PS_U_DEFAULT_r3_2 c c3 fn E1 E2 E3 nu12 nu23 nu13 G12 G23 G13 = stiff_TRI_U_DEFAULT_r3_2 c c3 fn E1 E2 E3 nu12 nu23 nu13 G12 G23 G13 ∧
    stiff_PS_U_DEFAULT_r3_3 c c3 fn E1 E2 E3 nu12 nu23 nu13 G12 G23 G13 = stiff_TRI_U_DEFAULT_r3_3 c c3 fn E1 E2 E3 nu12 nu23 nu13 G12 G23 G13 := by
  axes_eq

/-- PlaneStrain, UNALTERED, DEFAULT: component (i,j) = component (π i, π j) of the 3D stiffness tensor, π = [0, 1, 2, 3] -/
theorem stiff_PE_U_DEFAULT (E1 E2 E3 nu12 nu23 nu13 G12 G23 G13 : K) :
    stiff_PE_U_DEFAULT_r0_0 c c3 fn E1 E2 E3 nu12 nu23 nu13 G12 G23 G13 = stiff_TRI_U_DEFAULT_r0_0 c c3 fn E1 E2 E3 nu12 nu23 nu13 G12 G23 G13 ∧
    stiff_PE_U_DEFAULT_r0_1 c c3 fn E1 E2 E3 nu12 nu23 nu13 G12 G23 G13 = stiff_TRI_U_DEFAULT_r0_1 c c3 fn E1 E2 E3 nu12 nu23 nu13 G12 G23 G13 ∧
    stiff_PE_U_DEFAULT_r0_2 c c3 fn E1 E2 E3 nu12 nu23 nu13 G12 G23 G13 = stiff_TRI_U_DEFAULT_r0_2 c c3 fn E1 E2 E3 nu12 nu23 nu13 G12 G23 G13 ∧
    stiff_PE_U_DEFAULT_r0_3 c c3 fn E1 E2 E3 nu12 nu23 nu13 G12 G23 G13 = stiff_TRI_U_DEFAULT_r0_3 c c3 fn E1 E2 E3 nu12 nu23 nu13 G12 G23 G13 ∧
    stiff_PE_U_DEFAULT_r1_0 c c3 fn E1 E2 E3 nu12 nu23 nu13 G12 G23 G13 = stiff_TRI_U_DEFAULT_r1_0 c c3 fn E1 E2 E3 nu12 nu23 nu13 G12 G23 G13 ∧
    stiff_PE_U_DEFAULT_r1_1 c c3 fn E1 E2 E3 nu12 nu23 nu13 G12 G23 G13 = stiff_TRI_U_DEFAULT_r1_1 c c3 fn E1 E2 E3 nu12 nu23 nu13 G12 G23 G13 ∧
    stiff_PE_U_DEFAULT_r1_2 c c3 fn E1 E2 E3 nu12 nu23 nu13 G12 G23 G13 = stiff_TRI_U_DEFAULT_r1_2 c c3 fn E1 E2 E3 nu12 nu23 nu13 G12 G23 G13 ∧
    stiff_PE_U_DEFAULT_r1_3 c c3 fn E1 E2 E3 nu12 nu23 nu13 G12 G23 G13 = stiff_TRI_U_DEFAULT_r1_3 c c3 fn E1 E2 E3 nu12 nu23 nu13 G12 G23 G13 ∧
    stiff_PE_U_DEFAULT_r2_0 c c3 fn E1 E2 E3 nu12 nu23 nu13 G12 G23 G13 = stiff_TRI_U_DEFAULT_r2_0 c c3 fn E1 E2 E3 nu12 nu23 nu13 G12 G23 G13 ∧
    stiff_PE_U_DEFAULT_r2_1 c c3 fn E1 E2 E3 nu12 nu23 nu13 G12 G23 G13 = stiff_TRI_U_DEFAULT_r2_1 c c3 fn E1 E2 E3 nu12 nu23 nu13 G12 G23 G13 ∧
    stiff_PE_U_DEFAULT_r2_2 c c3 fn E1 E2 E3 nu12 nu23 nu13 G12 G23 G13 = stiff_TRI_U_DEFAULT_r2_2 c c3 fn E1 E2 E3 nu12 nu23 nu13 G12 G23 G13 ∧
    stiff_PE_U_DEFAULT_r2_3 c c3 fn E1 E2 E3 nu12 nu23 nu13 G12 G23 G13 = stiff_TRI_U_DEFAULT_r2_3 c c3 fn E1 E2 E3 nu12 nu23 nu13 G12 G23 G13 ∧
    stiff_PE_U_DEFAULT_r3_0 c c3 fn E1 E2 E3 nu12 nu23 nu13 G12 G23 G13 = stiff_TRI_U_DEFAULT_r3_0 c c3 fn E1 E2 E3 nu12 nu23 nu13 G12 G23 G13 ∧
    stiff_PE_U_DEFAULT_r3_1 c c3 fn E1 E2 E3 nu12 nu23 nu13 G12 G23 G13 = stiff_TRI_U_DEFAULT_r3_1 c c3 fn E1 E2 E3 nu12 nu23 nu13 G12 G23 G13 ∧
    stiff_PE_U_DEFAULT_r3_2 c c3 fn E1 E2 E3 nu12 nu23 nu13 G12 G23 G13 = stiff_TRI_U_DEFAULT_r3_2 c c3 fn E1 E2 E3 nu12 nu23 nu13 G12 G23 G13 ∧
    stiff_PE_U_DEFAULT_r3_3 c c3 fn E1 E2 E3 nu12 nu23 nu13 G12 G23 G13 = stiff_TRI_U_DEFAULT_r3_3 c c3 fn E1 E2 E3 nu12 nu23 nu13 G12 G23 G13 := by
  axes_eq

/-- GeneralisedPlaneStrain, UNALTERED, DEFAULT: component (i,j) = component (π i, π j) of the 3D stiffness tensor, π = [0, 1, 2, 3] -/
theorem stiff_GPE_U_DEFAULT (E1 E2 E3 nu12 nu23 nu13 G12 G23 G13 : K) :
    stiff_GPE_U_DEFAULT_r0_0 c c3 fn E1 E2 E3 nu12 nu23 nu13 G12 G23 G13 = stiff_TRI_U_DEFAULT_r0_0 c c3 fn E1 E2 E3 nu12 nu23 nu13 G12 G23 G13 ∧
    stiff_GPE_U_DEFAULT_r0_1 c c3 fn E1 E2 E3 nu12 nu23 nu13 G12 G23 G13 = stiff_TRI_U_DEFAULT_r0_1 c c3 fn E1 E2 E3 nu12 nu23 nu13 G12 G23 G13 ∧
    stiff_GPE_U_DEFAULT_r0_2 c c3 fn E1 E2 E3 nu12 nu23 nu13 G12 G23 G13 = stiff_TRI_U_DEFAULT_r0_2 c c3 fn E1 E2 E3 nu12 nu23 nu13 G12 G23 G13 ∧
    stiff_GPE_U_DEFAULT_r0_3 c c3 fn E1 E2 E3 nu12 nu23 nu13 G12 G23 G13 = stiff_TRI_U_DEFAULT_r0_3 c c3 fn E1 E2 E3 nu12 nu23 nu13 G12 G23 G13 ∧
    stiff_GPE_U_DEFAULT_r1_0 c c3 fn E1 E2 E3 nu12 nu23 nu13 G12 G23 G13 = stiff_TRI_U_DEFAULT_r1_0 c c3 fn E1 E2 E3 nu12 nu23 nu13 G12 G23 G13 ∧
    stiff_GPE_U_DEFAULT_r1_1 c c3 fn E1 E2 E3 nu12 nu23 nu13 G12 G23 G13 = stiff_TRI_U_DEFAULT_r1_1 c c3 fn E1 E2 E3 nu12 nu23 nu13 G12 G23 G13 ∧
    stiff_GPE_U_DEFAULT_r1_2 c c3 fn E1 E2 E3 nu12 nu23 nu13 G12 G23 G13 = stiff_TRI_U_DEFAULT_r1_2 c c3 fn E1 E2 E3 nu12 nu23 nu13 G12 G23 G13 ∧
    stiff_GPE_U_DEFAULT_r1_3 c c3 fn E1 E2 E3 nu12 nu23 nu13 G12 G23 G13 = stiff_TRI_U_DEFAULT_r1_3 c c3 fn E1 E2 E3 nu12 nu23 nu13 G12 G23 G13 ∧
    stiff_GPE_U_DEFAULT_r2_0 c c3 fn E1 E2 E3 nu12 nu23 nu13 G12 G23 G13 = stiff_TRI_U_DEFAULT_r2_0 c c3 fn E1 E2 E3 nu12 nu23 nu13 G12 G23 G13 ∧
    stiff_GPE_U_DEFAULT_r2_1 c c3 fn E1 E2 E3 nu12 nu23 nu13 G12 G23 G13 = stiff_TRI_U_DEFAULT_r2_1 c c3 fn E1 E2 E3 nu12 nu23 nu13 G12 G23 G13 ∧
    stiff_GPE_U_DEFAULT_r2_2 c c3 fn E1 E2 E3 nu12 nu23 nu13 G12 G23 G13 = stiff_TRI_U_DEFAULT_r2_2 c c3 fn E1 E2 E3 nu12 nu23 nu13 G12 G23 G13 ∧
    stiff_GPE_U_DEFAULT_r2_3 c c3 fn E1 E2 E3 nu12 nu23 nu13 G12 G23 G13 = stiff_TRI_U_DEFAULT_r2_3 c c3 fn E1 E2 E3 nu12 nu23 nu13 G12 G23 G13 ∧
    stiff_GPE_U_DEFAULT_r3_0 c c3 fn E1 E2 E3 nu12 nu23 nu13 G12 G23 G13 = stiff_TRI_U_DEFAULT_r3_0 c c3 fn E1 E2 E3 nu12 nu23 nu13 G12 G23 G13 ∧
    stiff_GPE_U_DEFAULT_r3_1 c c3 fn E1 E2 E3 nu12 nu23 nu13 G12 G23 G13 = stiff_TRI_U_DEFAULT_r3_1 c c3 fn E1 E2 E3 nu12 nu23 nu13 G12 G23 G13 ∧
    stiff_GPE_U_DEFAULT_r3_2 c c3 fn E1 E2 E3 nu12 nu23 nu13 G12 G23 G13 = stiff_TRI_U_DEFAULT_r3_2 c c3 fn E1 E2 E3 nu12 nu23 nu13 G12 G23 G13 ∧
    stiff_GPE_U_DEFAULT_r3_3 c c3 fn E1 E2 E3 nu12 nu23 nu13 G12 G23 G13 = stiff_TRI_U_DEFAULT_r3_3 c c3 fn E1 E2 E3 nu12 nu23 nu13 G12 G23 G13 := by
  axes_eq

end TfelVerif.C28.PropsStiffUDefault
