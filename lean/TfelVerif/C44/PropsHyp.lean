/-
  C44/PropsHyp.lean — the isotropic elastic behaviour generated from harness/C41/VerifElasticity.mfront (units
  `E_<H>`, the generic-interface entry points executed with `mfront_gb_real = Sym`, see C41/PropsE.lean) gives the
  same response in every modelling hypothesis in which a loading is representable, and is objective.

  `E_<H>_agrees_3D` : a 3D loading without out-of-plane shear (storage components 4, 5 zero) and the loading of the
        reduced hypothesis H with the same first components give the same first stress components, the remaining 3D
        ones vanish (H = AXIS, PSTRAIN, GPSTRAIN: 4 components; AGPSTRAIN: 3 components, in-plane shear zero too);
  `E_PSTRESS_agrees_3D` : plane stress returns `σ_zz = 0` and the in-plane stresses of the 3D behaviour loaded with
        the same in-plane strain and the axial strain that makes the 3D `σ_zz` vanish;
  `E_3D_objective` : rotating the 3D loading (`Rᵀ A R`, what rotateGradients computes) rotates the response, for `R`
        orthogonal.
  Property theorems only.
-/
import TfelVerif.C44.GenE
import TfelVerif.C41.Spec
import TfelVerif.Common.M3
import TfelVerif.Common.Mandel
import Mathlib.LinearAlgebra.Matrix.Trace
import Mathlib.Tactic.FieldSimp
import Mathlib.Tactic.Ring
import Mathlib.Tactic.LinearCombination

namespace TfelVerif.C44
open TfelVerif TfelVerif.C41 TfelVerif.C44.GenE
set_option linter.unusedVariables false
set_option linter.unusedSectionVars false

variable {K : Type} [Field K] (c c3 : K) (fn : Fns K)

theorem E_AXIS_agrees_3D (i : E_3D_In K) (j : E_AXIS_In K) (hE : j.young = i.young) (hn : j.nu = i.nu)
    (h0 : j.eto0 = i.eto0) (h1 : j.eto1 = i.eto1) (h2 : j.eto2 = i.eto2) (h3 : j.eto3 = i.eto3)
    (d0 : j.deto0 = i.deto0) (d1 : j.deto1 = i.deto1) (d2 : j.deto2 = i.deto2) (d3 : j.deto3 = i.deto3)
    (z4 : i.eto4 = 0) (z5 : i.eto5 = 0) (w4 : i.deto4 = 0) (w5 : i.deto5 = 0) :
    E_3D_sig_list c c3 fn i = E_AXIS_sig_list c c3 fn j ++ [0, 0] := by
  simp only [gen_simp, hE, hn, h0, h1, h2, h3, d0, d1, d2, d3, z4, z5, w4, w5, List.cons_append, List.nil_append, List.cons.injEq, and_true]
  repeat' apply And.intro
  all_goals (first | trivial | rfl | ring1)

theorem E_PSTRAIN_agrees_3D (i : E_3D_In K) (j : E_PSTRAIN_In K) (hE : j.young = i.young) (hn : j.nu = i.nu)
    (h0 : j.eto0 = i.eto0) (h1 : j.eto1 = i.eto1) (h2 : j.eto2 = i.eto2) (h3 : j.eto3 = i.eto3)
    (d0 : j.deto0 = i.deto0) (d1 : j.deto1 = i.deto1) (d2 : j.deto2 = i.deto2) (d3 : j.deto3 = i.deto3)
    (z4 : i.eto4 = 0) (z5 : i.eto5 = 0) (w4 : i.deto4 = 0) (w5 : i.deto5 = 0) :
    E_3D_sig_list c c3 fn i = E_PSTRAIN_sig_list c c3 fn j ++ [0, 0] := by
  simp only [gen_simp, hE, hn, h0, h1, h2, h3, d0, d1, d2, d3, z4, z5, w4, w5, List.cons_append, List.nil_append, List.cons.injEq, and_true]
  repeat' apply And.intro
  all_goals (first | trivial | rfl | ring1)

theorem E_GPSTRAIN_agrees_3D (i : E_3D_In K) (j : E_GPSTRAIN_In K) (hE : j.young = i.young) (hn : j.nu = i.nu)
    (h0 : j.eto0 = i.eto0) (h1 : j.eto1 = i.eto1) (h2 : j.eto2 = i.eto2) (h3 : j.eto3 = i.eto3)
    (d0 : j.deto0 = i.deto0) (d1 : j.deto1 = i.deto1) (d2 : j.deto2 = i.deto2) (d3 : j.deto3 = i.deto3)
    (z4 : i.eto4 = 0) (z5 : i.eto5 = 0) (w4 : i.deto4 = 0) (w5 : i.deto5 = 0) :
    E_3D_sig_list c c3 fn i = E_GPSTRAIN_sig_list c c3 fn j ++ [0, 0] := by
  simp only [gen_simp, hE, hn, h0, h1, h2, h3, d0, d1, d2, d3, z4, z5, w4, w5, List.cons_append, List.nil_append, List.cons.injEq, and_true]
  repeat' apply And.intro
  all_goals (first | trivial | rfl | ring1)

theorem E_AGPSTRAIN_agrees_3D (i : E_3D_In K) (j : E_AGPSTRAIN_In K) (hE : j.young = i.young) (hn : j.nu = i.nu)
    (h0 : j.eto0 = i.eto0) (h1 : j.eto1 = i.eto1) (h2 : j.eto2 = i.eto2)
    (d0 : j.deto0 = i.deto0) (d1 : j.deto1 = i.deto1) (d2 : j.deto2 = i.deto2)
    (z3 : i.eto3 = 0) (z4 : i.eto4 = 0) (z5 : i.eto5 = 0) (w3 : i.deto3 = 0) (w4 : i.deto4 = 0) (w5 : i.deto5 = 0) :
    E_3D_sig_list c c3 fn i = E_AGPSTRAIN_sig_list c c3 fn j ++ [0, 0, 0] := by
  simp only [gen_simp, hE, hn, h0, h1, h2, d0, d1, d2, z3, z4, z5, w3, w4, w5, List.cons_append, List.nil_append, List.cons.injEq, and_true]
  repeat' apply And.intro
  all_goals (first | trivial | rfl | ring1)

/-- plane stress against 3D: with the 3D axial strain chosen so that the 3D `σ_zz` vanishes -/
theorem E_PSTRESS_agrees_3D (i : E_3D_In K) (j : E_PSTRESS_In K) (hE : j.young = i.young) (hn : j.nu = i.nu)
    (h0 : j.eto0 = i.eto0) (h1 : j.eto1 = i.eto1) (h3 : j.eto3 = i.eto3)
    (d0 : j.deto0 = i.deto0) (d1 : j.deto1 = i.deto1) (d3 : j.deto3 = i.deto3)
    (z4 : i.eto4 = 0) (z5 : i.eto5 = 0) (w4 : i.deto4 = 0) (w5 : i.deto5 = 0)
    (hden : lam i.young i.nu + 2 * mu i.young i.nu ≠ 0)
    (hzz : E_3D_sig2 c c3 fn i = 0) :
    E_3D_sig_list c c3 fn i = E_PSTRESS_sig_list c c3 fn j ++ [0, 0] ∧ E_PSTRESS_sig2 c c3 fn j = 0 := by
  simp only [gen_simp, lam, mu, hE, hn, h0, h1, h3, d0, d1, d3, z4, z5, w4, w5, List.cons_append, List.nil_append, List.cons.injEq, and_true] at hzz hden ⊢
  generalize i.nu * i.young / ((1 + i.nu) * (1 - 2 * i.nu)) = l at hzz hden ⊢
  generalize i.young / (2 * (1 + i.nu)) = m at hzz hden ⊢
  have h5 : m * 2 + l ≠ 0 := fun h => hden (by linear_combination h)
  have h6 : l + m * 2 ≠ 0 := fun h => hden (by linear_combination h)
  have h7 : 2 * m + l ≠ 0 := fun h => hden (by linear_combination h)
  -- the 3D axial strain in terms of the in-plane ones
  have hez : i.eto2 + (i.eto2 + i.deto2 - i.eto2) = -(l * ((i.eto0 + (i.eto0 + i.deto0 - i.eto0)) + (i.eto1 + (i.eto1 + i.deto1 - i.eto1)))) / (l + 2 * m) := by
    field_simp
    linear_combination hzz
  repeat' apply And.intro
  all_goals (first | trivial | rfl | ring1 | (linear_combination hzz) | (rw [hez]; field_simp; ring1))

/-! ## objectivity -/
/-- Hooke's law on 3×3 matrices -/
def hookeM (l m : K) (A : M3 K) : M3 K := (l * A.trace) • (1 : M3 K) + (2 * m) • A

theorem E_3D_matrix (hc : c * c = 2) (i : E_3D_In K) (a00 a11 a22 a01 a02 a12 : K)
    (h0 : i.eto0 + i.deto0 = a00) (h1 : i.eto1 + i.deto1 = a11) (h2 : i.eto2 + i.deto2 = a22)
    (h3 : i.eto3 + i.deto3 = c * a01) (h4 : i.eto4 + i.deto4 = c * a02) (h5 : i.eto5 + i.deto5 = c * a12) :
    E_3D_sig_list c c3 fn i = M3.mandel3 c (hookeM (lam i.young i.nu) (mu i.young i.nu) (M3.sym a00 a11 a22 a01 a02 a12)) := by
  have e0 : i.eto0 + (i.eto0 + i.deto0 - i.eto0) = a00 := by rw [← h0]; ring
  have e1 : i.eto1 + (i.eto1 + i.deto1 - i.eto1) = a11 := by rw [← h1]; ring
  have e2 : i.eto2 + (i.eto2 + i.deto2 - i.eto2) = a22 := by rw [← h2]; ring
  have e3 : i.eto3 + (i.eto3 + i.deto3 - i.eto3) = c * a01 := by rw [← h3]; ring
  have e4 : i.eto4 + (i.eto4 + i.deto4 - i.eto4) = c * a02 := by rw [← h4]; ring
  have e5 : i.eto5 + (i.eto5 + i.deto5 - i.eto5) = c * a12 := by rw [← h5]; ring
  simp only [gen_simp, hookeM, lam, mu, M3.mandel3, M3.sym, M3.trace, M3.smul_def, M3.smul, M3.add_def, M3.add, M3.one_def, M3.one,
    e0, e1, e2, e3, e4, e5, List.cons.injEq, and_true]
  repeat' apply And.intro
  all_goals (first | trivial | rfl | ring1)

/-- `λ tr(A) 1 + 2μ A` commutes with the change of basis by an orthogonal matrix -/
theorem hookeM_objective (l m : K) (R A : M3 K) (h1 : R.transpose * R = 1) (h2 : R * R.transpose = 1) :
    hookeM l m (R.transpose * A * R) = R.transpose * hookeM l m A * R := by
  apply M3.toMatrix_injective
  have g1 : R.toMatrix.transpose * R.toMatrix = 1 := by
    rw [← M3.toMatrix_transpose, ← M3.toMatrix_mul, h1, M3.toMatrix_one]
  have g2 : R.toMatrix * R.toMatrix.transpose = 1 := by
    rw [← M3.toMatrix_transpose, ← M3.toMatrix_mul, h2, M3.toMatrix_one]
  have ht : (R.transpose * A * R).trace = A.trace := by
    rw [M3.toMatrix_trace, M3.toMatrix_trace, M3.toMatrix_mul, M3.toMatrix_mul, M3.toMatrix_transpose,
      Matrix.trace_mul_cycle, g2, Matrix.one_mul]
  simp only [hookeM, ht, M3.toMatrix_add, M3.toMatrix_smul, M3.toMatrix_mul, M3.toMatrix_transpose, M3.toMatrix_one,
    Matrix.mul_add, Matrix.add_mul, Matrix.mul_smul, Matrix.smul_mul, Matrix.mul_one, g1]

/-- objectivity of the generated elastic behaviour: if the loading `i'` is the loading `i` rotated to another frame
(total strain at the end of the step `A' = Rᵀ A R`, the matrix whose storage rotateGradients returns, C44 `ROT_3D_grad`),
the returned stress is the rotated stress -/
theorem E_3D_objective (hc : c * c = 2) (i i' : E_3D_In K) (a00 a11 a22 a01 a02 a12 r00 r01 r02 r10 r11 r12 r20 r21 r22 : K)
    (hE : i'.young = i.young) (hn : i'.nu = i.nu)
    (h0 : i.eto0 + i.deto0 = a00) (h1 : i.eto1 + i.deto1 = a11) (h2 : i.eto2 + i.deto2 = a22)
    (h3 : i.eto3 + i.deto3 = c * a01) (h4 : i.eto4 + i.deto4 = c * a02) (h5 : i.eto5 + i.deto5 = c * a12)
    (horth1 : (M3.mk r00 r01 r02 r10 r11 r12 r20 r21 r22).transpose * M3.mk r00 r01 r02 r10 r11 r12 r20 r21 r22 = 1)
    (horth2 : M3.mk r00 r01 r02 r10 r11 r12 r20 r21 r22 * (M3.mk r00 r01 r02 r10 r11 r12 r20 r21 r22).transpose = 1) :
    let R := M3.mk r00 r01 r02 r10 r11 r12 r20 r21 r22
    let B := R.transpose * M3.sym a00 a11 a22 a01 a02 a12 * R
    i'.eto0 + i'.deto0 = B.a00 → i'.eto1 + i'.deto1 = B.a11 → i'.eto2 + i'.deto2 = B.a22 →
    i'.eto3 + i'.deto3 = c * B.a01 → i'.eto4 + i'.deto4 = c * B.a02 → i'.eto5 + i'.deto5 = c * B.a12 →
    E_3D_sig_list c c3 fn i' = M3.mandel3 c (R.transpose * hookeM (lam i.young i.nu) (mu i.young i.nu) (M3.sym a00 a11 a22 a01 a02 a12) * R)
    ∧ E_3D_sig_list c c3 fn i = M3.mandel3 c (hookeM (lam i.young i.nu) (mu i.young i.nu) (M3.sym a00 a11 a22 a01 a02 a12)) := by
  intro R B k0 k1 k2 k3 k4 k5
  have hB : M3.sym B.a00 B.a11 B.a22 B.a01 B.a02 B.a12 = B := by
    simp only [B, R, M3.sym, M3.mul_def, M3.mul, M3.transpose, M3.mk.injEq]
    repeat' apply And.intro
    all_goals (first | trivial | rfl | ring1)
  refine ⟨?_, E_3D_matrix c c3 fn hc i a00 a11 a22 a01 a02 a12 h0 h1 h2 h3 h4 h5⟩
  rw [E_3D_matrix c c3 fn hc i' B.a00 B.a11 B.a22 B.a01 B.a02 B.a12 k0 k1 k2 k3 k4 k5, hB, hE, hn,
    hookeM_objective _ _ R _ horth1 horth2]

end TfelVerif.C44
