/-
  C44/PropsArr.lean — the array-of-points rotation entry points generated for orthotropic behaviours
  (`<B>_<H>_rotateArrayOfGradients`, `rotateArrayOfThermodynamicForces`, `rotateArrayOfTangentOperatorBlocks`, generic
  interface; bodies extracted verbatim from the generated OrthotropicNortonTest-generic.cxx, `mfront_gb_real = Sym`).

  Units `ARR_<H>_grad|force|tang` (harness/C44/trace_rot.cxx): the array function called on two points (inputs `pa*`,
  `pb*`, rotation matrix `r**`; outputs `oa*`, `ob*`; the destination is pre-filled with the garbage symbol `g`).
  Theorem per function: each point of the array is rotated exactly as the single-point function of PropsRot.lean
  does (hence `Rᵀ A R` for gradients, `R A Rᵀ` for thermodynamic forces, the conjugated operator for tangent blocks),
  and nothing is written beyond the last point. Property theorems only.
-/
import TfelVerif.C44.GenArr
import TfelVerif.C44.GenRot
import Mathlib.Tactic.Ring

namespace TfelVerif.C44
open TfelVerif TfelVerif.C44.GenRot TfelVerif.C44.GenArr
set_option linter.unusedVariables false
set_option linter.unusedSectionVars false

variable {K : Type} [Field K] (c c3 : K) (fn : Fns K)

local macro "a_close" : tactic =>
  `(tactic| (simp only [gen_simp, List.cons.injEq, and_true]
             ; all_goals (repeat' apply And.intro) ; all_goals (first | trivial | rfl | ring1)))

theorem ARR_3D_grad (i : ARR_3D_grad_In K) :
    ARR_3D_grad_oa_list c c3 fn i = ROT_3D_grad_o_list c c3 fn ⟨i.pa0, i.pa1, i.pa2, i.pa3, i.pa4, i.pa5, i.r00, i.r01, i.r02, i.r10, i.r11, i.r12, i.r20, i.r21, i.r22, i.g⟩
    ∧ ARR_3D_grad_ob_list c c3 fn i = ROT_3D_grad_o_list c c3 fn ⟨i.pb0, i.pb1, i.pb2, i.pb3, i.pb4, i.pb5, i.r00, i.r01, i.r02, i.r10, i.r11, i.r12, i.r20, i.r21, i.r22, i.g⟩
    ∧ ARR_3D_grad_beyond c c3 fn i = i.g := by
  refine ⟨?_, ?_, ?_⟩ <;> a_close

theorem ARR_3D_force (i : ARR_3D_force_In K) :
    ARR_3D_force_oa_list c c3 fn i = ROT_3D_force_o_list c c3 fn ⟨i.pa0, i.pa1, i.pa2, i.pa3, i.pa4, i.pa5, i.r00, i.r01, i.r02, i.r10, i.r11, i.r12, i.r20, i.r21, i.r22, i.g⟩
    ∧ ARR_3D_force_ob_list c c3 fn i = ROT_3D_force_o_list c c3 fn ⟨i.pb0, i.pb1, i.pb2, i.pb3, i.pb4, i.pb5, i.r00, i.r01, i.r02, i.r10, i.r11, i.r12, i.r20, i.r21, i.r22, i.g⟩
    ∧ ARR_3D_force_beyond c c3 fn i = i.g := by
  refine ⟨?_, ?_, ?_⟩ <;> a_close

theorem ARR_3D_tang (i : ARR_3D_tang_In K) :
    ARR_3D_tang_oa_list c c3 fn i = ROT_3D_tang_o_list c c3 fn ⟨i.pa0, i.pa1, i.pa2, i.pa3, i.pa4, i.pa5, i.pa6, i.pa7, i.pa8, i.pa9, i.pa10, i.pa11, i.pa12, i.pa13, i.pa14, i.pa15, i.pa16, i.pa17, i.pa18, i.pa19, i.pa20, i.pa21, i.pa22, i.pa23, i.pa24, i.pa25, i.pa26, i.pa27, i.pa28, i.pa29, i.pa30, i.pa31, i.pa32, i.pa33, i.pa34, i.pa35, i.r00, i.r01, i.r02, i.r10, i.r11, i.r12, i.r20, i.r21, i.r22, i.g⟩
    ∧ ARR_3D_tang_ob_list c c3 fn i = ROT_3D_tang_o_list c c3 fn ⟨i.pb0, i.pb1, i.pb2, i.pb3, i.pb4, i.pb5, i.pb6, i.pb7, i.pb8, i.pb9, i.pb10, i.pb11, i.pb12, i.pb13, i.pb14, i.pb15, i.pb16, i.pb17, i.pb18, i.pb19, i.pb20, i.pb21, i.pb22, i.pb23, i.pb24, i.pb25, i.pb26, i.pb27, i.pb28, i.pb29, i.pb30, i.pb31, i.pb32, i.pb33, i.pb34, i.pb35, i.r00, i.r01, i.r02, i.r10, i.r11, i.r12, i.r20, i.r21, i.r22, i.g⟩
    ∧ ARR_3D_tang_beyond c c3 fn i = i.g := by
  refine ⟨?_, ?_, ?_⟩ <;> a_close

theorem ARR_PSTRAIN_grad (i : ARR_PSTRAIN_grad_In K) :
    ARR_PSTRAIN_grad_oa_list c c3 fn i = ROT_PSTRAIN_grad_o_list c c3 fn ⟨i.pa0, i.pa1, i.pa2, i.pa3, i.r00, i.r01, i.r02, i.r10, i.r11, i.r12, i.r20, i.r21, i.r22, i.g⟩
    ∧ ARR_PSTRAIN_grad_ob_list c c3 fn i = ROT_PSTRAIN_grad_o_list c c3 fn ⟨i.pb0, i.pb1, i.pb2, i.pb3, i.r00, i.r01, i.r02, i.r10, i.r11, i.r12, i.r20, i.r21, i.r22, i.g⟩
    ∧ ARR_PSTRAIN_grad_beyond c c3 fn i = i.g := by
  refine ⟨?_, ?_, ?_⟩ <;> a_close

theorem ARR_PSTRAIN_force (i : ARR_PSTRAIN_force_In K) :
    ARR_PSTRAIN_force_oa_list c c3 fn i = ROT_PSTRAIN_force_o_list c c3 fn ⟨i.pa0, i.pa1, i.pa2, i.pa3, i.r00, i.r01, i.r02, i.r10, i.r11, i.r12, i.r20, i.r21, i.r22, i.g⟩
    ∧ ARR_PSTRAIN_force_ob_list c c3 fn i = ROT_PSTRAIN_force_o_list c c3 fn ⟨i.pb0, i.pb1, i.pb2, i.pb3, i.r00, i.r01, i.r02, i.r10, i.r11, i.r12, i.r20, i.r21, i.r22, i.g⟩
    ∧ ARR_PSTRAIN_force_beyond c c3 fn i = i.g := by
  refine ⟨?_, ?_, ?_⟩ <;> a_close

theorem ARR_PSTRAIN_tang (i : ARR_PSTRAIN_tang_In K) :
    ARR_PSTRAIN_tang_oa_list c c3 fn i = ROT_PSTRAIN_tang_o_list c c3 fn ⟨i.pa0, i.pa1, i.pa2, i.pa3, i.pa4, i.pa5, i.pa6, i.pa7, i.pa8, i.pa9, i.pa10, i.pa11, i.pa12, i.pa13, i.pa14, i.pa15, i.r00, i.r01, i.r02, i.r10, i.r11, i.r12, i.r20, i.r21, i.r22, i.g⟩
    ∧ ARR_PSTRAIN_tang_ob_list c c3 fn i = ROT_PSTRAIN_tang_o_list c c3 fn ⟨i.pb0, i.pb1, i.pb2, i.pb3, i.pb4, i.pb5, i.pb6, i.pb7, i.pb8, i.pb9, i.pb10, i.pb11, i.pb12, i.pb13, i.pb14, i.pb15, i.r00, i.r01, i.r02, i.r10, i.r11, i.r12, i.r20, i.r21, i.r22, i.g⟩
    ∧ ARR_PSTRAIN_tang_beyond c c3 fn i = i.g := by
  refine ⟨?_, ?_, ?_⟩ <;> a_close

theorem ARR_PSTRESS_grad (i : ARR_PSTRESS_grad_In K) :
    ARR_PSTRESS_grad_oa_list c c3 fn i = ROT_PSTRESS_grad_o_list c c3 fn ⟨i.pa0, i.pa1, i.pa2, i.pa3, i.r00, i.r01, i.r02, i.r10, i.r11, i.r12, i.r20, i.r21, i.r22, i.g⟩
    ∧ ARR_PSTRESS_grad_ob_list c c3 fn i = ROT_PSTRESS_grad_o_list c c3 fn ⟨i.pb0, i.pb1, i.pb2, i.pb3, i.r00, i.r01, i.r02, i.r10, i.r11, i.r12, i.r20, i.r21, i.r22, i.g⟩
    ∧ ARR_PSTRESS_grad_beyond c c3 fn i = i.g := by
  refine ⟨?_, ?_, ?_⟩ <;> a_close

theorem ARR_PSTRESS_force (i : ARR_PSTRESS_force_In K) :
    ARR_PSTRESS_force_oa_list c c3 fn i = ROT_PSTRESS_force_o_list c c3 fn ⟨i.pa0, i.pa1, i.pa2, i.pa3, i.r00, i.r01, i.r02, i.r10, i.r11, i.r12, i.r20, i.r21, i.r22, i.g⟩
    ∧ ARR_PSTRESS_force_ob_list c c3 fn i = ROT_PSTRESS_force_o_list c c3 fn ⟨i.pb0, i.pb1, i.pb2, i.pb3, i.r00, i.r01, i.r02, i.r10, i.r11, i.r12, i.r20, i.r21, i.r22, i.g⟩
    ∧ ARR_PSTRESS_force_beyond c c3 fn i = i.g := by
  refine ⟨?_, ?_, ?_⟩ <;> a_close

theorem ARR_AXIS_grad (i : ARR_AXIS_grad_In K) :
    ARR_AXIS_grad_oa_list c c3 fn i = ROT_AXIS_grad_o_list c c3 fn ⟨i.pa0, i.pa1, i.pa2, i.pa3, i.r00, i.r01, i.r02, i.r10, i.r11, i.r12, i.r20, i.r21, i.r22, i.g⟩
    ∧ ARR_AXIS_grad_ob_list c c3 fn i = ROT_AXIS_grad_o_list c c3 fn ⟨i.pb0, i.pb1, i.pb2, i.pb3, i.r00, i.r01, i.r02, i.r10, i.r11, i.r12, i.r20, i.r21, i.r22, i.g⟩
    ∧ ARR_AXIS_grad_beyond c c3 fn i = i.g := by
  refine ⟨?_, ?_, ?_⟩ <;> a_close

theorem ARR_AXIS_force (i : ARR_AXIS_force_In K) :
    ARR_AXIS_force_oa_list c c3 fn i = ROT_AXIS_force_o_list c c3 fn ⟨i.pa0, i.pa1, i.pa2, i.pa3, i.r00, i.r01, i.r02, i.r10, i.r11, i.r12, i.r20, i.r21, i.r22, i.g⟩
    ∧ ARR_AXIS_force_ob_list c c3 fn i = ROT_AXIS_force_o_list c c3 fn ⟨i.pb0, i.pb1, i.pb2, i.pb3, i.r00, i.r01, i.r02, i.r10, i.r11, i.r12, i.r20, i.r21, i.r22, i.g⟩
    ∧ ARR_AXIS_force_beyond c c3 fn i = i.g := by
  refine ⟨?_, ?_, ?_⟩ <;> a_close

theorem ARR_GPSTRAIN_grad (i : ARR_GPSTRAIN_grad_In K) :
    ARR_GPSTRAIN_grad_oa_list c c3 fn i = ROT_GPSTRAIN_grad_o_list c c3 fn ⟨i.pa0, i.pa1, i.pa2, i.pa3, i.r00, i.r01, i.r02, i.r10, i.r11, i.r12, i.r20, i.r21, i.r22, i.g⟩
    ∧ ARR_GPSTRAIN_grad_ob_list c c3 fn i = ROT_GPSTRAIN_grad_o_list c c3 fn ⟨i.pb0, i.pb1, i.pb2, i.pb3, i.r00, i.r01, i.r02, i.r10, i.r11, i.r12, i.r20, i.r21, i.r22, i.g⟩
    ∧ ARR_GPSTRAIN_grad_beyond c c3 fn i = i.g := by
  refine ⟨?_, ?_, ?_⟩ <;> a_close

theorem ARR_GPSTRAIN_force (i : ARR_GPSTRAIN_force_In K) :
    ARR_GPSTRAIN_force_oa_list c c3 fn i = ROT_GPSTRAIN_force_o_list c c3 fn ⟨i.pa0, i.pa1, i.pa2, i.pa3, i.r00, i.r01, i.r02, i.r10, i.r11, i.r12, i.r20, i.r21, i.r22, i.g⟩
    ∧ ARR_GPSTRAIN_force_ob_list c c3 fn i = ROT_GPSTRAIN_force_o_list c c3 fn ⟨i.pb0, i.pb1, i.pb2, i.pb3, i.r00, i.r01, i.r02, i.r10, i.r11, i.r12, i.r20, i.r21, i.r22, i.g⟩
    ∧ ARR_GPSTRAIN_force_beyond c c3 fn i = i.g := by
  refine ⟨?_, ?_, ?_⟩ <;> a_close

theorem ARR_AGPSTRAIN_grad (i : ARR_AGPSTRAIN_grad_In K) :
    ARR_AGPSTRAIN_grad_oa_list c c3 fn i = ROT_AGPSTRAIN_grad_o_list c c3 fn ⟨i.pa0, i.pa1, i.pa2, i.r00, i.r01, i.r02, i.r10, i.r11, i.r12, i.r20, i.r21, i.r22, i.g⟩
    ∧ ARR_AGPSTRAIN_grad_ob_list c c3 fn i = ROT_AGPSTRAIN_grad_o_list c c3 fn ⟨i.pb0, i.pb1, i.pb2, i.r00, i.r01, i.r02, i.r10, i.r11, i.r12, i.r20, i.r21, i.r22, i.g⟩
    ∧ ARR_AGPSTRAIN_grad_beyond c c3 fn i = i.g := by
  refine ⟨?_, ?_, ?_⟩ <;> a_close

theorem ARR_AGPSTRAIN_force (i : ARR_AGPSTRAIN_force_In K) :
    ARR_AGPSTRAIN_force_oa_list c c3 fn i = ROT_AGPSTRAIN_force_o_list c c3 fn ⟨i.pa0, i.pa1, i.pa2, i.r00, i.r01, i.r02, i.r10, i.r11, i.r12, i.r20, i.r21, i.r22, i.g⟩
    ∧ ARR_AGPSTRAIN_force_ob_list c c3 fn i = ROT_AGPSTRAIN_force_o_list c c3 fn ⟨i.pb0, i.pb1, i.pb2, i.r00, i.r01, i.r02, i.r10, i.r11, i.r12, i.r20, i.r21, i.r22, i.g⟩
    ∧ ARR_AGPSTRAIN_force_beyond c c3 fn i = i.g := by
  refine ⟨?_, ?_, ?_⟩ <;> a_close

theorem ARR_AGPSTRAIN_tang (i : ARR_AGPSTRAIN_tang_In K) :
    ARR_AGPSTRAIN_tang_oa_list c c3 fn i = ROT_AGPSTRAIN_tang_o_list c c3 fn ⟨i.pa0, i.pa1, i.pa2, i.pa3, i.pa4, i.pa5, i.pa6, i.pa7, i.pa8, i.r00, i.r01, i.r02, i.r10, i.r11, i.r12, i.r20, i.r21, i.r22, i.g⟩
    ∧ ARR_AGPSTRAIN_tang_ob_list c c3 fn i = ROT_AGPSTRAIN_tang_o_list c c3 fn ⟨i.pb0, i.pb1, i.pb2, i.pb3, i.pb4, i.pb5, i.pb6, i.pb7, i.pb8, i.r00, i.r01, i.r02, i.r10, i.r11, i.r12, i.r20, i.r21, i.r22, i.g⟩
    ∧ ARR_AGPSTRAIN_tang_beyond c c3 fn i = i.g := by
  refine ⟨?_, ?_, ?_⟩ <;> a_close

end TfelVerif.C44
