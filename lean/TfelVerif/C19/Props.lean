/-
  C19 — Kriging interpolants reproduce their training data.

  Objects: `entry`/`rhs`/`evalK` of Model.lean (matrix assembly and evaluation of
  `Kriging<N,T,Model>` and, through `factorized`, of `FactorizedKriging`), the shipped models
  (`default1D/2D/3D`, `pieceWise1D`, `adaptator`) and the T1-generated covariances/drifts of
  Gen.lean (regenerated from the C++ on every run).

  The linear solve is a hypothesis (`Solves`: the unknowns returned by the solver satisfy the
  assembled system exactly — C07 proves this of `LUSolve::exe` when it succeeds).  All statements are
  for every number of points `n`, every point set, every value set; no enumeration.

  Full property statement (not provable here, kept for reference): "for every set of distinct sample
  points … the interpolants built without a nugget return the training value at each training
  point, with relative error at most a conditioning-dependent multiple of machine precision".
  Proved: the exact-arithmetic part, conditional on the solve being exact (`…_reproduces`,
  `kriging_at_training_point`).  Missing: (1) existence of a solution for distinct points (unisolvence
  of the shipped covariance/drift pairs — false in general: collinear 2D points make the system
  singular); (2) the floating-point error bound (checked numerically by checks/C19.py on the real
  code, not proved).
-/
import Mathlib.Algebra.Order.Field.Rat
import Mathlib.Algebra.Order.AbsoluteValue.Basic
import Mathlib.Tactic.NormNum
import Mathlib.Tactic.LinearCombination
import Mathlib.Tactic.IntervalCases
import TfelVerif.C19.Lemmas
import TfelVerif.C19.Gen

namespace TfelVerif.C19
open Finset

/-! ## 1. The general statement -/
section general
variable {K : Type} [CommRing K] {V : Type} [Sub V]

/-- "the solver returned an exact solution `a` of the assembled system" -/
def Solves (M : KModel V K) (n : ℕ) (x : ℕ → V) (f a : ℕ → K) : Prop :=
  ∀ r, r < n + M.nb → (∑ c ∈ range (n + M.nb), entry M n x r c * a c) = rhs n f r

/-- the covariance takes the same value on `x i - x j` and `x j - x i` (the matrix stores
`cov(x_i - x_j)` for `j < i` and mirrors it; the evaluation uses `cov(x - x_i)`) -/
def EvenOn (M : KModel V K) (n : ℕ) (x : ℕ → V) : Prop :=
  ∀ i j, i < n → j < n → M.cov (x i - x j) = M.cov (x j - x i)

/-- **Main theorem.** If the solve is exact then at every training point
`K(x_k) = f_k + (cov(x_k - x_k) - nugget_k) · a_k`. -/
theorem kriging_at_training_point (M : KModel V K) (n : ℕ) (x : ℕ → V) (f a : ℕ → K)
    (hev : EvenOn M n x) (hs : Solves M n x f a) (k : ℕ) (hk : k < n) :
    evalK M n x a (x k) = f k + (M.cov (x k - x k) - M.nugget k (x k)) * a k := by
  have hrow := hs k (by omega)
  rw [row_eq M n x a k hk, point_block_sum M n x a k hk (fun c hc => hev c k hc hk)] at hrow
  rw [evalK_eq]
  have hd : ∑ j ∈ range M.nb, a (n + j) * M.drift j (x k) =
      ∑ j ∈ range M.nb, M.drift j (x k) * a (n + j) := sum_congr rfl (fun _ _ => mul_comm _ _)
  rw [hd]
  simp only [rhs, hk, if_true] at hrow
  linear_combination hrow

/-- exact reproduction when the diagonal of the matrix is the covariance at the null distance -/
theorem kriging_reproduces (M : KModel V K) (n : ℕ) (x : ℕ → V) (f a : ℕ → K)
    (hev : EvenOn M n x) (hs : Solves M n x f a) (k : ℕ) (hk : k < n)
    (hdiag : M.cov (x k - x k) = M.nugget k (x k)) :
    evalK M n x a (x k) = f k := by
  rw [kriging_at_training_point M n x f a hev hs k hk, hdiag]; ring

/-- … and only then (or when the weight `a_k` vanishes): reproduction at `x_k` **iff**
`cov(x_k - x_k) = nugget_k` or `a_k = 0` -/
theorem kriging_reproduces_iff [IsDomain K] (M : KModel V K) (n : ℕ) (x : ℕ → V) (f a : ℕ → K)
    (hev : EvenOn M n x) (hs : Solves M n x f a) (k : ℕ) (hk : k < n) :
    evalK M n x a (x k) = f k ↔ (M.cov (x k - x k) = M.nugget k (x k) ∨ a k = 0) := by
  rw [kriging_at_training_point M n x f a hev hs k hk]
  constructor
  · intro h
    have h0 : (M.cov (x k - x k) - M.nugget k (x k)) * a k = 0 := by linear_combination h
    rcases mul_eq_zero.mp h0 with h1 | h1
    · left; exact sub_eq_zero.mp h1
    · right; exact h1
  · rintro (h | h)
    · rw [h]; ring
    · rw [h]; ring

/-- the wrappers `Kriging1D/2D/3D`, `FactorizedKriging1D*D` apply one and the same map `g`
(the affine normalisation) to the sample points when they are added and to the argument of
`operator()`: the statement is unchanged -/
theorem normalised_at_training_point {W : Type} (g : W → V) (M : KModel V K) (n : ℕ) (xr : ℕ → W)
    (f a : ℕ → K) (hev : EvenOn M n (fun i => g (xr i))) (hs : Solves M n (fun i => g (xr i)) f a)
    (k : ℕ) (hk : k < n) :
    (fun w => evalK M n (fun i => g (xr i)) a (g w)) (xr k) =
      f k + (M.cov (g (xr k) - g (xr k)) - M.nugget k (g (xr k))) * a k :=
  kriging_at_training_point M n (fun i => g (xr i)) f a hev hs k hk

end general

/-- in an additive group an even covariance (`cov(-h) = cov h`) is `EvenOn` every point set, and the
diagonal term is `cov 0` -/
theorem kriging_at_training_point_of_even {K : Type} [CommRing K] {V : Type} [AddGroup V]
    (M : KModel V K) (heven : ∀ h, M.cov (-h) = M.cov h) (n : ℕ) (x : ℕ → V) (f a : ℕ → K)
    (hs : Solves M n x f a) (k : ℕ) (hk : k < n) :
    evalK M n x a (x k) = f k + (M.cov 0 - M.nugget k (x k)) * a k := by
  have hev : EvenOn M n x := fun i j _ _ => by rw [← neg_sub (x j) (x i), heven]
  have := kriging_at_training_point M n x f a hev hs k hk
  rwa [sub_self] at this

/-! ## 2. FactorizedKriging -/
section factorized
variable {K : Type} [CommRing K] {A B : Type} [Sub A] [Sub B]

theorem factorized_at_training_point (M1 : KModel A K) (M2 : KModel B K) (n : ℕ) (x : ℕ → P2 A B)
    (f a : ℕ → K)
    (hev1 : EvenOn M1 n (fun i => (x i).a)) (hev2 : EvenOn M2 n (fun i => (x i).b))
    (hs : Solves (factorized M1 M2) n x f a) (k : ℕ) (hk : k < n) :
    evalK (factorized M1 M2) n x a (x k) =
      f k + M1.cov ((x k).a - (x k).a) * M2.cov ((x k).b - (x k).b) * a k := by
  have hev : EvenOn (factorized M1 M2) n x := by
    intro i j hi hj
    simp only [factorized, P2.sub_a, P2.sub_b]
    rw [hev1 i j hi hj, hev2 i j hi hj]
  rw [kriging_at_training_point _ n x f a hev hs k hk]
  simp [factorized]

/-- `FactorizedKriging` reproduces its data as soon as one of the two covariances vanishes at the
null distance (the diagonal of its matrix is `T(0)`) -/
theorem factorized_reproduces (M1 : KModel A K) (M2 : KModel B K) (n : ℕ) (x : ℕ → P2 A B)
    (f a : ℕ → K)
    (hev1 : EvenOn M1 n (fun i => (x i).a)) (hev2 : EvenOn M2 n (fun i => (x i).b))
    (hs : Solves (factorized M1 M2) n x f a) (k : ℕ) (hk : k < n)
    (h0 : M1.cov ((x k).a - (x k).a) = 0 ∨ M2.cov ((x k).b - (x k).b) = 0) :
    evalK (factorized M1 M2) n x a (x k) = f k := by
  rw [factorized_at_training_point M1 M2 n x f a hev1 hev2 hs k hk]
  rcases h0 with h | h <;> rw [h] <;> ring

end factorized

/-! ## 3. The shipped models: evenness and value at the null distance

`fn.abs`, `fn.sqrt`, `fn.log` stay uninterpreted; the facts used are explicit hypotheses
(`abs (-t) = abs t`, `abs 0 = 0`, `sqrt 0 = 0`), all true of `|·|` and `Real.sqrt`. -/
section shipped
variable {K : Type} [CommRing K]

theorem default1D_even (F : Fn K) (ν : K) (habs : ∀ t, F.abs (-t) = F.abs t) (n : ℕ) (x : ℕ → K) :
    EvenOn (default1D F ν) n x := by
  intro i j _ _
  simp only [default1D]
  rw [← habs]; congr 1; ring

theorem pieceWise1D_even (F : Fn K) (ν : K) (habs : ∀ t, F.abs (-t) = F.abs t) (n : ℕ) (x : ℕ → K) :
    EvenOn (pieceWise1D F ν) n x := by
  intro i j _ _
  simp only [pieceWise1D]
  rw [← habs]; congr 1; ring

theorem default3D_even (F : Fn K) (ν : K) (n : ℕ) (x : ℕ → V3 K) : EvenOn (default3D F ν) n x := by
  intro i j _ _
  simp only [default3D, cov3D, V3.sub_x, V3.sub_y, V3.sub_z]
  congr 1; ring

theorem default2D_even [LT K] [DecidableRel (fun a b : K => a < b)] (F : Fn K) (ν : K) (n : ℕ)
    (x : ℕ → V2 K) : EvenOn (default2D F ν) n x := by
  intro i j _ _
  simp only [default2D, cov2D, V2.sub_x, V2.sub_y]
  have h : ((x i).x - (x j).x) * ((x i).x - (x j).x) + ((x i).y - (x j).y) * ((x i).y - (x j).y) =
      ((x j).x - (x i).x) * ((x j).x - (x i).x) + ((x j).y - (x i).y) * ((x j).y - (x i).y) := by ring
  rw [h]

/-- `Kriging<1u,T>` (default model): `K(x_k) = f_k - ν·a_k`; in particular exact reproduction when
built without a nugget -/
theorem default1D_at_training_point (F : Fn K) (ν : K) (habs : ∀ t, F.abs (-t) = F.abs t)
    (h0 : F.abs 0 = 0) (n : ℕ) (x f a : ℕ → K) (hs : Solves (default1D F ν) n x f a) (k : ℕ)
    (hk : k < n) : evalK (default1D F ν) n x a (x k) = f k - ν * a k := by
  rw [kriging_at_training_point _ n x f a (default1D_even F ν habs n x) hs k hk]
  simp only [default1D, sub_self, mul_zero, h0]; ring

theorem default1D_reproduces (F : Fn K) (habs : ∀ t, F.abs (-t) = F.abs t) (h0 : F.abs 0 = 0)
    (n : ℕ) (x f a : ℕ → K) (hs : Solves (default1D F 0) n x f a) (k : ℕ) (hk : k < n) :
    evalK (default1D F 0) n x a (x k) = f k := by
  rw [default1D_at_training_point F 0 habs h0 n x f a hs k hk]; ring

theorem pieceWise1D_at_training_point (F : Fn K) (ν : K) (habs : ∀ t, F.abs (-t) = F.abs t)
    (h0 : F.abs 0 = 0) (n : ℕ) (x f a : ℕ → K) (hs : Solves (pieceWise1D F ν) n x f a) (k : ℕ)
    (hk : k < n) : evalK (pieceWise1D F ν) n x a (x k) = f k - ν * a k := by
  rw [kriging_at_training_point _ n x f a (pieceWise1D_even F ν habs n x) hs k hk]
  simp only [pieceWise1D, sub_self, h0]; ring

/-- `Kriging<2u,T>`: the thin-plate covariance is `0` at the null distance whatever `log 0` is
(both branches of `h2 < 10*eps` give `0`) -/
theorem default2D_at_training_point [LT K] [DecidableRel (fun a b : K => a < b)] (F : Fn K) (ν : K)
    (n : ℕ) (x : ℕ → V2 K) (f a : ℕ → K) (hs : Solves (default2D F ν) n x f a) (k : ℕ) (hk : k < n) :
    evalK (default2D F ν) n x a (x k) = f k - ν * a k := by
  rw [kriging_at_training_point _ n x f a (default2D_even F ν n x) hs k hk]
  have h0 : (default2D F ν).cov (x k - x k) = 0 := by
    simp only [default2D, cov2D, V2.sub_x, V2.sub_y, sub_self, mul_zero, add_zero, zero_mul]
    split_ifs <;> rfl
  rw [h0]; simp only [default2D]; ring

theorem default2D_reproduces [LT K] [DecidableRel (fun a b : K => a < b)] (F : Fn K)
    (n : ℕ) (x : ℕ → V2 K) (f a : ℕ → K) (hs : Solves (default2D F 0) n x f a) (k : ℕ) (hk : k < n) :
    evalK (default2D F 0) n x a (x k) = f k := by
  rw [default2D_at_training_point F 0 n x f a hs k hk]; ring

theorem default3D_at_training_point (F : Fn K) (ν : K) (h0 : F.sqrt 0 = 0)
    (n : ℕ) (x : ℕ → V3 K) (f a : ℕ → K) (hs : Solves (default3D F ν) n x f a) (k : ℕ) (hk : k < n) :
    evalK (default3D F ν) n x a (x k) = f k - ν * a k := by
  rw [kriging_at_training_point _ n x f a (default3D_even F ν n x) hs k hk]
  simp only [default3D, cov3D, V3.sub_x, V3.sub_y, V3.sub_z, sub_self, mul_zero, add_zero, h0]; ring

theorem default3D_reproduces (F : Fn K) (h0 : F.sqrt 0 = 0)
    (n : ℕ) (x : ℕ → V3 K) (f a : ℕ → K) (hs : Solves (default3D F 0) n x f a) (k : ℕ) (hk : k < n) :
    evalK (default3D F 0) n x a (x k) = f k := by
  rw [default3D_at_training_point F 0 h0 n x f a hs k hk]; ring

/-- `FactorizedKriging<1,M,T,PieceWiseLinear,Adaptator<Default<M>>>` (the types behind
`FactorizedKriging1D1D/1D2D/1D3D`): the first covariance `|h|` vanishes at `0` -/
theorem factorizedPW_reproduces {B : Type} [Sub B] (F : Fn K) (habs : ∀ t, F.abs (-t) = F.abs t)
    (h0 : F.abs 0 = 0) (M2 : KModel B K) (n : ℕ) (x : ℕ → P2 K B) (f a : ℕ → K)
    (hev2 : EvenOn M2 n (fun i => (x i).b))
    (hs : Solves (factorized (pieceWise1D F 0) M2) n x f a) (k : ℕ) (hk : k < n) :
    evalK (factorized (pieceWise1D F 0) M2) n x a (x k) = f k := by
  apply factorized_reproduces _ _ n x f a (pieceWise1D_even F 0 habs n _) hev2 hs k hk
  left; simp only [pieceWise1D, sub_self, h0]

omit [CommRing K] in
/-- the adaptated model has the covariance of the original one -/
theorem adaptator_even {V : Type} [Sub V] (M : KModel V K) (n : ℕ) (x : ℕ → V) (h : EvenOn M n x) :
    EvenOn (adaptator M) n x := h

end shipped

/-! ## 4. Tie of the hand-written models to the traced C++ (T1)

`Gen.*` is regenerated from `KrigingDefaultModel*.hxx`, `KrigingPieceWiseLinearModel1D.hxx`,
`KrigingDefaultNuggetModel.hxx`, `FactorizedKriging.hxx` on every run. -/
section tie
variable {K : Type} [Field K]

/-- the `Fn` record seen by the traced code: uninterpreted `abs/sqrt/log`, `eps = 2^-52` -/
def fnOf (fn : Fns K) : Fn K :=
  { abs := fn.abs, sqrt := fn.sqrt, log := fn.log, eps := 1 / 2 ^ 52, dmin := 1 / 2 ^ 1022,
    ten := 10, half := 1 / 2 }

theorem gen_cov1D (c c3 : K) (fn : Fns K) (ν v : K) :
    Gen.cov1D_r c c3 fn v = (default1D (fnOf fn) ν).cov v := rfl

theorem gen_covPW (c c3 : K) (fn : Fns K) (ν v : K) :
    Gen.covPW_r c c3 fn v = (pieceWise1D (fnOf fn) ν).cov v := rfl

theorem gen_cov3D (c c3 : K) (fn : Fns K) (ν v0 v1 v2 : K) :
    Gen.cov3D_r c c3 fn v0 v1 v2 = (default3D (fnOf fn) ν).cov ⟨v0, v1, v2⟩ := rfl

variable [LinearOrder K]

/-- the two traces of the 2D covariance (one per outcome of `h2 < 10*eps`) cover every input and
each agrees with the model on its path -/
theorem gen_cov2D [IsStrictOrderedRing K] (c c3 : K) (fn : Fns K) (ν v0 v1 : K) :
    (Gen.cov2D_far_path c c3 fn v0 v1 ∨ Gen.cov2D_near_path c c3 fn v0 v1) ∧
    (Gen.cov2D_far_path c c3 fn v0 v1 →
      Gen.cov2D_far_r c c3 fn v0 v1 = (default2D (fnOf fn) ν).cov ⟨v0, v1⟩) ∧
    (Gen.cov2D_near_path c c3 fn v0 v1 →
      Gen.cov2D_near_r c c3 fn v0 v1 = (default2D (fnOf fn) ν).cov ⟨v0, v1⟩) := by
  have hc : (fnOf fn).ten * (fnOf fn).eps = (5 : K) / 2251799813685248 := by
    simp only [fnOf]; norm_num
  refine ⟨?_, ?_, ?_⟩
  · simp only [Gen.cov2D_far_path, Gen.cov2D_near_path]
    exact (em _).symm
  · intro h
    simp only [Gen.cov2D_far_path] at h
    simp only [default2D, cov2D, hc, if_neg h, Gen.cov2D_far_r]
    simp only [fnOf]
  · intro h
    simp only [Gen.cov2D_near_path] at h
    simp only [default2D, cov2D, hc, if_pos h, Gen.cov2D_near_r]

/-- drifts and their number, for the plain and the adaptated models -/
theorem gen_drifts (c c3 : K) (fn : Fns K) (ν v0 v1 v2 : K) :
    (Gen.drift1D_all c c3 fn v0 =
      [((default1D (fnOf fn) ν).nb : K), (default1D (fnOf fn) ν).drift 0 v0,
       (default1D (fnOf fn) ν).drift 1 v0]) ∧
    (Gen.driftPW_all c c3 fn v0 =
      [((pieceWise1D (fnOf fn) ν).nb : K), (pieceWise1D (fnOf fn) ν).drift 0 v0]) ∧
    (Gen.drift2D_all c c3 fn v0 v1 =
      [((default2D (fnOf fn) ν).nb : K), (default2D (fnOf fn) ν).drift 0 ⟨v0, v1⟩,
       (default2D (fnOf fn) ν).drift 1 ⟨v0, v1⟩, (default2D (fnOf fn) ν).drift 2 ⟨v0, v1⟩]) ∧
    (Gen.drift3D_all c c3 fn v0 v1 v2 =
      [((default3D (fnOf fn) ν).nb : K), (default3D (fnOf fn) ν).drift 0 ⟨v0, v1, v2⟩,
       (default3D (fnOf fn) ν).drift 1 ⟨v0, v1, v2⟩, (default3D (fnOf fn) ν).drift 2 ⟨v0, v1, v2⟩,
       (default3D (fnOf fn) ν).drift 3 ⟨v0, v1, v2⟩]) ∧
    (Gen.driftA1D_all c c3 fn v0 =
      [((adaptator (default1D (fnOf fn) ν)).nb : K), (adaptator (default1D (fnOf fn) ν)).drift 0 v0]) ∧
    (Gen.driftA2D_all c c3 fn v0 v1 =
      [((adaptator (default2D (fnOf fn) ν)).nb : K),
       (adaptator (default2D (fnOf fn) ν)).drift 0 ⟨v0, v1⟩,
       (adaptator (default2D (fnOf fn) ν)).drift 1 ⟨v0, v1⟩]) ∧
    (Gen.driftA3D_all c c3 fn v0 v1 v2 =
      [((adaptator (default3D (fnOf fn) ν)).nb : K),
       (adaptator (default3D (fnOf fn) ν)).drift 0 ⟨v0, v1, v2⟩,
       (adaptator (default3D (fnOf fn) ν)).drift 1 ⟨v0, v1, v2⟩,
       (adaptator (default3D (fnOf fn) ν)).drift 2 ⟨v0, v1, v2⟩]) := by
  refine ⟨?_, ?_, ?_, ?_, ?_, ?_, ?_⟩ <;>
    simp [gen_simp, default1D, default2D, default3D, pieceWise1D, adaptator]

/-- the default nugget is `0` ("built without a nugget") and `setNuggetEffect(ν)` makes it `ν`
at every point -/
theorem gen_nugget (c c3 : K) (fn : Fns K) (x ν : K) :
    Gen.nugget_all c c3 fn x ν =
      [(default1D (fnOf fn) 0).nugget 0 x, (default1D (fnOf fn) ν).nugget 3 x,
       (default2D (fnOf fn) 0).nugget 1 ⟨x, x⟩, (pieceWise1D (fnOf fn) 0).nugget 1 x] := by
  simp [gen_simp, default1D, default2D, pieceWise1D]

end tie

/-! ## 5. Normalisation of the wrappers keeps distinct points distinct -/
section norm
variable {F : Type} [Field F] [LinearOrder F] [IsStrictOrderedRing F]

/-- when `KrigingUtilities::normalize` does not raise, the scale `1/(max-min)` is not null, hence
the affine normalisation is injective: distinct sample points stay distinct -/
theorem normalize_injective (fn : Fn F) (habs : ∀ t, fn.abs t = |t|) (hpos : 0 < fn.ten * fn.dmin)
    (x0 : F) (l : List F) (ab : F × F) (h : normalize fn x0 l = some ab) (u v : F)
    (huv : affine ab u = affine ab v) : u = v := by
  unfold normalize at h
  simp only at h
  split_ifs at h with hne
  have hab : ab = (1 / (maxElem x0 l - minElem x0 l), -minElem x0 l / (maxElem x0 l - minElem x0 l)) :=
    (Option.some.inj h).symm
  have hd : maxElem x0 l - minElem x0 l ≠ 0 := by
    intro h0
    apply hne
    unfold nearlyEqual
    simp only [h0, habs, abs_zero]
    simp [hpos]
  apply affine_injective ab _ u v huv
  rw [hab]
  exact one_div_ne_zero hd

end norm

/-! ## 6. Non-vacuity: the hypotheses are satisfiable -/

/-- `|·|` on ℚ as the `abs` of the models -/
def fnQ : Fn ℚ := { abs := fun t => |t|, sqrt := id, log := id, eps := 1 / 2 ^ 52, dmin := 1 / 2 ^ 1022,
                    ten := 10, half := 1 / 2 }

/-- two points `0, 1` with values `1, 3`, piecewise-linear model: `a = (1, -1, 2)` solves the
assembled 3x3 system, and the interpolant returns `1` and `3` at the two points -/
example : Solves (pieceWise1D fnQ 0) 2 (fun i => if i = 0 then 0 else 1)
    (fun i => if i = 0 then 1 else 3) (fun i => if i = 0 then 1 else if i = 1 then -1 else 2) := by
  intro r hr
  have : r < 3 := hr
  interval_cases r <;> simp [entry, rhs, pieceWise1D, fnQ, sum_range_succ] <;> norm_num

example : evalK (pieceWise1D fnQ 0) 2 (fun i => if i = 0 then 0 else 1)
    (fun i => if i = 0 then 1 else if i = 1 then -1 else 2) 1 = 3 := by
  simp [evalK, sumFrom, pieceWise1D, fnQ]; norm_num

example : (∀ t : ℚ, fnQ.abs (-t) = fnQ.abs t) ∧ fnQ.abs 0 = 0 ∧ fnQ.sqrt 0 = 0 :=
  ⟨fun t => abs_neg t, abs_zero, rfl⟩

/-- with a nugget the data is *not* reproduced: same points, nugget `2`: `a = (-1, 1, 2)` solves the
system and the interpolant returns `3 = f_0 - ν a_0` (not `f_0 = 1`) at the first point -/
example : Solves (pieceWise1D fnQ 2) 2 (fun i => if i = 0 then 0 else 1)
    (fun i => if i = 0 then 1 else 3) (fun i => if i = 0 then -1 else if i = 1 then 1 else 2) := by
  intro r hr
  have : r < 3 := hr
  interval_cases r <;> simp [entry, rhs, pieceWise1D, fnQ, sum_range_succ] <;> norm_num

example : evalK (pieceWise1D fnQ 2) 2 (fun i => if i = 0 then 0 else 1)
    (fun i => if i = 0 then -1 else if i = 1 then 1 else 2) 0 = 3 := by
  simp [evalK, sumFrom, pieceWise1D, fnQ]; norm_num

end TfelVerif.C19
