/-
  C19 — hand-written executable model (core Lean only) of the kriging interpolants:
    * `Kriging<N,T,Model>::buildInterpolation` (matrix assembly, right-hand side) and
      `Kriging<N,T,Model>::operator()`                 include/TFEL/Math/Kriging/Kriging.ixx
    * `FactorizedKriging<N,M,T,Model1,Model2>` (same two functions)
                                                        include/TFEL/Math/Kriging/FactorizedKriging.ixx
    * the covariances / drifts / nugget of `KrigingDefaultModel<1u|2u|3u>`,
      `KrigingPieceWiseLinearModel1D`, `KrigingDefaultNuggetModel`, `KrigingModelAdaptator`
    * `KrigingUtilities::normalize` and the affine normalisation of `Kriging1D/2D/3D`,
      `FactorizedKriging1D1D/1D2D/1D3D`                src/Math/Kriging*.cxx
  The linear solve (`LUSolve::exe`) is *not* modelled here: the unknowns `a` are an input of the
  evaluation, and the theorems take "a solves the assembled system" as their hypothesis (the LU
  solver itself is the subject of C07).

  Everything is polymorphic in the scalar `α` and in the point type `V`: the same definitions run on
  `Float` (= C `double`, bit-exactly against the real templates) and on `Rat` (against the real
  templates instantiated with an exact rational scalar) in Driver.lean, and are the object of the
  theorems over a field in Props.lean.  Operation order follows the C++ text.
-/
namespace TfelVerif.C19

/-- what `Kriging<N,T,Model>` uses of its `Model` parameter: `covariance`, `nuggetEffect(i, x_i)`,
the `nb` drift functions `drifts[k]` -/
structure KModel (V α : Type) where
  cov : V → α
  nugget : Nat → V → α
  nb : Nat
  drift : Nat → V → α

variable {V A B α : Type}

/-- `r = r0; for (k = 0; k != n; ++k) r += f k` -/
def sumFrom [Add α] (r0 : α) (f : Nat → α) : Nat → α
  | 0 => r0
  | k + 1 => sumFrom r0 f k + f k

section assembly
variable [Sub V] [OfNat α 0]

/-- entry `(i,j)` of the matrix assembled by `buildInterpolation` for `n` points `x`:
```
for (i = 0; i != n; ++i) { for (j = 0; j != i; ++j) m(i,j) = m(j,i) = cov(x[i] - x[j]);
                           m(i,i) = nuggetEffect(i, x[i]); }
for each drift k: for (i = 0; i != n; ++i) m(n+k, i) = m(i, n+k) = drifts[k](x[i]);
```
(the matrix is created filled with `T(0)`: the drift/drift block stays null) -/
def entry (M : KModel V α) (n : Nat) (x : Nat → V) (i j : Nat) : α :=
  if i < n then
    if j < n then
      if j < i then M.cov (x i - x j)
      else if i < j then M.cov (x j - x i)
      else M.nugget i (x i)
    else M.drift (j - n) (x i)
  else
    if j < n then M.drift (i - n) (x j)
    else 0

/-- right-hand side: `a.resize(n + nb, T(0)); copy(f.begin(), f.end(), a.begin())` -/
def rhs (n : Nat) (f : Nat → α) (r : Nat) : α := if r < n then f r else 0

/-- `Kriging::operator()`:
```
r = 0; for (i = 0; i != n; ++i) r += a[i] * cov(xv - x[i]);
for each drift k: r += a[n+k] * drifts[k](xv);
``` -/
def evalK [Add α] [Mul α] (M : KModel V α) (n : Nat) (x : Nat → V) (a : Nat → α) (xv : V) : α :=
  sumFrom (sumFrom 0 (fun i => a i * M.cov (xv - x i)) n)
    (fun k => a (n + k) * M.drift k xv) M.nb

end assembly

/-! ### `FactorizedKriging` is the same algorithm on pairs of points -/

/-- a point of `FactorizedKriging<N,M,…>`: `(x1[i], x2[i])` -/
structure P2 (A B : Type) where
  a : A
  b : B

instance [Sub A] [Sub B] : Sub (P2 A B) := ⟨fun u v => ⟨u.a - v.a, u.b - v.b⟩⟩

/-- covariance `m1.covariance(h1) * m2.covariance(h2)`, diagonal `T(0)`, drifts of `Model1` on the
first variable then drifts of `Model2` on the second -/
def factorized [Mul α] [OfNat α 0] (M1 : KModel A α) (M2 : KModel B α) : KModel (P2 A B) α where
  cov h := M1.cov h.a * M2.cov h.b
  nugget _ _ := 0
  nb := M1.nb + M2.nb
  drift k v := if k < M1.nb then M1.drift k v.a else M2.drift (k - M1.nb) v.b

/-- `KrigingModelAdaptator<Model>`: the first drift is dropped (`drifts = Model::drifts + 1`) -/
def adaptator (M : KModel V α) : KModel V α :=
  { M with nb := M.nb - 1, drift := fun k => M.drift (k + 1) }

/-! ### the models shipped with TFEL -/

/-- points of `Kriging<2u,…>` / `Kriging<3u,…>` (`tvector<N,T>`) -/
structure V2 (α : Type) where
  x : α
  y : α

structure V3 (α : Type) where
  x : α
  y : α
  z : α

instance [Sub α] : Sub (V2 α) := ⟨fun u v => ⟨u.x - v.x, u.y - v.y⟩⟩
instance [Sub α] : Sub (V3 α) := ⟨fun u v => ⟨u.x - v.x, u.y - v.y, u.z - v.z⟩⟩

/-- the libm / `numeric_limits` ingredients of the default models -/
structure Fn (α : Type) where
  abs : α → α
  sqrt : α → α
  log : α → α
  /-- `numeric_limits<T>::epsilon()` -/
  eps : α
  /-- `numeric_limits<T>::min()` -/
  dmin : α
  /-- the literals `10` and `0.5` -/
  ten : α
  half : α

section models
variable [OfNat α 0] [OfNat α 1] [Add α] [Mul α]

/-- `KrigingDefaultModel<1u,T,KrigingDefaultNuggetModel>`: `abs(v*v*v)`, drifts `{1, x}` -/
def default1D (fn : Fn α) (nug : α) : KModel α α where
  cov v := fn.abs (v * v * v)
  nugget _ _ := nug
  nb := 2
  drift k v := if k = 0 then 1 else v

/-- `KrigingPieceWiseLinearModel1D`: `abs(v)`, drift `{1}` -/
def pieceWise1D (fn : Fn α) (nug : α) : KModel α α where
  cov v := fn.abs v
  nugget _ _ := nug
  nb := 1
  drift _ _ := 1

/-- covariance of `KrigingDefaultModel<2u,…>`:
`h2 = v0*v0 + v1*v1; if (h2 < 10*eps) return 0; return 0.5*h2*log(h2);` -/
def cov2D [LT α] [DecidableRel (fun a b : α => a < b)] (fn : Fn α) (v : V2 α) : α :=
  let h2 := v.x * v.x + v.y * v.y
  if h2 < fn.ten * fn.eps then 0 else fn.half * h2 * fn.log h2

def default2D [LT α] [DecidableRel (fun a b : α => a < b)] (fn : Fn α) (nug : α) : KModel (V2 α) α where
  cov := cov2D fn
  nugget _ _ := nug
  nb := 3
  drift k v := if k = 0 then 1 else if k = 1 then v.x else v.y

/-- covariance of `KrigingDefaultModel<3u,…>`: `sqrt(v0*v0 + v1*v1 + v2*v2)` -/
def cov3D (fn : Fn α) (v : V3 α) : α := fn.sqrt (v.x * v.x + v.y * v.y + v.z * v.z)

def default3D (fn : Fn α) (nug : α) : KModel (V3 α) α where
  cov := cov3D fn
  nugget _ _ := nug
  nb := 4
  drift k v := if k = 0 then 1 else if k = 1 then v.x else if k = 2 then v.y else v.z

/-- the correspondence harness' own model (`CustomL1` in harness/C19/harness.cxx): `|h0| + |h1|`,
drift `{1}`, one nugget per point -/
def customL1 (fn : Fn α) (nug : Nat → α) : KModel (V2 α) α where
  cov v := fn.abs v.x + fn.abs v.y
  nugget i _ := nug i
  nb := 1
  drift _ _ := 1

end models

/-! ### normalisation used by `Kriging1D/2D/3D` and `FactorizedKriging1D*D` -/
section normalize
variable [LT α] [DecidableRel (fun a b : α => a < b)]

/-- `*std::max_element(v.begin(), v.end())` on a non-empty list `x0 :: l` -/
def maxElem (x0 : α) (l : List α) : α := l.foldl (fun m x => if m < x then x else m) x0
/-- `*std::min_element(v.begin(), v.end())` -/
def minElem (x0 : α) (l : List α) : α := l.foldl (fun m x => if x < m then x else m) x0

/-- `compareFloatingPointValues(a, b)` (KrigingUtilities.cxx) -/
def nearlyEqual [Sub α] [Mul α] (fn : Fn α) (a b : α) : Bool :=
  let aa := fn.abs a
  let ab := fn.abs b
  let d := fn.abs (a - b)
  if aa < fn.ten * fn.dmin ∧ ab < fn.ten * fn.dmin then true
  else decide (d < aa * fn.ten * fn.eps) || decide (d < ab * fn.ten * fn.eps)

/-- `KrigingUtilities::normalize`: raises when `max - min` is almost `0`, else
`{1/(max-min), -min/(max-min)}` -/
def normalize [OfNat α 0] [OfNat α 1] [Sub α] [Mul α] [Div α] [Neg α] (fn : Fn α) (x0 : α) (l : List α) :
    Option (α × α) :=
  let mx := maxElem x0 l
  let mn := minElem x0 l
  if nearlyEqual fn (mx - mn) 0 then none
  else some (1 / (mx - mn), -mn / (mx - mn))

end normalize

/-- `a * x + b` -/
def affine [Add α] [Mul α] (ab : α × α) (x : α) : α := ab.1 * x + ab.2

end TfelVerif.C19
