/- line-protocol driver of the C19 model.
   Float requests (= C double; every datum is the 16 hex digits of its IEEE-754 bit pattern):
     <kind> <n> <nq> <nugget values> <n points> <n values> <nq queries> [| <N unknowns a>]
   with the kinds of harness/C19/harness.cxx (k1 k2 k3 pw cu f11 f12 f13 K1 K2 K3 F11 F12 F13 kf1 kf2 kf3).
   The wrapper kinds (K1 .. F13) accept the suffixes `[v][+c]`: `v` = the `tfel::math::vector` constructors
   (same arithmetic as the `std::vector` ones: same answer), `+c` = constructor argument `c` has one element
   more than the others: `raise_if<KrigingErrorInvalidLength>(vx.size() != v?.size() ...)` fires.
   Rat requests (exact; data as `p/q`): the kind is prefixed by `q` (qk1 qpw qcu qf11), as served by
   harness/C19/exact.cxx.
   answers:  ok N m <N*N> rhs <N> [ev <n+nq>]   (ev only when the unknowns were given)
             err no-data | insufficient-data | degenerate | invalid-length -/
import TfelVerif.C19.Model
open TfelVerif.C19

def hexVal (c : Char) : Option UInt64 :=
  if '0' ≤ c ∧ c ≤ '9' then some (c.toNat - '0'.toNat).toUInt64
  else if 'a' ≤ c ∧ c ≤ 'f' then some (c.toNat - 'a'.toNat + 10).toUInt64
  else none

def parseHex (s : String) : Option Float :=
  if s.length ≠ 16 then none
  else (s.foldl (fun acc c => match acc, hexVal c with
      | some a, some v => some (a * 16 + v)
      | _, _ => none) (some (0 : UInt64))).map Float.ofBits

def hexDigit (v : UInt64) : Char :=
  let n := v.toNat
  if n < 10 then Char.ofNat (n + '0'.toNat) else Char.ofNat (n - 10 + 'a'.toNat)

def showHex (x : Float) : String :=
  if x.isNaN then "nan"
  else
    let b := x.toBits
    String.ofList ((List.range 16).map fun i => hexDigit ((b >>> (4 * (15 - i)).toUInt64) &&& 15))

def parseRat (s : String) : Option Rat :=
  match s.splitOn "/" with
  | [p] => p.toInt?.map fun n => (n : Rat)
  | [p, q] =>
    match p.toInt?, q.toNat? with
    | some n, some d => if d = 0 then none else some (mkRat n d)
    | _, _ => none
  | _ => none

def showRat (r : Rat) : String := s!"{r.num}/{r.den}"

def parseAll {α : Type} (p : String → Option α) (l : List String) : Option (Array α) :=
  l.foldl (fun acc s => match acc, p s with
    | some a, some v => some (a.push v)
    | _, _ => none) (some #[])

def fnFloat : Fn Float :=
  { abs := Float.abs, sqrt := Float.sqrt, log := Float.log,
    eps := Float.ofBits 0x3CB0000000000000, dmin := Float.ofBits 0x0010000000000000,
    ten := 10.0, half := 0.5 }

/-- only `abs` is meaningful over `Rat` (the exact kinds use no `sqrt`/`log`) -/
def fnRat : Fn Rat :=
  { abs := fun x => if x < 0 then -x else x, sqrt := id, log := id, eps := 0, dmin := 0, ten := 10, half := 1 / 2 }

section generic
variable {α : Type} [Inhabited α] [OfNat α 0] [OfNat α 1] [Add α] [Sub α] [Mul α] [Div α] [Neg α]
variable [LT α] [DecidableRel (fun a b : α => a < b)]

def render {V : Type} [Sub V] (sh : α → String) (M : KModel V α) (insufficient : Bool) (n nq : Nat)
    (x q : Nat → V) (f : Nat → α) (a : Option (Nat → α)) : String :=
  if n = 0 then "err no-data"
  else if insufficient then "err insufficient-data"
  else
    let N := n + M.nb
    let m := (List.range (N * N)).map fun t => sh (entry M n x (t / N) (t % N))
    let r := (List.range N).map fun t => sh (rhs n f t)
    let head := s!"ok {N} m {" ".intercalate m} rhs {" ".intercalate r}"
    match a with
    | none => head
    | some a =>
      let ev := (List.range n).map (fun k => sh (evalK M n x a (x k))) ++
                (List.range nq).map (fun k => sh (evalK M n x a (q k)))
      head ++ " ev " ++ " ".intercalate ev

def pt1 (d : Array α) (off st : Nat) (i : Nat) : α := d[off + st * i]!
def pt2 (d : Array α) (off st : Nat) (i : Nat) : V2 α := ⟨d[off + st * i]!, d[off + st * i + 1]!⟩
def pt3 (d : Array α) (off st : Nat) (i : Nat) : V3 α :=
  ⟨d[off + st * i]!, d[off + st * i + 1]!, d[off + st * i + 2]!⟩

/-- normalisation coefficients of column `c` of the `n` points stored with stride `st` at `off` -/
def normCol (fn : Fn α) (d : Array α) (off st c n : Nat) : Option (α × α) :=
  normalize fn d[off + c]! ((List.range (n - 1)).map fun i => d[off + st * (i + 1) + c]!)

def answerWith (fn : Fn α) (sh : α → String) (kind : String) (n nq : Nat) (d : Array α)
    (a : Option (Nat → α)) : String :=
  let dim : Nat :=
    if kind ∈ ["k1", "pw", "kf1", "K1"] then 1
    else if kind ∈ ["k2", "kf2", "K2", "cu", "f11", "F11"] then 2
    else if kind ∈ ["k3", "kf3", "K3", "f12", "F12"] then 3
    else if kind ∈ ["f13", "F13"] then 4 else 0
  let nn : Nat :=
    if kind ∈ ["k1", "k2", "k3", "pw", "kf1", "kf2", "kf3"] then 1 else if kind = "cu" then n else 0
  if dim = 0 then "bad-op"
  else if d.size ≠ nn + n * dim + n + nq * dim then "bad-op"
  else
    let op := nn
    let of_ := nn + n * dim
    let oq := of_ + n
    let f : Nat → α := fun i => d[of_ + i]!
    let pw := pieceWise1D fn 0
    match kind with
    | "k1" | "kf1" =>
      let M := default1D fn d[0]!
      render sh M (n ≤ M.nb) n nq (pt1 d op 1) (pt1 d oq 1) f a
    | "pw" =>
      let M := pieceWise1D fn d[0]!
      render sh M (n ≤ M.nb) n nq (pt1 d op 1) (pt1 d oq 1) f a
    | "k2" | "kf2" =>
      let M := default2D fn d[0]!
      render sh M (n ≤ M.nb) n nq (pt2 d op 2) (pt2 d oq 2) f a
    | "k3" | "kf3" =>
      let M := default3D fn d[0]!
      render sh M (n ≤ M.nb) n nq (pt3 d op 3) (pt3 d oq 3) f a
    | "cu" =>
      let M := customL1 fn (fun i => d[i]!)
      render sh M (n ≤ M.nb) n nq (pt2 d op 2) (pt2 d oq 2) f a
    | "f11" =>
      let M2 := adaptator (default1D fn 0)
      render sh (factorized pw M2) (n ≤ pw.nb || n ≤ M2.nb) n nq
        (fun i => (⟨pt1 d op 2 i, pt1 d (op + 1) 2 i⟩ : P2 α α))
        (fun i => ⟨pt1 d oq 2 i, pt1 d (oq + 1) 2 i⟩) f a
    | "f12" =>
      let M2 := adaptator (default2D fn 0)
      render sh (factorized pw M2) (n ≤ pw.nb || n ≤ M2.nb) n nq
        (fun i => (⟨pt1 d op 3 i, pt2 d (op + 1) 3 i⟩ : P2 α (V2 α)))
        (fun i => ⟨pt1 d oq 3 i, pt2 d (oq + 1) 3 i⟩) f a
    | "f13" =>
      let M2 := adaptator (default3D fn 0)
      render sh (factorized pw M2) (n ≤ pw.nb || n ≤ M2.nb) n nq
        (fun i => (⟨pt1 d op 4 i, pt3 d (op + 1) 4 i⟩ : P2 α (V3 α)))
        (fun i => ⟨pt1 d oq 4 i, pt3 d (oq + 1) 4 i⟩) f a
    | "K1" =>
      match normCol fn d op 1 0 n with
      | some c0 =>
        let M := default1D fn 0
        render sh M (n ≤ M.nb) n nq (fun i => affine c0 (pt1 d op 1 i)) (fun i => affine c0 (pt1 d oq 1 i)) f a
      | none => "err degenerate"
    | "K2" =>
      match normCol fn d op 2 0 n, normCol fn d op 2 1 n with
      | some c0, some c1 =>
        let M := default2D fn 0
        let nz : V2 α → V2 α := fun v => ⟨affine c0 v.x, affine c1 v.y⟩
        render sh M (n ≤ M.nb) n nq (fun i => nz (pt2 d op 2 i)) (fun i => nz (pt2 d oq 2 i)) f a
      | _, _ => "err degenerate"
    | "K3" =>
      match normCol fn d op 3 0 n, normCol fn d op 3 1 n, normCol fn d op 3 2 n with
      | some c0, some c1, some c2 =>
        let M := default3D fn 0
        let nz : V3 α → V3 α := fun v => ⟨affine c0 v.x, affine c1 v.y, affine c2 v.z⟩
        render sh M (n ≤ M.nb) n nq (fun i => nz (pt3 d op 3 i)) (fun i => nz (pt3 d oq 3 i)) f a
      | _, _, _ => "err degenerate"
    | "F11" =>
      match normCol fn d op 2 0 n, normCol fn d op 2 1 n with
      | some c0, some c1 =>
        let M2 := adaptator (default1D fn 0)
        render sh (factorized pw M2) (n ≤ pw.nb || n ≤ M2.nb) n nq
          (fun i => (⟨affine c0 (pt1 d op 2 i), affine c1 (pt1 d (op + 1) 2 i)⟩ : P2 α α))
          (fun i => ⟨affine c0 (pt1 d oq 2 i), affine c1 (pt1 d (oq + 1) 2 i)⟩) f a
      | _, _ => "err degenerate"
    | "F12" =>
      match normCol fn d op 3 0 n, normCol fn d op 3 1 n, normCol fn d op 3 2 n with
      | some c0, some c1, some c2 =>
        let M2 := adaptator (default2D fn 0)
        let nz : V2 α → V2 α := fun v => ⟨affine c1 v.x, affine c2 v.y⟩
        render sh (factorized pw M2) (n ≤ pw.nb || n ≤ M2.nb) n nq
          (fun i => (⟨affine c0 (pt1 d op 3 i), nz (pt2 d (op + 1) 3 i)⟩ : P2 α (V2 α)))
          (fun i => ⟨affine c0 (pt1 d oq 3 i), nz (pt2 d (oq + 1) 3 i)⟩) f a
      | _, _, _ => "err degenerate"
    | "F13" =>
      match normCol fn d op 4 0 n, normCol fn d op 4 1 n, normCol fn d op 4 2 n, normCol fn d op 4 3 n with
      | some c0, some c1, some c2, some c3 =>
        let M2 := adaptator (default3D fn 0)
        let nz : V3 α → V3 α := fun v => ⟨affine c1 v.x, affine c2 v.y, affine c3 v.z⟩
        render sh (factorized pw M2) (n ≤ pw.nb || n ≤ M2.nb) n nq
          (fun i => (⟨affine c0 (pt1 d op 4 i), nz (pt3 d (op + 1) 4 i)⟩ : P2 α (V3 α)))
          (fun i => ⟨affine c0 (pt1 d oq 4 i), nz (pt3 d (oq + 1) 4 i)⟩) f a
      | _, _, _, _ => "err degenerate"
    | _ => "bad-op"

def serve (fn : Fn α) (parse : String → Option α) (sh : α → String) (kind : String) (ns nqs : String)
    (rest : List String) : String :=
  let (dat, sol) := rest.span (· ≠ "|")
  match ns.toNat?, nqs.toNat?, parseAll parse dat, parseAll parse (sol.drop 1) with
  | some n, some nq, some d, some s =>
    let a : Option (Nat → α) := if sol.isEmpty then none else some (fun i => s[i]!)
    answerWith fn sh kind n nq d a
  | _, _, _, _ => "bad-op"

end generic

def wrapperKinds : List String := ["K1", "K2", "K3", "F11", "F12", "F13"]

/-- `K2v+1` ↦ (`K2`, some "1"); `K2v` ↦ (`K2`, none); other kinds are returned unchanged -/
def splitKind (kind : String) : String × Option String :=
  let (b, c) : String × Option String :=
    match kind.splitOn "+" with
    | [b, c] => (b, some c)
    | _ => (kind, none)
  match wrapperKinds.find? (fun w => b = w ∨ b = w ++ "v") with
  | some w => (w, c)
  | none => (kind, none)

def answer (line : String) : String :=
  match (line.trimAscii.toString.splitOn " ").filter (· ≠ "") with
  | kind0 :: ns :: nqs :: rest =>
    let (kind, longer) := splitKind kind0
    if longer.isSome then "err invalid-length"
    else if kind.startsWith "q" then serve fnRat parseRat showRat (kind.drop 1).toString ns nqs rest
    else serve fnFloat parseHex showHex kind ns nqs rest
  | _ => "bad-op"

partial def loop (h : IO.FS.Stream) : IO Unit := do
  let line ← h.getLine
  if line.isEmpty then return ()
  IO.println (answer line)
  loop h

def main : IO Unit := do loop (← IO.getStdin)
