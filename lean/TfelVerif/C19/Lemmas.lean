/-
  C19 — helper lemmas: the model's loops as `Finset` sums, the row of the assembled system at a
  training point, facts about the normalisation.
-/
import Mathlib.Algebra.BigOperators.Group.Finset.Basic
import Mathlib.Algebra.BigOperators.Group.Finset.Piecewise
import Mathlib.Algebra.BigOperators.Ring.Finset
import Mathlib.Algebra.Order.Field.Basic
import Mathlib.Tactic.Ring
import Mathlib.Tactic.Linarith
import Mathlib.Tactic.SplitIfs
import TfelVerif.C19.Model

namespace TfelVerif.C19
open Finset

variable {K : Type} [CommRing K] {V : Type} [Sub V]

theorem sumFrom_eq (r0 : K) (f : ℕ → K) (n : ℕ) :
    sumFrom r0 f n = r0 + ∑ i ∈ range n, f i := by
  induction n with
  | zero => simp [sumFrom]
  | succ k ih => simp [sumFrom, ih, sum_range_succ, add_assoc]

/-- `operator()` as two sums -/
theorem evalK_eq (M : KModel V K) (n : ℕ) (x : ℕ → V) (a : ℕ → K) (xv : V) :
    evalK M n x a xv =
      (∑ i ∈ range n, a i * M.cov (xv - x i)) + ∑ k ∈ range M.nb, a (n + k) * M.drift k xv := by
  simp [evalK, sumFrom_eq]

/-- the row of the assembled matrix at training point `k`, applied to `a`: point block + drift block -/
theorem row_eq (M : KModel V K) (n : ℕ) (x : ℕ → V) (a : ℕ → K) (k : ℕ) (hk : k < n) :
    (∑ c ∈ range (n + M.nb), entry M n x k c * a c) =
      (∑ c ∈ range n, entry M n x k c * a c) + ∑ j ∈ range M.nb, M.drift j (x k) * a (n + j) := by
  rw [sum_range_add]
  congr 1
  apply sum_congr rfl
  intro j _
  simp [entry, hk]

/-- entry `(k,c)` of the point block is the covariance that `operator()` uses at `x k`, except on the
diagonal — provided the covariance takes the same value on `x k - x c` and `x c - x k` -/
theorem entry_point_block (M : KModel V K) (n : ℕ) (x : ℕ → V) (k c : ℕ) (hk : k < n) (hc : c < n)
    (hev : M.cov (x c - x k) = M.cov (x k - x c)) :
    entry M n x k c =
      M.cov (x k - x c) - (if c = k then M.cov (x k - x k) - M.nugget k (x k) else 0) := by
  unfold entry
  simp only [hk, hc, if_true]
  by_cases h1 : c < k
  · have : c ≠ k := Nat.ne_of_lt h1
    simp [h1, this]
  · by_cases h2 : k < c
    · have : c ≠ k := Nat.ne_of_gt h2
      simp [h1, h2, this, hev]
    · have : c = k := by omega
      subst this
      simp

theorem point_block_sum (M : KModel V K) (n : ℕ) (x : ℕ → V) (a : ℕ → K) (k : ℕ) (hk : k < n)
    (hev : ∀ c, c < n → M.cov (x c - x k) = M.cov (x k - x c)) :
    (∑ c ∈ range n, entry M n x k c * a c) =
      (∑ c ∈ range n, a c * M.cov (x k - x c)) - (M.cov (x k - x k) - M.nugget k (x k)) * a k := by
  have h : ∀ c ∈ range n, entry M n x k c * a c =
      a c * M.cov (x k - x c) -
        (if c = k then (M.cov (x k - x k) - M.nugget k (x k)) * a k else 0) := by
    intro c hc
    have hc' : c < n := mem_range.mp hc
    rw [entry_point_block M n x k c hk hc' (hev c hc')]
    by_cases hck : c = k
    · subst hck; simp; ring
    · simp [hck]; ring
  rw [sum_congr rfl h, sum_sub_distrib, sum_ite_eq' (range n) k]
  simp [hk]

/-! ### projections of the componentwise differences -/
section proj
variable {α A B : Type} [Sub α] [Sub A] [Sub B]
@[simp] theorem V2.sub_x (u v : V2 α) : (u - v).x = u.x - v.x := rfl
@[simp] theorem V2.sub_y (u v : V2 α) : (u - v).y = u.y - v.y := rfl
@[simp] theorem V3.sub_x (u v : V3 α) : (u - v).x = u.x - v.x := rfl
@[simp] theorem V3.sub_y (u v : V3 α) : (u - v).y = u.y - v.y := rfl
@[simp] theorem V3.sub_z (u v : V3 α) : (u - v).z = u.z - v.z := rfl
@[simp] theorem P2.sub_a (u v : P2 A B) : (u - v).a = u.a - v.a := rfl
@[simp] theorem P2.sub_b (u v : P2 A B) : (u - v).b = u.b - v.b := rfl
end proj

/-! ### normalisation -/
section order
variable {F : Type} [Field F] [LinearOrder F] [IsStrictOrderedRing F]

theorem affine_injective (ab : F × F) (h : ab.1 ≠ 0) (u v : F) (huv : affine ab u = affine ab v) :
    u = v := by
  unfold affine at huv
  have : ab.1 * u = ab.1 * v := by linarith
  exact mul_left_cancel₀ h this

end order

end TfelVerif.C19
