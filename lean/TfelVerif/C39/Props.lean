/-
  C39 — Generic behaviour entry point honours its calling convention.

  Theorems about the model of `mfront::gb::integrate` / `computePredictionOperator` /
  `getStressMeasure` / `getTangentOperator` (TfelVerif/C39/Model.lean), for every script of the mock
  behaviour and every `K[0]` in an ordered field (NaN-free reals; see checks/meta/C39.json for why
  `K[0] - 100` in `double` decodes identically).

  `Variant.predOnKe = true` is the tree with patches/C39-prediction-operator-flag.diff;
  `Variant.predOnKe = false` is the tree before it, in which the prediction operator is decoded from the
  raw `K[0]` (so the +100 speed-of-sound flag turns every prediction request into an ELASTIC one:
  `shipped_flagged_prediction_is_elastic`). checks/C39.py finds out which one the tree implements.
-/
import Mathlib.Algebra.Order.Field.Basic
import Mathlib.Tactic.NormNum.OfScientific
import Mathlib.Tactic.NormNum.Basic
import Mathlib.Tactic.Linarith
import Mathlib.Tactic.SplitIfs
import Mathlib.Tactic.Ring
import Mathlib.Tactic.Tauto
import TfelVerif.C39.Lemmas

set_option linter.unusedSimpArgs false
set_option linter.unusedSectionVars false

namespace TfelVerif.C39.Props
open TfelVerif.C39

variable {K : Type} [Field K] [LinearOrder K] [IsStrictOrderedRing K]

/-! ## decoding of `K[0]` -/

/-- the +100 flag: `bs = K[0] > 50` -/
theorem flagged_iff (k0 : K) : flagged k0 = true ↔ 50 < k0 := by
  simp only [flagged, decide_eq_true_eq]
  norm_num

/-- `K0' = K0 − 100·[K0 > 50]` -/
theorem effK0_eq (k0 : K) : effK0 k0 = if 50 < k0 then k0 - 100 else k0 := by
  unfold effK0
  by_cases h : 50 < k0
  · have : flagged k0 = true := (flagged_iff k0).2 h
    simp only [this, if_true, h]
    norm_num
  · have : ¬ flagged k0 = true := fun hh => h ((flagged_iff k0).1 hh)
    simp [this, h]

/-- a prediction operator is requested iff `K0' < −0.25` -/
theorem isPrediction_iff (ke : K) : isPrediction ke = true ↔ ke < -0.25 := by
  simp [isPrediction]

/-- integration requests: the operator kind by the documented intervals -/
theorem integSmt_intervals (ke : K) :
    (ke < 0.5 → integSmt ke = .noStiffness) ∧
    (0.5 < ke → ke < 1.5 → integSmt ke = .elastic) ∧
    (1.5 < ke → ke < 2.5 → integSmt ke = .secant) ∧
    (2.5 < ke → ke < 3.5 → integSmt ke = .tangent) ∧
    (3.5 < ke → integSmt ke = .consistent) := by
  unfold integSmt
  refine ⟨?_, ?_, ?_, ?_, ?_⟩ <;> intros <;> split_ifs <;> first | rfl | (exfalso; norm_num at *; grind)

/-- exact behaviour of the strict comparison chains on the frontiers: every frontier value falls
through to CONSISTENTTANGENTOPERATOR (`Ke < 0.5` false and `0.5 < Ke` false, etc.) -/
theorem integSmt_frontiers :
    integSmt (0.5 : K) = .consistent ∧ integSmt (1.5 : K) = .consistent ∧
    integSmt (2.5 : K) = .consistent ∧ integSmt (3.5 : K) = .consistent := by
  unfold integSmt
  refine ⟨?_, ?_, ?_, ?_⟩ <;> norm_num

/-- prediction requests: the operator kind by the documented intervals (applied to `predK`) -/
theorem predSmt_intervals (k : K) :
    (-1.5 < k → predSmt k = .elastic) ∧
    (-2.5 < k → k < -1.5 → predSmt k = .secant) ∧
    (k < -2.5 → predSmt k = .tangent) := by
  unfold predSmt
  refine ⟨?_, ?_, ?_⟩ <;> intros <;> split_ifs <;> first | rfl | (exfalso; norm_num at *; grind)

/-- frontiers of the prediction chain: `−1.5` and `−2.5` both give TANGENTOPERATOR
(`-1.5 < K0` false, `K0 < -1.5` false: falls through) -/
theorem predSmt_frontiers : predSmt (-1.5 : K) = .tangent ∧ predSmt (-2.5 : K) = .tangent := by
  unfold predSmt
  refine ⟨?_, ?_⟩ <;> norm_num

/-- the computation requested by `K[0]`, as the patched code decodes it:
(speed of sound requested, prediction only, operator kind) -/
def decode (k0 : K) : Bool × Bool × SMType :=
  (flagged k0, isPrediction (effK0 k0),
    if isPrediction (effK0 k0) then predSmt (effK0 k0) else integSmt (effK0 k0))

/-- the documented integer codes, without the speed-of-sound flag -/
theorem documented_codes :
    decode (-3 : K) = (false, true, .tangent) ∧ decode (-2 : K) = (false, true, .secant) ∧
    decode (-1 : K) = (false, true, .elastic) ∧ decode (0 : K) = (false, false, .noStiffness) ∧
    decode (1 : K) = (false, false, .elastic) ∧ decode (2 : K) = (false, false, .secant) ∧
    decode (3 : K) = (false, false, .tangent) ∧ decode (4 : K) = (false, false, .consistent) := by
  simp only [decode, effK0_eq, flagged, isPrediction, predSmt, integSmt]
  refine ⟨?_, ?_, ?_, ?_, ?_, ?_, ?_, ?_⟩ <;> norm_num

/-- the documented integer codes with the +100 speed-of-sound flag -/
theorem documented_codes_with_flag :
    decode (97 : K) = (true, true, .tangent) ∧ decode (98 : K) = (true, true, .secant) ∧
    decode (99 : K) = (true, true, .elastic) ∧ decode (100 : K) = (true, false, .noStiffness) ∧
    decode (101 : K) = (true, false, .elastic) ∧ decode (102 : K) = (true, false, .secant) ∧
    decode (103 : K) = (true, false, .tangent) ∧ decode (104 : K) = (true, false, .consistent) := by
  simp only [decode, effK0_eq, flagged, isPrediction, predSmt, integSmt]
  refine ⟨?_, ?_, ?_, ?_, ?_, ?_, ?_, ?_⟩ <;> norm_num

/-- the flag does not change the request: `K[0]` and `K[0] + 100` ask for the same computation
(for every request below the flag threshold once shifted back, i.e. every documented one) -/
theorem decode_flag_invariant (k0 : K) (h1 : k0 ≤ 50) (h2 : -50 < k0) :
    (decode (k0 + 100)).2 = (decode k0).2 ∧ (decode (k0 + 100)).1 = true ∧ (decode k0).1 = false := by
  have e1 : effK0 (k0 + 100) = k0 := by
    rw [effK0_eq, if_pos (by linarith)]
    ring
  have e2 : effK0 k0 = k0 := by rw [effK0_eq, if_neg (by linarith)]
  have f1 : flagged (k0 + 100) = true := (flagged_iff _).2 (by linarith)
  have f2 : flagged k0 = false := by
    rw [Bool.eq_false_iff]
    exact fun h => absurd ((flagged_iff _).1 h) (by linarith)
  simp [decode, e1, e2, f1, f2]

/-! ## finite strain helpers (`K[1]`, `K[2]`) -/

theorem stressMeasure_table (k1 : K) :
    (k1 < 0.5 → stressMeasure k1 = .cauchy) ∧ (0.5 ≤ k1 → k1 < 1.5 → stressMeasure k1 = .pk2) ∧
    (1.5 ≤ k1 → k1 < 2.5 → stressMeasure k1 = .pk1) ∧ (2.5 ≤ k1 → stressMeasure k1 = .invalid) := by
  unfold stressMeasure
  refine ⟨?_, ?_, ?_, ?_⟩ <;> intros <;> split_ifs <;> first | rfl | (exfalso; norm_num at *; grind)

theorem fsTangentOperator_table (k0 k2 : K) (h : ¬ (-0.5 < k0 ∧ k0 < 0.5)) :
    (k2 < 0.5 → fsTangentOperator k0 k2 = .dsig_dF) ∧
    (0.5 ≤ k2 → k2 < 1.5 → fsTangentOperator k0 k2 = .dS_dEGL) ∧
    (1.5 ≤ k2 → k2 < 2.5 → fsTangentOperator k0 k2 = .dPK1_dF) ∧
    (2.5 ≤ k2 → k2 < 3.5 → fsTangentOperator k0 k2 = .dtau_ddF) ∧
    (3.5 ≤ k2 → fsTangentOperator k0 k2 = .c_truesdell) := by
  unfold fsTangentOperator
  refine ⟨?_, ?_, ?_, ?_, ?_⟩ <;> intros <;> split_ifs <;> first | rfl | (exfalso; norm_num at *; grind)

/-- no stiffness requested: the choice of operator is not looked at -/
theorem fsTangentOperator_no_stiffness (k0 k2 : K) (h : -0.5 < k0 ∧ k0 < 0.5) :
    fsTangentOperator k0 k2 = .dsig_dF := by
  unfold fsTangentOperator
  rw [if_pos h]

/-! ## the run: which behaviour methods are called, with what -/

/-- every call of `computePredictionOperator` / `integrate` made on the behaviour carries the operator
flag of the caller and the operator kind decoded from `K[0]`; a prediction is computed only for a
prediction request, an integration only for an integration request (any variant: `predK`) -/
theorem calls_are_decoded (v : Variant) (s : Script K) :
    ∀ e ∈ (integrate v s).st.ev,
      (∀ f t, e = .pred f t → f = s.smflag ∧ isPrediction (effK0 s.k0) = true ∧ t = predSmt (predK v s)) ∧
      (∀ f t, e = .int f t → f = s.smflag ∧ isPrediction (effK0 s.k0) = false ∧ t = integSmt (effK0 s.k0)) := by
  intro e he
  have h := integrate_events v s e he
  constructor
  · rintro f t rfl
    rcases h with h | h | h | h | h <;> simp_all [PreEv, TailEv]
  · rintro f t rfl
    rcases h with h | h | h | h | h <;> simp_all [PreEv, TailEv]

/-- **patched tree**: the operator kind of a prediction is decoded from `K[0]` *without* the flag: the
request `K[0] + 100` computes the same prediction operator as `K[0]` -/
theorem prediction_request_honoured (lateExport : Bool) (s : Script K) :
    ∀ e ∈ (integrate ⟨lateExport, true⟩ s).st.ev, ∀ f t, e = .pred f t → t = predSmt (effK0 s.k0) := by
  intro e he f t hft
  have := ((calls_are_decoded ⟨lateExport, true⟩ s e he).1 f t hft).2.2
  simpa [predK] using this

/-- **tree before the patch** (`predOnKe = false`): with the speed-of-sound flag the raw `K[0] > 50`
is compared with `-1.5`, so every prediction request — secant (98) and tangent (97) included — is
served with the ELASTIC prediction operator. This is the C39 defect. -/
theorem shipped_flagged_prediction_is_elastic (lateExport : Bool) (s : Script K) (hf : 50 < s.k0) :
    ∀ e ∈ (integrate ⟨lateExport, false⟩ s).st.ev, ∀ f t, e = .pred f t → t = .elastic := by
  intro e he f t hft
  have := ((calls_are_decoded ⟨lateExport, false⟩ s e he).1 f t hft).2.2
  rw [this]
  simp only [predK, Bool.false_eq_true, if_false]
  exact (predSmt_intervals s.k0).1 (by norm_num; linarith)

/-- the behaviour is constructed, given the out-of-bounds policy of the caller, then initialised:
the policy is passed through unchanged, before anything else happens -/
theorem policy_passed_first (v : Variant) (s : Script K) :
    [Event.ctor, .pol s.policy, .init] <+: (integrate v s).st.ev :=
  integrate_prefix v s

/-- the speed of sound is computed only under the +100 flag -/
theorem speed_of_sound_only_if_flag (v : Variant) (s : Script K) :
    ∀ e ∈ (integrate v s).st.ev, (e = .sos0 ∨ e = .sos1 ∨ e = .write .sos) → 50 < s.k0 := by
  intro e he h
  rw [← flagged_iff]
  have hh := integrate_events v s e he
  rcases h with rfl | rfl | rfl <;> rcases hh with hh | hh | hh | hh | hh <;> simp_all [PreEv, TailEv]

/-! ## the return value -/

/-- all the steps of a request succeed -/
def succeeds (s : Script K) : Prop :=
  s.init = .ok ∧ ¬ cbRaises s ∧
  (if isPrediction (effK0 s.k0) = true then predictionOk s
   else (s.traits.hasCTO = true ∨ integSmt (effK0 s.k0) = .noStiffness) ∧ integrationOk s ∧ tailOk s)

/-- the return value is `-1`, `0` or `1` -/
theorem return_value_range (v : Variant) (s : Script K) :
    (integrate v s).ret = -1 ∨ (integrate v s).ret = 0 ∨ (integrate v s).ret = 1 := by
  cases hc : (body v s (st0 s)).code with
  | none =>
    rw [(integrate_ret_none v s hc).1]
    split_ifs <;> simp
  | some c =>
    rw [integrate_ret_some v s hc]
    rw [body_code_eq] at hc
    split_ifs at hc <;> simp_all

/-- **`-1` on any failing step, and only then**: the call succeeds (returns `0` or `1`) iff the
initialisation succeeds, `checkBounds` does not raise, the behaviour provides the requested operator,
and every step of the requested computation succeeds -/
theorem returns_failure_iff (v : Variant) (s : Script K) :
    (integrate v s).ret = -1 ↔ ¬ succeeds s := by
  unfold succeeds
  have hcto : (s.traits.hasCTO = true ∨ integSmt (effK0 s.k0) = .noStiffness) ↔
      ¬ (s.traits.hasCTO = false ∧ integSmt (effK0 s.k0) ≠ .noStiffness) := by
    by_cases hh : s.traits.hasCTO = true <;> simp [hh]
  by_cases h1 : s.init = .ok
  swap
  · have hc : (body v s (st0 s)).code = some (-1) := by rw [body_code_eq]; simp [h1]
    simp [integrate_ret_some v s hc, h1]
  by_cases h2 : cbRaises s
  · have hc : (body v s (st0 s)).code = some (-1) := by rw [body_code_eq]; simp [h1, h2]
    simp [integrate_ret_some v s hc, h2]
  by_cases h3 : isPrediction (effK0 s.k0) = true
  · by_cases h6 : predictionOk s
    · have hc : (body v s (st0 s)).code = some 1 := by rw [body_code_eq]; simp [h1, h2, h3, h6]
      simp [integrate_ret_some v s hc, h1, h2, h3, h6]
    · have hc : (body v s (st0 s)).code = some (-1) := by rw [body_code_eq]; simp [h1, h2, h3, h6]
      simp [integrate_ret_some v s hc, h1, h2, h3, h6]
  · by_cases h4 : s.traits.hasCTO = false ∧ integSmt (effK0 s.k0) ≠ .noStiffness
    · have hc : (body v s (st0 s)).code = some (-1) := by rw [body_code_eq]; simp [h1, h2, h3, h4]
      rw [integrate_ret_some v s hc, hcto]
      simp [h3, h4]
    · by_cases h5 : integrationOk s ∧ tailOk s
      · have hc : (body v s (st0 s)).code = none := by rw [body_code_eq]; simp [h1, h2, h3, h4, h5]
        have hr := (integrate_ret_none v s hc).1
        have : (integrate v s).ret ≠ -1 := by
          rw [hr]; split_ifs <;> simp
        rw [hcto]
        simp [this, h1, h2, h3, h4, h5]
      · have hc : (body v s (st0 s)).code = some (-1) := by rw [body_code_eq]; simp [h1, h2, h3, h4, h5]
        rw [integrate_ret_some v s hc, hcto]
        simp only [h3, if_false, true_iff]
        rintro ⟨_, _, hh⟩
        simp only [Bool.false_eq_true, if_false] at hh
        exact h5 hh.2

/-- integration requests: on success the value returned is `0` if the proposed time step scaling
factor is below `0.99`, `1` otherwise; the factor is the a priori one, lowered to the a posteriori one
(`rdt = tsf.second; if (rdt > atsf.second) rdt = atsf.second;`) -/
theorem integration_return_code (v : Variant) (s : Script K)
    (hi : isPrediction (effK0 s.k0) = false) (hs : (integrate v s).ret ≠ -1) :
    (integrate v s).ret = (if (integrate v s).st.rdt < 0.99 then 0 else 1) ∧
    (integrate v s).st.rdt = (if s.apoF < s.apF then s.apoF else s.apF) := by
  have hsucc : succeeds s := by
    by_contra h
    exact hs ((returns_failure_iff v s).2 h)
  obtain ⟨h1, h2, h3⟩ := hsucc
  simp only [hi, Bool.false_eq_true, if_false] at h3
  obtain ⟨h3, h4, h5⟩ := h3
  have hc : (body v s (st0 s)).code = none := by
    rw [body_code_eq]
    have : ¬ (s.traits.hasCTO = false ∧ integSmt (effK0 s.k0) ≠ .noStiffness) := by
      rintro ⟨ha, hb⟩
      rcases h3 with h3 | h3
      · simp [h3] at ha
      · exact hb h3
    simp [h1, h2, hi, this, h4, h5]
  obtain ⟨hr, hst⟩ := integrate_ret_none v s hc
  refine ⟨hr, ?_⟩
  rw [hst]
  -- rdt is set by `stepIntegrate` and untouched afterwards
  have hpre : pre v s (st0 s) = stepIntegrate s (integSmt (effK0 s.k0))
      (log (if s.oob ≠ .inside ∧ s.policy = .warning then log (log (log (st0 s) .init) .cb) .warn
        else log (log (st0 s) .init) .cb) .cbdone) := by
    unfold pre
    rw [stepInit_ok s _ h1]
    simp only [R.bind]
    rw [stepCheckBounds_ok s _ h2]
    simp only [R.bind, hi, Bool.false_eq_true, if_false]
    rw [if_neg]
    rintro ⟨ha, hb⟩
    rcases h3 with h3 | h3
    · simp [h3] at ha
    · exact hb h3
  unfold body
  rw [hpre, stepIntegrate_ok s _ _ h4]
  simp only [R.bind]
  split
  · rw [tailLate_rdt]
  · rw [tailEarly_rdt]

/-- prediction requests: on success `1` is returned and `rdt` is left as the caller set it -/
theorem prediction_return_code (v : Variant) (s : Script K)
    (hp : isPrediction (effK0 s.k0) = true) (hs : (integrate v s).ret ≠ -1) :
    (integrate v s).ret = 1 := by
  have hsucc : succeeds s := by
    by_contra h
    exact hs ((returns_failure_iff v s).2 h)
  obtain ⟨h1, h2, h3⟩ := hsucc
  simp only [hp, if_true] at h3
  have hc : (body v s (st0 s)).code = some 1 := by
    rw [body_code_eq]
    simp [h1, h2, hp, h3]
  exact integrate_ret_some v s hc

/-- **the speed of sound is computed iff the +100 flag is set** (with `speed_of_sound_only_if_flag`):
a successful call with the flag has stored `d.speed_of_sound` -/
theorem speed_of_sound_computed_if_flag (v : Variant) (s : Script K)
    (hs : (integrate v s).ret ≠ -1) (hf : 50 < s.k0) :
    Event.write Out.sos ∈ (integrate v s).st.ev := by
  have hfl : flagged s.k0 = true := (flagged_iff _).2 hf
  have hsucc : succeeds s := by
    by_contra h
    exact hs ((returns_failure_iff v s).2 h)
  obtain ⟨h1, h2, h3⟩ := hsucc
  apply (integrate_ev_of_body v s).subset
  -- `pre` up to the branch on the kind of request
  have hpre : pre v s (st0 s) = (fun st =>
      if isPrediction (effK0 s.k0) = true then stepPred v s st
      else if (!s.traits.hasCTO) = true ∧ integSmt (effK0 s.k0) ≠ .noStiffness then
        .ret (-1) { st with msg := .noTangentOperator }
      else stepIntegrate s (integSmt (effK0 s.k0)) st)
      (log (if s.oob ≠ .inside ∧ s.policy = .warning then log (log (log (st0 s) .init) .cb) .warn
        else log (log (st0 s) .init) .cb) .cbdone) := by
    unfold pre
    rw [stepInit_ok s _ h1]
    simp only [R.bind]
    rw [stepCheckBounds_ok s _ h2]
  generalize (log (if s.oob ≠ .inside ∧ s.policy = .warning then log (log (log (st0 s) .init) .cb) .warn
        else log (log (st0 s) .init) .cb) .cbdone) = st2 at hpre
  by_cases hp : isPrediction (effK0 s.k0) = true
  · -- prediction: the speed of sound is stored before `computePredictionOperator`
    simp only [hp, if_true] at h3 hpre
    obtain ⟨hq, -, -, -⟩ := h3
    have hsos : stepPredSos s st2 = .next (log (log st2 .sos0) (.write .sos)) := by
      unfold stepPredSos
      rw [if_pos hfl, stepSosCompute_ok s false st2 (hq hfl)]
      simp [R.bind]
    have hbody : (body v s (st0 s)).st = (stepPredOp v s (log (log st2 .sos0) (.write .sos))).st := by
      unfold body
      rw [hpre]
      unfold stepPred
      rw [hsos]
      simp only [R.bind]
      have hc := stepPredOp_code v s (log (log st2 .sos0) (.write .sos))
      cases hq' : stepPredOp v s (log (log st2 .sos0) (.write .sos)) with
      | next st =>
        rw [hq'] at hc
        simp only [R.code_next] at hc
        split_ifs at hc
      | ret c st => rfl
      | thr m st => rfl
    rw [hbody]
    exact (stepPredOp_prefix v s _).subset (by simp)
  · -- integration: stored by what follows the integration, in either order
    have hp' : isPrediction (effK0 s.k0) = false := by simpa using hp
    simp only [hp', Bool.false_eq_true, if_false] at h3 hpre
    obtain ⟨h3, h4, h5⟩ := h3
    have hcto : ¬ ((!s.traits.hasCTO) = true ∧ integSmt (effK0 s.k0) ≠ .noStiffness) := by
      rintro ⟨ha, hb⟩
      rcases h3 with h3 | h3
      · simp [h3] at ha
      · exact hb h3
    rw [if_neg hcto, stepIntegrate_ok s _ _ h4] at hpre
    have hcode : (body v s (st0 s)).code = none := by
      rw [body_code_eq]
      have : ¬ (s.traits.hasCTO = false ∧ integSmt (effK0 s.k0) ≠ .noStiffness) := by
        simpa using hcto
      simp [h1, h2, hp', this, h4, h5]
    obtain ⟨st', hst'⟩ := R.code_none hcode
    rw [hst']
    simp only [R.st_next]
    unfold body at hst'
    rw [hpre] at hst'
    simp only [R.bind] at hst'
    split at hst'
    · unfold tailLate at hst'
      obtain ⟨s1, _, hst'⟩ := R.bind_eq_next hst'
      obtain ⟨s2, _, hst'⟩ := R.bind_eq_next hst'
      obtain ⟨s3, _, hst'⟩ := R.bind_eq_next hst'
      obtain ⟨s4, _, hst'⟩ := R.bind_eq_next hst'
      injection hst' with hst'
      subst hst'
      simp [storeIf, hfl]
    · unfold tailEarly at hst'
      obtain ⟨s1, _, hst'⟩ := R.bind_eq_next hst'
      obtain ⟨s2, _, hst'⟩ := R.bind_eq_next hst'
      obtain ⟨s3, _, hst'⟩ := R.bind_eq_next hst'
      rw [if_pos hfl] at hst'
      obtain ⟨s4, _, hst'⟩ := R.bind_eq_next hst'
      injection hst' with hst'
      subst hst'
      simp

/-! ## the out-of-bounds policy -/

/-- `Strict`: a variable out of its bounds makes the call fail -/
theorem strict_out_of_bounds_fails (v : Variant) (s : Script K)
    (hp : s.policy = .strict) (ho : s.oob ≠ .inside) : (integrate v s).ret = -1 := by
  rw [returns_failure_iff]
  rintro ⟨_, h, _⟩
  exact h (Or.inl ⟨ho, hp⟩)

/-- `Warning` and `None` give the same result as a call with every variable inside its bounds:
the return value does not depend on the position of the variable, nor on which of the two policies
is used -/
theorem warning_and_none_give_the_in_bounds_result (v : Variant) (s : Script K) (p : Policy) (o : Oob)
    (hp : p ≠ .strict) :
    (integrate v { s with policy := p, oob := o }).ret = (integrate v { s with policy := .none, oob := .inside }).ret := by
  have key : ∀ (s1 s2 : Script K), (succeeds s1 ↔ succeeds s2) →
      s1.k0 = s2.k0 → s1.apF = s2.apF → s1.apoF = s2.apoF →
      (integrate v s1).ret = (integrate v s2).ret := by
    intro s1 s2 hiff hk ha hb
    by_cases h1 : succeeds s1
    · have h2 := hiff.1 h1
      have n1 : (integrate v s1).ret ≠ -1 := fun h => (returns_failure_iff v s1).1 h h1
      have n2 : (integrate v s2).ret ≠ -1 := fun h => (returns_failure_iff v s2).1 h h2
      by_cases hpred : isPrediction (effK0 s1.k0) = true
      · rw [prediction_return_code v s1 hpred n1, prediction_return_code v s2 (hk ▸ hpred) n2]
      · have hpred' : isPrediction (effK0 s1.k0) = false := by simpa using hpred
        obtain ⟨r1, d1⟩ := integration_return_code v s1 hpred' n1
        obtain ⟨r2, d2⟩ := integration_return_code v s2 (hk ▸ hpred') n2
        rw [r1, r2, d1, d2, ha, hb]
    · have h2 : ¬ succeeds s2 := fun h => h1 (hiff.2 h)
      rw [(returns_failure_iff v s1).2 h1, (returns_failure_iff v s2).2 h2]
  refine key { s with policy := p, oob := o } { s with policy := .none, oob := .inside } ?_ rfl rfl rfl
  unfold succeeds cbRaises predictionOk integrationOk tailOk toExported
  cases p <;> simp_all

/-! ## non-vacuity (fixed-point scalars, computed in the kernel) -/

example : (integrate ⟨true, true⟩ Cent.script).ret = 1 := by decide
example : (integrate ⟨true, true⟩ { Cent.script with apF := 0.98 }).ret = 0 := by decide
example : (integrate ⟨true, true⟩ { Cent.script with policy := .strict, oob := .above }).ret = -1 := by decide
example : (integrate ⟨true, true⟩ { Cent.script with policy := .warning, oob := .above }).ret = 1 := by decide
/-- secant prediction with the speed of sound: patched tree asks the behaviour for SECANT ... -/
example : Event.pred 0 .secant ∈ (integrate ⟨true, true⟩ { Cent.script with k0 := 98.0 }).st.ev := by decide
/-- ... the tree before the patch asks for ELASTIC -/
example : Event.pred 0 .elastic ∈ (integrate ⟨true, false⟩ { Cent.script with k0 := 98.0 }).st.ev := by decide

end TfelVerif.C39.Props
