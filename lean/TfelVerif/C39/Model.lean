/-
  C39 / C40 — hand-written executable model (core Lean only) of
    mfront/include/MFront/GenericBehaviour/Integrate.hxx
      * `mfront::gb::integrate<Behaviour>`            → `integrate`
      * `mfront::gb::computePredictionOperator`        → `stepPred`
      * `mfront::gb::getStressMeasure`                 → `stressMeasure`
      * `mfront::gb::getTangentOperator`               → `fsTangentOperator`
  run against a *scripted mock behaviour* (harness/C39/mock.hxx): every method of the behaviour
  answers from the script (`Script`) and is logged as an `Event`; every store to an output buffer
  of the caller is logged as `Event.write`.

  The model is polymorphic in the scalar type: it runs on `Float` (= C `double`) in the driver and
  is the object of the theorems over an ordered field in `Props.lean`.

  Two knobs (`Variant`) select between the order of operations shipped at the time of writing and
  the repaired one (patches/C39-prediction-operator-flag.diff, patches/C40-integrate.diff); the
  check finds out which variant the current tree implements by exact correspondence.
-/
namespace TfelVerif.C39

/-- `MechanicalBehaviourBase::SMType` -/
inductive SMType where
  | elastic | secant | tangent | consistent | noStiffness
  deriving DecidableEq, Repr

/-- `tfel::material::OutOfBoundsPolicy` -/
inductive Policy where
  | warning | strict | none
  deriving DecidableEq, Repr

/-- scripted answer of a `bool`/`void` method: `fail` is "returns false" (ignored by void methods) -/
inductive Act where
  | ok | fail | throwStd | throwOther | throwLong
  deriving DecidableEq, Repr

/-- scripted answer of a method returning an `IntegrationResult` -/
inductive Res where
  | success | failure | unreliable | throwStd | throwOther | throwLong
  deriving DecidableEq, Repr

/-- position of the bounded variable of the mock with respect to its bounds, and the
`BoundsCheckBase` routine used -/
inductive Oob where
  | inside | below | above | outside
  deriving DecidableEq, Repr

inductive Stage where
  | init | cb | ap | int | apo | gto | ie | de | sos | pred
  deriving DecidableEq, Repr

/-- content of `d.error_message` after the call -/
inductive Msg where
  | unset | initFailed | noPredictionOperator | noTangentOperator
  | stage (s : Stage) | unknownException | long511 | oob (o : Oob) | unsupportedTangentOperator
  deriving DecidableEq, Repr

/-- output buffers of the caller -/
inductive Out where
  | tf | isv | se | de | k | kpred | sos
  deriving DecidableEq, Repr

/-- the buffers of the output state `d.s1` the property C40 speaks about -/
def Out.isS1 : Out → Bool
  | .tf | .isv | .se | .de => true
  | _ => false

inductive Event (α : Type) where
  | ctor | pol (p : Policy) | init | cb | warn | cbdone
  | ap (r : α) | int (f : Int) (t : SMType) | apo (r : α) | exp | gto | ie | de
  | sos0 | sos1 | pred (f : Int) (t : SMType) | min
  | write (o : Out)
  deriving Repr, DecidableEq

def Event.isWrite {α : Type} : Event α → Option Out
  | .write o => some o
  | _ => none

structure Traits where
  hasPred : Bool
  hasCTO : Bool
  hasIE : Bool
  hasDE : Bool
  deriving DecidableEq, Repr

structure Script (α : Type) where
  traits : Traits
  fs : Bool          -- the tangent operator is a `FiniteStrainBehaviourTangentOperator`
  smflag : Int
  k0 : α
  rdt0 : α
  policy : Policy
  msgbuf : Bool      -- `d.error_message != nullptr`
  init : Act
  oob : Oob
  cb : Act
  ap : Act
  apF : α
  integ : Res
  apo : Act
  apoF : α
  minTsf : α
  gto : Act
  toEmpty : Bool     -- the finite strain operator holds no value: `exportTangentOperator` raises
  ie : Act
  de : Act
  sos : Act
  pred : Res

/-- which tree is modelled -/
structure Variant where
  /-- `true`: `exportStateData` and the energy stores come last (patches/C40-integrate.diff) -/
  lateExport : Bool
  /-- `true`: the prediction operator is decoded from `K[0]` without the +100 flag
  (patches/C39-prediction-operator-flag.diff) -/
  predOnKe : Bool
  deriving DecidableEq, Repr

structure St (α : Type) where
  ev : List (Event α)
  rdt : α
  msg : Msg

/-- outcome of a piece of the `try` block -/
inductive R (α : Type) where
  | next (st : St α)                 -- falls through
  | ret (r : Int) (st : St α)       -- `return r;`
  | thr (m : Msg) (st : St α)       -- an exception escapes (caught by `catch (...)`)

def R.bind {α : Type} (r : R α) (f : St α → R α) : R α :=
  match r with
  | .next st => f st
  | .ret c st => .ret c st
  | .thr m st => .thr m st

def R.st {α : Type} : R α → St α
  | .next st => st
  | .ret _ st => st
  | .thr _ st => st

def log {α : Type} (st : St α) (e : Event α) : St α := { st with ev := st.ev ++ [e] }

/-- message left by `reportFailureByException` for a scripted throw -/
def Act.thrown (a : Act) (s : Stage) : Option Msg :=
  match a with
  | .throwStd => some (.stage s)
  | .throwOther => some .unknownException
  | .throwLong => some .long511
  | _ => none

def Res.thrown (a : Res) (s : Stage) : Option Msg :=
  match a with
  | .throwStd => some (.stage s)
  | .throwOther => some .unknownException
  | .throwLong => some .long511
  | _ => none

section
variable {α : Type} [LT α] [DecidableRel (fun a b : α => a < b)] [Sub α] [Neg α] [OfScientific α]

/-! ### decoding of `K[0]` -/

/-- `const auto bs = d.K[0] > 50;` -/
def flagged (k0 : α) : Bool := decide ((50.0 : α) < k0)

/-- `const auto Ke = bs ? d.K[0] - 100 : d.K[0];` -/
def effK0 (k0 : α) : α := if flagged k0 then k0 - 100.0 else k0

/-- `if (Ke < -0.25)`: prediction operator requested -/
def isPrediction (ke : α) : Bool := decide (ke < -(0.25 : α))

/-- the comparison chain of `computePredictionOperator` -/
def predSmt (k : α) : SMType :=
  if -(1.5 : α) < k then .elastic
  else if -(2.5 : α) < k ∧ k < -(1.5 : α) then .secant
  else .tangent

/-- the comparison chain of `integrate` -/
def integSmt (ke : α) : SMType :=
  if ke < (0.5 : α) then .noStiffness
  else if (0.5 : α) < ke ∧ ke < (1.5 : α) then .elastic
  else if (1.5 : α) < ke ∧ ke < (2.5 : α) then .secant
  else if (2.5 : α) < ke ∧ ke < (3.5 : α) then .tangent
  else .consistent

/-! ### finite strain helpers -/

inductive StressMeasure where
  | cauchy | pk2 | pk1 | invalid
  deriving DecidableEq, Repr

/-- `getStressMeasure` -/
def stressMeasure (k1 : α) : StressMeasure :=
  if k1 < (0.5 : α) then .cauchy
  else if k1 < (1.5 : α) then .pk2
  else if k1 < (2.5 : α) then .pk1
  else .invalid

inductive FSTangentOperator where
  | dsig_dF | dS_dEGL | dPK1_dF | dtau_ddF | c_truesdell
  deriving DecidableEq, Repr

/-- `getTangentOperator` (`C_TRUESDELL` signals an error) -/
def fsTangentOperator (k0 k2 : α) : FSTangentOperator :=
  if -(0.5 : α) < k0 ∧ k0 < (0.5 : α) then .dsig_dF
  else if k2 < (0.5 : α) then .dsig_dF
  else if k2 < (1.5 : α) then .dS_dEGL
  else if k2 < (2.5 : α) then .dPK1_dF
  else if k2 < (3.5 : α) then .dtau_ddF
  else .c_truesdell

/-! ### the steps of `integrate` -/

/-- `if (!b.initialize()) { reportError(...); return -1; }` -/
def stepInit (s : Script α) (st : St α) : R α :=
  let st := log st .init
  match s.init.thrown .init with
  | some m => .thr m st
  | none => if s.init = .fail then .ret (-1) { st with msg := .initFailed } else .next st

/-- `b.checkBounds();` — the mock calls the real `BoundsCheckBase` routines with the policy it
received: `Strict` raises, `Warning` writes to `std::cerr`, `None` is silent -/
def stepCheckBounds (s : Script α) (st : St α) : R α :=
  let st := log st .cb
  if s.oob ≠ .inside ∧ s.policy = .strict then .thr (.oob s.oob) st
  else
    let st := if s.oob ≠ .inside ∧ s.policy = .warning then log st .warn else st
    let st := log st .cbdone
    match s.cb.thrown .cb with
    | some m => .thr m st
    | none => .next st

/-- `b.computeSpeedOfSound(...)` -/
def stepSosCompute (s : Script α) (fromS1 : Bool) (st : St α) : R α :=
  let st := log st (if fromS1 then .sos1 else .sos0)
  match s.sos.thrown .sos with
  | some m => .thr m st
  | none => .next st

/-- `exportTangentOperator(d.K, b.getTangentOperator());` -/
def stepExportTO (s : Script α) (o : Out) (st : St α) : R α :=
  let st := log st .gto
  match s.gto.thrown .gto with
  | some m => .thr m st
  | none => if s.fs ∧ s.toEmpty then .thr .unsupportedTangentOperator st else .next (log st (.write o))

/-- the value the comparison chain of `computePredictionOperator` is applied to: `d.K[0]` as shipped,
`K[0]` without the speed-of-sound flag after patches/C39-prediction-operator-flag.diff -/
def predK (v : Variant) (s : Script α) : α := if v.predOnKe then effK0 s.k0 else s.k0

/-- prediction branch: `if (bs) { speed_of_sound = b.computeSpeedOfSound(massdensity(*(d.s0.mass_density))); }` -/
def stepPredSos (s : Script α) (st : St α) : R α :=
  if flagged s.k0 then
    (stepSosCompute s false st).bind fun st => .next (log st (.write .sos))
  else .next st

/-- prediction branch: the `if constexpr (!hasPredictionOperator)` test and `computePredictionOperator` -/
def stepPredOp (v : Variant) (s : Script α) (st : St α) : R α :=
  if !s.traits.hasPred then .ret (-1) { st with msg := .noPredictionOperator }
  else
    let st := log st (.pred s.smflag (predSmt (predK v s)))
    match s.pred.thrown .pred with
    | some m => .thr m st
    | none =>
      if s.pred = .failure then .ret (-1) st
      else (stepExportTO s .kpred st).bind fun st => .ret 1 st

/-- the `if (Ke < -0.25) { ... }` block, `computePredictionOperator` included -/
def stepPred (v : Variant) (s : Script α) (st : St α) : R α :=
  (stepPredSos s st).bind (stepPredOp v s)

/-- `computeAPrioriTimeStepScalingFactor`, `integrate`, `computeAPosterioriTimeStepScalingFactor` -/
def stepIntegrate (s : Script α) (smt : SMType) (st : St α) : R α :=
  let st := log st (.ap st.rdt)
  match s.ap.thrown .ap with
  | some m => .thr m st
  | none =>
    let st := { st with rdt := s.apF }
    if s.ap = .fail then .ret (-1) st
    else
      let st := log st (.int s.smflag smt)
      match s.integ.thrown .int with
      | some m => .thr m st
      | none =>
        if s.integ = .failure then
          let st := log st .min
          .ret (-1) { st with rdt := s.minTsf }
        else
          let st := log st (.apo st.rdt)
          match s.apo.thrown .apo with
          | some m => .thr m st
          | none =>
            let st := { st with rdt := if s.apoF < st.rdt then s.apoF else st.rdt }
            if s.apo = .fail then .ret (-1) st else .next st

def stepEnergyCompute (has : Bool) (a : Act) (stage : Stage) (e : Event α) (st : St α) : R α :=
  if has then
    let st := log st e
    match a.thrown stage with
    | some m => .thr m st
    | none => .next st
  else .next st

def stepExportState (st : St α) : St α := log (log (log st .exp) (.write .tf)) (.write .isv)

def storeIf (c : Bool) (o : Out) (st : St α) : St α := if c then log st (.write o) else st

/-- what follows a successful integration, in the order of the tree before patches/C40-integrate.diff:
state exported first, then the steps that may still throw -/
def tailEarly (s : Script α) (ke : α) (st : St α) : R α :=
  let st := stepExportState st
  (if s.traits.hasCTO ∧ (0.5 : α) < ke then stepExportTO s .k st else .next st).bind fun st =>
  (stepEnergyCompute s.traits.hasIE s.ie .ie .ie st).bind fun st =>
  let st := storeIf s.traits.hasIE .se st
  (stepEnergyCompute s.traits.hasDE s.de .de .de st).bind fun st =>
  let st := storeIf s.traits.hasDE .de st
  if flagged s.k0 then
    (stepSosCompute s true st).bind fun st => .next (log st (.write .sos))
  else .next st

/-- the repaired order: everything that may throw first, the stores last -/
def tailLate (s : Script α) (ke : α) (st : St α) : R α :=
  (stepEnergyCompute s.traits.hasIE s.ie .ie .ie st).bind fun st =>
  (stepEnergyCompute s.traits.hasDE s.de .de .de st).bind fun st =>
  (if flagged s.k0 then stepSosCompute s true st else .next st).bind fun st =>
  (if s.traits.hasCTO ∧ (0.5 : α) < ke then stepExportTO s .k st else .next st).bind fun st =>
  let st := stepExportState st
  let st := storeIf s.traits.hasIE .se st
  let st := storeIf s.traits.hasDE .de st
  .next (storeIf (flagged s.k0) .sos st)

/-- the `try` block up to (excluded) what follows a successful
`computeAPosterioriTimeStepScalingFactor`; the prediction branch is entirely in here (it returns) -/
def pre (v : Variant) (s : Script α) (st : St α) : R α :=
  (stepInit s st).bind fun st =>
  (stepCheckBounds s st).bind fun st =>
  if isPrediction (effK0 s.k0) then stepPred v s st
  else
    if !s.traits.hasCTO ∧ integSmt (effK0 s.k0) ≠ .noStiffness then
      .ret (-1) { st with msg := .noTangentOperator }
    else stepIntegrate s (integSmt (effK0 s.k0)) st

/-- the body of the `try` block -/
def body (v : Variant) (s : Script α) (st : St α) : R α :=
  (pre v s st).bind fun st =>
  if v.lateExport then tailLate s (effK0 s.k0) st else tailEarly s (effK0 s.k0) st

structure Result (α : Type) where
  ret : Int
  st : St α

/-- `Behaviour b(d); b.setOutOfBoundsPolicy(p);` -/
def st0 (s : Script α) : St α := { ev := [.ctor, .pol s.policy], rdt := s.rdt0, msg := .unset }

/-- `mfront::gb::integrate<Behaviour>(d, f, p)` -/
def integrate (v : Variant) (s : Script α) : Result α :=
  match body v s (st0 s) with
  | .next st => ⟨if st.rdt < (0.99 : α) then 0 else 1, st⟩
  | .ret r st => ⟨r, st⟩
  | .thr m st =>
    let st := log st .min
    ⟨-1, { st with msg := m, rdt := s.minTsf }⟩

/-- the output buffers written by a run -/
def Result.written (r : Result α) : List Out := r.st.ev.filterMap Event.isWrite

end
end TfelVerif.C39
