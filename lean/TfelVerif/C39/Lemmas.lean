/-
  C39 / C40 — helper lemmas: a small Hoare logic for the outcome type `R` of Model.lean.
  A `Spec` gives what must hold when a piece of the `try` block falls through, returns, or throws.
-/
import Mathlib.Tactic.Common
import Mathlib.Tactic.SplitIfs
import TfelVerif.C39.Model

namespace TfelVerif.C39

variable {α : Type}

structure Spec (α : Type) where
  post : St α → Prop
  ret : Int → St α → Prop
  thr : Msg → St α → Prop

def R.Sat : R α → Spec α → Prop
  | .next st, S => S.post st
  | .ret c st, S => S.ret c st
  | .thr m st, S => S.thr m st

@[simp] theorem R.sat_next (st : St α) (S : Spec α) : (R.next st).Sat S ↔ S.post st := Iff.rfl
@[simp] theorem R.sat_ret (c : Int) (st : St α) (S : Spec α) : (R.ret c st).Sat S ↔ S.ret c st := Iff.rfl
@[simp] theorem R.sat_thr (m : Msg) (st : St α) (S : Spec α) : (R.thr m st).Sat S ↔ S.thr m st := Iff.rfl

/-- sequencing rule -/
theorem R.bind_sat {r : R α} {f : St α → R α} (P : St α → Prop) {S : Spec α}
    (h1 : r.Sat ⟨P, S.ret, S.thr⟩) (h2 : ∀ st, P st → (f st).Sat S) : (r.bind f).Sat S := by
  cases r with
  | next st => exact h2 st h1
  | ret c st => exact h1
  | thr m st => exact h1

/-- consequence rule -/
theorem R.sat_mono {r : R α} {S S' : Spec α} (h : r.Sat S)
    (hp : ∀ st, S.post st → S'.post st) (hr : ∀ c st, S.ret c st → S'.ret c st)
    (ht : ∀ m st, S.thr m st → S'.thr m st) : r.Sat S' := by
  cases r with
  | next st => exact hp st h
  | ret c st => exact hr c st h
  | thr m st => exact ht m st h

/-- every event of a list satisfies `P` -/
def AllEvL (P : Event α → Prop) (l : List (Event α)) : Prop := ∀ e ∈ l, P e

/-- every event logged so far satisfies `P` -/
abbrev AllEv (P : Event α → Prop) (st : St α) : Prop := AllEvL P st.ev

@[simp] theorem allEvL_nil (P : Event α → Prop) : AllEvL P [] := by simp [AllEvL]

@[simp] theorem allEvL_cons (P : Event α → Prop) (e : Event α) (l : List (Event α)) :
    AllEvL P (e :: l) ↔ P e ∧ AllEvL P l := by simp [AllEvL]

@[simp] theorem allEvL_append (P : Event α → Prop) (l l' : List (Event α)) :
    AllEvL P (l ++ l') ↔ AllEvL P l ∧ AllEvL P l' := by
  simp only [AllEvL, List.mem_append]
  constructor
  · intro h
    exact ⟨fun e he => h e (Or.inl he), fun e he => h e (Or.inr he)⟩
  · rintro ⟨h1, h2⟩ e (he | he)
    · exact h1 e he
    · exact h2 e he

@[simp] theorem log_rdt (st : St α) (e : Event α) : (log st e).rdt = st.rdt := rfl
@[simp] theorem log_msg (st : St α) (e : Event α) : (log st e).msg = st.msg := rfl
@[simp] theorem log_ev (st : St α) (e : Event α) : (log st e).ev = st.ev ++ [e] := rfl

theorem Act.thrown_none_iff (a : Act) (s : Stage) : a.thrown s = none ↔ (a = .ok ∨ a = .fail) := by
  cases a <;> simp [Act.thrown]

theorem Res.thrown_none_iff (a : Res) (s : Stage) :
    a.thrown s = none ↔ (a = .success ∨ a = .failure ∨ a = .unreliable) := by
  cases a <;> simp [Res.thrown]

end TfelVerif.C39
