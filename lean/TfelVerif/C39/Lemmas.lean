/-
  C39 / C40 — helper lemmas: a small Hoare logic for the outcome type `R` of Model.lean.
  A `Spec` gives what must hold when a piece of the `try` block falls through, returns, or throws.
-/
import Mathlib.Tactic.Common
import Mathlib.Tactic.SplitIfs
import TfelVerif.C39.Model

set_option linter.unusedSimpArgs false
set_option linter.unusedSectionVars false

namespace TfelVerif.C39

variable {α : Type}

structure Spec (α : Type) where
  post : St α → Prop
  ret : Int → St α → Prop
  thr : Msg → St α → Prop

def R.Sat : R α → Spec α → Prop
  | .next st, S => S.post st
  | .ret c st, S => S.ret c st
  | .thr m st, S => S.thr m st

@[simp] theorem R.sat_next (st : St α) (S : Spec α) : (R.next st).Sat S ↔ S.post st := Iff.rfl
@[simp] theorem R.sat_ret (c : Int) (st : St α) (S : Spec α) : (R.ret c st).Sat S ↔ S.ret c st := Iff.rfl
@[simp] theorem R.sat_thr (m : Msg) (st : St α) (S : Spec α) : (R.thr m st).Sat S ↔ S.thr m st := Iff.rfl

/-- sequencing rule -/
theorem R.bind_sat {r : R α} {f : St α → R α} (P : St α → Prop) {S : Spec α}
    (h1 : r.Sat ⟨P, S.ret, S.thr⟩) (h2 : ∀ st, P st → (f st).Sat S) : (r.bind f).Sat S := by
  cases r with
  | next st => exact h2 st h1
  | ret c st => exact h1
  | thr m st => exact h1

/-- consequence rule -/
theorem R.sat_mono {r : R α} {S S' : Spec α} (h : r.Sat S)
    (hp : ∀ st, S.post st → S'.post st) (hr : ∀ c st, S.ret c st → S'.ret c st)
    (ht : ∀ m st, S.thr m st → S'.thr m st) : r.Sat S' := by
  cases r with
  | next st => exact hp st h
  | ret c st => exact hr c st h
  | thr m st => exact ht m st h

/-- every event of a list satisfies `P` -/
def AllEvL (P : Event α → Prop) (l : List (Event α)) : Prop := ∀ e ∈ l, P e

/-- every event logged so far satisfies `P` -/
abbrev AllEv (P : Event α → Prop) (st : St α) : Prop := AllEvL P st.ev

@[simp] theorem allEvL_nil (P : Event α → Prop) : AllEvL P [] := by simp [AllEvL]

@[simp] theorem allEvL_cons (P : Event α → Prop) (e : Event α) (l : List (Event α)) :
    AllEvL P (e :: l) ↔ P e ∧ AllEvL P l := by simp [AllEvL]

@[simp] theorem allEvL_append (P : Event α → Prop) (l l' : List (Event α)) :
    AllEvL P (l ++ l') ↔ AllEvL P l ∧ AllEvL P l' := by
  simp only [AllEvL, List.mem_append]
  constructor
  · intro h
    exact ⟨fun e he => h e (Or.inl he), fun e he => h e (Or.inr he)⟩
  · rintro ⟨h1, h2⟩ e (he | he)
    · exact h1 e he
    · exact h2 e he

@[simp] theorem log_rdt (st : St α) (e : Event α) : (log st e).rdt = st.rdt := rfl
@[simp] theorem log_msg (st : St α) (e : Event α) : (log st e).msg = st.msg := rfl
@[simp] theorem log_ev (st : St α) (e : Event α) : (log st e).ev = st.ev ++ [e] := rfl

theorem Act.thrown_none_iff (a : Act) (s : Stage) : a.thrown s = none ↔ (a = .ok ∨ a = .fail) := by
  cases a <;> simp [Act.thrown]

theorem Res.thrown_none_iff (a : Res) (s : Stage) :
    a.thrown s = none ↔ (a = .success ∨ a = .failure ∨ a = .unreliable) := by
  cases a <;> simp [Res.thrown]

/-- the spec "whatever way this piece ends, `P` holds of the events logged" -/
def always (P : St α → Prop) : Spec α := ⟨P, fun _ => P, fun _ => P⟩

/-- case analysis of one step of the model, every leaf closed by `simp` -/
macro "step_cases" : tactic =>
  `(tactic| ((repeat' split) <;> simp_all [always, AllEv, or_imp]))

section steps
variable [LT α] [DecidableRel (fun a b : α => a < b)] [Sub α] [Neg α] [OfScientific α]
variable (P : Event α → Prop)

omit [LT α] [DecidableRel (fun a b : α => a < b)] [Sub α] [Neg α] [OfScientific α] in
theorem stepInit_all (s : Script α) (st : St α) (h : AllEv P st) (hi : P .init) :
    (stepInit s st).Sat (always (AllEv P)) := by
  unfold stepInit
  step_cases

omit [LT α] [DecidableRel (fun a b : α => a < b)] [Sub α] [Neg α] [OfScientific α] in
theorem stepCheckBounds_all (s : Script α) (st : St α) (h : AllEv P st)
    (h1 : P .cb) (h2 : P .warn) (h3 : P .cbdone) :
    (stepCheckBounds s st).Sat (always (AllEv P)) := by
  unfold stepCheckBounds
  step_cases

omit [LT α] [DecidableRel (fun a b : α => a < b)] [Sub α] [Neg α] [OfScientific α] in
theorem stepSosCompute_all (s : Script α) (b : Bool) (st : St α) (h : AllEv P st)
    (h0 : P (if b then .sos1 else .sos0)) : (stepSosCompute s b st).Sat (always (AllEv P)) := by
  unfold stepSosCompute
  step_cases

omit [LT α] [DecidableRel (fun a b : α => a < b)] [Sub α] [Neg α] [OfScientific α] in
theorem stepExportTO_all (s : Script α) (o : Out) (st : St α) (h : AllEv P st)
    (h0 : P .gto) (h1 : P (.write o)) : (stepExportTO s o st).Sat (always (AllEv P)) := by
  unfold stepExportTO
  step_cases

omit [LT α] [DecidableRel (fun a b : α => a < b)] [Sub α] [Neg α] [OfScientific α] in
theorem stepEnergyCompute_all (has : Bool) (a : Act) (sg : Stage) (e : Event α) (st : St α)
    (h : AllEv P st) (h0 : P e) : (stepEnergyCompute has a sg e st).Sat (always (AllEv P)) := by
  unfold stepEnergyCompute
  step_cases

omit [Sub α] [Neg α] [OfScientific α] in
theorem stepIntegrate_all (s : Script α) (smt : SMType) (st : St α) (h : AllEv P st)
    (h0 : ∀ r, P (.ap r)) (h1 : P (.int s.smflag smt)) (h2 : ∀ r, P (.apo r)) (h3 : P .min) :
    (stepIntegrate s smt st).Sat (always (AllEv P)) := by
  unfold stepIntegrate
  step_cases

theorem stepPred_all (v : Variant) (s : Script α) (st : St α) (h : AllEv P st)
    (h0 : flagged s.k0 = true → P .sos0) (h1 : flagged s.k0 = true → P (.write .sos))
    (h2 : s.traits.hasPred = true → P (.pred s.smflag (predSmt (predK v s)))) (h3 : P .gto)
    (h4 : P (.write .kpred)) : (stepPred v s st).Sat (always (AllEv P)) := by
  unfold stepPred
  apply R.bind_sat (AllEv P)
  · split
    · rename_i hf
      apply R.bind_sat (AllEv P)
      · exact stepSosCompute_all P s false st h (by simpa using h0 hf)
      · intro st hst
        simp_all [always, AllEv, or_imp]
    · simpa [always, AllEv, or_imp] using h
  · intro st hst
    split
    · simp_all [always, AllEv, or_imp]
    · rename_i hp
      have hp' : s.traits.hasPred = true := by simpa using hp
      simp only []
      split
      · simp_all [always, AllEv, or_imp]
      · split
        · simp_all [always, AllEv, or_imp]
        · apply R.bind_sat (AllEv P)
          · exact stepExportTO_all P s .kpred _ (by simp_all [AllEv, or_imp]) h3 h4
          · intro st hst
            simpa [always, AllEv, or_imp] using hst

theorem AllEvL.mono {P Q : Event α → Prop} {l : List (Event α)} (h : AllEvL P l) (hpq : ∀ e, P e → Q e) :
    AllEvL Q l := fun e he => hpq e (h e he)

/-- what `pre` may log, with what is then known of the request -/
def PreEv (v : Variant) (s : Script α) : Event α → Prop
  | .init | .cb | .warn | .cbdone | .gto | .min | .ap _ | .apo _ => True
  | .sos0 => flagged s.k0 = true ∧ isPrediction (effK0 s.k0) = true
  | .write o => (o = .sos ∧ flagged s.k0 = true ∨ o = .kpred) ∧ isPrediction (effK0 s.k0) = true
  | .pred f t => f = s.smflag ∧ t = predSmt (predK v s) ∧ isPrediction (effK0 s.k0) = true ∧
      s.traits.hasPred = true
  | .int f t => f = s.smflag ∧ t = integSmt (effK0 s.k0) ∧ isPrediction (effK0 s.k0) = false ∧
      (s.traits.hasCTO = true ∨ t = .noStiffness)
  | _ => False

/-- what the part following a successful integration may log -/
def TailEv (s : Script α) : Event α → Prop
  | .exp => True
  | .ie => s.traits.hasIE = true
  | .de => s.traits.hasDE = true
  | .gto => s.traits.hasCTO = true ∧ (0.5 : α) < effK0 s.k0
  | .sos1 => flagged s.k0 = true
  | .write o => o = .tf ∨ o = .isv ∨ (o = .se ∧ s.traits.hasIE = true) ∨ (o = .de ∧ s.traits.hasDE = true) ∨
      (o = .k ∧ s.traits.hasCTO = true ∧ (0.5 : α) < effK0 s.k0) ∨ (o = .sos ∧ flagged s.k0 = true)
  | _ => False

theorem pre_all (v : Variant) (s : Script α) (st : St α) (hP : ∀ e, PreEv v s e → P e) (h : AllEv P st) :
    (pre v s st).Sat (always (AllEv P)) := by
  unfold pre
  apply R.bind_sat (AllEv P)
  · exact stepInit_all P s st h (hP _ (by simp [PreEv]))
  · intro st h
    apply R.bind_sat (AllEv P)
    · exact stepCheckBounds_all P s st h (hP _ (by simp [PreEv])) (hP _ (by simp [PreEv])) (hP _ (by simp [PreEv]))
    · intro st h
      split
      · rename_i hpr
        exact stepPred_all P v s st h (fun hf => hP _ (by simp [PreEv, hf, hpr]))
          (fun hf => hP _ (by simp [PreEv, hf, hpr])) (fun hp => hP _ (by simp [PreEv, hp, hpr]))
          (hP _ (by simp [PreEv])) (hP _ (by simp [PreEv, hpr]))
      · rename_i hpr
        split
        · simpa [always] using h
        · rename_i hc
          exact stepIntegrate_all P s _ st h (fun r => hP _ (by simp [PreEv]))
            (hP _ (by
              simp only [PreEv, true_and]
              refine ⟨by simpa using hpr, ?_⟩
              by_cases hh : s.traits.hasCTO = true
              · exact Or.inl hh
              · right
                by_contra hne
                exact hc ⟨by simpa using hh, hne⟩))
            (fun r => hP _ (by simp [PreEv])) (hP _ (by simp [PreEv]))

theorem tailEarly_all (s : Script α) (st : St α) (hP : ∀ e, TailEv s e → P e) (h : AllEv P st) :
    (tailEarly s (effK0 s.k0) st).Sat (always (AllEv P)) := by
  unfold tailEarly
  have hst : AllEv P (stepExportState st) := by
    have h1 := hP .exp (by simp [TailEv])
    have h2 := hP (.write .tf) (by simp [TailEv])
    have h3 := hP (.write .isv) (by simp [TailEv])
    simp_all [stepExportState, AllEv, or_imp]
  apply R.bind_sat (AllEv P)
  · split
    · rename_i hc
      exact stepExportTO_all P s .k _ hst (hP _ (by simpa [TailEv] using hc)) (hP _ (by simpa [TailEv] using hc))
    · simpa [always] using hst
  · intro st h
    apply R.bind_sat (AllEv P)
    · unfold stepEnergyCompute
      split
      · rename_i hh
        have := hP .ie (by simpa [TailEv] using hh)
        split <;> simp_all [always, AllEv, or_imp]
      · simpa [always] using h
    · intro st h
      have h' : AllEv P (storeIf s.traits.hasIE .se st) := by
        unfold storeIf
        split
        · rename_i hh
          have := hP (.write .se) (by simp [TailEv, hh])
          simp_all [AllEv, or_imp]
        · exact h
      apply R.bind_sat (AllEv P)
      · unfold stepEnergyCompute
        split
        · rename_i hh
          have := hP .de (by simpa [TailEv] using hh)
          split <;> simp_all [always, AllEv, or_imp]
        · simpa [always] using h'
      · intro st h
        have h' : AllEv P (storeIf s.traits.hasDE .de st) := by
          unfold storeIf
          split
          · rename_i hh
            have := hP (.write .de) (by simp [TailEv, hh])
            simp_all [AllEv, or_imp]
          · exact h
        split
        · rename_i hf
          apply R.bind_sat (AllEv P)
          · exact stepSosCompute_all P s true _ h' (by simpa using hP .sos1 (by simpa [TailEv] using hf))
          · intro st h
            have := hP (.write .sos) (by simp [TailEv, hf])
            simp_all [always, AllEv, or_imp]
        · simpa [always] using h'

theorem tailLate_all (s : Script α) (st : St α) (hP : ∀ e, TailEv s e → P e) (h : AllEv P st) :
    (tailLate s (effK0 s.k0) st).Sat (always (AllEv P)) := by
  unfold tailLate
  apply R.bind_sat (AllEv P)
  · unfold stepEnergyCompute
    split
    · rename_i hh
      have := hP .ie (by simpa [TailEv] using hh)
      split <;> simp_all [always, AllEv, or_imp]
    · simpa [always] using h
  · intro st h
    apply R.bind_sat (AllEv P)
    · unfold stepEnergyCompute
      split
      · rename_i hh
        have := hP .de (by simpa [TailEv] using hh)
        split <;> simp_all [always, AllEv, or_imp]
      · simpa [always] using h
    · intro st h
      apply R.bind_sat (AllEv P)
      · split
        · rename_i hf
          exact stepSosCompute_all P s true _ h (by simpa using hP .sos1 (by simpa [TailEv] using hf))
        · simpa [always] using h
      · intro st h
        apply R.bind_sat (AllEv P)
        · split
          · rename_i hc
            exact stepExportTO_all P s .k _ h (hP _ (by simpa [TailEv] using hc)) (hP _ (by simpa [TailEv] using hc))
          · simpa [always] using h
        · intro st h
          have h1 := hP .exp (by simp [TailEv])
          have h2 := hP (.write .tf) (by simp [TailEv])
          have h3 := hP (.write .isv) (by simp [TailEv])
          have h4 : s.traits.hasIE = true → P (.write .se) := fun hh => hP _ (by simp [TailEv, hh])
          have h5 : s.traits.hasDE = true → P (.write .de) := fun hh => hP _ (by simp [TailEv, hh])
          have h6 : flagged s.k0 = true → P (.write .sos) := fun hh => hP _ (by simp [TailEv, hh])
          simp only [always, R.sat_next, stepExportState, storeIf]
          split <;> split <;> split <;> simp_all [AllEv, or_imp]

/-- every event of a whole run is one `pre` or the tail may log (or the constructor / policy / `min`) -/
theorem body_all (v : Variant) (s : Script α) (st : St α) (hP : ∀ e, PreEv v s e ∨ TailEv s e → P e)
    (h : AllEv P st) : (body v s st).Sat (always (AllEv P)) := by
  unfold body
  apply R.bind_sat (AllEv P)
  · exact pre_all P v s st (fun e he => hP e (Or.inl he)) h
  · intro st h
    split
    · exact tailLate_all P s st (fun e he => hP e (Or.inr he)) h
    · exact tailEarly_all P s st (fun e he => hP e (Or.inr he)) h

end steps

end TfelVerif.C39
