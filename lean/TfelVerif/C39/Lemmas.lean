/-
  C39 / C40 — helper lemmas: a small Hoare logic for the outcome type `R` of Model.lean.
  A `Spec` gives what must hold when a piece of the `try` block falls through, returns, or throws.
-/
import Mathlib.Tactic.Common
import Mathlib.Tactic.SplitIfs
import TfelVerif.C39.Model

set_option linter.unusedSimpArgs false
set_option linter.unusedSectionVars false

namespace TfelVerif.C39

variable {α : Type}

structure Spec (α : Type) where
  post : St α → Prop
  ret : Int → St α → Prop
  thr : Msg → St α → Prop

def R.Sat : R α → Spec α → Prop
  | .next st, S => S.post st
  | .ret c st, S => S.ret c st
  | .thr m st, S => S.thr m st

@[simp] theorem R.sat_next (st : St α) (S : Spec α) : (R.next st).Sat S ↔ S.post st := Iff.rfl
@[simp] theorem R.sat_ret (c : Int) (st : St α) (S : Spec α) : (R.ret c st).Sat S ↔ S.ret c st := Iff.rfl
@[simp] theorem R.sat_thr (m : Msg) (st : St α) (S : Spec α) : (R.thr m st).Sat S ↔ S.thr m st := Iff.rfl

/-- sequencing rule -/
theorem R.bind_sat {r : R α} {f : St α → R α} (P : St α → Prop) {S : Spec α}
    (h1 : r.Sat ⟨P, S.ret, S.thr⟩) (h2 : ∀ st, P st → (f st).Sat S) : (r.bind f).Sat S := by
  cases r with
  | next st => exact h2 st h1
  | ret c st => exact h1
  | thr m st => exact h1

/-- consequence rule -/
theorem R.sat_mono {r : R α} {S S' : Spec α} (h : r.Sat S)
    (hp : ∀ st, S.post st → S'.post st) (hr : ∀ c st, S.ret c st → S'.ret c st)
    (ht : ∀ m st, S.thr m st → S'.thr m st) : r.Sat S' := by
  cases r with
  | next st => exact hp st h
  | ret c st => exact hr c st h
  | thr m st => exact ht m st h

/-- every event of a list satisfies `P` -/
def AllEvL (P : Event α → Prop) (l : List (Event α)) : Prop := ∀ e ∈ l, P e

/-- every event logged so far satisfies `P` -/
abbrev AllEv (P : Event α → Prop) (st : St α) : Prop := AllEvL P st.ev

@[simp] theorem allEvL_nil (P : Event α → Prop) : AllEvL P [] := by simp [AllEvL]

@[simp] theorem allEvL_cons (P : Event α → Prop) (e : Event α) (l : List (Event α)) :
    AllEvL P (e :: l) ↔ P e ∧ AllEvL P l := by simp [AllEvL]

@[simp] theorem allEvL_append (P : Event α → Prop) (l l' : List (Event α)) :
    AllEvL P (l ++ l') ↔ AllEvL P l ∧ AllEvL P l' := by
  simp only [AllEvL, List.mem_append]
  constructor
  · intro h
    exact ⟨fun e he => h e (Or.inl he), fun e he => h e (Or.inr he)⟩
  · rintro ⟨h1, h2⟩ e (he | he)
    · exact h1 e he
    · exact h2 e he

@[simp] theorem log_rdt (st : St α) (e : Event α) : (log st e).rdt = st.rdt := rfl
@[simp] theorem log_msg (st : St α) (e : Event α) : (log st e).msg = st.msg := rfl
@[simp] theorem log_ev (st : St α) (e : Event α) : (log st e).ev = st.ev ++ [e] := rfl

theorem Act.eq_cases (a : Act) :
    a = .ok ∨ a = .fail ∨ a = .throwStd ∨ a = .throwOther ∨ a = .throwLong := by
  cases a <;> simp

theorem Res.eq_cases (a : Res) :
    a = .success ∨ a = .failure ∨ a = .unreliable ∨ a = .throwStd ∨ a = .throwOther ∨ a = .throwLong := by
  cases a <;> simp

theorem Act.thrown_none_iff (a : Act) (s : Stage) : a.thrown s = none ↔ (a = .ok ∨ a = .fail) := by
  cases a <;> simp [Act.thrown]

theorem Res.thrown_none_iff (a : Res) (s : Stage) :
    a.thrown s = none ↔ (a = .success ∨ a = .failure ∨ a = .unreliable) := by
  cases a <;> simp [Res.thrown]

/-- the spec "whatever way this piece ends, `P` holds of the events logged" -/
def always (P : St α → Prop) : Spec α := ⟨P, fun _ => P, fun _ => P⟩

/-- case analysis of one step of the model, every leaf closed by `simp` -/
macro "step_cases" : tactic =>
  `(tactic| ((repeat' split) <;> simp_all [always, AllEv, or_imp]))

section steps
variable [LT α] [DecidableRel (fun a b : α => a < b)] [Sub α] [Neg α] [OfScientific α]
variable (P : Event α → Prop)

omit [LT α] [DecidableRel (fun a b : α => a < b)] [Sub α] [Neg α] [OfScientific α] in
theorem stepInit_all (s : Script α) (st : St α) (h : AllEv P st) (hi : P .init) :
    (stepInit s st).Sat (always (AllEv P)) := by
  unfold stepInit
  step_cases

omit [LT α] [DecidableRel (fun a b : α => a < b)] [Sub α] [Neg α] [OfScientific α] in
theorem stepCheckBounds_all (s : Script α) (st : St α) (h : AllEv P st)
    (h1 : P .cb) (h2 : P .warn) (h3 : P .cbdone) :
    (stepCheckBounds s st).Sat (always (AllEv P)) := by
  unfold stepCheckBounds
  step_cases

omit [LT α] [DecidableRel (fun a b : α => a < b)] [Sub α] [Neg α] [OfScientific α] in
theorem stepSosCompute_all (s : Script α) (b : Bool) (st : St α) (h : AllEv P st)
    (h0 : P (if b then .sos1 else .sos0)) : (stepSosCompute s b st).Sat (always (AllEv P)) := by
  unfold stepSosCompute
  step_cases

omit [LT α] [DecidableRel (fun a b : α => a < b)] [Sub α] [Neg α] [OfScientific α] in
theorem stepExportTO_all (s : Script α) (o : Out) (st : St α) (h : AllEv P st)
    (h0 : P .gto) (h1 : P (.write o)) : (stepExportTO s o st).Sat (always (AllEv P)) := by
  unfold stepExportTO
  step_cases

omit [LT α] [DecidableRel (fun a b : α => a < b)] [Sub α] [Neg α] [OfScientific α] in
theorem stepEnergyCompute_all (has : Bool) (a : Act) (sg : Stage) (e : Event α) (st : St α)
    (h : AllEv P st) (h0 : P e) : (stepEnergyCompute has a sg e st).Sat (always (AllEv P)) := by
  unfold stepEnergyCompute
  step_cases

omit [Sub α] [Neg α] [OfScientific α] in
theorem stepIntegrate_all (s : Script α) (smt : SMType) (st : St α) (h : AllEv P st)
    (h0 : ∀ r, P (.ap r)) (h1 : P (.int s.smflag smt)) (h2 : ∀ r, P (.apo r)) (h3 : P .min) :
    (stepIntegrate s smt st).Sat (always (AllEv P)) := by
  unfold stepIntegrate
  step_cases

theorem stepPred_all (v : Variant) (s : Script α) (st : St α) (h : AllEv P st)
    (h0 : flagged s.k0 = true → P .sos0) (h1 : flagged s.k0 = true → P (.write .sos))
    (h2 : s.traits.hasPred = true → P (.pred s.smflag (predSmt (predK v s)))) (h3 : P .gto)
    (h4 : P (.write .kpred)) : (stepPred v s st).Sat (always (AllEv P)) := by
  unfold stepPred
  apply R.bind_sat (AllEv P)
  · unfold stepPredSos
    split
    · rename_i hf
      apply R.bind_sat (AllEv P)
      · exact stepSosCompute_all P s false st h (by simpa using h0 hf)
      · intro st hst
        simp_all [always, AllEv, or_imp]
    · simpa [always, AllEv, or_imp] using h
  · intro st hst
    unfold stepPredOp
    split
    · simp_all [always, AllEv, or_imp]
    · rename_i hp
      have hp' : s.traits.hasPred = true := by simpa using hp
      simp only []
      split
      · simp_all [always, AllEv, or_imp]
      · split
        · simp_all [always, AllEv, or_imp]
        · apply R.bind_sat (AllEv P)
          · exact stepExportTO_all P s .kpred _ (by simp_all [AllEv, or_imp]) h3 h4
          · intro st hst
            simpa [always, AllEv, or_imp] using hst

theorem AllEvL.mono {P Q : Event α → Prop} {l : List (Event α)} (h : AllEvL P l) (hpq : ∀ e, P e → Q e) :
    AllEvL Q l := fun e he => hpq e (h e he)

/-- what `pre` may log, with what is then known of the request -/
def PreEv (v : Variant) (s : Script α) : Event α → Prop
  | .init | .cb | .warn | .cbdone | .gto | .min | .ap _ | .apo _ => True
  | .sos0 => flagged s.k0 = true ∧ isPrediction (effK0 s.k0) = true
  | .write o => (o = .sos ∧ flagged s.k0 = true ∨ o = .kpred) ∧ isPrediction (effK0 s.k0) = true
  | .pred f t => f = s.smflag ∧ t = predSmt (predK v s) ∧ isPrediction (effK0 s.k0) = true ∧
      s.traits.hasPred = true
  | .int f t => f = s.smflag ∧ t = integSmt (effK0 s.k0) ∧ isPrediction (effK0 s.k0) = false ∧
      (s.traits.hasCTO = true ∨ t = .noStiffness)
  | _ => False

/-- what the part following a successful integration may log -/
def TailEv (s : Script α) : Event α → Prop
  | .exp => True
  | .ie => s.traits.hasIE = true
  | .de => s.traits.hasDE = true
  | .gto => s.traits.hasCTO = true ∧ (0.5 : α) < effK0 s.k0
  | .sos1 => flagged s.k0 = true
  | .write o => o = .tf ∨ o = .isv ∨ (o = .se ∧ s.traits.hasIE = true) ∨ (o = .de ∧ s.traits.hasDE = true) ∨
      (o = .k ∧ s.traits.hasCTO = true ∧ (0.5 : α) < effK0 s.k0) ∨ (o = .sos ∧ flagged s.k0 = true)
  | _ => False

theorem pre_all (v : Variant) (s : Script α) (st : St α) (hP : ∀ e, PreEv v s e → P e) (h : AllEv P st) :
    (pre v s st).Sat (always (AllEv P)) := by
  unfold pre
  apply R.bind_sat (AllEv P)
  · exact stepInit_all P s st h (hP _ (by simp [PreEv]))
  · intro st h
    apply R.bind_sat (AllEv P)
    · exact stepCheckBounds_all P s st h (hP _ (by simp [PreEv])) (hP _ (by simp [PreEv])) (hP _ (by simp [PreEv]))
    · intro st h
      split
      · rename_i hpr
        exact stepPred_all P v s st h (fun hf => hP _ (by simp [PreEv, hf, hpr]))
          (fun hf => hP _ (by simp [PreEv, hf, hpr])) (fun hp => hP _ (by simp [PreEv, hp, hpr]))
          (hP _ (by simp [PreEv])) (hP _ (by simp [PreEv, hpr]))
      · rename_i hpr
        split
        · simpa [always] using h
        · rename_i hc
          exact stepIntegrate_all P s _ st h (fun r => hP _ (by simp [PreEv]))
            (hP _ (by
              simp only [PreEv, true_and]
              refine ⟨by simpa using hpr, ?_⟩
              by_cases hh : s.traits.hasCTO = true
              · exact Or.inl hh
              · right
                by_contra hne
                exact hc ⟨by simpa using hh, hne⟩))
            (fun r => hP _ (by simp [PreEv])) (hP _ (by simp [PreEv]))

theorem tailEarly_all (s : Script α) (st : St α) (hP : ∀ e, TailEv s e → P e) (h : AllEv P st) :
    (tailEarly s (effK0 s.k0) st).Sat (always (AllEv P)) := by
  unfold tailEarly
  have hst : AllEv P (stepExportState st) := by
    have h1 := hP .exp (by simp [TailEv])
    have h2 := hP (.write .tf) (by simp [TailEv])
    have h3 := hP (.write .isv) (by simp [TailEv])
    simp_all [stepExportState, AllEv, or_imp]
  apply R.bind_sat (AllEv P)
  · split
    · rename_i hc
      exact stepExportTO_all P s .k _ hst (hP _ (by simpa [TailEv] using hc)) (hP _ (by simpa [TailEv] using hc))
    · simpa [always] using hst
  · intro st h
    apply R.bind_sat (AllEv P)
    · unfold stepEnergyCompute
      split
      · rename_i hh
        have := hP .ie (by simpa [TailEv] using hh)
        split <;> simp_all [always, AllEv, or_imp]
      · simpa [always] using h
    · intro st h
      have h' : AllEv P (storeIf s.traits.hasIE .se st) := by
        unfold storeIf
        split
        · rename_i hh
          have := hP (.write .se) (by simp [TailEv, hh])
          simp_all [AllEv, or_imp]
        · exact h
      apply R.bind_sat (AllEv P)
      · unfold stepEnergyCompute
        split
        · rename_i hh
          have := hP .de (by simpa [TailEv] using hh)
          split <;> simp_all [always, AllEv, or_imp]
        · simpa [always] using h'
      · intro st h
        have h' : AllEv P (storeIf s.traits.hasDE .de st) := by
          unfold storeIf
          split
          · rename_i hh
            have := hP (.write .de) (by simp [TailEv, hh])
            simp_all [AllEv, or_imp]
          · exact h
        split
        · rename_i hf
          apply R.bind_sat (AllEv P)
          · exact stepSosCompute_all P s true _ h' (by simpa using hP .sos1 (by simpa [TailEv] using hf))
          · intro st h
            have := hP (.write .sos) (by simp [TailEv, hf])
            simp_all [always, AllEv, or_imp]
        · simpa [always] using h'

theorem tailLate_all (s : Script α) (st : St α) (hP : ∀ e, TailEv s e → P e) (h : AllEv P st) :
    (tailLate s (effK0 s.k0) st).Sat (always (AllEv P)) := by
  unfold tailLate
  apply R.bind_sat (AllEv P)
  · unfold stepEnergyCompute
    split
    · rename_i hh
      have := hP .ie (by simpa [TailEv] using hh)
      split <;> simp_all [always, AllEv, or_imp]
    · simpa [always] using h
  · intro st h
    apply R.bind_sat (AllEv P)
    · unfold stepEnergyCompute
      split
      · rename_i hh
        have := hP .de (by simpa [TailEv] using hh)
        split <;> simp_all [always, AllEv, or_imp]
      · simpa [always] using h
    · intro st h
      apply R.bind_sat (AllEv P)
      · split
        · rename_i hf
          exact stepSosCompute_all P s true _ h (by simpa using hP .sos1 (by simpa [TailEv] using hf))
        · simpa [always] using h
      · intro st h
        apply R.bind_sat (AllEv P)
        · split
          · rename_i hc
            exact stepExportTO_all P s .k _ h (hP _ (by simpa [TailEv] using hc)) (hP _ (by simpa [TailEv] using hc))
          · simpa [always] using h
        · intro st h
          have h1 := hP .exp (by simp [TailEv])
          have h2 := hP (.write .tf) (by simp [TailEv])
          have h3 := hP (.write .isv) (by simp [TailEv])
          have h4 : s.traits.hasIE = true → P (.write .se) := fun hh => hP _ (by simp [TailEv, hh])
          have h5 : s.traits.hasDE = true → P (.write .de) := fun hh => hP _ (by simp [TailEv, hh])
          have h6 : flagged s.k0 = true → P (.write .sos) := fun hh => hP _ (by simp [TailEv, hh])
          simp only [always, R.sat_next, stepExportState, storeIf]
          split <;> split <;> split <;> simp_all [AllEv, or_imp]

/-- every event of a whole run is one `pre` or the tail may log (or the constructor / policy / `min`) -/
theorem body_all (v : Variant) (s : Script α) (st : St α) (hP : ∀ e, PreEv v s e ∨ TailEv s e → P e)
    (h : AllEv P st) : (body v s st).Sat (always (AllEv P)) := by
  unfold body
  apply R.bind_sat (AllEv P)
  · exact pre_all P v s st (fun e he => hP e (Or.inl he)) h
  · intro st h
    split
    · exact tailLate_all P s st (fun e he => hP e (Or.inr he)) h
    · exact tailEarly_all P s st (fun e he => hP e (Or.inr he)) h

/-! ### exit codes and `rdt` of each step, as functions of the script alone -/

/-- the value returned by `integrate` if this piece ends the call (`none`: it falls through) -/
def R.code : R α → Option Int
  | .next _ => none
  | .ret c _ => some c
  | .thr _ _ => some (-1)

@[simp] theorem R.code_next (st : St α) : (R.next st).code = none := rfl
@[simp] theorem R.code_ret (c : Int) (st : St α) : (R.ret c st).code = some c := rfl
@[simp] theorem R.code_thr (m : Msg) (st : St α) : (R.thr m st).code = some (-1) := rfl
@[simp] theorem R.st_next (st : St α) : (R.next st).st = st := rfl
@[simp] theorem R.st_ret (c : Int) (st : St α) : (R.ret c st).st = st := rfl
@[simp] theorem R.st_thr (m : Msg) (st : St α) : (R.thr m st).st = st := rfl

omit [LT α] [DecidableRel (fun a b : α => a < b)] [Sub α] [Neg α] [OfScientific α] in
theorem R.code_bind (r : R α) (f : St α → R α) :
    (r.bind f).code = match r.code with
      | some c => some c
      | none => (f r.st).code := by
  cases r <;> rfl

omit [LT α] [DecidableRel (fun a b : α => a < b)] [Sub α] [Neg α] [OfScientific α] in
theorem R.st_bind (r : R α) (f : St α → R α) :
    (r.bind f).st = match r.code with
      | some _ => r.st
      | none => (f r.st).st := by
  cases r <;> rfl

macro "code_cases" : tactic =>
  `(tactic| ((repeat' split) <;> simp_all [R.code, R.st, R.bind, Act.thrown, Res.thrown]))

omit [LT α] [DecidableRel (fun a b : α => a < b)] [Sub α] [Neg α] [OfScientific α] in
theorem stepInit_code (s : Script α) (st : St α) :
    (stepInit s st).code = if s.init = .ok then none else some (-1) := by
  unfold stepInit
  rcases Act.eq_cases s.init with h | h | h | h | h <;> simp [h, R.code, Act.thrown]

/-- `checkBounds` raises: the real bounds check under `Strict`, or the scripted throw -/
def cbRaises (s : Script α) : Prop :=
  (s.oob ≠ .inside ∧ s.policy = .strict) ∨ (s.cb ≠ .ok ∧ s.cb ≠ .fail)

instance (s : Script α) : Decidable (cbRaises s) := by unfold cbRaises; infer_instance

omit [LT α] [DecidableRel (fun a b : α => a < b)] [Sub α] [Neg α] [OfScientific α] in
theorem stepCheckBounds_code (s : Script α) (st : St α) :
    (stepCheckBounds s st).code = if cbRaises s then some (-1) else none := by
  unfold stepCheckBounds cbRaises
  rcases Act.eq_cases s.cb with h | h | h | h | h <;> simp only [h] <;> code_cases

/-- a void method of the behaviour does not throw -/
def Act.quiet (a : Act) : Prop := a = .ok ∨ a = .fail
instance (a : Act) : Decidable a.quiet := by unfold Act.quiet; infer_instance

/-- a method returning an `IntegrationResult` reports success -/
def Res.good (a : Res) : Prop := a = .success ∨ a = .unreliable
instance (a : Res) : Decidable a.good := by unfold Res.good; infer_instance

omit [LT α] [DecidableRel (fun a b : α => a < b)] [Sub α] [Neg α] [OfScientific α] in
theorem stepSosCompute_code (s : Script α) (b : Bool) (st : St α) :
    (stepSosCompute s b st).code = if s.sos.quiet then none else some (-1) := by
  unfold stepSosCompute Act.quiet
  rcases Act.eq_cases s.sos with h | h | h | h | h <;> simp [h, R.code, Act.thrown]

/-- `exportTangentOperator(d.K, b.getTangentOperator())` completes -/
def toExported (s : Script α) : Prop := s.gto.quiet ∧ ¬ (s.fs = true ∧ s.toEmpty = true)
instance (s : Script α) : Decidable (toExported s) := by unfold toExported; infer_instance

omit [LT α] [DecidableRel (fun a b : α => a < b)] [Sub α] [Neg α] [OfScientific α] in
theorem stepExportTO_code (s : Script α) (o : Out) (st : St α) :
    (stepExportTO s o st).code = if toExported s then none else some (-1) := by
  unfold stepExportTO toExported Act.quiet
  rcases Act.eq_cases s.gto with h | h | h | h | h <;> simp only [h] <;> code_cases

omit [LT α] [DecidableRel (fun a b : α => a < b)] [Sub α] [Neg α] [OfScientific α] in
theorem stepEnergyCompute_code (has : Bool) (a : Act) (sg : Stage) (e : Event α) (st : St α) :
    (stepEnergyCompute has a sg e st).code = if has = true ∧ ¬ a.quiet then some (-1) else none := by
  unfold stepEnergyCompute Act.quiet
  cases a <;> cases has <;> simp [R.code, Act.thrown]

/-- the three steps of the integration proper all succeed -/
def integrationOk (s : Script α) : Prop := s.ap = .ok ∧ s.integ.good ∧ s.apo = .ok
instance (s : Script α) : Decidable (integrationOk s) := by unfold integrationOk; infer_instance

omit [Sub α] [Neg α] [OfScientific α] in
theorem stepIntegrate_code (s : Script α) (smt : SMType) (st : St α) :
    (stepIntegrate s smt st).code = if integrationOk s then none else some (-1) := by
  unfold stepIntegrate integrationOk Res.good
  rcases Act.eq_cases s.ap with h1 | h1 | h1 | h1 | h1 <;>
    rcases Res.eq_cases s.integ with h2 | h2 | h2 | h2 | h2 | h2 <;>
    rcases Act.eq_cases s.apo with h3 | h3 | h3 | h3 | h3 <;>
    simp [h1, h2, h3, R.code, Act.thrown, Res.thrown]

/-- the prediction branch succeeds -/
def predictionOk (s : Script α) : Prop :=
  (flagged s.k0 = true → s.sos.quiet) ∧ s.traits.hasPred = true ∧ s.pred.good ∧ toExported s
instance (s : Script α) : Decidable (predictionOk s) := by unfold predictionOk; infer_instance

theorem stepPredSos_code (s : Script α) (st : St α) :
    (stepPredSos s st).code = if flagged s.k0 = true ∧ ¬ s.sos.quiet then some (-1) else none := by
  unfold stepPredSos
  by_cases hf : flagged s.k0 = true <;> by_cases hq : s.sos.quiet <;>
    simp [R.code_bind, stepSosCompute_code, hf, hq]

theorem stepPredOp_code (v : Variant) (s : Script α) (st : St α) :
    (stepPredOp v s st).code =
      if s.traits.hasPred = true ∧ s.pred.good ∧ toExported s then some 1 else some (-1) := by
  unfold stepPredOp
  rcases Res.eq_cases s.pred with hp | hp | hp | hp | hp | hp <;>
    by_cases hh : s.traits.hasPred = true <;> by_cases ht : toExported s <;>
    simp [R.code_bind, stepExportTO_code, Res.thrown, Res.good, hh, ht, hp]

theorem stepPred_code (v : Variant) (s : Script α) (st : St α) :
    (stepPred v s st).code = if predictionOk s then some 1 else some (-1) := by
  unfold stepPred predictionOk
  rw [R.code_bind, stepPredSos_code, stepPredOp_code]
  by_cases hf : flagged s.k0 = true <;> by_cases hq : s.sos.quiet <;>
    by_cases hh : s.traits.hasPred = true ∧ s.pred.good ∧ toExported s <;> simp_all

/-- exit code of `pre` -/
theorem pre_code (v : Variant) (s : Script α) (st : St α) :
    (pre v s st).code =
      if s.init ≠ .ok ∨ cbRaises s then some (-1)
      else if isPrediction (effK0 s.k0) = true then (if predictionOk s then some 1 else some (-1))
      else if s.traits.hasCTO = false ∧ integSmt (effK0 s.k0) ≠ .noStiffness then some (-1)
      else if integrationOk s then none else some (-1) := by
  unfold pre
  simp only [R.code_bind, stepInit_code, stepCheckBounds_code]
  by_cases hi : s.init = .ok <;> by_cases hc : cbRaises s <;> simp [hi, hc]
  by_cases hp : isPrediction (effK0 s.k0) = true
  · simp [hp, stepPred_code]
  · by_cases hc' : s.traits.hasCTO = false ∧ integSmt (effK0 s.k0) ≠ .noStiffness
    · simp [hp, hc']
    · have : ¬ ((!s.traits.hasCTO) = true ∧ integSmt (effK0 s.k0) ≠ .noStiffness) := by simpa using hc'
      simp only [hp, this, hc', if_false, stepIntegrate_code, Bool.false_eq_true]

/-- what follows a successful integration succeeds (same condition in both orders) -/
def tailOk (s : Script α) : Prop :=
  (s.traits.hasCTO = true ∧ (0.5 : α) < effK0 s.k0 → toExported s) ∧
  (s.traits.hasIE = true → s.ie.quiet) ∧ (s.traits.hasDE = true → s.de.quiet) ∧
  (flagged s.k0 = true → s.sos.quiet)
instance (s : Script α) : Decidable (tailOk s) := by unfold tailOk; infer_instance

theorem tailEarly_code (s : Script α) (st : St α) :
    (tailEarly s (effK0 s.k0) st).code = if tailOk s then none else some (-1) := by
  unfold tailEarly tailOk
  simp only [R.code_bind, stepEnergyCompute_code, stepSosCompute_code]
  by_cases hc : s.traits.hasCTO = true ∧ (0.5 : α) < effK0 s.k0 <;> by_cases ht : toExported s <;>
    by_cases h1 : s.traits.hasIE = true <;> by_cases q1 : s.ie.quiet <;>
    by_cases h2 : s.traits.hasDE = true <;> by_cases q2 : s.de.quiet <;>
    by_cases hf : flagged s.k0 = true <;> by_cases q3 : s.sos.quiet <;>
    simp [R.code_bind, stepExportTO_code, stepEnergyCompute_code, stepSosCompute_code, hc, ht, h1, q1, h2, q2, hf, q3]

theorem tailLate_code (s : Script α) (st : St α) :
    (tailLate s (effK0 s.k0) st).code = if tailOk s then none else some (-1) := by
  unfold tailLate tailOk
  simp only [R.code_bind, stepEnergyCompute_code, stepSosCompute_code]
  by_cases hc : s.traits.hasCTO = true ∧ (0.5 : α) < effK0 s.k0 <;> by_cases ht : toExported s <;>
    by_cases h1 : s.traits.hasIE = true <;> by_cases q1 : s.ie.quiet <;>
    by_cases h2 : s.traits.hasDE = true <;> by_cases q2 : s.de.quiet <;>
    by_cases hf : flagged s.k0 = true <;> by_cases q3 : s.sos.quiet <;>
    simp [R.code_bind, stepExportTO_code, stepEnergyCompute_code, stepSosCompute_code, hc, ht, h1, q1, h2, q2, hf, q3]

/-- exit code of the whole `try` block -/
theorem body_code (v : Variant) (s : Script α) (st : St α) :
    (body v s st).code = match (pre v s st).code with
      | some c => some c
      | none => if tailOk s then none else some (-1) := by
  unfold body
  rw [R.code_bind]
  split
  · rfl
  · split <;> simp [tailLate_code, tailEarly_code]

/-- exit code of the whole `try` block from the initial state, in closed form -/
theorem body_code_eq (v : Variant) (s : Script α) :
    (body v s (st0 s)).code =
      if s.init ≠ .ok ∨ cbRaises s then some (-1)
      else if isPrediction (effK0 s.k0) = true then (if predictionOk s then some 1 else some (-1))
      else if s.traits.hasCTO = false ∧ integSmt (effK0 s.k0) ≠ .noStiffness then some (-1)
      else if integrationOk s ∧ tailOk s then none else some (-1) := by
  rw [body_code, pre_code]
  by_cases h1 : s.init ≠ .ok ∨ cbRaises s <;> by_cases h3 : isPrediction (effK0 s.k0) = true <;>
    by_cases h4 : s.traits.hasCTO = false ∧ integSmt (effK0 s.k0) ≠ .noStiffness <;>
    by_cases h5 : integrationOk s <;> by_cases h6 : predictionOk s <;> by_cases h7 : tailOk s <;>
    simp [h1, h3, h4, h5, h6, h7]

/-- the return value in terms of the exit code of the `try` block -/
theorem integrate_ret_some (v : Variant) (s : Script α) {c : Int}
    (h : (body v s (st0 s)).code = some c) : (integrate v s).ret = c := by
  unfold integrate
  split <;> rename_i heq <;> simp [heq] at h ⊢ <;> omega

theorem integrate_ret_none (v : Variant) (s : Script α) (h : (body v s (st0 s)).code = none) :
    (integrate v s).ret = (if (integrate v s).st.rdt < (0.99 : α) then 0 else 1) ∧
    (integrate v s).st = (body v s (st0 s)).st := by
  unfold integrate
  split <;> rename_i heq <;> simp [heq] at h ⊢

/-! ### `rdt` -/

macro "rdt_cases" : tactic =>
  `(tactic| ((repeat' split) <;> simp_all [R.st_bind]))

omit [LT α] [DecidableRel (fun a b : α => a < b)] [Sub α] [Neg α] [OfScientific α] in
theorem stepInit_rdt (s : Script α) (st : St α) : (stepInit s st).st.rdt = st.rdt := by
  unfold stepInit; rdt_cases

omit [LT α] [DecidableRel (fun a b : α => a < b)] [Sub α] [Neg α] [OfScientific α] in
theorem stepCheckBounds_rdt (s : Script α) (st : St α) : (stepCheckBounds s st).st.rdt = st.rdt := by
  unfold stepCheckBounds; rdt_cases

omit [LT α] [DecidableRel (fun a b : α => a < b)] [Sub α] [Neg α] [OfScientific α] in
theorem stepSosCompute_rdt (s : Script α) (b : Bool) (st : St α) :
    (stepSosCompute s b st).st.rdt = st.rdt := by
  unfold stepSosCompute; rdt_cases

omit [LT α] [DecidableRel (fun a b : α => a < b)] [Sub α] [Neg α] [OfScientific α] in
theorem stepExportTO_rdt (s : Script α) (o : Out) (st : St α) : (stepExportTO s o st).st.rdt = st.rdt := by
  unfold stepExportTO; rdt_cases

omit [LT α] [DecidableRel (fun a b : α => a < b)] [Sub α] [Neg α] [OfScientific α] in
theorem stepEnergyCompute_rdt (has : Bool) (a : Act) (sg : Stage) (e : Event α) (st : St α) :
    (stepEnergyCompute has a sg e st).st.rdt = st.rdt := by
  unfold stepEnergyCompute; rdt_cases

omit [LT α] [DecidableRel (fun a b : α => a < b)] [Sub α] [Neg α] [OfScientific α] in
theorem storeIf_rdt (c : Bool) (o : Out) (st : St α) : (storeIf c o st).rdt = st.rdt := by
  unfold storeIf; split <;> simp

omit [LT α] [DecidableRel (fun a b : α => a < b)] [Sub α] [Neg α] [OfScientific α] in
theorem stepExportState_rdt (st : St α) : (stepExportState st).rdt = st.rdt := by
  simp [stepExportState]

theorem stepPred_rdt (v : Variant) (s : Script α) (st : St α) : (stepPred v s st).st.rdt = st.rdt := by
  have h1 : (stepPredSos s st).st.rdt = st.rdt := by
    unfold stepPredSos
    split
    · rw [R.st_bind]; split <;> simp [stepSosCompute_rdt]
    · simp
  have h2 : ∀ st : St α, (stepPredOp v s st).st.rdt = st.rdt := by
    intro st
    unfold stepPredOp
    split
    · simp
    · simp only []
      split
      · simp
      · split
        · simp
        · rw [R.st_bind]; split <;> simp [stepExportTO_rdt]
  unfold stepPred
  rw [R.st_bind]
  split
  · exact h1
  · rw [h2, h1]

omit [LT α] [DecidableRel (fun a b : α => a < b)] [Sub α] [Neg α] [OfScientific α] in
theorem R.bind_rdt (r : R α) (f : St α → R α) (hf : ∀ st, (f st).st.rdt = st.rdt) :
    (r.bind f).st.rdt = r.st.rdt := by
  cases r <;> simp [R.bind, hf]

theorem tailEarly_rdt (s : Script α) (ke : α) (st : St α) : (tailEarly s ke st).st.rdt = st.rdt := by
  unfold tailEarly
  rw [R.bind_rdt]
  · split <;> simp [stepExportTO_rdt, stepExportState_rdt]
  · intro st
    rw [R.bind_rdt, stepEnergyCompute_rdt]
    intro st
    rw [R.bind_rdt, stepEnergyCompute_rdt, storeIf_rdt]
    intro st
    split
    · rw [R.bind_rdt, stepSosCompute_rdt, storeIf_rdt]
      intro st; simp
    · simp [storeIf_rdt]

theorem tailLate_rdt (s : Script α) (ke : α) (st : St α) : (tailLate s ke st).st.rdt = st.rdt := by
  unfold tailLate
  rw [R.bind_rdt, stepEnergyCompute_rdt]
  intro st
  rw [R.bind_rdt, stepEnergyCompute_rdt]
  intro st
  rw [R.bind_rdt]
  · split <;> simp [stepSosCompute_rdt]
  · intro st
    rw [R.bind_rdt]
    · split <;> simp [stepExportTO_rdt]
    · intro st
      simp [storeIf_rdt, stepExportState_rdt]

omit [Sub α] [Neg α] [OfScientific α] in
/-- `rdt` after the three steps of the integration proper, when they all succeed:
`rdt = tsf.second; ... if (rdt > atsf.second) rdt = atsf.second;` -/
theorem stepIntegrate_rdt (s : Script α) (smt : SMType) (st : St α) (h : integrationOk s) :
    (stepIntegrate s smt st).st.rdt = if s.apoF < s.apF then s.apoF else s.apF := by
  obtain ⟨h1, h2, h3⟩ := h
  unfold stepIntegrate
  rcases h2 with h2 | h2 <;> simp [h1, h2, h3, Act.thrown, Res.thrown] <;> (split <;> simp_all)

/-! ### the event log only grows -/

omit [LT α] [DecidableRel (fun a b : α => a < b)] [Sub α] [Neg α] [OfScientific α] in
theorem R.bind_prefix (r : R α) (f : St α → R α) (l : List (Event α)) (h : l <+: r.st.ev)
    (hf : ∀ st, st.ev <+: (f st).st.ev) : l <+: (r.bind f).st.ev := by
  cases r with
  | next st => exact h.trans (hf st)
  | ret c st => exact h
  | thr m st => exact h

macro "prefix_cases" : tactic =>
  `(tactic| ((repeat' split) <;> simp_all [List.prefix_append, List.append_assoc]))

omit [LT α] [DecidableRel (fun a b : α => a < b)] [Sub α] [Neg α] [OfScientific α] in
theorem stepInit_prefix (s : Script α) (st : St α) : st.ev ++ [.init] <+: (stepInit s st).st.ev := by
  unfold stepInit; prefix_cases

omit [LT α] [DecidableRel (fun a b : α => a < b)] [Sub α] [Neg α] [OfScientific α] in
theorem stepCheckBounds_prefix (s : Script α) (st : St α) : st.ev <+: (stepCheckBounds s st).st.ev := by
  unfold stepCheckBounds; prefix_cases

omit [LT α] [DecidableRel (fun a b : α => a < b)] [Sub α] [Neg α] [OfScientific α] in
theorem stepSosCompute_prefix (s : Script α) (b : Bool) (st : St α) :
    st.ev <+: (stepSosCompute s b st).st.ev := by
  unfold stepSosCompute; prefix_cases

omit [LT α] [DecidableRel (fun a b : α => a < b)] [Sub α] [Neg α] [OfScientific α] in
theorem stepExportTO_prefix (s : Script α) (o : Out) (st : St α) : st.ev <+: (stepExportTO s o st).st.ev := by
  unfold stepExportTO; prefix_cases

omit [LT α] [DecidableRel (fun a b : α => a < b)] [Sub α] [Neg α] [OfScientific α] in
theorem stepEnergyCompute_prefix (has : Bool) (a : Act) (sg : Stage) (e : Event α) (st : St α) :
    st.ev <+: (stepEnergyCompute has a sg e st).st.ev := by
  unfold stepEnergyCompute; prefix_cases

omit [Sub α] [Neg α] [OfScientific α] in
theorem stepIntegrate_prefix (s : Script α) (smt : SMType) (st : St α) :
    st.ev <+: (stepIntegrate s smt st).st.ev := by
  unfold stepIntegrate; prefix_cases

omit [LT α] [DecidableRel (fun a b : α => a < b)] [Sub α] [Neg α] [OfScientific α] in
theorem storeIf_prefix (c : Bool) (o : Out) (st : St α) : st.ev <+: (storeIf c o st).ev := by
  unfold storeIf; split <;> simp [List.prefix_append]

theorem stepPredSos_prefix (s : Script α) (st : St α) : st.ev <+: (stepPredSos s st).st.ev := by
  unfold stepPredSos
  split
  · apply R.bind_prefix _ _ _ (stepSosCompute_prefix s false st)
    intro st; simp [List.prefix_append]
  · simp

theorem stepPredOp_prefix (v : Variant) (s : Script α) (st : St α) : st.ev <+: (stepPredOp v s st).st.ev := by
  unfold stepPredOp
  split
  · simp
  · simp only []
    split
    · simp [List.prefix_append]
    · split
      · simp [List.prefix_append]
      · have h1 : st.ev <+: (log st (.pred s.smflag (predSmt (predK v s)))).ev := by
          simp [List.prefix_append]
        apply R.bind_prefix _ _ _ (h1.trans (stepExportTO_prefix s .kpred _))
        intro st; simp

theorem stepPred_prefix (v : Variant) (s : Script α) (st : St α) : st.ev <+: (stepPred v s st).st.ev := by
  unfold stepPred
  exact R.bind_prefix _ _ _ (stepPredSos_prefix s st) (stepPredOp_prefix v s)

theorem pre_prefix (v : Variant) (s : Script α) (st : St α) : st.ev ++ [.init] <+: (pre v s st).st.ev := by
  unfold pre
  apply R.bind_prefix _ _ _ (stepInit_prefix s st)
  intro st
  apply R.bind_prefix _ _ _ (stepCheckBounds_prefix s st)
  intro st
  split
  · exact stepPred_prefix v s st
  · split
    · simp
    · exact stepIntegrate_prefix s _ st

theorem tailEarly_prefix (s : Script α) (ke : α) (st : St α) : st.ev <+: (tailEarly s ke st).st.ev := by
  unfold tailEarly
  have h0 : st.ev <+: (stepExportState st).ev := by
    simp [stepExportState, List.prefix_append, List.append_assoc]
  apply R.bind_prefix
  · split
    · exact h0.trans (stepExportTO_prefix s .k _)
    · simpa using h0
  · intro st
    apply R.bind_prefix _ _ _ (stepEnergyCompute_prefix _ _ _ _ st)
    intro st
    apply R.bind_prefix _ _ _ ((storeIf_prefix _ _ st).trans (stepEnergyCompute_prefix _ _ _ _ _))
    intro st
    split
    · apply R.bind_prefix _ _ _ ((storeIf_prefix _ _ st).trans (stepSosCompute_prefix _ _ _))
      intro st; simp [List.prefix_append]
    · simpa using storeIf_prefix _ _ st

theorem tailLate_prefix (s : Script α) (ke : α) (st : St α) : st.ev <+: (tailLate s ke st).st.ev := by
  unfold tailLate
  apply R.bind_prefix _ _ _ (stepEnergyCompute_prefix _ _ _ _ st)
  intro st
  apply R.bind_prefix _ _ _ (stepEnergyCompute_prefix _ _ _ _ st)
  intro st
  apply R.bind_prefix
  · split
    · exact stepSosCompute_prefix _ _ _
    · simp
  · intro st
    apply R.bind_prefix
    · split
      · exact stepExportTO_prefix _ _ _
      · simp
    · intro st
      have h0 : st.ev <+: (stepExportState st).ev := by
        simp [stepExportState, List.prefix_append, List.append_assoc]
      simpa using h0.trans ((storeIf_prefix _ _ _).trans ((storeIf_prefix _ _ _).trans (storeIf_prefix _ _ _)))

theorem body_prefix (v : Variant) (s : Script α) (st : St α) : st.ev ++ [.init] <+: (body v s st).st.ev := by
  unfold body
  apply R.bind_prefix _ _ _ (pre_prefix v s st)
  intro st
  split
  · exact tailLate_prefix _ _ _
  · exact tailEarly_prefix _ _ _

/-- the first thing `integrate` does with the behaviour: construct it, give it the policy, initialise it -/
theorem integrate_prefix (v : Variant) (s : Script α) :
    [.ctor, .pol s.policy, .init] <+: (integrate v s).st.ev := by
  have h := body_prefix v s (st0 s)
  unfold integrate
  split <;> rename_i heq <;> simp only [heq, R.st_next, R.st_ret, R.st_thr] at h
  · simpa [st0] using h
  · simpa [st0] using h
  · have := h.trans (List.prefix_append _ [Event.min])
    simpa [st0] using this

/-- every event of a run -/
theorem integrate_events (v : Variant) (s : Script α) :
    AllEv (fun e => PreEv v s e ∨ TailEv s e ∨ e = .ctor ∨ e = .pol s.policy ∨ e = .min) (integrate v s).st := by
  have h := body_all (fun e => PreEv v s e ∨ TailEv s e ∨ e = .ctor ∨ e = .pol s.policy ∨ e = .min) v s (st0 s)
    (fun e he => by rcases he with he | he <;> simp [he]) (by simp [st0, AllEv])
  unfold integrate
  split <;> rename_i heq <;> simp only [heq, always, R.sat_next, R.sat_ret, R.sat_thr] at h
  · exact h
  · exact h
  · simp_all [AllEv]

/-! ### what each step is when it succeeds -/

omit [LT α] [DecidableRel (fun a b : α => a < b)] [Sub α] [Neg α] [OfScientific α] in
theorem stepInit_ok (s : Script α) (st : St α) (h : s.init = .ok) : stepInit s st = .next (log st .init) := by
  simp [stepInit, h, Act.thrown]

omit [LT α] [DecidableRel (fun a b : α => a < b)] [Sub α] [Neg α] [OfScientific α] in
theorem stepCheckBounds_ok (s : Script α) (st : St α) (h : ¬ cbRaises s) :
    stepCheckBounds s st = .next (log (if s.oob ≠ .inside ∧ s.policy = .warning then log (log st .cb) .warn
      else log st .cb) .cbdone) := by
  unfold cbRaises at h
  have h3 : ¬ (s.oob ≠ .inside ∧ s.policy = .strict) := fun hh => h (Or.inl hh)
  have h2 : ¬ (s.cb ≠ .ok ∧ s.cb ≠ .fail) := fun hh => h (Or.inr hh)
  unfold stepCheckBounds
  rcases Act.eq_cases s.cb with hc | hc | hc | hc | hc <;> simp_all [Act.thrown]

omit [LT α] [DecidableRel (fun a b : α => a < b)] [Sub α] [Neg α] [OfScientific α] in
theorem stepSosCompute_ok (s : Script α) (b : Bool) (st : St α) (h : s.sos.quiet) :
    stepSosCompute s b st = .next (log st (if b then .sos1 else .sos0)) := by
  unfold stepSosCompute
  rcases h with h | h <;> simp [h, Act.thrown]

omit [LT α] [DecidableRel (fun a b : α => a < b)] [Sub α] [Neg α] [OfScientific α] in
theorem stepExportTO_ok (s : Script α) (o : Out) (st : St α) (h : toExported s) :
    stepExportTO s o st = .next (log (log st .gto) (.write o)) := by
  obtain ⟨h1, h2⟩ := h
  unfold stepExportTO
  rcases h1 with h1 | h1 <;> simp [h1, h2, Act.thrown]

omit [LT α] [DecidableRel (fun a b : α => a < b)] [Sub α] [Neg α] [OfScientific α] in
theorem stepEnergyCompute_ok (has : Bool) (a : Act) (sg : Stage) (e : Event α) (st : St α)
    (h : has = true → a.quiet) : stepEnergyCompute has a sg e st = .next (if has then log st e else st) := by
  unfold stepEnergyCompute
  cases has
  · simp
  · rcases h rfl with h | h <;> simp [h, Act.thrown]

omit [Sub α] [Neg α] [OfScientific α] in
theorem stepIntegrate_ok (s : Script α) (smt : SMType) (st : St α) (h : integrationOk s) :
    stepIntegrate s smt st = .next
      { ev := st.ev ++ [.ap st.rdt, .int s.smflag smt, .apo s.apF],
        rdt := if s.apoF < s.apF then s.apoF else s.apF, msg := st.msg } := by
  obtain ⟨h1, h2, h3⟩ := h
  unfold stepIntegrate
  rcases h2 with h2 | h2 <;> simp [h1, h2, h3, Act.thrown, Res.thrown, log]

theorem R.bind_eq_next {r : R α} {f : St α → R α} {st' : St α} (h : r.bind f = .next st') :
    ∃ st1, r = .next st1 ∧ f st1 = .next st' := by
  cases r <;> simp_all [R.bind]

theorem R.code_none {r : R α} (h : r.code = none) : ∃ st, r = .next st := by
  cases r <;> simp_all [R.code]

/-- the events of a run contain those of the `try` block -/
theorem integrate_ev_of_body (v : Variant) (s : Script α) :
    (body v s (st0 s)).st.ev <+: (integrate v s).st.ev := by
  unfold integrate
  split <;> rename_i heq <;> simp [heq, List.prefix_append]

end steps

/-! ### a scalar type on which the model computes in the kernel (non-vacuity witnesses) -/

/-- fixed-point scalars (hundredths): every literal of Model.lean is exactly representable -/
structure Cent where
  n : Int
  deriving DecidableEq

instance : LT Cent := ⟨fun a b => a.n < b.n⟩
instance : DecidableRel (fun a b : Cent => a < b) := fun a b => inferInstanceAs (Decidable (a.n < b.n))
instance : Sub Cent := ⟨fun a b => ⟨a.n - b.n⟩⟩
instance : Neg Cent := ⟨fun a => ⟨-a.n⟩⟩
instance : OfScientific Cent :=
  ⟨fun m s e => ⟨if s then (m * 100 / 10 ^ e : Nat) else (m * 100 * 10 ^ e : Nat)⟩⟩

/-- a script in which every step succeeds (integration with the consistent tangent operator) -/
def Cent.script : Script Cent :=
  { traits := ⟨true, true, true, true⟩, fs := false, smflag := 0, k0 := 4.0, rdt0 := 1.0, policy := .none,
    msgbuf := true, init := .ok, oob := .inside, cb := .ok, ap := .ok, apF := 1.0, integ := .success,
    apo := .ok, apoF := 1.0, minTsf := 0.1, gto := .ok, toEmpty := false, ie := .ok, de := .ok, sos := .ok,
    pred := .success }

end TfelVerif.C39
