/- line-protocol driver of the C39/C40 model: one request per line, one answer per line
   (same protocol and answer format as harness/C39/harness.cxx).
   usage: c39driver <early|late> <raw|eff>   -- the model variant (see `Variant` in Model.lean) -/
import TfelVerif.C39.Model
open TfelVerif.C39

def hexDigit (c : Char) : Option Nat :=
  if '0' ≤ c ∧ c ≤ '9' then some (c.toNat - '0'.toNat)
  else if 'a' ≤ c ∧ c ≤ 'f' then some (c.toNat - 'a'.toNat + 10)
  else if 'A' ≤ c ∧ c ≤ 'F' then some (c.toNat - 'A'.toNat + 10)
  else none

def parseBits (s : String) : Option Float :=
  if s.isEmpty ∨ s.length > 16 then none
  else
    (s.toList.foldl (fun acc c => match acc, hexDigit c with
      | some a, some d => some (a * 16 + d)
      | _, _ => none) (some 0)).map fun n => Float.ofBits n.toUInt64

def hexOf (n : Nat) : String :=
  let ds := (List.range 16).reverse.map fun i =>
    let d := (n >>> (4 * i)) % 16
    if d < 10 then Char.ofNat ('0'.toNat + d) else Char.ofNat ('a'.toNat + d - 10)
  String.ofList ds

def showBits (x : Float) : String := hexOf x.toBits.toNat

def parseAct : String → Option Act
  | "o" => some .ok | "f" => some .fail | "t" => some .throwStd | "u" => some .throwOther | "L" => some .throwLong
  | _ => none

def parseRes : String → Option Res
  | "o" => some .success | "f" => some .failure | "r" => some .unreliable
  | "t" => some .throwStd | "u" => some .throwOther | "L" => some .throwLong
  | _ => none

def parseOob : String → Option Oob
  | "i" => some .inside | "l" => some .below | "h" => some .above | "b" => some .outside
  | _ => none

def parsePolicy : String → Option Policy
  | "W" => some .warning | "S" => some .strict | "N" => some .none
  | _ => none

def parseBool : String → Option Bool
  | "0" => some false | "1" => some true
  | _ => none

def smtName : SMType → String
  | .elastic => "EL" | .secant => "SEC" | .tangent => "TAN" | .consistent => "CTO" | .noStiffness => "NO"

def stageName : Stage → String
  | .init => "init" | .cb => "cb" | .ap => "ap" | .int => "int" | .apo => "apo" | .gto => "gto"
  | .ie => "ie" | .de => "de" | .sos => "sos" | .pred => "pred"

def msgName : Msg → String
  | .unset => "-"
  | .initFailed => "behaviour_initialisation_failed"
  | .noPredictionOperator => "prediction_operator_is_not_implemented"
  | .noTangentOperator => "tangent_operator_is_not_implemented"
  | .stage s => stageName s
  | .unknownException => "unknown_exception"
  | .long511 => "long511"
  | .oob .below => "oob-l" | .oob .above => "oob-h" | .oob .outside => "oob-b" | .oob .inside => "oob-?"
  | .unsupportedTangentOperator => "mfront::gb::exportTangentOperator:_unsupported_tangent_operator_type"

def eventName : Event Float → Option String
  | .ctor => some "ctor"
  | .pol .strict => some "pol=S" | .pol .warning => some "pol=W" | .pol .none => some "pol=N"
  | .init => some "init" | .cb => some "cb" | .cbdone => some "cbdone"
  | .warn => none
  | .ap r => some s!"ap({showBits r})"
  | .int f t => some s!"int({f},{smtName t})"
  | .apo r => some s!"apo({showBits r})"
  | .exp => some "exp" | .gto => some "gto" | .ie => some "ie" | .de => some "de"
  | .sos0 => some "sos0" | .sos1 => some "sos1"
  | .pred f t => some s!"pred({f},{smtName t})"
  | .min => some "min"
  | .write _ => none

def outName : Out → String
  | .tf => "tf" | .isv => "isv" | .se => "se" | .de => "de" | .k => "K" | .kpred => "Kpred" | .sos => "sos"

def isWarn : Event Float → Bool
  | .warn => true
  | _ => false

def answerInt (v : Variant) (t : List String) : String :=
  match t with
  | [flags, fs, smflag, k0, rdt0, pol, msgbuf, init, oob, cb, ap, apF, integ, apo, apoF, minTsf, gto, toEmpty,
     ie, de, sos, pred] =>
    let r : Option String := do
      let flags ← flags.toNat?
      if flags > 15 then none
      let s : Script Float := {
        traits := { hasPred := flags % 2 == 1, hasCTO := (flags / 2) % 2 == 1,
                    hasIE := (flags / 4) % 2 == 1, hasDE := (flags / 8) % 2 == 1 }
        fs := ← parseBool fs
        smflag := ← smflag.toInt?
        k0 := ← parseBits k0
        rdt0 := ← parseBits rdt0
        policy := ← parsePolicy pol
        msgbuf := ← parseBool msgbuf
        init := ← parseAct init
        oob := ← parseOob oob
        cb := ← parseAct cb
        ap := ← parseAct ap
        apF := ← parseBits apF
        integ := ← parseRes integ
        apo := ← parseAct apo
        apoF := ← parseBits apoF
        minTsf := ← parseBits minTsf
        gto := ← parseAct gto
        toEmpty := ← parseBool toEmpty
        ie := ← parseAct ie
        de := ← parseAct de
        sos := ← parseAct sos
        pred := ← parseRes pred }
      let res := integrate v s
      let evs := ";".intercalate (res.st.ev.filterMap eventName)
      let w := res.written
      let wr := [Out.tf, .isv, .se, .de, .k, .kpred, .sos].filter (fun o => w.contains o)
      let wrs := if wr.isEmpty then "-" else ",".intercalate (wr.map outName)
      let msg := if s.msgbuf then msgName res.st.msg else "nobuf"
      let warn := (res.st.ev.filter isWarn).length
      pure s!"ret={res.ret} rdt={showBits res.st.rdt} ev={evs} wr={wrs} msg={msg} warn={warn} vals=ok"
    r.getD "bad-op"
  | _ => "bad-op"

def smName : StressMeasure → String
  | .cauchy => "CAUCHY" | .pk2 => "PK2" | .pk1 => "PK1" | .invalid => "INVALID"

def toName : FSTangentOperator → String
  | .dsig_dF => "DSIG_DF" | .dS_dEGL => "DS_DEGL" | .dPK1_dF => "DPK1_DF" | .dtau_ddF => "DTAU_DDF"
  | .c_truesdell => "C_TRUESDELL"

def answer (v : Variant) (line : String) : String :=
  match (line.trimAscii.toString.splitOn " ").filter (· ≠ "") with
  | "int" :: t => answerInt v t
  | ["sm", k1] => match parseBits k1 with
    | some k1 => "sm=" ++ smName (stressMeasure k1)
    | none => "bad-op"
  | ["to", k0, k2] => match parseBits k0, parseBits k2 with
    | some k0, some k2 => "to=" ++ toName (fsTangentOperator k0 k2)
    | _, _ => "bad-op"
  | _ => "bad-op"

partial def loop (v : Variant) (h : IO.FS.Stream) : IO Unit := do
  let line ← h.getLine
  if line.isEmpty then return ()
  IO.println (answer v line)
  loop v h

def main (args : List String) : IO UInt32 := do
  let v : Option Variant := match args with
    | [e, p] =>
      match e, p with
      | "early", "raw" => some ⟨false, false⟩
      | "early", "eff" => some ⟨false, true⟩
      | "late", "raw" => some ⟨true, false⟩
      | "late", "eff" => some ⟨true, true⟩
      | _, _ => none
    | _ => none
  match v with
  | none => IO.eprintln "usage: c39driver <early|late> <raw|eff>"; return 2
  | some v => loop v (← IO.getStdin); return 0
