/-
  C08 — Fixed-size nonlinear solvers never claim false convergence.

  Theorems about the model of `TinyNonLinearSolverBase::solveNonLinearSystem2` (`core`) and
  `solveNonLinearSystem` (`outer`, `solve`) of Model.lean. They are stated for an arbitrary
  `Child W α`, i.e. for EVERY residual oracle (success flags, values, NaN/inf, singular Jacobians…),
  every `computeNewCorrection` (Newton–Raphson, Broyden, Broyden2, Powell dog-leg ×2,
  Levenberg–Marquardt are instances, Solvers.lean), every hook behaviour, every `iterMax`, every
  convergence criterion. No fuel: `core`/`outer` are total by well-founded recursion on
  `iterMax - iter`.

  Property text, last clause ("Newton converges for any smooth system started inside its basin of
  quadratic convergence"): a real-analysis statement (Kantorovich) — NOT attempted here (partial).
-/
import TfelVerif.C08.Lemmas

namespace TfelVerif.C08.Props
open TfelVerif.C08

variable {W α : Type}

/-- the events that end a successful resolution: `computeResidual` succeeded from state `wb` and left
state `w1`, its norm `e` was computed, reported, and accepted by `checkConvergence` -/
def goodTail (it : Nat) (wb w1 : W) (e : α) : List (Event W α) :=
  [.residual it true wb w1, .norm e, .stdIter e, .conv true]

/-- what a successful return certifies about the run `r` (`tail` = events after the convergence test):
* the trace ends with a successful residual evaluation, its norm, its report and the accepted convergence test;
* that evaluation is the child's answer on a state `wb`: it succeeded and left *exactly* the returned
  state `r.w` (so `zeros`, `fzeros`, … are not modified afterwards);
* `e` is the norm of the returned residual, it is finite and satisfies the solver's convergence criterion;
* the counter is strictly below `iterMax`. -/
def Certified (c : Child W α) (iterMax : Nat) (r : Run W α) (tail : List (Event W α)) : Prop :=
  ∃ (pre : List (Event W α)) (wb : W) (e : α),
    r.trace = pre ++ goodTail r.iter wb r.w e ++ tail ∧
    c.computeResidual wb = (true, r.w) ∧
    e = c.residualNorm r.w ∧
    c.isFinite e = true ∧
    c.checkConvergence r.w e = true ∧
    r.iter < iterMax

/-! ### `solveNonLinearSystem2` -/

/-- **soundness of the core loop**: `solveNonLinearSystem2() == true` only right after a successful
residual evaluation whose norm is finite and satisfies the criterion; the state is returned untouched. -/
theorem core_true_certified (c : Child W α) (iterMax iter : Nat) (h : iter < iterMax) (dd : Bool) (w : W)
    (ht : (core c iterMax iter h dd w).ret = true) :
    Certified c iterMax (core c iterMax iter h dd w) [] := by
  refine core_rec c iterMax (motive := fun _ _ _ r => r.ret = true → Certified c iterMax r [])
    ?_ ?_ ?_ ?_ ?_ ?_ iter h dd w ht
  · intro iter dd w _ _ ht; simp at ht
  · intro iter dd w _ _ _ ht; simp at ht
  · intro iter dd w hlt hr hf hc _
    exact ⟨[], w, c.residualNorm (c.computeResidual w).2, by simp [goodTail], Prod.ext hr rfl, rfl, hf, hc, hlt⟩
  · intro iter dd w _ _ _ _ _ ht; simp at ht
  · intro iter dd w _ ht; simp at ht
  · intro iter dd w r _ ih ht
    obtain ⟨pre, wb, e', h1, h2', h3, h4, h5, h6⟩ := ih ht
    exact ⟨stepEvents c iter w ++ pre, wb, e', by simp only [h1, List.append_assoc], h2', h3, h4, h5, h6⟩

/-- a failed `computeResidual` makes the core loop return `false` at once -/
theorem core_false_of_failed_residual (c : Child W α) (iterMax iter : Nat) (h : iter < iterMax)
    (dd : Bool) (w : W) (hf : (c.computeResidual w).1 = false) :
    (core c iterMax iter h dd w).ret = false := by
  rw [core]; simp [hf]

/-- a non-finite residual norm makes the core loop return `false` at once -/
theorem core_false_of_nonfinite_norm (c : Child W α) (iterMax iter : Nat) (h : iter < iterMax)
    (dd : Bool) (w : W)
    (hf : c.isFinite (c.residualNorm (c.computeResidual w).2) = false) :
    (core c iterMax iter h dd w).ret = false := by
  rw [core]; by_cases h1 : (c.computeResidual w).1 = false <;> simp [h1, hf]

/-! ### `solveNonLinearSystem` -/

theorem outer_true_certified (c : Child W α) (iterMax iter : Nat) (h : iter ≤ iterMax) (dd : Bool) (w : W)
    (ht : (outer c iterMax iter h dd w).ret = true) :
    Certified c iterMax (outer c iterMax iter h dd w) [.success] := by
  refine outer_rec c iterMax (motive := fun _ _ _ r => r.ret = true → Certified c iterMax r [.success])
    ?_ ?_ ?_ ?_ iter h dd w ht
  · intro dd w ht; simp at ht
  · intro iter dd w h1 hr _
    obtain ⟨pre, wb, e', h1', h2', h3, h4, h5, h6⟩ := core_true_certified c iterMax iter h1 dd _ hr
    refine ⟨.newEstimate iter (c.processNewEstimate w) :: pre, wb, e', ?_, h2', h3, h4, h5, h6⟩
    simp only [coreRun] at h1' ⊢
    simp only [h1', List.append_nil, List.cons_append, List.append_assoc]
  · intro iter dd w h1 hr _ ht; simp only [hr] at ht; simp at ht
  · intro iter dd w h1 r2 _ _ ih ht
    obtain ⟨pre, wb, e', h1', h2', h3, h4, h5, h6⟩ := ih ht
    refine ⟨.newEstimate iter (c.processNewEstimate w) :: (coreRun c iterMax iter h1 dd w).trace ++
      .restart (coreRun c iterMax iter h1 dd w).iter (coreRun c iterMax iter h1 dd w).deltaDefined
        (restartState c (coreRun c iterMax iter h1 dd w)) :: pre, wb, e', ?_, h2', h3, h4, h5, h6⟩
    simp only [h1', List.append_assoc, List.cons_append]

/-- **C08, main theorem.** For every oracle/solver/hooks (`c`), every `iterMax` and initial state:
if `solveNonLinearSystem()` returns `true`, then the trace ends with
`computeResidual(ok) · computeResidualNorm = e · reportStandardIteration(e) · checkConvergence(e)=true · reportSuccess`,
where that `computeResidual` call is the child's answer on a state `wb` and left *exactly* the returned
state (nothing — in particular `zeros` and `fzeros` — is modified afterwards), `e` is the norm of the
returned residual, is finite and satisfies the convergence criterion. -/
theorem solve_true_certified (c : Child W α) (iterMax : Nat) (w : W)
    (ht : (solve c iterMax w).ret = true) :
    Certified c iterMax (solve c iterMax w) [.success] := by
  obtain ⟨pre, wb, e', h1, h2, h3, h4, h5, h6⟩ :=
    outer_true_certified c iterMax 0 (Nat.zero_le _) false (c.initResolution w) ht
  exact ⟨.begin :: pre, wb, e', by simp only [solve, h1, List.cons_append], h2, h3, h4, h5, h6⟩

/-- **the residual was evaluated at the returned unknowns**: for any observable `zeros` of the state
that `computeResidual` does not modify (it reads the unknowns, writes the residual), the last residual
evaluation of a successful run was made at unknowns equal to the returned ones. -/
theorem solve_true_residual_at_returned_zeros {Z : Type} (zeros : W → Z) (c : Child W α)
    (hz : ∀ w, zeros (c.computeResidual w).2 = zeros w) (iterMax : Nat) (w : W)
    (ht : (solve c iterMax w).ret = true) :
    ∃ pre wb e, (solve c iterMax w).trace
        = pre ++ goodTail (solve c iterMax w).iter wb (solve c iterMax w).w e ++ [.success]
      ∧ zeros wb = zeros (solve c iterMax w).w := by
  obtain ⟨pre, wb, e', h1, h2, _⟩ := solve_true_certified c iterMax w ht
  refine ⟨pre, wb, e', h1, ?_⟩
  have := hz wb
  rw [h2] at this
  exact this.symm

/-! ### iteration counter -/

/-- **invariant of the core loop**: `solveNonLinearSystem2`, entered with `iter < iterMax`, only increases the
counter and leaves with `iter ≤ iterMax` (this is also what makes the recursion of the model well founded:
measure `iterMax - iter`, no fuel). -/
theorem core_iter_bounds (c : Child W α) (iterMax iter : Nat) (h : iter < iterMax) (dd : Bool) (w : W) :
    iter ≤ (core c iterMax iter h dd w).iter ∧ (core c iterMax iter h dd w).iter ≤ iterMax :=
  ⟨core_iter_ge c iterMax iter h dd w, core_iter_le c iterMax iter h dd w⟩

theorem outer_iter_le (c : Child W α) (iterMax iter : Nat) (h : iter ≤ iterMax) (dd : Bool) (w : W) :
    (outer c iterMax iter h dd w).iter ≤ iterMax := by
  refine outer_rec c iterMax (motive := fun _ _ _ r => r.iter ≤ iterMax) ?_ ?_ ?_ ?_ iter h dd w
  · intro dd w; exact Nat.le_refl _
  · intro iter dd w h1 _; exact core_iter_le c iterMax iter h1 dd _
  · intro iter dd w h1 _ _; exact core_iter_le c iterMax iter h1 dd _
  · intro iter dd w h1 r2 _ _ ih; exact ih

/-- **the iteration counter never exceeds `iterMax`** when `solveNonLinearSystem` returns -/
theorem solve_iter_le (c : Child W α) (iterMax : Nat) (w : W) : (solve c iterMax w).iter ≤ iterMax :=
  outer_iter_le c iterMax 0 (Nat.zero_le _) false _

/-- the value of `iter` seen by the child when an event is produced -/
def Event.iter? : Event W α → Option Nat
  | .newEstimate i _ => some i
  | .residual i _ _ _ => some i
  | .correction i _ _ => some i
  | .restart i _ _ => some i
  | _ => none

theorem core_trace_iter_lt (c : Child W α) (iterMax iter : Nat) (h : iter < iterMax) (dd : Bool) (w : W) :
    ∀ ev ∈ (core c iterMax iter h dd w).trace, ∀ i, Event.iter? ev = some i → iter ≤ i ∧ i < iterMax := by
  refine core_rec c iterMax
    (motive := fun iter _ _ r => ∀ ev ∈ r.trace, ∀ i, Event.iter? ev = some i → iter ≤ i ∧ i < iterMax)
    ?_ ?_ ?_ ?_ ?_ ?_ iter h dd w
  · intro iter dd w hlt _ ev hev i hi; simp at hev
    rcases hev with rfl | rfl | rfl <;> simp_all [Event.iter?] <;> omega
  · intro iter dd w hlt _ _ ev hev i hi; simp at hev
    rcases hev with rfl | rfl | rfl | rfl <;> simp_all [Event.iter?] <;> omega
  · intro iter dd w hlt _ _ _ ev hev i hi; simp at hev
    rcases hev with rfl | rfl | rfl | rfl <;> simp_all [Event.iter?] <;> omega
  · intro iter dd w hlt _ _ _ _ ev hev i hi; simp at hev
    rcases hev with rfl | rfl | rfl | rfl | rfl | rfl <;> simp_all [Event.iter?] <;> omega
  · intro iter dd w h2 ev hev i hi; simp [stepEvents] at hev
    rcases hev with rfl | rfl | rfl | rfl | rfl | rfl | rfl <;> simp_all [Event.iter?] <;> omega
  · intro iter dd w r h2 ih ev hev i hi
    simp only [List.mem_append] at hev
    rcases hev with hev | hev
    · simp [stepEvents] at hev
      rcases hev with rfl | rfl | rfl | rfl | rfl | rfl | rfl <;> simp_all [Event.iter?] <;> omega
    · have := ih ev hev i hi; omega

theorem outer_trace_iter_lt (c : Child W α) (iterMax iter : Nat) (h : iter ≤ iterMax) (dd : Bool) (w : W) :
    ∀ ev ∈ (outer c iterMax iter h dd w).trace, ∀ i, Event.iter? ev = some i → i < iterMax := by
  refine outer_rec c iterMax
    (motive := fun _ _ _ r => ∀ ev ∈ r.trace, ∀ i, Event.iter? ev = some i → i < iterMax)
    ?_ ?_ ?_ ?_ iter h dd w
  · intro dd w ev hev i hi; simp at hev; subst hev; simp [Event.iter?] at hi
  · intro iter dd w h1 _ ev hev i hi
    simp only [List.cons_append, List.mem_cons, List.mem_append, List.not_mem_nil, or_false] at hev
    rcases hev with rfl | hev | rfl
    · simp [Event.iter?] at hi; omega
    · exact (core_trace_iter_lt c iterMax iter h1 dd _ ev hev i hi).2
    · simp [Event.iter?] at hi
  · intro iter dd w h1 _ _ ev hev i hi
    simp only [List.cons_append, List.mem_cons, List.mem_append, List.not_mem_nil, or_false] at hev
    rcases hev with rfl | hev | rfl
    · simp [Event.iter?] at hi; omega
    · exact (core_trace_iter_lt c iterMax iter h1 dd _ ev hev i hi).2
    · simp [Event.iter?] at hi
  · intro iter dd w h1 r2 _ hlt ih ev hev i hi
    simp only [List.cons_append, List.mem_cons, List.mem_append] at hev
    rcases hev with rfl | hev | rfl | hev
    · simp [Event.iter?] at hi; omega
    · exact (core_trace_iter_lt c iterMax iter h1 dd _ ev hev i hi).2
    · simp [Event.iter?] at hi; omega
    · exact ih ev hev i hi

/-- **`iter < iterMax` at every call made to the child inside both loops** (`processNewEstimate`,
`computeResidual`, `computeNewCorrection`, the halving step): with `solve_iter_le` this is the invariant
`iter ≤ iterMax` of both loops; `iterMax - iter` is the (fuel-free) termination measure of the model. -/
theorem solve_trace_iter_lt (c : Child W α) (iterMax : Nat) (w : W) :
    ∀ ev ∈ (solve c iterMax w).trace, ∀ i, Event.iter? ev = some i → i < iterMax := by
  intro ev hev i hi
  simp only [solve, List.mem_cons] at hev
  rcases hev with rfl | hev
  · simp [Event.iter?] at hi
  · exact outer_trace_iter_lt c iterMax 0 (Nat.zero_le _) false _ ev hev i hi

theorem core_residualCount (c : Child W α) (iterMax iter : Nat) (h : iter < iterMax) (dd : Bool) (w : W) :
    residualCount (core c iterMax iter h dd w).trace + iter ≤ (core c iterMax iter h dd w).iter + 1 ∧
    ((core c iterMax iter h dd w).iter = iterMax →
      residualCount (core c iterMax iter h dd w).trace + iter ≤ iterMax) := by
  refine core_rec c iterMax
    (motive := fun iter _ _ r => residualCount r.trace + iter ≤ r.iter + 1 ∧
      (r.iter = iterMax → residualCount r.trace + iter ≤ iterMax)) ?_ ?_ ?_ ?_ ?_ ?_ iter h dd w
  · intro iter dd w hlt _; simp [residualCount]; omega
  · intro iter dd w hlt _ _; simp [residualCount]; omega
  · intro iter dd w hlt _ _ _; simp [residualCount]; omega
  · intro iter dd w hlt _ _ _ _; simp [residualCount]; omega
  · intro iter dd w h2; simp [residualCount, stepEvents]; omega
  · intro iter dd w r h2 ih
    simp only [residualCount_append]
    have : residualCount (stepEvents c iter w) = 1 := by simp [residualCount, stepEvents]
    omega

theorem outer_residualCount (c : Child W α) (iterMax iter : Nat) (h : iter ≤ iterMax) (dd : Bool) (w : W) :
    residualCount (outer c iterMax iter h dd w).trace + iter ≤ iterMax := by
  refine outer_rec c iterMax (motive := fun iter _ _ r => residualCount r.trace + iter ≤ iterMax)
    ?_ ?_ ?_ ?_ iter h dd w
  · intro dd w; simp [residualCount]
  · intro iter dd w h1 hr
    have hc := core_residualCount c iterMax iter h1 dd (c.initCore (c.processNewEstimate w))
    obtain ⟨_, _, _, _, _, _, _, _, hlt⟩ := core_true_certified c iterMax iter h1 dd _ hr
    simp only [coreRun] at hlt ⊢
    simp only [List.cons_append, residualCount, residualCount_append]; omega
  · intro iter dd w h1 hr h2
    have hc := core_residualCount c iterMax iter h1 dd (c.initCore (c.processNewEstimate w))
    simp only [coreRun] at h2 ⊢
    simp only [List.cons_append, residualCount, residualCount_append]
    have := hc.2 h2; omega
  · intro iter dd w h1 r2 hr hlt ih
    have hc := core_residualCount c iterMax iter h1 dd (c.initCore (c.processNewEstimate w))
    simp only [coreRun] at hlt ih ⊢
    simp only [List.cons_append, residualCount, residualCount_append]
    omega

/-- **work bound (hence termination)**: `solveNonLinearSystem` evaluates the residual at most
`iterMax` times, whatever the child does. -/
theorem solve_residualCount_le (c : Child W α) (iterMax : Nat) (w : W) :
    residualCount (solve c iterMax w).trace ≤ iterMax := by
  have := outer_residualCount c iterMax 0 (Nat.zero_le _) false (c.initResolution w)
  simp only [solve, residualCount]; omega

/-! ### a failed or non-finite evaluation never yields success -/

/-- a failed `computeResidual`, or a non-finite residual norm -/
def Event.isBad (c : Child W α) : Event W α → Prop
  | .residual _ ok _ _ => ok = false
  | .norm e => c.isFinite e = false
  | _ => False

/-- **a failed or non-finite residual evaluation is never followed by `true` without a later
successful one**: in the trace of a successful `solveNonLinearSystem`, after every failed
`computeResidual` and every non-finite norm there is a later `computeResidual` that succeeded, on the
returned state, with a finite norm that satisfies the convergence criterion. -/
theorem solve_true_after_bad (c : Child W α) (iterMax : Nat) (w : W)
    (ht : (solve c iterMax w).ret = true) (a b : List (Event W α)) (ev : Event W α)
    (hsplit : (solve c iterMax w).trace = a ++ ev :: b) (hbad : Event.isBad c ev) :
    ∃ b₁ wb e, b = b₁ ++ goodTail (solve c iterMax w).iter wb (solve c iterMax w).w e ++ [.success] ∧
      c.computeResidual wb = (true, (solve c iterMax w).w) ∧ e = c.residualNorm (solve c iterMax w).w ∧
      c.isFinite e = true ∧ c.checkConvergence (solve c iterMax w).w e = true := by
  obtain ⟨pre, wb, e', h1, h2, h3, h4, h5, _⟩ := solve_true_certified c iterMax w ht
  rw [h1, List.append_assoc] at hsplit
  have hx : ev ∉ goodTail (solve c iterMax w).iter wb (solve c iterMax w).w e' ++ [.success] := by
    intro hmem
    simp only [goodTail, List.cons_append, List.nil_append, List.mem_cons, List.not_mem_nil, or_false] at hmem
    rcases hmem with rfl | rfl | rfl | rfl | rfl <;> simp_all [Event.isBad]
  obtain ⟨b₁, hb⟩ := split_before_tail _ _ a b ev hx hsplit
  exact ⟨b₁, wb, e', by rw [hb, List.append_assoc], h2, h3, h4, h5⟩

/-- contrapositive form: if the last residual evaluation of a run failed, or its norm was not finite,
the run did not return `true`. -/
theorem solve_false_of_last_bad (c : Child W α) (iterMax : Nat) (w : W) (a b : List (Event W α))
    (ev : Event W α) (hsplit : (solve c iterMax w).trace = a ++ ev :: b) (hbad : Event.isBad c ev)
    (hlast : ∀ x ∈ b, ∀ i wb wa, x ≠ .residual i true wb wa) :
    (solve c iterMax w).ret = false := by
  cases hret : (solve c iterMax w).ret with
  | false => rfl
  | true =>
    obtain ⟨b₁, wb, e, hb, _⟩ := solve_true_after_bad c iterMax w hret a b ev hsplit hbad
    exact absurd rfl (hlast (.residual (solve c iterMax w).iter true wb (solve c iterMax w).w)
      (by rw [hb]; simp [goodTail]) _ _ _)

/-! ### non-vacuity: a child that converges at once, one that never does, one that fails then recovers -/

/-- toy child on `W = Nat × Nat` (estimate, residual); residual(x) = 3 - x, correction = +1, criterion `e < 1`;
`computeResidual` fails at x = 1 -/
def toy : Child (Nat × Nat) Nat where
  initResolution := id
  initCore := id
  computeResidual := fun w => (w.1 != 1, (w.1, 3 - w.1))
  residualNorm := fun w => w.2
  isFinite := fun _ => true
  checkConvergence := fun _ e => e < 1
  computeNewCorrection := fun _ w => (true, w)
  processNewCorrection := id
  addCorrection := fun w => (w.1 + 1, w.2)
  processNewEstimate := id
  rejectCurrentCorrection := id
  halveCorrection := fun w => (w.1 + 1, w.2)
  halveEstimate := fun w => (w.1 + 1, w.2)

example : (solve toy 10 (3, 0)).ret = true ∧ (solve toy 10 (3, 0)).iter = 0 := by
  simp [solve, outer, core, toy]
example : (solve toy 10 (0, 0)).ret = true ∧ (solve toy 10 (0, 0)).w = (3, 0) := by
  simp [solve, outer, core, toy]
example : (solve toy 2 (0, 0)).ret = false ∧ (solve toy 2 (0, 0)).iter = 2 := by
  simp [solve, outer, core, toy]
example : residualCount (solve toy 10 (0, 0)).trace = 4 := by
  simp [solve, outer, core, toy, residualCount]
/-- the hypotheses of `solve_true_after_bad` are satisfiable: a run that succeeds after a failed evaluation -/
example : ∃ a b ev, (solve toy 10 (0, 0)).trace = a ++ ev :: b ∧ Event.isBad toy ev ∧
    (solve toy 10 (0, 0)).ret = true := by
  refine ⟨[.begin, .newEstimate 0 (0, 0), .residual 0 true (0, 0) (0, 3), .norm 3, .stdIter 3, .conv false,
    .correction 0 true (0, 3), .newCorrection (0, 3), .newEstimate 0 (1, 3)], ?_, .residual 1 false (1, 3) (1, 2), ?_, ?_, ?_⟩
  rotate_left
  · simp [solve, outer, core, toy]; rfl
  · simp [Event.isBad]
  · simp [solve, outer, core, toy]

end TfelVerif.C08.Props
