/- line-protocol driver of the C08 model (core Lean only): one request per line, one trace per line.

   request (tokens separated by blanks; every real number is a 16-hex-digit IEEE-754 bit pattern):
     <solver> <N> <iterMax> <eps> <dmax> <lo> <hi> <radius> <mu0> <p0> <p1> <p2> <m>
     x0[N] dz0[N] fz1_0[N] J0[N*N] A[N*N] c[N] b[N] <default entry> <number of entries> <entries…>
   entry: <ok 0|1> <kind 0..3> [f[N] when kind is 1 or 2] [J[N*N] when kind is 2]
   answer: the events of the run separated by ';', then the returned flag, iter and final state
   (same format as harness/C08/harness.cxx; NaNs are printed as "nan"). -/
import TfelVerif.C08.Solvers
open TfelVerif.C08

def hexVal (c : Char) : Option Nat :=
  if '0' ≤ c ∧ c ≤ '9' then some (c.toNat - '0'.toNat)
  else if 'a' ≤ c ∧ c ≤ 'f' then some (c.toNat - 'a'.toNat + 10)
  else if 'A' ≤ c ∧ c ≤ 'F' then some (c.toNat - 'A'.toNat + 10)
  else none

def parseBits (s : String) : Option Float :=
  if s.length != 16 then none else
  (s.toList.foldlM (fun (acc : Nat) c => (hexVal c).map (fun v => acc * 16 + v)) 0).map
    (fun n => Float.ofBits n.toUInt64)

def hexDigit (n : Nat) : Char :=
  if n < 10 then Char.ofNat ('0'.toNat + n) else Char.ofNat ('a'.toNat + (n - 10))

def showBits (x : Float) : String :=
  if x.isNaN then "nan" else
  let n := x.toBits.toNat
  String.ofList ((List.range 16).map (fun i => hexDigit ((n >>> (4 * (15 - i))) % 16)))

def showVec (v : Array Float) : String := " ".intercalate (v.toList.map showBits)

/-- token reader -/
structure Rd where
  toks : Array String
  pos : Nat

abbrev P := StateT Rd Option

def tok : P String := do
  let r ← get
  if h : r.pos < r.toks.size then
    set { r with pos := r.pos + 1 }
    pure r.toks[r.pos]
  else failure

def pNat : P Nat := do (← tok).toNat?
def pFloat : P Float := do parseBits (← tok)
def pVec (k : Nat) : P (Array Float) := do
  let mut a := Array.mkEmpty k
  for _ in [0:k] do
    a := a.push (← pFloat)
  pure a

def pEntry (n : Nat) : P Entry := do
  let ok ← pNat
  let kind ← pNat
  let f ← if kind == 1 || kind == 2 then pVec n else pure #[]
  let J ← if kind == 2 then pVec (n * n) else pure #[]
  pure { ok := ok == 1, kind := kind, f := f, J := J }

def pSolver : P Solver := do
  match (← tok) with
  | "nr" => pure .nr
  | "broyden" => pure .broyden
  | "broyden2" => pure .broyden2
  | "pdlnr" => pure .pdlnr
  | "pdlbroyden" => pure .pdlbroyden
  | "lm" => pure .lm
  | _ => failure

def pRequest : P (Nat × St) := do
  let solver ← pSolver
  let n ← pNat
  if n == 0 || n > 16 then failure
  let iterMax ← pNat
  if iterMax > 65535 then failure
  let eps ← pFloat
  let dmax ← pFloat
  let lo ← pFloat
  let hi ← pFloat
  let radius ← pFloat
  let mu0 ← pFloat
  let p0 ← pFloat
  let p1 ← pFloat
  let p2 ← pFloat
  let lmm ← pFloat
  let x0 ← pVec n
  let dz0 ← pVec n
  let fz1 ← pVec n
  let J0 ← pVec (n * n)
  let A ← pVec (n * n)
  let c ← pVec n
  let b ← pVec n
  let dflt ← pEntry n
  let ne ← pNat
  let mut script := Array.mkEmpty ne
  for _ in [0:ne] do
    script := script.push (← pEntry n)
  let r ← get
  if r.pos != r.toks.size then failure
  pure (iterMax,
    { solver := solver, n := n, eps := eps, zeros := x0, fzeros := Array.replicate n 0.0, dz := dz0,
      jac := J0, fzeros1 := fz1, jac1 := Array.replicate (n * n) 0.0,
      mu0 := mu0, p0 := p0, p1 := p1, p2 := p2, lmm := lmm, mu := 0.0, err := 0.0, err1 := 0.0, first := true,
      radius := radius, calls := 0, script := script, dflt := dflt, polyA := A, polyC := c, polyB := b,
      dmax := dmax, lo := lo, hi := hi, sub := #[] })

def b01 (b : Bool) : String := if b then "1" else "0"

def showEvent : Event St Float → List String
  | .begin => ["B"]
  | .newEstimate i w => [s!"E {i} {showVec w.zeros}"]
  | .residual i ok wb wa => [s!"R {i} {b01 ok} z {showVec wb.zeros} f {showVec wa.fzeros}"]
  | .norm e => [s!"N {showBits e}"]
  | .reject _ => ["J"]
  | .invalid => ["I"]
  | .stdIter e => [s!"S {showBits e}"]
  | .conv b => [s!"C {b01 b}"]
  | .correction i ok w => w.sub.toList ++ [s!"K {i} {b01 ok}"]
  | .corrFailure => ["X"]
  | .newCorrection w => [s!"D {showVec w.dz}"]
  | .restart _ _ _ => []
  | .success => ["OK"]
  | .failure => ["KO"]

def answer (line : String) : String :=
  let toks := ((line.trimAscii.toString.splitOn " ").filter (· ≠ "")).toArray
  match pRequest.run { toks := toks, pos := 0 } with
  | none => "bad-op"
  | some ((iterMax, s), _) =>
    let r := solve (scriptedChild s.solver) iterMax s
    let evs := (r.trace.map showEvent).flatten
    ";".intercalate evs ++
      s!";ret={b01 r.ret} iter={r.iter} dd={b01 r.deltaDefined} calls={r.w.calls} z {showVec r.w.zeros} f {showVec r.w.fzeros} dz {showVec r.w.dz} J {showVec r.w.jac}"

partial def loop (h : IO.FS.Stream) (out : IO.FS.Stream) : IO Unit := do
  let line ← h.getLine
  if line.isEmpty then return ()
  out.putStrLn (answer line)
  loop h out

def main : IO Unit := do
  loop (← IO.getStdin) (← IO.getStdout)
