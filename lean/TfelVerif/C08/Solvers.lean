/-
  C08 — `Float` (= C `double`) instances of `Child` for the six fixed-size solvers, with a scripted
  residual oracle. Core Lean only. Every function is a transliteration, in the same operation order,
  of the C++ it names, so that the harness (built with -ffp-contract=off) and this model agree bit for bit:

    * `solveLin`           TinyMatrixSolve<N,double,false>::exe  (LU/TinyMatrixSolve.ixx: Cramer for N = 1,2,3;
                           for N ≥ 4 LUDecomp<false>::exe with its pivoting rule + back_substitute, LU/LUDecomp.ixx)
    * `nrCorrection`       TinyNewtonRaphsonSolver::computeNewCorrection
    * `broydenUpdate/…`    TinyBroydenSolver::{updateOrCheckJacobian, computeNewCorrection}
    * `broyden2Update/…`   TinyBroyden2Solver::{updateOrCheckJacobian, computeNewCorrection}
    * `dogLeg`             applyPowellDogLegAlgorithm (TinyPowellDogLegAlgorithmBase.hxx)
    * `pdlnrCorrection`    TinyPowellDogLegNewtonRaphsonSolver::computeNewCorrection
    * `pdlbCorrection`     TinyPowellDogLegBroydenSolver::computeNewCorrection
    * `lmStep/lmCorrection` TinyLevenbergMarquardtSolver::{computeLevenbergMarquardtCorrection, computeNewCorrection}
    * vector updates of the base class, `norm`, `ieee754::isfinite`, `checkConvergence` (e < epsilon)

  The scripted child (harness/C08/harness.cxx implements the same one in C++) answers the k-th
  `computeResidual` call with the k-th script entry: success flag, and either nothing written, a residual,
  a residual and a Jacobian (any bit patterns: NaN, ±inf, singular matrices), or the polynomial system
  f_i(x) = Σ_j A_ij x_j + c_i x_i² − b_i evaluated at the current unknowns. `processNewCorrection` clamps the
  correction to [−dmax, dmax], `processNewEstimate` clamps the unknowns to [lo, hi] (both are no-ops with
  infinite bounds).
-/
import TfelVerif.C08.Model

namespace TfelVerif.C08

inductive Solver where
  | nr | broyden | broyden2 | pdlnr | pdlbroyden | lm
  deriving DecidableEq, Repr

structure Entry where
  ok : Bool
  /-- 0: writes nothing, 1: writes `fzeros`, 2: writes `fzeros` and the matrix, 3: polynomial system -/
  kind : Nat
  f : Array Float
  J : Array Float
  deriving Inhabited

structure St where
  solver : Solver
  n : Nat
  eps : Float
  zeros : Array Float
  fzeros : Array Float
  dz : Array Float
  /-- `jacobian` (row-major), or `inv_jacobian` for Broyden2 -/
  jac : Array Float
  /-- `fzeros_1` (Broyden) / `levmar_fzeros_1` -/
  fzeros1 : Array Float
  /-- `levmar_jacobian_1` -/
  jac1 : Array Float
  mu0 : Float
  p0 : Float
  p1 : Float
  p2 : Float
  lmm : Float
  mu : Float
  err : Float
  err1 : Float
  first : Bool
  radius : Float
  -- scripted child
  calls : Nat
  script : Array Entry
  dflt : Entry
  polyA : Array Float
  polyC : Array Float
  polyB : Array Float
  dmax : Float
  lo : Float
  hi : Float
  /-- calls made to the child by the last `computeNewCorrection` (U = updateOrCheckJacobian,
  L = solveLinearSystem, M = computeLevenbergMarquardtCorrection) -/
  sub : Array String

/-! ### scalar and array helpers -/

/-- `tfel::math::abs(double)`: `(s < 0) ? -s : s` -/
@[inline] def tabs (x : Float) : Float := if x < 0.0 then -x else x
/-- `std::max(a, b)`: `(a < b) ? b : a` -/
@[inline] def cmax (a b : Float) : Float := if a < b then b else a
/-- `fpclassify(x) == FP_ZERO` -/
@[inline] def isZero (x : Float) : Bool := x == 0.0

@[inline] def at2 (n : Nat) (m : Array Float) (i j : Nat) : Float := m[i * n + j]!
@[inline] def set2 (n : Nat) (m : Array Float) (i j : Nat) (v : Float) : Array Float := m.set! (i * n + j) v

/-- `dotProduct<N>::exe(p, q, 0)` (used by `norm(const tvector&)`): r = 0; r = r + a_i * b_i, left to right -/
def dotL (n : Nat) (a b : Array Float) : Float := Id.run do
  let mut r : Float := 0.0
  for i in [0:n] do
    r := r + a[i]! * b[i]!
  return r

/-- `a | b` on (expressions evaluating to) tvectors: `DotProduct<N,0>::exe`, nested to the right:
a_0 b_0 + (a_1 b_1 + (… + (a_{N-1} b_{N-1} + 0))) -/
def dot0 (n : Nat) (a b : Array Float) : Float := Id.run do
  let mut r : Float := 0.0
  for t in [0:n] do
    let i := n - 1 - t
    r := a[i]! * b[i]! + r
  return r

/-- `norm(const tvector&)` (tvector.ixx) = sqrt(dotProduct<N>::exe(v, v, 0)) -/
def vnorm (n : Nat) (a : Array Float) : Float := Float.sqrt (dotL n a a)

/-- `norm(expr)` on a vector expression (VectorConceptOperations.ixx) = sqrt(expr | expr) -/
def vnormExpr (n : Nat) (a : Array Float) : Float := Float.sqrt (dot0 n a a)

/-- `abs(v)` (AbsSum): r = 0; r += |v_i| -/
def vabs (n : Nat) (a : Array Float) : Float := Id.run do
  let mut r : Float := 0.0
  for i in [0:n] do
    r := r + tabs a[i]!
  return r

/-- `m * v` (TMatrixTVectorExpr, fsalgo::inner_product without init): r = m_i0 v_0; r += m_ij v_j -/
def matVec (n : Nat) (m v : Array Float) : Array Float := Id.run do
  let mut out := Array.replicate n (0.0 : Float)
  for i in [0:n] do
    let mut r := at2 n m i 0 * v[0]!
    for j in [1:n] do
      r := r + at2 n m i j * v[j]!
    out := out.set! i r
  return out

/-- `v * m` (TVectorTMatrixExpr): r = v_0 m_0j; r += v_i m_ij -/
def vecMat (n : Nat) (v m : Array Float) : Array Float := Id.run do
  let mut out := Array.replicate n (0.0 : Float)
  for j in [0:n] do
    let mut r := v[0]! * at2 n m 0 j
    for i in [1:n] do
      r := r + v[i]! * at2 n m i j
    out := out.set! j r
  return out

def vneg (a : Array Float) : Array Float := a.map (fun x => -x)

/-! ### TinyMatrixSolve<N, double, false>::exe -/

/-- `100 * std::numeric_limits<double>::min()` -/
def epsLU : Float := 100.0 * Float.ofBits 0x0010000000000000

/-- `LUDecomp<false>::exe` (N ≥ 4): returns success, the matrix as left in place, the permutation and
its `is_identity` flag -/
def luDecomp (n : Nat) (m0 : Array Float) : Bool × Array Float × Array Nat × Bool := Id.run do
  let c : Float := 1.0 / 10.0
  let mut m := m0
  let mut p : Array Nat := Array.range n
  let mut ident := true
  for i in [0:n] do
    if ident then
      for j in [i:n] do
        let mut v : Float := 0.0
        for k in [0:i] do
          v := v + at2 n m j k * at2 n m k i
        m := set2 n m j i (at2 n m j i - v)
    else
      for j in [i:n] do
        let pj := p[j]!
        let mut v : Float := 0.0
        for k in [0:i] do
          v := v + at2 n m pj k * at2 n m p[k]! i
        m := set2 n m pj i (at2 n m pj i - v)
    let mut piv := i
    if ident then
      let mut cm := tabs (at2 n m i i)
      for j in [i+1:n] do
        if tabs (at2 n m j i) > cm then
          cm := tabs (at2 n m j i)
          piv := j
      if piv != i then
        if !((tabs (at2 n m i i) > c * cm) && (tabs (at2 n m i i) > epsLU)) then
          let t := p[piv]!
          p := (p.set! piv p[i]!).set! i t
          ident := false
    else
      let mut cm := tabs (at2 n m p[i]! i)
      for j in [i+1:n] do
        let pj := p[j]!
        if tabs (at2 n m pj i) > cm then
          cm := tabs (at2 n m pj i)
          piv := j
      if piv != i then
        if !((tabs (at2 n m p[i]! i) > c * cm) && (tabs (at2 n m p[i]! i) > epsLU)) then
          let t := p[piv]!
          p := (p.set! piv p[i]!).set! i t
          ident := false
    if tabs (at2 n m p[i]! i) < epsLU then
      return (false, m, p, ident)
    if ident then
      for j in [i+1:n] do
        let mut v : Float := 0.0
        for k in [0:i] do
          v := v + at2 n m i k * at2 n m k j
        m := set2 n m i j (at2 n m i j - v)
        m := set2 n m i j (at2 n m i j / at2 n m i i)
    else
      let pi := p[i]!
      for j in [i+1:n] do
        for k in [0:i] do
          m := set2 n m pi j (at2 n m pi j - at2 n m pi k * at2 n m p[k]! j)
        m := set2 n m pi j (at2 n m pi j / at2 n m pi i)
  return (true, m, p, ident)

/-- `TinyMatrixSolveBase::back_substitute` (vector right-hand side) -/
def backSubstitute (n : Nat) (m : Array Float) (p : Array Nat) (ident : Bool) (b0 : Array Float) :
    Bool × Array Float := Id.run do
  let mut x := b0
  let mut b := b0
  if ident then
    for i in [0:n] do
      let mut v : Float := 0.0
      for j in [0:i] do
        v := v + at2 n m i j * x[j]!
      if tabs (at2 n m i i) < epsLU then
        return (false, b0)
      x := x.set! i (x[i]! - v)
      x := x.set! i (x[i]! / at2 n m i i)
    b := b.set! (n - 1) x[n - 1]!
    for t in [0:n-1] do
      let i := n - 1 - t
      let pi := i - 1
      let mut v : Float := 0.0
      for j in [i:n] do
        v := v + at2 n m pi j * b[j]!
      b := b.set! pi (x[pi]! - v)
  else
    for i in [0:n] do
      let pi := p[i]!
      let mut v : Float := 0.0
      for j in [0:i] do
        v := v + at2 n m pi j * x[p[j]!]!
      if tabs (at2 n m pi i) < epsLU then
        return (false, b0)
      x := x.set! pi (x[pi]! - v)
      x := x.set! pi (x[pi]! / at2 n m pi i)
    b := b.set! (n - 1) x[p[n - 1]!]!
    for t in [0:n-1] do
      let i := n - 1 - t
      let pi2 := i - 1
      let pi := p[pi2]!
      let mut v : Float := 0.0
      for j in [i:n] do
        v := v + at2 n m pi j * b[j]!
      b := b.set! pi2 (x[pi]! - v)
  return (true, b)

/-- `TinyMatrixSolve<N,double,false>::exe(m, b)`: (success, matrix as left, right-hand side as left) -/
def solveLin (n : Nat) (m b : Array Float) : Bool × Array Float × Array Float :=
  if n == 1 then
    if tabs m[0]! < epsLU then (false, m, b) else (true, m, b.set! 0 (b[0]! / m[0]!))
  else if n == 2 then
    let m00 := at2 2 m 0 0; let m01 := at2 2 m 0 1; let m10 := at2 2 m 1 0; let m11 := at2 2 m 1 1
    let det := m00 * m11 - m01 * m10
    if tabs det < epsLU then (false, m, b) else
    let b0 := b[0]!; let b1 := b[1]!
    (true, m, #[(m11 * b0 - m01 * b1) / det, ((-m10) * b0 + m00 * b1) / det])
  else if n == 3 then
    let a := at2 3 m
    let det := a 0 0 * (a 1 1 * a 2 2 - a 1 2 * a 2 1) - a 0 1 * (a 1 0 * a 2 2 - a 1 2 * a 2 0) +
               a 0 2 * (a 1 0 * a 2 1 - a 1 1 * a 2 0)
    if tabs det < epsLU then (false, m, b) else
    let b0 := b[0]!; let b1 := b[1]!; let b2 := b[2]!
    (true, m,
      #[((a 1 1 * a 2 2 - a 1 2 * a 2 1) * b0 - (a 0 1 * a 2 2 - a 0 2 * a 2 1) * b1 +
          (a 0 1 * a 1 2 - a 0 2 * a 1 1) * b2) / det,
        ((a 1 2 * a 2 0 - a 1 0 * a 2 2) * b0 + (a 0 0 * a 2 2 - a 0 2 * a 2 0) * b1 -
          (a 0 0 * a 1 2 - a 0 2 * a 1 0) * b2) / det,
        ((a 1 0 * a 2 1 - a 1 1 * a 2 0) * b0 - (a 0 0 * a 2 1 - a 0 1 * a 2 0) * b1 +
          (a 0 0 * a 1 1 - a 0 1 * a 1 0) * b2) / det])
  else
    let (ok, m', p, ident) := luDecomp n m
    if !ok then (false, m', b) else
    let (ok2, b') := backSubstitute n m' p ident b
    (ok2, m', b')

/-! ### the solvers' `computeNewCorrection` -/

def logU (s : St) (iter : Nat) : St := { s with sub := s.sub.push s!"U {iter}" }
def logL (s : St) (ok : Bool) : St := { s with sub := s.sub.push (if ok then "L 1" else "L 0") }

/-- TinyNewtonRaphsonSolver::computeNewCorrection -/
def nrCorrection (iter : Nat) (s0 : St) : Bool × St :=
  let s := logU s0 iter
  let (ok, m, b) := solveLin s.n s.jac s.fzeros
  let s := logL { s with jac := m, fzeros := b } ok
  if !ok then (false, s) else (true, { s with dz := vneg s.fzeros })

/-- TinyBroydenSolver::updateOrCheckJacobian (also TinyPowellDogLegBroydenSolver's) -/
def broydenUpdate (iter : Nat) (s : St) : St :=
  if iter == 0 then s else
  let n := s.n
  let nn := dot0 n s.dz s.dz
  if isZero nn then s else
  let fz2 := matVec n s.jac s.dz
  let jac := Id.run do
    let mut m := s.jac
    for i in [0:n] do
      for j in [0:n] do
        m := set2 n m i j (at2 n m i j + ((s.fzeros[i]! - s.fzeros1[i]! - fz2[i]!) * s.dz[j]!) / nn)
    return m
  { s with jac := jac }

/-- TinyBroydenSolver::computeNewCorrection -/
def broydenCorrection (iter : Nat) (s0 : St) : Bool × St :=
  let s := broydenUpdate iter (logU s0 iter)
  let (ok, _, b) := solveLin s.n s.jac s.fzeros
  let s := logL s ok
  if !ok then (false, s) else (true, { s with dz := vneg b, fzeros1 := s.fzeros })

/-- TinyBroyden2Solver::updateOrCheckJacobian -/
def broyden2Update (iter : Nat) (s : St) : St :=
  if iter == 0 then s else
  let n := s.n
  let dfz := Array.ofFn (n := n) (fun i => s.fzeros[i.val]! - s.fzeros1[i.val]!)
  let c2 := matVec n s.jac dfz
  let c3 := vecMat n s.dz s.jac
  let nc := dot0 n c3 dfz
  if isZero nc then s else
  let jac := Id.run do
    let mut m := s.jac
    for i in [0:n] do
      for j in [0:n] do
        m := set2 n m i j (at2 n m i j + ((s.dz[i]! - c2[i]!) * c3[j]!) / nc)
    return m
  { s with jac := jac }

/-- TinyBroyden2Solver::computeNewCorrection -/
def broyden2Correction (iter : Nat) (s0 : St) : Bool × St :=
  let s := broyden2Update iter (logU s0 iter)
  (true, { s with dz := matVec s.n (vneg s.jac) s.fzeros, fzeros1 := s.fzeros })

/-- applyPowellDogLegAlgorithm(delta_zeros, jacobian, fzeros, radius): the new delta_zeros -/
def dogLeg (n : Nat) (dz jac fz : Array Float) (radius : Float) : Array Float :=
  let nr := n.toFloat * radius
  if vabs n dz < nr then dz else
  let g := Id.run do
    let mut g := Array.replicate n (0.0 : Float)
    for i in [0:n] do
      let mut r : Float := 0.0
      for j in [0:n] do
        r := r + at2 n jac j i * fz[j]!
      g := g.set! i r
    return g
  let g2 := Id.run do
    let mut g2 := Array.replicate n (0.0 : Float)
    for i in [0:n] do
      let mut r : Float := 0.0
      for j in [0:n] do
        r := r + at2 n jac i j * g[j]!
      g2 := g2.set! i r
    return g2
  let cste := dot0 n g g / dot0 n g2 g2
  let g := g.map (fun x => x * cste)
  let g :=
    if vabs n g < nr then
      let c0 := radius * radius
      let c1 := dot0 n g g
      let c2 := dot0 n (vneg dz) g
      let c3 := dot0 n dz dz
      let c4 := (c2 - c0) * (c2 - c0) + (c3 - c0) * (c0 - c1)
      let alpha := (c0 - c1) / (c2 - c1 + Float.sqrt (cmax c4 0.0))
      Array.ofFn (n := n) (fun i => (-alpha) * dz[i.val]! + (1.0 - alpha) * g[i.val]!)
    else
      let alpha := radius / vnorm n g
      g.map (fun x => x * alpha)
  vneg g

/-- TinyPowellDogLegNewtonRaphsonSolver::computeNewCorrection -/
def pdlnrCorrection (iter : Nat) (s0 : St) : Bool × St :=
  let s := logU s0 iter
  let tjac := s.jac
  let tfz := s.fzeros
  let (ok, m, b) := solveLin s.n s.jac s.fzeros
  let s := logL { s with jac := m, fzeros := b } ok
  if !ok then (false, s) else
  (true, { s with dz := dogLeg s.n (vneg s.fzeros) tjac tfz s.radius })

/-- TinyPowellDogLegBroydenSolver::computeNewCorrection (the dog-leg receives the matrix and the vector
as left by the linear solve, as in the C++) -/
def pdlbCorrection (iter : Nat) (s0 : St) : Bool × St :=
  let s := broydenUpdate iter (logU s0 iter)
  let (ok, m, b) := solveLin s.n s.jac s.fzeros
  let s := logL s ok
  if !ok then (false, s) else
  (true, { s with dz := dogLeg s.n (vneg b) m b s.radius, fzeros1 := s.fzeros })

/-- TinyLevenbergMarquardtSolver::computeLevenbergMarquardtCorrection -/
def lmStep (s0 : St) : Bool × St :=
  let s := { s0 with sub := s0.sub.push "M" }
  let n := s.n
  let (tJJ, sm) := Id.run do
    let mut tJJ := Array.replicate (n * n) (0.0 : Float)
    let mut sm := Array.replicate n (0.0 : Float)
    for i in [0:n] do
      let mut r : Float := 0.0
      for j in [0:n] do
        r := r + at2 n s.jac j i * s.fzeros[j]!
        let mut t : Float := 0.0
        for k in [0:n] do
          t := t + at2 n s.jac k i * at2 n s.jac k j
        tJJ := set2 n tJJ i j t
      sm := sm.set! i r
    return (tJJ, sm)
  let muF := s.mu * vnorm n s.fzeros
  let tJJ := Id.run do
    let mut m := tJJ
    for i in [0:n] do
      m := set2 n m i i (at2 n m i i + muF)
    return m
  let (ok, _, b) := solveLin n tJJ sm
  let s := logL s ok
  if !ok then (false, s) else (true, { s with dz := vneg b })

/-- TinyLevenbergMarquardtSolver::computeNewCorrection -/
def lmCorrection (iter : Nat) (s0 : St) : Bool × St :=
  let n := s0.n
  let s := { s0 with err := vnorm n s0.fzeros }
  let finish (r : Bool × St) : Bool × St :=
    if !r.1 then r else
    (true, { r.2 with err1 := r.2.err, fzeros1 := r.2.fzeros, jac1 := r.2.jac })
  if !s.first then
    let e2 := matVec n s.jac1 s.dz
    let errp := vnormExpr n (Array.ofFn (n := n) (fun i => s.fzeros1[i.val]! + e2[i.val]!))
    let r := (s.err * s.err - s.err1 * s.err1) / (errp * errp - s.err1 * s.err1)
    if r < s.p0 then
      let s := { s with mu := s.mu * 4.0,
                        zeros := Array.ofFn (n := n) (fun i => s.zeros[i.val]! - s.dz[i.val]!),
                        fzeros := s.fzeros1, jac := s.jac1, err := s.err1 }
      finish (lmStep s)
    else
      let s :=
        if r < s.p1 then { s with mu := s.mu * 4.0 }
        else if r > s.p2 then { s with mu := cmax (s.mu / 4.0) s.lmm }
        else s
      finish (lmStep (logU s iter))
  else
    let r := lmStep (logU s iter)
    if !r.1 then r else finish (true, { r.2 with first := false })

/-! ### the scripted child -/

def usesAnalyticJacobian : Solver → Bool
  | .nr | .pdlnr | .lm => true
  | _ => false

/-- f_i = Σ_j A_ij x_j + c_i x_i x_i − b_i ; J_ij = A_ij (+ 2 c_i x_i on the diagonal) -/
def polyResidual (s : St) : Array Float × Array Float := Id.run do
  let n := s.n
  let mut f := Array.replicate n (0.0 : Float)
  let mut J := s.polyA
  for i in [0:n] do
    let mut r : Float := 0.0
    for j in [0:n] do
      r := r + at2 n s.polyA i j * s.zeros[j]!
    r := r + s.polyC[i]! * s.zeros[i]! * s.zeros[i]!
    r := r - s.polyB[i]!
    f := f.set! i r
    J := set2 n J i i (at2 n s.polyA i i + 2.0 * s.polyC[i]! * s.zeros[i]!)
  return (f, J)

def scriptedResidual (s : St) : Bool × St :=
  let e := if h : s.calls < s.script.size then s.script[s.calls] else s.dflt
  let s := { s with calls := s.calls + 1 }
  let s :=
    if e.kind == 1 then { s with fzeros := e.f }
    else if e.kind == 2 then { s with fzeros := e.f, jac := e.J }
    else if e.kind == 3 then
      let (f, J) := polyResidual s
      if usesAnalyticJacobian s.solver then { s with fzeros := f, jac := J } else { s with fzeros := f }
    else s
  (e.ok, s)

def clampCorrection (s : St) : St :=
  { s with dz := s.dz.map (fun x => let x := if x > s.dmax then s.dmax else x
                                     if x < -s.dmax then -s.dmax else x) }

def clampEstimate (s : St) : St :=
  { s with zeros := s.zeros.map (fun x => let x := if x > s.hi then s.hi else x
                                          if x < s.lo then s.lo else x) }

def scriptedChild (solver : Solver) : Child St Float where
  initResolution := fun s => if solver == .lm then { s with mu := s.mu0 } else s
  initCore := fun s => if solver == .lm then { s with first := true } else s
  computeResidual := scriptedResidual
  residualNorm := fun s => vnorm s.n s.fzeros
  isFinite := fun e => e.isFinite
  checkConvergence := fun s e => e < s.eps
  computeNewCorrection := fun iter s =>
    let s := { s with sub := #[] }
    match solver with
    | .nr => nrCorrection iter s
    | .broyden => broydenCorrection iter s
    | .broyden2 => broyden2Correction iter s
    | .pdlnr => pdlnrCorrection iter s
    | .pdlbroyden => pdlbCorrection iter s
    | .lm => lmCorrection iter s
  processNewCorrection := clampCorrection
  addCorrection := fun s => { s with zeros := Array.ofFn (n := s.n) (fun i => s.zeros[i.val]! + s.dz[i.val]!) }
  processNewEstimate := clampEstimate
  rejectCurrentCorrection := id
  halveCorrection := fun s =>
    let dz := s.dz.map (fun x => x * 0.5)
    { s with dz := dz, zeros := Array.ofFn (n := s.n) (fun i => s.zeros[i.val]! - dz[i.val]!) }
  halveEstimate := fun s => { s with zeros := s.zeros.map (fun x => x * 0.5) }

end TfelVerif.C08
