/-
  C08 — executable model (core Lean only) of the driver loops of
  `tfel::math::TinyNonLinearSolverBase` (include/TFEL/Math/NonLinearSolvers/TinyNonLinearSolverBase.ixx):

    * `core`  = `solveNonLinearSystem2` (core loop: residual, convergence check *before* the correction)
    * `outer` = the `while (iter != iterMax)` loop of `solveNonLinearSystem` (halving restart strategy)
    * `solve` = `solveNonLinearSystem`

  The model is generic in the workspace type `W` and in everything the base class obtains from the CRTP
  child (`Child W α`): the residual oracle (`computeResidual`, success flag + new state), the solver's
  `computeNewCorrection` (Newton, Broyden, Broyden2, Powell dog-leg, Levenberg–Marquardt: see
  Solvers.lean), the customisation hooks and the vector updates applied by the base class itself.
  Every theorem of Props.lean is stated for an arbitrary `Child`, hence for every oracle and for each
  of the six solvers. The loops are total functions defined by well-founded recursion on the measure
  `iterMax - iter` (no fuel): the invariant `iter ≤ iterMax` is what makes the recursion well founded.

  `iter` is a `Nat` here and an `unsigned short` in the C++; since `iter ≤ iterMax ≤ 65535` is an
  invariant (`core_iter_le`, `outer_iter_le`), `++iter` never wraps and the two agree.

  Every call the base class makes to the child appears as an `Event` in the trace, in the order of the
  C++ statements; the harness logs the same events from the real code (harness/C08/harness.cxx).
-/
namespace TfelVerif.C08

/-- what `TinyNonLinearSolverBase` obtains from the CRTP child and from the workspace -/
structure Child (W : Type) (α : Type) where
  /-- `executeInitialisationTaskBeforeResolution` -/
  initResolution : W → W
  /-- `executeInitialisationTaskBeforeBeginningOfCoreAlgorithm` -/
  initCore : W → W
  /-- `computeResidual`: success flag and the state it leaves (the residual oracle) -/
  computeResidual : W → Bool × W
  /-- `computeResidualNorm` -/
  residualNorm : W → α
  /-- `ieee754::isfinite` -/
  isFinite : α → Bool
  /-- `checkConvergence(error)` -/
  checkConvergence : W → α → Bool
  /-- the solver's `computeNewCorrection` (reads `iter`): success flag and new state -/
  computeNewCorrection : Nat → W → Bool × W
  /-- `processNewCorrection` -/
  processNewCorrection : W → W
  /-- `zeros += delta_zeros` -/
  addCorrection : W → W
  /-- `processNewEstimate` -/
  processNewEstimate : W → W
  /-- `rejectCurrentCorrection` -/
  rejectCurrentCorrection : W → W
  /-- `delta_zeros *= 1/2; zeros -= delta_zeros` -/
  halveCorrection : W → W
  /-- `zeros *= 1/2` -/
  halveEstimate : W → W

/-- one entry per call made to the child (plus `restart`, the halving step, which calls no hook) -/
inductive Event (W : Type) (α : Type) where
  | begin                                                   -- reportBeginningOfResolution
  | newEstimate (iter : Nat) (w : W)                        -- processNewEstimate (state after it)
  | residual (iter : Nat) (ok : Bool) (before after : W)    -- computeResidual
  | norm (e : α)                                            -- computeResidualNorm
  | reject (w : W)                                          -- rejectCurrentCorrection (state after it)
  | invalid                                                 -- reportInvalidResidualEvaluation
  | stdIter (e : α)                                         -- reportStandardIteration
  | conv (b : Bool)                                         -- checkConvergence
  | correction (iter : Nat) (ok : Bool) (w : W)             -- computeNewCorrection (state after it)
  | corrFailure                                             -- reportNewCorrectionComputationFailure
  | newCorrection (w : W)                                   -- processNewCorrection (state after it)
  | restart (iter : Nat) (deltaDefined : Bool) (w : W)      -- halving of the correction / of the estimate
  | success                                                 -- reportSuccess
  | failure                                                 -- reportFailure

/-- state of the base class when a loop is left, with the events produced -/
structure Run (W : Type) (α : Type) where
  ret : Bool
  iter : Nat
  deltaDefined : Bool
  w : W
  trace : List (Event W α)

variable {W α : Type}

/-- `TinyNonLinearSolverBase::solveNonLinearSystem2`, entered with `iter < iterMax`
(the state passed in is the one left by `executeInitialisationTaskBeforeBeginningOfCoreAlgorithm`) -/
def core (c : Child W α) (iterMax : Nat) (iter : Nat) (h : iter < iterMax) (dd : Bool) (w : W) :
    Run W α :=
  let rr := c.computeResidual w
  if rr.1 = false then
    -- if (!child.computeResidual()) { rejectCurrentCorrection(); reportInvalidResidualEvaluation(); return false; }
    let wr := c.rejectCurrentCorrection rr.2
    { ret := false, iter := iter, deltaDefined := dd, w := wr,
      trace := [.residual iter false w rr.2, .reject wr, .invalid] }
  else
    let e := c.residualNorm rr.2
    if c.isFinite e = false then
      let wr := c.rejectCurrentCorrection rr.2
      { ret := false, iter := iter, deltaDefined := dd, w := wr,
        trace := [.residual iter true w rr.2, .norm e, .reject wr, .invalid] }
    else if c.checkConvergence rr.2 e = true then
      { ret := true, iter := iter, deltaDefined := dd, w := rr.2,
        trace := [.residual iter true w rr.2, .norm e, .stdIter e, .conv true] }
    else
      let cc := c.computeNewCorrection iter rr.2
      if cc.1 = false then
        -- reportNewCorrectionComputationFailure(); break;
        { ret := false, iter := iter, deltaDefined := dd, w := cc.2,
          trace := [.residual iter true w rr.2, .norm e, .stdIter e, .conv false,
                    .correction iter false cc.2, .corrFailure] }
      else
        let w3 := c.processNewCorrection cc.2
        let w5 := c.processNewEstimate (c.addCorrection w3)
        let evs : List (Event W α) :=
          [.residual iter true w rr.2, .norm e, .stdIter e, .conv false,
           .correction iter true cc.2, .newCorrection w3, .newEstimate iter w5]
        if h2 : iter + 1 = iterMax then
          -- ++iter; if (iter == iterMax) break;
          { ret := false, iter := iter + 1, deltaDefined := true, w := w5, trace := evs }
        else
          let r := core c iterMax (iter + 1) (by omega) true w5
          { r with trace := evs ++ r.trace }
termination_by iterMax - iter

/-- the counter only grows in the core loop -/
theorem core_iter_ge (c : Child W α) (iterMax iter : Nat) (h : iter < iterMax) (dd : Bool) (w : W) :
    iter ≤ (core c iterMax iter h dd w).iter := by
  induction iter, h, dd, w using core.induct c iterMax <;> rw [core] <;> simp_all +zetaDelta <;> omega

/-- `iter ≤ iterMax` when the core loop is left (invariant of the core loop) -/
theorem core_iter_le (c : Child W α) (iterMax iter : Nat) (h : iter < iterMax) (dd : Bool) (w : W) :
    (core c iterMax iter h dd w).iter ≤ iterMax := by
  induction iter, h, dd, w using core.induct c iterMax <;> rw [core] <;> simp_all +zetaDelta <;> omega

/-- the `while (this->iter != this->iterMax)` loop of `solveNonLinearSystem`, entered with `iter ≤ iterMax` -/
def outer (c : Child W α) (iterMax : Nat) (iter : Nat) (h : iter ≤ iterMax) (dd : Bool) (w : W) :
    Run W α :=
  if h1 : iter = iterMax then
    { ret := false, iter := iter, deltaDefined := dd, w := w, trace := [.failure] }
  else
    let w1 := c.processNewEstimate w
    let r := core c iterMax iter (by omega) dd (c.initCore w1)
    let evs : List (Event W α) := .newEstimate iter w1 :: r.trace
    if r.ret = true then
      { r with trace := evs ++ [.success] }
    else if h2 : r.iter = iterMax then
      { r with trace := evs ++ [.failure] }
    else
      let w2 := if r.deltaDefined = true then c.halveCorrection r.w else c.halveEstimate r.w
      let r2 := outer c iterMax (r.iter + 1)
        (by have hle : r.iter ≤ iterMax := core_iter_le c iterMax iter (by omega) dd (c.initCore w1)
            omega) r.deltaDefined w2
      { r2 with trace := evs ++ .restart r.iter r.deltaDefined w2 :: r2.trace }
termination_by iterMax - iter
decreasing_by
  have := core_iter_ge c iterMax iter (by omega) dd (c.initCore (c.processNewEstimate w))
  omega

/-- `TinyNonLinearSolverBase::solveNonLinearSystem` (`iter := 0; is_delta_zeros_defined := false`) -/
def solve (c : Child W α) (iterMax : Nat) (w : W) : Run W α :=
  let r := outer c iterMax 0 (Nat.zero_le _) false (c.initResolution w)
  { r with trace := .begin :: r.trace }

end TfelVerif.C08
