/-
  C08 — helper lemmas: one unfolding equation per exit of the two loops of Model.lean, and the
  induction principles `core_rec` / `outer_rec` used by every theorem of Props.lean
  (a property of the run is proved by giving it on each exit and through one loop iteration).
-/
import TfelVerif.C08.Model

namespace TfelVerif.C08

variable {W α : Type} (c : Child W α) (iterMax : Nat)

/-! ### `core` = solveNonLinearSystem2, branch by branch -/

/-- events of one complete iteration of the core loop (residual … new estimate) -/
def stepEvents (iter : Nat) (w : W) : List (Event W α) :=
  let w1 := (c.computeResidual w).2
  let e := c.residualNorm w1
  let w2 := (c.computeNewCorrection iter w1).2
  let w3 := c.processNewCorrection w2
  [.residual iter true w w1, .norm e, .stdIter e, .conv false,
   .correction iter true w2, .newCorrection w3,
   .newEstimate iter (c.processNewEstimate (c.addCorrection w3))]

/-- state after one complete iteration of the core loop -/
def stepState (iter : Nat) (w : W) : W :=
  c.processNewEstimate (c.addCorrection (c.processNewCorrection
    (c.computeNewCorrection iter (c.computeResidual w).2).2))

theorem core_eq_residual_failed (iter : Nat) (h : iter < iterMax) (dd : Bool) (w : W)
    (hr : (c.computeResidual w).1 = false) :
    core c iterMax iter h dd w =
      { ret := false, iter := iter, deltaDefined := dd, w := c.rejectCurrentCorrection (c.computeResidual w).2,
        trace := [.residual iter false w (c.computeResidual w).2,
                  .reject (c.rejectCurrentCorrection (c.computeResidual w).2), .invalid] } := by
  rw [core]; simp [hr]

theorem core_eq_nonfinite (iter : Nat) (h : iter < iterMax) (dd : Bool) (w : W)
    (hr : (c.computeResidual w).1 = true)
    (hf : c.isFinite (c.residualNorm (c.computeResidual w).2) = false) :
    core c iterMax iter h dd w =
      { ret := false, iter := iter, deltaDefined := dd, w := c.rejectCurrentCorrection (c.computeResidual w).2,
        trace := [.residual iter true w (c.computeResidual w).2, .norm (c.residualNorm (c.computeResidual w).2),
                  .reject (c.rejectCurrentCorrection (c.computeResidual w).2), .invalid] } := by
  rw [core]; simp [hr, hf]

theorem core_eq_converged (iter : Nat) (h : iter < iterMax) (dd : Bool) (w : W)
    (hr : (c.computeResidual w).1 = true)
    (hf : c.isFinite (c.residualNorm (c.computeResidual w).2) = true)
    (hc : c.checkConvergence (c.computeResidual w).2 (c.residualNorm (c.computeResidual w).2) = true) :
    core c iterMax iter h dd w =
      { ret := true, iter := iter, deltaDefined := dd, w := (c.computeResidual w).2,
        trace := [.residual iter true w (c.computeResidual w).2, .norm (c.residualNorm (c.computeResidual w).2),
                  .stdIter (c.residualNorm (c.computeResidual w).2), .conv true] } := by
  rw [core]; simp [hr, hf, hc]

theorem core_eq_correction_failed (iter : Nat) (h : iter < iterMax) (dd : Bool) (w : W)
    (hr : (c.computeResidual w).1 = true)
    (hf : c.isFinite (c.residualNorm (c.computeResidual w).2) = true)
    (hc : c.checkConvergence (c.computeResidual w).2 (c.residualNorm (c.computeResidual w).2) = false)
    (hcc : (c.computeNewCorrection iter (c.computeResidual w).2).1 = false) :
    core c iterMax iter h dd w =
      { ret := false, iter := iter, deltaDefined := dd, w := (c.computeNewCorrection iter (c.computeResidual w).2).2,
        trace := [.residual iter true w (c.computeResidual w).2, .norm (c.residualNorm (c.computeResidual w).2),
                  .stdIter (c.residualNorm (c.computeResidual w).2), .conv false,
                  .correction iter false (c.computeNewCorrection iter (c.computeResidual w).2).2, .corrFailure] } := by
  rw [core]; simp [hr, hf, hc, hcc]

theorem core_eq_last_iteration (iter : Nat) (h : iter < iterMax) (dd : Bool) (w : W)
    (hr : (c.computeResidual w).1 = true)
    (hf : c.isFinite (c.residualNorm (c.computeResidual w).2) = true)
    (hc : c.checkConvergence (c.computeResidual w).2 (c.residualNorm (c.computeResidual w).2) = false)
    (hcc : (c.computeNewCorrection iter (c.computeResidual w).2).1 = true)
    (h2 : iter + 1 = iterMax) :
    core c iterMax iter h dd w =
      { ret := false, iter := iter + 1, deltaDefined := true, w := stepState c iter w,
        trace := stepEvents c iter w } := by
  rw [core]; simp [hr, hf, hc, hcc, h2, stepState, stepEvents]

theorem core_eq_step (iter : Nat) (h : iter < iterMax) (dd : Bool) (w : W)
    (hr : (c.computeResidual w).1 = true)
    (hf : c.isFinite (c.residualNorm (c.computeResidual w).2) = true)
    (hc : c.checkConvergence (c.computeResidual w).2 (c.residualNorm (c.computeResidual w).2) = false)
    (hcc : (c.computeNewCorrection iter (c.computeResidual w).2).1 = true)
    (h2 : iter + 1 < iterMax) :
    core c iterMax iter h dd w =
      { core c iterMax (iter + 1) h2 true (stepState c iter w) with
        trace := stepEvents c iter w ++ (core c iterMax (iter + 1) h2 true (stepState c iter w)).trace } := by
  rw [core]
  have h3 : ¬ (iter + 1 = iterMax) := by omega
  simp [hr, hf, hc, hcc, h3, stepState, stepEvents]

/-- induction principle of the core loop: a predicate on (entry counter, entry flag, entry state, run)
holds for `solveNonLinearSystem2` as soon as it holds on each of the five exits and is preserved
through one complete iteration. -/
theorem core_rec {motive : Nat → Bool → W → Run W α → Prop}
    (residualFailed : ∀ iter dd w, iter < iterMax → (c.computeResidual w).1 = false →
      motive iter dd w
        { ret := false, iter := iter, deltaDefined := dd, w := c.rejectCurrentCorrection (c.computeResidual w).2,
          trace := [.residual iter false w (c.computeResidual w).2,
                    .reject (c.rejectCurrentCorrection (c.computeResidual w).2), .invalid] })
    (nonFinite : ∀ iter dd w, iter < iterMax → (c.computeResidual w).1 = true →
      c.isFinite (c.residualNorm (c.computeResidual w).2) = false →
      motive iter dd w
        { ret := false, iter := iter, deltaDefined := dd, w := c.rejectCurrentCorrection (c.computeResidual w).2,
          trace := [.residual iter true w (c.computeResidual w).2, .norm (c.residualNorm (c.computeResidual w).2),
                    .reject (c.rejectCurrentCorrection (c.computeResidual w).2), .invalid] })
    (converged : ∀ iter dd w, iter < iterMax → (c.computeResidual w).1 = true →
      c.isFinite (c.residualNorm (c.computeResidual w).2) = true →
      c.checkConvergence (c.computeResidual w).2 (c.residualNorm (c.computeResidual w).2) = true →
      motive iter dd w
        { ret := true, iter := iter, deltaDefined := dd, w := (c.computeResidual w).2,
          trace := [.residual iter true w (c.computeResidual w).2, .norm (c.residualNorm (c.computeResidual w).2),
                    .stdIter (c.residualNorm (c.computeResidual w).2), .conv true] })
    (correctionFailed : ∀ iter dd w, iter < iterMax → (c.computeResidual w).1 = true →
      c.isFinite (c.residualNorm (c.computeResidual w).2) = true →
      c.checkConvergence (c.computeResidual w).2 (c.residualNorm (c.computeResidual w).2) = false →
      (c.computeNewCorrection iter (c.computeResidual w).2).1 = false →
      motive iter dd w
        { ret := false, iter := iter, deltaDefined := dd, w := (c.computeNewCorrection iter (c.computeResidual w).2).2,
          trace := [.residual iter true w (c.computeResidual w).2, .norm (c.residualNorm (c.computeResidual w).2),
                    .stdIter (c.residualNorm (c.computeResidual w).2), .conv false,
                    .correction iter false (c.computeNewCorrection iter (c.computeResidual w).2).2, .corrFailure] })
    (lastIteration : ∀ iter dd w, iter + 1 = iterMax →
      motive iter dd w
        { ret := false, iter := iter + 1, deltaDefined := true, w := stepState c iter w,
          trace := stepEvents c iter w })
    (step : ∀ iter dd w (r : Run W α), iter + 1 < iterMax →
      motive (iter + 1) true (stepState c iter w) r →
      motive iter dd w { r with trace := stepEvents c iter w ++ r.trace })
    (iter : Nat) (h : iter < iterMax) (dd : Bool) (w : W) :
    motive iter dd w (core c iterMax iter h dd w) := by
  generalize hn : iterMax - iter = n
  induction n generalizing iter dd w with
  | zero => omega
  | succ n ih =>
    cases hr : (c.computeResidual w).1 with
    | false => rw [core_eq_residual_failed c iterMax iter h dd w hr]; exact residualFailed iter dd w h hr
    | true =>
      cases hf : c.isFinite (c.residualNorm (c.computeResidual w).2) with
      | false => rw [core_eq_nonfinite c iterMax iter h dd w hr hf]; exact nonFinite iter dd w h hr hf
      | true =>
        cases hc : c.checkConvergence (c.computeResidual w).2 (c.residualNorm (c.computeResidual w).2) with
        | true => rw [core_eq_converged c iterMax iter h dd w hr hf hc]; exact converged iter dd w h hr hf hc
        | false =>
          cases hcc : (c.computeNewCorrection iter (c.computeResidual w).2).1 with
          | false =>
            rw [core_eq_correction_failed c iterMax iter h dd w hr hf hc hcc]
            exact correctionFailed iter dd w h hr hf hc hcc
          | true =>
            by_cases h2 : iter + 1 = iterMax
            · rw [core_eq_last_iteration c iterMax iter h dd w hr hf hc hcc h2]
              exact lastIteration iter dd w h2
            · have h3 : iter + 1 < iterMax := by omega
              rw [core_eq_step c iterMax iter h dd w hr hf hc hcc h3]
              exact step iter dd w _ h3 (ih (iter + 1) h3 true (stepState c iter w) (by omega))

/-! ### `outer` = the restart loop of solveNonLinearSystem, branch by branch -/

/-- the core run started by the restart loop at (`iter`, `dd`, `w`) -/
def coreRun (iter : Nat) (h : iter < iterMax) (dd : Bool) (w : W) : Run W α :=
  core c iterMax iter h dd (c.initCore (c.processNewEstimate w))

/-- state after the halving step -/
def restartState (r : Run W α) : W :=
  if r.deltaDefined = true then c.halveCorrection r.w else c.halveEstimate r.w

theorem outer_eq_exhausted (dd : Bool) (w : W) (h : iterMax ≤ iterMax) :
    outer c iterMax iterMax h dd w =
      { ret := false, iter := iterMax, deltaDefined := dd, w := w, trace := [.failure] } := by
  rw [outer]; simp

theorem outer_eq_success (iter : Nat) (h : iter ≤ iterMax) (dd : Bool) (w : W) (h1 : iter < iterMax)
    (hr : (coreRun c iterMax iter h1 dd w).ret = true) :
    outer c iterMax iter h dd w =
      { coreRun c iterMax iter h1 dd w with
        trace := .newEstimate iter (c.processNewEstimate w) :: (coreRun c iterMax iter h1 dd w).trace ++ [.success] } := by
  have h0 : ¬ iter = iterMax := by omega
  rw [outer]; simp only [coreRun] at hr; simp [h0, hr, coreRun]

theorem outer_eq_failure (iter : Nat) (h : iter ≤ iterMax) (dd : Bool) (w : W) (h1 : iter < iterMax)
    (hr : (coreRun c iterMax iter h1 dd w).ret = false)
    (h2 : (coreRun c iterMax iter h1 dd w).iter = iterMax) :
    outer c iterMax iter h dd w =
      { coreRun c iterMax iter h1 dd w with
        trace := .newEstimate iter (c.processNewEstimate w) :: (coreRun c iterMax iter h1 dd w).trace ++ [.failure] } := by
  have h0 : ¬ iter = iterMax := by omega
  rw [outer]; simp only [coreRun] at hr h2; simp [h0, hr, h2, coreRun]

theorem outer_eq_restart (iter : Nat) (h : iter ≤ iterMax) (dd : Bool) (w : W) (h1 : iter < iterMax)
    (hr : (coreRun c iterMax iter h1 dd w).ret = false)
    (h2 : (coreRun c iterMax iter h1 dd w).iter + 1 ≤ iterMax) :
    outer c iterMax iter h dd w =
      { outer c iterMax ((coreRun c iterMax iter h1 dd w).iter + 1) h2
          (coreRun c iterMax iter h1 dd w).deltaDefined (restartState c (coreRun c iterMax iter h1 dd w)) with
        trace := .newEstimate iter (c.processNewEstimate w) :: (coreRun c iterMax iter h1 dd w).trace ++
          .restart (coreRun c iterMax iter h1 dd w).iter (coreRun c iterMax iter h1 dd w).deltaDefined
              (restartState c (coreRun c iterMax iter h1 dd w)) ::
          (outer c iterMax ((coreRun c iterMax iter h1 dd w).iter + 1) h2
            (coreRun c iterMax iter h1 dd w).deltaDefined (restartState c (coreRun c iterMax iter h1 dd w))).trace } := by
  have h0 : ¬ iter = iterMax := by omega
  have h3 : ¬ (coreRun c iterMax iter h1 dd w).iter = iterMax := by omega
  rw [outer]; simp only [coreRun] at hr h3; simp [h0, hr, h3, coreRun, restartState]
  exact ⟨rfl, rfl, rfl, rfl, rfl, rfl⟩

/-- induction principle of the restart loop -/
theorem outer_rec {motive : Nat → Bool → W → Run W α → Prop}
    (exhausted : ∀ dd w, motive iterMax dd w
      { ret := false, iter := iterMax, deltaDefined := dd, w := w, trace := [.failure] })
    (success : ∀ iter dd w (h1 : iter < iterMax), (coreRun c iterMax iter h1 dd w).ret = true →
      motive iter dd w
        { coreRun c iterMax iter h1 dd w with
          trace := .newEstimate iter (c.processNewEstimate w) :: (coreRun c iterMax iter h1 dd w).trace ++ [.success] })
    (failure : ∀ iter dd w (h1 : iter < iterMax), (coreRun c iterMax iter h1 dd w).ret = false →
      (coreRun c iterMax iter h1 dd w).iter = iterMax →
      motive iter dd w
        { coreRun c iterMax iter h1 dd w with
          trace := .newEstimate iter (c.processNewEstimate w) :: (coreRun c iterMax iter h1 dd w).trace ++ [.failure] })
    (restart : ∀ iter dd w (h1 : iter < iterMax) (r2 : Run W α), (coreRun c iterMax iter h1 dd w).ret = false →
      (coreRun c iterMax iter h1 dd w).iter < iterMax →
      motive ((coreRun c iterMax iter h1 dd w).iter + 1) (coreRun c iterMax iter h1 dd w).deltaDefined
        (restartState c (coreRun c iterMax iter h1 dd w)) r2 →
      motive iter dd w
        { r2 with
          trace := .newEstimate iter (c.processNewEstimate w) :: (coreRun c iterMax iter h1 dd w).trace ++
            .restart (coreRun c iterMax iter h1 dd w).iter (coreRun c iterMax iter h1 dd w).deltaDefined
                (restartState c (coreRun c iterMax iter h1 dd w)) :: r2.trace })
    (iter : Nat) (h : iter ≤ iterMax) (dd : Bool) (w : W) :
    motive iter dd w (outer c iterMax iter h dd w) := by
  generalize hn : iterMax - iter = n
  induction n using Nat.strongRecOn generalizing iter dd w with
  | _ n ih =>
    by_cases h0 : iter = iterMax
    · subst h0; rw [outer_eq_exhausted]; exact exhausted dd w
    · have h1 : iter < iterMax := by omega
      have hge : iter ≤ (coreRun c iterMax iter h1 dd w).iter := core_iter_ge c iterMax iter h1 dd _
      have hle : (coreRun c iterMax iter h1 dd w).iter ≤ iterMax := core_iter_le c iterMax iter h1 dd _
      cases hr : (coreRun c iterMax iter h1 dd w).ret with
      | true => rw [outer_eq_success c iterMax iter h dd w h1 hr]; exact success iter dd w h1 hr
      | false =>
        by_cases h2 : (coreRun c iterMax iter h1 dd w).iter = iterMax
        · rw [outer_eq_failure c iterMax iter h dd w h1 hr h2]; exact failure iter dd w h1 hr h2
        · have h3 : (coreRun c iterMax iter h1 dd w).iter + 1 ≤ iterMax := by omega
          rw [outer_eq_restart c iterMax iter h dd w h1 hr h3]
          exact restart iter dd w h1 _ hr (by omega)
            (ih (iterMax - ((coreRun c iterMax iter h1 dd w).iter + 1)) (by omega) _ h3 _ _ rfl)

/-- number of `computeResidual` calls in a trace -/
def residualCount : List (Event W α) → Nat
  | [] => 0
  | .residual _ _ _ _ :: l => residualCount l + 1
  | _ :: l => residualCount l

theorem residualCount_append (l₁ l₂ : List (Event W α)) :
    residualCount (l₁ ++ l₂) = residualCount l₁ + residualCount l₂ := by
  induction l₁ with
  | nil => simp [residualCount]
  | cons a l ih => cases a <;> simp [residualCount, ih] <;> omega

/-- list helper: an element that is not in the suffix `t` of `pre ++ t` is followed by all of `t` -/
theorem split_before_tail {β : Type} (pre t a b : List β) (x : β) (hx : x ∉ t)
    (h : pre ++ t = a ++ x :: b) : ∃ b₁, b = b₁ ++ t := by
  rcases List.append_eq_append_iff.mp h with ⟨a', rfl, h2⟩ | ⟨c', rfl, h2⟩
  · exact absurd (by rw [h2]; simp) hx
  · cases c' with
    | nil => simp at h2; exact absurd (by rw [← h2]; simp) hx
    | cons y c'' =>
      simp only [List.cons_append, List.cons.injEq] at h2
      exact ⟨c'', h2.2⟩

end TfelVerif.C08
