/- line-protocol driver of the C51 model over `Float` (C `double`): same requests and answers as
   harness/C51/harness.cxx; every number is the hexadecimal bit pattern of a double -/
import TfelVerif.C51.Model
open TfelVerif.C51

instance : Arith Float where
  add := (· + ·)
  sub := (· - ·)
  mul := (· * ·)
  div := (· / ·)
  abs := Float.abs
  lt a b := decide (a < b)
  le a b := decide (a ≤ b)
  isFinite := Float.isFinite
  zero := 0.0
  two := 2.0

/-- `100. * std::numeric_limits<double>::min()` -/
def eps : Float := 100.0 * Float.ofBits 0x0010000000000000

def hexDigit (c : Char) : Option UInt64 :=
  if '0' ≤ c ∧ c ≤ '9' then some (c.toNat - '0'.toNat).toUInt64
  else if 'a' ≤ c ∧ c ≤ 'f' then some (c.toNat - 'a'.toNat + 10).toUInt64
  else none

def parseHex (s : String) : Option Float :=
  if s.isEmpty then none else
  (s.toList.foldlM (fun (acc : UInt64) c => (hexDigit c).map fun d => acc * 16 + d) 0).map Float.ofBits

def parseVec : Nat → List String → Option (List Float × List String)
  | 0, ws => some ([], ws)
  | n + 1, w :: ws => do
    let x ← parseHex w
    let (xs, r) ← parseVec n ws
    pure (x :: xs, r)
  | _ + 1, [] => none

def showVerdict (withCount : Bool) : Verdict → String
  | .ok => "ok"
  | .fail n => if withCount then s!"fail {n}" else "fail"
  | .throw n => if withCount then s!"throw {n}" else "throw"

def answer (line : String) : String :=
  let ws := (line.trimAscii.toString.splitOn " ").filter (· ≠ "")
  let r : Option String :=
    match ws with
    | "area" :: ik :: p :: na :: rest => do
      let k ← (match ik with | "none" => some Interp.none | "linear" => some Interp.linear | _ => none)
      let prec ← parseHex p
      let na ← na.toNat?
      let (ta, rest) ← parseVec na rest
      let (va, rest) ← parseVec na rest
      match rest with
      | nb :: rest =>
        let nb ← nb.toNat?
        let (tb, rest) ← parseVec nb rest
        let (vb, _) ← parseVec nb rest
        pure (showVerdict false (areaComparison k prec (ta.zip va) (tb.zip vb)))
      | [] => none
    | "analytical" :: p :: n :: rest => do
      let e ← parseHex p
      let n ← n.toNat?
      let (v, rest) ← parseVec n rest
      let (f, _) ← parseVec n rest
      pure (showVerdict true (analyticalTest e v f))
    | "reffile" :: p :: n :: rest => do
      let e ← parseHex p
      let n ← n.toNat?
      let (v, rest) ← parseVec n rest
      match rest with
      | m :: rest =>
        let m ← m.toNat?
        let (r, _) ← parseVec m rest
        pure (showVerdict true (referenceFileComparisonTest e v r))
      | [] => none
    | kind :: p1 :: p2 :: n :: rest => do
      let prec ← parseHex p1
      let prec2 ← parseHex p2
      let n ← n.toNat?
      let (a, rest) ← parseVec n rest
      let (b, _) ← parseVec n rest
      match kind with
      | "abs" => pure (showVerdict true (absoluteComparison prec a b))
      | "rel" => pure (showVerdict true (relativeComparison eps prec a b))
      | "relabs" => pure (showVerdict true (relativeAndAbsoluteComparison eps prec prec2 a b))
      | "mixed" => pure (showVerdict true (mixedComparison prec prec2 a b))
      | _ => none
    | _ => none
  r.getD "bad-op"

partial def loop (h : IO.FS.Stream) : IO Unit := do
  let line ← h.getLine
  if line.isEmpty then return ()
  IO.println (answer line)
  loop h

def main : IO Unit := do loop (← IO.getStdin)
