/-
  C51 — extended numbers `Ext K` (finite | +∞ | −∞ | NaN over a linearly ordered field `K`) with
  IEEE-754 comparison and arithmetic semantics, as an instance of the model's signature `Arith`,
  and helper lemmas for Props.lean.

  Idealisation (stated in checks/meta/C51.json): finite values are exact field elements (no
  rounding, a single zero).  The `Float` instance used by the correspondence is the real thing.
-/
import Mathlib.Algebra.Order.Field.Basic
import Mathlib.Algebra.Order.Group.Abs
import Mathlib.Algebra.Order.Ring.Abs
import Mathlib.Tactic.Linarith
import Mathlib.Tactic.SplitIfs
import Mathlib.Tactic.Common
import TfelVerif.C51.Model

namespace TfelVerif.C51

set_option linter.unusedSectionVars false
set_option linter.unusedSimpArgs false

inductive Ext (K : Type) where
  | fin (x : K)
  | pinf
  | ninf
  | nan
  deriving DecidableEq

namespace Ext
variable {K : Type} [Field K] [LinearOrder K] [IsStrictOrderedRing K]

/-- sign-directed infinity: the IEEE result of `x * ∞` / `x / 0` for finite `x` -/
def signed (x : K) : Ext K := if 0 < x then pinf else if x < 0 then ninf else nan

def neg : Ext K → Ext K
  | fin x => fin (-x)
  | pinf => ninf
  | ninf => pinf
  | nan => nan

def add : Ext K → Ext K → Ext K
  | fin x, fin y => fin (x + y)
  | fin _, pinf => pinf
  | fin _, ninf => ninf
  | pinf, fin _ => pinf
  | pinf, pinf => pinf
  | pinf, ninf => nan
  | ninf, fin _ => ninf
  | ninf, pinf => nan
  | ninf, ninf => ninf
  | nan, _ => nan
  | fin _, nan => nan
  | pinf, nan => nan
  | ninf, nan => nan

def sub (a b : Ext K) : Ext K := add a (neg b)

def mul : Ext K → Ext K → Ext K
  | fin x, fin y => fin (x * y)
  | fin x, pinf => signed x
  | fin x, ninf => signed (-x)
  | pinf, fin y => signed y
  | ninf, fin y => signed (-y)
  | pinf, pinf => pinf
  | pinf, ninf => ninf
  | ninf, pinf => ninf
  | ninf, ninf => pinf
  | nan, _ => nan
  | fin _, nan => nan
  | pinf, nan => nan
  | ninf, nan => nan

/-- division; a finite zero divisor is `+0` -/
def div : Ext K → Ext K → Ext K
  | fin x, fin y => if y = 0 then signed x else fin (x / y)
  | fin _, pinf => fin 0
  | fin _, ninf => fin 0
  | pinf, fin y => if 0 ≤ y then pinf else ninf
  | ninf, fin y => if 0 ≤ y then ninf else pinf
  | pinf, pinf => nan
  | pinf, ninf => nan
  | ninf, pinf => nan
  | ninf, ninf => nan
  | nan, _ => nan
  | fin _, nan => nan
  | pinf, nan => nan
  | ninf, nan => nan

def abs : Ext K → Ext K
  | fin x => fin |x|
  | pinf => pinf
  | ninf => pinf
  | nan => nan

def lt : Ext K → Ext K → Bool
  | fin x, fin y => decide (x < y)
  | fin _, pinf => true
  | ninf, fin _ => true
  | ninf, pinf => true
  | _, _ => false

def le : Ext K → Ext K → Bool
  | fin x, fin y => decide (x ≤ y)
  | fin _, pinf => true
  | ninf, fin _ => true
  | ninf, pinf => true
  | pinf, pinf => true
  | ninf, ninf => true
  | _, _ => false

def isFinite : Ext K → Bool
  | fin _ => true
  | _ => false

instance : Arith (Ext K) where
  add := add
  sub := sub
  mul := mul
  div := div
  abs := abs
  lt := lt
  le := le
  isFinite := isFinite
  zero := fin 0
  two := fin 2

end Ext

open Ext Arith

variable {K : Type} [Field K] [LinearOrder K] [IsStrictOrderedRing K]

/-- unfold the signature on `Ext K` -/
macro "ext_unfold" : tactic =>
  `(tactic| simp only [Arith.add, Arith.sub, Arith.mul, Arith.div, Arith.abs, Arith.lt, Arith.le,
      Arith.isFinite, Arith.zero, Arith.two, exceeds, gt, ne, cmin, absErr, relErr, mixedErr,
      absFails, relFails, relabsFails, mixedFails] at *)

/-! ### columns -/

theorem countFails_eq_zero {α : Type} [Arith α] (f : α → α → Bool) :
    ∀ (as bs : List α), countFails f as bs = 0 → ∀ p ∈ as.zip bs, f p.1 p.2 = false
  | [], _, _, p, hp => by simp at hp
  | _ :: _, [], _, p, hp => by simp at hp
  | a :: as, b :: bs, h, p, hp => by
    simp only [countFails] at h
    have h1 : (if f a b then 1 else 0) = 0 := by omega
    have h2 : countFails f as bs = 0 := by omega
    simp only [List.zip_cons_cons, List.mem_cons] at hp
    rcases hp with rfl | hp
    · by_cases hf : f a b = true
      · simp [hf] at h1
      · simpa using hf
    · exact countFails_eq_zero f as bs h2 p hp

theorem countFails_self_zero {α : Type} [Arith α] (f : α → α → Bool) :
    ∀ (c : List α), (∀ a ∈ c, f a a = false) → countFails f c c = 0
  | [], _ => rfl
  | a :: as, h => by
    simp only [countFails]
    rw [h a (by simp), countFails_self_zero f as (fun x hx => h x (by simp [hx]))]
    simp

theorem countFails_pos_of_mem {α : Type} [Arith α] (f : α → α → Bool) :
    ∀ (as bs : List α) (p : α × α), p ∈ as.zip bs → f p.1 p.2 = true → 0 < countFails f as bs
  | [], _, p, hp, _ => by simp at hp
  | _ :: _, [], p, hp, _ => by simp at hp
  | a :: as, b :: bs, p, hp, hf => by
    simp only [countFails]
    simp only [List.zip_cons_cons, List.mem_cons] at hp
    rcases hp with rfl | hp
    · simp only [] at hf
      rw [hf]; simp
    · have := countFails_pos_of_mem f as bs p hp hf
      omega

theorem verdictOfCount_ok {n : Nat} : verdictOfCount n = .ok ↔ n = 0 := by
  unfold verdictOfCount
  split_ifs with h <;> simp [h]

/-! ### per-line facts on `Ext K` -/

/-- `err ≤ tol` (IEEE, `tol` finite) with `err = |a - b|` forces `a`, `b` finite -/
theorem absErr_le_fin {a b : Ext K} {P : K}
    (h : exceeds (absErr a b) (fin P) = false) :
    ∃ x y, a = fin x ∧ b = fin y ∧ |x - y| ≤ P := by
  cases a <;> cases b <;>
    simp [exceeds, absErr, Arith.le, Arith.abs, Arith.sub, Ext.sub, Ext.neg, Ext.add, Ext.abs,
      Ext.le] at h ⊢
  simpa [sub_eq_add_neg] using h

theorem cmin_abs_fin (x y : K) :
    cmin (Arith.abs (fin x : Ext K)) (Arith.abs (fin y)) = fin (min |x| |y|) := by
  simp only [cmin, Arith.abs, Ext.abs, Arith.lt, Ext.lt]
  by_cases h : |y| < |x|
  · simp [h, min_eq_right (le_of_lt h)]
  · simp [h, min_eq_left (not_lt.mp h)]

theorem relErr_fin {e : K} (he : 0 < e) (x y : K) :
    relErr (fin e : Ext K) (fin x) (fin y) = fin (|x - y| / (min |x| |y| + e)) := by
  have hd : min |x| |y| + e ≠ 0 := by
    have : 0 ≤ min |x| |y| := le_min (abs_nonneg x) (abs_nonneg y)
    intro h0; linarith
  unfold relErr
  rw [cmin_abs_fin]
  simp [Arith.div, Arith.abs, Arith.sub, Arith.add, Ext.sub, Ext.neg, Ext.add, Ext.abs, Ext.div, hd,
    sub_eq_add_neg]

theorem relErr_le_fin {e : K} (he : 0 < e) {a b : Ext K} {P : K}
    (h : exceeds (relErr (fin e) a b) (fin P) = false) :
    ∃ x y, a = fin x ∧ b = fin y ∧ |x - y| ≤ P * (min |x| |y| + e) := by
  have hpos : ∀ z : K, 0 ≤ |z| + e := fun z => by have := abs_nonneg z; linarith
  cases a with
  | fin x =>
    cases b with
    | fin y =>
      refine ⟨x, y, rfl, rfl, ?_⟩
      rw [relErr_fin he] at h
      have hd : 0 < min |x| |y| + e := by
        have : 0 ≤ min |x| |y| := le_min (abs_nonneg x) (abs_nonneg y)
        linarith
      simp [exceeds, Arith.le, Ext.le] at h
      exact (div_le_iff₀ hd).mp h
    | pinf | ninf | nan =>
      simp [exceeds, relErr, cmin, Arith.le, Arith.lt, Arith.div, Arith.abs, Arith.sub, Arith.add,
        Ext.sub, Ext.neg, Ext.add, Ext.abs, Ext.div, Ext.le, Ext.lt, hpos] at h
  | pinf | ninf | nan =>
    cases b <;>
      simp [exceeds, relErr, cmin, Arith.le, Arith.lt, Arith.div, Arith.abs, Arith.sub, Arith.add,
        Ext.sub, Ext.neg, Ext.add, Ext.abs, Ext.div, Ext.le, Ext.lt, hpos] at h

theorem mixedErr_le_fin {a b : Ext K} {P P2 : K}
    (h : mixedFails (fin P) (fin P2) a b = false) :
    ∃ x y, a = fin x ∧ b = fin y ∧ |x - y| ≤ P * |y| + P2 := by
  cases a <;> cases b <;>
    simp [mixedFails, mixedErr, exceeds, Arith.le, Arith.abs, Arith.sub, Arith.mul, Arith.zero,
      Ext.sub, Ext.neg, Ext.add, Ext.abs, Ext.mul, Ext.le, Ext.signed] at h ⊢
  · rw [← sub_eq_add_neg] at h; linarith
  all_goals (split_ifs at h)

/-! ### a NaN entry never passes, whatever the tolerances -/

theorem le_nan_left (t : Ext K) : Arith.le (nan : Ext K) t = false := by
  cases t <;> rfl

theorem absErr_nan {a b : Ext K} (h : a = nan ∨ b = nan) : absErr a b = nan := by
  rcases h with rfl | rfl
  · cases b <;> rfl
  · cases a <;> rfl

theorem div_nan_left (d : Ext K) : Arith.div (nan : Ext K) d = nan := rfl

theorem relErr_nan (e : Ext K) {a b : Ext K} (h : a = nan ∨ b = nan) : relErr e a b = nan := by
  have h' := absErr_nan h
  unfold relErr
  unfold absErr at h'
  rw [h']; rfl

theorem sub_nan_left (d : Ext K) : Arith.sub (nan : Ext K) d = nan := by
  cases d <;> rfl

theorem mixedErr_nan (p p2 : Ext K) {a b : Ext K} (h : a = nan ∨ b = nan) :
    mixedErr p p2 a b = nan := by
  have h' := absErr_nan h
  unfold mixedErr
  unfold absErr at h'
  rw [h', sub_nan_left, sub_nan_left]

/-! ### a finite value compared with itself passes for non-negative tolerances -/

theorem absFails_self {P : K} (hP : 0 ≤ P) (x : K) : absFails (fin P : Ext K) (fin x) (fin x) = false := by
  simp [absFails, exceeds, absErr, Arith.le, Arith.abs, Arith.sub, Ext.sub, Ext.neg, Ext.add, Ext.abs,
    Ext.le, hP]

theorem relFails_self {e P : K} (he : 0 < e) (hP : 0 ≤ P) (x : K) :
    relFails (fin e : Ext K) (fin P) (fin x) (fin x) = false := by
  unfold relFails
  rw [relErr_fin he]
  simp [exceeds, Arith.le, Ext.le, hP]

theorem mixedFails_self {P P2 : K} (hP : 0 ≤ P) (hP2 : 0 ≤ P2) (x : K) :
    mixedFails (fin P : Ext K) (fin P2) (fin x) (fin x) = false := by
  have : 0 ≤ P * |x| := mul_nonneg hP (abs_nonneg x)
  simp [mixedFails, mixedErr, exceeds, Arith.le, Arith.abs, Arith.sub, Arith.mul, Arith.zero,
    Ext.sub, Ext.neg, Ext.add, Ext.abs, Ext.mul, Ext.le]
  linarith

/-! ### MTest loops -/

theorem gt_abs_sub_fin {x y E : K} :
    gt (Arith.abs (Arith.sub (fin x : Ext K) (fin y))) (fin E) = false ↔ |x - y| ≤ E := by
  simp [gt, Arith.lt, Arith.abs, Arith.sub, Ext.sub, Ext.neg, Ext.add, Ext.abs, Ext.lt, sub_eq_add_neg]

theorem isFinite_iff {a : Ext K} : Arith.isFinite a = true ↔ ∃ x, a = fin x := by
  cases a <;> simp [Arith.isFinite, Ext.isFinite]

theorem analyticalLoop_ok {E : K} :
    ∀ (v f : List (Ext K)) (i k : Nat), analyticalLoop (fin E) v f i k = .ok →
      k = 0 ∧ ∀ p ∈ v.zip f, ∃ x y, p = (fin x, fin y) ∧ |x - y| ≤ E
  | [], _, _, k, h => by
    simp only [analyticalLoop, verdictOfCount_ok] at h
    exact ⟨h, by simp⟩
  | _ :: _, [], _, k, h => by
    simp only [analyticalLoop, verdictOfCount_ok] at h
    exact ⟨h, by simp⟩
  | a :: vs, b :: fs, i, k, h => by
    simp only [analyticalLoop] at h
    cases ha : Arith.isFinite a with
    | false => simp [ha] at h
    | true =>
    cases hb : Arith.isFinite b with
    | false => simp [ha, hb] at h
    | true =>
    simp only [ha, hb, Bool.not_true, Bool.false_eq_true, if_false] at h
    obtain ⟨x, rfl⟩ := isFinite_iff.mp ha
    obtain ⟨y, rfl⟩ := isFinite_iff.mp hb
    have ih := analyticalLoop_ok vs fs _ _ h
    by_cases hg : gt (Arith.abs (Arith.sub (fin x : Ext K) (fin y))) (fin E) = true
    · rw [if_pos hg] at ih; exact absurd ih.1 (by omega)
    · rw [if_neg hg] at ih
      refine ⟨ih.1, ?_⟩
      intro p hp
      simp only [List.zip_cons_cons, List.mem_cons] at hp
      rcases hp with rfl | hp
      · exact ⟨x, y, rfl, gt_abs_sub_fin.mp (by simpa using hg)⟩
      · exact ih.2 p hp

theorem referenceLoop_nil_ok {E : Ext K} :
    ∀ (v : List (Ext K)) (i k : Nat), referenceLoop E v [] i k = .ok → v = [] ∧ k = 0
  | [], _, k, h => by
    simp only [referenceLoop, verdictOfCount_ok] at h
    exact ⟨rfl, h⟩
  | _ :: vs, i, k, h => by
    simp only [referenceLoop] at h
    have := referenceLoop_nil_ok vs _ _ h
    omega

theorem referenceLoop_ok {E : K} :
    ∀ (v r : List (Ext K)) (i k : Nat), referenceLoop (fin E) v r i k = .ok →
      k = 0 ∧ v.length ≤ r.length ∧ ∀ p ∈ v.zip r, ∃ x y, p = (fin x, fin y) ∧ |x - y| ≤ E
  | [], _, _, k, h => by
    simp only [referenceLoop, verdictOfCount_ok] at h
    exact ⟨h, by simp, by simp⟩
  | a :: vs, [], i, k, h => by
    have := referenceLoop_nil_ok (a :: vs) i k h
    simp at this
  | a :: vs, b :: rs, i, k, h => by
    simp only [referenceLoop] at h
    cases ha : Arith.isFinite a with
    | false => simp [ha] at h
    | true =>
    cases hb : Arith.isFinite b with
    | false => simp [ha, hb] at h
    | true =>
    simp only [ha, hb, Bool.not_true, Bool.false_eq_true, if_false] at h
    obtain ⟨x, rfl⟩ := isFinite_iff.mp ha
    obtain ⟨y, rfl⟩ := isFinite_iff.mp hb
    have ih := referenceLoop_ok vs rs _ _ h
    by_cases hg : gt (Arith.abs (Arith.sub (fin x : Ext K) (fin y))) (fin E) = true
    · rw [if_pos hg] at ih; exact absurd ih.1 (by omega)
    · rw [if_neg hg] at ih
      refine ⟨ih.1, by simpa using ih.2.1, ?_⟩
      intro p hp
      simp only [List.zip_cons_cons, List.mem_cons] at hp
      rcases hp with rfl | hp
      · exact ⟨x, y, rfl, gt_abs_sub_fin.mp (by simpa using hg)⟩
      · exact ih.2.2 p hp

theorem analyticalLoop_self {E : K} (hE : 0 ≤ E) :
    ∀ (c : List K) (i : Nat), analyticalLoop (fin E : Ext K) (c.map fin) (c.map fin) i 0 = .ok
  | [], _ => by simp [analyticalLoop, verdictOfCount]
  | x :: c, i => by
    have hg : gt (Arith.abs (Arith.sub (fin x : Ext K) (fin x))) (fin E) = false :=
      gt_abs_sub_fin.mpr (by simpa using hE)
    simp only [List.map_cons, analyticalLoop, hg]
    simpa [Arith.isFinite, Ext.isFinite] using analyticalLoop_self hE c (i + 1)

theorem referenceLoop_self {E : K} (hE : 0 ≤ E) :
    ∀ (c : List K) (i : Nat), referenceLoop (fin E : Ext K) (c.map fin) (c.map fin) i 0 = .ok
  | [], _ => by simp [referenceLoop, verdictOfCount]
  | x :: c, i => by
    have hg : gt (Arith.abs (Arith.sub (fin x : Ext K) (fin x))) (fin E) = false :=
      gt_abs_sub_fin.mpr (by simpa using hE)
    simp only [List.map_cons, referenceLoop, hg]
    simpa [Arith.isFinite, Ext.isFinite] using referenceLoop_self hE c (i + 1)

/-! ### Area: curves on a common sorted finite grid -/

theorem ne_fin_iff {x t : K} : TfelVerif.C51.ne (fin x : Ext K) (fin t) = false ↔ x = t := by
  unfold TfelVerif.C51.ne
  simp only [Arith.le, Ext.le]
  constructor
  · intro h
    have h' : (decide (x ≤ t) && decide (t ≤ x)) = true := by
      cases hh : (decide (x ≤ t) && decide (t ≤ x)) with
      | true => rfl
      | false => rw [hh] at h; exact absurd h (by decide)
    rw [Bool.and_eq_true, decide_eq_true_eq, decide_eq_true_eq] at h'
    exact le_antisymm h'.1 h'.2
  · rintro rfl
    simp

/-- on a sorted grid, looking up one of its abscissas inserts nothing -/
theorem insertScan_noop (g : Ext K → Option (Ext K)) (x : K) :
    ∀ (l : List (K × Ext K)), (l.map Prod.fst).Pairwise (· ≤ ·) → x ∈ l.map Prod.fst →
      insertScan g (fin x) (l.map fun p => (fin p.1, p.2)) = some (l.map fun p => (fin p.1, p.2))
  | [], _, hx => by simp at hx
  | (t, v) :: rest, hs, hx => by
    simp only [List.map_cons, List.pairwise_cons, List.mem_cons] at hs hx
    simp only [List.map_cons, insertScan]
    by_cases hxt : x = t
    · have : TfelVerif.C51.ne (fin x : Ext K) (fin t) = false := ne_fin_iff.mpr hxt
      simp [this]
    · have hne : TfelVerif.C51.ne (fin x : Ext K) (fin t) = true := by
        cases hh : TfelVerif.C51.ne (fin x : Ext K) (fin t) with
        | true => rfl
        | false => exact absurd (ne_fin_iff.mp hh) hxt
      have hx' : x ∈ rest.map Prod.fst := by
        rcases hx with h | h
        · exact absurd h hxt
        · exact h
      have htx : t ≤ x := hs.1 x hx'
      have hlt : Arith.lt (fin x : Ext K) (fin t) = false := by
        simp [Arith.lt, Ext.lt, not_lt.mpr htx]
      have hrest : rest ≠ [] := by
        intro h; subst h; simp at hx'
      have hemp : (List.map (fun p : K × Ext K => ((fin p.1 : Ext K), p.2)) rest).isEmpty = false := by
        cases rest with
        | nil => exact absurd rfl hrest
        | cons _ _ => rfl
      rw [insertScan_noop g x rest hs.2 hx']
      simp [hne, hlt, hemp]

theorem mergeInto_noop (g : Ext K → Option (Ext K)) (l : List (K × Ext K))
    (hs : (l.map Prod.fst).Pairwise (· ≤ ·)) :
    ∀ (xs : List K), (∀ x ∈ xs, x ∈ l.map Prod.fst) →
      mergeInto g (xs.map fin) (l.map fun p => (fin p.1, p.2)) = some (l.map fun p => (fin p.1, p.2))
  | [], _ => rfl
  | x :: xs, h => by
    simp only [List.map_cons, mergeInto]
    rw [insertScan_noop g x l hs (h x (by simp))]
    simpa using mergeInto_noop g l hs xs (fun y hy => h y (by simp [hy]))

/-- exact trapezoidal area of a list of (abscissa, ordinate) -/
def trapK : List (K × K) → K
  | (t0, d0) :: (t1, d1) :: rest => (t1 - t0) * (d1 + d0) / 2 + trapK ((t1, d1) :: rest)
  | [_] => 0
  | [] => 0

theorem trapezoid_fin :
    ∀ (l : List (K × K)) (acc : K),
      trapezoid (l.map fun p => ((fin p.1 : Ext K), (fin p.2 : Ext K))) (fin acc) = fin (acc + trapK l)
  | [], acc => by simp [trapezoid, trapK]
  | [_], acc => by simp [trapezoid, trapK]
  | (t0, d0) :: (t1, d1) :: rest, acc => by
    have ih := trapezoid_fin ((t1, d1) :: rest) (acc + (t1 - t0) * (d1 + d0) / 2)
    simp only [List.map_cons] at ih ⊢
    simp only [trapezoid, trapK]
    have h2 : (2 : K) ≠ 0 := two_ne_zero
    have : Arith.add (fin acc : Ext K)
        (Arith.div (Arith.mul (Arith.sub (fin t1) (fin t0)) (Arith.add (fin d1) (fin d0))) Arith.two)
        = fin (acc + (t1 - t0) * (d1 + d0) / 2) := by
      simp [Arith.add, Arith.sub, Arith.mul, Arith.div, Arith.two, Ext.sub, Ext.neg, Ext.add, Ext.mul,
        Ext.div, h2, sub_eq_add_neg]
    rw [this, ih, add_assoc]

theorem maxOf_fin : ∀ (vs : List K) (m : K),
    maxOf (fin m : Ext K) (vs.map fin) = fin (vs.foldl max m)
  | [], m => rfl
  | v :: vs, m => by
    simp only [List.map_cons, maxOf, List.foldl_cons]
    have : (if Arith.lt (fin m : Ext K) (fin v) = true then (fin v : Ext K) else fin m) = fin (max m v) := by
      by_cases h : m < v
      · simp [Arith.lt, Ext.lt, h, max_eq_right (le_of_lt h)]
      · simp [Arith.lt, Ext.lt, h, max_eq_left (not_lt.mp h)]
    rw [this]
    exact maxOf_fin vs (max m v)

theorem differences_fin : ∀ (l : List (K × K × K)),
    differences (l.map fun p => ((fin p.1 : Ext K), (fin p.2.1 : Ext K)))
        (l.map fun p => ((fin p.1 : Ext K), (fin p.2.2 : Ext K)))
      = some (l.map fun p => ((fin p.1 : Ext K), (fin |p.2.1 - p.2.2| : Ext K)))
  | [] => rfl
  | (t, a, b) :: l => by
    simp only [List.map_cons, differences, differences_fin l]
    simp [Arith.abs, Arith.sub, Ext.sub, Ext.neg, Ext.add, Ext.abs, sub_eq_add_neg]

end TfelVerif.C51
