/-
  C51 — MTest and tfel-check verdicts are sound.

  Theorems about the executable model `TfelVerif.C51` (Model.lean) instantiated on the extended
  numbers `Ext K` (finite | +∞ | −∞ | NaN with IEEE comparison/arithmetic semantics, Lemmas.lean)
  over an arbitrary linearly ordered field `K`.  Columns are arbitrary lists; tolerances are
  arbitrary finite numbers unless a theorem says otherwise.  `c1` is the reference column
  (`.ref`), `c2` the result column (`.res`).

  The documented errors (headers of tfel-check/include/TFEL/Check/*Comparison.hxx and the sources):
    absolute  |a - b| ≤ prec
    relative  |a - b| / (min(|a|,|b|) + eps) ≤ prec,  eps = 100·DBL_MIN > 0
    relativeAndAbsolute   relative, then absolute with `precision2` if the relative one did not pass
    mixed     |a - b| ≤ prec·|b| + precision2
    area      ∫|a - b| dt (trapezoids on the merged grid) / max(a) ≤ prec
-/
import Mathlib.Algebra.Order.Field.Basic
import Mathlib.Tactic.Linarith
import Mathlib.Tactic.NormNum
import TfelVerif.C51.Model
import TfelVerif.C51.Lemmas

namespace TfelVerif.C51.Props
open TfelVerif.C51 TfelVerif.C51.Ext

set_option linter.unusedSectionVars false

variable {K : Type} [Field K] [LinearOrder K] [IsStrictOrderedRing K]

/-! ## tfel-check: success ⇒ every pair is finite and within the documented tolerance -/

theorem absolute_sound {P : K} {c1 c2 : List (Ext K)}
    (h : absoluteComparison (fin P) c1 c2 = .ok) :
    ∀ p ∈ c1.zip c2, ∃ x y, p = (fin x, fin y) ∧ |x - y| ≤ P := by
  intro p hp
  have h0 := countFails_eq_zero _ c1 c2 (verdictOfCount_ok.mp h) p hp
  obtain ⟨x, y, hx, hy, hxy⟩ := absErr_le_fin h0
  exact ⟨x, y, Prod.ext hx hy, hxy⟩

theorem relative_sound {e P : K} (he : 0 < e) {c1 c2 : List (Ext K)}
    (h : relativeComparison (fin e) (fin P) c1 c2 = .ok) :
    ∀ p ∈ c1.zip c2, ∃ x y, p = (fin x, fin y) ∧ |x - y| ≤ P * (min |x| |y| + e) := by
  intro p hp
  have h0 := countFails_eq_zero _ c1 c2 (verdictOfCount_ok.mp h) p hp
  obtain ⟨x, y, hx, hy, hxy⟩ := relErr_le_fin he h0
  exact ⟨x, y, Prod.ext hx hy, hxy⟩

theorem relativeAndAbsolute_sound {e P P2 : K} (he : 0 < e) {c1 c2 : List (Ext K)}
    (h : relativeAndAbsoluteComparison (fin e) (fin P) (fin P2) c1 c2 = .ok) :
    ∀ p ∈ c1.zip c2, ∃ x y, p = (fin x, fin y) ∧
      (|x - y| ≤ P * (min |x| |y| + e) ∨ |x - y| ≤ P2) := by
  intro p hp
  have h0 := countFails_eq_zero _ c1 c2 (verdictOfCount_ok.mp h) p hp
  simp only [relabsFails, Bool.and_eq_false_iff] at h0
  rcases h0 with h0 | h0
  · obtain ⟨x, y, hx, hy, hxy⟩ := relErr_le_fin he h0
    exact ⟨x, y, Prod.ext hx hy, Or.inl hxy⟩
  · obtain ⟨x, y, hx, hy, hxy⟩ := absErr_le_fin h0
    exact ⟨x, y, Prod.ext hx hy, Or.inr hxy⟩

theorem mixed_sound {P P2 : K} {c1 c2 : List (Ext K)}
    (h : mixedComparison (fin P) (fin P2) c1 c2 = .ok) :
    ∀ p ∈ c1.zip c2, ∃ x y, p = (fin x, fin y) ∧ |x - y| ≤ P * |y| + P2 := by
  intro p hp
  have h0 := countFails_eq_zero _ c1 c2 (verdictOfCount_ok.mp h) p hp
  obtain ⟨x, y, hx, hy, hxy⟩ := mixedErr_le_fin h0
  exact ⟨x, y, Prod.ext hx hy, hxy⟩

/-- a NaN anywhere in either column makes all four comparisons fail, for *every* tolerance
(finite, infinite or NaN) -/
theorem nan_never_passes (e prec prec2 : Ext K) {c1 c2 : List (Ext K)} {p : Ext K × Ext K}
    (hp : p ∈ c1.zip c2) (hnan : p.1 = nan ∨ p.2 = nan) :
    absoluteComparison prec c1 c2 ≠ .ok ∧ relativeComparison e prec c1 c2 ≠ .ok ∧
    relativeAndAbsoluteComparison e prec prec2 c1 c2 ≠ .ok ∧ mixedComparison prec prec2 c1 c2 ≠ .ok := by
  have key : ∀ f : Ext K → Ext K → Bool, f p.1 p.2 = true →
      verdictOfCount (countFails f c1 c2) ≠ .ok := by
    intro f hf h
    have := countFails_pos_of_mem f c1 c2 p hp hf
    have := verdictOfCount_ok.mp h
    omega
  refine ⟨key _ ?_, key _ ?_, key _ ?_, key _ ?_⟩
  · simp [absFails, exceeds, absErr_nan hnan, le_nan_left]
  · simp [relFails, exceeds, relErr_nan e hnan, le_nan_left]
  · simp [relabsFails, exceeds, relErr_nan e hnan, absErr_nan hnan, le_nan_left]
  · simp [mixedFails, exceeds, mixedErr_nan prec prec2 hnan, le_nan_left]

/-! ## tfel-check: a finite column compared with itself succeeds (tolerances ≥ 0) -/

theorem absolute_self {P : K} (hP : 0 ≤ P) (c : List K) :
    absoluteComparison (fin P : Ext K) (c.map fin) (c.map fin) = .ok := by
  apply verdictOfCount_ok.mpr
  apply countFails_self_zero
  intro a ha
  obtain ⟨x, _, rfl⟩ := List.mem_map.mp ha
  exact absFails_self hP x

theorem relative_self {e P : K} (he : 0 < e) (hP : 0 ≤ P) (c : List K) :
    relativeComparison (fin e : Ext K) (fin P) (c.map fin) (c.map fin) = .ok := by
  apply verdictOfCount_ok.mpr
  apply countFails_self_zero
  intro a ha
  obtain ⟨x, _, rfl⟩ := List.mem_map.mp ha
  exact relFails_self he hP x

theorem relativeAndAbsolute_self {e P : K} (P2 : Ext K) (he : 0 < e) (hP : 0 ≤ P) (c : List K) :
    relativeAndAbsoluteComparison (fin e : Ext K) (fin P) P2 (c.map fin) (c.map fin) = .ok := by
  apply verdictOfCount_ok.mpr
  apply countFails_self_zero
  intro a ha
  obtain ⟨x, _, rfl⟩ := List.mem_map.mp ha
  have := relFails_self he hP x
  simp only [relFails] at this
  simp [relabsFails, this]

theorem mixed_self {P P2 : K} (hP : 0 ≤ P) (hP2 : 0 ≤ P2) (c : List K) :
    mixedComparison (fin P : Ext K) (fin P2) (c.map fin) (c.map fin) = .ok := by
  apply verdictOfCount_ok.mpr
  apply countFails_self_zero
  intro a ha
  obtain ⟨x, _, rfl⟩ := List.mem_map.mp ha
  exact mixedFails_self hP hP2 x

/-! ## MTest `@Test`: success ⇒ every computed value and every reference value is finite and
`|v - ref| ≤ eps`; a test that ran out of reference values is not a success -/

theorem analytical_sound {E : K} {v f : List (Ext K)}
    (h : analyticalTest (fin E) v f = .ok) :
    ∀ p ∈ v.zip f, ∃ x y, p = (fin x, fin y) ∧ |x - y| ≤ E :=
  (analyticalLoop_ok v f 0 0 h).2

theorem referenceFile_sound {E : K} {v r : List (Ext K)}
    (h : referenceFileComparisonTest (fin E) v r = .ok) :
    v.length ≤ r.length ∧ ∀ p ∈ v.zip r, ∃ x y, p = (fin x, fin y) ∧ |x - y| ≤ E :=
  (referenceLoop_ok v r 0 0 h).2

theorem analytical_self {E : K} (hE : 0 ≤ E) (c : List K) :
    analyticalTest (fin E : Ext K) (c.map fin) (c.map fin) = .ok :=
  analyticalLoop_self hE c 0

theorem referenceFile_self {E : K} (hE : 0 ≤ E) (c : List K) :
    referenceFileComparisonTest (fin E : Ext K) (c.map fin) (c.map fin) = .ok :=
  referenceLoop_self hE c 0

/-! ## Area -/

/-- the verdict is "fail" exactly when the computed normalised area is greater than the tolerance
(any grids, any interpolation, any extended values) -/
theorem area_fails_iff (k : Interp) (prec : Ext K) (A B : List (Ext K × Ext K)) :
    areaComparison k prec A B = .fail 0 ↔
      ∃ a, normalisedArea k A B = some a ∧ gt a prec = true := by
  unfold areaComparison
  cases h : normalisedArea k A B with
  | none => simp
  | some a => by_cases hg : gt a prec = true <;> simp [hg]

/-- curves given on a common, sorted, finite grid: `pts` lists `(t, a, b)`; no point is inserted
by the merge and the computed value is the exact trapezoidal integral of `|a - b|` divided by the
largest reference value -/
theorem area_common_grid (k : Interp) (t0 a0 b0 : K) (pts : List (K × K × K))
    (hs : (((t0, a0, b0) :: pts).map Prod.fst).Pairwise (· ≤ ·)) :
    normalisedArea k (((t0, a0, b0) :: pts).map fun p => ((fin p.1 : Ext K), (fin p.2.1 : Ext K)))
        (((t0, a0, b0) :: pts).map fun p => ((fin p.1 : Ext K), (fin p.2.2 : Ext K)))
      = some (Arith.div (fin (trapK (((t0, a0, b0) :: pts).map fun p => (p.1, |p.2.1 - p.2.2|))))
                (fin ((pts.map fun p => p.2.1).foldl max a0))) := by
  set L := (t0, a0, b0) :: pts with hL
  set A : List (Ext K × Ext K) := L.map fun p => ((fin p.1 : Ext K), (fin p.2.1 : Ext K)) with hA
  set B : List (Ext K × Ext K) := L.map fun p => ((fin p.1 : Ext K), (fin p.2.2 : Ext K)) with hB
  -- A and B as "finite time, extended value" lists for the no-op merge lemma
  have hA' : A = (L.map fun p => (p.1, (fin p.2.1 : Ext K))).map fun q => ((fin q.1 : Ext K), q.2) := by
    simp [hA, List.map_map, Function.comp_def]
  have hB' : B = (L.map fun p => (p.1, (fin p.2.2 : Ext K))).map fun q => ((fin q.1 : Ext K), q.2) := by
    simp [hB, List.map_map, Function.comp_def]
  have htA : A.map Prod.fst = (L.map Prod.fst).map fin := by
    simp [hA, List.map_map, Function.comp_def]
  have htB : B.map Prod.fst = (L.map Prod.fst).map fin := by
    simp [hB, List.map_map, Function.comp_def]
  have hsA : ((L.map fun p => (p.1, (fin p.2.1 : Ext K))).map Prod.fst).Pairwise (· ≤ ·) := by
    simpa [List.map_map, Function.comp_def] using hs
  have hsB : ((L.map fun p => (p.1, (fin p.2.2 : Ext K))).map Prod.fst).Pairwise (· ≤ ·) := by
    simpa [List.map_map, Function.comp_def] using hs
  have m1 : mergeInto (interpValue k B) (A.map Prod.fst) B = some B := by
    rw [htA, hB']
    apply mergeInto_noop _ _ hsB
    intro x hx
    simpa [List.map_map, Function.comp_def] using hx
  have m2 : mergeInto (interpValue k A) (B.map Prod.fst) A = some A := by
    rw [htB, hA']
    apply mergeInto_noop _ _ hsA
    intro x hx
    simpa [List.map_map, Function.comp_def] using hx
  have hd := differences_fin L
  have hmax : maxOf (fin a0 : Ext K) (A.map Prod.snd) = fin ((pts.map fun p => p.2.1).foldl max a0) := by
    have : A.map Prod.snd = (L.map fun p => p.2.1).map fin := by
      simp [hA, List.map_map, Function.comp_def]
    rw [this, maxOf_fin]
    simp [hL]
  have hAcons : A = (fin t0, fin a0) :: (pts.map fun p => ((fin p.1 : Ext K), (fin p.2.1 : Ext K))) := by
    simp [hA, hL]
  unfold normalisedArea
  rw [hAcons]
  simp only []
  rw [← hAcons, m1]
  simp only [Option.bind_some]
  rw [m2]
  simp only [Option.bind_some]
  rw [hd]
  simp only [Option.map_some]
  have ht := trapezoid_fin (L.map fun p => (p.1, |p.2.1 - p.2.2|)) 0
  simp only [List.map_map, Function.comp_def, zero_add] at ht
  have hz : (Arith.zero : Ext K) = fin 0 := rfl
  rw [hz, ht, hmax]

/-- identical curves on a sorted finite grid succeed for every tolerance that is not negative
(whatever the sign of the reference values; `0/0 = NaN` is not "greater than" the tolerance) -/
theorem area_identical_ok (k : Interp) (prec : Ext K) (hprec : Arith.lt prec (fin (0 : K)) = false)
    (t0 a0 : K) (pts : List (K × K))
    (hs : (((t0, a0) :: pts).map Prod.fst).Pairwise (· ≤ ·)) :
    areaComparison k prec (((t0, a0) :: pts).map fun p => ((fin p.1 : Ext K), (fin p.2 : Ext K)))
        (((t0, a0) :: pts).map fun p => ((fin p.1 : Ext K), (fin p.2 : Ext K))) = .ok := by
  have h := area_common_grid k t0 a0 a0 (pts.map fun p => (p.1, p.2, p.2))
    (by simpa [List.map_map, Function.comp_def] using hs)
  have e : (t0, a0, a0) :: List.map (fun p : K × K => (p.1, p.2, p.2)) pts
      = List.map (fun p : K × K => (p.1, p.2, p.2)) ((t0, a0) :: pts) := rfl
  rw [e] at h
  simp only [List.map_map, Function.comp_def] at h
  have htrap : ∀ (l : List (K × K)), trapK (l.map fun p => (p.1, |p.2 - p.2|)) = 0 := by
    intro l
    induction l with
    | nil => rfl
    | cons p l ih =>
      cases l with
      | nil => rfl
      | cons q l =>
        simp only [List.map_cons, trapK] at ih ⊢
        rw [ih]; simp
  unfold areaComparison
  rw [h, htrap]
  set M := List.foldl max a0 (List.map (fun p : K × K => p.2) pts)
  by_cases hM : M = 0
  · have : Arith.div (fin (0 : K) : Ext K) (fin M) = nan := by
      simp [Arith.div, Ext.div, hM, Ext.signed]
    rw [this]
    have : gt (nan : Ext K) prec = false := by cases prec <;> rfl
    simp [this]
  · have : Arith.div (fin (0 : K) : Ext K) (fin M) = fin 0 := by
      simp [Arith.div, Ext.div, hM]
    rw [this]
    simp [gt, hprec]

/-- curves on a common sorted finite grid whose largest reference value is positive: the verdict
is "fail" iff  (∑ trapezoids of |a - b|) / max(a) > prec, and "ok" otherwise -/
theorem area_common_grid_verdict (k : Interp) (P : K) (t0 a0 b0 : K) (pts : List (K × K × K))
    (hs : (((t0, a0, b0) :: pts).map Prod.fst).Pairwise (· ≤ ·))
    (hM : 0 < (pts.map fun p => p.2.1).foldl max a0) :
    areaComparison k (fin P : Ext K)
        (((t0, a0, b0) :: pts).map fun p => ((fin p.1 : Ext K), (fin p.2.1 : Ext K)))
        (((t0, a0, b0) :: pts).map fun p => ((fin p.1 : Ext K), (fin p.2.2 : Ext K)))
      = if P < trapK (((t0, a0, b0) :: pts).map fun p => (p.1, |p.2.1 - p.2.2|))
              / (pts.map fun p => p.2.1).foldl max a0
        then .fail 0 else .ok := by
  unfold areaComparison
  rw [area_common_grid k t0 a0 b0 pts hs]
  have : Arith.div (fin (trapK (((t0, a0, b0) :: pts).map fun p => (p.1, |p.2.1 - p.2.2|))) : Ext K)
      (fin ((pts.map fun p => p.2.1).foldl max a0))
      = fin (trapK (((t0, a0, b0) :: pts).map fun p => (p.1, |p.2.1 - p.2.2|))
              / (pts.map fun p => p.2.1).foldl max a0) := by
    simp [Arith.div, Ext.div, ne_of_gt hM]
  rw [this]
  simp [gt, Arith.lt, Ext.lt]

/-! ## non-vacuity: the hypotheses of the theorems above are satisfiable -/

example : absoluteComparison (fin (1/10 : ℚ)) ([1, -2, 0].map fin) ([1, -2, 0].map fin) = .ok :=
  absolute_self (by norm_num) _
example : mixedComparison (fin (1/10 : ℚ)) (fin 0) ([-1].map fin) ([-1].map fin) = .ok :=
  mixed_self (by norm_num) (by norm_num) _
example : relativeComparison (fin (1/1000 : ℚ)) (fin (1/10)) ([-1, 0].map fin) ([-1, 0].map fin) = .ok :=
  relative_self (by norm_num) (by norm_num) _
example : absoluteComparison (fin (1/10 : ℚ)) [fin 1, nan] [fin 1, fin 2] ≠ .ok :=
  (nan_never_passes (fin 0) (fin (1/10 : ℚ)) (fin 0) (p := (nan, fin 2)) (by simp) (Or.inl rfl)).1
example : areaComparison .linear (fin (1/10 : ℚ))
    ([((0 : ℚ), (-1 : ℚ)), (1, -1), (1, 0)].map fun p => ((fin p.1 : Ext ℚ), (fin p.2 : Ext ℚ)))
    ([((0 : ℚ), (-1 : ℚ)), (1, -1), (1, 0)].map fun p => ((fin p.1 : Ext ℚ), (fin p.2 : Ext ℚ))) = .ok :=
  area_identical_ok .linear _ (by simp [Arith.lt, Ext.lt]) 0 (-1) [(1, -1), (1, 0)] (by simp)

end TfelVerif.C51.Props
