/-
  C51 — hand-written executable model (core Lean only) of the verdicts of
    * tfel-check  `{Absolute,Relative,RelativeAndAbsolute,Mixed,Area}Comparison::compare`
    * MTest       `AnalyticalTest::check`, `ReferenceFileComparisonTest::check`
  The model is polymorphic over a signature `Arith α` of IEEE-like operations so that the same
  definitions run on `Float` (C `double`; bit-exact correspondence with the real classes, see
  Driver.lean and checks/C51.py) and are the object of the theorems over the extended numbers
  `Ext K = finite K | +∞ | -∞ | NaN` (Lemmas.lean, Props.lean).

  The model states the *intended* behaviour demanded by the property text:
    * a line whose error is NaN does not pass (`exceeds err tol = !(err <= tol)`), where the
      unfixed sources write `err > tol`;
    * the mixed criterion uses `prec * |vb|`, where the unfixed source writes `prec * vb`;
    * `ReferenceFileComparisonTest::check` rejects a non-finite reference value like
      `AnalyticalTest::check` does.
  Everything else is a transliteration of the C++ control flow and operation order.
-/
namespace TfelVerif.C51

/-- IEEE-754-like arithmetic: the operations used by the verdicts. Comparisons are `Bool`-valued
and false on NaN. -/
class Arith (α : Type) where
  add : α → α → α
  sub : α → α → α
  mul : α → α → α
  div : α → α → α
  abs : α → α
  lt : α → α → Bool
  le : α → α → Bool
  isFinite : α → Bool
  zero : α
  two : α

open Arith

variable {α : Type} [Arith α]

/-- C++ `a > b` -/
@[inline] def gt (a b : α) : Bool := lt b a
/-- C++ `a != b` on doubles: true when unordered -/
@[inline] def ne (a b : α) : Bool := !(le a b && le b a)
/-- `std::min(a, b)`: `(b < a) ? b : a` -/
@[inline] def cmin (a b : α) : α := if lt b a then b else a

/-- the (intended) test "this error is not within the tolerance": true on NaN -/
@[inline] def exceeds (err tol : α) : Bool := !(le err tol)

/-! ### per-line errors (operation order of the sources) -/

/-- `std::abs(va - vb)` -/
def absErr (a b : α) : α := abs (sub a b)

/-- `std::abs(va - vb) / (min(abs(va), abs(vb)) + eps)`, `eps = 100 * DBL_MIN` -/
def relErr (eps a b : α) : α := div (abs (sub a b)) (add (cmin (abs a) (abs b)) eps)

/-- `std::abs(va - vb) - prec * |vb| - precision2` (`vb` is the value of the second column) -/
def mixedErr (prec prec2 a b : α) : α := sub (sub (abs (sub a b)) (mul prec (abs b))) prec2

def absFails (prec a b : α) : Bool := exceeds (absErr a b) prec
def relFails (eps prec a b : α) : Bool := exceeds (relErr eps a b) prec
/-- relative first, then absolute if the relative one did not pass -/
def relabsFails (eps prec prec2 a b : α) : Bool :=
  exceeds (relErr eps a b) prec && exceeds (absErr a b) prec2
def mixedFails (prec prec2 a b : α) : Bool := exceeds (mixedErr prec prec2 a b) zero

/-- number of failing lines of two columns of the same length -/
def countFails (f : α → α → Bool) : List α → List α → Nat
  | a :: as, b :: bs => (if f a b then 1 else 0) + countFails f as bs
  | [], _ => 0
  | _ :: _, [] => 0

inductive Verdict where
  | ok
  | fail (n : Nat)
  | throw (n : Nat)
  deriving DecidableEq, Repr

def verdictOfCount (n : Nat) : Verdict := if n = 0 then .ok else .fail n

def absoluteComparison (prec : α) (c1 c2 : List α) : Verdict :=
  verdictOfCount (countFails (absFails prec) c1 c2)
def relativeComparison (eps prec : α) (c1 c2 : List α) : Verdict :=
  verdictOfCount (countFails (relFails eps prec) c1 c2)
def relativeAndAbsoluteComparison (eps prec prec2 : α) (c1 c2 : List α) : Verdict :=
  verdictOfCount (countFails (relabsFails eps prec prec2) c1 c2)
def mixedComparison (prec prec2 : α) (c1 c2 : List α) : Verdict :=
  verdictOfCount (countFails (mixedFails prec prec2) c1 c2)

/-! ### MTest -/

/-- `AnalyticalTest::check` over the periods: `v` computed values, `f` values of the formula.
Returns `(first period that throws, number of failed periods)`. -/
def analyticalLoop (eps : α) : List α → List α → Nat → Nat → Verdict
  | v :: vs, f :: fs, i, k =>
    if !(isFinite v) then .throw i
    else if !(isFinite f) then .throw i
    else analyticalLoop eps vs fs (i + 1) (if gt (abs (sub v f)) eps then k + 1 else k)
  | [], _, _, k => verdictOfCount k
  | _ :: _, [], _, k => verdictOfCount k

def analyticalTest (eps : α) (v f : List α) : Verdict := analyticalLoop eps v f 0 0

/-- `ReferenceFileComparisonTest::check` over the periods; a period without reference value is a
failure; (intended) a non-finite reference value is rejected like a non-finite result. -/
def referenceLoop (eps : α) : List α → List α → Nat → Nat → Verdict
  | v :: vs, r :: rs, i, k =>
    if !(isFinite v) then .throw i
    else if !(isFinite r) then .throw i
    else referenceLoop eps vs rs (i + 1) (if gt (abs (sub v r)) eps then k + 1 else k)
  | _ :: vs, [], i, k => referenceLoop eps vs [] (i + 1) (k + 1)
  | [], _, _, k => verdictOfCount k

def referenceFileComparisonTest (eps : α) (v r : List α) : Verdict := referenceLoop eps v r 0 0

/-! ### Area -/

/-- `tfel::check::Linearization`: a `std::map<double,double>` filled by `insert` (the first value of
a duplicated abscissa is kept), as a list sorted by key -/
def mapInsert (k v : α) : List (α × α) → List (α × α)
  | [] => [(k, v)]
  | (k', v') :: rest =>
    if lt k' k then (k', v') :: mapInsert k v rest
    else if lt k k' then (k, v) :: (k', v') :: rest
    else (k', v') :: rest

def mapOf : List (α × α) → List (α × α)
  | [] => []
  | (k, v) :: rest => mapInsert k v (mapOf rest)

/-- build in insertion order (`values.insert` for increasing index) -/
def linearization (pts : List (α × α)) : List (α × α) := mapOf pts.reverse

/-- `Linearization::operator()`; `prev` is the entry before the scanned suffix -/
def linScan (x : α) : Option (α × α) → List (α × α) → Option α
  | prev, (k, v) :: rest =>
    if lt k x then linScan x (some (k, v)) rest
    else match prev with
      | none => some v                                   -- p == begin()
      | some (x0, y0) => some (add (mul (div (sub v y0) (sub k x0)) (sub x x0)) y0)
  | some (_, y0), [] => some y0                          -- p == end(): last value
  | none, [] => none

def linEval (m : List (α × α)) (x : α) : Option α :=
  match m with
  | [] => none
  | [(_, v)] => some v
  | _ => linScan x none m

inductive Interp where
  | none | linear
  deriving DecidableEq, Repr

/-- `integralInterpolation->interpolate(times, values); … ->getValue(x)` -/
def interpValue (k : Interp) (pts : List (α × α)) (x : α) : Option α :=
  match k with
  | .none => some zero
  | .linear => linEval (linearization pts) x

/-- inner loop of the merge: scan the (time, value) list `l` for the abscissa `x`
(`g` is `getValue`); stops at the first equal time, inserts before the first greater time, or
appends after the last time (with the value taken *at the old last time*, as the source does) -/
def insertScan (g : α → Option α) (x : α) : List (α × α) → Option (List (α × α))
  | [] => some []
  | (t, v) :: rest =>
    if !(ne x t) then some ((t, v) :: rest)
    else if lt x t then (g x).map fun y => (x, y) :: (t, v) :: rest
    else if rest.isEmpty && gt x t then (g t).map fun y => [(t, v), (x, y)]
    else (insertScan g x rest).map fun r => (t, v) :: r

/-- outer loop: every abscissa of `xs` is looked up in `l` -/
def mergeInto (g : α → Option α) : List α → List (α × α) → Option (List (α × α))
  | [], l => some l
  | x :: xs, l => (insertScan g x l).bind (mergeInto g xs)

/-- `trapezoidalIntegration` -/
def trapezoid : List (α × α) → α → α
  | (t0, d0) :: (t1, d1) :: rest, acc =>
    trapezoid ((t1, d1) :: rest) (add acc (div (mul (sub t1 t0) (add d1 d0)) two))
  | [_], acc => acc
  | [], acc => acc

/-- `|valA[i] - valB[i]|` for `i < valA.size()`, `valB.at(i)` throws when `valB` is shorter -/
def differences : List (α × α) → List (α × α) → Option (List (α × α))
  | [], _ => some []
  | _ :: _, [] => none
  | (t, a) :: as, (_, b) :: bs => (differences as bs).map fun r => (t, abs (sub a b)) :: r

/-- max of the reference column as the source computes it -/
def maxOf : α → List α → α
  | m, [] => m
  | m, v :: vs => maxOf (if lt m v then v else m) vs

/-- the normalised area computed by `AreaComparison::compare`; `none` = an exception is thrown -/
def normalisedArea (k : Interp) (A B : List (α × α)) : Option α :=
  match A with
  | [] => none
  | (_, a0) :: _ =>
    (mergeInto (interpValue k B) (A.map Prod.fst) B).bind fun B' =>
    (mergeInto (interpValue k A) (B'.map Prod.fst) A).bind fun A' =>
    (differences A' B').map fun d =>
      div (trapezoid d zero) (maxOf a0 (A.map Prod.snd))

/-- `AreaComparison::compare`: fails when the normalised area is greater than the tolerance -/
def areaComparison (k : Interp) (prec : α) (A B : List (α × α)) : Verdict :=
  match normalisedArea k A B with
  | none => .throw 0
  | some a => if gt a prec then .fail 0 else .ok

end TfelVerif.C51
