/-
  C25 — property theorems, part 5 (thorough tier): zero inclusion fraction through the code paths that invert a
  6×6 tensor by pivoted LU (`GenHeavy.lean`: one trace each, the inclusion fraction is the literal 0).
  The returned stiffness is the matrix stiffness, whatever the (finite) localisation tensors are.
-/
import TfelVerif.C25.Gen
import TfelVerif.C25.GenHeavy
import TfelVerif.C25.PropsGen

namespace TfelVerif.C25.Props
open Finset TfelVerif TfelVerif.C25 TfelVerif.C25.Spec TfelVerif.C25.Lemmas
set_option linter.unusedVariables false
set_option linter.unusedSectionVars false
set_option maxRecDepth 100000
set_option linter.unusedSimpArgs false

variable {K : Type} [Field K] [LinearOrder K] [IsStrictOrderedRing K] (c c3 : K) (fn : Fns K)

/-- `computeMoriTanakaScheme(E0, ν0, 0, Ei, νi, A)` for an arbitrary localisation tensor `A` -/
theorem MTT_f0 (E0 nu0 Ei nui a00 a01 a02 a03 a04 a05 a10 a11 a12 a13 a14 a15 a20 a21 a22 a23 a24 a25 a30 a31 a32 a33 a34 a35 a40 a41 a42 a43 a44 a45 a50 a51 a52 a53 a54 a55 : K) :
    GenHeavy.MTT_f0_all c c3 fn E0 nu0 Ei nui a00 a01 a02 a03 a04 a05 a10 a11 a12 a13 a14 a15 a20 a21 a22 a23 a24 a25 a30 a31 a32 a33 a34 a35 a40 a41 a42 a43 a44 a45 a50 a51 a52 a53 a54 a55
      = Gen.IsoStiff_EN_all c c3 fn E0 nu0 := by
  simp only [GenHeavy.MTT_f0_all, Gen.IsoStiff_EN_all, zero_mul, add_zero]

/-- `computeMoriTanaka` on a two-phase microstructure (spherical inclusions) whose inclusion fraction is 0 -/
theorem MicroMT_f0_n2 (K0 K1 G0 G1 : K) :
    GenHeavy.MicroMT_f0_n2_all c c3 fn K0 K1 G0 G1 = Gen.IsoStiff_KG_all c c3 fn K0 G0 := by
  simp only [GenHeavy.MicroMT_f0_n2_all, Gen.IsoStiff_KG_all, zero_mul, mul_zero, add_zero, zero_add, sub_zero,
    zero_div, div_one, mul_one, one_mul, sub_self, zero_sub, neg_zero]
/-- `computeSelfConsistent` (isotropic iterations) on the same microstructure: the loop exits after its first pass
and returns the matrix -/
theorem MicroSC_f0_n2 (K0 K1 G0 G1 : K) :
    GenHeavy.MicroSC_f0_n2_all c c3 fn K0 K1 G0 G1 = Gen.IsoStiff_KG_all c c3 fn K0 G0 := by
  simp only [GenHeavy.MicroSC_f0_n2_all, Gen.IsoStiff_KG_all, zero_mul, mul_zero, add_zero, zero_add, sub_zero,
    zero_div, div_one, mul_one, one_mul, sub_self, zero_sub, neg_zero]
end TfelVerif.C25.Props
