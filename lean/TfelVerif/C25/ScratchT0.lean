/-
  C25 — property theorems, part 3 (Voigt bound; Eshelby, Hill, localisation tensors; tensorial dilute scheme): the TRACED code (definitions of `Gen.lean`, regenerated on every run
  from /repo by harness/C25/trace_{a,b}.cxx + checks/C25.py) against the reference definitions of Spec.lean.

  `K` is any linearly ordered field. `Gen.<unit>_all` is the list of all outputs of a traced unit,
  `Gen.<unit>_path` the branch outcomes under which that trace was taken (concolic mode).
  General-n theorems (any number of phases) are in PropsGen.lean.
-/
import TfelVerif.C25.Gen
import TfelVerif.C25.PropsGen

namespace TfelVerif.C25.Props
open Finset TfelVerif TfelVerif.C25 TfelVerif.C25.Spec TfelVerif.C25.Lemmas
set_option linter.unusedVariables false
set_option linter.unusedSectionVars false
set_option linter.unusedSimpArgs false
set_option linter.unusedTactic false
set_option linter.unreachableTactic false

variable {K : Type} [Field K] [LinearOrder K] [IsStrictOrderedRing K] (c c3 : K) (fn : Fns K)

/-! ## Voigt bound (`computeVoigtStiffness`), isotropic phases built by `computeIsotropicStiffnessTensor` -/

/-- componentwise comparison of a traced tensor with a closed form, by `ring` -/
macro "tensor_ring" d:term : tactic => `(tactic| (
  simp only [$d:term, iso6, voigt_fin2, voigt_fin3, voigt_fin4, voigt_fin5, List.cons.injEq, and_true]
  repeat' apply And.intro
  all_goals ring))
/-- isotropic pattern: only the four distinct entries are compared (by `ring`) -/
macro "iso_ring" d:term : tactic => `(tactic| (
  simp only [$d:term, voigt_fin2, voigt_fin3, voigt_fin4, voigt_fin5]
  refine iso6_of_pattern _ _ _ _ _ _ ?_ ?_ ?_ ?_ <;> ring))
/-- isotropic pattern with denominators -/
macro "iso_field" : tactic => `(tactic| (
  refine iso6_of_pattern _ _ _ _ _ _ ?_ ?_ ?_ ?_ <;> first | trivial | ring1 | (field_simp; ring1) | field_simp))
/-- same with denominators (the `≠ 0` / positivity facts must be in the context) -/
macro "tensor_field" : tactic => `(tactic| (
  repeat' apply And.intro
  all_goals first | trivial | ring1 | (field_simp; ring1) | field_simp))

theorem Voigt3_n2 (f0 f1 K0 K1 G0 G1 : K) :
    Gen.Voigt3_n2_all c c3 fn f0 f1 K0 K1 G0 G1
      = iso6 (3 * voigt ![f0, f1] ![K0, K1]) (2 * voigt ![f0, f1] ![G0, G1]) := by
  iso_ring Gen.Voigt3_n2_all
theorem Voigt3_n3 (f0 f1 f2 K0 K1 K2 G0 G1 G2 : K) :
    Gen.Voigt3_n3_all c c3 fn f0 f1 f2 K0 K1 K2 G0 G1 G2
      = iso6 (3 * voigt ![f0, f1, f2] ![K0, K1, K2]) (2 * voigt ![f0, f1, f2] ![G0, G1, G2]) := by
  iso_ring Gen.Voigt3_n3_all
theorem Voigt3_n4 (f0 f1 f2 f3 K0 K1 K2 K3 G0 G1 G2 G3 : K) :
    Gen.Voigt3_n4_all c c3 fn f0 f1 f2 f3 K0 K1 K2 K3 G0 G1 G2 G3
      = iso6 (3 * voigt ![f0, f1, f2, f3] ![K0, K1, K2, K3]) (2 * voigt ![f0, f1, f2, f3] ![G0, G1, G2, G3]) := by
  iso_ring Gen.Voigt3_n4_all
theorem Voigt3_n5 (f0 f1 f2 f3 f4 K0 K1 K2 K3 K4 G0 G1 G2 G3 G4 : K) :
    Gen.Voigt3_n5_all c c3 fn f0 f1 f2 f3 f4 K0 K1 K2 K3 K4 G0 G1 G2 G3 G4
      = iso6 (3 * voigt ![f0, f1, f2, f3, f4] ![K0, K1, K2, K3, K4]) (2 * voigt ![f0, f1, f2, f3, f4] ![G0, G1, G2, G3, G4]) := by
  iso_ring Gen.Voigt3_n5_all
end TfelVerif.C25.Props
