/- C25 — helper lemmas: weighted Chebyshev sum identity and its two consequences. -/
import Mathlib.Algebra.BigOperators.Field
import Mathlib.Algebra.Order.BigOperators.Ring.Finset
import Mathlib.Algebra.Order.Field.Basic
import Mathlib.Tactic.Ring
import Mathlib.Tactic.FieldSimp
import Mathlib.Tactic.Positivity
import Mathlib.Tactic.Linarith
import Mathlib.Tactic.FinCases
import Mathlib.Tactic.NormNum
import Mathlib.Tactic.CasesM
import Mathlib.Tactic.LinearCombination
import Mathlib.Data.Fin.VecNotation
import Mathlib.Algebra.BigOperators.Fin
import TfelVerif.C25.Spec

set_option linter.unusedSimpArgs false
set_option linter.unusedSectionVars false
namespace TfelVerif.C25.Lemmas
open Finset TfelVerif.C25.Spec

variable {ι : Type} [Fintype ι] {𝕜 : Type} [Field 𝕜] [LinearOrder 𝕜] [IsStrictOrderedRing 𝕜]

omit [LinearOrder 𝕜] [IsStrictOrderedRing 𝕜] in
/-- weighted Chebyshev identity:
`2 ((Σf)(Σ f a b) − (Σ f a)(Σ f b)) = Σᵢ Σⱼ fᵢ fⱼ (aᵢ − aⱼ)(bᵢ − bⱼ)` -/
lemma chebyshev_identity (f a b : ι → 𝕜) :
    2 * ((∑ i, f i) * (∑ i, f i * a i * b i) - (∑ i, f i * a i) * (∑ i, f i * b i))
      = ∑ i, ∑ j, f i * f j * ((a i - a j) * (b i - b j)) := by
  have e : ∀ i j, f i * f j * ((a i - a j) * (b i - b j))
      = f j * (f i * a i * b i) - f i * a i * (f j * b j) - f j * a j * (f i * b i) + f i * (f j * a j * b j) := by
    intro i j; ring
  simp only [e, sum_add_distrib, sum_sub_distrib, ← mul_sum, ← sum_mul]
  ring

/-- weighted Chebyshev inequality for similarly ordered sequences -/
lemma chebyshev (f a b : ι → 𝕜) (hf : ∀ i, 0 ≤ f i)
    (hab : ∀ i j, 0 ≤ (a i - a j) * (b i - b j)) :
    (∑ i, f i * a i) * (∑ i, f i * b i) ≤ (∑ i, f i) * (∑ i, f i * a i * b i) := by
  have h := chebyshev_identity f a b
  have hn : 0 ≤ ∑ i, ∑ j, f i * f j * ((a i - a j) * (b i - b j)) :=
    sum_nonneg fun i _ => sum_nonneg fun j _ => mul_nonneg (mul_nonneg (hf i) (hf j)) (hab i j)
  linarith

/-- weighted harmonic–arithmetic mean inequality, product form -/
lemma one_le_sum_mul_sum_div (f x : ι → 𝕜) (hf : ∀ i, 0 ≤ f i) (h1 : ∑ i, f i = 1)
    (hx : ∀ i, 0 < x i) : 1 ≤ (∑ i, f i * x i) * (∑ i, f i / x i) := by
  have h := chebyshev f x (fun i => -(x i)⁻¹) hf (by
    intro i j
    have hi := hx i; have hj := hx j
    have : (x i - x j) * (-(x i)⁻¹ - -(x j)⁻¹) = (x i - x j) ^ 2 / (x i * x j) := by
      field_simp; ring
    rw [this]; positivity)
  have e1 : ∑ i, f i * -(x i)⁻¹ = -∑ i, f i / x i := by
    rw [← sum_neg_distrib]; exact sum_congr rfl fun i _ => by rw [div_eq_mul_inv]; ring
  have e2 : ∑ i, f i * x i * -(x i)⁻¹ = -∑ i, f i := by
    rw [← sum_neg_distrib]; refine sum_congr rfl fun i _ => ?_
    have := (hx i).ne'; field_simp
  rw [e1, e2, h1] at h
  linarith

lemma sum_div_pos (f x : ι → 𝕜) (hf : ∀ i, 0 ≤ f i) (h1 : ∑ i, f i = 1) (hx : ∀ i, 0 < x i) :
    0 < ∑ i, f i / x i := by
  have hnn : ∀ i ∈ (univ : Finset ι), 0 ≤ f i / x i := fun i _ => div_nonneg (hf i) (hx i).le
  rcases (sum_nonneg hnn).lt_or_eq with h | h
  · exact h
  · exfalso
    have hz := (sum_eq_zero_iff_of_nonneg hnn).1 h.symm
    have : ∑ i, f i = 0 := sum_eq_zero fun i hi => by
      have := hz i hi
      rcases div_eq_zero_iff.1 this with h0 | h0
      · exact h0
      · exact absurd h0 (hx i).ne'
    rw [h1] at this; exact one_ne_zero this


/-! ### explicit forms for 2..5 phases (vector notation `![…]`) -/
section explicit
variable {F : Type} [Field F]

lemma hs_fin2 (f0 f1 k0 k1 s : F) :
    hs ![f0, f1] ![k0, k1] s = (f0 / (k0 + s) + f1 / (k1 + s))⁻¹ - s := by
  simp [hs, Fin.sum_univ_succ, add_assoc]
lemma voigt_fin2 (f0 f1 k0 k1 : F) :
    voigt ![f0, f1] ![k0, k1] = f0 * k0 + f1 * k1 := by
  simp [voigt, Fin.sum_univ_succ, add_assoc]
lemma reuss_fin2 (f0 f1 k0 k1 : F) :
    reuss ![f0, f1] ![k0, k1] = (f0 / k0 + f1 / k1)⁻¹ := by
  simp [reuss, Fin.sum_univ_succ, add_assoc]
lemma sum_fin2 (f0 f1 : F) : ∑ i, ![f0, f1] i = f0 + f1 := by
  simp [Fin.sum_univ_succ, add_assoc]
lemma all_fin2 {P : F → Prop} {f0 f1 : F} (h0 : P f0) (h1 : P f1) : ∀ i, P (![f0, f1] i) := by
  intro i; fin_cases i <;> simpa

lemma hs_fin3 (f0 f1 f2 k0 k1 k2 s : F) :
    hs ![f0, f1, f2] ![k0, k1, k2] s = (f0 / (k0 + s) + f1 / (k1 + s) + f2 / (k2 + s))⁻¹ - s := by
  simp [hs, Fin.sum_univ_succ, add_assoc]
lemma voigt_fin3 (f0 f1 f2 k0 k1 k2 : F) :
    voigt ![f0, f1, f2] ![k0, k1, k2] = f0 * k0 + f1 * k1 + f2 * k2 := by
  simp [voigt, Fin.sum_univ_succ, add_assoc]
lemma reuss_fin3 (f0 f1 f2 k0 k1 k2 : F) :
    reuss ![f0, f1, f2] ![k0, k1, k2] = (f0 / k0 + f1 / k1 + f2 / k2)⁻¹ := by
  simp [reuss, Fin.sum_univ_succ, add_assoc]
lemma sum_fin3 (f0 f1 f2 : F) : ∑ i, ![f0, f1, f2] i = f0 + f1 + f2 := by
  simp [Fin.sum_univ_succ, add_assoc]
lemma all_fin3 {P : F → Prop} {f0 f1 f2 : F} (h0 : P f0) (h1 : P f1) (h2 : P f2) : ∀ i, P (![f0, f1, f2] i) := by
  intro i; fin_cases i <;> simpa

lemma hs_fin4 (f0 f1 f2 f3 k0 k1 k2 k3 s : F) :
    hs ![f0, f1, f2, f3] ![k0, k1, k2, k3] s = (f0 / (k0 + s) + f1 / (k1 + s) + f2 / (k2 + s) + f3 / (k3 + s))⁻¹ - s := by
  simp [hs, Fin.sum_univ_succ, add_assoc]
lemma voigt_fin4 (f0 f1 f2 f3 k0 k1 k2 k3 : F) :
    voigt ![f0, f1, f2, f3] ![k0, k1, k2, k3] = f0 * k0 + f1 * k1 + f2 * k2 + f3 * k3 := by
  simp [voigt, Fin.sum_univ_succ, add_assoc]
lemma reuss_fin4 (f0 f1 f2 f3 k0 k1 k2 k3 : F) :
    reuss ![f0, f1, f2, f3] ![k0, k1, k2, k3] = (f0 / k0 + f1 / k1 + f2 / k2 + f3 / k3)⁻¹ := by
  simp [reuss, Fin.sum_univ_succ, add_assoc]
lemma sum_fin4 (f0 f1 f2 f3 : F) : ∑ i, ![f0, f1, f2, f3] i = f0 + f1 + f2 + f3 := by
  simp [Fin.sum_univ_succ, add_assoc]
lemma all_fin4 {P : F → Prop} {f0 f1 f2 f3 : F} (h0 : P f0) (h1 : P f1) (h2 : P f2) (h3 : P f3) : ∀ i, P (![f0, f1, f2, f3] i) := by
  intro i; fin_cases i <;> simpa

lemma hs_fin5 (f0 f1 f2 f3 f4 k0 k1 k2 k3 k4 s : F) :
    hs ![f0, f1, f2, f3, f4] ![k0, k1, k2, k3, k4] s = (f0 / (k0 + s) + f1 / (k1 + s) + f2 / (k2 + s) + f3 / (k3 + s) + f4 / (k4 + s))⁻¹ - s := by
  simp [hs, Fin.sum_univ_succ, add_assoc]
lemma voigt_fin5 (f0 f1 f2 f3 f4 k0 k1 k2 k3 k4 : F) :
    voigt ![f0, f1, f2, f3, f4] ![k0, k1, k2, k3, k4] = f0 * k0 + f1 * k1 + f2 * k2 + f3 * k3 + f4 * k4 := by
  simp [voigt, Fin.sum_univ_succ, add_assoc]
lemma reuss_fin5 (f0 f1 f2 f3 f4 k0 k1 k2 k3 k4 : F) :
    reuss ![f0, f1, f2, f3, f4] ![k0, k1, k2, k3, k4] = (f0 / k0 + f1 / k1 + f2 / k2 + f3 / k3 + f4 / k4)⁻¹ := by
  simp [reuss, Fin.sum_univ_succ, add_assoc]
lemma sum_fin5 (f0 f1 f2 f3 f4 : F) : ∑ i, ![f0, f1, f2, f3, f4] i = f0 + f1 + f2 + f3 + f4 := by
  simp [Fin.sum_univ_succ, add_assoc]
lemma all_fin5 {P : F → Prop} {f0 f1 f2 f3 f4 : F} (h0 : P f0) (h1 : P f1) (h2 : P f2) (h3 : P f3) (h4 : P f4) : ∀ i, P (![f0, f1, f2, f3, f4] i) := by
  intro i; fin_cases i <;> simpa

end explicit

section order
variable {F : Type} [Field F] [LinearOrder F] [IsStrictOrderedRing F]
lemma H3_pos {K μ : F} (hK : 0 < K) (hμ : 0 < μ) : 0 < H3 K μ := by unfold H3; positivity
lemma H2_pos {K μ : F} (hK : 0 < K) (hμ : 0 < μ) : 0 < H2 K μ := by unfold H2; positivity
lemma Ks3_nonneg {μ : F} (hμ : 0 < μ) : 0 ≤ Ks3 μ := by unfold Ks3; positivity
lemma Ks3_mono {a b : F} (h : a ≤ b) : Ks3 a ≤ Ks3 b := by unfold Ks3; linarith
lemma Ks2_nonneg {μ : F} (hμ : 0 < μ) : 0 ≤ Ks2 μ := hμ.le
lemma Ks2_mono {a b : F} (h : a ≤ b) : Ks2 a ≤ Ks2 b := h
end order

/-- a 36-list with the isotropic pattern is `x J + y K` as soon as its four distinct entries are right -/
lemma iso6_of_pattern {F : Type} [Field F] (a b z s x y : F) (ha : a = (x + 2 * y) / 3) (hb : b = (x - y) / 3)
    (hz : z = 0) (hs : s = y) :
    [a, b, b, z, z, z, b, a, b, z, z, z, b, b, a, z, z, z, z, z, z, s, z, z, z, z, z, z, s, z, z, z, z, z, z, s]
      = iso6 x y := by
  subst ha hb hz hs; rfl

section code
variable {F : Type} [Field F] [LinearOrder F] [IsStrictOrderedRing F]
/-- the shear reference modulus as the code writes it (3D / plane strain) -/
lemma codeH3 (K μ : F) :
    μ * ((3 : F) * K / (2 : F) + (4 : F) * μ / (3 : F)) / (K + (2 : F) * μ) = H3 K μ := by
  have : ((3 : F) * K / 2 + 4 * μ / 3) = (9 * K + 8 * μ) / 6 := by field_simp; ring
  rw [this, H3, mul_div_assoc', div_div]
lemma codeH2 (K μ : F) :
    μ * ((2 : F) * K / (2 : F) + (0 : F) * μ / (2 : F)) / (K + (2 : F) * μ) = H2 K μ := by
  have : ((2 : F) * K / 2 + 0 * μ / 2) = K := by field_simp; ring
  rw [this, H2]
lemma codeKs3 (μ : F) : (4 : F) / 3 * μ = Ks3 μ := rfl
lemma codeKs2 (μ : F) : (1 : F) * μ = Ks2 μ := by unfold Ks2; ring
end code


/-! ### two-phase sphere schemes: the expressions as the code writes them -/
section schemes
variable {F : Type} [Field F] [LinearOrder F] [IsStrictOrderedRing F]

lemma one_add_nuC {K G : F} (hK : 0 < K) (hG : 0 < G) :
    (1 : F) + ((3 : F) * K - (2 : F) * G) / ((2 : F) * G + (6 : F) * K) = 9 * K / (2 * G + 6 * K) := by
  field_simp; ring
lemma one_sub_two_nuC {K G : F} (hK : 0 < K) (hG : 0 < G) :
    (1 : F) - (2 : F) * (((3 : F) * K - (2 : F) * G) / ((2 : F) * G + (6 : F) * K)) = 6 * G / (2 * G + 6 * K) := by
  field_simp; ring
/-- KGModuli::ToYoungNu followed by the `young/3/(1-2ν)`, `young/2/(1+ν)` of the schemes -/
lemma rtK1 {K G : F} (hK : 0 < K) (hG : 0 < G) :
    (2 : F) * G * ((1 : F) + ((3 : F) * K - (2 : F) * G) / ((2 : F) * G + (6 : F) * K)) / (3 : F)
      / ((1 : F) - (2 : F) * (((3 : F) * K - (2 : F) * G) / ((2 : F) * G + (6 : F) * K))) = K := by
  have h : (2 : F) * G + 6 * K ≠ 0 := by positivity
  have hK' := hK.ne'; have hG' := hG.ne'
  simp only [one_add_nuC hK hG, one_sub_two_nuC hK hG]
  field_simp
  try ring
lemma rtG1 {K G : F} (hK : 0 < K) (hG : 0 < G) :
    (2 : F) * G * ((1 : F) + ((3 : F) * K - (2 : F) * G) / ((2 : F) * G + (6 : F) * K)) / (2 : F)
      / ((1 : F) + ((3 : F) * K - (2 : F) * G) / ((2 : F) * G + (6 : F) * K)) = G := by
  have h : (2 : F) * G + 6 * K ≠ 0 := by positivity
  have hK' := hK.ne'; have hG' := hG.ne'
  simp only [one_add_nuC hK hG, one_sub_two_nuC hK hG]
  field_simp
  try ring
/-- KGModuli::ToYoungNu followed by YoungNuModuli::ToKG -/
lemma rtK2 {K G : F} (hK : 0 < K) (hG : 0 < G) :
    (2 : F) * G * ((1 : F) + ((3 : F) * K - (2 : F) * G) / ((2 : F) * G + (6 : F) * K))
      / ((3 : F) * ((1 : F) - (2 : F) * (((3 : F) * K - (2 : F) * G) / ((2 : F) * G + (6 : F) * K)))) = K := by
  have h : (2 : F) * G + 6 * K ≠ 0 := by positivity
  have hK' := hK.ne'; have hG' := hG.ne'
  simp only [one_add_nuC hK hG, one_sub_two_nuC hK hG]
  field_simp
  try ring
lemma rtG2 {K G : F} (hK : 0 < K) (hG : 0 < G) :
    (2 : F) * G * ((1 : F) + ((3 : F) * K - (2 : F) * G) / ((2 : F) * G + (6 : F) * K))
      / ((2 : F) * ((1 : F) + ((3 : F) * K - (2 : F) * G) / ((2 : F) * G + (6 : F) * K))) = G := by
  have h : (2 : F) * G + 6 * K ≠ 0 := by positivity
  have hK' := hK.ne'; have hG' := hG.ne'
  simp only [one_add_nuC hK hG, one_sub_two_nuC hK hG]
  field_simp
  try ring
lemma rtE {K G : F} (hK : 0 < K) (hG : 0 < G) :
    (2 : F) * G * ((1 : F) + ((3 : F) * K - (2 : F) * G) / ((2 : F) * G + (6 : F) * K)) = youngOf K G := by
  have h : (2 : F) * G + 6 * K ≠ 0 := by positivity
  have hK' := hK.ne'; have hG' := hG.ne'
  have h' : (3 : F) * K + G ≠ 0 := by positivity
  unfold youngOf; field_simp; ring
lemma rtNu {K G : F} (hK : 0 < K) (hG : 0 < G) :
    ((3 : F) * K - (2 : F) * G) / ((2 : F) * G + (6 : F) * K) = nuOf K G := by
  have h : (2 : F) * G + 6 * K ≠ 0 := by positivity
  have hK' := hK.ne'; have hG' := hG.ne'
  have h' : (3 : F) * K + G ≠ 0 := by positivity
  unfold nuOf; field_simp; ring
lemma codeKof (E ν : F) : E / (3 : F) / ((1 : F) - (2 : F) * ν) = kOf E ν := by
  unfold kOf; rw [div_div]
lemma codeGof (E ν : F) : E / (2 : F) / ((1 : F) + ν) = gOf E ν := by
  unfold gOf; rw [div_div]

/-- core identity of the two-phase Mori–Tanaka estimate with reference modulus `t` -/
lemma mt_core {K0 K1 t f : F} (hK0 : 0 < K0) (hK1 : 0 < K1) (ht : 0 < t) (hf0 : 0 ≤ f) (hf1 : f ≤ 1) :
    K0 + f * (K1 - K0) / ((1 : F) + ((1 : F) - f) * (K1 - K0) / (K0 + t))
      = ((1 - f) / (K0 + t) + f / (K1 + t))⁻¹ - t := by
  have h1 : 0 ≤ 1 - f := by linarith
  have hP : 0 < f * K0 + (1 - f) * K1 + t := by positivity
  have a : K0 + t ≠ 0 := by positivity
  have b : K1 + t ≠ 0 := by positivity
  have e1 : (1 : F) + (1 - f) * (K1 - K0) / (K0 + t) = (f * K0 + (1 - f) * K1 + t) / (K0 + t) := by
    field_simp; ring
  have e2 : (1 - f) / (K0 + t) + f / (K1 + t) = (f * K0 + (1 - f) * K1 + t) / ((K0 + t) * (K1 + t)) := by
    field_simp; ring
  rw [e1, e2, inv_div]
  have hP' := hP.ne'
  field_simp
  ring
/-- Mori–Tanaka, spheres, as written in computeSphereMoriTanakaScheme -/
lemma mtK {K0 G0 K1 f : F} (hK0 : 0 < K0) (hG0 : 0 < G0) (hK1 : 0 < K1) (hf0 : 0 ≤ f) (hf1 : f ≤ 1) :
    K0 + f * (K1 - K0) / ((1 : F) + ((1 : F) - f) * (K1 - K0) / (K0 + (4 : F) * G0 / (3 : F)))
      = hs ![1 - f, f] ![K0, K1] (Ks3 G0) := by
  rw [hs_fin2, mt_core hK0 hK1 (by positivity) hf0 hf1]
  have : (4 : F) * G0 / 3 = Ks3 G0 := by unfold Ks3; ring
  rw [this]
lemma mtG {K0 G0 G1 f : F} (hK0 : 0 < K0) (hG0 : 0 < G0) (hG1 : 0 < G1) (hf0 : 0 ≤ f) (hf1 : f ≤ 1) :
    G0 + f * (G1 - G0) / ((1 : F) + ((1 : F) - f) * (G1 - G0) /
        (G0 + G0 * ((9 : F) * K0 + (8 : F) * G0) / (6 : F) / (K0 + (2 : F) * G0)))
      = hs ![1 - f, f] ![G0, G1] (H3 K0 G0) := by
  have : G0 * ((9 : F) * K0 + 8 * G0) / 6 / (K0 + 2 * G0) = H3 K0 G0 := by unfold H3; rw [div_div]
  rw [this, hs_fin2, mt_core hG0 hG1 (H3_pos hK0 hG0) hf0 hf1]
/-- dilute scheme, spheres, as written in computeSphereDiluteScheme -/
lemma dilK {K0 G0 K1 f : F} (hK0 : 0 < K0) (hG0 : 0 < G0) (hK1 : 0 < K1) :
    K0 + f * (K1 - K0) / ((1 : F) + (3 : F) * K0 / ((3 : F) * K0 + (4 : F) * G0) * (K1 - K0) / K0)
      = K0 + f * (K1 - K0) * sphAk K0 G0 K1 := by
  unfold sphAk Ks3
  have a : (3 : F) * K0 + 4 * G0 ≠ 0 := by positivity
  have b : K1 + 4 / 3 * G0 ≠ 0 := by positivity
  have hK0' := hK0.ne'
  have e1 : (1 : F) + 3 * K0 / (3 * K0 + 4 * G0) * (K1 - K0) / K0 = (3 * K1 + 4 * G0) / (3 * K0 + 4 * G0) := by
    field_simp; ring
  have d : (3 : F) * K1 + 4 * G0 ≠ 0 := by positivity
  rw [e1]; field_simp
lemma dilG {K0 G0 G1 f : F} (hK0 : 0 < K0) (hG0 : 0 < G0) (hG1 : 0 < G1) :
    G0 + f * (G1 - G0) / ((1 : F) + (6 : F) * (K0 + (2 : F) * G0) / (5 : F) / ((3 : F) * K0 + (4 : F) * G0) * (G1 - G0) / G0)
      = G0 + f * (G1 - G0) * sphAg K0 G0 G1 := by
  unfold sphAg H3
  have a : (3 : F) * K0 + 4 * G0 ≠ 0 := by positivity
  have a2 : K0 + 2 * G0 ≠ 0 := by positivity
  have hG0' := hG0.ne'
  have e1 : (1 : F) + 6 * (K0 + 2 * G0) / 5 / (3 * K0 + 4 * G0) * (G1 - G0) / G0
      = (6 * (K0 + 2 * G0) * G1 + G0 * (9 * K0 + 8 * G0)) / (5 * G0 * (3 * K0 + 4 * G0)) := by
    field_simp; ring
  have e2 : (G0 + G0 * (9 * K0 + 8 * G0) / (6 * (K0 + 2 * G0))) / (G1 + G0 * (9 * K0 + 8 * G0) / (6 * (K0 + 2 * G0)))
      = (5 * G0 * (3 * K0 + 4 * G0)) / (6 * (K0 + 2 * G0) * G1 + G0 * (9 * K0 + 8 * G0)) := by
    have d : (6 : F) * (K0 + 2 * G0) * G1 + G0 * (9 * K0 + 8 * G0) ≠ 0 := by positivity
    have d' : G1 + G0 * (9 * K0 + 8 * G0) / (6 * (K0 + 2 * G0)) ≠ 0 := by positivity
    rw [div_eq_div_iff d' d]; field_simp; ring
  rw [e1, e2, mul_div_assoc', div_div_eq_mul_div]
/-- the code's `young/3/(1-2ν)`, `young/2/(1+ν)` on (E, ν) = (youngOf K G, nuOf K G) -/
lemma kC_of {K G : F} (hK : 0 < K) (hG : 0 < G) :
    youngOf K G / (3 : F) / ((1 : F) - (2 : F) * nuOf K G) = K := by
  rw [← rtE hK hG, ← rtNu hK hG]; exact rtK1 hK hG
lemma gC_of {K G : F} (hK : 0 < K) (hG : 0 < G) :
    youngOf K G / (2 : F) / ((1 : F) + nuOf K G) = G := by
  rw [← rtE hK hG, ← rtNu hK hG]; exact rtG1 hK hG
lemma one_add_nuOf {K G : F} (hK : 0 < K) (hG : 0 < G) : (1 : F) + nuOf K G = 9 * K / (2 * (3 * K + G)) := by
  unfold nuOf; field_simp; ring
lemma one_sub_nuOf {K G : F} (hK : 0 < K) (hG : 0 < G) : (1 : F) - nuOf K G = (3 * K + 4 * G) / (2 * (3 * K + G)) := by
  unfold nuOf; field_simp; ring
lemma one_sub_two_nuOf {K G : F} (hK : 0 < K) (hG : 0 < G) : (1 : F) - (2 : F) * nuOf K G = 3 * G / (3 * K + G) := by
  unfold nuOf; field_simp; ring
/-- the Eshelby coefficients of a sphere as the code writes them (localisation tensor) -/
lemma kaS9 {K G : F} (hK : 0 < K) (hG : 0 < G) :
    (9 : F) * (((1 : F) + nuOf K G) / (9 : F) / ((1 : F) - nuOf K G)) = 9 * K / (3 * K + 4 * G) := by
  rw [one_add_nuOf hK hG, one_sub_nuOf hK hG]; field_simp
lemma muS4 {K G : F} (hK : 0 < K) (hG : 0 < G) :
    (4 : F) * ((2 : F) * ((4 : F) - (5 : F) * nuOf K G) / (30 : F) / ((1 : F) - nuOf K G))
      = 12 * (K + 2 * G) / (5 * (3 * K + 4 * G)) := by
  have e : (4 : F) - 5 * nuOf K G = 9 * (K + 2 * G) / (2 * (3 * K + G)) := by unfold nuOf; field_simp; ring
  rw [e, one_sub_nuOf hK hG]; field_simp; ring
lemma four_sub_five_nuOf {K G : F} (hK : 0 < K) (hG : 0 < G) :
    (4 : F) - (5 : F) * nuOf K G = 9 * (K + 2 * G) / (2 * (3 * K + G)) := by unfold nuOf; field_simp; ring
/-- Lamé coefficients as computeIsotropicStiffnessTensorII writes them -/
lemma lamC_of {K G : F} (hK : 0 < K) (hG : 0 < G) :
    youngOf K G * nuOf K G / (((1 : F) - (2 : F) * nuOf K G) * ((1 : F) + nuOf K G)) = K - 2 / 3 * G := by
  rw [one_add_nuOf hK hG, one_sub_two_nuOf hK hG]; unfold youngOf nuOf
  have hG' := hG.ne'; have hK' := hK.ne'
  field_simp
lemma muC_of {K G : F} (hK : 0 < K) (hG : 0 < G) : youngOf K G / ((1 : F) + nuOf K G) = 2 * G := by
  rw [one_add_nuOf hK hG]; unfold youngOf
  have hG' := hG.ne'; have hK' := hK.ne'
  field_simp
/-- coefficients of the Hill tensor of a sphere as computeSphereHillPolarisationTensor writes them -/
lemma hillA_of {K G : F} (hK : 0 < K) (hG : 0 < G) :
    ((1 : F) + nuOf K G) * ((1 : F) - (2 : F) * nuOf K G) / (3 : F) / youngOf K G / ((1 : F) - nuOf K G)
      = 1 / (3 * K + 4 * G) := by
  rw [one_add_nuOf hK hG, one_sub_two_nuOf hK hG, one_sub_nuOf hK hG]; unfold youngOf
  have hG' := hG.ne'; have hK' := hK.ne'
  field_simp
lemma hillB_of {K G : F} (hK : 0 < K) (hG : 0 < G) :
    (2 : F) * ((4 : F) - (5 : F) * nuOf K G) * ((1 : F) + nuOf K G) / (15 : F) / youngOf K G / ((1 : F) - nuOf K G)
      = 3 * (K + 2 * G) / (5 * G * (3 * K + 4 * G)) := by
  rw [four_sub_five_nuOf hK hG, one_add_nuOf hK hG, one_sub_nuOf hK hG]; unfold youngOf
  have hG' := hG.ne'; have hK' := hK.ne'
  field_simp; ring
lemma ka3 {K0 G0 K1 : F} (hK0 : 0 < K0) (hG0 : 0 < G0) (hK1 : 0 < K1) :
    (3 : F) * ((1 : F) / ((3 : F) + 9 * K0 / (3 * K0 + 4 * G0) * (K1 - K0) / K0)) = sphAk K0 G0 K1 := by
  unfold sphAk Ks3
  have hK0' := hK0.ne'
  have a : (3 : F) * K0 + 4 * G0 ≠ 0 := by positivity
  have b : K1 + 4 / 3 * G0 ≠ 0 := by positivity
  have d : (3 : F) * K1 + 4 * G0 ≠ 0 := by positivity
  have e1 : (3 : F) + 9 * K0 / (3 * K0 + 4 * G0) * (K1 - K0) / K0 = 3 * (3 * K1 + 4 * G0) / (3 * K0 + 4 * G0) := by
    field_simp; ring
  rw [e1]; field_simp
lemma mu2 {K0 G0 G1 : F} (hK0 : 0 < K0) (hG0 : 0 < G0) (hG1 : 0 < G1) :
    (2 : F) * ((1 : F) / ((2 : F) + 12 * (K0 + 2 * G0) / (5 * (3 * K0 + 4 * G0)) * (G1 - G0) / G0)) = sphAg K0 G0 G1 := by
  unfold sphAg H3
  have hG0' := hG0.ne'
  have a : (3 : F) * K0 + 4 * G0 ≠ 0 := by positivity
  have a2 : K0 + 2 * G0 ≠ 0 := by positivity
  have d : (6 : F) * (K0 + 2 * G0) * G1 + G0 * (9 * K0 + 8 * G0) ≠ 0 := by positivity
  have d' : G1 + G0 * (9 * K0 + 8 * G0) / (6 * (K0 + 2 * G0)) ≠ 0 := by positivity
  have e1 : (2 : F) + 12 * (K0 + 2 * G0) / (5 * (3 * K0 + 4 * G0)) * (G1 - G0) / G0
      = 2 * (6 * (K0 + 2 * G0) * G1 + G0 * (9 * K0 + 8 * G0)) / (5 * G0 * (3 * K0 + 4 * G0)) := by
    field_simp; ring
  have e2 : (G0 + G0 * (9 * K0 + 8 * G0) / (6 * (K0 + 2 * G0))) / (G1 + G0 * (9 * K0 + 8 * G0) / (6 * (K0 + 2 * G0)))
      = (5 * G0 * (3 * K0 + 4 * G0)) / (6 * (K0 + 2 * G0) * G1 + G0 * (9 * K0 + 8 * G0)) := by
    rw [div_eq_div_iff d' d]; field_simp; ring
  rw [e1, e2]; field_simp
end schemes

end TfelVerif.C25.Lemmas
