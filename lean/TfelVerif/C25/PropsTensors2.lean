/-
  C25 — property theorems, part 3b (defining identities of the Hill and localisation tensors of a sphere; tensorial dilute scheme): the TRACED code (definitions of `Gen.lean`, regenerated on every run
  from /repo by harness/C25/trace_{a,b}.cxx + checks/C25.py) against the reference definitions of Spec.lean.

  `K` is any linearly ordered field. `Gen.<unit>_all` is the list of all outputs of a traced unit,
  `Gen.<unit>_path` the branch outcomes under which that trace was taken (concolic mode).
  General-n theorems (any number of phases) are in PropsGen.lean.
-/
import TfelVerif.C25.Gen
import TfelVerif.C25.PropsGen

namespace TfelVerif.C25.Props
open Finset TfelVerif TfelVerif.C25 TfelVerif.C25.Spec TfelVerif.C25.Lemmas
set_option linter.unusedVariables false
set_option linter.unusedSectionVars false
set_option linter.unusedSimpArgs false
set_option linter.unusedTactic false
set_option linter.unreachableTactic false

variable {K : Type} [Field K] [LinearOrder K] [IsStrictOrderedRing K] (c c3 : K) (fn : Fns K)

namespace T2
/-- componentwise comparison of a traced tensor with a closed form, by `ring` -/
macro "tensor_ring" d:term : tactic => `(tactic| (
  simp only [$d:term, iso6, voigt_fin2, voigt_fin3, voigt_fin4, voigt_fin5, List.cons.injEq, and_true]
  repeat' apply And.intro
  all_goals ring))
/-- isotropic pattern: only the four distinct entries are compared (by `ring`) -/
macro "iso_ring" d:term : tactic => `(tactic| (
  simp only [$d:term, voigt_fin2, voigt_fin3, voigt_fin4, voigt_fin5]
  refine iso6_of_pattern _ _ _ _ _ _ ?_ ?_ ?_ ?_ <;> ring))
/-- isotropic pattern with denominators -/
macro "iso_field" : tactic => `(tactic| (
  refine iso6_of_pattern _ _ _ _ _ _ ?_ ?_ ?_ ?_ <;> first | exact trivial | (with_reducible rfl) | ring1 | (field_simp; ring1) | field_simp))
/-- same with denominators (the `≠ 0` / positivity facts must be in the context) -/
macro "tensor_field" : tactic => `(tactic| (
  repeat' apply And.intro
  all_goals first | exact trivial | (with_reducible rfl) | ring1 | (field_simp; ring1) | field_simp))

end T2
open T2
/-! ## defining identities -/

/-- defining identity of the Hill tensor: `P₀ : C₀ = S₀` (all 36 components of `P₀:C₀ − S₀` vanish) -/
theorem SphHill_def (E nu : K) (hE : E ≠ 0) (h1 : 1 - nu ≠ 0) (h2 : 1 + nu ≠ 0) (h3 : 1 - 2 * nu ≠ 0) :
    Gen.SphHill_def_all c c3 fn E nu = List.replicate 36 0 := by
  have h3' : 1 - nu * 2 ≠ 0 := by rwa [mul_comm]
  simp only [Gen.SphHill_def_all, List.replicate, List.cons.injEq, and_true]
  tensor_field
/-- defining identity of the localisation tensor: `A : (I + P₀ : (Cᵢ − C₀)) = I` -/
theorem SphLoc_def (K0 G0 K1 G1 : K) (hK0 : 0 < K0) (hG0 : 0 < G0) (hK1 : 0 < K1) (hG1 : 0 < G1) :
    Gen.SphLoc_def_all c c3 fn (youngOf K0 G0) (nuOf K0 G0) (youngOf K1 G1) (nuOf K1 G1) = iso6 1 1 := by
  simp only [Gen.SphLoc_def_all, kC_of hK0 hG0, gC_of hK0 hG0, kC_of hK1 hG1, gC_of hK1 hG1,
    kaS9 hK0 hG0, muS4 hK0 hG0, ka3 hK0 hG0 hK1, mu2 hK0 hG0 hG1,
    lamC_of hK0 hG0, muC_of hK0 hG0, lamC_of hK1 hG1, muC_of hK1 hG1,
    hillA_of hK0 hG0, hillB_of hK0 hG0, iso6, List.cons.injEq, and_true]
  have hA : sphAk K0 G0 K1 * (1 + 3 * (1 / (3 * K0 + 4 * G0)) * (K1 - K0)) = 1 := by
    unfold sphAk Ks3
    have a : (3 : K) * K0 + 4 * G0 ≠ 0 := by positivity
    have b : K1 + 4 / 3 * G0 ≠ 0 := by positivity
    field_simp; ring
  have hG : sphAg K0 G0 G1 * (1 + 2 * (3 * (K0 + 2 * G0) / (5 * G0 * (3 * K0 + 4 * G0))) * (G1 - G0)) = 1 := by
    unfold sphAg H3
    have hG0' := hG0.ne'
    have a : (3 : K) * K0 + 4 * G0 ≠ 0 := by positivity
    have a2 : K0 + 2 * G0 ≠ 0 := by positivity
    have d : (6 : K) * (K0 + 2 * G0) * G1 + G0 * (9 * K0 + 8 * G0) ≠ 0 := by positivity
    have d' : G1 + G0 * (9 * K0 + 8 * G0) / (6 * (K0 + 2 * G0)) ≠ 0 := by positivity
    have e2 : (G0 + G0 * (9 * K0 + 8 * G0) / (6 * (K0 + 2 * G0))) / (G1 + G0 * (9 * K0 + 8 * G0) / (6 * (K0 + 2 * G0)))
        = (5 * G0 * (3 * K0 + 4 * G0)) / (6 * (K0 + 2 * G0) * G1 + G0 * (9 * K0 + 8 * G0)) := by
      rw [div_eq_div_iff d' d]; field_simp; ring
    rw [e2]; field_simp; ring
  simp only [mul_zero, zero_mul, add_zero, zero_add, mul_one]
  repeat' apply And.intro
  · linear_combination (1 / 3 : K) * hA + (2 / 3 : K) * hG
  · linear_combination (1 / 3 : K) * hA - (1 / 3 : K) * hG
  · linear_combination (1 / 3 : K) * hA - (1 / 3 : K) * hG
  · first | exact trivial | (with_reducible rfl) | ring1
  · first | exact trivial | (with_reducible rfl) | ring1
  · first | exact trivial | (with_reducible rfl) | ring1
  · linear_combination (1 / 3 : K) * hA - (1 / 3 : K) * hG
  · linear_combination (1 / 3 : K) * hA + (2 / 3 : K) * hG
  · linear_combination (1 / 3 : K) * hA - (1 / 3 : K) * hG
  · first | exact trivial | (with_reducible rfl) | ring1
  · first | exact trivial | (with_reducible rfl) | ring1
  · first | exact trivial | (with_reducible rfl) | ring1
  · linear_combination (1 / 3 : K) * hA - (1 / 3 : K) * hG
  · linear_combination (1 / 3 : K) * hA - (1 / 3 : K) * hG
  · linear_combination (1 / 3 : K) * hA + (2 / 3 : K) * hG
  · first | exact trivial | (with_reducible rfl) | ring1
  · first | exact trivial | (with_reducible rfl) | ring1
  · first | exact trivial | (with_reducible rfl) | ring1
  · first | exact trivial | (with_reducible rfl) | ring1
  · first | exact trivial | (with_reducible rfl) | ring1
  · first | exact trivial | (with_reducible rfl) | ring1
  · linear_combination hG
  · first | exact trivial | (with_reducible rfl) | ring1
  · first | exact trivial | (with_reducible rfl) | ring1
  · first | exact trivial | (with_reducible rfl) | ring1
  · first | exact trivial | (with_reducible rfl) | ring1
  · first | exact trivial | (with_reducible rfl) | ring1
  · first | exact trivial | (with_reducible rfl) | ring1
  · linear_combination hG
  · first | exact trivial | (with_reducible rfl) | ring1
  · first | exact trivial | (with_reducible rfl) | ring1
  · first | exact trivial | (with_reducible rfl) | ring1
  · first | exact trivial | (with_reducible rfl) | ring1
  · first | exact trivial | (with_reducible rfl) | ring1
  · first | exact trivial | (with_reducible rfl) | ring1
  · linear_combination hG

/-! ## tensorial dilute scheme (`computeDiluteScheme`) -/

/-- with the localisation tensor of a sphere: `3 K_dil J + 2 G_dil K` -/
theorem DiluteT_sph (K0 G0 f K1 G1 : K) (hK0 : 0 < K0) (hG0 : 0 < G0) (hK1 : 0 < K1) (hG1 : 0 < G1) :
    Gen.DiluteT_sph_all c c3 fn (youngOf K0 G0) (nuOf K0 G0) f (youngOf K1 G1) (nuOf K1 G1)
      = iso6 (3 * (K0 + f * (K1 - K0) * sphAk K0 G0 K1)) (2 * (G0 + f * (G1 - G0) * sphAg K0 G0 G1)) := by
  simp only [Gen.DiluteT_sph_all, kC_of hK0 hG0, gC_of hK0 hG0, kC_of hK1 hG1, gC_of hK1 hG1,
    kaS9 hK0 hG0, muS4 hK0 hG0, ka3 hK0 hG0 hK1, mu2 hK0 hG0 hG1,
    lamC_of hK0 hG0, muC_of hK0 hG0, lamC_of hK1 hG1, muC_of hK1 hG1, iso6, List.cons.injEq, and_true,
    mul_zero, zero_mul, add_zero, zero_add, mul_one]
  tensor_field
/-- zero inclusion fraction, arbitrary localisation tensor (36 free components): the matrix stiffness -/
theorem DiluteT_gen_zero (E0 nu0 Ei nui a00 a01 a02 a03 a04 a05 a10 a11 a12 a13 a14 a15 a20 a21 a22 a23 a24 a25 a30 a31 a32 a33 a34 a35 a40 a41 a42 a43 a44 a45 a50 a51 a52 a53 a54 a55 : K) :
    Gen.DiluteT_gen_all c c3 fn E0 nu0 0 Ei nui a00 a01 a02 a03 a04 a05 a10 a11 a12 a13 a14 a15 a20 a21 a22 a23 a24 a25 a30 a31 a32 a33 a34 a35 a40 a41 a42 a43 a44 a45 a50 a51 a52 a53 a54 a55
      = Gen.IsoStiff_EN_all c c3 fn E0 nu0 := by
  simp only [Gen.DiluteT_gen_all, Gen.IsoStiff_EN_all, zero_mul, add_zero, List.cons.injEq, and_true]
  tensor_field

end TfelVerif.C25.Props
