/-
  C25 — property theorems, part 2 (Hashin–Shtrikman bounds): the TRACED code (definitions of `Gen.lean`, regenerated on every run
  from /repo by harness/C25/trace_{a,b}.cxx + checks/C25.py) against the reference definitions of Spec.lean.

  `K` is any linearly ordered field. `Gen.<unit>_all` is the list of all outputs of a traced unit,
  `Gen.<unit>_path` the branch outcomes under which that trace was taken (concolic mode).
  General-n theorems (any number of phases) are in PropsGen.lean.
-/
import TfelVerif.C25.Gen
import TfelVerif.C25.PropsGen

namespace TfelVerif.C25.Props
open Finset TfelVerif TfelVerif.C25 TfelVerif.C25.Spec TfelVerif.C25.Lemmas
set_option linter.unusedVariables false
set_option linter.unusedSectionVars false
set_option linter.unusedSimpArgs false
set_option linter.unusedTactic false
set_option linter.unreachableTactic false

variable {K : Type} [Field K] [LinearOrder K] [IsStrictOrderedRing K] (c c3 : K) (fn : Fns K)

/-- unfold a traced Hashin–Shtrikman unit, recognise the reference moduli as the code writes them, compare -/
macro "hs_formula" d:term "," l:term : tactic => `(tactic| (
  simp only [$d:term, $l:term, codeH3, codeH2, codeKs3, codeKs2, List.cons.injEq, and_true]
  refine ⟨?_, ?_, ?_, ?_⟩ <;> ring))
/-- from the recorded outcomes of `std::min_element` / `std::max_element` to "is the minimum / maximum" -/
macro "hs_selected" p:term "," h:ident : tactic => `(tactic| (
  simp only [$p:term, codeH3, codeH2, not_lt] at $h:ident
  casesm* _ ∧ _
  repeat' apply And.intro
  all_goals first | exact le_rfl | assumption | linarith))
macro "hs_pick" h:ident : tactic => `(tactic| (
  have hh := $h
  casesm* _ ∧ _
  first | assumption | exact le_rfl))

/-! ## Hashin–Shtrikman bounds (`computeIsotropicHashinShtrikmanBounds<d>`), 2..5 phases -/

/-- `HS3_n2_p0` (dimension 3, 2 phases; trace in which phase 0 has the smallest and phase 1 the largest shear
modulus, phase 0 the smallest and phase 1 the largest `H`): the four returned moduli are the
Hashin–Shtrikman forms with these reference moduli. -/
theorem HS3_n2_p0_formula (f0 f1 K0 K1 mu0 mu1 : K) :
    Gen.HS3_n2_p0_all c c3 fn f0 f1 K0 K1 mu0 mu1 =
      [hs ![f0, f1] ![K0, K1] (Ks3 mu0), hs ![f0, f1] ![mu0, mu1] (H3 K0 mu0),
       hs ![f0, f1] ![K0, K1] (Ks3 mu1), hs ![f0, f1] ![mu0, mu1] (H3 K1 mu1)] := by
  hs_formula Gen.HS3_n2_p0_all, hs_fin2
/-- on that path the selected phases are indeed the extreme ones -/
theorem HS3_n2_p0_selected (f0 f1 K0 K1 mu0 mu1 : K) (h : Gen.HS3_n2_p0_path c c3 fn f0 f1 K0 K1 mu0 mu1) :
    (mu0 ≤ mu0 ∧ mu0 ≤ mu1) ∧ (mu0 ≤ mu1 ∧ mu1 ≤ mu1) ∧
    (H3 K0 mu0 ≤ H3 K0 mu0 ∧ H3 K0 mu0 ≤ H3 K1 mu1) ∧ (H3 K0 mu0 ≤ H3 K1 mu1 ∧ H3 K1 mu1 ≤ H3 K1 mu1) := by
  hs_selected Gen.HS3_n2_p0_path, h
/-- Reuss ≤ HS⁻ ≤ HS⁺ ≤ Voigt for the bulk and the shear modulus returned on that path -/
theorem HS3_n2_p0_ordered (f0 f1 K0 K1 mu0 mu1 : K) (h : Gen.HS3_n2_p0_path c c3 fn f0 f1 K0 K1 mu0 mu1)
    (hf0 : 0 ≤ f0) (hf1 : 0 ≤ f1) (h1 : f0 + f1 = 1)
    (hK0 : 0 < K0) (hK1 : 0 < K1) (hmu0 : 0 < mu0) (hmu1 : 0 < mu1) :
    ∃ KL GL KU GU, Gen.HS3_n2_p0_all c c3 fn f0 f1 K0 K1 mu0 mu1 = [KL, GL, KU, GU] ∧
      reuss ![f0, f1] ![K0, K1] ≤ KL ∧ KL ≤ KU ∧ KU ≤ voigt ![f0, f1] ![K0, K1] ∧
      reuss ![f0, f1] ![mu0, mu1] ≤ GL ∧ GL ≤ GU ∧ GU ≤ voigt ![f0, f1] ![mu0, mu1] := by
  obtain ⟨ha, hc, hb, hd⟩ := HS3_n2_p0_selected c c3 fn f0 f1 K0 K1 mu0 mu1 h
  have hF := all_fin2 (P := fun x : K => 0 ≤ x) hf0 hf1
  have hS : ∑ i, ![f0, f1] i = 1 := by rw [sum_fin2]; exact h1
  have hKp := all_fin2 (P := fun x : K => 0 < x) hK0 hK1
  have hMp := all_fin2 (P := fun x : K => 0 < x) hmu0 hmu1
  obtain ⟨k1, k2, k3⟩ := bounds_chain ![f0, f1] ![K0, K1] hF hS hKp (s := Ks3 mu0) (t := Ks3 mu1) (Ks3_nonneg hmu0) (Ks3_mono (by hs_pick ha))
  obtain ⟨g1, g2, g3⟩ := bounds_chain ![f0, f1] ![mu0, mu1] hF hS hMp (s := H3 K0 mu0) (t := H3 K1 mu1) (H3_pos hK0 hmu0).le (by hs_pick hb)
  exact ⟨_, _, _, _, HS3_n2_p0_formula c c3 fn f0 f1 K0 K1 mu0 mu1, k1, k2, k3, g1, g2, g3⟩

/-- `HS3_n2_p1` (dimension 3, 2 phases; trace in which phase 1 has the smallest and phase 0 the largest shear
modulus, phase 1 the smallest and phase 0 the largest `H`): the four returned moduli are the
Hashin–Shtrikman forms with these reference moduli. -/
theorem HS3_n2_p1_formula (f0 f1 K0 K1 mu0 mu1 : K) :
    Gen.HS3_n2_p1_all c c3 fn f0 f1 K0 K1 mu0 mu1 =
      [hs ![f0, f1] ![K0, K1] (Ks3 mu1), hs ![f0, f1] ![mu0, mu1] (H3 K1 mu1),
       hs ![f0, f1] ![K0, K1] (Ks3 mu0), hs ![f0, f1] ![mu0, mu1] (H3 K0 mu0)] := by
  hs_formula Gen.HS3_n2_p1_all, hs_fin2
/-- on that path the selected phases are indeed the extreme ones -/
theorem HS3_n2_p1_selected (f0 f1 K0 K1 mu0 mu1 : K) (h : Gen.HS3_n2_p1_path c c3 fn f0 f1 K0 K1 mu0 mu1) :
    (mu1 ≤ mu0 ∧ mu1 ≤ mu1) ∧ (mu0 ≤ mu0 ∧ mu1 ≤ mu0) ∧
    (H3 K1 mu1 ≤ H3 K0 mu0 ∧ H3 K1 mu1 ≤ H3 K1 mu1) ∧ (H3 K0 mu0 ≤ H3 K0 mu0 ∧ H3 K1 mu1 ≤ H3 K0 mu0) := by
  hs_selected Gen.HS3_n2_p1_path, h
/-- Reuss ≤ HS⁻ ≤ HS⁺ ≤ Voigt for the bulk and the shear modulus returned on that path -/
theorem HS3_n2_p1_ordered (f0 f1 K0 K1 mu0 mu1 : K) (h : Gen.HS3_n2_p1_path c c3 fn f0 f1 K0 K1 mu0 mu1)
    (hf0 : 0 ≤ f0) (hf1 : 0 ≤ f1) (h1 : f0 + f1 = 1)
    (hK0 : 0 < K0) (hK1 : 0 < K1) (hmu0 : 0 < mu0) (hmu1 : 0 < mu1) :
    ∃ KL GL KU GU, Gen.HS3_n2_p1_all c c3 fn f0 f1 K0 K1 mu0 mu1 = [KL, GL, KU, GU] ∧
      reuss ![f0, f1] ![K0, K1] ≤ KL ∧ KL ≤ KU ∧ KU ≤ voigt ![f0, f1] ![K0, K1] ∧
      reuss ![f0, f1] ![mu0, mu1] ≤ GL ∧ GL ≤ GU ∧ GU ≤ voigt ![f0, f1] ![mu0, mu1] := by
  obtain ⟨ha, hc, hb, hd⟩ := HS3_n2_p1_selected c c3 fn f0 f1 K0 K1 mu0 mu1 h
  have hF := all_fin2 (P := fun x : K => 0 ≤ x) hf0 hf1
  have hS : ∑ i, ![f0, f1] i = 1 := by rw [sum_fin2]; exact h1
  have hKp := all_fin2 (P := fun x : K => 0 < x) hK0 hK1
  have hMp := all_fin2 (P := fun x : K => 0 < x) hmu0 hmu1
  obtain ⟨k1, k2, k3⟩ := bounds_chain ![f0, f1] ![K0, K1] hF hS hKp (s := Ks3 mu1) (t := Ks3 mu0) (Ks3_nonneg hmu1) (Ks3_mono (by hs_pick ha))
  obtain ⟨g1, g2, g3⟩ := bounds_chain ![f0, f1] ![mu0, mu1] hF hS hMp (s := H3 K1 mu1) (t := H3 K0 mu0) (H3_pos hK1 hmu1).le (by hs_pick hb)
  exact ⟨_, _, _, _, HS3_n2_p1_formula c c3 fn f0 f1 K0 K1 mu0 mu1, k1, k2, k3, g1, g2, g3⟩

/-- `HS3_n2_p2` (dimension 3, 2 phases; trace in which phase 0 has the smallest and phase 1 the largest shear
modulus, phase 1 the smallest and phase 0 the largest `H`): the four returned moduli are the
Hashin–Shtrikman forms with these reference moduli. -/
theorem HS3_n2_p2_formula (f0 f1 K0 K1 mu0 mu1 : K) :
    Gen.HS3_n2_p2_all c c3 fn f0 f1 K0 K1 mu0 mu1 =
      [hs ![f0, f1] ![K0, K1] (Ks3 mu0), hs ![f0, f1] ![mu0, mu1] (H3 K1 mu1),
       hs ![f0, f1] ![K0, K1] (Ks3 mu1), hs ![f0, f1] ![mu0, mu1] (H3 K0 mu0)] := by
  hs_formula Gen.HS3_n2_p2_all, hs_fin2
/-- on that path the selected phases are indeed the extreme ones -/
theorem HS3_n2_p2_selected (f0 f1 K0 K1 mu0 mu1 : K) (h : Gen.HS3_n2_p2_path c c3 fn f0 f1 K0 K1 mu0 mu1) :
    (mu0 ≤ mu0 ∧ mu0 ≤ mu1) ∧ (mu0 ≤ mu1 ∧ mu1 ≤ mu1) ∧
    (H3 K1 mu1 ≤ H3 K0 mu0 ∧ H3 K1 mu1 ≤ H3 K1 mu1) ∧ (H3 K0 mu0 ≤ H3 K0 mu0 ∧ H3 K1 mu1 ≤ H3 K0 mu0) := by
  hs_selected Gen.HS3_n2_p2_path, h
/-- Reuss ≤ HS⁻ ≤ HS⁺ ≤ Voigt for the bulk and the shear modulus returned on that path -/
theorem HS3_n2_p2_ordered (f0 f1 K0 K1 mu0 mu1 : K) (h : Gen.HS3_n2_p2_path c c3 fn f0 f1 K0 K1 mu0 mu1)
    (hf0 : 0 ≤ f0) (hf1 : 0 ≤ f1) (h1 : f0 + f1 = 1)
    (hK0 : 0 < K0) (hK1 : 0 < K1) (hmu0 : 0 < mu0) (hmu1 : 0 < mu1) :
    ∃ KL GL KU GU, Gen.HS3_n2_p2_all c c3 fn f0 f1 K0 K1 mu0 mu1 = [KL, GL, KU, GU] ∧
      reuss ![f0, f1] ![K0, K1] ≤ KL ∧ KL ≤ KU ∧ KU ≤ voigt ![f0, f1] ![K0, K1] ∧
      reuss ![f0, f1] ![mu0, mu1] ≤ GL ∧ GL ≤ GU ∧ GU ≤ voigt ![f0, f1] ![mu0, mu1] := by
  obtain ⟨ha, hc, hb, hd⟩ := HS3_n2_p2_selected c c3 fn f0 f1 K0 K1 mu0 mu1 h
  have hF := all_fin2 (P := fun x : K => 0 ≤ x) hf0 hf1
  have hS : ∑ i, ![f0, f1] i = 1 := by rw [sum_fin2]; exact h1
  have hKp := all_fin2 (P := fun x : K => 0 < x) hK0 hK1
  have hMp := all_fin2 (P := fun x : K => 0 < x) hmu0 hmu1
  obtain ⟨k1, k2, k3⟩ := bounds_chain ![f0, f1] ![K0, K1] hF hS hKp (s := Ks3 mu0) (t := Ks3 mu1) (Ks3_nonneg hmu0) (Ks3_mono (by hs_pick ha))
  obtain ⟨g1, g2, g3⟩ := bounds_chain ![f0, f1] ![mu0, mu1] hF hS hMp (s := H3 K1 mu1) (t := H3 K0 mu0) (H3_pos hK1 hmu1).le (by hs_pick hb)
  exact ⟨_, _, _, _, HS3_n2_p2_formula c c3 fn f0 f1 K0 K1 mu0 mu1, k1, k2, k3, g1, g2, g3⟩

/-- `HS3_n2_p3` (dimension 3, 2 phases; trace in which phase 0 has the smallest and phase 0 the largest shear
modulus, phase 0 the smallest and phase 0 the largest `H`): the four returned moduli are the
Hashin–Shtrikman forms with these reference moduli. -/
theorem HS3_n2_p3_formula (f0 f1 K0 K1 mu0 mu1 : K) :
    Gen.HS3_n2_p3_all c c3 fn f0 f1 K0 K1 mu0 mu1 =
      [hs ![f0, f1] ![K0, K1] (Ks3 mu0), hs ![f0, f1] ![mu0, mu1] (H3 K0 mu0),
       hs ![f0, f1] ![K0, K1] (Ks3 mu0), hs ![f0, f1] ![mu0, mu1] (H3 K0 mu0)] := by
  hs_formula Gen.HS3_n2_p3_all, hs_fin2
/-- on that path the selected phases are indeed the extreme ones -/
theorem HS3_n2_p3_selected (f0 f1 K0 K1 mu0 mu1 : K) (h : Gen.HS3_n2_p3_path c c3 fn f0 f1 K0 K1 mu0 mu1) :
    (mu0 ≤ mu0 ∧ mu0 ≤ mu1) ∧ (mu0 ≤ mu0 ∧ mu1 ≤ mu0) ∧
    (H3 K0 mu0 ≤ H3 K0 mu0 ∧ H3 K0 mu0 ≤ H3 K1 mu1) ∧ (H3 K0 mu0 ≤ H3 K0 mu0 ∧ H3 K1 mu1 ≤ H3 K0 mu0) := by
  hs_selected Gen.HS3_n2_p3_path, h
/-- Reuss ≤ HS⁻ ≤ HS⁺ ≤ Voigt for the bulk and the shear modulus returned on that path -/
theorem HS3_n2_p3_ordered (f0 f1 K0 K1 mu0 mu1 : K) (h : Gen.HS3_n2_p3_path c c3 fn f0 f1 K0 K1 mu0 mu1)
    (hf0 : 0 ≤ f0) (hf1 : 0 ≤ f1) (h1 : f0 + f1 = 1)
    (hK0 : 0 < K0) (hK1 : 0 < K1) (hmu0 : 0 < mu0) (hmu1 : 0 < mu1) :
    ∃ KL GL KU GU, Gen.HS3_n2_p3_all c c3 fn f0 f1 K0 K1 mu0 mu1 = [KL, GL, KU, GU] ∧
      reuss ![f0, f1] ![K0, K1] ≤ KL ∧ KL ≤ KU ∧ KU ≤ voigt ![f0, f1] ![K0, K1] ∧
      reuss ![f0, f1] ![mu0, mu1] ≤ GL ∧ GL ≤ GU ∧ GU ≤ voigt ![f0, f1] ![mu0, mu1] := by
  obtain ⟨ha, hc, hb, hd⟩ := HS3_n2_p3_selected c c3 fn f0 f1 K0 K1 mu0 mu1 h
  have hF := all_fin2 (P := fun x : K => 0 ≤ x) hf0 hf1
  have hS : ∑ i, ![f0, f1] i = 1 := by rw [sum_fin2]; exact h1
  have hKp := all_fin2 (P := fun x : K => 0 < x) hK0 hK1
  have hMp := all_fin2 (P := fun x : K => 0 < x) hmu0 hmu1
  obtain ⟨k1, k2, k3⟩ := bounds_chain ![f0, f1] ![K0, K1] hF hS hKp (s := Ks3 mu0) (t := Ks3 mu0) (Ks3_nonneg hmu0) (Ks3_mono (by hs_pick ha))
  obtain ⟨g1, g2, g3⟩ := bounds_chain ![f0, f1] ![mu0, mu1] hF hS hMp (s := H3 K0 mu0) (t := H3 K0 mu0) (H3_pos hK0 hmu0).le (by hs_pick hb)
  exact ⟨_, _, _, _, HS3_n2_p3_formula c c3 fn f0 f1 K0 K1 mu0 mu1, k1, k2, k3, g1, g2, g3⟩

/-- `HS3_n3_p0` (dimension 3, 3 phases; trace in which phase 0 has the smallest and phase 2 the largest shear
modulus, phase 0 the smallest and phase 2 the largest `H`): the four returned moduli are the
Hashin–Shtrikman forms with these reference moduli. -/
theorem HS3_n3_p0_formula (f0 f1 f2 K0 K1 K2 mu0 mu1 mu2 : K) :
    Gen.HS3_n3_p0_all c c3 fn f0 f1 f2 K0 K1 K2 mu0 mu1 mu2 =
      [hs ![f0, f1, f2] ![K0, K1, K2] (Ks3 mu0), hs ![f0, f1, f2] ![mu0, mu1, mu2] (H3 K0 mu0),
       hs ![f0, f1, f2] ![K0, K1, K2] (Ks3 mu2), hs ![f0, f1, f2] ![mu0, mu1, mu2] (H3 K2 mu2)] := by
  hs_formula Gen.HS3_n3_p0_all, hs_fin3
/-- on that path the selected phases are indeed the extreme ones -/
theorem HS3_n3_p0_selected (f0 f1 f2 K0 K1 K2 mu0 mu1 mu2 : K) (h : Gen.HS3_n3_p0_path c c3 fn f0 f1 f2 K0 K1 K2 mu0 mu1 mu2) :
    (mu0 ≤ mu0 ∧ mu0 ≤ mu1 ∧ mu0 ≤ mu2) ∧ (mu0 ≤ mu2 ∧ mu1 ≤ mu2 ∧ mu2 ≤ mu2) ∧
    (H3 K0 mu0 ≤ H3 K0 mu0 ∧ H3 K0 mu0 ≤ H3 K1 mu1 ∧ H3 K0 mu0 ≤ H3 K2 mu2) ∧ (H3 K0 mu0 ≤ H3 K2 mu2 ∧ H3 K1 mu1 ≤ H3 K2 mu2 ∧ H3 K2 mu2 ≤ H3 K2 mu2) := by
  hs_selected Gen.HS3_n3_p0_path, h
/-- Reuss ≤ HS⁻ ≤ HS⁺ ≤ Voigt for the bulk and the shear modulus returned on that path -/
theorem HS3_n3_p0_ordered (f0 f1 f2 K0 K1 K2 mu0 mu1 mu2 : K) (h : Gen.HS3_n3_p0_path c c3 fn f0 f1 f2 K0 K1 K2 mu0 mu1 mu2)
    (hf0 : 0 ≤ f0) (hf1 : 0 ≤ f1) (hf2 : 0 ≤ f2) (h1 : f0 + f1 + f2 = 1)
    (hK0 : 0 < K0) (hK1 : 0 < K1) (hK2 : 0 < K2) (hmu0 : 0 < mu0) (hmu1 : 0 < mu1) (hmu2 : 0 < mu2) :
    ∃ KL GL KU GU, Gen.HS3_n3_p0_all c c3 fn f0 f1 f2 K0 K1 K2 mu0 mu1 mu2 = [KL, GL, KU, GU] ∧
      reuss ![f0, f1, f2] ![K0, K1, K2] ≤ KL ∧ KL ≤ KU ∧ KU ≤ voigt ![f0, f1, f2] ![K0, K1, K2] ∧
      reuss ![f0, f1, f2] ![mu0, mu1, mu2] ≤ GL ∧ GL ≤ GU ∧ GU ≤ voigt ![f0, f1, f2] ![mu0, mu1, mu2] := by
  obtain ⟨ha, hc, hb, hd⟩ := HS3_n3_p0_selected c c3 fn f0 f1 f2 K0 K1 K2 mu0 mu1 mu2 h
  have hF := all_fin3 (P := fun x : K => 0 ≤ x) hf0 hf1 hf2
  have hS : ∑ i, ![f0, f1, f2] i = 1 := by rw [sum_fin3]; exact h1
  have hKp := all_fin3 (P := fun x : K => 0 < x) hK0 hK1 hK2
  have hMp := all_fin3 (P := fun x : K => 0 < x) hmu0 hmu1 hmu2
  obtain ⟨k1, k2, k3⟩ := bounds_chain ![f0, f1, f2] ![K0, K1, K2] hF hS hKp (s := Ks3 mu0) (t := Ks3 mu2) (Ks3_nonneg hmu0) (Ks3_mono (by hs_pick ha))
  obtain ⟨g1, g2, g3⟩ := bounds_chain ![f0, f1, f2] ![mu0, mu1, mu2] hF hS hMp (s := H3 K0 mu0) (t := H3 K2 mu2) (H3_pos hK0 hmu0).le (by hs_pick hb)
  exact ⟨_, _, _, _, HS3_n3_p0_formula c c3 fn f0 f1 f2 K0 K1 K2 mu0 mu1 mu2, k1, k2, k3, g1, g2, g3⟩

/-- `HS3_n3_p1` (dimension 3, 3 phases; trace in which phase 2 has the smallest and phase 0 the largest shear
modulus, phase 2 the smallest and phase 0 the largest `H`): the four returned moduli are the
Hashin–Shtrikman forms with these reference moduli. -/
theorem HS3_n3_p1_formula (f0 f1 f2 K0 K1 K2 mu0 mu1 mu2 : K) :
    Gen.HS3_n3_p1_all c c3 fn f0 f1 f2 K0 K1 K2 mu0 mu1 mu2 =
      [hs ![f0, f1, f2] ![K0, K1, K2] (Ks3 mu2), hs ![f0, f1, f2] ![mu0, mu1, mu2] (H3 K2 mu2),
       hs ![f0, f1, f2] ![K0, K1, K2] (Ks3 mu0), hs ![f0, f1, f2] ![mu0, mu1, mu2] (H3 K0 mu0)] := by
  hs_formula Gen.HS3_n3_p1_all, hs_fin3
/-- on that path the selected phases are indeed the extreme ones -/
theorem HS3_n3_p1_selected (f0 f1 f2 K0 K1 K2 mu0 mu1 mu2 : K) (h : Gen.HS3_n3_p1_path c c3 fn f0 f1 f2 K0 K1 K2 mu0 mu1 mu2) :
    (mu2 ≤ mu0 ∧ mu2 ≤ mu1 ∧ mu2 ≤ mu2) ∧ (mu0 ≤ mu0 ∧ mu1 ≤ mu0 ∧ mu2 ≤ mu0) ∧
    (H3 K2 mu2 ≤ H3 K0 mu0 ∧ H3 K2 mu2 ≤ H3 K1 mu1 ∧ H3 K2 mu2 ≤ H3 K2 mu2) ∧ (H3 K0 mu0 ≤ H3 K0 mu0 ∧ H3 K1 mu1 ≤ H3 K0 mu0 ∧ H3 K2 mu2 ≤ H3 K0 mu0) := by
  hs_selected Gen.HS3_n3_p1_path, h
/-- Reuss ≤ HS⁻ ≤ HS⁺ ≤ Voigt for the bulk and the shear modulus returned on that path -/
theorem HS3_n3_p1_ordered (f0 f1 f2 K0 K1 K2 mu0 mu1 mu2 : K) (h : Gen.HS3_n3_p1_path c c3 fn f0 f1 f2 K0 K1 K2 mu0 mu1 mu2)
    (hf0 : 0 ≤ f0) (hf1 : 0 ≤ f1) (hf2 : 0 ≤ f2) (h1 : f0 + f1 + f2 = 1)
    (hK0 : 0 < K0) (hK1 : 0 < K1) (hK2 : 0 < K2) (hmu0 : 0 < mu0) (hmu1 : 0 < mu1) (hmu2 : 0 < mu2) :
    ∃ KL GL KU GU, Gen.HS3_n3_p1_all c c3 fn f0 f1 f2 K0 K1 K2 mu0 mu1 mu2 = [KL, GL, KU, GU] ∧
      reuss ![f0, f1, f2] ![K0, K1, K2] ≤ KL ∧ KL ≤ KU ∧ KU ≤ voigt ![f0, f1, f2] ![K0, K1, K2] ∧
      reuss ![f0, f1, f2] ![mu0, mu1, mu2] ≤ GL ∧ GL ≤ GU ∧ GU ≤ voigt ![f0, f1, f2] ![mu0, mu1, mu2] := by
  obtain ⟨ha, hc, hb, hd⟩ := HS3_n3_p1_selected c c3 fn f0 f1 f2 K0 K1 K2 mu0 mu1 mu2 h
  have hF := all_fin3 (P := fun x : K => 0 ≤ x) hf0 hf1 hf2
  have hS : ∑ i, ![f0, f1, f2] i = 1 := by rw [sum_fin3]; exact h1
  have hKp := all_fin3 (P := fun x : K => 0 < x) hK0 hK1 hK2
  have hMp := all_fin3 (P := fun x : K => 0 < x) hmu0 hmu1 hmu2
  obtain ⟨k1, k2, k3⟩ := bounds_chain ![f0, f1, f2] ![K0, K1, K2] hF hS hKp (s := Ks3 mu2) (t := Ks3 mu0) (Ks3_nonneg hmu2) (Ks3_mono (by hs_pick ha))
  obtain ⟨g1, g2, g3⟩ := bounds_chain ![f0, f1, f2] ![mu0, mu1, mu2] hF hS hMp (s := H3 K2 mu2) (t := H3 K0 mu0) (H3_pos hK2 hmu2).le (by hs_pick hb)
  exact ⟨_, _, _, _, HS3_n3_p1_formula c c3 fn f0 f1 f2 K0 K1 K2 mu0 mu1 mu2, k1, k2, k3, g1, g2, g3⟩

/-- `HS3_n3_p2` (dimension 3, 3 phases; trace in which phase 0 has the smallest and phase 2 the largest shear
modulus, phase 2 the smallest and phase 0 the largest `H`): the four returned moduli are the
Hashin–Shtrikman forms with these reference moduli. -/
theorem HS3_n3_p2_formula (f0 f1 f2 K0 K1 K2 mu0 mu1 mu2 : K) :
    Gen.HS3_n3_p2_all c c3 fn f0 f1 f2 K0 K1 K2 mu0 mu1 mu2 =
      [hs ![f0, f1, f2] ![K0, K1, K2] (Ks3 mu0), hs ![f0, f1, f2] ![mu0, mu1, mu2] (H3 K2 mu2),
       hs ![f0, f1, f2] ![K0, K1, K2] (Ks3 mu2), hs ![f0, f1, f2] ![mu0, mu1, mu2] (H3 K0 mu0)] := by
  hs_formula Gen.HS3_n3_p2_all, hs_fin3
/-- on that path the selected phases are indeed the extreme ones -/
theorem HS3_n3_p2_selected (f0 f1 f2 K0 K1 K2 mu0 mu1 mu2 : K) (h : Gen.HS3_n3_p2_path c c3 fn f0 f1 f2 K0 K1 K2 mu0 mu1 mu2) :
    (mu0 ≤ mu0 ∧ mu0 ≤ mu1 ∧ mu0 ≤ mu2) ∧ (mu0 ≤ mu2 ∧ mu1 ≤ mu2 ∧ mu2 ≤ mu2) ∧
    (H3 K2 mu2 ≤ H3 K0 mu0 ∧ H3 K2 mu2 ≤ H3 K1 mu1 ∧ H3 K2 mu2 ≤ H3 K2 mu2) ∧ (H3 K0 mu0 ≤ H3 K0 mu0 ∧ H3 K1 mu1 ≤ H3 K0 mu0 ∧ H3 K2 mu2 ≤ H3 K0 mu0) := by
  hs_selected Gen.HS3_n3_p2_path, h
/-- Reuss ≤ HS⁻ ≤ HS⁺ ≤ Voigt for the bulk and the shear modulus returned on that path -/
theorem HS3_n3_p2_ordered (f0 f1 f2 K0 K1 K2 mu0 mu1 mu2 : K) (h : Gen.HS3_n3_p2_path c c3 fn f0 f1 f2 K0 K1 K2 mu0 mu1 mu2)
    (hf0 : 0 ≤ f0) (hf1 : 0 ≤ f1) (hf2 : 0 ≤ f2) (h1 : f0 + f1 + f2 = 1)
    (hK0 : 0 < K0) (hK1 : 0 < K1) (hK2 : 0 < K2) (hmu0 : 0 < mu0) (hmu1 : 0 < mu1) (hmu2 : 0 < mu2) :
    ∃ KL GL KU GU, Gen.HS3_n3_p2_all c c3 fn f0 f1 f2 K0 K1 K2 mu0 mu1 mu2 = [KL, GL, KU, GU] ∧
      reuss ![f0, f1, f2] ![K0, K1, K2] ≤ KL ∧ KL ≤ KU ∧ KU ≤ voigt ![f0, f1, f2] ![K0, K1, K2] ∧
      reuss ![f0, f1, f2] ![mu0, mu1, mu2] ≤ GL ∧ GL ≤ GU ∧ GU ≤ voigt ![f0, f1, f2] ![mu0, mu1, mu2] := by
  obtain ⟨ha, hc, hb, hd⟩ := HS3_n3_p2_selected c c3 fn f0 f1 f2 K0 K1 K2 mu0 mu1 mu2 h
  have hF := all_fin3 (P := fun x : K => 0 ≤ x) hf0 hf1 hf2
  have hS : ∑ i, ![f0, f1, f2] i = 1 := by rw [sum_fin3]; exact h1
  have hKp := all_fin3 (P := fun x : K => 0 < x) hK0 hK1 hK2
  have hMp := all_fin3 (P := fun x : K => 0 < x) hmu0 hmu1 hmu2
  obtain ⟨k1, k2, k3⟩ := bounds_chain ![f0, f1, f2] ![K0, K1, K2] hF hS hKp (s := Ks3 mu0) (t := Ks3 mu2) (Ks3_nonneg hmu0) (Ks3_mono (by hs_pick ha))
  obtain ⟨g1, g2, g3⟩ := bounds_chain ![f0, f1, f2] ![mu0, mu1, mu2] hF hS hMp (s := H3 K2 mu2) (t := H3 K0 mu0) (H3_pos hK2 hmu2).le (by hs_pick hb)
  exact ⟨_, _, _, _, HS3_n3_p2_formula c c3 fn f0 f1 f2 K0 K1 K2 mu0 mu1 mu2, k1, k2, k3, g1, g2, g3⟩

/-- `HS3_n3_p3` (dimension 3, 3 phases; trace in which phase 1 has the smallest and phase 2 the largest shear
modulus, phase 1 the smallest and phase 2 the largest `H`): the four returned moduli are the
Hashin–Shtrikman forms with these reference moduli. -/
theorem HS3_n3_p3_formula (f0 f1 f2 K0 K1 K2 mu0 mu1 mu2 : K) :
    Gen.HS3_n3_p3_all c c3 fn f0 f1 f2 K0 K1 K2 mu0 mu1 mu2 =
      [hs ![f0, f1, f2] ![K0, K1, K2] (Ks3 mu1), hs ![f0, f1, f2] ![mu0, mu1, mu2] (H3 K1 mu1),
       hs ![f0, f1, f2] ![K0, K1, K2] (Ks3 mu2), hs ![f0, f1, f2] ![mu0, mu1, mu2] (H3 K2 mu2)] := by
  hs_formula Gen.HS3_n3_p3_all, hs_fin3
/-- on that path the selected phases are indeed the extreme ones -/
theorem HS3_n3_p3_selected (f0 f1 f2 K0 K1 K2 mu0 mu1 mu2 : K) (h : Gen.HS3_n3_p3_path c c3 fn f0 f1 f2 K0 K1 K2 mu0 mu1 mu2) :
    (mu1 ≤ mu0 ∧ mu1 ≤ mu1 ∧ mu1 ≤ mu2) ∧ (mu0 ≤ mu2 ∧ mu1 ≤ mu2 ∧ mu2 ≤ mu2) ∧
    (H3 K1 mu1 ≤ H3 K0 mu0 ∧ H3 K1 mu1 ≤ H3 K1 mu1 ∧ H3 K1 mu1 ≤ H3 K2 mu2) ∧ (H3 K0 mu0 ≤ H3 K2 mu2 ∧ H3 K1 mu1 ≤ H3 K2 mu2 ∧ H3 K2 mu2 ≤ H3 K2 mu2) := by
  hs_selected Gen.HS3_n3_p3_path, h
/-- Reuss ≤ HS⁻ ≤ HS⁺ ≤ Voigt for the bulk and the shear modulus returned on that path -/
theorem HS3_n3_p3_ordered (f0 f1 f2 K0 K1 K2 mu0 mu1 mu2 : K) (h : Gen.HS3_n3_p3_path c c3 fn f0 f1 f2 K0 K1 K2 mu0 mu1 mu2)
    (hf0 : 0 ≤ f0) (hf1 : 0 ≤ f1) (hf2 : 0 ≤ f2) (h1 : f0 + f1 + f2 = 1)
    (hK0 : 0 < K0) (hK1 : 0 < K1) (hK2 : 0 < K2) (hmu0 : 0 < mu0) (hmu1 : 0 < mu1) (hmu2 : 0 < mu2) :
    ∃ KL GL KU GU, Gen.HS3_n3_p3_all c c3 fn f0 f1 f2 K0 K1 K2 mu0 mu1 mu2 = [KL, GL, KU, GU] ∧
      reuss ![f0, f1, f2] ![K0, K1, K2] ≤ KL ∧ KL ≤ KU ∧ KU ≤ voigt ![f0, f1, f2] ![K0, K1, K2] ∧
      reuss ![f0, f1, f2] ![mu0, mu1, mu2] ≤ GL ∧ GL ≤ GU ∧ GU ≤ voigt ![f0, f1, f2] ![mu0, mu1, mu2] := by
  obtain ⟨ha, hc, hb, hd⟩ := HS3_n3_p3_selected c c3 fn f0 f1 f2 K0 K1 K2 mu0 mu1 mu2 h
  have hF := all_fin3 (P := fun x : K => 0 ≤ x) hf0 hf1 hf2
  have hS : ∑ i, ![f0, f1, f2] i = 1 := by rw [sum_fin3]; exact h1
  have hKp := all_fin3 (P := fun x : K => 0 < x) hK0 hK1 hK2
  have hMp := all_fin3 (P := fun x : K => 0 < x) hmu0 hmu1 hmu2
  obtain ⟨k1, k2, k3⟩ := bounds_chain ![f0, f1, f2] ![K0, K1, K2] hF hS hKp (s := Ks3 mu1) (t := Ks3 mu2) (Ks3_nonneg hmu1) (Ks3_mono (by hs_pick ha))
  obtain ⟨g1, g2, g3⟩ := bounds_chain ![f0, f1, f2] ![mu0, mu1, mu2] hF hS hMp (s := H3 K1 mu1) (t := H3 K2 mu2) (H3_pos hK1 hmu1).le (by hs_pick hb)
  exact ⟨_, _, _, _, HS3_n3_p3_formula c c3 fn f0 f1 f2 K0 K1 K2 mu0 mu1 mu2, k1, k2, k3, g1, g2, g3⟩

/-- `HS3_n4_p0` (dimension 3, 4 phases; trace in which phase 0 has the smallest and phase 3 the largest shear
modulus, phase 0 the smallest and phase 3 the largest `H`): the four returned moduli are the
Hashin–Shtrikman forms with these reference moduli. -/
theorem HS3_n4_p0_formula (f0 f1 f2 f3 K0 K1 K2 K3 mu0 mu1 mu2 mu3 : K) :
    Gen.HS3_n4_p0_all c c3 fn f0 f1 f2 f3 K0 K1 K2 K3 mu0 mu1 mu2 mu3 =
      [hs ![f0, f1, f2, f3] ![K0, K1, K2, K3] (Ks3 mu0), hs ![f0, f1, f2, f3] ![mu0, mu1, mu2, mu3] (H3 K0 mu0),
       hs ![f0, f1, f2, f3] ![K0, K1, K2, K3] (Ks3 mu3), hs ![f0, f1, f2, f3] ![mu0, mu1, mu2, mu3] (H3 K3 mu3)] := by
  hs_formula Gen.HS3_n4_p0_all, hs_fin4
/-- on that path the selected phases are indeed the extreme ones -/
theorem HS3_n4_p0_selected (f0 f1 f2 f3 K0 K1 K2 K3 mu0 mu1 mu2 mu3 : K) (h : Gen.HS3_n4_p0_path c c3 fn f0 f1 f2 f3 K0 K1 K2 K3 mu0 mu1 mu2 mu3) :
    (mu0 ≤ mu0 ∧ mu0 ≤ mu1 ∧ mu0 ≤ mu2 ∧ mu0 ≤ mu3) ∧ (mu0 ≤ mu3 ∧ mu1 ≤ mu3 ∧ mu2 ≤ mu3 ∧ mu3 ≤ mu3) ∧
    (H3 K0 mu0 ≤ H3 K0 mu0 ∧ H3 K0 mu0 ≤ H3 K1 mu1 ∧ H3 K0 mu0 ≤ H3 K2 mu2 ∧ H3 K0 mu0 ≤ H3 K3 mu3) ∧ (H3 K0 mu0 ≤ H3 K3 mu3 ∧ H3 K1 mu1 ≤ H3 K3 mu3 ∧ H3 K2 mu2 ≤ H3 K3 mu3 ∧ H3 K3 mu3 ≤ H3 K3 mu3) := by
  hs_selected Gen.HS3_n4_p0_path, h
/-- Reuss ≤ HS⁻ ≤ HS⁺ ≤ Voigt for the bulk and the shear modulus returned on that path -/
theorem HS3_n4_p0_ordered (f0 f1 f2 f3 K0 K1 K2 K3 mu0 mu1 mu2 mu3 : K) (h : Gen.HS3_n4_p0_path c c3 fn f0 f1 f2 f3 K0 K1 K2 K3 mu0 mu1 mu2 mu3)
    (hf0 : 0 ≤ f0) (hf1 : 0 ≤ f1) (hf2 : 0 ≤ f2) (hf3 : 0 ≤ f3) (h1 : f0 + f1 + f2 + f3 = 1)
    (hK0 : 0 < K0) (hK1 : 0 < K1) (hK2 : 0 < K2) (hK3 : 0 < K3) (hmu0 : 0 < mu0) (hmu1 : 0 < mu1) (hmu2 : 0 < mu2) (hmu3 : 0 < mu3) :
    ∃ KL GL KU GU, Gen.HS3_n4_p0_all c c3 fn f0 f1 f2 f3 K0 K1 K2 K3 mu0 mu1 mu2 mu3 = [KL, GL, KU, GU] ∧
      reuss ![f0, f1, f2, f3] ![K0, K1, K2, K3] ≤ KL ∧ KL ≤ KU ∧ KU ≤ voigt ![f0, f1, f2, f3] ![K0, K1, K2, K3] ∧
      reuss ![f0, f1, f2, f3] ![mu0, mu1, mu2, mu3] ≤ GL ∧ GL ≤ GU ∧ GU ≤ voigt ![f0, f1, f2, f3] ![mu0, mu1, mu2, mu3] := by
  obtain ⟨ha, hc, hb, hd⟩ := HS3_n4_p0_selected c c3 fn f0 f1 f2 f3 K0 K1 K2 K3 mu0 mu1 mu2 mu3 h
  have hF := all_fin4 (P := fun x : K => 0 ≤ x) hf0 hf1 hf2 hf3
  have hS : ∑ i, ![f0, f1, f2, f3] i = 1 := by rw [sum_fin4]; exact h1
  have hKp := all_fin4 (P := fun x : K => 0 < x) hK0 hK1 hK2 hK3
  have hMp := all_fin4 (P := fun x : K => 0 < x) hmu0 hmu1 hmu2 hmu3
  obtain ⟨k1, k2, k3⟩ := bounds_chain ![f0, f1, f2, f3] ![K0, K1, K2, K3] hF hS hKp (s := Ks3 mu0) (t := Ks3 mu3) (Ks3_nonneg hmu0) (Ks3_mono (by hs_pick ha))
  obtain ⟨g1, g2, g3⟩ := bounds_chain ![f0, f1, f2, f3] ![mu0, mu1, mu2, mu3] hF hS hMp (s := H3 K0 mu0) (t := H3 K3 mu3) (H3_pos hK0 hmu0).le (by hs_pick hb)
  exact ⟨_, _, _, _, HS3_n4_p0_formula c c3 fn f0 f1 f2 f3 K0 K1 K2 K3 mu0 mu1 mu2 mu3, k1, k2, k3, g1, g2, g3⟩

/-- `HS3_n4_p1` (dimension 3, 4 phases; trace in which phase 3 has the smallest and phase 0 the largest shear
modulus, phase 3 the smallest and phase 0 the largest `H`): the four returned moduli are the
Hashin–Shtrikman forms with these reference moduli. -/
theorem HS3_n4_p1_formula (f0 f1 f2 f3 K0 K1 K2 K3 mu0 mu1 mu2 mu3 : K) :
    Gen.HS3_n4_p1_all c c3 fn f0 f1 f2 f3 K0 K1 K2 K3 mu0 mu1 mu2 mu3 =
      [hs ![f0, f1, f2, f3] ![K0, K1, K2, K3] (Ks3 mu3), hs ![f0, f1, f2, f3] ![mu0, mu1, mu2, mu3] (H3 K3 mu3),
       hs ![f0, f1, f2, f3] ![K0, K1, K2, K3] (Ks3 mu0), hs ![f0, f1, f2, f3] ![mu0, mu1, mu2, mu3] (H3 K0 mu0)] := by
  hs_formula Gen.HS3_n4_p1_all, hs_fin4
/-- on that path the selected phases are indeed the extreme ones -/
theorem HS3_n4_p1_selected (f0 f1 f2 f3 K0 K1 K2 K3 mu0 mu1 mu2 mu3 : K) (h : Gen.HS3_n4_p1_path c c3 fn f0 f1 f2 f3 K0 K1 K2 K3 mu0 mu1 mu2 mu3) :
    (mu3 ≤ mu0 ∧ mu3 ≤ mu1 ∧ mu3 ≤ mu2 ∧ mu3 ≤ mu3) ∧ (mu0 ≤ mu0 ∧ mu1 ≤ mu0 ∧ mu2 ≤ mu0 ∧ mu3 ≤ mu0) ∧
    (H3 K3 mu3 ≤ H3 K0 mu0 ∧ H3 K3 mu3 ≤ H3 K1 mu1 ∧ H3 K3 mu3 ≤ H3 K2 mu2 ∧ H3 K3 mu3 ≤ H3 K3 mu3) ∧ (H3 K0 mu0 ≤ H3 K0 mu0 ∧ H3 K1 mu1 ≤ H3 K0 mu0 ∧ H3 K2 mu2 ≤ H3 K0 mu0 ∧ H3 K3 mu3 ≤ H3 K0 mu0) := by
  hs_selected Gen.HS3_n4_p1_path, h
/-- Reuss ≤ HS⁻ ≤ HS⁺ ≤ Voigt for the bulk and the shear modulus returned on that path -/
theorem HS3_n4_p1_ordered (f0 f1 f2 f3 K0 K1 K2 K3 mu0 mu1 mu2 mu3 : K) (h : Gen.HS3_n4_p1_path c c3 fn f0 f1 f2 f3 K0 K1 K2 K3 mu0 mu1 mu2 mu3)
    (hf0 : 0 ≤ f0) (hf1 : 0 ≤ f1) (hf2 : 0 ≤ f2) (hf3 : 0 ≤ f3) (h1 : f0 + f1 + f2 + f3 = 1)
    (hK0 : 0 < K0) (hK1 : 0 < K1) (hK2 : 0 < K2) (hK3 : 0 < K3) (hmu0 : 0 < mu0) (hmu1 : 0 < mu1) (hmu2 : 0 < mu2) (hmu3 : 0 < mu3) :
    ∃ KL GL KU GU, Gen.HS3_n4_p1_all c c3 fn f0 f1 f2 f3 K0 K1 K2 K3 mu0 mu1 mu2 mu3 = [KL, GL, KU, GU] ∧
      reuss ![f0, f1, f2, f3] ![K0, K1, K2, K3] ≤ KL ∧ KL ≤ KU ∧ KU ≤ voigt ![f0, f1, f2, f3] ![K0, K1, K2, K3] ∧
      reuss ![f0, f1, f2, f3] ![mu0, mu1, mu2, mu3] ≤ GL ∧ GL ≤ GU ∧ GU ≤ voigt ![f0, f1, f2, f3] ![mu0, mu1, mu2, mu3] := by
  obtain ⟨ha, hc, hb, hd⟩ := HS3_n4_p1_selected c c3 fn f0 f1 f2 f3 K0 K1 K2 K3 mu0 mu1 mu2 mu3 h
  have hF := all_fin4 (P := fun x : K => 0 ≤ x) hf0 hf1 hf2 hf3
  have hS : ∑ i, ![f0, f1, f2, f3] i = 1 := by rw [sum_fin4]; exact h1
  have hKp := all_fin4 (P := fun x : K => 0 < x) hK0 hK1 hK2 hK3
  have hMp := all_fin4 (P := fun x : K => 0 < x) hmu0 hmu1 hmu2 hmu3
  obtain ⟨k1, k2, k3⟩ := bounds_chain ![f0, f1, f2, f3] ![K0, K1, K2, K3] hF hS hKp (s := Ks3 mu3) (t := Ks3 mu0) (Ks3_nonneg hmu3) (Ks3_mono (by hs_pick ha))
  obtain ⟨g1, g2, g3⟩ := bounds_chain ![f0, f1, f2, f3] ![mu0, mu1, mu2, mu3] hF hS hMp (s := H3 K3 mu3) (t := H3 K0 mu0) (H3_pos hK3 hmu3).le (by hs_pick hb)
  exact ⟨_, _, _, _, HS3_n4_p1_formula c c3 fn f0 f1 f2 f3 K0 K1 K2 K3 mu0 mu1 mu2 mu3, k1, k2, k3, g1, g2, g3⟩

/-- `HS3_n4_p2` (dimension 3, 4 phases; trace in which phase 0 has the smallest and phase 3 the largest shear
modulus, phase 2 the smallest and phase 1 the largest `H`): the four returned moduli are the
Hashin–Shtrikman forms with these reference moduli. -/
theorem HS3_n4_p2_formula (f0 f1 f2 f3 K0 K1 K2 K3 mu0 mu1 mu2 mu3 : K) :
    Gen.HS3_n4_p2_all c c3 fn f0 f1 f2 f3 K0 K1 K2 K3 mu0 mu1 mu2 mu3 =
      [hs ![f0, f1, f2, f3] ![K0, K1, K2, K3] (Ks3 mu0), hs ![f0, f1, f2, f3] ![mu0, mu1, mu2, mu3] (H3 K2 mu2),
       hs ![f0, f1, f2, f3] ![K0, K1, K2, K3] (Ks3 mu3), hs ![f0, f1, f2, f3] ![mu0, mu1, mu2, mu3] (H3 K1 mu1)] := by
  hs_formula Gen.HS3_n4_p2_all, hs_fin4
/-- on that path the selected phases are indeed the extreme ones -/
theorem HS3_n4_p2_selected (f0 f1 f2 f3 K0 K1 K2 K3 mu0 mu1 mu2 mu3 : K) (h : Gen.HS3_n4_p2_path c c3 fn f0 f1 f2 f3 K0 K1 K2 K3 mu0 mu1 mu2 mu3) :
    (mu0 ≤ mu0 ∧ mu0 ≤ mu1 ∧ mu0 ≤ mu2 ∧ mu0 ≤ mu3) ∧ (mu0 ≤ mu3 ∧ mu1 ≤ mu3 ∧ mu2 ≤ mu3 ∧ mu3 ≤ mu3) ∧
    (H3 K2 mu2 ≤ H3 K0 mu0 ∧ H3 K2 mu2 ≤ H3 K1 mu1 ∧ H3 K2 mu2 ≤ H3 K2 mu2 ∧ H3 K2 mu2 ≤ H3 K3 mu3) ∧ (H3 K0 mu0 ≤ H3 K1 mu1 ∧ H3 K1 mu1 ≤ H3 K1 mu1 ∧ H3 K2 mu2 ≤ H3 K1 mu1 ∧ H3 K3 mu3 ≤ H3 K1 mu1) := by
  hs_selected Gen.HS3_n4_p2_path, h
/-- Reuss ≤ HS⁻ ≤ HS⁺ ≤ Voigt for the bulk and the shear modulus returned on that path -/
theorem HS3_n4_p2_ordered (f0 f1 f2 f3 K0 K1 K2 K3 mu0 mu1 mu2 mu3 : K) (h : Gen.HS3_n4_p2_path c c3 fn f0 f1 f2 f3 K0 K1 K2 K3 mu0 mu1 mu2 mu3)
    (hf0 : 0 ≤ f0) (hf1 : 0 ≤ f1) (hf2 : 0 ≤ f2) (hf3 : 0 ≤ f3) (h1 : f0 + f1 + f2 + f3 = 1)
    (hK0 : 0 < K0) (hK1 : 0 < K1) (hK2 : 0 < K2) (hK3 : 0 < K3) (hmu0 : 0 < mu0) (hmu1 : 0 < mu1) (hmu2 : 0 < mu2) (hmu3 : 0 < mu3) :
    ∃ KL GL KU GU, Gen.HS3_n4_p2_all c c3 fn f0 f1 f2 f3 K0 K1 K2 K3 mu0 mu1 mu2 mu3 = [KL, GL, KU, GU] ∧
      reuss ![f0, f1, f2, f3] ![K0, K1, K2, K3] ≤ KL ∧ KL ≤ KU ∧ KU ≤ voigt ![f0, f1, f2, f3] ![K0, K1, K2, K3] ∧
      reuss ![f0, f1, f2, f3] ![mu0, mu1, mu2, mu3] ≤ GL ∧ GL ≤ GU ∧ GU ≤ voigt ![f0, f1, f2, f3] ![mu0, mu1, mu2, mu3] := by
  obtain ⟨ha, hc, hb, hd⟩ := HS3_n4_p2_selected c c3 fn f0 f1 f2 f3 K0 K1 K2 K3 mu0 mu1 mu2 mu3 h
  have hF := all_fin4 (P := fun x : K => 0 ≤ x) hf0 hf1 hf2 hf3
  have hS : ∑ i, ![f0, f1, f2, f3] i = 1 := by rw [sum_fin4]; exact h1
  have hKp := all_fin4 (P := fun x : K => 0 < x) hK0 hK1 hK2 hK3
  have hMp := all_fin4 (P := fun x : K => 0 < x) hmu0 hmu1 hmu2 hmu3
  obtain ⟨k1, k2, k3⟩ := bounds_chain ![f0, f1, f2, f3] ![K0, K1, K2, K3] hF hS hKp (s := Ks3 mu0) (t := Ks3 mu3) (Ks3_nonneg hmu0) (Ks3_mono (by hs_pick ha))
  obtain ⟨g1, g2, g3⟩ := bounds_chain ![f0, f1, f2, f3] ![mu0, mu1, mu2, mu3] hF hS hMp (s := H3 K2 mu2) (t := H3 K1 mu1) (H3_pos hK2 hmu2).le (by hs_pick hb)
  exact ⟨_, _, _, _, HS3_n4_p2_formula c c3 fn f0 f1 f2 f3 K0 K1 K2 K3 mu0 mu1 mu2 mu3, k1, k2, k3, g1, g2, g3⟩

/-- `HS3_n4_p3` (dimension 3, 4 phases; trace in which phase 1 has the smallest and phase 2 the largest shear
modulus, phase 1 the smallest and phase 2 the largest `H`): the four returned moduli are the
Hashin–Shtrikman forms with these reference moduli. -/
theorem HS3_n4_p3_formula (f0 f1 f2 f3 K0 K1 K2 K3 mu0 mu1 mu2 mu3 : K) :
    Gen.HS3_n4_p3_all c c3 fn f0 f1 f2 f3 K0 K1 K2 K3 mu0 mu1 mu2 mu3 =
      [hs ![f0, f1, f2, f3] ![K0, K1, K2, K3] (Ks3 mu1), hs ![f0, f1, f2, f3] ![mu0, mu1, mu2, mu3] (H3 K1 mu1),
       hs ![f0, f1, f2, f3] ![K0, K1, K2, K3] (Ks3 mu2), hs ![f0, f1, f2, f3] ![mu0, mu1, mu2, mu3] (H3 K2 mu2)] := by
  hs_formula Gen.HS3_n4_p3_all, hs_fin4
/-- on that path the selected phases are indeed the extreme ones -/
theorem HS3_n4_p3_selected (f0 f1 f2 f3 K0 K1 K2 K3 mu0 mu1 mu2 mu3 : K) (h : Gen.HS3_n4_p3_path c c3 fn f0 f1 f2 f3 K0 K1 K2 K3 mu0 mu1 mu2 mu3) :
    (mu1 ≤ mu0 ∧ mu1 ≤ mu1 ∧ mu1 ≤ mu2 ∧ mu1 ≤ mu3) ∧ (mu0 ≤ mu2 ∧ mu1 ≤ mu2 ∧ mu2 ≤ mu2 ∧ mu3 ≤ mu2) ∧
    (H3 K1 mu1 ≤ H3 K0 mu0 ∧ H3 K1 mu1 ≤ H3 K1 mu1 ∧ H3 K1 mu1 ≤ H3 K2 mu2 ∧ H3 K1 mu1 ≤ H3 K3 mu3) ∧ (H3 K0 mu0 ≤ H3 K2 mu2 ∧ H3 K1 mu1 ≤ H3 K2 mu2 ∧ H3 K2 mu2 ≤ H3 K2 mu2 ∧ H3 K3 mu3 ≤ H3 K2 mu2) := by
  hs_selected Gen.HS3_n4_p3_path, h
/-- Reuss ≤ HS⁻ ≤ HS⁺ ≤ Voigt for the bulk and the shear modulus returned on that path -/
theorem HS3_n4_p3_ordered (f0 f1 f2 f3 K0 K1 K2 K3 mu0 mu1 mu2 mu3 : K) (h : Gen.HS3_n4_p3_path c c3 fn f0 f1 f2 f3 K0 K1 K2 K3 mu0 mu1 mu2 mu3)
    (hf0 : 0 ≤ f0) (hf1 : 0 ≤ f1) (hf2 : 0 ≤ f2) (hf3 : 0 ≤ f3) (h1 : f0 + f1 + f2 + f3 = 1)
    (hK0 : 0 < K0) (hK1 : 0 < K1) (hK2 : 0 < K2) (hK3 : 0 < K3) (hmu0 : 0 < mu0) (hmu1 : 0 < mu1) (hmu2 : 0 < mu2) (hmu3 : 0 < mu3) :
    ∃ KL GL KU GU, Gen.HS3_n4_p3_all c c3 fn f0 f1 f2 f3 K0 K1 K2 K3 mu0 mu1 mu2 mu3 = [KL, GL, KU, GU] ∧
      reuss ![f0, f1, f2, f3] ![K0, K1, K2, K3] ≤ KL ∧ KL ≤ KU ∧ KU ≤ voigt ![f0, f1, f2, f3] ![K0, K1, K2, K3] ∧
      reuss ![f0, f1, f2, f3] ![mu0, mu1, mu2, mu3] ≤ GL ∧ GL ≤ GU ∧ GU ≤ voigt ![f0, f1, f2, f3] ![mu0, mu1, mu2, mu3] := by
  obtain ⟨ha, hc, hb, hd⟩ := HS3_n4_p3_selected c c3 fn f0 f1 f2 f3 K0 K1 K2 K3 mu0 mu1 mu2 mu3 h
  have hF := all_fin4 (P := fun x : K => 0 ≤ x) hf0 hf1 hf2 hf3
  have hS : ∑ i, ![f0, f1, f2, f3] i = 1 := by rw [sum_fin4]; exact h1
  have hKp := all_fin4 (P := fun x : K => 0 < x) hK0 hK1 hK2 hK3
  have hMp := all_fin4 (P := fun x : K => 0 < x) hmu0 hmu1 hmu2 hmu3
  obtain ⟨k1, k2, k3⟩ := bounds_chain ![f0, f1, f2, f3] ![K0, K1, K2, K3] hF hS hKp (s := Ks3 mu1) (t := Ks3 mu2) (Ks3_nonneg hmu1) (Ks3_mono (by hs_pick ha))
  obtain ⟨g1, g2, g3⟩ := bounds_chain ![f0, f1, f2, f3] ![mu0, mu1, mu2, mu3] hF hS hMp (s := H3 K1 mu1) (t := H3 K2 mu2) (H3_pos hK1 hmu1).le (by hs_pick hb)
  exact ⟨_, _, _, _, HS3_n4_p3_formula c c3 fn f0 f1 f2 f3 K0 K1 K2 K3 mu0 mu1 mu2 mu3, k1, k2, k3, g1, g2, g3⟩

/-- `HS3_n5_p0` (dimension 3, 5 phases; trace in which phase 0 has the smallest and phase 4 the largest shear
modulus, phase 0 the smallest and phase 4 the largest `H`): the four returned moduli are the
Hashin–Shtrikman forms with these reference moduli. -/
theorem HS3_n5_p0_formula (f0 f1 f2 f3 f4 K0 K1 K2 K3 K4 mu0 mu1 mu2 mu3 mu4 : K) :
    Gen.HS3_n5_p0_all c c3 fn f0 f1 f2 f3 f4 K0 K1 K2 K3 K4 mu0 mu1 mu2 mu3 mu4 =
      [hs ![f0, f1, f2, f3, f4] ![K0, K1, K2, K3, K4] (Ks3 mu0), hs ![f0, f1, f2, f3, f4] ![mu0, mu1, mu2, mu3, mu4] (H3 K0 mu0),
       hs ![f0, f1, f2, f3, f4] ![K0, K1, K2, K3, K4] (Ks3 mu4), hs ![f0, f1, f2, f3, f4] ![mu0, mu1, mu2, mu3, mu4] (H3 K4 mu4)] := by
  hs_formula Gen.HS3_n5_p0_all, hs_fin5
/-- on that path the selected phases are indeed the extreme ones -/
theorem HS3_n5_p0_selected (f0 f1 f2 f3 f4 K0 K1 K2 K3 K4 mu0 mu1 mu2 mu3 mu4 : K) (h : Gen.HS3_n5_p0_path c c3 fn f0 f1 f2 f3 f4 K0 K1 K2 K3 K4 mu0 mu1 mu2 mu3 mu4) :
    (mu0 ≤ mu0 ∧ mu0 ≤ mu1 ∧ mu0 ≤ mu2 ∧ mu0 ≤ mu3 ∧ mu0 ≤ mu4) ∧ (mu0 ≤ mu4 ∧ mu1 ≤ mu4 ∧ mu2 ≤ mu4 ∧ mu3 ≤ mu4 ∧ mu4 ≤ mu4) ∧
    (H3 K0 mu0 ≤ H3 K0 mu0 ∧ H3 K0 mu0 ≤ H3 K1 mu1 ∧ H3 K0 mu0 ≤ H3 K2 mu2 ∧ H3 K0 mu0 ≤ H3 K3 mu3 ∧ H3 K0 mu0 ≤ H3 K4 mu4) ∧ (H3 K0 mu0 ≤ H3 K4 mu4 ∧ H3 K1 mu1 ≤ H3 K4 mu4 ∧ H3 K2 mu2 ≤ H3 K4 mu4 ∧ H3 K3 mu3 ≤ H3 K4 mu4 ∧ H3 K4 mu4 ≤ H3 K4 mu4) := by
  hs_selected Gen.HS3_n5_p0_path, h
/-- Reuss ≤ HS⁻ ≤ HS⁺ ≤ Voigt for the bulk and the shear modulus returned on that path -/
theorem HS3_n5_p0_ordered (f0 f1 f2 f3 f4 K0 K1 K2 K3 K4 mu0 mu1 mu2 mu3 mu4 : K) (h : Gen.HS3_n5_p0_path c c3 fn f0 f1 f2 f3 f4 K0 K1 K2 K3 K4 mu0 mu1 mu2 mu3 mu4)
    (hf0 : 0 ≤ f0) (hf1 : 0 ≤ f1) (hf2 : 0 ≤ f2) (hf3 : 0 ≤ f3) (hf4 : 0 ≤ f4) (h1 : f0 + f1 + f2 + f3 + f4 = 1)
    (hK0 : 0 < K0) (hK1 : 0 < K1) (hK2 : 0 < K2) (hK3 : 0 < K3) (hK4 : 0 < K4) (hmu0 : 0 < mu0) (hmu1 : 0 < mu1) (hmu2 : 0 < mu2) (hmu3 : 0 < mu3) (hmu4 : 0 < mu4) :
    ∃ KL GL KU GU, Gen.HS3_n5_p0_all c c3 fn f0 f1 f2 f3 f4 K0 K1 K2 K3 K4 mu0 mu1 mu2 mu3 mu4 = [KL, GL, KU, GU] ∧
      reuss ![f0, f1, f2, f3, f4] ![K0, K1, K2, K3, K4] ≤ KL ∧ KL ≤ KU ∧ KU ≤ voigt ![f0, f1, f2, f3, f4] ![K0, K1, K2, K3, K4] ∧
      reuss ![f0, f1, f2, f3, f4] ![mu0, mu1, mu2, mu3, mu4] ≤ GL ∧ GL ≤ GU ∧ GU ≤ voigt ![f0, f1, f2, f3, f4] ![mu0, mu1, mu2, mu3, mu4] := by
  obtain ⟨ha, hc, hb, hd⟩ := HS3_n5_p0_selected c c3 fn f0 f1 f2 f3 f4 K0 K1 K2 K3 K4 mu0 mu1 mu2 mu3 mu4 h
  have hF := all_fin5 (P := fun x : K => 0 ≤ x) hf0 hf1 hf2 hf3 hf4
  have hS : ∑ i, ![f0, f1, f2, f3, f4] i = 1 := by rw [sum_fin5]; exact h1
  have hKp := all_fin5 (P := fun x : K => 0 < x) hK0 hK1 hK2 hK3 hK4
  have hMp := all_fin5 (P := fun x : K => 0 < x) hmu0 hmu1 hmu2 hmu3 hmu4
  obtain ⟨k1, k2, k3⟩ := bounds_chain ![f0, f1, f2, f3, f4] ![K0, K1, K2, K3, K4] hF hS hKp (s := Ks3 mu0) (t := Ks3 mu4) (Ks3_nonneg hmu0) (Ks3_mono (by hs_pick ha))
  obtain ⟨g1, g2, g3⟩ := bounds_chain ![f0, f1, f2, f3, f4] ![mu0, mu1, mu2, mu3, mu4] hF hS hMp (s := H3 K0 mu0) (t := H3 K4 mu4) (H3_pos hK0 hmu0).le (by hs_pick hb)
  exact ⟨_, _, _, _, HS3_n5_p0_formula c c3 fn f0 f1 f2 f3 f4 K0 K1 K2 K3 K4 mu0 mu1 mu2 mu3 mu4, k1, k2, k3, g1, g2, g3⟩

/-- `HS3_n5_p1` (dimension 3, 5 phases; trace in which phase 4 has the smallest and phase 0 the largest shear
modulus, phase 4 the smallest and phase 0 the largest `H`): the four returned moduli are the
Hashin–Shtrikman forms with these reference moduli. -/
theorem HS3_n5_p1_formula (f0 f1 f2 f3 f4 K0 K1 K2 K3 K4 mu0 mu1 mu2 mu3 mu4 : K) :
    Gen.HS3_n5_p1_all c c3 fn f0 f1 f2 f3 f4 K0 K1 K2 K3 K4 mu0 mu1 mu2 mu3 mu4 =
      [hs ![f0, f1, f2, f3, f4] ![K0, K1, K2, K3, K4] (Ks3 mu4), hs ![f0, f1, f2, f3, f4] ![mu0, mu1, mu2, mu3, mu4] (H3 K4 mu4),
       hs ![f0, f1, f2, f3, f4] ![K0, K1, K2, K3, K4] (Ks3 mu0), hs ![f0, f1, f2, f3, f4] ![mu0, mu1, mu2, mu3, mu4] (H3 K0 mu0)] := by
  hs_formula Gen.HS3_n5_p1_all, hs_fin5
/-- on that path the selected phases are indeed the extreme ones -/
theorem HS3_n5_p1_selected (f0 f1 f2 f3 f4 K0 K1 K2 K3 K4 mu0 mu1 mu2 mu3 mu4 : K) (h : Gen.HS3_n5_p1_path c c3 fn f0 f1 f2 f3 f4 K0 K1 K2 K3 K4 mu0 mu1 mu2 mu3 mu4) :
    (mu4 ≤ mu0 ∧ mu4 ≤ mu1 ∧ mu4 ≤ mu2 ∧ mu4 ≤ mu3 ∧ mu4 ≤ mu4) ∧ (mu0 ≤ mu0 ∧ mu1 ≤ mu0 ∧ mu2 ≤ mu0 ∧ mu3 ≤ mu0 ∧ mu4 ≤ mu0) ∧
    (H3 K4 mu4 ≤ H3 K0 mu0 ∧ H3 K4 mu4 ≤ H3 K1 mu1 ∧ H3 K4 mu4 ≤ H3 K2 mu2 ∧ H3 K4 mu4 ≤ H3 K3 mu3 ∧ H3 K4 mu4 ≤ H3 K4 mu4) ∧ (H3 K0 mu0 ≤ H3 K0 mu0 ∧ H3 K1 mu1 ≤ H3 K0 mu0 ∧ H3 K2 mu2 ≤ H3 K0 mu0 ∧ H3 K3 mu3 ≤ H3 K0 mu0 ∧ H3 K4 mu4 ≤ H3 K0 mu0) := by
  hs_selected Gen.HS3_n5_p1_path, h
/-- Reuss ≤ HS⁻ ≤ HS⁺ ≤ Voigt for the bulk and the shear modulus returned on that path -/
theorem HS3_n5_p1_ordered (f0 f1 f2 f3 f4 K0 K1 K2 K3 K4 mu0 mu1 mu2 mu3 mu4 : K) (h : Gen.HS3_n5_p1_path c c3 fn f0 f1 f2 f3 f4 K0 K1 K2 K3 K4 mu0 mu1 mu2 mu3 mu4)
    (hf0 : 0 ≤ f0) (hf1 : 0 ≤ f1) (hf2 : 0 ≤ f2) (hf3 : 0 ≤ f3) (hf4 : 0 ≤ f4) (h1 : f0 + f1 + f2 + f3 + f4 = 1)
    (hK0 : 0 < K0) (hK1 : 0 < K1) (hK2 : 0 < K2) (hK3 : 0 < K3) (hK4 : 0 < K4) (hmu0 : 0 < mu0) (hmu1 : 0 < mu1) (hmu2 : 0 < mu2) (hmu3 : 0 < mu3) (hmu4 : 0 < mu4) :
    ∃ KL GL KU GU, Gen.HS3_n5_p1_all c c3 fn f0 f1 f2 f3 f4 K0 K1 K2 K3 K4 mu0 mu1 mu2 mu3 mu4 = [KL, GL, KU, GU] ∧
      reuss ![f0, f1, f2, f3, f4] ![K0, K1, K2, K3, K4] ≤ KL ∧ KL ≤ KU ∧ KU ≤ voigt ![f0, f1, f2, f3, f4] ![K0, K1, K2, K3, K4] ∧
      reuss ![f0, f1, f2, f3, f4] ![mu0, mu1, mu2, mu3, mu4] ≤ GL ∧ GL ≤ GU ∧ GU ≤ voigt ![f0, f1, f2, f3, f4] ![mu0, mu1, mu2, mu3, mu4] := by
  obtain ⟨ha, hc, hb, hd⟩ := HS3_n5_p1_selected c c3 fn f0 f1 f2 f3 f4 K0 K1 K2 K3 K4 mu0 mu1 mu2 mu3 mu4 h
  have hF := all_fin5 (P := fun x : K => 0 ≤ x) hf0 hf1 hf2 hf3 hf4
  have hS : ∑ i, ![f0, f1, f2, f3, f4] i = 1 := by rw [sum_fin5]; exact h1
  have hKp := all_fin5 (P := fun x : K => 0 < x) hK0 hK1 hK2 hK3 hK4
  have hMp := all_fin5 (P := fun x : K => 0 < x) hmu0 hmu1 hmu2 hmu3 hmu4
  obtain ⟨k1, k2, k3⟩ := bounds_chain ![f0, f1, f2, f3, f4] ![K0, K1, K2, K3, K4] hF hS hKp (s := Ks3 mu4) (t := Ks3 mu0) (Ks3_nonneg hmu4) (Ks3_mono (by hs_pick ha))
  obtain ⟨g1, g2, g3⟩ := bounds_chain ![f0, f1, f2, f3, f4] ![mu0, mu1, mu2, mu3, mu4] hF hS hMp (s := H3 K4 mu4) (t := H3 K0 mu0) (H3_pos hK4 hmu4).le (by hs_pick hb)
  exact ⟨_, _, _, _, HS3_n5_p1_formula c c3 fn f0 f1 f2 f3 f4 K0 K1 K2 K3 K4 mu0 mu1 mu2 mu3 mu4, k1, k2, k3, g1, g2, g3⟩

/-- `HS3_n5_p2` (dimension 3, 5 phases; trace in which phase 2 has the smallest and phase 1 the largest shear
modulus, phase 2 the smallest and phase 1 the largest `H`): the four returned moduli are the
Hashin–Shtrikman forms with these reference moduli. -/
theorem HS3_n5_p2_formula (f0 f1 f2 f3 f4 K0 K1 K2 K3 K4 mu0 mu1 mu2 mu3 mu4 : K) :
    Gen.HS3_n5_p2_all c c3 fn f0 f1 f2 f3 f4 K0 K1 K2 K3 K4 mu0 mu1 mu2 mu3 mu4 =
      [hs ![f0, f1, f2, f3, f4] ![K0, K1, K2, K3, K4] (Ks3 mu2), hs ![f0, f1, f2, f3, f4] ![mu0, mu1, mu2, mu3, mu4] (H3 K2 mu2),
       hs ![f0, f1, f2, f3, f4] ![K0, K1, K2, K3, K4] (Ks3 mu1), hs ![f0, f1, f2, f3, f4] ![mu0, mu1, mu2, mu3, mu4] (H3 K1 mu1)] := by
  hs_formula Gen.HS3_n5_p2_all, hs_fin5
/-- on that path the selected phases are indeed the extreme ones -/
theorem HS3_n5_p2_selected (f0 f1 f2 f3 f4 K0 K1 K2 K3 K4 mu0 mu1 mu2 mu3 mu4 : K) (h : Gen.HS3_n5_p2_path c c3 fn f0 f1 f2 f3 f4 K0 K1 K2 K3 K4 mu0 mu1 mu2 mu3 mu4) :
    (mu2 ≤ mu0 ∧ mu2 ≤ mu1 ∧ mu2 ≤ mu2 ∧ mu2 ≤ mu3 ∧ mu2 ≤ mu4) ∧ (mu0 ≤ mu1 ∧ mu1 ≤ mu1 ∧ mu2 ≤ mu1 ∧ mu3 ≤ mu1 ∧ mu4 ≤ mu1) ∧
    (H3 K2 mu2 ≤ H3 K0 mu0 ∧ H3 K2 mu2 ≤ H3 K1 mu1 ∧ H3 K2 mu2 ≤ H3 K2 mu2 ∧ H3 K2 mu2 ≤ H3 K3 mu3 ∧ H3 K2 mu2 ≤ H3 K4 mu4) ∧ (H3 K0 mu0 ≤ H3 K1 mu1 ∧ H3 K1 mu1 ≤ H3 K1 mu1 ∧ H3 K2 mu2 ≤ H3 K1 mu1 ∧ H3 K3 mu3 ≤ H3 K1 mu1 ∧ H3 K4 mu4 ≤ H3 K1 mu1) := by
  hs_selected Gen.HS3_n5_p2_path, h
/-- Reuss ≤ HS⁻ ≤ HS⁺ ≤ Voigt for the bulk and the shear modulus returned on that path -/
theorem HS3_n5_p2_ordered (f0 f1 f2 f3 f4 K0 K1 K2 K3 K4 mu0 mu1 mu2 mu3 mu4 : K) (h : Gen.HS3_n5_p2_path c c3 fn f0 f1 f2 f3 f4 K0 K1 K2 K3 K4 mu0 mu1 mu2 mu3 mu4)
    (hf0 : 0 ≤ f0) (hf1 : 0 ≤ f1) (hf2 : 0 ≤ f2) (hf3 : 0 ≤ f3) (hf4 : 0 ≤ f4) (h1 : f0 + f1 + f2 + f3 + f4 = 1)
    (hK0 : 0 < K0) (hK1 : 0 < K1) (hK2 : 0 < K2) (hK3 : 0 < K3) (hK4 : 0 < K4) (hmu0 : 0 < mu0) (hmu1 : 0 < mu1) (hmu2 : 0 < mu2) (hmu3 : 0 < mu3) (hmu4 : 0 < mu4) :
    ∃ KL GL KU GU, Gen.HS3_n5_p2_all c c3 fn f0 f1 f2 f3 f4 K0 K1 K2 K3 K4 mu0 mu1 mu2 mu3 mu4 = [KL, GL, KU, GU] ∧
      reuss ![f0, f1, f2, f3, f4] ![K0, K1, K2, K3, K4] ≤ KL ∧ KL ≤ KU ∧ KU ≤ voigt ![f0, f1, f2, f3, f4] ![K0, K1, K2, K3, K4] ∧
      reuss ![f0, f1, f2, f3, f4] ![mu0, mu1, mu2, mu3, mu4] ≤ GL ∧ GL ≤ GU ∧ GU ≤ voigt ![f0, f1, f2, f3, f4] ![mu0, mu1, mu2, mu3, mu4] := by
  obtain ⟨ha, hc, hb, hd⟩ := HS3_n5_p2_selected c c3 fn f0 f1 f2 f3 f4 K0 K1 K2 K3 K4 mu0 mu1 mu2 mu3 mu4 h
  have hF := all_fin5 (P := fun x : K => 0 ≤ x) hf0 hf1 hf2 hf3 hf4
  have hS : ∑ i, ![f0, f1, f2, f3, f4] i = 1 := by rw [sum_fin5]; exact h1
  have hKp := all_fin5 (P := fun x : K => 0 < x) hK0 hK1 hK2 hK3 hK4
  have hMp := all_fin5 (P := fun x : K => 0 < x) hmu0 hmu1 hmu2 hmu3 hmu4
  obtain ⟨k1, k2, k3⟩ := bounds_chain ![f0, f1, f2, f3, f4] ![K0, K1, K2, K3, K4] hF hS hKp (s := Ks3 mu2) (t := Ks3 mu1) (Ks3_nonneg hmu2) (Ks3_mono (by hs_pick ha))
  obtain ⟨g1, g2, g3⟩ := bounds_chain ![f0, f1, f2, f3, f4] ![mu0, mu1, mu2, mu3, mu4] hF hS hMp (s := H3 K2 mu2) (t := H3 K1 mu1) (H3_pos hK2 hmu2).le (by hs_pick hb)
  exact ⟨_, _, _, _, HS3_n5_p2_formula c c3 fn f0 f1 f2 f3 f4 K0 K1 K2 K3 K4 mu0 mu1 mu2 mu3 mu4, k1, k2, k3, g1, g2, g3⟩

/-- `HS2_n2_p0` (dimension 2, 2 phases; trace in which phase 0 has the smallest and phase 1 the largest shear
modulus, phase 0 the smallest and phase 1 the largest `H`): the four returned moduli are the
Hashin–Shtrikman forms with these reference moduli. -/
theorem HS2_n2_p0_formula (f0 f1 K0 K1 mu0 mu1 : K) :
    Gen.HS2_n2_p0_all c c3 fn f0 f1 K0 K1 mu0 mu1 =
      [hs ![f0, f1] ![K0, K1] (Ks2 mu0), hs ![f0, f1] ![mu0, mu1] (H2 K0 mu0),
       hs ![f0, f1] ![K0, K1] (Ks2 mu1), hs ![f0, f1] ![mu0, mu1] (H2 K1 mu1)] := by
  hs_formula Gen.HS2_n2_p0_all, hs_fin2
/-- on that path the selected phases are indeed the extreme ones -/
theorem HS2_n2_p0_selected (f0 f1 K0 K1 mu0 mu1 : K) (h : Gen.HS2_n2_p0_path c c3 fn f0 f1 K0 K1 mu0 mu1) :
    (mu0 ≤ mu0 ∧ mu0 ≤ mu1) ∧ (mu0 ≤ mu1 ∧ mu1 ≤ mu1) ∧
    (H2 K0 mu0 ≤ H2 K0 mu0 ∧ H2 K0 mu0 ≤ H2 K1 mu1) ∧ (H2 K0 mu0 ≤ H2 K1 mu1 ∧ H2 K1 mu1 ≤ H2 K1 mu1) := by
  hs_selected Gen.HS2_n2_p0_path, h
/-- Reuss ≤ HS⁻ ≤ HS⁺ ≤ Voigt for the bulk and the shear modulus returned on that path -/
theorem HS2_n2_p0_ordered (f0 f1 K0 K1 mu0 mu1 : K) (h : Gen.HS2_n2_p0_path c c3 fn f0 f1 K0 K1 mu0 mu1)
    (hf0 : 0 ≤ f0) (hf1 : 0 ≤ f1) (h1 : f0 + f1 = 1)
    (hK0 : 0 < K0) (hK1 : 0 < K1) (hmu0 : 0 < mu0) (hmu1 : 0 < mu1) :
    ∃ KL GL KU GU, Gen.HS2_n2_p0_all c c3 fn f0 f1 K0 K1 mu0 mu1 = [KL, GL, KU, GU] ∧
      reuss ![f0, f1] ![K0, K1] ≤ KL ∧ KL ≤ KU ∧ KU ≤ voigt ![f0, f1] ![K0, K1] ∧
      reuss ![f0, f1] ![mu0, mu1] ≤ GL ∧ GL ≤ GU ∧ GU ≤ voigt ![f0, f1] ![mu0, mu1] := by
  obtain ⟨ha, hc, hb, hd⟩ := HS2_n2_p0_selected c c3 fn f0 f1 K0 K1 mu0 mu1 h
  have hF := all_fin2 (P := fun x : K => 0 ≤ x) hf0 hf1
  have hS : ∑ i, ![f0, f1] i = 1 := by rw [sum_fin2]; exact h1
  have hKp := all_fin2 (P := fun x : K => 0 < x) hK0 hK1
  have hMp := all_fin2 (P := fun x : K => 0 < x) hmu0 hmu1
  obtain ⟨k1, k2, k3⟩ := bounds_chain ![f0, f1] ![K0, K1] hF hS hKp (s := Ks2 mu0) (t := Ks2 mu1) (Ks2_nonneg hmu0) (Ks2_mono (by hs_pick ha))
  obtain ⟨g1, g2, g3⟩ := bounds_chain ![f0, f1] ![mu0, mu1] hF hS hMp (s := H2 K0 mu0) (t := H2 K1 mu1) (H2_pos hK0 hmu0).le (by hs_pick hb)
  exact ⟨_, _, _, _, HS2_n2_p0_formula c c3 fn f0 f1 K0 K1 mu0 mu1, k1, k2, k3, g1, g2, g3⟩

/-- `HS2_n2_p1` (dimension 2, 2 phases; trace in which phase 1 has the smallest and phase 0 the largest shear
modulus, phase 1 the smallest and phase 0 the largest `H`): the four returned moduli are the
Hashin–Shtrikman forms with these reference moduli. -/
theorem HS2_n2_p1_formula (f0 f1 K0 K1 mu0 mu1 : K) :
    Gen.HS2_n2_p1_all c c3 fn f0 f1 K0 K1 mu0 mu1 =
      [hs ![f0, f1] ![K0, K1] (Ks2 mu1), hs ![f0, f1] ![mu0, mu1] (H2 K1 mu1),
       hs ![f0, f1] ![K0, K1] (Ks2 mu0), hs ![f0, f1] ![mu0, mu1] (H2 K0 mu0)] := by
  hs_formula Gen.HS2_n2_p1_all, hs_fin2
/-- on that path the selected phases are indeed the extreme ones -/
theorem HS2_n2_p1_selected (f0 f1 K0 K1 mu0 mu1 : K) (h : Gen.HS2_n2_p1_path c c3 fn f0 f1 K0 K1 mu0 mu1) :
    (mu1 ≤ mu0 ∧ mu1 ≤ mu1) ∧ (mu0 ≤ mu0 ∧ mu1 ≤ mu0) ∧
    (H2 K1 mu1 ≤ H2 K0 mu0 ∧ H2 K1 mu1 ≤ H2 K1 mu1) ∧ (H2 K0 mu0 ≤ H2 K0 mu0 ∧ H2 K1 mu1 ≤ H2 K0 mu0) := by
  hs_selected Gen.HS2_n2_p1_path, h
/-- Reuss ≤ HS⁻ ≤ HS⁺ ≤ Voigt for the bulk and the shear modulus returned on that path -/
theorem HS2_n2_p1_ordered (f0 f1 K0 K1 mu0 mu1 : K) (h : Gen.HS2_n2_p1_path c c3 fn f0 f1 K0 K1 mu0 mu1)
    (hf0 : 0 ≤ f0) (hf1 : 0 ≤ f1) (h1 : f0 + f1 = 1)
    (hK0 : 0 < K0) (hK1 : 0 < K1) (hmu0 : 0 < mu0) (hmu1 : 0 < mu1) :
    ∃ KL GL KU GU, Gen.HS2_n2_p1_all c c3 fn f0 f1 K0 K1 mu0 mu1 = [KL, GL, KU, GU] ∧
      reuss ![f0, f1] ![K0, K1] ≤ KL ∧ KL ≤ KU ∧ KU ≤ voigt ![f0, f1] ![K0, K1] ∧
      reuss ![f0, f1] ![mu0, mu1] ≤ GL ∧ GL ≤ GU ∧ GU ≤ voigt ![f0, f1] ![mu0, mu1] := by
  obtain ⟨ha, hc, hb, hd⟩ := HS2_n2_p1_selected c c3 fn f0 f1 K0 K1 mu0 mu1 h
  have hF := all_fin2 (P := fun x : K => 0 ≤ x) hf0 hf1
  have hS : ∑ i, ![f0, f1] i = 1 := by rw [sum_fin2]; exact h1
  have hKp := all_fin2 (P := fun x : K => 0 < x) hK0 hK1
  have hMp := all_fin2 (P := fun x : K => 0 < x) hmu0 hmu1
  obtain ⟨k1, k2, k3⟩ := bounds_chain ![f0, f1] ![K0, K1] hF hS hKp (s := Ks2 mu1) (t := Ks2 mu0) (Ks2_nonneg hmu1) (Ks2_mono (by hs_pick ha))
  obtain ⟨g1, g2, g3⟩ := bounds_chain ![f0, f1] ![mu0, mu1] hF hS hMp (s := H2 K1 mu1) (t := H2 K0 mu0) (H2_pos hK1 hmu1).le (by hs_pick hb)
  exact ⟨_, _, _, _, HS2_n2_p1_formula c c3 fn f0 f1 K0 K1 mu0 mu1, k1, k2, k3, g1, g2, g3⟩

/-- `HS2_n3_p0` (dimension 2, 3 phases; trace in which phase 1 has the smallest and phase 2 the largest shear
modulus, phase 0 the smallest and phase 2 the largest `H`): the four returned moduli are the
Hashin–Shtrikman forms with these reference moduli. -/
theorem HS2_n3_p0_formula (f0 f1 f2 K0 K1 K2 mu0 mu1 mu2 : K) :
    Gen.HS2_n3_p0_all c c3 fn f0 f1 f2 K0 K1 K2 mu0 mu1 mu2 =
      [hs ![f0, f1, f2] ![K0, K1, K2] (Ks2 mu1), hs ![f0, f1, f2] ![mu0, mu1, mu2] (H2 K0 mu0),
       hs ![f0, f1, f2] ![K0, K1, K2] (Ks2 mu2), hs ![f0, f1, f2] ![mu0, mu1, mu2] (H2 K2 mu2)] := by
  hs_formula Gen.HS2_n3_p0_all, hs_fin3
/-- on that path the selected phases are indeed the extreme ones -/
theorem HS2_n3_p0_selected (f0 f1 f2 K0 K1 K2 mu0 mu1 mu2 : K) (h : Gen.HS2_n3_p0_path c c3 fn f0 f1 f2 K0 K1 K2 mu0 mu1 mu2) :
    (mu1 ≤ mu0 ∧ mu1 ≤ mu1 ∧ mu1 ≤ mu2) ∧ (mu0 ≤ mu2 ∧ mu1 ≤ mu2 ∧ mu2 ≤ mu2) ∧
    (H2 K0 mu0 ≤ H2 K0 mu0 ∧ H2 K0 mu0 ≤ H2 K1 mu1 ∧ H2 K0 mu0 ≤ H2 K2 mu2) ∧ (H2 K0 mu0 ≤ H2 K2 mu2 ∧ H2 K1 mu1 ≤ H2 K2 mu2 ∧ H2 K2 mu2 ≤ H2 K2 mu2) := by
  hs_selected Gen.HS2_n3_p0_path, h
/-- Reuss ≤ HS⁻ ≤ HS⁺ ≤ Voigt for the bulk and the shear modulus returned on that path -/
theorem HS2_n3_p0_ordered (f0 f1 f2 K0 K1 K2 mu0 mu1 mu2 : K) (h : Gen.HS2_n3_p0_path c c3 fn f0 f1 f2 K0 K1 K2 mu0 mu1 mu2)
    (hf0 : 0 ≤ f0) (hf1 : 0 ≤ f1) (hf2 : 0 ≤ f2) (h1 : f0 + f1 + f2 = 1)
    (hK0 : 0 < K0) (hK1 : 0 < K1) (hK2 : 0 < K2) (hmu0 : 0 < mu0) (hmu1 : 0 < mu1) (hmu2 : 0 < mu2) :
    ∃ KL GL KU GU, Gen.HS2_n3_p0_all c c3 fn f0 f1 f2 K0 K1 K2 mu0 mu1 mu2 = [KL, GL, KU, GU] ∧
      reuss ![f0, f1, f2] ![K0, K1, K2] ≤ KL ∧ KL ≤ KU ∧ KU ≤ voigt ![f0, f1, f2] ![K0, K1, K2] ∧
      reuss ![f0, f1, f2] ![mu0, mu1, mu2] ≤ GL ∧ GL ≤ GU ∧ GU ≤ voigt ![f0, f1, f2] ![mu0, mu1, mu2] := by
  obtain ⟨ha, hc, hb, hd⟩ := HS2_n3_p0_selected c c3 fn f0 f1 f2 K0 K1 K2 mu0 mu1 mu2 h
  have hF := all_fin3 (P := fun x : K => 0 ≤ x) hf0 hf1 hf2
  have hS : ∑ i, ![f0, f1, f2] i = 1 := by rw [sum_fin3]; exact h1
  have hKp := all_fin3 (P := fun x : K => 0 < x) hK0 hK1 hK2
  have hMp := all_fin3 (P := fun x : K => 0 < x) hmu0 hmu1 hmu2
  obtain ⟨k1, k2, k3⟩ := bounds_chain ![f0, f1, f2] ![K0, K1, K2] hF hS hKp (s := Ks2 mu1) (t := Ks2 mu2) (Ks2_nonneg hmu1) (Ks2_mono (by hs_pick ha))
  obtain ⟨g1, g2, g3⟩ := bounds_chain ![f0, f1, f2] ![mu0, mu1, mu2] hF hS hMp (s := H2 K0 mu0) (t := H2 K2 mu2) (H2_pos hK0 hmu0).le (by hs_pick hb)
  exact ⟨_, _, _, _, HS2_n3_p0_formula c c3 fn f0 f1 f2 K0 K1 K2 mu0 mu1 mu2, k1, k2, k3, g1, g2, g3⟩


end TfelVerif.C25.Props
