/-
  C25 — property theorems, part 3 (Voigt bound; Eshelby, Hill, localisation tensors; tensorial dilute scheme): the TRACED code (definitions of `Gen.lean`, regenerated on every run
  from /repo by harness/C25/trace_{a,b}.cxx + checks/C25.py) against the reference definitions of Spec.lean.

  `K` is any linearly ordered field. `Gen.<unit>_all` is the list of all outputs of a traced unit,
  `Gen.<unit>_path` the branch outcomes under which that trace was taken (concolic mode).
  General-n theorems (any number of phases) are in PropsGen.lean.
-/
import TfelVerif.C25.Gen
import TfelVerif.C25.PropsGen

namespace TfelVerif.C25.Props
open Finset TfelVerif TfelVerif.C25 TfelVerif.C25.Spec TfelVerif.C25.Lemmas
set_option linter.unusedVariables false
set_option linter.unusedSectionVars false
set_option linter.unusedSimpArgs false
set_option linter.unusedTactic false
set_option linter.unreachableTactic false

variable {K : Type} [Field K] [LinearOrder K] [IsStrictOrderedRing K] (c c3 : K) (fn : Fns K)

/-! ## Voigt bound (`computeVoigtStiffness`), isotropic phases built by `computeIsotropicStiffnessTensor` -/

/-- componentwise comparison of a traced tensor with a closed form, by `ring` -/
macro "tensor_ring" d:term : tactic => `(tactic| (
  simp only [$d:term, iso6, voigt_fin2, voigt_fin3, voigt_fin4, voigt_fin5, List.cons.injEq, and_true]
  repeat' apply And.intro
  all_goals ring))
/-- isotropic pattern: only the four distinct entries are compared (by `ring`) -/
macro "iso_ring" d:term : tactic => `(tactic| (
  simp only [$d:term, voigt_fin2, voigt_fin3, voigt_fin4, voigt_fin5]
  refine iso6_of_pattern _ _ _ _ _ _ ?_ ?_ ?_ ?_ <;> ring))
/-- isotropic pattern with denominators -/
macro "iso_field" : tactic => `(tactic| (
  refine iso6_of_pattern _ _ _ _ _ _ ?_ ?_ ?_ ?_ <;> first | trivial | ring1 | (field_simp; ring1) | field_simp))
/-- same with denominators (the `≠ 0` / positivity facts must be in the context) -/
macro "tensor_field" : tactic => `(tactic| (
  repeat' apply And.intro
  all_goals first | trivial | ring1 | (field_simp; ring1) | field_simp))

/-- arbitrary (anisotropic) phase tensors, 2D storage: the Voigt estimate is the componentwise weighted sum -/
theorem VoigtGen2_n3 (f0 f1 f2 a00 a01 a02 a03 a10 a11 a12 a13 a20 a21 a22 a23 a30 a31 a32 a33 b00 b01 b02 b03 b10 b11 b12 b13 b20 b21 b22 b23 b30 b31 b32 b33 d00 d01 d02 d03 d10 d11 d12 d13 d20 d21 d22 d23 d30 d31 d32 d33 : K) :
    Gen.VoigtGen2_n3_all c c3 fn f0 f1 f2 a00 a01 a02 a03 a10 a11 a12 a13 a20 a21 a22 a23 a30 a31 a32 a33 b00 b01 b02 b03 b10 b11 b12 b13 b20 b21 b22 b23 b30 b31 b32 b33 d00 d01 d02 d03 d10 d11 d12 d13 d20 d21 d22 d23 d30 d31 d32 d33 =
      [f0 * a00 + f1 * b00 + f2 * d00,
       f0 * a01 + f1 * b01 + f2 * d01,
       f0 * a02 + f1 * b02 + f2 * d02,
       f0 * a03 + f1 * b03 + f2 * d03,
       f0 * a10 + f1 * b10 + f2 * d10,
       f0 * a11 + f1 * b11 + f2 * d11,
       f0 * a12 + f1 * b12 + f2 * d12,
       f0 * a13 + f1 * b13 + f2 * d13,
       f0 * a20 + f1 * b20 + f2 * d20,
       f0 * a21 + f1 * b21 + f2 * d21,
       f0 * a22 + f1 * b22 + f2 * d22,
       f0 * a23 + f1 * b23 + f2 * d23,
       f0 * a30 + f1 * b30 + f2 * d30,
       f0 * a31 + f1 * b31 + f2 * d31,
       f0 * a32 + f1 * b32 + f2 * d32,
       f0 * a33 + f1 * b33 + f2 * d33] := by
  tensor_ring Gen.VoigtGen2_n3_all

end TfelVerif.C25.Props
