import TfelVerif.C25.Gen
import TfelVerif.C25.PropsGen
namespace TfelVerif.C25.Props
open Finset TfelVerif TfelVerif.C25 TfelVerif.C25.Spec TfelVerif.C25.Lemmas
variable {K : Type} [Field K] [LinearOrder K] [IsStrictOrderedRing K] (c c3 : K) (fn : Fns K)

theorem SphMT_KG (K0 G0 f K1 G1 : K) (hK0 : 0 < K0) (hG0 : 0 < G0) (hK1 : 0 < K1) (hG1 : 0 < G1)
    (hf0 : 0 ≤ f) (hf1 : f ≤ 1) :
    Gen.SphMT_KG_all c c3 fn K0 G0 f K1 G1 =
      [hs ![1 - f, f] ![K0, K1] (Ks3 G0), hs ![1 - f, f] ![G0, G1] (H3 K0 G0)] := by
  unfold Gen.SphMT_KG_all
  extract_lets +preserveBinderNames
  have e29 : n29 = K0 := by
    simp only [n29, n28, n27, n26, n16, n15, n13, n12, n11, n9, n8, n6]
    field_simp
    ring
  have e31 : n31 = G0 := by
    simp only [n31, n30, n16, n15, n13, n12, n11, n9, n8, n6]
    field_simp
    ring
  sorry
end TfelVerif.C25.Props
