import TfelVerif.C25.Gen
import TfelVerif.C25.PropsGen
namespace TfelVerif.C25.Props
open Finset TfelVerif TfelVerif.C25 TfelVerif.C25.Spec TfelVerif.C25.Lemmas
variable {K : Type} [Field K] [LinearOrder K] [IsStrictOrderedRing K] (c c3 : K) (fn : Fns K)
set_option linter.unusedVariables false
set_option linter.unusedSimpArgs false
set_option linter.unusedTactic false
set_option linter.unreachableTactic false
set_option linter.unusedSectionVars false
macro "tensor_field" : tactic => `(tactic| (
  repeat' apply And.intro
  all_goals first | trivial | ring1 | (field_simp; ring1) | field_simp))
--SECTION
/-! ## tensorial dilute scheme (`computeDiluteScheme`) -/

/-- with the localisation tensor of a sphere: `3 K_dil J + 2 G_dil K` -/
theorem DiluteT_sph (K0 G0 f K1 G1 : K) (hK0 : 0 < K0) (hG0 : 0 < G0) (hK1 : 0 < K1) (hG1 : 0 < G1) :
    Gen.DiluteT_sph_all c c3 fn (youngOf K0 G0) (nuOf K0 G0) f (youngOf K1 G1) (nuOf K1 G1)
      = iso6 (3 * (K0 + f * (K1 - K0) * sphAk K0 G0 K1)) (2 * (G0 + f * (G1 - G0) * sphAg K0 G0 G1)) := by
  simp only [Gen.DiluteT_sph_all, kC_of hK0 hG0, gC_of hK0 hG0, kC_of hK1 hG1, gC_of hK1 hG1,
    kaS9 hK0 hG0, muS4 hK0 hG0, ka3 hK0 hG0 hK1, mu2 hK0 hG0 hG1,
    lamC_of hK0 hG0, muC_of hK0 hG0, lamC_of hK1 hG1, muC_of hK1 hG1, iso6, List.cons.injEq, and_true,
    mul_zero, zero_mul, add_zero, zero_add, mul_one]
  tensor_field
/-- zero inclusion fraction, arbitrary localisation tensor (36 free components): the matrix stiffness -/
theorem DiluteT_gen_zero (E0 nu0 Ei nui a00 a01 a02 a03 a04 a05 a10 a11 a12 a13 a14 a15 a20 a21 a22 a23 a24 a25 a30 a31 a32 a33 a34 a35 a40 a41 a42 a43 a44 a45 a50 a51 a52 a53 a54 a55 : K) :
    Gen.DiluteT_gen_all c c3 fn E0 nu0 0 Ei nui a00 a01 a02 a03 a04 a05 a10 a11 a12 a13 a14 a15 a20 a21 a22 a23 a24 a25 a30 a31 a32 a33 a34 a35 a40 a41 a42 a43 a44 a45 a50 a51 a52 a53 a54 a55
      = Gen.IsoStiff_EN_all c c3 fn E0 nu0 := by
  simp only [Gen.DiluteT_gen_all, Gen.IsoStiff_EN_all, zero_mul, add_zero, List.cons.injEq, and_true]
  tensor_field

/-! ## plane strain: Eshelby tensors of a disk and of an ellipse -/

theorem DiskEshelby (nu : K) (h : 1 - nu ≠ 0) : Gen.DiskEshelby_all c c3 fn nu = mura nu 1 := by
  simp only [Gen.DiskEshelby_all, mura, List.cons.injEq, and_true]
  tensor_field
theorem EllipseEshelby_e1 (nu : K) (h : 1 - nu ≠ 0) : Gen.EllipseEshelby_e1_all c c3 fn nu = mura nu 1 := by
  simp only [Gen.EllipseEshelby_e1_all, mura, List.cons.injEq, and_true]
  tensor_field
/-- aspect ratio `e > 1` (the path of this trace): Mura's tensor for semi-axes `1 : 1/e`, long axis first -/
theorem EllipseEshelby_gt (nu e : K) (h : 1 - nu ≠ 0) (he : 0 < e) :
    Gen.EllipseEshelby_gt_all c c3 fn nu e = mura nu (1 / e) := by
  have he' := he.ne'
  have h1 : (1 : K) + e ≠ 0 := by positivity
  have h2 : e + 1 ≠ 0 := by positivity
  simp only [Gen.EllipseEshelby_gt_all, mura, List.cons.injEq, and_true]
  tensor_field
/-- aspect ratio `e ≤ 1` (the path of this trace): Mura's tensor for semi-axes `1 : e`, long axis first -/
theorem EllipseEshelby_lt (nu e : K) (h : 1 - nu ≠ 0) (he : 0 < e) :
    Gen.EllipseEshelby_lt_all c c3 fn nu e = mura nu e := by
  have he' := he.ne'
  have h1 : (1 : K) + e ≠ 0 := by positivity
  have h2 : e + 1 ≠ 0 := by positivity
  simp only [Gen.EllipseEshelby_lt_all, mura, List.cons.injEq, and_true]
  tensor_field
/-- the two branches are consistent under `e ↔ 1/e` -/
theorem EllipseEshelby_inv (nu e : K) (h : 1 - nu ≠ 0) (he : 0 < e) :
    Gen.EllipseEshelby_lt_all c c3 fn nu e = Gen.EllipseEshelby_gt_all c c3 fn nu (1 / e) := by
  rw [EllipseEshelby_lt c c3 fn nu e h he, EllipseEshelby_gt c c3 fn nu (1 / e) h (by positivity), one_div_one_div]
/-- the recorded paths are the expected ones -/
theorem EllipseEshelby_paths (nu e : K) :
    (Gen.EllipseEshelby_gt_path c c3 fn nu e → 1 < e) ∧ (Gen.EllipseEshelby_lt_path c c3 fn nu e → e ≤ 1) := by
  constructor
  · intro h; simp only [Gen.EllipseEshelby_gt_path] at h; casesm* _ ∧ _; assumption
  · intro h; simp only [Gen.EllipseEshelby_lt_path, not_lt, gt_iff_lt] at h; casesm* _ ∧ _; assumption

/-! ## Mori–Tanaka = Hashin–Shtrikman -/
--MTHS
end TfelVerif.C25.Props
