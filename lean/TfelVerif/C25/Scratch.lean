import TfelVerif.C25.Gen
import TfelVerif.C25.PropsGen
namespace TfelVerif.C25.Props
open Finset TfelVerif TfelVerif.C25 TfelVerif.C25.Spec TfelVerif.C25.Lemmas
variable {K : Type} [Field K] [LinearOrder K] [IsStrictOrderedRing K] (c c3 : K) (fn : Fns K)

macro "tensor_field" : tactic => `(tactic| (
  repeat' apply And.intro
  all_goals first | ring | (field_simp; ring) | field_simp))

theorem SphLoc (K0 G0 K1 G1 : K) (hK0 : 0 < K0) (hG0 : 0 < G0) (hK1 : 0 < K1) (hG1 : 0 < G1) :
    Gen.SphLoc_all c c3 fn (youngOf K0 G0) (nuOf K0 G0) (youngOf K1 G1) (nuOf K1 G1)
      = iso6 (sphAk K0 G0 K1) (sphAg K0 G0 G1) := by
  simp only [Gen.SphLoc_all, kC_of hK0 hG0, gC_of hK0 hG0, kC_of hK1 hG1, gC_of hK1 hG1,
    kaS9 hK0 hG0, muS4 hK0 hG0, ka3 hK0 hG0 hK1, mu2 hK0 hG0 hG1, iso6, List.cons.injEq, and_true]
  have hK0' := hK0.ne'; have hG0' := hG0.ne'
  tensor_field
end TfelVerif.C25.Props
