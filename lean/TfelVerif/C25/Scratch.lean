import TfelVerif.C25.Gen
import TfelVerif.C25.PropsGen
namespace TfelVerif.C25.Props
open Finset TfelVerif TfelVerif.C25 TfelVerif.C25.Spec TfelVerif.C25.Lemmas
variable {K : Type} [Field K] [LinearOrder K] [IsStrictOrderedRing K] (c c3 : K) (fn : Fns K)

/-- componentwise comparison of a traced 6×6 (or 4×4) tensor with a closed form, by `ring` -/
macro "tensor_ring" d:term : tactic => `(tactic| (
  simp only [$d:term, iso6, voigt_fin2, voigt_fin3, voigt_fin4, voigt_fin5, List.cons.injEq, and_true]
  repeat' apply And.intro
  all_goals ring))

theorem Voigt3_n2 (f0 f1 K0 K1 G0 G1 : K) :
    Gen.Voigt3_n2_all c c3 fn f0 f1 K0 K1 G0 G1
      = iso6 (3 * voigt ![f0, f1] ![K0, K1]) (2 * voigt ![f0, f1] ![G0, G1]) := by
  tensor_ring Gen.Voigt3_n2_all
theorem Voigt3_n5 (f0 f1 f2 f3 f4 K0 K1 K2 K3 K4 G0 G1 G2 G3 G4 : K) :
    Gen.Voigt3_n5_all c c3 fn f0 f1 f2 f3 f4 K0 K1 K2 K3 K4 G0 G1 G2 G3 G4
      = iso6 (3 * voigt ![f0, f1, f2, f3, f4] ![K0, K1, K2, K3, K4]) (2 * voigt ![f0, f1, f2, f3, f4] ![G0, G1, G2, G3, G4]) := by
  tensor_ring Gen.Voigt3_n5_all
theorem SphEshelby (nu : K) (h : 1 - nu ≠ 0):
    Gen.SphEshelby_all c c3 fn nu = iso6 ((1 + nu) / (3 * (1 - nu))) (2 * (4 - 5 * nu) / (15 * (1 - nu))) := by
  simp only [Gen.SphEshelby_all, iso6, List.cons.injEq, and_true]
  repeat' apply And.intro
  all_goals (field_simp; ring)
end TfelVerif.C25.Props
