/-
  C25 — reference definitions (hand-written, independent of the code).

  `ι` is any finite index type (the phases), `𝕜` a linearly ordered field.
  * `voigt f k = Σ fᵢ kᵢ`, `reuss f k = (Σ fᵢ / kᵢ)⁻¹`,
  * `hs f k s = (Σ fᵢ / (kᵢ + s))⁻¹ - s` — the Hashin–Shtrikman / Walpole form with reference modulus `s`
    (`s = 0`: Reuss; `s → ∞`: Voigt),
  * `H3 K μ = μ (9K + 8μ) / (6 (K + 2μ))`, `H2 K μ = μ K / (K + 2μ)` — the shear reference moduli in 3D / plane strain,
  * `iso6 x y` — the 36 Mandel components (row major) of `x J + y K` (J, K the spherical / deviatoric projectors),
  * `mura ν t` — plane-strain Eshelby tensor of an elliptic cylinder with semi-axes 1 : t (Mura), 4×4 Mandel storage.
-/
import Mathlib.Algebra.BigOperators.Field
import Mathlib.Algebra.Order.Field.Basic

namespace TfelVerif.C25.Spec
open Finset

variable {ι : Type} [Fintype ι] {𝕜 : Type} [Field 𝕜]

def voigt (f k : ι → 𝕜) : 𝕜 := ∑ i, f i * k i
def reuss (f k : ι → 𝕜) : 𝕜 := (∑ i, f i / k i)⁻¹
def hs (f k : ι → 𝕜) (s : 𝕜) : 𝕜 := (∑ i, f i / (k i + s))⁻¹ - s

def H3 (K μ : 𝕜) : 𝕜 := μ * (9 * K + 8 * μ) / (6 * (K + 2 * μ))
def H2 (K μ : 𝕜) : 𝕜 := μ * K / (K + 2 * μ)
/-- bulk reference modulus of the Hashin–Shtrikman bounds in dimension 3 / plane strain -/
def Ks3 (μ : 𝕜) : 𝕜 := 4 / 3 * μ
def Ks2 (μ : 𝕜) : 𝕜 := μ

/-- `x J + y K`, 6×6 Mandel storage, row major -/
def iso6 (x y : 𝕜) : List 𝕜 :=
  let d := (x + 2 * y) / 3
  let o := (x - y) / 3
  [d, o, o, 0, 0, 0,
   o, d, o, 0, 0, 0,
   o, o, d, 0, 0, 0,
   0, 0, 0, y, 0, 0,
   0, 0, 0, 0, y, 0,
   0, 0, 0, 0, 0, y]

/-- Young modulus / Poisson ratio ↔ bulk / shear moduli -/
def youngOf (K G : 𝕜) : 𝕜 := 9 * K * G / (3 * K + G)
def nuOf (K G : 𝕜) : 𝕜 := (3 * K - 2 * G) / (2 * (3 * K + G))

/-- bulk / shear modulus from Young modulus and Poisson ratio -/
def kOf (E ν : 𝕜) : 𝕜 := E / (3 * (1 - 2 * ν))
def gOf (E ν : 𝕜) : 𝕜 := E / (2 * (1 + ν))

/-- strain localisation factors of a spherical inclusion (Kᵢ, Gᵢ) in a matrix (K₀, G₀) -/
def sphAk (K0 G0 Ki : 𝕜) : 𝕜 := (K0 + Ks3 G0) / (Ki + Ks3 G0)
def sphAg (K0 G0 Gi : 𝕜) : 𝕜 := (G0 + H3 K0 G0) / (Gi + H3 K0 G0)

/-- plane-strain Eshelby tensor, elliptic cylinder with semi-axes (axis 1 : axis 2) = 1 : t -/
def mura (ν t : 𝕜) : List 𝕜 :=
  let c := 1 / (2 * (1 - ν))
  let s := 1 + t
  let S1111 := c * ((t * t + 2 * t) / s ^ 2 + (1 - 2 * ν) * t / s)
  let S2222 := c * ((1 + 2 * t) / s ^ 2 + (1 - 2 * ν) / s)
  let S1122 := c * (t * t / s ^ 2 - (1 - 2 * ν) * t / s)
  let S2211 := c * (1 / s ^ 2 - (1 - 2 * ν) / s)
  let S1212 := c * ((1 + t * t) / (2 * s ^ 2) + (1 - 2 * ν) / 2)
  let S1133 := c * (2 * ν * t / s)
  let S2233 := c * (2 * ν / s)
  [S1111, S1122, S1133, 0,
   S2211, S2222, S2233, 0,
   0, 0, 0, 0,
   0, 0, 0, 2 * S1212]

end TfelVerif.C25.Spec
