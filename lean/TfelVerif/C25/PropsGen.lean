/-
  C25 — property theorems, part 1: the bounds for ANY number of phases (any finite index type `ι`),
  over any linearly ordered field, on the reference definitions of Spec.lean.
  Hypotheses: fractions `f i ≥ 0`, `Σ f = 1`, moduli `k i > 0`, reference moduli `0 ≤ s ≤ t`.
-/
import Mathlib.Tactic.FinCases
import Mathlib.Tactic.NormNum
import Mathlib.Algebra.Order.Field.Rat
import Mathlib.Data.Fin.VecNotation
import Mathlib.Algebra.BigOperators.Fin
import TfelVerif.C25.Lemmas

namespace TfelVerif.C25.Props
open Finset TfelVerif.C25.Spec TfelVerif.C25.Lemmas

variable {ι : Type} [Fintype ι] {𝕜 : Type} [Field 𝕜] [LinearOrder 𝕜] [IsStrictOrderedRing 𝕜]
variable (f k : ι → 𝕜)

omit [LinearOrder 𝕜] [IsStrictOrderedRing 𝕜] in
/-- the Reuss estimate is the Hashin–Shtrikman form with zero reference modulus -/
theorem hs_zero : hs f k 0 = reuss f k := by
  simp [hs, reuss]

/-- Hashin–Shtrikman form ≤ Voigt, for every reference modulus `s ≥ 0` (weighted HM ≤ AM) -/
theorem hs_le_voigt (hf : ∀ i, 0 ≤ f i) (h1 : ∑ i, f i = 1) (hk : ∀ i, 0 < k i) {s : 𝕜} (hs0 : 0 ≤ s) :
    hs f k s ≤ voigt f k := by
  have hx : ∀ i, 0 < k i + s := fun i => add_pos_of_pos_of_nonneg (hk i) hs0
  have hB := sum_div_pos f (fun i => k i + s) hf h1 hx
  have h := one_le_sum_mul_sum_div f (fun i => k i + s) hf h1 hx
  have hA : ∑ i, f i * (k i + s) = voigt f k + s := by
    simp only [mul_add, sum_add_distrib, ← sum_mul, h1, one_mul, voigt]
  rw [hA] at h
  have : (∑ i, f i / (k i + s))⁻¹ ≤ voigt f k + s := by
    rw [inv_le_iff_one_le_mul₀ hB]; linarith [h]
  unfold hs; linarith

/-- Reuss ≤ Voigt -/
theorem reuss_le_voigt (hf : ∀ i, 0 ≤ f i) (h1 : ∑ i, f i = 1) (hk : ∀ i, 0 < k i) :
    reuss f k ≤ voigt f k := by
  rw [← hs_zero]; exact hs_le_voigt f k hf h1 hk le_rfl

/-- the Hashin–Shtrikman form is monotone in the reference modulus -/
theorem hs_mono (hf : ∀ i, 0 ≤ f i) (h1 : ∑ i, f i = 1) (hk : ∀ i, 0 < k i) {s t : 𝕜}
    (hs0 : 0 ≤ s) (hst : s ≤ t) : hs f k s ≤ hs f k t := by
  have hxs : ∀ i, 0 < k i + s := fun i => add_pos_of_pos_of_nonneg (hk i) hs0
  have hxt : ∀ i, 0 < k i + t := fun i => add_pos_of_pos_of_nonneg (hk i) (hs0.trans hst)
  have hA := sum_div_pos f (fun i => k i + s) hf h1 hxs
  have hB := sum_div_pos f (fun i => k i + t) hf h1 hxt
  set A := ∑ i, f i / (k i + s) with hAdef
  set B := ∑ i, f i / (k i + t) with hBdef
  -- Chebyshev with a = 1/(k+s), b = 1/(k+t)
  have hc := chebyshev f (fun i => (k i + s)⁻¹) (fun i => (k i + t)⁻¹) hf (by
    intro i j
    have h1 := hxs i; have h2 := hxs j; have h3 := hxt i; have h4 := hxt j
    have : ((k i + s)⁻¹ - (k j + s)⁻¹) * ((k i + t)⁻¹ - (k j + t)⁻¹)
        = (k i - k j) ^ 2 / ((k i + s) * (k j + s) * (k i + t) * (k j + t)) := by
      field_simp; ring
    rw [this]; positivity)
  rw [h1, one_mul] at hc
  have eA : ∑ i, f i * (k i + s)⁻¹ = A := sum_congr rfl fun i _ => (div_eq_mul_inv _ _).symm
  have eB : ∑ i, f i * (k i + t)⁻¹ = B := sum_congr rfl fun i _ => (div_eq_mul_inv _ _).symm
  rw [eA, eB] at hc
  -- A - B = (t - s) Σ f a b
  have hd : A - B = (t - s) * ∑ i, f i * (k i + s)⁻¹ * (k i + t)⁻¹ := by
    rw [hAdef, hBdef, ← sum_sub_distrib, mul_sum]
    refine sum_congr rfl fun i _ => ?_
    have h1 := (hxs i).ne'; have h3 := (hxt i).ne'
    field_simp; ring
  have hts : 0 ≤ t - s := sub_nonneg.2 hst
  have hAB : (t - s) * (A * B) ≤ A - B := by
    rw [hd]; exact mul_le_mul_of_nonneg_left hc hts
  have hinv : B⁻¹ - A⁻¹ = (A - B) / (A * B) := by
    have := hA.ne'; have := hB.ne'; field_simp
  have : t - s ≤ B⁻¹ - A⁻¹ := by
    rw [hinv, le_div_iff₀ (mul_pos hA hB)]; exact hAB
  unfold hs; linarith

/-- the full chain Reuss ≤ HS(s) ≤ HS(t) ≤ Voigt for reference moduli `0 ≤ s ≤ t` -/
theorem bounds_chain (hf : ∀ i, 0 ≤ f i) (h1 : ∑ i, f i = 1) (hk : ∀ i, 0 < k i) {s t : 𝕜}
    (hs0 : 0 ≤ s) (hst : s ≤ t) :
    reuss f k ≤ hs f k s ∧ hs f k s ≤ hs f k t ∧ hs f k t ≤ voigt f k :=
  ⟨by rw [← hs_zero]; exact hs_mono f k hf h1 hk le_rfl hs0,
   hs_mono f k hf h1 hk hs0 hst, hs_le_voigt f k hf h1 hk (hs0.trans hst)⟩

/-- the Reuss estimate, hence every Hashin–Shtrikman form with `s ≥ 0`, is positive -/
theorem hs_pos (hf : ∀ i, 0 ≤ f i) (h1 : ∑ i, f i = 1) (hk : ∀ i, 0 < k i) {s : 𝕜} (hs0 : 0 ≤ s) :
    0 < hs f k s := by
  have hr : 0 < reuss f k := inv_pos.2 (sum_div_pos f k hf h1 hk)
  exact hr.trans_le (by rw [← hs_zero]; exact hs_mono f k hf h1 hk le_rfl hs0)

/-- non-vacuity: two phases over ℚ -/
example : ∃ (f k : Fin 2 → ℚ), (∀ i, 0 ≤ f i) ∧ ∑ i, f i = 1 ∧ (∀ i, 0 < k i) ∧ reuss f k < voigt f k :=
  ⟨![1/2, 1/2], ![1, 3], by intro i; fin_cases i <;> simp, by simp [Fin.sum_univ_two]; norm_num,
   by intro i; fin_cases i <;> simp, by simp [reuss, voigt, Fin.sum_univ_two]; norm_num⟩

end TfelVerif.C25.Props
