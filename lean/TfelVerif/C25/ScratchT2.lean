/-
  C25 — property theorems, part 3 (Voigt bound; Eshelby, Hill, localisation tensors; tensorial dilute scheme): the TRACED code (definitions of `Gen.lean`, regenerated on every run
  from /repo by harness/C25/trace_{a,b}.cxx + checks/C25.py) against the reference definitions of Spec.lean.

  `K` is any linearly ordered field. `Gen.<unit>_all` is the list of all outputs of a traced unit,
  `Gen.<unit>_path` the branch outcomes under which that trace was taken (concolic mode).
  General-n theorems (any number of phases) are in PropsGen.lean.
-/
import TfelVerif.C25.Gen
import TfelVerif.C25.PropsGen

namespace TfelVerif.C25.Props
open Finset TfelVerif TfelVerif.C25 TfelVerif.C25.Spec TfelVerif.C25.Lemmas
set_option linter.unusedVariables false
set_option linter.unusedSectionVars false
set_option linter.unusedSimpArgs false
set_option linter.unusedTactic false
set_option linter.unreachableTactic false

variable {K : Type} [Field K] [LinearOrder K] [IsStrictOrderedRing K] (c c3 : K) (fn : Fns K)

/-! ## Voigt bound (`computeVoigtStiffness`), isotropic phases built by `computeIsotropicStiffnessTensor` -/

/-- componentwise comparison of a traced tensor with a closed form, by `ring` -/
macro "tensor_ring" d:term : tactic => `(tactic| (
  simp only [$d:term, iso6, voigt_fin2, voigt_fin3, voigt_fin4, voigt_fin5, List.cons.injEq, and_true]
  repeat' apply And.intro
  all_goals ring))
/-- isotropic pattern: only the four distinct entries are compared (by `ring`) -/
macro "iso_ring" d:term : tactic => `(tactic| (
  simp only [$d:term, voigt_fin2, voigt_fin3, voigt_fin4, voigt_fin5]
  refine iso6_of_pattern _ _ _ _ _ _ ?_ ?_ ?_ ?_ <;> ring))
/-- isotropic pattern with denominators -/
macro "iso_field" : tactic => `(tactic| (
  refine iso6_of_pattern _ _ _ _ _ _ ?_ ?_ ?_ ?_ <;> first | trivial | ring1 | (field_simp; ring1) | field_simp))
/-- same with denominators (the `≠ 0` / positivity facts must be in the context) -/
macro "tensor_field" : tactic => `(tactic| (
  repeat' apply And.intro
  all_goals first | trivial | ring1 | (field_simp; ring1) | field_simp))

/-- `computeIsotropicStiffnessTensor(KGModuli)` is `3K J + 2G K` -/
theorem IsoStiff_KG (K0 G0 : K) : Gen.IsoStiff_KG_all c c3 fn K0 G0 = iso6 (3 * K0) (2 * G0) := by
  iso_ring Gen.IsoStiff_KG_all
/-- `computeIsotropicStiffnessTensorII` on (E, ν) = (youngOf K G, nuOf K G) is `3K J + 2G K` -/
theorem IsoStiff_EN (K0 G0 : K) (hK0 : 0 < K0) (hG0 : 0 < G0) :
    Gen.IsoStiff_EN_all c c3 fn (youngOf K0 G0) (nuOf K0 G0) = iso6 (3 * K0) (2 * G0) := by
  simp only [Gen.IsoStiff_EN_all, lamC_of hK0 hG0, muC_of hK0 hG0]
  iso_field

end TfelVerif.C25.Props
