/-
  C25 — property theorems, part 3 (Voigt bound; Eshelby, Hill, localisation tensors; tensorial dilute scheme): the TRACED code (definitions of `Gen.lean`, regenerated on every run
  from /repo by harness/C25/trace_{a,b}.cxx + checks/C25.py) against the reference definitions of Spec.lean.

  `K` is any linearly ordered field. `Gen.<unit>_all` is the list of all outputs of a traced unit,
  `Gen.<unit>_path` the branch outcomes under which that trace was taken (concolic mode).
  General-n theorems (any number of phases) are in PropsGen.lean.
-/
import TfelVerif.C25.Gen
import TfelVerif.C25.PropsGen

namespace TfelVerif.C25.Props
open Finset TfelVerif TfelVerif.C25 TfelVerif.C25.Spec TfelVerif.C25.Lemmas
set_option linter.unusedVariables false
set_option linter.unusedSectionVars false
set_option linter.unusedSimpArgs false
set_option linter.unusedTactic false
set_option linter.unreachableTactic false

variable {K : Type} [Field K] [LinearOrder K] [IsStrictOrderedRing K] (c c3 : K) (fn : Fns K)

/-! ## Voigt bound (`computeVoigtStiffness`), isotropic phases built by `computeIsotropicStiffnessTensor` -/

/-- componentwise comparison of a traced tensor with a closed form, by `ring` -/
macro "tensor_ring" d:term : tactic => `(tactic| (
  simp only [$d:term, iso6, voigt_fin2, voigt_fin3, voigt_fin4, voigt_fin5, List.cons.injEq, and_true]
  repeat' apply And.intro
  all_goals ring))
/-- isotropic pattern: only the four distinct entries are compared (by `ring`) -/
macro "iso_ring" d:term : tactic => `(tactic| (
  simp only [$d:term, voigt_fin2, voigt_fin3, voigt_fin4, voigt_fin5]
  refine iso6_of_pattern _ _ _ _ _ _ ?_ ?_ ?_ ?_ <;> ring))
/-- isotropic pattern with denominators -/
macro "iso_field" : tactic => `(tactic| (
  refine iso6_of_pattern _ _ _ _ _ _ ?_ ?_ ?_ ?_ <;> first | trivial | ring1 | (field_simp; ring1) | field_simp))
/-- same with denominators (the `≠ 0` / positivity facts must be in the context) -/
macro "tensor_field" : tactic => `(tactic| (
  repeat' apply And.intro
  all_goals first | trivial | ring1 | (field_simp; ring1) | field_simp))

/-! ## plane strain: Eshelby tensors of a disk and of an ellipse -/

theorem DiskEshelby (nu : K) (h : 1 - nu ≠ 0) : Gen.DiskEshelby_all c c3 fn nu = mura nu 1 := by
  simp only [Gen.DiskEshelby_all, mura, List.cons.injEq, and_true]
  tensor_field
theorem EllipseEshelby_e1 (nu : K) (h : 1 - nu ≠ 0) : Gen.EllipseEshelby_e1_all c c3 fn nu = mura nu 1 := by
  simp only [Gen.EllipseEshelby_e1_all, mura, List.cons.injEq, and_true]
  tensor_field
/-- aspect ratio `e > 1` (the path of this trace): Mura's tensor for semi-axes `1 : 1/e`, long axis first -/
theorem EllipseEshelby_gt (nu e : K) (h : 1 - nu ≠ 0) (he : 0 < e) :
    Gen.EllipseEshelby_gt_all c c3 fn nu e = mura nu (1 / e) := by
  have he' := he.ne'
  have h1 : (1 : K) + e ≠ 0 := by positivity
  have h2 : e + 1 ≠ 0 := by positivity
  simp only [Gen.EllipseEshelby_gt_all, mura, List.cons.injEq, and_true]
  tensor_field
/-- aspect ratio `e ≤ 1` (the path of this trace): Mura's tensor for semi-axes `1 : e`, long axis first -/
theorem EllipseEshelby_lt (nu e : K) (h : 1 - nu ≠ 0) (he : 0 < e) :
    Gen.EllipseEshelby_lt_all c c3 fn nu e = mura nu e := by
  have he' := he.ne'
  have h1 : (1 : K) + e ≠ 0 := by positivity
  have h2 : e + 1 ≠ 0 := by positivity
  simp only [Gen.EllipseEshelby_lt_all, mura, List.cons.injEq, and_true]
  tensor_field
/-- the two branches are consistent under `e ↔ 1/e` -/
theorem EllipseEshelby_inv (nu e : K) (h : 1 - nu ≠ 0) (he : 0 < e) :
    Gen.EllipseEshelby_lt_all c c3 fn nu e = Gen.EllipseEshelby_gt_all c c3 fn nu (1 / e) := by
  rw [EllipseEshelby_lt c c3 fn nu e h he, EllipseEshelby_gt c c3 fn nu (1 / e) h (by positivity), one_div_one_div]
/-- the recorded paths are the expected ones -/
theorem EllipseEshelby_paths (nu e : K) :
    (Gen.EllipseEshelby_gt_path c c3 fn nu e → 1 < e) ∧ (Gen.EllipseEshelby_lt_path c c3 fn nu e → e ≤ 1) := by
  constructor
  · intro h; simp only [Gen.EllipseEshelby_gt_path] at h; casesm* _ ∧ _; assumption
  · intro h; simp only [Gen.EllipseEshelby_lt_path, not_lt, gt_iff_lt] at h; casesm* _ ∧ _; assumption

end TfelVerif.C25.Props
