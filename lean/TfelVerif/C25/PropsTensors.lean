/-
  C25 — property theorems, part 3 (Voigt bound; Eshelby, Hill, localisation tensors; tensorial dilute scheme): the TRACED code (definitions of `Gen.lean`, regenerated on every run
  from /repo by harness/C25/trace_{a,b}.cxx + checks/C25.py) against the reference definitions of Spec.lean.

  `K` is any linearly ordered field. `Gen.<unit>_all` is the list of all outputs of a traced unit,
  `Gen.<unit>_path` the branch outcomes under which that trace was taken (concolic mode).
  General-n theorems (any number of phases) are in PropsGen.lean.
-/
import TfelVerif.C25.Gen
import TfelVerif.C25.PropsGen

namespace TfelVerif.C25.Props
open Finset TfelVerif TfelVerif.C25 TfelVerif.C25.Spec TfelVerif.C25.Lemmas
set_option linter.unusedVariables false
set_option linter.unusedSectionVars false
set_option linter.unusedSimpArgs false
set_option linter.unusedTactic false
set_option linter.unreachableTactic false

variable {K : Type} [Field K] [LinearOrder K] [IsStrictOrderedRing K] (c c3 : K) (fn : Fns K)

/-! ## Voigt bound (`computeVoigtStiffness`), isotropic phases built by `computeIsotropicStiffnessTensor` -/

/-- componentwise comparison of a traced tensor with a closed form, by `ring` -/
macro "tensor_ring" d:term : tactic => `(tactic| (
  simp only [$d:term, iso6, voigt_fin2, voigt_fin3, voigt_fin4, voigt_fin5, List.cons.injEq, and_true]
  repeat' apply And.intro
  all_goals ring))
/-- isotropic pattern: only the four distinct entries are compared (by `ring`) -/
macro "iso_ring" d:term : tactic => `(tactic| (
  simp only [$d:term, voigt_fin2, voigt_fin3, voigt_fin4, voigt_fin5]
  refine iso6_of_pattern _ _ _ _ _ _ ?_ ?_ ?_ ?_ <;> ring))
/-- isotropic pattern with denominators -/
macro "iso_field" : tactic => `(tactic| (
  refine iso6_of_pattern _ _ _ _ _ _ ?_ ?_ ?_ ?_ <;> first | exact trivial | (with_reducible rfl) | ring1 | (field_simp; ring1) | field_simp))
/-- same with denominators (the `≠ 0` / positivity facts must be in the context) -/
macro "tensor_field" : tactic => `(tactic| (
  repeat' apply And.intro
  all_goals first | exact trivial | (with_reducible rfl) | ring1 | (field_simp; ring1) | field_simp))

theorem Voigt3_n2 (f0 f1 K0 K1 G0 G1 : K) :
    Gen.Voigt3_n2_all c c3 fn f0 f1 K0 K1 G0 G1
      = iso6 (3 * voigt ![f0, f1] ![K0, K1]) (2 * voigt ![f0, f1] ![G0, G1]) := by
  iso_ring Gen.Voigt3_n2_all
theorem Voigt3_n3 (f0 f1 f2 K0 K1 K2 G0 G1 G2 : K) :
    Gen.Voigt3_n3_all c c3 fn f0 f1 f2 K0 K1 K2 G0 G1 G2
      = iso6 (3 * voigt ![f0, f1, f2] ![K0, K1, K2]) (2 * voigt ![f0, f1, f2] ![G0, G1, G2]) := by
  iso_ring Gen.Voigt3_n3_all
theorem Voigt3_n4 (f0 f1 f2 f3 K0 K1 K2 K3 G0 G1 G2 G3 : K) :
    Gen.Voigt3_n4_all c c3 fn f0 f1 f2 f3 K0 K1 K2 K3 G0 G1 G2 G3
      = iso6 (3 * voigt ![f0, f1, f2, f3] ![K0, K1, K2, K3]) (2 * voigt ![f0, f1, f2, f3] ![G0, G1, G2, G3]) := by
  iso_ring Gen.Voigt3_n4_all
theorem Voigt3_n5 (f0 f1 f2 f3 f4 K0 K1 K2 K3 K4 G0 G1 G2 G3 G4 : K) :
    Gen.Voigt3_n5_all c c3 fn f0 f1 f2 f3 f4 K0 K1 K2 K3 K4 G0 G1 G2 G3 G4
      = iso6 (3 * voigt ![f0, f1, f2, f3, f4] ![K0, K1, K2, K3, K4]) (2 * voigt ![f0, f1, f2, f3, f4] ![G0, G1, G2, G3, G4]) := by
  iso_ring Gen.Voigt3_n5_all
/-- arbitrary (anisotropic) phase tensors, 2D storage: the Voigt estimate is the componentwise weighted sum -/
theorem VoigtGen2_n3 (f0 f1 f2 a00 a01 a02 a03 a10 a11 a12 a13 a20 a21 a22 a23 a30 a31 a32 a33 b00 b01 b02 b03 b10 b11 b12 b13 b20 b21 b22 b23 b30 b31 b32 b33 d00 d01 d02 d03 d10 d11 d12 d13 d20 d21 d22 d23 d30 d31 d32 d33 : K) :
    Gen.VoigtGen2_n3_all c c3 fn f0 f1 f2 a00 a01 a02 a03 a10 a11 a12 a13 a20 a21 a22 a23 a30 a31 a32 a33 b00 b01 b02 b03 b10 b11 b12 b13 b20 b21 b22 b23 b30 b31 b32 b33 d00 d01 d02 d03 d10 d11 d12 d13 d20 d21 d22 d23 d30 d31 d32 d33 =
      [f0 * a00 + f1 * b00 + f2 * d00,
       f0 * a01 + f1 * b01 + f2 * d01,
       f0 * a02 + f1 * b02 + f2 * d02,
       f0 * a03 + f1 * b03 + f2 * d03,
       f0 * a10 + f1 * b10 + f2 * d10,
       f0 * a11 + f1 * b11 + f2 * d11,
       f0 * a12 + f1 * b12 + f2 * d12,
       f0 * a13 + f1 * b13 + f2 * d13,
       f0 * a20 + f1 * b20 + f2 * d20,
       f0 * a21 + f1 * b21 + f2 * d21,
       f0 * a22 + f1 * b22 + f2 * d22,
       f0 * a23 + f1 * b23 + f2 * d23,
       f0 * a30 + f1 * b30 + f2 * d30,
       f0 * a31 + f1 * b31 + f2 * d31,
       f0 * a32 + f1 * b32 + f2 * d32,
       f0 * a33 + f1 * b33 + f2 * d33] := by
  tensor_ring Gen.VoigtGen2_n3_all

/-- `computeIsotropicStiffnessTensor(KGModuli)` is `3K J + 2G K` -/
theorem IsoStiff_KG (K0 G0 : K) : Gen.IsoStiff_KG_all c c3 fn K0 G0 = iso6 (3 * K0) (2 * G0) := by
  iso_ring Gen.IsoStiff_KG_all
/-- `computeIsotropicStiffnessTensorII` on (E, ν) = (youngOf K G, nuOf K G) is `3K J + 2G K` -/
theorem IsoStiff_EN (K0 G0 : K) (hK0 : 0 < K0) (hG0 : 0 < G0) :
    Gen.IsoStiff_EN_all c c3 fn (youngOf K0 G0) (nuOf K0 G0) = iso6 (3 * K0) (2 * G0) := by
  simp only [Gen.IsoStiff_EN_all, lamC_of hK0 hG0, muC_of hK0 hG0]
  iso_field

/-! ## Eshelby, Hill and localisation tensors of a sphere -/

/-- closed form `α J + β K` of the Eshelby tensor of a sphere (symmetric 6×6 Mandel matrix: minor symmetries by
storage, major symmetry by the form) -/
theorem SphEshelby (nu : K) (h : 1 - nu ≠ 0) :
    Gen.SphEshelby_all c c3 fn nu = iso6 ((1 + nu) / (3 * (1 - nu))) (2 * (4 - 5 * nu) / (15 * (1 - nu))) := by
  simp only [Gen.SphEshelby_all]
  iso_field
/-- the same in terms of the moduli of the matrix: `α = 3K/(3K+4G)`, `β = 6(K+2G)/(5(3K+4G))` -/
theorem SphEshelby_KG (K0 G0 : K) (hK0 : 0 < K0) (hG0 : 0 < G0) :
    Gen.SphEshelby_all c c3 fn (nuOf K0 G0)
      = iso6 (3 * K0 / (3 * K0 + 4 * G0)) (6 * (K0 + 2 * G0) / (5 * (3 * K0 + 4 * G0))) := by
  have h : 1 - nuOf K0 G0 ≠ 0 := by rw [one_sub_nuOf hK0 hG0]; positivity
  rw [SphEshelby c c3 fn _ h, one_add_nuOf hK0 hG0, one_sub_nuOf hK0 hG0, four_sub_five_nuOf hK0 hG0]
  congr 1 <;> (field_simp; ring)
/-- the spheroid routine on its sphere branch `|e - 1| < precision` returns the sphere tensor -/
theorem AxiEshelby_sphere (nu e : K) :
    Gen.AxiEshelby_sphere_all c c3 fn nu e = Gen.SphEshelby_all c c3 fn nu := by
  simp only [Gen.AxiEshelby_sphere_all, Gen.SphEshelby_all]
theorem SphHill (E nu : K) (hE : E ≠ 0) (h : 1 - nu ≠ 0) :
    Gen.SphHill_all c c3 fn E nu
      = iso6 ((1 + nu) * (1 - 2 * nu) / (3 * E * (1 - nu))) (2 * (4 - 5 * nu) * (1 + nu) / (15 * E * (1 - nu))) := by
  simp only [Gen.SphHill_all]
  iso_field
/-- `computeSphereLocalisationTensor`: `A = a_K J + a_G K` with the classical sphere factors -/
theorem SphLoc (K0 G0 K1 G1 : K) (hK0 : 0 < K0) (hG0 : 0 < G0) (hK1 : 0 < K1) (hG1 : 0 < G1) :
    Gen.SphLoc_all c c3 fn (youngOf K0 G0) (nuOf K0 G0) (youngOf K1 G1) (nuOf K1 G1)
      = iso6 (sphAk K0 G0 K1) (sphAg K0 G0 G1) := by
  simp only [Gen.SphLoc_all, kC_of hK0 hG0, gC_of hK0 hG0, kC_of hK1 hG1, gC_of hK1 hG1,
    kaS9 hK0 hG0, muS4 hK0 hG0, ka3 hK0 hG0 hK1, mu2 hK0 hG0 hG1]
  iso_field
/-! ## plane strain: Eshelby tensors of a disk and of an ellipse -/

theorem DiskEshelby (nu : K) (h : 1 - nu ≠ 0) : Gen.DiskEshelby_all c c3 fn nu = mura nu 1 := by
  simp only [Gen.DiskEshelby_all, mura, List.cons.injEq, and_true]
  tensor_field
theorem EllipseEshelby_e1 (nu : K) (h : 1 - nu ≠ 0) : Gen.EllipseEshelby_e1_all c c3 fn nu = mura nu 1 := by
  simp only [Gen.EllipseEshelby_e1_all, mura, List.cons.injEq, and_true]
  tensor_field
/-- aspect ratio `e > 1` (the path of this trace): Mura's tensor for semi-axes `1 : 1/e`, long axis first -/
theorem EllipseEshelby_gt (nu e : K) (h : 1 - nu ≠ 0) (he : 0 < e) :
    Gen.EllipseEshelby_gt_all c c3 fn nu e = mura nu (1 / e) := by
  have he' := he.ne'
  have h1 : (1 : K) + e ≠ 0 := by positivity
  have h2 : e + 1 ≠ 0 := by positivity
  simp only [Gen.EllipseEshelby_gt_all, mura, List.cons.injEq, and_true]
  tensor_field
/-- aspect ratio `e ≤ 1` (the path of this trace): Mura's tensor for semi-axes `1 : e`, long axis first -/
theorem EllipseEshelby_lt (nu e : K) (h : 1 - nu ≠ 0) (he : 0 < e) :
    Gen.EllipseEshelby_lt_all c c3 fn nu e = mura nu e := by
  have he' := he.ne'
  have h1 : (1 : K) + e ≠ 0 := by positivity
  have h2 : e + 1 ≠ 0 := by positivity
  simp only [Gen.EllipseEshelby_lt_all, mura, List.cons.injEq, and_true]
  tensor_field
/-- the two branches are consistent under `e ↔ 1/e` -/
theorem EllipseEshelby_inv (nu e : K) (h : 1 - nu ≠ 0) (he : 0 < e) :
    Gen.EllipseEshelby_lt_all c c3 fn nu e = Gen.EllipseEshelby_gt_all c c3 fn nu (1 / e) := by
  rw [EllipseEshelby_lt c c3 fn nu e h he, EllipseEshelby_gt c c3 fn nu (1 / e) h (by positivity), one_div_one_div]
/-- the recorded paths are the expected ones -/
theorem EllipseEshelby_paths (nu e : K) :
    (Gen.EllipseEshelby_gt_path c c3 fn nu e → 1 < e) ∧ (Gen.EllipseEshelby_lt_path c c3 fn nu e → e ≤ 1) := by
  constructor
  · intro h; simp only [Gen.EllipseEshelby_gt_path] at h; casesm* _ ∧ _; assumption
  · intro h; simp only [Gen.EllipseEshelby_lt_path, not_lt, gt_iff_lt] at h; casesm* _ ∧ _; assumption

end TfelVerif.C25.Props
