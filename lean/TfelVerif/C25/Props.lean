/-
  C25 — property theorems, part 4 (two-phase schemes, Mori–Tanaka = Hashin–Shtrikman): the TRACED code (definitions of `Gen.lean`, regenerated on every run
  from /repo by harness/C25/trace_{a,b}.cxx + checks/C25.py) against the reference definitions of Spec.lean.

  `K` is any linearly ordered field. `Gen.<unit>_all` is the list of all outputs of a traced unit,
  `Gen.<unit>_path` the branch outcomes under which that trace was taken (concolic mode).
  General-n theorems (any number of phases) are in PropsGen.lean.
-/
import TfelVerif.C25.PropsHS

namespace TfelVerif.C25.Props
open Finset TfelVerif TfelVerif.C25 TfelVerif.C25.Spec TfelVerif.C25.Lemmas
set_option linter.unusedVariables false
set_option linter.unusedSectionVars false
set_option linter.unusedSimpArgs false
set_option linter.unusedTactic false
set_option linter.unreachableTactic false

variable {K : Type} [Field K] [LinearOrder K] [IsStrictOrderedRing K] (c c3 : K) (fn : Fns K)

/-! ## two-phase schemes for spherical inclusions -/

/-- positivity of the two-phase Mori–Tanaka moduli -/
theorem mt_moduli_pos {K0 G0 K1 G1 f : K} (hK0 : 0 < K0) (hG0 : 0 < G0) (hK1 : 0 < K1) (hG1 : 0 < G1)
    (hf0 : 0 ≤ f) (hf1 : f ≤ 1) :
    0 < hs ![1 - f, f] ![K0, K1] (Ks3 G0) ∧ 0 < hs ![1 - f, f] ![G0, G1] (H3 K0 G0) := by
  have hF := all_fin2 (P := fun x : K => 0 ≤ x) (f0 := 1 - f) (f1 := f) (by linarith) hf0
  have hS : ∑ i, ![1 - f, f] i = 1 := by rw [sum_fin2]; ring
  exact ⟨hs_pos _ _ hF hS (all_fin2 (P := fun x : K => 0 < x) hK0 hK1) (Ks3_nonneg hG0),
         hs_pos _ _ hF hS (all_fin2 (P := fun x : K => 0 < x) hG0 hG1) (H3_pos hK0 hG0).le⟩

/-- `computeSphereMoriTanakaScheme(KGModuli, f, KGModuli)`: the Hashin–Shtrikman forms whose reference moduli
are those of the matrix -/
theorem SphMT_KG (K0 G0 f K1 G1 : K) (hK0 : 0 < K0) (hG0 : 0 < G0) (hK1 : 0 < K1) (hG1 : 0 < G1)
    (hf0 : 0 ≤ f) (hf1 : f ≤ 1) :
    Gen.SphMT_KG_all c c3 fn K0 G0 f K1 G1 =
      [hs ![1 - f, f] ![K0, K1] (Ks3 G0), hs ![1 - f, f] ![G0, G1] (H3 K0 G0)] := by
  obtain ⟨hKm, hGm⟩ := mt_moduli_pos hK0 hG0 hK1 hG1 hf0 hf1
  simp only [Gen.SphMT_KG_all, rtK1 hK0 hG0, rtG1 hK0 hG0, rtK1 hK1 hG1, rtG1 hK1 hG1,
    mtK hK0 hG0 hK1 hf0 hf1, mtG hK0 hG0 hG1 hf0 hf1, rtK2 hKm hGm, rtG2 hKm hGm]

/-- `computeSphereMoriTanakaScheme(E0, ν0, f, Ei, νi)`: returned (E, ν) and their conversion back to (K, G) -/
theorem SphMT_EN (E0 nu0 f Ei nui : K) (hK0 : 0 < kOf E0 nu0) (hG0 : 0 < gOf E0 nu0)
    (hK1 : 0 < kOf Ei nui) (hG1 : 0 < gOf Ei nui) (hf0 : 0 ≤ f) (hf1 : f ≤ 1) :
    let Km := hs ![1 - f, f] ![kOf E0 nu0, kOf Ei nui] (Ks3 (gOf E0 nu0))
    let Gm := hs ![1 - f, f] ![gOf E0 nu0, gOf Ei nui] (H3 (kOf E0 nu0) (gOf E0 nu0))
    Gen.SphMT_EN_all c c3 fn E0 nu0 f Ei nui = [youngOf Km Gm, nuOf Km Gm, Km, Gm] := by
  intro Km Gm
  obtain ⟨hKm, hGm⟩ := mt_moduli_pos hK0 hG0 hK1 hG1 hf0 hf1
  simp only [Gen.SphMT_EN_all, codeKof, codeGof,
    mtK hK0 hG0 hK1 hf0 hf1, mtG hK0 hG0 hG1 hf0 hf1, rtK2 hKm hGm, rtG2 hKm hGm]
  simp only [rtE hKm hGm]
  simp only [rtNu hKm hGm, Km, Gm]

/-- `computeSphereDiluteScheme(KGModuli, f, KGModuli)`; the conversion (K,G) → (E,ν) → (K,G) of the result
needs positive dilute moduli (not implied by the inputs: the dilute estimate can leave the bounds) -/
theorem SphDilute_KG (K0 G0 f K1 G1 : K) (hK0 : 0 < K0) (hG0 : 0 < G0) (hK1 : 0 < K1) (hG1 : 0 < G1)
    (hKd : 0 < K0 + f * (K1 - K0) * sphAk K0 G0 K1) (hGd : 0 < G0 + f * (G1 - G0) * sphAg K0 G0 G1) :
    Gen.SphDilute_KG_all c c3 fn K0 G0 f K1 G1 =
      [K0 + f * (K1 - K0) * sphAk K0 G0 K1, G0 + f * (G1 - G0) * sphAg K0 G0 G1] := by
  simp only [Gen.SphDilute_KG_all, rtK1 hK0 hG0, rtG1 hK0 hG0, rtK1 hK1 hG1, rtG1 hK1 hG1,
    dilK hK0 hG0 hK1, dilG hK0 hG0 hG1, rtK2 hKd hGd, rtG2 hKd hGd]

theorem SphDilute_EN (E0 nu0 f Ei nui : K) (hK0 : 0 < kOf E0 nu0) (hG0 : 0 < gOf E0 nu0)
    (hK1 : 0 < kOf Ei nui) (hG1 : 0 < gOf Ei nui) :
    let Kd := kOf E0 nu0 + f * (kOf Ei nui - kOf E0 nu0) * sphAk (kOf E0 nu0) (gOf E0 nu0) (kOf Ei nui)
    let Gd := gOf E0 nu0 + f * (gOf Ei nui - gOf E0 nu0) * sphAg (kOf E0 nu0) (gOf E0 nu0) (gOf Ei nui)
    0 < Kd → 0 < Gd →
    Gen.SphDilute_EN_all c c3 fn E0 nu0 f Ei nui = [youngOf Kd Gd, nuOf Kd Gd, Kd, Gd] := by
  intro Kd Gd hKd hGd
  simp only [Kd, Gd] at hKd hGd ⊢
  simp only [Gen.SphDilute_EN_all, codeKof, codeGof,
    dilK hK0 hG0 hK1, dilG hK0 hG0 hG1, rtK2 hKd hGd, rtG2 hKd hGd]
  simp only [rtE hKd hGd]
  simp only [rtNu hKd hGd]

/-- zero inclusion fraction: the dilute and Mori–Tanaka estimates return the matrix -/
theorem SphMT_KG_zero (K0 G0 K1 G1 : K) (hK0 : 0 < K0) (hG0 : 0 < G0) (hK1 : 0 < K1) (hG1 : 0 < G1) :
    Gen.SphMT_KG_all c c3 fn K0 G0 0 K1 G1 = [K0, G0] := by
  rw [SphMT_KG c c3 fn K0 G0 0 K1 G1 hK0 hG0 hK1 hG1 le_rfl zero_le_one, hs_fin2, hs_fin2]
  have a : K0 + Ks3 G0 ≠ 0 := (add_pos_of_pos_of_nonneg hK0 (Ks3_nonneg hG0)).ne'
  have b : G0 + H3 K0 G0 ≠ 0 := (add_pos hG0 (H3_pos hK0 hG0)).ne'
  simp [a, b]
theorem SphDilute_KG_zero (K0 G0 K1 G1 : K) (hK0 : 0 < K0) (hG0 : 0 < G0) (hK1 : 0 < K1) (hG1 : 0 < G1) :
    Gen.SphDilute_KG_all c c3 fn K0 G0 0 K1 G1 = [K0, G0] := by
  rw [SphDilute_KG c c3 fn K0 G0 0 K1 G1 hK0 hG0 hK1 hG1 (by simpa using hK0) (by simpa using hG0)]
  simp
/-- unit inclusion fraction: Mori–Tanaka returns the inclusion -/
theorem SphMT_KG_one (K0 G0 K1 G1 : K) (hK0 : 0 < K0) (hG0 : 0 < G0) (hK1 : 0 < K1) (hG1 : 0 < G1) :
    Gen.SphMT_KG_all c c3 fn K0 G0 1 K1 G1 = [K1, G1] := by
  rw [SphMT_KG c c3 fn K0 G0 1 K1 G1 hK0 hG0 hK1 hG1 zero_le_one le_rfl, hs_fin2, hs_fin2]
  have a : K1 + Ks3 G0 ≠ 0 := (add_pos_of_pos_of_nonneg hK1 (Ks3_nonneg hG0)).ne'
  have b : G1 + H3 K0 G0 ≠ 0 := (add_pos hG1 (H3_pos hK0 hG0)).ne'
  simp [a, b]

/-! ## Mori–Tanaka = Hashin–Shtrikman -/

/-- two phases, phase 0 the softer one in `μ` and `H` (path of `HS3_n2_p0`, where `HS3_n2_p0_selected` shows that the
reference moduli are the minimum / maximum): the lower bounds are the Mori–Tanaka estimate with phase 0 as
matrix, the upper bounds the Mori–Tanaka estimate with phase 1 as matrix -/
theorem MT_eq_HS_p0 (K0 G0 K1 G1 f : K) (hK0 : 0 < K0) (hG0 : 0 < G0) (hK1 : 0 < K1) (hG1 : 0 < G1)
    (hf0 : 0 ≤ f) (hf1 : f ≤ 1) :
    Gen.HS3_n2_p0_all c c3 fn (1 - f) f K0 K1 G0 G1
      = Gen.SphMT_KG_all c c3 fn K0 G0 f K1 G1 ++ Gen.SphMT_KG_all c c3 fn K1 G1 (1 - f) K0 G0 := by
  rw [HS3_n2_p0_formula, SphMT_KG c c3 fn K0 G0 f K1 G1 hK0 hG0 hK1 hG1 hf0 hf1,
    SphMT_KG c c3 fn K1 G1 (1 - f) K0 G0 hK1 hG1 hK0 hG0 (by linarith) (by linarith)]
  simp only [hs_fin2, List.cons_append, List.nil_append, List.cons.injEq, and_true, sub_sub_cancel, true_and]
  constructor <;> ring
/-- same with phase 1 the softer one (path of `HS3_n2_p1`) -/
theorem MT_eq_HS_p1 (K0 G0 K1 G1 f : K) (hK0 : 0 < K0) (hG0 : 0 < G0) (hK1 : 0 < K1) (hG1 : 0 < G1)
    (hf0 : 0 ≤ f) (hf1 : f ≤ 1) :
    Gen.HS3_n2_p1_all c c3 fn (1 - f) f K0 K1 G0 G1
      = Gen.SphMT_KG_all c c3 fn K1 G1 (1 - f) K0 G0 ++ Gen.SphMT_KG_all c c3 fn K0 G0 f K1 G1 := by
  rw [HS3_n2_p1_formula, SphMT_KG c c3 fn K0 G0 f K1 G1 hK0 hG0 hK1 hG1 hf0 hf1,
    SphMT_KG c c3 fn K1 G1 (1 - f) K0 G0 hK1 hG1 hK0 hG0 (by linarith) (by linarith)]
  simp only [hs_fin2, List.cons_append, List.nil_append, List.cons.injEq, and_true, sub_sub_cancel, true_and]
  refine ⟨?_, ?_⟩ <;> ring

/-! ## non-vacuity of the hypotheses used above -/
example : ∃ K0 G0 K1 G1 f : ℚ, 0 < K0 ∧ 0 < G0 ∧ 0 < K1 ∧ 0 < G1 ∧ 0 ≤ f ∧ f ≤ 1 ∧
    0 < K0 + f * (K1 - K0) * sphAk K0 G0 K1 ∧ 0 < G0 + f * (G1 - G0) * sphAg K0 G0 G1 :=
  ⟨2, 1, 5, 3, 1/4, by norm_num, by norm_num, by norm_num, by norm_num, by norm_num, by norm_num,
   by norm_num [sphAk, Ks3], by norm_num [sphAg, H3]⟩
/-- the path condition of a Hashin–Shtrikman trace is satisfiable (here: the shadow inputs of `HS3_n3_p3`) -/
example : Gen.HS3_n3_p3_path (K := ℚ) 0 0 ⟨id, id, id, id, id, id, id, id, id, id, id, id, id, id, id,
    fun x _ => x, fun x _ => x, fun x _ => x, fun x _ => x, fun _ _ => 0⟩ (1/2) (1/4) (1/4) 1 5 2 2 1 3 := by
  simp only [Gen.HS3_n3_p3_path]; norm_num
end TfelVerif.C25.Props
