/-
  C25 — property theorems, part 3 (Voigt bound; Eshelby, Hill, localisation tensors; tensorial dilute scheme): the TRACED code (definitions of `Gen.lean`, regenerated on every run
  from /repo by harness/C25/trace_{a,b}.cxx + checks/C25.py) against the reference definitions of Spec.lean.

  `K` is any linearly ordered field. `Gen.<unit>_all` is the list of all outputs of a traced unit,
  `Gen.<unit>_path` the branch outcomes under which that trace was taken (concolic mode).
  General-n theorems (any number of phases) are in PropsGen.lean.
-/
import TfelVerif.C25.Gen
import TfelVerif.C25.PropsGen

namespace TfelVerif.C25.Props
open Finset TfelVerif TfelVerif.C25 TfelVerif.C25.Spec TfelVerif.C25.Lemmas
set_option linter.unusedVariables false
set_option linter.unusedSectionVars false
set_option linter.unusedSimpArgs false
set_option linter.unusedTactic false
set_option linter.unreachableTactic false

variable {K : Type} [Field K] [LinearOrder K] [IsStrictOrderedRing K] (c c3 : K) (fn : Fns K)

/-! ## Voigt bound (`computeVoigtStiffness`), isotropic phases built by `computeIsotropicStiffnessTensor` -/

/-- componentwise comparison of a traced tensor with a closed form, by `ring` -/
macro "tensor_ring" d:term : tactic => `(tactic| (
  simp only [$d:term, iso6, voigt_fin2, voigt_fin3, voigt_fin4, voigt_fin5, List.cons.injEq, and_true]
  repeat' apply And.intro
  all_goals ring))
/-- isotropic pattern: only the four distinct entries are compared (by `ring`) -/
macro "iso_ring" d:term : tactic => `(tactic| (
  simp only [$d:term, voigt_fin2, voigt_fin3, voigt_fin4, voigt_fin5]
  refine iso6_of_pattern _ _ _ _ _ _ ?_ ?_ ?_ ?_ <;> ring))
/-- isotropic pattern with denominators -/
macro "iso_field" : tactic => `(tactic| (
  refine iso6_of_pattern _ _ _ _ _ _ ?_ ?_ ?_ ?_ <;> first | trivial | ring1 | (field_simp; ring1) | field_simp))
/-- same with denominators (the `≠ 0` / positivity facts must be in the context) -/
macro "tensor_field" : tactic => `(tactic| (
  repeat' apply And.intro
  all_goals first | trivial | ring1 | (field_simp; ring1) | field_simp))

/-! ## Eshelby, Hill and localisation tensors of a sphere -/

/-- closed form `α J + β K` of the Eshelby tensor of a sphere (symmetric 6×6 Mandel matrix: minor symmetries by
storage, major symmetry by the form) -/
theorem SphEshelby (nu : K) (h : 1 - nu ≠ 0) :
    Gen.SphEshelby_all c c3 fn nu = iso6 ((1 + nu) / (3 * (1 - nu))) (2 * (4 - 5 * nu) / (15 * (1 - nu))) := by
  simp only [Gen.SphEshelby_all]
  iso_field
/-- the same in terms of the moduli of the matrix: `α = 3K/(3K+4G)`, `β = 6(K+2G)/(5(3K+4G))` -/
theorem SphEshelby_KG (K0 G0 : K) (hK0 : 0 < K0) (hG0 : 0 < G0) :
    Gen.SphEshelby_all c c3 fn (nuOf K0 G0)
      = iso6 (3 * K0 / (3 * K0 + 4 * G0)) (6 * (K0 + 2 * G0) / (5 * (3 * K0 + 4 * G0))) := by
  have h : 1 - nuOf K0 G0 ≠ 0 := by rw [one_sub_nuOf hK0 hG0]; positivity
  rw [SphEshelby c c3 fn _ h, one_add_nuOf hK0 hG0, one_sub_nuOf hK0 hG0, four_sub_five_nuOf hK0 hG0]
  congr 1 <;> (field_simp; ring)
/-- the spheroid routine on its sphere branch `|e - 1| < precision` returns the sphere tensor -/
theorem AxiEshelby_sphere (nu e : K) :
    Gen.AxiEshelby_sphere_all c c3 fn nu e = Gen.SphEshelby_all c c3 fn nu := by
  simp only [Gen.AxiEshelby_sphere_all, Gen.SphEshelby_all]
theorem SphHill (E nu : K) (hE : E ≠ 0) (h : 1 - nu ≠ 0) :
    Gen.SphHill_all c c3 fn E nu
      = iso6 ((1 + nu) * (1 - 2 * nu) / (3 * E * (1 - nu))) (2 * (4 - 5 * nu) * (1 + nu) / (15 * E * (1 - nu))) := by
  simp only [Gen.SphHill_all]
  iso_field
/-- `computeSphereLocalisationTensor`: `A = a_K J + a_G K` with the classical sphere factors -/
theorem SphLoc (K0 G0 K1 G1 : K) (hK0 : 0 < K0) (hG0 : 0 < G0) (hK1 : 0 < K1) (hG1 : 0 < G1) :
    Gen.SphLoc_all c c3 fn (youngOf K0 G0) (nuOf K0 G0) (youngOf K1 G1) (nuOf K1 G1)
      = iso6 (sphAk K0 G0 K1) (sphAg K0 G0 G1) := by
  simp only [Gen.SphLoc_all, kC_of hK0 hG0, gC_of hK0 hG0, kC_of hK1 hG1, gC_of hK1 hG1,
    kaS9 hK0 hG0, muS4 hK0 hG0, ka3 hK0 hG0 hK1, mu2 hK0 hG0 hG1]
  iso_field
end TfelVerif.C25.Props
