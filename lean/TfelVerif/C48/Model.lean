/-
  C48 — hand-written executable model (core Lean only) of

    * `mtest::LPIEvolution` (constructor, `setValue(t, v)`, `interpolate`) and `ConstantEvolution`
      (mtest/src/Evolution.cxx);
    * the time loop of `mtest::GenericSolver::execute` (mtest/src/GenericSolver.cxx): sub-stepping by
      halving and dynamic time step scaling, maximum number of sub-steps, minimal time step; the
      behaviour/scheme is an *oracle*: a script giving, per attempt, the pair
      `(converged, time step scaling factor)` returned by `iterate`;
    * the outcome of `iterate`/`iterate2` for the five kinds of scripted attempts of the mock study
      of the harness (used by the correspondence only);
    * `mtest::MTest::checkConvergence` with `ImposedGradient` / `ImposedThermodynamicForce`
      constraints (mtest/src/MTest.cxx, ImposedGradient.cxx, ImposedThermodynamicForce.cxx).

  The same definitions run on `Float` (= C `double`, same operation order: bit-exact correspondence
  with the real code, see Driver.lean and checks/C48.py) and are the object of the theorems over any
  linearly ordered field (Lemmas.lean, Props.lean).

  INTENDED behaviour where the unfixed source differs (property text: "the solver's time loop ends
  exactly at each requested time, sub-stepping included"): the clamp of the dynamic mode
  `if (dt > te - t - o.minimal_time_step) dt = te - t;` uses `max(o.minimal_time_step, 0)`: the option is
  `-1` when unset, which lets the unfixed code overshoot `te` by up to one time unit
  (patches/C48-GenericSolver-dynamic-clamp.diff); and the tolerance of the end-of-step test
  `std::abs(te - t) < t_eps` is relative to the magnitude of the times, `max(|ti|, |te|, te - ti)`, where the
  unfixed source uses `te - ti` alone, which the rounding of `t += dt` exceeds as soon as `|t|` is about a
  hundred times the step: a sub-stepped step then runs one sub-step past `te`
  (patches/C48-GenericSolver-end-tolerance.diff); and in the halving mode too the time step is clamped to the
  remaining time (`else if (dt > te - t) dt = te - t;`, patches/C49-GenericSolver-no-step-beyond-te.diff): with a
  directed rounding mode the error of `t += dt` is systematic and exceeds any fixed tolerance after a few hundred
  sub-steps.
-/
namespace TfelVerif.C48

/-- constants and non-arithmetic primitives; `Float`: see `floatConsts` in Driver.lean -/
structure Consts (α : Type) where
  zero : α
  one : α
  half : α
  tenth : α
  hundred : α
  /-- `std::numeric_limits<real>::epsilon()` -/
  eps : α
  /-- `1 - 10 * epsilon` ("almost one") -/
  aone : α
  abs : α → α
  isFinite : α → Bool

section
variable {α : Type} [Add α] [Sub α] [Mul α] [Div α] [LT α] [DecidableLT α] [LE α] [DecidableLE α]

/-- `std::max(a, b)` = `(a < b) ? b : a` -/
@[inline] def cmax (a b : α) : α := if a < b then b else a
/-- `std::min(a, b)` = `(b < a) ? b : a` -/
@[inline] def cmin (a b : α) : α := if b < a then b else a

/-! ## Evolutions -/

/-- `std::map<real, real>`: association list sorted by key -/
abbrev Table (α : Type) := List (α × α)

/-- `values.insert({k, v})`: no effect when an equivalent key is present -/
def insertIfAbsent (k v : α) : Table α → Table α
  | [] => [(k, v)]
  | (k', v') :: rest =>
    if k < k' then (k, v) :: (k', v') :: rest
    else if k' < k then (k', v') :: insertIfAbsent k v rest
    else (k', v') :: rest

/-- `values[k] = v` -/
def insertOrAssign (k v : α) : Table α → Table α
  | [] => [(k, v)]
  | (k', v') :: rest =>
    if k < k' then (k, v) :: (k', v') :: rest
    else if k' < k then (k', v') :: insertOrAssign k v rest
    else (k', v) :: rest

/-- `LPIEvolution::LPIEvolution(times, values)` -/
def build (pts : List (α × α)) : Table α :=
  pts.foldl (fun m p => insertIfAbsent p.1 p.2 m) []

/-- the part of `interpolate` after `p != begin`: `prev` is the last entry whose key is `< t` -/
def interpGo (t : α) (prev : α × α) : Table α → α
  | [] => prev.2
  | q :: rest =>
    if q.1 < t then interpGo t q rest
    else (q.2 - prev.2) / (q.1 - prev.1) * (t - prev.1) + prev.2

/-- `LPIEvolution::interpolate(values, t)`; `none`: the exception "no values specified" -/
def interpolate (m : Table α) (t : α) : Option α :=
  match m with
  | [] => none
  | [p] => some p.2
  | p :: q :: rest => if p.1 < t then some (interpGo t p (q :: rest)) else some p.2

inductive Evo (α : Type) where
  | const (v : α)
  | lpi (m : Table α)

def Evo.eval : Evo α → α → Option α
  | .const v, _ => some v
  | .lpi m, t => interpolate m t

/-! ## The time loop of `GenericSolver::execute` -/

structure Opts (α : Type) where
  dyn : Bool
  /-- `mSubSteps` (an `int`; -1 when unset) -/
  mSub : Int
  minTs : α
  maxTs : α
  minF : α
  maxF : α

/-- events observed through the mock: an attempt `(t, dt)` (call of `prepare`), an intermediate
output `printOutput(t, _, false)` -/
inductive Event (α : Type) where
  | attempt (t dt : α)
  | output (t : α)

structure LoopState (α : Type) where
  t : α
  dt : α
  subStep : Nat
  period : Nat
  iters : Nat
  dt_1 : α
  /-- reversed -/
  log : List (Event α)

inductive Outcome (α : Type) where
  /-- normal return -/
  | ended (s : LoopState α)
  /-- "maximum number of sub stepping reached" -/
  | maxSub (s : LoopState α)
  /-- "time step is below its minimal value" -/
  | belowMin (s : LoopState α)
  /-- "negative time step" -/
  | negative (s : LoopState α)
  /-- the oracle has no more answers (the harness mock throws) -/
  | exhausted (s : LoopState α)

/-- time reached and number of periods of a normal return (for the examples and the driver) -/
def Outcome.endedAt {α : Type} : Outcome α → Option (α × Nat)
  | .ended s => some (s.t, s.period)
  | _ => none

/-- one answer of the oracle: the pair returned by `iterate` and the number of Newton iterations it
made (statistics only) -/
structure Answer (α : Type) where
  first : Bool
  second : α
  iters : Nat

/-- first part of the body of the `while` loop: accept (`scs.update`, `t += dt`, end test, new time
step) or reject (`scs.revert`, sub-step count, reduced time step). `inl`: an exception; `inr (s, end)` -/
def stepFirst (C : Consts α) (o : Opts α) (te tEps : α) (s : LoopState α) (r : Answer α) :
    Sum (Outcome α) (LoopState α × Bool) :=
  let converged := if o.dyn then r.first && decide (C.aone ≤ r.second) else r.first
  if converged then
    let t' := s.t + s.dt
    let fin := (decide (C.abs (te - t') < tEps)) || (decide (te < t'))
    let dt' := if o.dyn then s.dt * cmax (cmin o.maxF r.second) C.one else s.dt
    let log' := if fin then s.log else Event.output t' :: s.log
    .inr ({ s with t := t', dt := dt', period := s.period + 1, dt_1 := s.dt, log := log' }, fin)
  else
    let sub' : Nat := s.subStep + 1
    if Int.ofNat sub' = o.mSub then .inl (.maxSub { s with subStep := sub' })
    else
      let rdt :=
        if o.dyn then
          (if r.first then cmax r.second o.minF else cmax (cmin C.half r.second) o.minF)
        else C.half
      .inr ({ s with subStep := sub', dt := s.dt * rdt }, false)

/-- the time step used by the next attempt: `if (!end) { if (o.dynamic_time_step_scaling) {...} }` -/
def clampDt (C : Consts α) (o : Opts α) (te : α) (s : LoopState α) : α :=
  if o.dyn then
    let d := if C.zero < o.maxTs then cmin s.dt o.maxTs else s.dt
    -- intended: the remaining time minus the (non-negative) minimal time step
    if (te - s.t) - cmax o.minTs C.zero < d then te - s.t else d
  else
    -- never step beyond the requested time: the rounding errors accumulated in `t` over many
    -- sub-steps may exceed the tolerance of the end test (`else if (dt > te - t) dt = te - t;`)
    if te - s.t < s.dt then te - s.t else s.dt

/-- second part of the body (`if (!end)`): clamp, then the two `raise_if` -/
def stepSecond (C : Consts α) (o : Opts α) (te : α) (s : LoopState α) :
    Sum (Outcome α) (LoopState α × Bool) :=
  let s' := { s with dt := clampDt C o te s }
  if s'.dt < C.zero then .inl (.negative s')
  else if s'.dt < o.minTs then .inl (.belowMin s')
  else .inr (s', false)

/-- the body of the `while` loop for one oracle answer -/
def body (C : Consts α) (o : Opts α) (te tEps : α) (s : LoopState α) (r : Answer α) :
    Sum (Outcome α) (LoopState α × Bool) :=
  let s := { s with iters := s.iters + r.iters, log := Event.attempt s.t s.dt :: s.log }
  match stepFirst C o te tEps s r with
  | .inl e => .inl e
  | .inr (s', true) => .inr (s', true)
  | .inr (s', false) => stepSecond C o te s'

/-- the `while ((!end) && (subStep != o.mSubSteps))` loop over the script of oracle answers -/
def loop (C : Consts α) (o : Opts α) (te tEps : α) : List (Answer α) → LoopState α → Outcome α
  | script, s =>
    if Int.ofNat s.subStep = o.mSub then .ended s
    else
      match script with
      | [] => .exhausted s
      | r :: rs =>
        match body C o te tEps s r with
        | .inl e => e
        | .inr (s', true) => .ended s'
        | .inr (s', false) => loop C o te tEps rs s'

/-- tolerance of the end-of-step test. INTENDED: relative to the magnitude of the times (the rounding
errors of `t += dt` are), where the unfixed source writes `(te - ti) * 100 * epsilon`
(patches/C48-GenericSolver-end-tolerance.diff) -/
def tEpsOf (C : Consts α) (ti te : α) : α :=
  cmax (cmax (C.abs ti) (C.abs te)) (te - ti) * C.hundred * C.eps

def initState (C : Consts α) (ti te : α) : LoopState α :=
  { t := ti, dt := te - ti, subStep := 0, period := 1, iters := 0, dt_1 := C.zero, log := [] }

/-- `GenericSolver::execute(scs, wk, s, o, ti, te)` -/
def execute (C : Consts α) (o : Opts α) (ti te : α) (script : List (Answer α)) : Outcome α :=
  let s := initState C ti te
  if s.dt < C.zero then .negative s else loop C o te (tEpsOf C ti te) script s

/-! ### `iterate` / `iterate2` on the scripted attempts of the mock study -/

inductive AttKind where
  | ok | integ | noconv | post | prep
  deriving DecidableEq

structure Att (α : Type) where
  kind : AttKind
  factor : α
  /-- iteration at which the integration failure happens (kind `integ`) -/
  iter : Nat

/-- the Newton loop `while ((!converged) && (iter != o.iterMax))`: `some r` = early return -/
def newton (a : Att α) (need iterMax : Nat) : Nat → Nat → Option (Bool × α) × Nat
  | 0, iter => (none, iter)
  | fuel + 1, iter =>
    let iter' := iter + 1
    if a.kind = .integ ∧ a.iter = iter' then (some (false, a.factor), iter')
    else
      let conv := decide (need ≤ iter') && !(a.kind = .noconv)
      if conv then (none, iter')
      else if iter' = iterMax then (some (false, a.factor), iter')
      else newton a need iterMax fuel iter'

/-- `ppolicy = 0`: no prediction (`converged` only from the second iteration on) -/
def attemptAnswer (C : Consts α) (iterMax ppolicy : Nat) (noUnknowns : Bool) (a : Att α) : Answer α :=
  if a.kind = .prep then ⟨false, a.factor, 0⟩
  else if noUnknowns then
    -- iterate2
    if a.kind = .integ ∧ a.iter = 1 then ⟨false, a.factor, 0⟩
    else if a.kind = .post then ⟨false, C.tenth, 0⟩
    else ⟨true, a.factor, 0⟩
  else
    let need := if ppolicy = 0 then 2 else 1
    match newton a need iterMax iterMax 0 with
    | (some r, n) => ⟨r.1, r.2, n⟩
    | (none, n) =>
      if a.kind = .post then ⟨false, C.tenth, n⟩
      else ⟨true, (if n = 0 then C.zero else a.factor), n⟩

/-! ## `MTest::checkConvergence` -/

/-- `MTest_getErrorNorm(v, n)` -/
def errNorm (C : Consts α) (v : List α) (n : Nat) : α :=
  (v.take n).foldl (fun acc x => cmax acc (C.abs x)) C.zero

inductive ConsKind where
  | gradient | force
  deriving DecidableEq

structure Cons (α : Type) where
  kind : ConsKind
  comp : Nat
  active : Bool
  ev : Evo α

/-- one constraint: `ImposedGradient::checkConvergence` / `ImposedThermodynamicForce::checkConvergence`
guarded by `isActive()` as in `MTest::checkConvergence` -/
def consOk (C : Consts α) (eeps seps t dt : α) (u1 s1 : List α) (c : Cons α) : Bool :=
  if !c.active then true
  else
    match c.ev.eval (t + dt) with
    | none => false
    | some target =>
      match c.kind with
      | .gradient => decide (C.abs (u1.getD c.comp C.zero - target) < eeps)
      | .force => decide (C.abs (s1.getD c.comp C.zero - target) < seps)

def checkConvergence (C : Consts α) (ndv : Nat) (eeps seps t dt : α)
    (du r u1 s1 : List α) (cs : List (Cons α)) : Bool :=
  let ne := errNorm C du ndv
  let nr := errNorm C r ndv
  if !C.isFinite ne || !C.isFinite nr then false
  else if eeps < ne || seps < nr then false
  else cs.all (consOk C eeps seps t dt u1 s1)

end

end TfelVerif.C48
