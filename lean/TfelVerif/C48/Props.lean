/-
  C48 — "MTest enforces imposed loadings and reaches every requested time": property theorems.

  Objects: the executable model `TfelVerif.C48` (Model.lean) instantiated on an arbitrary linearly
  ordered field `K` (exact arithmetic; `ε > 0` stands for the machine epsilon). The model is tied to
  mtest/src/{Evolution,GenericSolver,MTest,ImposedGradient,ImposedThermodynamicForce}.cxx by the
  bit-exact `Float` correspondence of checks/C48.py on every run.

  * `lpi_*`            piecewise linear evolutions: for ANY table with strictly increasing times
                       (and the constructor / `setValue` always produce such tables): value at each
                       point, affine between consecutive points, constant outside.
  * `time_loop_*`      `GenericSolver::execute`, for EVERY oracle (script of behaviour/convergence
                       answers, any length): a normal return happens only at the requested time `te`;
                       anything else is an exception (max sub-steps, minimal step, negative step).
  * `checkConvergence_sound`   `MTest::checkConvergence = true` ⇒ every active imposed gradient is
                       within `eeps`, every active imposed force within `seps` of its evolution at
                       `t + dt`, and the Newton increments / residuals are within the same bounds.

  Partial by nature (stated in checks/meta/C48.json): that the Newton iterations of a real behaviour
  converge is numerics and is not claimed; rounding is not modelled in the theorems (the `Float`
  correspondence runs the same operations bit for bit).
-/
import TfelVerif.C48.Lemmas

namespace TfelVerif.C48

set_option linter.unusedSectionVars false

variable {K : Type} [Field K] [LinearOrder K] [IsStrictOrderedRing K]

/-! ## Piecewise linear evolutions -/

/-- `LPIEvolution::LPIEvolution(times, values)` always builds a table with strictly increasing
times, whatever the order and the repetitions of the input. -/
theorem lpi_constructor_sorted (pts : List (K × K)) : Sorted (build pts) :=
  sorted_foldl_insert pts List.Pairwise.nil

/-- `LPIEvolution::setValue(t, v)` keeps the times strictly increasing. -/
theorem lpi_setValue_sorted (t v : K) {m : Table K} (hm : Sorted m) :
    Sorted (insertOrAssign t v m) :=
  sorted_insertOrAssign t v hm

/-- constant before the first point (first point included) -/
theorem lpi_constant_before (p : K × K) (rest : Table K) {t : K} (ht : t ≤ p.1) :
    interpolate (p :: rest) t = some p.2 := by
  cases rest with
  | nil => rfl
  | cons q rest =>
    rw [interpolate_cons_cons]
    simp [not_lt.mpr ht]

/-- affine between two consecutive points `(x0, y0)`, `(x1, y1)` of the table, ends included -/
theorem lpi_affine_between {m pre post : Table K} {x0 y0 x1 y1 t : K} (hm : Sorted m)
    (hsplit : m = pre ++ (x0, y0) :: (x1, y1) :: post) (h0 : x0 ≤ t) (h1 : t ≤ x1) :
    interpolate m t = some (y0 + (y1 - y0) / (x1 - x0) * (t - x0)) := by
  rcases lt_or_eq_of_le h0 with h0 | h0
  · rw [interpolate_segment_open hm hsplit h0 h1]
    congr 1
    ring
  · -- t = x0: the point itself, reached from the previous segment or from the head of the table
    subst h0
    subst hsplit
    rcases List.eq_nil_or_concat pre with hpre | ⟨L, b, hpre⟩
    · subst hpre
      rw [List.nil_append, lpi_constant_before (x0, y0) _ (le_refl _)]
      simp
    · subst hpre
      have hb : b.1 < x0 := by
        have := (List.pairwise_append.mp hm).2.2 b (by simp) (x0, y0) List.mem_cons_self
        exact this
      have hsplit' : L.concat b ++ (x0, y0) :: (x1, y1) :: post = L ++ b :: (x0, y0) :: ((x1, y1) :: post) := by
        simp
      rw [interpolate_segment_open hm hsplit' hb (le_refl _)]
      congr 1
      have : x0 - b.1 ≠ 0 := sub_ne_zero.mpr (ne_of_gt hb)
      field_simp
      ring

/-- the value at each point of the table is the tabulated value -/
theorem lpi_value_at_point {m : Table K} {x y : K} (hm : Sorted m) (hmem : (x, y) ∈ m) :
    interpolate m x = some y := by
  obtain ⟨pre, post, hsplit⟩ := List.append_of_mem hmem
  subst hsplit
  rcases List.eq_nil_or_concat pre with hpre | ⟨L, b, hpre⟩
  · subst hpre
    exact lpi_constant_before (x, y) post (le_refl _)
  · subst hpre
    have hb : b.1 < x := (List.pairwise_append.mp hm).2.2 b (by simp) (x, y) List.mem_cons_self
    have hsplit' : L.concat b ++ (x, y) :: post = L ++ b :: (x, y) :: post := by simp
    rw [interpolate_segment_open hm hsplit' hb (le_refl _)]
    congr 1
    have : x - b.1 ≠ 0 := sub_ne_zero.mpr (ne_of_gt hb)
    field_simp
    ring

/-- constant after the last point (last point included) -/
theorem lpi_constant_after {m : Table K} (hm : Sorted m) (hne : m ≠ []) {t : K}
    (ht : (m.getLast hne).1 ≤ t) : interpolate m t = some (m.getLast hne).2 := by
  rcases lt_or_eq_of_le ht with ht | ht
  · have hall : ∀ q ∈ m, q.1 < t := by
      intro q hq
      have hsplit := List.dropLast_append_getLast hne
      rw [← hsplit] at hq hm
      rcases List.mem_append.mp hq with hq | hq
      · exact lt_trans ((List.pairwise_append.mp hm).2.2 q hq _ (by simp)) ht
      · have : q = m.getLast hne := by simpa using hq
        rw [this]; exact ht
    match m, hne, hall with
    | [p], _, _ => rfl
    | p :: q :: rest, _, hall =>
      rw [interpolate_cons_cons]
      have hp : p.1 < t := hall p List.mem_cons_self
      simp only [hp, if_true]
      rw [interpGo_all_lt t (q :: rest) p (fun x hx => hall x (List.mem_cons_of_mem _ hx))]
  · have hmem : ((m.getLast hne).1, (m.getLast hne).2) ∈ m := List.getLast_mem hne
    rw [← ht]
    exact lpi_value_at_point hm hmem

/-- `ConstantEvolution::operator()` -/
theorem constant_evolution_value (v t : K) : (Evo.const v).eval t = some v := rfl

/-! ## The time loop of `GenericSolver::execute` -/

/-- Sub-stepping by halving (`dynamic_time_step_scaling = false`): for every script of oracle
answers, `execute` returns normally only with `t = te` exactly (exact arithmetic). Hypotheses:
`ti < te` (enforced by `@Times`), `1 ≤ mSubSteps` (enforced by the setter; default 10) and
`t_eps·2^mSubSteps ≤ te - ti` with `t_eps = 100·ε·max(|ti|, |te|, te - ti)` the tolerance of the end test
(the smallest reachable time step is not below the end tolerance, i.e. it is resolvable at the
magnitude of the times; with `ε = 2^-52`, `mSubSteps = 10` this is `te - ti ≥ 2.3e-11·max(|ti|, |te|)`). -/
theorem time_loop_halving_ends_at_te {ε : K} {o : Opts K} {ti te : K} (script : List (Answer K))
    (hdyn : o.dyn = false) (hε : 0 < ε) (hlt : ti < te) (hm : 1 ≤ o.mSub)
    (hbound : tEpsOf (fieldConsts ε) ti te * 2 ^ o.mSub.toNat ≤ te - ti) {sf : LoopState K}
    (h : execute (fieldConsts ε) o ti te script = .ended sf) : sf.t = te := by
  unfold execute at h
  dsimp only at h
  split_ifs at h with hneg
  exact (loop_halving hdyn hε hlt hbound script (initState (fieldConsts ε) ti te) 1
    (initState_invH hm)).1 sf h

/-- ... and the loop does reach it: in halving mode at most `2^mSubSteps + mSubSteps` attempts are
made, whatever the oracle answers — with a script at least that long `execute` never runs out of
answers: it returns at `te` (previous theorem) or throws. -/
theorem time_loop_halving_terminates {ε : K} {o : Opts K} {ti te : K} (script : List (Answer K))
    (hdyn : o.dyn = false) (hε : 0 < ε) (hlt : ti < te) (hm : 1 ≤ o.mSub)
    (hbound : tEpsOf (fieldConsts ε) ti te * 2 ^ o.mSub.toNat ≤ te - ti)
    (hlen : 2 ^ o.mSub.toNat + o.mSub.toNat ≤ script.length) (sf : LoopState K) :
    execute (fieldConsts ε) o ti te script ≠ .exhausted sf := by
  unfold execute
  dsimp only
  split_ifs with hneg
  · intro h; cases h
  · refine (loop_halving hdyn hε hlt hbound script (initState (fieldConsts ε) ti te) 1
      (initState_invH hm)).2 ?_ sf
    show 1 * 2 ^ (o.mSub.toNat - 0) + (o.mSub.toNat - 0) ≤ script.length
    simpa using hlen

/-- Dynamic time step scaling: for every script of oracle answers (any scaling factors, any
options), a normal return happens only with `t ≤ te` and either `t = te` exactly, or `te - t` below the
solver's own end tolerance `t_eps = 100·ε·max(|ti|, |te|, te - ti)` and not below the minimal time step. Only
hypothesis: `mSubSteps ≠ 0` (enforced by the setter). -/
theorem time_loop_dynamic_ends_at_te {ε : K} {o : Opts K} {ti te : K} (script : List (Answer K))
    (hdyn : o.dyn = true) (hm : o.mSub ≠ 0) {sf : LoopState K}
    (h : execute (fieldConsts ε) o ti te script = .ended sf) :
    sf.t ≤ te ∧ (sf.t = te ∨
      (te - sf.t < tEpsOf (fieldConsts ε) ti te ∧ max o.minTs 0 ≤ te - sf.t)) := by
  unfold execute at h
  dsimp only at h
  split_ifs at h with hneg
  refine loop_dynamic hdyn script (initState (fieldConsts ε) ti te) sf ?_ h
  refine ⟨Or.inl rfl, ?_⟩
  show Int.ofNat 0 ≠ o.mSub
  intro h0
  exact hm h0.symm

/-- ... hence exactly at `te` as soon as a minimal time step not smaller than the end tolerance is
given (`@MinimalTimeStep`). -/
theorem time_loop_dynamic_ends_exactly {ε : K} {o : Opts K} {ti te : K} (script : List (Answer K))
    (hdyn : o.dyn = true) (hm : o.mSub ≠ 0) (hmin : tEpsOf (fieldConsts ε) ti te ≤ o.minTs) {sf : LoopState K}
    (h : execute (fieldConsts ε) o ti te script = .ended sf) : sf.t = te := by
  rcases (time_loop_dynamic_ends_at_te script hdyn hm h).2 with h | ⟨h1, h2⟩
  · exact h
  · have : o.minTs ≤ max o.minTs 0 := le_max_left _ _
    linarith

/-! ## `MTest::checkConvergence` -/

/-- `checkConvergence = true` ⇒ every active imposed gradient component is within `eeps` and every
active imposed thermodynamic force within `seps` of the value of its evolution at `t + dt`; the
increments of the gradients are within `eeps` and the residual forces within `seps`. -/
theorem checkConvergence_sound {ε : K} {ndv : Nat} {eeps seps t dt : K} {du r u1 s1 : List K}
    {cs : List (Cons K)}
    (h : checkConvergence (fieldConsts ε) ndv eeps seps t dt du r u1 s1 cs = true) :
    (∀ c ∈ cs, c.active = true → ∃ target, c.ev.eval (t + dt) = some target ∧
        (c.kind = .gradient → |u1.getD c.comp 0 - target| < eeps) ∧
        (c.kind = .force → |s1.getD c.comp 0 - target| < seps)) ∧
      (∀ x ∈ du.take ndv, |x| ≤ eeps) ∧ (∀ x ∈ r.take ndv, |x| ≤ seps) := by
  unfold checkConvergence at h
  dsimp only at h
  split_ifs at h with h1 h2
  have h2' : ¬ eeps < errNorm (fieldConsts ε) du ndv ∧ ¬ seps < errNorm (fieldConsts ε) r ndv := by
    constructor
    · intro hc; exact h2 (by simp [hc])
    · intro hc; exact h2 (by simp [hc])
  refine ⟨?_, ?_, ?_⟩
  · intro c hc hact
    have hok := List.all_eq_true.mp h c hc
    unfold consOk at hok
    simp only [hact, Bool.not_true, Bool.false_eq_true, if_false] at hok
    cases hev : c.ev.eval (t + dt) with
    | none => rw [hev] at hok; simp at hok
    | some target =>
      rw [hev] at hok
      refine ⟨target, rfl, ?_, ?_⟩
      · intro hk
        rw [hk] at hok
        exact of_decide_eq_true hok
      · intro hk
        rw [hk] at hok
        exact of_decide_eq_true hok
  · intro x hx
    exact le_trans (abs_le_errNorm (ε := ε) du ndv x hx) (not_lt.mp h2'.1)
  · intro x hx
    exact le_trans (abs_le_errNorm (ε := ε) r ndv x hx) (not_lt.mp h2'.2)

/-! ## Non-vacuity: concrete instances of the hypotheses (ℚ) -/

/-- a three point table: value at a point, in a segment, outside -/
example : interpolate (build [((1 : ℚ), 3), (0, 1), (2, 2), (1, 7)]) 1 = some 3 ∧
    interpolate (build [((1 : ℚ), 3), (0, 1), (2, 2)]) (1 / 2) = some 2 ∧
    interpolate (build [((1 : ℚ), 3), (0, 1), (2, 2)]) 5 = some 2 ∧
    interpolate (build [((1 : ℚ), 3), (0, 1), (2, 2)]) (-1) = some 1 := by
  refine ⟨?_, ?_, ?_, ?_⟩ <;> decide +kernel

/-- the hypotheses of `time_loop_halving_ends_at_te` hold for the default options (`mSubSteps = 10`)
and `ε = 2^-52` on the step 4.5 -> 4.51; one rejected attempt then two accepted ones end at `te = 1`. -/
example : (0 : ℚ) < 1 / 2 ^ 52 ∧
    tEpsOf (fieldConsts (1 / 2 ^ 52 : ℚ)) (9 / 2) (451 / 100) * 2 ^ (10 : Int).toNat ≤ 451 / 100 - 9 / 2 := by
  constructor
  · norm_num
  · decide +kernel

example :
    (execute (fieldConsts (1 / 2 ^ 52 : ℚ))
        { dyn := false, mSub := 10, minTs := -1, maxTs := -1, minF := -1, maxF := -1 } 0 1
        [⟨false, 1, 3⟩, ⟨true, 1, 2⟩, ⟨true, 1, 2⟩]).endedAt = some (1, 3) := by
  decide +kernel

/-- dynamic mode, unset minimal time step: a rejected attempt with factor 2/5, then the loop reaches
`te = 1` exactly (the unfixed C++ ends at 6/5) -/
example :
    (execute (fieldConsts (1 / 2 ^ 52 : ℚ))
        { dyn := true, mSub := 10, minTs := -1, maxTs := -1, minF := -1, maxF := -1 } 0 1
        [⟨false, 2 / 5, 1⟩, ⟨true, 1, 2⟩, ⟨true, 1, 2⟩, ⟨true, 1, 2⟩, ⟨true, 1, 2⟩]).endedAt = some (1, 4) := by
  decide +kernel

/-- `checkConvergence` accepts a state that meets its loading -/
example : checkConvergence (fieldConsts (1 / 2 ^ 52 : ℚ)) 2 (1 / 1000) (1 / 10) 0 1 [0, 0, 0] [0, 0, 0]
    [1 / 2, 0, 0] [0, 7] [⟨.gradient, 0, true, .const (1 / 2)⟩, ⟨.force, 1, true, .lpi (build [(0, 0), (1, 7)])⟩]
    = true := by
  decide +kernel

end TfelVerif.C48
