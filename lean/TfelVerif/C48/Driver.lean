/- line-protocol driver of the C48 model (core Lean only): one request per line, one answer per line;
   numbers are IEEE-754 bit patterns in hexadecimal (see harness/C48/harness.cxx for the grammar) -/
import TfelVerif.C48.Model
open TfelVerif.C48

def floatConsts : Consts Float :=
  { zero := 0.0, one := 1.0, half := 0.5, tenth := 0.1, hundred := 100.0,
    eps := 2.220446049250313e-16, aone := 1.0 - 10.0 * 2.220446049250313e-16,
    abs := Float.abs, isFinite := Float.isFinite }

def hexDigit (c : Char) : Option Nat :=
  if '0' ≤ c ∧ c ≤ '9' then some (c.toNat - '0'.toNat)
  else if 'a' ≤ c ∧ c ≤ 'f' then some (c.toNat - 'a'.toNat + 10)
  else none

def parseHex (s : String) : Option Float :=
  if s.length ≠ 16 then none
  else
    let r := s.foldl (fun acc c => match acc, hexDigit c with
      | some n, some d => some (n * 16 + d)
      | _, _ => none) (some 0)
    r.map (fun n => Float.ofBits n.toUInt64)

def hexOfNat (n : Nat) : String :=
  let ds := (List.range 16).map (fun i =>
    let d := (n / 16 ^ (15 - i)) % 16
    if d < 10 then Char.ofNat (d + '0'.toNat) else Char.ofNat (d - 10 + 'a'.toNat))
  String.ofList ds

def showF (x : Float) : String := hexOfNat x.toBits.toNat

/-- a tiny state monad over the list of tokens -/
abbrev P := StateT (List String) Option

def tok : P String := do
  match (← get) with
  | [] => failure
  | t :: ts => set ts; pure t

def pNat : P Nat := do let t ← tok; match t.toNat? with | some n => pure n | none => failure
def pInt : P Int := do let t ← tok; match t.toInt? with | some n => pure n | none => failure
def pF : P Float := do let t ← tok; match parseHex t with | some x => pure x | none => failure

def pMany {β : Type} (p : P β) : Nat → P (List β)
  | 0 => pure []
  | n + 1 => do let x ← p; let xs ← pMany p n; pure (x :: xs)

def pPair : P (Float × Float) := do let a ← pF; let b ← pF; pure (a, b)

def pEvo : P (Evo Float) := do
  let k ← tok
  if k == "c" then
    let v ← pF
    pure (.const v)
  else if k == "l" then
    let n ← pNat
    let pts ← pMany pPair n
    pure (.lpi (build pts))
  else failure

def showVals (e : Evo Float) (xs : List Float) : Option String :=
  xs.foldlM (fun acc x => (e.eval x).map (fun v => acc ++ " " ++ showF v)) "v"

def opLpi : P String := do
  let n ← pNat
  let pts ← pMany pPair n
  let k ← pNat
  let sets ← pMany pPair k
  let m ← pNat
  let xs ← pMany pF m
  let tbl := sets.foldl (fun t p => insertOrAssign p.1 p.2 t) (build pts)
  match showVals (.lpi tbl) xs with
  | some s => pure (s ++ (if tbl.length == 1 then " const" else " var"))
  | none => pure "err"

def opCst : P String := do
  let v ← pF
  let m ← pNat
  let xs ← pMany pF m
  match showVals (.const v) xs with
  | some s => pure (s ++ " const")
  | none => pure "err"

/-- `fe`: the model gives the value of every evolution of the manager at each time (the bindings of
the formula's variables); the formula itself is evaluated by tfel::math::Evaluator (property C13) -/
def opFe : P String := do
  let _formula ← tok
  let ne ← pNat
  let evs ← pMany (do let n ← tok; let e ← pEvo; pure (n, e)) ne
  let m ← pNat
  let xs ← pMany pF m
  let one (x : Float) : Option String := do
    let bs ← evs.foldlM (fun acc (ne : String × Evo Float) =>
      (ne.2.eval x).map (fun v => acc ++ " " ++ ne.1 ++ "=" ++ showF v)) ""
    pure (" [" ++ bs ++ " t=" ++ showF x ++ " ]")
  match xs.foldlM (fun acc x => (one x).map (acc ++ ·)) "v" with
  | some s => pure s
  | none => pure "err"

def showEvent : Event Float → String
  | .attempt t dt => " a " ++ showF t ++ " " ++ showF dt
  | .output t => " o " ++ showF t

def showState (verdict : String) (s : LoopState Float) : String :=
  s!"{verdict} period={s.period} sub={s.subStep} iters={s.iters} dt_1={showF s.dt_1}" ++
    String.join (s.log.reverse.map showEvent)

def pKind : P AttKind := do
  let k ← pNat
  match k with
  | 0 => pure .ok | 1 => pure .integ | 2 => pure .noconv | 3 => pure .post | 4 => pure .prep
  | _ => failure

def opSolve : P String := do
  let dyn ← pNat
  let mSub ← pInt
  let iterMax ← pNat
  let pp ← pNat
  let nu ← pNat
  let minTs ← pF
  let maxTs ← pF
  let minF ← pF
  let maxF ← pF
  let ti ← pF
  let te ← pF
  let na ← pNat
  let atts ← pMany (do
    let k ← pKind
    let f ← pF
    let i ← pNat
    pure ({ kind := k, factor := f, iter := i } : Att Float)) na
  let o : Opts Float := { dyn := dyn != 0, mSub := mSub, minTs := minTs, maxTs := maxTs, minF := minF, maxF := maxF }
  let script := atts.map (attemptAnswer floatConsts iterMax pp (nu == 0))
  match execute floatConsts o ti te script with
  | .ended s => pure (showState "end" s)
  | .maxSub s => pure (showState "exc:maxsub" s)
  | .belowMin s => pure (showState "exc:belowmin" s)
  | .negative s => pure (showState "exc:negative" s)
  | .exhausted s => pure (showState "exc:exhausted" s)

def opCc : P String := do
  let ndv ← pNat
  let eeps ← pF
  let seps ← pF
  let t ← pF
  let dt ← pF
  let n ← pNat
  let du ← pMany pF n
  let r ← pMany pF n
  let u1 ← pMany pF n
  let s1 ← pMany pF ndv
  let nc ← pNat
  let cs ← pMany (do
    let k ← tok
    let comp ← pNat
    let act ← pNat
    let ev ← pEvo
    let kind ← (if k == "g" then pure ConsKind.gradient else if k == "f" then pure ConsKind.force else failure)
    pure ({ kind := kind, comp := comp, active := act != 0, ev := ev } : Cons Float)) nc
  pure (if checkConvergence floatConsts ndv eeps seps t dt du r u1 s1 cs then "1" else "0")

def answer (line : String) : String :=
  let toks := (line.splitOn " ").filter (· ≠ "")
  match toks with
  | [] => "bad-op"
  | op :: rest =>
    let p : Option (P String) :=
      if op == "lpi" then some opLpi
      else if op == "cst" then some opCst
      else if op == "fe" then some opFe
      else if op == "solve" then some opSolve
      else if op == "cc" then some opCc
      else none
    match p with
    | none => "bad-op"
    | some p =>
      match p.run rest with
      | some (s, _) => s
      | none => "bad-op"

partial def mainLoop (h : IO.FS.Stream) : IO Unit := do
  let line ← h.getLine
  if line.isEmpty then return ()
  IO.println (answer line.trimAscii.toString)
  mainLoop h

def main : IO Unit := do mainLoop (← IO.getStdin)
