/-
  C48 — helper lemmas (ordered-field instance of the model, invariants of the time loop,
  structural lemmas on the piecewise linear interpolation).
-/
import Mathlib.Algebra.Order.Field.Basic
import Mathlib.Algebra.Order.Ring.Abs
import Mathlib.Algebra.Order.Group.Abs
import Mathlib.Tactic.Ring
import Mathlib.Tactic.Linarith
import Mathlib.Tactic.FieldSimp
import Mathlib.Tactic.Positivity
import Mathlib.Tactic.SplitIfs
import Mathlib.Tactic.Common
import TfelVerif.C48.Model

namespace TfelVerif.C48

set_option linter.unusedSectionVars false

variable {K : Type} [Field K] [LinearOrder K] [IsStrictOrderedRing K]

/-- the exact-arithmetic instance of the constants: `ε` stands for the machine epsilon -/
def fieldConsts (ε : K) : Consts K :=
  { zero := 0, one := 1, half := 1 / 2, tenth := 1 / 10, hundred := 100, eps := ε,
    aone := 1 - 10 * ε, abs := fun x => |x|, isFinite := fun _ => true }

theorem cmax_eq_max (a b : K) : cmax a b = max a b := by
  unfold cmax
  split_ifs with h
  · exact (max_eq_right h.le).symm
  · exact (max_eq_left (not_lt.mp h)).symm

theorem cmin_eq_min (a b : K) : cmin a b = min a b := by
  unfold cmin
  split_ifs with h
  · exact (min_eq_right h.le).symm
  · exact (min_eq_left (not_lt.mp h)).symm

/-! ## Tables -/

/-- keys strictly increasing -/
def Sorted (m : Table K) : Prop := m.Pairwise (fun a b => a.1 < b.1)

theorem mem_insertIfAbsent {k v : K} {m : Table K} {b : K × K}
    (h : b ∈ insertIfAbsent k v m) : b = (k, v) ∨ b ∈ m := by
  induction m with
  | nil => simpa [insertIfAbsent] using h
  | cons a rest ih =>
    obtain ⟨k', v'⟩ := a
    unfold insertIfAbsent at h
    split_ifs at h with h1 h2
    · rcases List.mem_cons.mp h with h | h
      · exact Or.inl h
      · exact Or.inr h
    · rcases List.mem_cons.mp h with h | h
      · exact Or.inr (h ▸ List.mem_cons_self)
      · rcases ih h with h | h
        · exact Or.inl h
        · exact Or.inr (List.mem_cons_of_mem _ h)
    · exact Or.inr h

theorem mem_insertOrAssign {k v : K} {m : Table K} {b : K × K}
    (h : b ∈ insertOrAssign k v m) : b.1 = k ∨ b ∈ m := by
  induction m with
  | nil =>
    have : b = (k, v) := by simpa [insertOrAssign] using h
    exact Or.inl (by rw [this])
  | cons a rest ih =>
    obtain ⟨k', v'⟩ := a
    unfold insertOrAssign at h
    split_ifs at h with h1 h2
    · rcases List.mem_cons.mp h with h | h
      · exact Or.inl (by rw [h])
      · exact Or.inr h
    · rcases List.mem_cons.mp h with h | h
      · exact Or.inr (h ▸ List.mem_cons_self)
      · rcases ih h with h | h
        · exact Or.inl h
        · exact Or.inr (List.mem_cons_of_mem _ h)
    · rcases List.mem_cons.mp h with h | h
      · have hk : k = k' := le_antisymm (not_lt.mp h2) (not_lt.mp h1)
        exact Or.inl (by rw [h, hk])
      · exact Or.inr (List.mem_cons_of_mem _ h)

theorem sorted_insertIfAbsent (k v : K) {m : Table K} (hm : Sorted m) :
    Sorted (insertIfAbsent k v m) := by
  induction m with
  | nil => simp [insertIfAbsent, Sorted]
  | cons a rest ih =>
    obtain ⟨k', v'⟩ := a
    have hm' := List.pairwise_cons.mp hm
    unfold insertIfAbsent
    split_ifs with h1 h2
    · refine List.pairwise_cons.mpr ⟨?_, hm⟩
      intro b hb
      rcases List.mem_cons.mp hb with hb | hb
      · rw [hb]; exact h1
      · exact lt_trans h1 (hm'.1 b hb)
    · refine List.pairwise_cons.mpr ⟨?_, ih hm'.2⟩
      intro b hb
      rcases mem_insertIfAbsent hb with hb | hb
      · rw [hb]; exact h2
      · exact hm'.1 b hb
    · exact hm

theorem sorted_insertOrAssign (k v : K) {m : Table K} (hm : Sorted m) :
    Sorted (insertOrAssign k v m) := by
  induction m with
  | nil => simp [insertOrAssign, Sorted]
  | cons a rest ih =>
    obtain ⟨k', v'⟩ := a
    have hm' := List.pairwise_cons.mp hm
    unfold insertOrAssign
    split_ifs with h1 h2
    · refine List.pairwise_cons.mpr ⟨?_, hm⟩
      intro b hb
      rcases List.mem_cons.mp hb with hb | hb
      · rw [hb]; exact h1
      · exact lt_trans h1 (hm'.1 b hb)
    · refine List.pairwise_cons.mpr ⟨?_, ih hm'.2⟩
      intro b hb
      rcases mem_insertOrAssign hb with hb | hb
      · rw [hb]; exact h2
      · exact hm'.1 b hb
    · exact List.pairwise_cons.mpr ⟨hm'.1, hm'.2⟩

theorem sorted_foldl_insert (pts : List (K × K)) {m : Table K} (hm : Sorted m) :
    Sorted (pts.foldl (fun m p => insertIfAbsent p.1 p.2 m) m) := by
  induction pts generalizing m with
  | nil => exact hm
  | cons p rest ih => exact ih (sorted_insertIfAbsent p.1 p.2 hm)

/-! ## Interpolation -/

theorem interpolate_cons_cons (p q : K × K) (rest : Table K) (t : K) :
    interpolate (p :: q :: rest) t = if p.1 < t then some (interpGo t p (q :: rest)) else some p.2 := rfl

/-- all the keys are below `t`: the last value -/
theorem interpGo_all_lt (t : K) (rest : Table K) (prev : K × K) (h : ∀ q ∈ rest, q.1 < t) :
    interpGo t prev rest = ((prev :: rest).getLast (List.cons_ne_nil _ _)).2 := by
  induction rest generalizing prev with
  | nil => simp [interpGo]
  | cons q rest ih =>
    have hq : q.1 < t := h q List.mem_cons_self
    simp only [interpGo, hq, if_true]
    rw [ih q (fun x hx => h x (List.mem_cons_of_mem _ hx))]
    simp [List.getLast_cons]

/-- skipping the entries below `t`, then the segment `[x0, x1]` that contains `t` -/
theorem interpGo_segment (t : K) (pre post : Table K) (prev p0 p1 : K × K)
    (hpre : ∀ q ∈ pre, q.1 < t) (h0 : p0.1 < t) (h1 : ¬ p1.1 < t) :
    interpGo t prev (pre ++ p0 :: p1 :: post) =
      (p1.2 - p0.2) / (p1.1 - p0.1) * (t - p0.1) + p0.2 := by
  induction pre generalizing prev with
  | nil => simp [interpGo, h0, h1]
  | cons a pre ih =>
    have ha : a.1 < t := hpre a List.mem_cons_self
    simp only [List.cons_append, interpGo, ha, if_true]
    exact ih a (fun x hx => hpre x (List.mem_cons_of_mem _ hx))

theorem interpolate_segment_open {m pre post : Table K} {p0 p1 : K × K} {t : K}
    (hm : Sorted m) (hsplit : m = pre ++ p0 :: p1 :: post) (h0 : p0.1 < t) (h1 : t ≤ p1.1) :
    interpolate m t = some ((p1.2 - p0.2) / (p1.1 - p0.1) * (t - p0.1) + p0.2) := by
  subst hsplit
  have h1' : ¬ p1.1 < t := not_lt.mpr h1
  cases pre with
  | nil =>
    simp only [List.nil_append, interpolate_cons_cons, h0, if_true, interpGo, h1', if_false]
  | cons a pre =>
    have hsorted := List.pairwise_cons.mp hm
    have hlt : ∀ q ∈ a :: pre, q.1 < t := by
      intro q hq
      have hq0 : q.1 < p0.1 := by
        have := List.pairwise_append.mp hm
        exact this.2.2 q hq p0 List.mem_cons_self
      exact lt_trans hq0 h0
    have ha : a.1 < t := hlt a List.mem_cons_self
    cases pre with
    | nil =>
      simp only [List.cons_append, List.nil_append, interpolate_cons_cons, ha, if_true, interpGo, h0,
        h1', if_false]
    | cons b pre =>
      simp only [List.cons_append, interpolate_cons_cons, ha, if_true]
      have := interpGo_segment t (b :: pre) post a p0 p1
        (fun x hx => hlt x (List.mem_cons_of_mem _ hx)) h0 h1'
      simpa using congrArg some this

/-! ## The time loop -/

section loop
variable (ε : K)

/-- invariant of the halving mode: the remaining time is a positive whole number of steps -/
def InvH (o : Opts K) (ti te : K) (s : LoopState K) (n : ℕ) : Prop :=
  (1 ≤ n ∧ te - s.t = n * s.dt) ∧ s.dt * 2 ^ s.subStep = te - ti ∧
    Int.ofNat s.subStep < o.mSub

/-- variant of the halving mode: bounds the number of attempts still possible -/
def mu (o : Opts K) (s : LoopState K) (n : ℕ) : ℕ :=
  n * 2 ^ (o.mSub.toNat - s.subStep) + (o.mSub.toNat - s.subStep)

/-- invariant of the dynamic mode: the step goes exactly to `te`, or stops at least one minimal
time step before it -/
def InvD (o : Opts K) (te : K) (s : LoopState K) : Prop :=
  (s.dt = te - s.t ∨ s.dt ≤ te - s.t - max o.minTs 0) ∧ Int.ofNat s.subStep ≠ o.mSub


variable {ε}

theorem fc_abs (x : K) : (fieldConsts ε).abs x = |x| := rfl
theorem fc_zero : (fieldConsts ε).zero = 0 := rfl
theorem fc_one : (fieldConsts ε).one = 1 := rfl
theorem fc_half : (fieldConsts ε).half = 1 / 2 := rfl
theorem fc_hundred : (fieldConsts ε).hundred = 100 := rfl
theorem fc_eps : (fieldConsts ε).eps = ε := rfl

/-- halving mode, first part of the body -/
theorem stepFirst_halving {o : Opts K} {ti te : K} {s : LoopState K} {n : ℕ} (r : Answer K)
    (hdyn : o.dyn = false) (hε : 0 < ε) (hlt : ti < te)
    (hbound : tEpsOf (fieldConsts ε) ti te * 2 ^ o.mSub.toNat ≤ te - ti) (hinv : InvH o ti te s n) :
    match stepFirst (fieldConsts ε) o te (tEpsOf (fieldConsts ε) ti te) s r with
    | .inl e => ∀ sf, e ≠ .ended sf ∧ e ≠ .exhausted sf
    | .inr (s', true) => s'.t = te
    | .inr (s', false) => ∃ n', InvH o ti te s' n' ∧ mu o s' n' < mu o s n := by
  obtain ⟨⟨hn1, hn⟩, hdt, hsub⟩ := hinv
  have hsubM : s.subStep < o.mSub.toNat := by
    have : (s.subStep : Int) < o.mSub := hsub
    omega
  have h2k : 1 ≤ 2 ^ (o.mSub.toNat - s.subStep) := Nat.one_le_two_pow
  have hpos : 0 < te - ti := sub_pos.mpr hlt
  have h2pos : (0 : K) < 2 ^ s.subStep := by positivity
  have hdtpos : 0 < s.dt := by
    by_contra hc
    have : s.dt * 2 ^ s.subStep ≤ 0 := mul_nonpos_of_nonpos_of_nonneg (not_lt.mp hc) h2pos.le
    linarith
  have htEps : tEpsOf (fieldConsts ε) ti te = max (max |ti| |te|) (te - ti) * 100 * ε := by
    unfold tEpsOf
    rw [cmax_eq_max, cmax_eq_max]
    rfl
  have htEpspos : 0 < tEpsOf (fieldConsts ε) ti te := by
    rw [htEps]
    have : 0 < max (max |ti| |te|) (te - ti) := lt_of_lt_of_le hpos (le_max_right _ _)
    positivity
  -- the time step is not smaller than the end tolerance
  have hdtge : tEpsOf (fieldConsts ε) ti te ≤ s.dt := by
    have hk : s.subStep ≤ o.mSub.toNat := by
      have : (s.subStep : Int) < o.mSub := hsub
      omega
    have hpow : (2 : K) ^ s.subStep ≤ 2 ^ o.mSub.toNat := pow_le_pow_right₀ (by norm_num) hk
    have h1 : tEpsOf (fieldConsts ε) ti te * 2 ^ s.subStep ≤ s.dt * 2 ^ s.subStep := by
      rw [hdt]
      exact le_trans (mul_le_mul_of_nonneg_left hpow htEpspos.le) hbound
    exact le_of_mul_le_mul_right h1 h2pos
  generalize tEpsOf (fieldConsts ε) ti te = tEps at htEpspos hdtge ⊢
  unfold stepFirst
  simp only [hdyn, Bool.false_eq_true, if_false]
  cases hr : r.first with
  | true =>
    simp only [if_true]
    by_cases hn' : n = 1
    · -- last step: t + dt = te
      have hte : te - (s.t + s.dt) = 0 := by rw [hn'] at hn; push_cast at hn; linarith
      have : decide ((fieldConsts ε).abs (te - (s.t + s.dt)) < tEps) = true := by
        apply decide_eq_true
        show |te - (s.t + s.dt)| < tEps
        rw [hte, abs_zero]; exact htEpspos
      simp only [this, Bool.true_or]
      linarith
    · have hn2 : 2 ≤ n := by omega
      have hrem : te - (s.t + s.dt) = ((n - 1 : ℕ) : K) * s.dt := by
        have : ((n - 1 : ℕ) : K) = (n : K) - 1 := by
          rw [Nat.cast_sub hn1]; simp
        rw [this]; linarith
      have hn1' : (1 : K) ≤ ((n - 1 : ℕ) : K) := by
        have : 1 ≤ n - 1 := by omega
        exact_mod_cast this
      have hge : s.dt ≤ te - (s.t + s.dt) := by
        rw [hrem]
        calc s.dt = 1 * s.dt := (one_mul _).symm
          _ ≤ _ := mul_le_mul_of_nonneg_right hn1' hdtpos.le
      have hnonneg : 0 ≤ te - (s.t + s.dt) := le_trans hdtpos.le hge
      have h1 : decide ((fieldConsts ε).abs (te - (s.t + s.dt)) < tEps) = false := by
        apply decide_eq_false
        show ¬ |te - (s.t + s.dt)| < tEps
        rw [abs_of_nonneg hnonneg]
        exact not_lt.mpr (le_trans hdtge hge)
      have h2 : decide (te < s.t + s.dt) = false := decide_eq_false (by linarith)
      simp only [h1, h2, Bool.or_self]
      refine ⟨n - 1, ⟨⟨by omega, hrem⟩, hdt, hsub⟩, ?_⟩
      show (n - 1) * 2 ^ (o.mSub.toNat - s.subStep) + (o.mSub.toNat - s.subStep) <
        n * 2 ^ (o.mSub.toNat - s.subStep) + (o.mSub.toNat - s.subStep)
      have : n * 2 ^ (o.mSub.toNat - s.subStep) =
          (n - 1) * 2 ^ (o.mSub.toNat - s.subStep) + 2 ^ (o.mSub.toNat - s.subStep) := by
        have hn' : n = (n - 1) + 1 := by omega
        conv_lhs => rw [hn']
        ring
      omega
  | false =>
    simp only [Bool.false_eq_true, if_false]
    split_ifs with hmax
    · intro sf; exact ⟨(fun h => by cases h), (fun h => by cases h)⟩
    · have hsub' : ((s.subStep + 1 : ℕ) : Int) < o.mSub := by
        have h1 : (s.subStep : Int) < o.mSub := hsub
        have h2 : ((s.subStep + 1 : ℕ) : Int) ≠ o.mSub := hmax
        omega
      refine ⟨2 * n, ⟨⟨by omega, ?_⟩, ?_, hsub'⟩, ?_⟩
      · simp only [fc_half]; push_cast; rw [hn]; ring
      · simp only [fc_half]; rw [← hdt, pow_succ]; ring
      · show 2 * n * 2 ^ (o.mSub.toNat - (s.subStep + 1)) + (o.mSub.toNat - (s.subStep + 1)) <
          n * 2 ^ (o.mSub.toNat - s.subStep) + (o.mSub.toNat - s.subStep)
        have hd : o.mSub.toNat - s.subStep = (o.mSub.toNat - (s.subStep + 1)) + 1 := by omega
        rw [hd, pow_succ]
        have : 2 * n * 2 ^ (o.mSub.toNat - (s.subStep + 1)) =
            n * (2 ^ (o.mSub.toNat - (s.subStep + 1)) * 2) := by ring
        omega

theorem clampDt_halving {o : Opts K} {ti te : K} {s : LoopState K} {n : ℕ}
    (hdyn : o.dyn = false) (hlt : ti < te) (hinv : InvH o ti te s n) :
    clampDt (fieldConsts ε) o te s = s.dt := by
  obtain ⟨⟨hn1, hn⟩, hdt, _⟩ := hinv
  have hpos : 0 < te - ti := sub_pos.mpr hlt
  have h2pos : (0 : K) < 2 ^ s.subStep := by positivity
  have hdtpos : 0 < s.dt := by
    by_contra hc
    have : s.dt * 2 ^ s.subStep ≤ 0 := mul_nonpos_of_nonpos_of_nonneg (not_lt.mp hc) h2pos.le
    linarith
  have hn1' : (1 : K) ≤ (n : K) := by exact_mod_cast hn1
  have hge : s.dt ≤ te - s.t := by
    rw [hn]
    calc s.dt = 1 * s.dt := (one_mul _).symm
      _ ≤ _ := mul_le_mul_of_nonneg_right hn1' hdtpos.le
  unfold clampDt
  simp only [hdyn, Bool.false_eq_true, if_false]
  rw [if_neg (not_lt.mpr hge)]

theorem stepSecond_halving {o : Opts K} {ti te : K} {s s0 : LoopState K} {n n0 : ℕ}
    (hdyn : o.dyn = false) (hlt : ti < te) (hinv : InvH o ti te s n) (hmu : mu o s n < mu o s0 n0) :
    match stepSecond (fieldConsts ε) o te s with
    | .inl e => ∀ sf, e ≠ .ended sf ∧ e ≠ .exhausted sf
    | .inr (s', true) => s'.t = te
    | .inr (s', false) => ∃ n', InvH o ti te s' n' ∧ mu o s' n' < mu o s0 n0 := by
  unfold stepSecond
  rw [clampDt_halving (ε := ε) hdyn hlt hinv]
  dsimp only
  split_ifs
  · intro sf; exact ⟨(fun h => by cases h), (fun h => by cases h)⟩
  · intro sf; exact ⟨(fun h => by cases h), (fun h => by cases h)⟩
  · exact ⟨n, hinv, hmu⟩

theorem body_halving {o : Opts K} {ti te : K} {s : LoopState K} {n : ℕ} (r : Answer K)
    (hdyn : o.dyn = false) (hε : 0 < ε) (hlt : ti < te)
    (hbound : tEpsOf (fieldConsts ε) ti te * 2 ^ o.mSub.toNat ≤ te - ti) (hinv : InvH o ti te s n) :
    match body (fieldConsts ε) o te (tEpsOf (fieldConsts ε) ti te) s r with
    | .inl e => ∀ sf, e ≠ .ended sf ∧ e ≠ .exhausted sf
    | .inr (s', true) => s'.t = te
    | .inr (s', false) => ∃ n', InvH o ti te s' n' ∧ mu o s' n' < mu o s n := by
  have hinv' : InvH o ti te
    { s with iters := s.iters + r.iters, log := Event.attempt s.t s.dt :: s.log } n := hinv
  have h1 := stepFirst_halving (ε := ε) r hdyn hε hlt hbound hinv'
  unfold body
  dsimp only
  rcases hres : stepFirst (fieldConsts ε) o te (tEpsOf (fieldConsts ε) ti te)
    { s with iters := s.iters + r.iters, log := Event.attempt s.t s.dt :: s.log } r with e | ⟨s', b⟩
  · rw [hres] at h1
    exact h1
  · rw [hres] at h1
    cases b with
    | true => exact h1
    | false =>
      obtain ⟨n', hinv1, hmu⟩ := h1
      exact stepSecond_halving (s0 := s) hdyn hlt hinv1 hmu

theorem loop_halving {o : Opts K} {ti te : K} (hdyn : o.dyn = false) (hε : 0 < ε) (hlt : ti < te)
    (hbound : tEpsOf (fieldConsts ε) ti te * 2 ^ o.mSub.toNat ≤ te - ti) (script : List (Answer K)) :
    ∀ (s : LoopState K) (n : ℕ), InvH o ti te s n →
      (∀ sf, loop (fieldConsts ε) o te (tEpsOf (fieldConsts ε) ti te) script s = .ended sf → sf.t = te) ∧
      (mu o s n ≤ script.length →
        ∀ sf, loop (fieldConsts ε) o te (tEpsOf (fieldConsts ε) ti te) script s ≠ .exhausted sf) := by
  induction script with
  | nil =>
    intro s n hinv
    have hne : ¬ Int.ofNat s.subStep = o.mSub := ne_of_lt hinv.2.2
    constructor
    · intro sf h
      unfold loop at h
      simp only [hne, if_false] at h
      cases h
    · intro hlen
      have hpos : 1 ≤ mu o s n := by
        have h1 : 1 ≤ n := hinv.1.1
        have h2 : 1 ≤ 2 ^ (o.mSub.toNat - s.subStep) := Nat.one_le_two_pow
        have : 1 ≤ n * 2 ^ (o.mSub.toNat - s.subStep) := Nat.mul_le_mul h1 h2
        unfold mu
        omega
      simp at hlen
      omega
  | cons r rs ih =>
    intro s n hinv
    have hne : ¬ Int.ofNat s.subStep = o.mSub := ne_of_lt hinv.2.2
    have hb := body_halving (ε := ε) r hdyn hε hlt hbound hinv
    have hunf : loop (fieldConsts ε) o te (tEpsOf (fieldConsts ε) ti te) (r :: rs) s =
        match body (fieldConsts ε) o te (tEpsOf (fieldConsts ε) ti te) s r with
        | .inl e => e
        | .inr (s', true) => .ended s'
        | .inr (s', false) => loop (fieldConsts ε) o te (tEpsOf (fieldConsts ε) ti te) rs s' := by
      rw [loop]
      simp only [hne, if_false]
      rcases body (fieldConsts ε) o te (tEpsOf (fieldConsts ε) ti te) s r with e | ⟨s', b⟩
      · rfl
      · cases b <;> rfl
    rw [hunf]
    rcases hres : body (fieldConsts ε) o te (tEpsOf (fieldConsts ε) ti te) s r with e | ⟨s', b⟩
    · rw [hres] at hb
      simp only at hb ⊢
      exact ⟨fun sf h => absurd h (hb sf).1, fun _ sf h => absurd h (hb sf).2⟩
    · rw [hres] at hb
      cases b with
      | true =>
        simp only at hb ⊢
        refine ⟨fun sf h => ?_, (fun _ sf h => by cases h)⟩
        cases h
        exact hb
      | false =>
        simp only at hb ⊢
        obtain ⟨n', hinv', hmu⟩ := hb
        have := ih s' n' hinv'
        refine ⟨this.1, fun hlen => this.2 ?_⟩
        simp at hlen
        omega

theorem initState_invH {o : Opts K} {ti te : K} (hm : 1 ≤ o.mSub) :
    InvH o ti te (initState (fieldConsts ε) ti te) 1 := by
  refine ⟨⟨le_refl _, ?_⟩, ?_, ?_⟩
  · simp [initState]
  · simp [initState]
  · show Int.ofNat 0 < o.mSub
    have : Int.ofNat 0 = 0 := rfl
    omega

/-! ### dynamic time step scaling -/

/-- what a normal return of the dynamic mode guarantees about the time reached -/
def Reached (o : Opts K) (te tEps : K) (s : LoopState K) : Prop :=
  s.t ≤ te ∧ (s.t = te ∨ (te - s.t < tEps ∧ max o.minTs 0 ≤ te - s.t))

theorem stepFirst_dynamic {o : Opts K} {te tEps : K} {s : LoopState K} (r : Answer K)
    (hdyn : o.dyn = true) (hinv : InvD o te s) :
    match stepFirst (fieldConsts ε) o te tEps s r with
    | .inl e => ∀ sf, e ≠ .ended sf
    | .inr (s', true) => Reached o te tEps s'
    | .inr (s', false) => Int.ofNat s'.subStep ≠ o.mSub := by
  obtain ⟨hdt, hsub⟩ := hinv
  have hm : (0 : K) ≤ max o.minTs 0 := le_max_right _ _
  unfold stepFirst
  simp only [hdyn, if_true]
  generalize (r.first && decide ((fieldConsts ε).aone ≤ r.second)) = conv
  cases conv with
  | true =>
    simp only [if_true]
    by_cases hfin : (decide ((fieldConsts ε).abs (te - (s.t + s.dt)) < tEps) || decide (te < s.t + s.dt)) = true
    · simp only [hfin]
      show s.t + s.dt ≤ te ∧ (s.t + s.dt = te ∨ (te - (s.t + s.dt) < tEps ∧ max o.minTs 0 ≤ te - (s.t + s.dt)))
      rcases hdt with hdt | hdt
      · exact ⟨by linarith, Or.inl (by linarith)⟩
      · have hnn : 0 ≤ te - (s.t + s.dt) := by linarith
        refine ⟨by linarith, Or.inr ⟨?_, by linarith⟩⟩
        rcases Bool.or_eq_true _ _ |>.mp hfin with h | h
        · have h' : |te - (s.t + s.dt)| < tEps := of_decide_eq_true h
          rwa [abs_of_nonneg hnn] at h'
        · have := of_decide_eq_true h
          linarith
    · have hfin' : (decide ((fieldConsts ε).abs (te - (s.t + s.dt)) < tEps) || decide (te < s.t + s.dt)) = false := by
        simpa using hfin
      simp only [hfin']
      exact hsub
  | false =>
    simp only [Bool.false_eq_true, if_false]
    split_ifs with hmax <;> first | (intro sf h; cases h) | exact hmax

theorem clampDt_dynamic {o : Opts K} {te : K} {s : LoopState K} (hdyn : o.dyn = true) :
    clampDt (fieldConsts ε) o te s = te - s.t ∨
      clampDt (fieldConsts ε) o te s ≤ te - s.t - max o.minTs 0 := by
  unfold clampDt
  simp only [hdyn, if_true]
  generalize (if (fieldConsts ε).zero < o.maxTs then cmin s.dt o.maxTs else s.dt) = d
  rw [cmax_eq_max]
  split_ifs with h
  · exact Or.inl rfl
  · exact Or.inr (not_lt.mp h)

theorem stepSecond_dynamic {o : Opts K} {te tEps : K} {s : LoopState K}
    (hdyn : o.dyn = true) (hsub : Int.ofNat s.subStep ≠ o.mSub) :
    match stepSecond (fieldConsts ε) o te s with
    | .inl e => ∀ sf, e ≠ .ended sf
    | .inr (s', true) => Reached o te tEps s'
    | .inr (s', false) => InvD o te s' := by
  unfold stepSecond
  dsimp only
  split_ifs
  · intro sf h; cases h
  · intro sf h; cases h
  · exact ⟨clampDt_dynamic hdyn, hsub⟩

theorem body_dynamic {o : Opts K} {te tEps : K} {s : LoopState K} (r : Answer K)
    (hdyn : o.dyn = true) (hinv : InvD o te s) :
    match body (fieldConsts ε) o te tEps s r with
    | .inl e => ∀ sf, e ≠ .ended sf
    | .inr (s', true) => Reached o te tEps s'
    | .inr (s', false) => InvD o te s' := by
  have hinv' : InvD o te { s with iters := s.iters + r.iters, log := Event.attempt s.t s.dt :: s.log } := hinv
  have h1 := stepFirst_dynamic (ε := ε) (tEps := tEps) r hdyn hinv'
  unfold body
  dsimp only
  rcases hres : stepFirst (fieldConsts ε) o te tEps
    { s with iters := s.iters + r.iters, log := Event.attempt s.t s.dt :: s.log } r with e | ⟨s', b⟩
  · rw [hres] at h1
    exact h1
  · rw [hres] at h1
    cases b with
    | true => exact h1
    | false =>
      exact stepSecond_dynamic (ε := ε) (te := te) (tEps := tEps) hdyn h1

theorem loop_dynamic {o : Opts K} {te tEps : K} (hdyn : o.dyn = true) (script : List (Answer K)) :
    ∀ (s sf : LoopState K), InvD o te s →
      loop (fieldConsts ε) o te tEps script s = .ended sf → Reached o te tEps sf := by
  induction script with
  | nil =>
    intro s sf hinv h
    unfold loop at h
    simp only [hinv.2, if_false] at h
    cases h
  | cons r rs ih =>
    intro s sf hinv h
    unfold loop at h
    simp only [hinv.2, if_false] at h
    have hb := body_dynamic (ε := ε) (tEps := tEps) r hdyn hinv
    rcases hres : body (fieldConsts ε) o te tEps s r with e | ⟨s', b⟩
    · rw [hres] at h hb
      simp only at h hb
      exact absurd h (hb sf)
    · rw [hres] at h hb
      cases b with
      | true =>
        simp only at h hb
        cases h
        exact hb
      | false =>
        simp only at h hb
        exact ih s' sf hb h

/-! ## `checkConvergence` -/

theorem le_foldl_cmax (l : List K) (a : K) :
    a ≤ l.foldl (fun acc x => cmax acc |x|) a ∧
      ∀ x ∈ l, |x| ≤ l.foldl (fun acc x => cmax acc |x|) a := by
  induction l generalizing a with
  | nil => simp
  | cons y l ih =>
    simp only [List.foldl_cons, cmax_eq_max]
    have h := ih (max a |y|)
    simp only [cmax_eq_max] at h
    refine ⟨le_trans (le_max_left _ _) h.1, ?_⟩
    intro x hx
    rcases List.mem_cons.mp hx with hx | hx
    · rw [hx]; exact le_trans (le_max_right _ _) h.1
    · exact h.2 x hx

theorem abs_le_errNorm (v : List K) (n : Nat) : ∀ x ∈ v.take n, |x| ≤ errNorm (fieldConsts ε) v n := by
  intro x hx
  exact (le_foldl_cmax (v.take n) 0).2 x hx

end loop

end TfelVerif.C48
