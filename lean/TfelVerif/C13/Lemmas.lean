/-
  C13 — helper lemmas (the property theorems are in Props.lean).
-/
import Mathlib.Tactic.Common
import Mathlib.Tactic.SplitIfs
import TfelVerif.C13.Spec

namespace TfelVerif.C13
open Item

variable {α : Type} [Alg α]

/-! ### one step of `TGroup::reduce(op)` -/

theorem pa_nil (k : Op) (pre : List (Item α)) : passAux k pre [] = .ok pre.reverse := by
  rw [passAux.eq_def]
theorem pa_opnd (k : Op) (pre : List (Item α)) (a : α) (rest) :
    passAux k pre (opnd a :: rest) = passAux k (opnd a :: pre) rest := by
  rw [passAux.eq_def]
theorem pa_other (k o : Op) (h : o ≠ k) (pre : List (Item α)) (rest) :
    passAux k pre (oper o :: rest) = passAux k (oper o :: pre) rest := by
  rw [passAux.eq_def]; simp [h]
theorem pa_bin (k : Op) (pre : List (Item α)) (a b : α) (rest) :
    passAux k (opnd a :: pre) (oper k :: opnd b :: rest) = passAux k (opnd (Alg.bin k a b) :: pre) rest := by
  rw [passAux.eq_def]; simp
theorem pa_binneg (k : Op) (hk : k ≠ .sub) (pre : List (Item α)) (a b : α) (rest) :
    passAux k (opnd a :: pre) (oper k :: oper .sub :: opnd b :: rest)
      = passAux k (opnd (Alg.bin k a (Alg.neg b)) :: pre) rest := by
  rw [passAux.eq_def]; simp [hk]
theorem pa_begin (a : α) (rest : List (Item α)) :
    passAux .sub [] (oper .sub :: opnd a :: rest) = passAux .sub [opnd (Alg.neg a)] rest := by
  rw [passAux.eq_def]; simp
theorem pa_plusneg (pre : List (Item α)) (a : α) (rest : List (Item α)) :
    passAux .sub (oper .add :: pre) (oper .sub :: opnd a :: rest)
      = passAux .sub (opnd (Alg.neg a) :: oper .add :: pre) rest := by
  rw [passAux.eq_def]; simp

/-! ### a pass on a shape folds the runs of its operator -/

theorem foldK_head_flag (k : Op) (cur : Bool × α) (t : List (Entry α)) : (foldK k cur t).1.1 = cur.1 := by
  induction t generalizing cur with
  | nil => simp [foldK]
  | cons e t ih =>
    obtain ⟨o, n, b⟩ := e
    simp only [foldK]
    split_ifs with h
    · rw [ih]
    · rfl

theorem passAux_foldK (k : Op) (hk : k ≠ .sub) (t : List (Entry α)) :
    ∀ (n : Bool) (a : α) (pre : List (Item α)),
      passAux k (opnd a :: pre) (flattenTail t)
        = .ok (pre.reverse ++ opnd (foldK k (n, a) t).1.2 :: flattenTail (foldK k (n, a) t).2) := by
  induction t with
  | nil => intro n a pre; simp [flattenTail, foldK, pa_nil]
  | cons e t ih =>
    intro n a pre
    obtain ⟨o, m, b⟩ := e
    by_cases ho : o = k
    · subst ho
      cases m
      · simp only [flattenTail, foldK, negIf, if_true, Bool.false_eq_true, if_false, List.nil_append]
        rw [pa_bin, ih n]
      · simp only [flattenTail, foldK, negIf, if_true, List.singleton_append]
        rw [pa_binneg _ hk, ih n]
    · cases m
      · simp only [flattenTail, foldK, ho, if_false, Bool.false_eq_true, List.nil_append]
        rw [pa_other _ _ ho, pa_opnd, ih false]
        simp [flattenTail, foldK_head_flag]
      · have hs : Op.sub ≠ k := fun h => hk h.symm
        simp only [flattenTail, foldK, ho, if_false, if_true, List.singleton_append]
        rw [pa_other _ _ ho, pa_other _ _ hs, pa_opnd, ih true]
        simp [flattenTail, foldK_head_flag]

theorem pass_flatten (k : Op) (hk : k ≠ .sub) (s : Flat α) :
    pass k (flatten s) = .ok (flatten (foldL k s)) := by
  obtain ⟨⟨n, a⟩, t⟩ := s
  have hs : Op.sub ≠ k := fun h => hk h.symm
  cases n
  · simp only [pass, flatten, flattenHead, foldL, Bool.false_eq_true, if_false, List.nil_append,
      List.singleton_append]
    rw [pa_opnd, passAux_foldK k hk t false]
    simp [foldK_head_flag]
  · simp only [pass, flatten, flattenHead, foldL, if_true, List.singleton_append, List.cons_append,
      List.nil_append]
    rw [pa_other _ _ hs, pa_opnd, passAux_foldK k hk t true]
    simp [foldK_head_flag]


/-- what the `-` pass needs: the higher levels are gone (a unary minus only after `+`), no `- -` -/
def SubReady (t : List (Entry α)) : Prop :=
  ∀ e ∈ t, (e.1 = Op.sub → e.2.1 = false) ∧ (e.2.1 = true → e.1 = Op.add)

theorem foldSub_head_flag (a : α) (t : List (Entry α)) : (foldSub a t).1.1 = false := by
  induction t generalizing a with
  | nil => simp [foldSub]
  | cons e t ih =>
    obtain ⟨o, n, b⟩ := e
    simp only [foldSub]
    split_ifs with h
    · rw [ih]
    · rfl

theorem passAux_foldSub (t : List (Entry α)) (ht : SubReady t) :
    ∀ (a : α) (pre : List (Item α)),
      passAux .sub (opnd a :: pre) (flattenTail t)
        = .ok (pre.reverse ++ opnd (foldSub a t).1.2 :: flattenTail (foldSub a t).2) := by
  induction t with
  | nil => intro a pre; simp [flattenTail, foldSub, pa_nil]
  | cons e t ih =>
    intro a pre
    obtain ⟨o, m, b⟩ := e
    have ht' : SubReady t := fun e he => ht e (List.mem_cons_of_mem _ he)
    have h0 := ht (o, m, b) (List.mem_cons_self ..)
    by_cases ho : o = Op.sub
    · subst ho
      have hm : m = false := h0.1 rfl
      subst hm
      simp only [flattenTail, foldSub, if_true, Bool.false_eq_true, if_false, List.nil_append]
      rw [pa_bin, ih ht']
    · cases m
      · simp only [flattenTail, foldSub, ho, if_false, Bool.false_eq_true, List.nil_append, negIf]
        rw [pa_other _ _ ho, pa_opnd, ih ht']
        simp [flattenTail]
      · have ha : o = Op.add := h0.2 rfl
        subst ha
        simp only [flattenTail, foldSub, if_true, List.singleton_append, negIf]
        rw [pa_other _ _ (by decide), pa_plusneg, ih ht']
        simp [flattenTail]

theorem pass_sub_flatten (s : Flat α) (hs : SubReady s.2) :
    pass .sub (flatten s) = .ok (flatten (foldS s)) := by
  obtain ⟨⟨n, a⟩, t⟩ := s
  cases n
  · simp only [pass, flatten, flattenHead, foldS, negIf, Bool.false_eq_true, if_false, List.nil_append,
      List.singleton_append]
    rw [pa_opnd, passAux_foldSub t hs]
    simp [foldSub_head_flag]
  · simp only [pass, flatten, flattenHead, foldS, negIf, if_true, List.singleton_append, List.cons_append,
      List.nil_append]
    rw [pa_begin, passAux_foldSub t hs]
    simp [foldSub_head_flag]

/-! ### the skeleton (operators and unary-minus flags) through the folds -/

def sk (e : Entry α) : Op × Bool := (e.1, e.2.1)

theorem foldK_sk (k : Op) (cur : Bool × α) (t : List (Entry α)) :
    (foldK k cur t).2.map sk = (t.filter (fun e => decide (e.1 ≠ k))).map sk := by
  induction t generalizing cur with
  | nil => simp [foldK]
  | cons e t ih =>
    obtain ⟨o, n, b⟩ := e
    simp only [foldK]
    split_ifs with h
    · rw [ih]; simp [h]
    · simp [List.filter_cons, h, ih, sk, foldK_head_flag]

theorem foldSub_sk (a : α) (t : List (Entry α)) :
    (foldSub a t).2.map sk = (t.filter (fun e => decide (e.1 ≠ Op.sub))).map (fun e => (e.1, false)) := by
  induction t generalizing a with
  | nil => simp [foldSub]
  | cons e t ih =>
    obtain ⟨o, n, b⟩ := e
    simp only [foldSub]
    split_ifs with h
    · rw [ih]; simp [h]
    · simp [List.filter_cons, h, ih, sk]

theorem mem_sk_of_mem {t : List (Entry α)} {e : Entry α} (h : e ∈ t) : sk e ∈ t.map sk :=
  List.mem_map_of_mem h


theorem filter_sk (p : Op → Bool) (t : List (Entry α)) :
    (t.filter (fun e => p e.1)).map sk = (t.map sk).filter (fun q => p q.1) := by
  induction t with
  | nil => rfl
  | cons e t ih => simp only [List.filter_cons, List.map_cons, sk]; split_ifs <;> simp_all [sk]

/-- skeleton of a shape -/
def skel (s : Flat α) : List (Op × Bool) := s.2.map sk

theorem skel_foldL (k : Op) (s : Flat α) : skel (foldL k s) = (skel s).filter (fun q => decide (q.1 ≠ k)) := by
  simp only [skel, foldL, foldK_sk]; exact filter_sk (fun o => decide (o ≠ k)) s.2

theorem skel_foldS (s : Flat α) :
    skel (foldS s) = ((skel s).filter (fun q => decide (q.1 ≠ Op.sub))).map (fun q => (q.1, false)) := by
  simp only [skel, foldS, foldSub_sk]
  rw [← filter_sk (fun o => decide (o ≠ Op.sub)) s.2]
  simp [sk, List.map_map, Function.comp_def]

theorem reduceItems_flatten (s : Flat α) (hs : s.WF) :
    reduceItems (flatten s) = .ok [opnd (T5 s)] := by
  -- skeleton facts
  have h3 : ∀ q ∈ skel (foldL .mul (foldL .div (foldL .pow s))),
      q ∈ skel s ∧ q.1 ≠ .pow ∧ q.1 ≠ .div ∧ q.1 ≠ .mul := by
    intro q hq
    simp only [skel_foldL, List.mem_filter, decide_eq_true_eq] at hq
    tauto
  have hready : SubReady (foldL .mul (foldL .div (foldL .pow s))).2 := by
    intro e he
    obtain ⟨hmem, h1, h2, h3'⟩ := h3 (sk e) (mem_sk_of_mem he)
    obtain ⟨e', he', hsk⟩ := List.mem_map.mp hmem
    have hw := hs e' he'
    simp only [sk, Prod.mk.injEq] at hsk h1 h2 h3'
    constructor
    · intro h; rw [← hsk.2]; exact hw (by rw [hsk.1]; exact h)
    · intro hf
      have : e.1 ≠ Op.sub := by
        intro h
        have := hw (by rw [hsk.1]; exact h)
        rw [hsk.2] at this; rw [this] at hf; exact Bool.false_ne_true hf
      revert h1 h2 h3' this; cases e.1 <;> simp
  have h5 : skel (levels s) = [] := by
    simp only [levels, skel_foldL, skel_foldS]
    rw [List.filter_eq_nil_iff]
    intro q hq
    simp only [List.mem_map, List.mem_filter, decide_eq_true_eq] at hq
    obtain ⟨q', ⟨hq', hne⟩, rfl⟩ := hq
    obtain ⟨⟨⟨_, h1⟩, h2⟩, h3'⟩ := hq'
    revert h1 h2 h3' hne; cases q'.1 <;> simp
  have htail : (levels s).2 = [] := by simpa [skel] using h5
  have hflag : (levels s).1.1 = false := by
    simp only [levels, foldL, foldK_head_flag, foldS, foldSub_head_flag]
  have hfl : flatten (levels s) = [opnd (T5 s)] := by
    simp [flatten, flattenHead, flattenTail, htail, hflag, T5]
  rw [← hfl]
  simp only [reduceItems, levels]
  rw [pass_flatten _ (by decide)]
  simp only [bind, Except.bind]
  rw [pass_flatten _ (by decide)]
  simp only []
  rw [pass_flatten _ (by decide)]
  simp only []
  rw [pass_sub_flatten _ hready]
  simp only []
  rw [pass_flatten _ (by decide)]

end TfelVerif.C13
