/-
  C13 — helper lemmas (the property theorems are in Props.lean).
-/
import Mathlib.Tactic.Common
import Mathlib.Tactic.SplitIfs
import TfelVerif.C13.Spec

namespace TfelVerif.C13
open Item

variable {α : Type} [Alg α]

/-! ### one step of `TGroup::reduce(op)` -/

theorem pa_nil (k : Op) (pre : List (Item α)) : passAux k pre [] = .ok pre.reverse := by
  rw [passAux.eq_def]
theorem pa_opnd (k : Op) (pre : List (Item α)) (a : α) (rest) :
    passAux k pre (opnd a :: rest) = passAux k (opnd a :: pre) rest := by
  rw [passAux.eq_def]
theorem pa_other (k o : Op) (h : o ≠ k) (pre : List (Item α)) (rest) :
    passAux k pre (oper o :: rest) = passAux k (oper o :: pre) rest := by
  rw [passAux.eq_def]; simp [h]
theorem pa_bin (k : Op) (pre : List (Item α)) (a b : α) (rest) :
    passAux k (opnd a :: pre) (oper k :: opnd b :: rest) = passAux k (opnd (Alg.bin k a b) :: pre) rest := by
  rw [passAux.eq_def]; simp
theorem pa_binneg (k : Op) (hk : k ≠ .sub) (pre : List (Item α)) (a b : α) (rest) :
    passAux k (opnd a :: pre) (oper k :: oper .sub :: opnd b :: rest)
      = passAux k (opnd (Alg.bin k a (Alg.neg b)) :: pre) rest := by
  rw [passAux.eq_def]; simp [hk]
theorem pa_begin (a : α) (rest : List (Item α)) :
    passAux .sub [] (oper .sub :: opnd a :: rest) = passAux .sub [opnd (Alg.neg a)] rest := by
  rw [passAux.eq_def]; simp
theorem pa_plusneg (pre : List (Item α)) (a : α) (rest : List (Item α)) :
    passAux .sub (oper .add :: pre) (oper .sub :: opnd a :: rest)
      = passAux .sub (opnd (Alg.neg a) :: oper .add :: pre) rest := by
  rw [passAux.eq_def]; simp

/-! ### a pass on a shape folds the runs of its operator -/

theorem foldK_head_flag (k : Op) (cur : Bool × α) (t : List (Entry α)) : (foldK k cur t).1.1 = cur.1 := by
  induction t generalizing cur with
  | nil => simp [foldK]
  | cons e t ih =>
    obtain ⟨o, n, b⟩ := e
    simp only [foldK]
    split_ifs with h
    · rw [ih]
    · rfl

theorem passAux_foldK (k : Op) (hk : k ≠ .sub) (t : List (Entry α)) :
    ∀ (n : Bool) (a : α) (pre : List (Item α)),
      passAux k (opnd a :: pre) (flattenTail t)
        = .ok (pre.reverse ++ opnd (foldK k (n, a) t).1.2 :: flattenTail (foldK k (n, a) t).2) := by
  induction t with
  | nil => intro n a pre; simp [flattenTail, foldK, pa_nil]
  | cons e t ih =>
    intro n a pre
    obtain ⟨o, m, b⟩ := e
    by_cases ho : o = k
    · subst ho
      cases m
      · simp only [flattenTail, foldK, negIf, if_true, Bool.false_eq_true, if_false, List.nil_append]
        rw [pa_bin, ih n]
      · simp only [flattenTail, foldK, negIf, if_true, List.singleton_append]
        rw [pa_binneg _ hk, ih n]
    · cases m
      · simp only [flattenTail, foldK, ho, if_false, Bool.false_eq_true, List.nil_append]
        rw [pa_other _ _ ho, pa_opnd, ih false]
        simp [flattenTail, foldK_head_flag]
      · have hs : Op.sub ≠ k := fun h => hk h.symm
        simp only [flattenTail, foldK, ho, if_false, if_true, List.singleton_append]
        rw [pa_other _ _ ho, pa_other _ _ hs, pa_opnd, ih true]
        simp [flattenTail, foldK_head_flag]

theorem pass_flatten (k : Op) (hk : k ≠ .sub) (s : Flat α) :
    pass k (flatten s) = .ok (flatten (foldL k s)) := by
  obtain ⟨⟨n, a⟩, t⟩ := s
  have hs : Op.sub ≠ k := fun h => hk h.symm
  cases n
  · simp only [pass, flatten, flattenHead, foldL, Bool.false_eq_true, if_false, List.nil_append,
      List.singleton_append]
    rw [pa_opnd, passAux_foldK k hk t false]
    simp [foldK_head_flag]
  · simp only [pass, flatten, flattenHead, foldL, if_true, List.singleton_append, List.cons_append,
      List.nil_append]
    rw [pa_other _ _ hs, pa_opnd, passAux_foldK k hk t true]
    simp [foldK_head_flag]


/-- what the `-` pass needs: the higher levels are gone (a unary minus only after `+`), no `- -` -/
def SubReady (t : List (Entry α)) : Prop :=
  ∀ e ∈ t, (e.1 = Op.sub → e.2.1 = false) ∧ (e.2.1 = true → e.1 = Op.add)

theorem foldSub_head_flag (a : α) (t : List (Entry α)) : (foldSub a t).1.1 = false := by
  induction t generalizing a with
  | nil => simp [foldSub]
  | cons e t ih =>
    obtain ⟨o, n, b⟩ := e
    simp only [foldSub]
    split_ifs with h
    · rw [ih]
    · rfl

theorem passAux_foldSub (t : List (Entry α)) (ht : SubReady t) :
    ∀ (a : α) (pre : List (Item α)),
      passAux .sub (opnd a :: pre) (flattenTail t)
        = .ok (pre.reverse ++ opnd (foldSub a t).1.2 :: flattenTail (foldSub a t).2) := by
  induction t with
  | nil => intro a pre; simp [flattenTail, foldSub, pa_nil]
  | cons e t ih =>
    intro a pre
    obtain ⟨o, m, b⟩ := e
    have ht' : SubReady t := fun e he => ht e (List.mem_cons_of_mem _ he)
    have h0 := ht (o, m, b) (List.mem_cons_self ..)
    by_cases ho : o = Op.sub
    · subst ho
      have hm : m = false := h0.1 rfl
      subst hm
      simp only [flattenTail, foldSub, if_true, Bool.false_eq_true, if_false, List.nil_append]
      rw [pa_bin, ih ht']
    · cases m
      · simp only [flattenTail, foldSub, ho, if_false, Bool.false_eq_true, List.nil_append, negIf]
        rw [pa_other _ _ ho, pa_opnd, ih ht']
        simp [flattenTail]
      · have ha : o = Op.add := h0.2 rfl
        subst ha
        simp only [flattenTail, foldSub, if_true, List.singleton_append, negIf]
        rw [pa_other _ _ (by decide), pa_plusneg, ih ht']
        simp [flattenTail]

theorem pass_sub_flatten (s : Flat α) (hs : SubReady s.2) :
    pass .sub (flatten s) = .ok (flatten (foldS s)) := by
  obtain ⟨⟨n, a⟩, t⟩ := s
  cases n
  · simp only [pass, flatten, flattenHead, foldS, negIf, Bool.false_eq_true, if_false, List.nil_append,
      List.singleton_append]
    rw [pa_opnd, passAux_foldSub t hs]
    simp [foldSub_head_flag]
  · simp only [pass, flatten, flattenHead, foldS, negIf, if_true, List.singleton_append, List.cons_append,
      List.nil_append]
    rw [pa_begin, passAux_foldSub t hs]
    simp [foldSub_head_flag]

/-! ### the skeleton (operators and unary-minus flags) through the folds -/

def sk (e : Entry α) : Op × Bool := (e.1, e.2.1)

theorem foldK_sk (k : Op) (cur : Bool × α) (t : List (Entry α)) :
    (foldK k cur t).2.map sk = (t.filter (fun e => decide (e.1 ≠ k))).map sk := by
  induction t generalizing cur with
  | nil => simp [foldK]
  | cons e t ih =>
    obtain ⟨o, n, b⟩ := e
    simp only [foldK]
    split_ifs with h
    · rw [ih]; simp [h]
    · simp [List.filter_cons, h, ih, sk, foldK_head_flag]

theorem foldSub_sk (a : α) (t : List (Entry α)) :
    (foldSub a t).2.map sk = (t.filter (fun e => decide (e.1 ≠ Op.sub))).map (fun e => (e.1, false)) := by
  induction t generalizing a with
  | nil => simp [foldSub]
  | cons e t ih =>
    obtain ⟨o, n, b⟩ := e
    simp only [foldSub]
    split_ifs with h
    · rw [ih]; simp [h]
    · simp [List.filter_cons, h, ih, sk]

omit [Alg α] in
theorem mem_sk_of_mem {t : List (Entry α)} {e : Entry α} (h : e ∈ t) : sk e ∈ t.map sk :=
  List.mem_map_of_mem h


omit [Alg α] in
theorem filter_sk (p : Op → Bool) (t : List (Entry α)) :
    (t.filter (fun e => p e.1)).map sk = (t.map sk).filter (fun q => p q.1) := by
  induction t with
  | nil => rfl
  | cons e t ih => simp only [List.filter_cons, List.map_cons, sk]; split_ifs <;> simp_all [sk]

/-- skeleton of a shape -/
def skel (s : Flat α) : List (Op × Bool) := s.2.map sk

theorem skel_foldL (k : Op) (s : Flat α) : skel (foldL k s) = (skel s).filter (fun q => decide (q.1 ≠ k)) := by
  simp only [skel, foldL, foldK_sk]; exact filter_sk (fun o => decide (o ≠ k)) s.2

theorem skel_foldS (s : Flat α) :
    skel (foldS s) = ((skel s).filter (fun q => decide (q.1 ≠ Op.sub))).map (fun q => (q.1, false)) := by
  simp only [skel, foldS, foldSub_sk]
  rw [← filter_sk (fun o => decide (o ≠ Op.sub)) s.2]
  simp [sk, List.map_map, Function.comp_def]

theorem reduceItems_flatten (s : Flat α) (hs : s.WF) :
    reduceItems (flatten s) = .ok [opnd (T5 s)] := by
  -- skeleton facts
  have h3 : ∀ q ∈ skel (foldL .mul (foldL .div (foldL .pow s))),
      q ∈ skel s ∧ q.1 ≠ .pow ∧ q.1 ≠ .div ∧ q.1 ≠ .mul := by
    intro q hq
    simp only [skel_foldL, List.mem_filter, decide_eq_true_eq] at hq
    tauto
  have hready : SubReady (foldL .mul (foldL .div (foldL .pow s))).2 := by
    intro e he
    obtain ⟨hmem, h1, h2, h3'⟩ := h3 (sk e) (mem_sk_of_mem he)
    obtain ⟨e', he', hsk⟩ := List.mem_map.mp hmem
    have hw := hs e' he'
    simp only [sk, Prod.mk.injEq] at hsk h1 h2 h3'
    constructor
    · intro h; rw [← hsk.2]; exact hw (by rw [hsk.1]; exact h)
    · intro hf
      have : e.1 ≠ Op.sub := by
        intro h
        have := hw (by rw [hsk.1]; exact h)
        rw [hsk.2] at this; rw [this] at hf; exact Bool.false_ne_true hf
      revert h1 h2 h3' this; cases e.1 <;> simp
  have h5 : skel (levels s) = [] := by
    simp only [levels, skel_foldL, skel_foldS]
    rw [List.filter_eq_nil_iff]
    intro q hq
    simp only [List.mem_map, List.mem_filter, decide_eq_true_eq] at hq
    obtain ⟨q', ⟨hq', hne⟩, rfl⟩ := hq
    obtain ⟨⟨⟨_, h1⟩, h2⟩, h3'⟩ := hq'
    revert h1 h2 h3' hne; cases q'.1 <;> simp
  have htail : (levels s).2 = [] := by simpa [skel] using h5
  have hflag : (levels s).1.1 = false := by
    simp only [levels, foldL, foldK_head_flag, foldS, foldSub_head_flag]
  have hfl : flatten (levels s) = [opnd (T5 s)] := by
    simp [flatten, flattenHead, flattenTail, htail, hflag, T5]
  rw [← hfl]
  simp only [reduceItems, levels]
  rw [pass_flatten _ (by decide)]
  simp only [bind, Except.bind]
  rw [pass_flatten _ (by decide)]
  simp only []
  rw [pass_flatten _ (by decide)]
  simp only []
  rw [pass_sub_flatten _ hready]
  simp only []
  rw [pass_flatten _ (by decide)]


/-! ### the automaton of shapes is invariant under a pass -/

omit [Alg α] in
theorem run_append (q : St) (l1 l2 : List (Item α)) :
    St.run q (l1 ++ l2) = (St.run q l1).bind (fun q' => St.run q' l2) := by
  induction l1 generalizing q with
  | nil => simp [St.run]
  | cons i l ih =>
    simp only [List.cons_append, St.run]
    cases h : q.step i with
    | none => simp
    | some q' => simp [ih]

omit [Alg α] in
theorem run_mid (p l1 l2 : List (Item α)) (h : ∀ q0, St.run q0 l1 = St.run q0 l2) (q : St) :
    St.run q (p ++ l1) = St.run q (p ++ l2) := by
  rw [run_append, run_append]
  cases St.run q p with
  | none => rfl
  | some q' => simp [h]

theorem run_passAux (k : Op) (pre rest : List (Item α)) :
    ∀ l', passAux k pre rest = .ok l' → St.run .start l' = St.run .start (pre.reverse ++ rest) := by
  fun_induction passAux k pre rest <;> intro l' h
  all_goals first
    | (cases h; done)
    | (simp only [Except.ok.injEq] at h; subst h; simp; done)
    | skip
  case case2 ih => rw [ih _ h]; simp
  case case3 ih => rw [ih _ h]; simp
  case case7 o hk hs x r ih =>
    simp only [ne_eq, not_not] at hk hs; subst hk; subst hs
    rw [ih _ h]; simp [St.run, St.step]
  case case12 o hk po pre' r hs hp x ih =>
    simp only [ne_eq, not_not] at hk hs hp; subst hk; subst hs; subst hp
    rw [ih _ h]
    simp only [List.reverse_cons, List.append_assoc]
    apply run_mid; intro q0
    cases q0 <;> simp [St.run, St.step]
  case case13 o hk a pre' b r ih =>
    simp only [ne_eq, not_not] at hk; subst hk
    rw [ih _ h]
    simp only [List.reverse_cons, List.append_assoc]
    apply run_mid; intro q0
    cases q0 <;> cases o <;> simp [St.run, St.step]
  case case18 o hk a pre' no hs hn x r ih =>
    simp only [ne_eq, not_not] at hk hs hn; subst hk; subst hn
    rw [ih _ h]
    simp only [List.reverse_cons, List.append_assoc]
    apply run_mid; intro q0
    cases q0 <;> cases o <;> simp_all [St.run, St.step]

theorem run_reduceItems (l l' : List (Item α)) (h : reduceItems l = .ok l') :
    St.run .start l' = St.run .start l := by
  simp only [reduceItems, pass, bind, Except.bind] at h
  split at h <;> try cases h
  rename_i l4 h4
  split at h4 <;> try cases h4
  rename_i l3 h3
  split at h3 <;> try cases h3
  rename_i l2 h2
  split at h2 <;> try cases h2
  rename_i l1 h1
  have e1 := run_passAux _ _ _ _ h1
  have e2 := run_passAux _ _ _ _ h2
  have e3 := run_passAux _ _ _ _ h3
  have e4 := run_passAux _ _ _ _ h4
  have e5 := run_passAux _ _ _ _ h
  simp only [List.reverse_nil, List.nil_append] at e1 e2 e3 e4 e5
  rw [e5, e4, e3, e2, e1]

omit [Alg α] in
theorem unflatTail_of_run (r : List (Item α)) (h : St.run .opnd r = some .opnd) :
    ∃ t, unflatTail r = some t := by
  fun_induction unflatTail r
  case case1 => exact ⟨_, rfl⟩
  case case2 o b r ih =>
    have : St.run .opnd r = some .opnd := by cases o <;> simpa [St.run, St.step] using h
    obtain ⟨t, ht⟩ := ih this
    exact ⟨_, by rw [ht]; rfl⟩
  case case3 => simp [St.run, St.step] at h
  case case4 o b r ho ih =>
    have : St.run .opnd r = some .opnd := by cases o <;> simp_all [St.run, St.step]
    obtain ⟨t, ht⟩ := ih this
    exact ⟨_, by rw [ht]; rfl⟩
  case case5 t h1 h2 h3 =>
    exfalso
    rcases t with _ | ⟨i, t⟩
    · exact h1 rfl
    · cases i with
      | opnd a => simp [St.run, St.step] at h
      | oper o =>
        rcases t with _ | ⟨j, t⟩
        · cases o <;> simp [St.run, St.step] at h
        · cases j with
          | opnd b => exact h2 _ _ _ rfl
          | oper o2 =>
            rcases t with _ | ⟨k, t⟩
            · cases o <;> cases o2 <;> simp [St.run, St.step] at h
            · cases k with
              | opnd b =>
                cases o2 <;> first
                  | exact h3 _ _ _ rfl
                  | (cases o <;> simp [St.run, St.step] at h)
              | oper o3 => cases o <;> cases o2 <;> simp [St.run, St.step] at h

omit [Alg α] in
theorem unflat_of_accept (l : List (Item α)) (h : accept l) : ∃ s, unflat l = some s := by
  unfold accept at h
  rcases l with _ | ⟨i, l⟩
  · simp [St.run] at h
  · cases i with
    | opnd a =>
      have : St.run .opnd l = some .opnd := by simpa [St.run, St.step] using h
      obtain ⟨t, ht⟩ := unflatTail_of_run l this
      exact ⟨((false, a), t), by simp only [unflat, ht, Option.map_some]⟩
    | oper o =>
      rcases l with _ | ⟨j, l⟩
      · cases o <;> simp [St.run, St.step] at h
      · cases j with
        | oper o2 => cases o <;> cases o2 <;> simp [St.run, St.step] at h
        | opnd a =>
          cases o <;> try (simp [St.run, St.step] at h; done)
          have : St.run .opnd l = some .opnd := by simpa [St.run, St.step] using h
          obtain ⟨t, ht⟩ := unflatTail_of_run l this
          exact ⟨((true, a), t), by simp only [unflat, ht, Option.map_some]⟩

omit [Alg α] in
theorem flattenTail_of_unflatTail (r : List (Item α)) (t : List (Entry α)) (h : unflatTail r = some t) :
    flattenTail t = r ∧ ∀ e ∈ t, e.1 = Op.sub → e.2.1 = false := by
  fun_induction unflatTail r generalizing t
  case case1 => cases h; simp [flattenTail]
  case case2 o b r ih =>
    cases hr : unflatTail r with
    | none => simp [hr] at h
    | some t' =>
      simp only [hr, Option.map_some, Option.some.injEq] at h; subst h
      obtain ⟨h1, h2⟩ := ih t' hr
      constructor
      · simp [flattenTail, h1]
      · intro e he; rcases List.mem_cons.mp he with rfl | he
        · intro _; rfl
        · exact h2 e he
  case case3 => cases h
  case case4 o b r ho ih =>
    cases hr : unflatTail r with
    | none => simp [hr] at h
    | some t' =>
      simp only [hr, Option.map_some, Option.some.injEq] at h; subst h
      obtain ⟨h1, h2⟩ := ih t' hr
      constructor
      · simp [flattenTail, h1]
      · intro e he; rcases List.mem_cons.mp he with rfl | he
        · intro h; exact absurd h ho
        · exact h2 e he
  case case5 => cases h

omit [Alg α] in
theorem flatten_of_unflat (l : List (Item α)) (s : Flat α) (h : unflat l = some s) :
    flatten s = l ∧ s.WF := by
  unfold unflat at h
  split at h
  · rename_i a r
    cases hr : unflatTail r with
    | none => simp [hr] at h
    | some t =>
      simp only [hr, Option.map_some, Option.some.injEq] at h; subst h
      obtain ⟨h1, h2⟩ := flattenTail_of_unflatTail r t hr
      exact ⟨by simp [flatten, flattenHead, h1], h2⟩
  · rename_i a r
    cases hr : unflatTail r with
    | none => simp [hr] at h
    | some t =>
      simp only [hr, Option.map_some, Option.some.injEq] at h; subst h
      obtain ⟨h1, h2⟩ := flattenTail_of_unflatTail r t hr
      exact ⟨by simp [flatten, flattenHead, h1], h2⟩
  · cases h

/-! ### reduction commutes with homomorphisms (trees → values) -/

def Item.map {α β : Type} (h : α → β) : Item α → Item β
  | .opnd a => .opnd (h a)
  | .oper o => .oper o

structure AlgHom {α β : Type} [Alg α] [Alg β] (h : α → β) : Prop where
  neg : ∀ a, h (Alg.neg a) = Alg.neg (h a)
  bin : ∀ o a b, h (Alg.bin o a b) = Alg.bin o (h a) (h b)

theorem passAux_map {β : Type} [Alg β] (h : α → β) (hh : AlgHom h) (k : Op) (pre rest : List (Item α)) :
    passAux k (pre.map (Item.map h)) (rest.map (Item.map h))
      = (passAux k pre rest).map (List.map (Item.map h)) := by
  fun_induction passAux k pre rest
  all_goals (rw [passAux.eq_def]; simp_all [Item.map, hh.neg, hh.bin, Except.map])

theorem reduceItems_map {β : Type} [Alg β] (h : α → β) (hh : AlgHom h) (l : List (Item α)) :
    reduceItems (l.map (Item.map h)) = (reduceItems l).map (List.map (Item.map h)) := by
  have hp : ∀ k (l : List (Item α)), pass k (l.map (Item.map h)) = (pass k l).map (List.map (Item.map h)) := by
    intro k l; simpa [pass] using passAux_map h hh k [] l
  simp only [reduceItems, bind, Except.bind]
  rw [hp]
  cases pass Op.pow l with
  | error e => rfl
  | ok l1 =>
    simp only [Except.map]; rw [hp]
    cases pass Op.div l1 with
    | error e => rfl
    | ok l2 =>
      simp only [Except.map]; rw [hp]
      cases pass Op.mul l2 with
      | error e => rfl
      | ok l3 =>
        simp only [Except.map]; rw [hp]
        cases pass Op.sub l3 with
        | error e => rfl
        | ok l4 => simp only [Except.map]; rw [hp]; rfl

end TfelVerif.C13
