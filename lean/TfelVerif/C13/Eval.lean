/-
  C13 — denotation of expression trees in an ordered field, and helper lemmas about it.
-/
import Mathlib.Algebra.Field.Basic
import Mathlib.Algebra.Order.Field.Basic
import Mathlib.Algebra.Group.Int.Defs
import TfelVerif.C13.Grammar

namespace TfelVerif.C13

/-- interpretation of the leaves and of the built-in functions -/
structure Interp (ν K : Type) where
  num : ν → K
  var : String → K
  par : String → K
  f1 : String → K → K          -- by C function name
  f2 : String → K → K → K
  pw : K → K → K

namespace Expr
variable {ν K : Type} [Field K] [LinearOrder K]

mutual
/-- value of an expression -/
def eval (I : Interp ν K) : Expr ν → K
  | num _ v => I.num v
  | var n => I.var n
  | param n => I.par n
  | neg a => - eval I a
  | bin .add a b => eval I a + eval I b
  | bin .sub a b => eval I a - eval I b
  | bin .mul a b => eval I a * eval I b
  | bin .div a b => eval I a / eval I b
  | bin .pow a b => I.pw (eval I a) (eval I b)
  | ipow n a => (eval I a) ^ n
  | fn1 _ c a => I.f1 c (eval I a)
  | fn2 f a b => I.f2 f (eval I a) (eval I b)
  | cond c a b => if holds I c then eval I a else eval I b
  | expd a b d => if eval I a = 0 ∧ 0 < eval I b then 0 else eval I d
  | cmp _ _ _ => 0 | land _ _ => 0 | lor _ _ => 0 | lnot _ => 0
/-- truth value of a logical expression -/
def holds (I : Interp ν K) : Expr ν → Bool
  | cmp .eq a b => decide (eval I a = eval I b)
  | cmp .gt a b => decide (eval I a > eval I b)
  | cmp .ge a b => decide (eval I a ≥ eval I b)
  | cmp .lt a b => decide (eval I a < eval I b)
  | cmp .le a b => decide (eval I a ≤ eval I b)
  | land a b => holds I a && holds I b
  | lor a b => holds I a || holds I b
  | lnot a => !holds I a
  | _ => false
end


/-! ### evaluation is preserved by the tree rewritings -/

theorem except_bind_ok {ε α β : Type} (x : Except ε α) (f : α → Except ε β) (y : β) :
    (x >>= f) = .ok y ↔ ∃ a, x = .ok a ∧ f a = .ok y := by
  cases x with
  | error e => simp [bind, Except.bind]
  | ok a => simp [bind, Except.bind]

theorem except_pure_ok {ε α : Type} (a y : α) : (pure a : Except ε α) = .ok y ↔ a = y := by
  simp [pure, Except.pure]

/-- parameter → variable rewriting (`createFunctionByChangingParametersIntoVariables`) preserves the value
    when the new variables carry the parameters' values -/
theorem rewriteParams_eval (I : Interp ν K) (ps : List String) (hps : ∀ p ∈ ps, I.var p = I.par p)
    (e : Expr ν) : ∀ e', e.rewriteParams ps = .ok e' → eval I e' = eval I e ∧ holds I e' = holds I e := by
  induction e with
  | num s v => intro e' h; simp only [rewriteParams, except_pure_ok] at h; subst h; exact ⟨rfl, rfl⟩
  | var n => intro e' h; simp only [rewriteParams, except_pure_ok] at h; subst h; exact ⟨rfl, rfl⟩
  | param n =>
    intro e' h
    simp only [rewriteParams] at h
    split at h
    · rename_i hc
      simp only [except_pure_ok] at h; subst h
      simp only [eval, holds, and_true]
      exact hps n (by simpa using hc)
    · cases h
  | neg a ih =>
    intro e' h
    simp only [rewriteParams, except_bind_ok, except_pure_ok] at h
    obtain ⟨a', ha, rfl⟩ := h
    simp [eval, holds, (ih a' ha).1]
  | bin o a b iha ihb =>
    intro e' h
    simp only [rewriteParams, except_bind_ok, except_pure_ok] at h
    obtain ⟨a', ha, b', hb, rfl⟩ := h
    cases o <;> simp [eval, holds, (iha a' ha).1, (ihb b' hb).1]
  | ipow n a ih =>
    intro e' h
    simp only [rewriteParams, except_bind_ok, except_pure_ok] at h
    obtain ⟨a', ha, rfl⟩ := h
    simp [eval, holds, (ih a' ha).1]
  | fn1 f c a ih =>
    intro e' h
    simp only [rewriteParams, except_bind_ok, except_pure_ok] at h
    obtain ⟨a', ha, rfl⟩ := h
    simp [eval, holds, (ih a' ha).1]
  | fn2 f a b iha ihb =>
    intro e' h
    simp only [rewriteParams, except_bind_ok, except_pure_ok] at h
    obtain ⟨a', ha, b', hb, rfl⟩ := h
    simp [eval, holds, (iha a' ha).1, (ihb b' hb).1]
  | cond c a b ihc iha ihb =>
    intro e' h
    simp only [rewriteParams, except_bind_ok, except_pure_ok] at h
    obtain ⟨c', hc, a', ha, b', hb, rfl⟩ := h
    simp [eval, holds, (iha a' ha).1, (ihb b' hb).1, (ihc c' hc).2]
  | cmp o a b iha ihb =>
    intro e' h
    simp only [rewriteParams, except_bind_ok, except_pure_ok] at h
    obtain ⟨a', ha, b', hb, rfl⟩ := h
    cases o <;> simp [eval, holds, (iha a' ha).1, (ihb b' hb).1]
  | land a b iha ihb =>
    intro e' h
    simp only [rewriteParams, except_bind_ok, except_pure_ok] at h
    obtain ⟨a', ha, b', hb, rfl⟩ := h
    simp [eval, holds, (iha a' ha).2, (ihb b' hb).2]
  | lor a b iha ihb =>
    intro e' h
    simp only [rewriteParams, except_bind_ok, except_pure_ok] at h
    obtain ⟨a', ha, b', hb, rfl⟩ := h
    simp [eval, holds, (iha a' ha).2, (ihb b' hb).2]
  | lnot a ih =>
    intro e' h
    simp only [rewriteParams, except_bind_ok, except_pure_ok] at h
    obtain ⟨a', ha, rfl⟩ := h
    simp [eval, holds, (ih a' ha).2]
  | expd a b d iha ihb ihd =>
    intro e' h
    simp only [rewriteParams, except_bind_ok, except_pure_ok] at h
    obtain ⟨a', ha, b', hb, d', hd, rfl⟩ := h
    simp [eval, holds, (iha a' ha).1, (ihb b' hb).1, (ihd d' hd).1]


/-- the integer-power specialisation of `TBinaryOperation::analyse` preserves the value, provided the
    exponent test is exact (`small b = n` only when `b` evaluates to `n`; the code tests a `double`)
    and `pw x n = x ^ n` for integer `n` (true of the real power function) -/
theorem specialise_eval (I : Interp ν K) (one : ν) (small : Expr ν → Except Err (Option Int))
    (hone : I.num one = 1)
    (hsmall : ∀ b n, small b = .ok (some n) → eval I b = (n : K))
    (hpw : ∀ (x : K) (n : Int), I.pw x (n : K) = x ^ n)
    (e : Expr ν) : ∀ e', e.specialise one small = .ok e' → eval I e' = eval I e ∧ holds I e' = holds I e := by
  induction e with
  | num s v => intro e' h; simp only [specialise, except_pure_ok] at h; subst h; exact ⟨rfl, rfl⟩
  | var n => intro e' h; simp only [specialise, except_pure_ok] at h; subst h; exact ⟨rfl, rfl⟩
  | param n => intro e' h; simp only [specialise, except_pure_ok] at h; subst h; exact ⟨rfl, rfl⟩
  | neg a ih =>
    intro e' h
    simp only [specialise, except_bind_ok, except_pure_ok] at h
    obtain ⟨a', ha, rfl⟩ := h
    simp [eval, holds, (ih a' ha).1]
  | bin o a b iha ihb =>
    intro e' h
    simp only [specialise, except_bind_ok] at h
    obtain ⟨a', ha, b', hb, h⟩ := h
    by_cases ho : o = Op.pow
    · subst ho
      simp only [if_true, except_bind_ok] at h
      obtain ⟨r, hr, h⟩ := h
      cases r with
      | none =>
        simp only [except_pure_ok] at h; subst h
        simp [eval, holds, (iha a' ha).1, (ihb b' hb).1]
      | some n =>
        simp only [except_pure_ok] at h; subst h
        have hb' := hsmall b' n hr
        rw [(ihb b' hb).1] at hb'
        constructor
        · simp only [makePower]
          split
          · rename_i h0
            have : n = 0 := by simpa using h0
            subst this
            simp only [eval, hone, hb', hpw]; simp
          · simp only [eval, hb', hpw, (iha a' ha).1]
        · simp only [makePower]; split <;> simp [holds]
    · simp only [ho, if_false, except_pure_ok] at h; subst h
      cases o <;> simp_all [eval, holds]
  | ipow n a ih =>
    intro e' h
    simp only [specialise, except_bind_ok, except_pure_ok] at h
    obtain ⟨a', ha, rfl⟩ := h
    simp [eval, holds, (ih a' ha).1]
  | fn1 f c a ih =>
    intro e' h
    simp only [specialise, except_bind_ok, except_pure_ok] at h
    obtain ⟨a', ha, rfl⟩ := h
    simp [eval, holds, (ih a' ha).1]
  | fn2 f a b iha ihb =>
    intro e' h
    simp only [specialise, except_bind_ok, except_pure_ok] at h
    obtain ⟨a', ha, b', hb, rfl⟩ := h
    simp [eval, holds, (iha a' ha).1, (ihb b' hb).1]
  | cond c a b ihc iha ihb =>
    intro e' h
    simp only [specialise, except_bind_ok, except_pure_ok] at h
    obtain ⟨c', hc, a', ha, b', hb, rfl⟩ := h
    simp [eval, holds, (iha a' ha).1, (ihb b' hb).1, (ihc c' hc).2]
  | cmp o a b iha ihb =>
    intro e' h
    simp only [specialise, except_bind_ok, except_pure_ok] at h
    obtain ⟨a', ha, b', hb, rfl⟩ := h
    cases o <;> simp [eval, holds, (iha a' ha).1, (ihb b' hb).1]
  | land a b iha ihb =>
    intro e' h
    simp only [specialise, except_bind_ok, except_pure_ok] at h
    obtain ⟨a', ha, b', hb, rfl⟩ := h
    simp [eval, holds, (iha a' ha).2, (ihb b' hb).2]
  | lor a b iha ihb =>
    intro e' h
    simp only [specialise, except_bind_ok, except_pure_ok] at h
    obtain ⟨a', ha, b', hb, rfl⟩ := h
    simp [eval, holds, (iha a' ha).2, (ihb b' hb).2]
  | lnot a ih =>
    intro e' h
    simp only [specialise, except_bind_ok, except_pure_ok] at h
    obtain ⟨a', ha, rfl⟩ := h
    simp [eval, holds, (ih a' ha).2]
  | expd a b d _ _ _ =>
    intro e' h; simp only [specialise, except_pure_ok] at h; subst h; exact ⟨rfl, rfl⟩

end Expr

/-! ### trees → values: homomorphisms commute with the reference definitions -/

instance {ν : Type} : Alg (Expr ν) := ⟨Expr.neg, Expr.bin⟩

section hom
variable {α β : Type} [Alg α] [Alg β]

def mapFlat (h : α → β) (s : Flat α) : Flat β := ((s.1.1, h s.1.2), s.2.map (fun e => (e.1, e.2.1, h e.2.2)))

omit [Alg α] [Alg β] in
theorem flatten_map (h : α → β) (s : Flat α) : (flatten s).map (Item.map h) = flatten (mapFlat h s) := by
  obtain ⟨⟨n, a⟩, t⟩ := s
  have ht : ∀ t : List (Entry α), (flattenTail t).map (Item.map h)
      = flattenTail (t.map (fun e => (e.1, e.2.1, h e.2.2))) := by
    intro t
    induction t with
    | nil => rfl
    | cons e t ih => obtain ⟨o, m, b⟩ := e; cases m <;> simp [flattenTail, Item.map, ih]
  cases n <;> simp [flatten, flattenHead, mapFlat, Item.map, ht]

omit [Alg α] [Alg β] in
theorem mapFlat_WF (h : α → β) (s : Flat α) (hs : s.WF) : (mapFlat h s).WF := by
  intro e he hsub
  simp only [mapFlat, List.mem_map] at he
  obtain ⟨e', he', rfl⟩ := he
  exact hs e' he' hsub

/-- a homomorphism commutes with the tree of a shape -/
theorem hom_T5 (h : α → β) (hh : AlgHom h) (s : Flat α) (hs : s.WF) : h (T5 s) = T5 (mapFlat h s) := by
  have h1 := reduceItems_map h hh (flatten s)
  rw [flatten_map, reduceItems_flatten s hs, reduceItems_flatten _ (mapFlat_WF h s hs)] at h1
  simp only [Except.map, List.map_cons, List.map_nil, Item.map, Except.ok.injEq, List.cons.injEq,
    Item.opnd.injEq, and_true] at h1
  exact h1.symm

def PowD.map (h : α → β) (p : PowD α) : PowD β := ⟨h p.base, p.exp.map (fun e => (e.1, h e.2))⟩
def TermD.map (h : α → β) (t : TermD α) : TermD β :=
  ⟨t.first.map h, t.rest.map (fun e => (e.1, e.2.1, e.2.2.map h))⟩
def SumD.map (h : α → β) (S : SumD α) : SumD β :=
  ⟨S.neg, S.first.map h, S.rest.map (fun e => (e.1, e.2.1, e.2.2.map h))⟩

omit [Alg α] [Alg β] in
theorem PowD.yieldTail_map (h : α → β) (p : PowD α) :
    (p.map h).yieldTail = p.yieldTail.map (fun e => (e.1, e.2.1, h e.2.2)) := by
  obtain ⟨b, e⟩ := p; cases e <;> rfl

omit [Alg α] [Alg β] in
theorem TermD.yieldTail_map (h : α → β) (t : TermD α) :
    (t.map h).yieldTail = t.yieldTail.map (fun e => (e.1, e.2.1, h e.2.2)) := by
  simp only [TermD.yieldTail, TermD.map, PowD.yieldTail_map, List.map_append, List.flatMap_map,
    List.map_flatMap, List.map_cons]
  rfl

omit [Alg α] [Alg β] in
theorem SumD.yield_map (h : α → β) (S : SumD α) : (S.map h).yield = mapFlat h S.yield := by
  simp only [SumD.yield, SumD.map, mapFlat, TermD.yieldTail_map, List.map_append, List.flatMap_map,
    List.map_flatMap, List.map_cons]
  rfl

theorem negIf_map (h : α → β) (hh : AlgHom h) (n : Bool) (a : α) : h (negIf n a) = negIf n (h a) := by
  cases n <;> simp [negIf, hh.neg]

theorem PowD.val_map (h : α → β) (hh : AlgHom h) (p : PowD α) : h p.val = (p.map h).val := by
  obtain ⟨b, e⟩ := p
  cases e with
  | none => rfl
  | some e => simp [PowD.val, PowD.map, hh.bin, negIf_map h hh]

theorem foldl_hom {γ : Type} (h : α → β) (f : α → γ → α) (g : β → γ → β)
    (hfg : ∀ a c, h (f a c) = g (h a) c) (l : List γ) (a : α) : h (l.foldl f a) = l.foldl g (h a) := by
  induction l generalizing a with
  | nil => rfl
  | cons c l ih => simp [List.foldl_cons, ih, hfg]

theorem TermD.val_map (h : α → β) (hh : AlgHom h) (t : TermD α) : h t.val = (t.map h).val := by
  simp only [TermD.val, TermD.map, List.foldl_map]
  rw [foldl_hom h _ (fun acc (e : Bool × Bool × PowD α) =>
      Alg.bin (if e.1 then Op.div else Op.mul) acc (negIf e.2.1 (e.2.2.map h).val))]
  · rw [PowD.val_map h hh]
  · intro a c; simp [hh.bin, negIf_map h hh, PowD.val_map h hh]

theorem SumD.val3_map (h : α → β) (hh : AlgHom h) (S : SumD α) : h S.val3 = (S.map h).val3 := by
  simp only [SumD.val3, SumD.map, List.foldl_map]
  rw [foldl_hom h _ (fun acc (e : Bool × Bool × TermD α) =>
      Alg.bin (if e.1 then Op.sub else Op.add) acc (negIf e.2.1 (e.2.2.map h).val))]
  · rw [negIf_map h hh, TermD.val_map h hh]
  · intro a c; simp [hh.bin, negIf_map h hh, TermD.val_map h hh]

omit [Alg α] [Alg β] in
theorem SumD.map_WF (h : α → β) (S : SumD α) (hS : S.WF) : (S.map h).WF := by
  intro e he hsub
  simp only [SumD.map, List.mem_map] at he
  obtain ⟨e', he', rfl⟩ := he
  exact hS e' he' hsub

end hom

/-! ### the yield of a derivation of the textbook grammar is a shape -/

theorem SumD.yield_WF {α : Type} (S : SumD α) (hS : S.WF) : S.yield.WF := by
  intro e he hsub
  have hp : ∀ (p : PowD α), ∀ e ∈ p.yieldTail, e.1 = Op.pow := by
    intro p e he
    obtain ⟨b, ex⟩ := p
    cases ex with
    | none => simp [PowD.yieldTail] at he
    | some x => simp [PowD.yieldTail] at he; rw [he]
  have ht : ∀ (t : TermD α), ∀ e ∈ t.yieldTail, e.1 ≠ Op.sub := by
    intro t e he
    simp only [TermD.yieldTail, List.mem_append, List.mem_flatMap, List.mem_cons] at he
    rcases he with h | ⟨x, _, rfl | h⟩
    · rw [hp _ e h]; simp
    · cases x.1 <;> simp
    · rw [hp _ e h]; simp
  simp only [SumD.yield, List.mem_append, List.mem_flatMap, List.mem_cons] at he
  rcases he with h | ⟨x, hx, rfl | h⟩
  · exact absurd hsub (ht _ e h)
  · have := hS x hx
    revert hsub this; cases x.1 <;> simp
  · exact absurd hsub (ht _ e h)

/-- in a field the code's five levels compute the standard value of a derivation of the textbook grammar -/
theorem T5_yield_val3 {K : Type} [Field K] [HasPw K] (S : SumD K) (hS : S.WF) : T5 S.yield = S.val3 := by
  have h := toE_levels S.yield (S.yield_WF hS)
  rw [toE_yield, levelsE_blocks] at h
  simp only [toE, List.cons.injEq, Prod.mk.injEq] at h
  exact h.1.2.2

end TfelVerif.C13
