/-
  C13 — denotation of expression trees in an ordered field, and helper lemmas about it.
-/
import Mathlib.Algebra.Field.Basic
import Mathlib.Algebra.Order.Field.Basic
import Mathlib.Algebra.Group.Int.Defs
import TfelVerif.C13.Grammar

namespace TfelVerif.C13

/-- interpretation of the leaves and of the built-in functions -/
structure Interp (ν K : Type) where
  num : ν → K
  var : String → K
  par : String → K
  f1 : String → K → K          -- by C function name
  f2 : String → K → K → K
  pw : K → K → K

namespace Expr
variable {ν K : Type} [Field K] [LinearOrder K]

mutual
/-- value of an expression -/
def eval (I : Interp ν K) : Expr ν → K
  | num _ v => I.num v
  | var n => I.var n
  | param n => I.par n
  | neg a => - eval I a
  | bin .add a b => eval I a + eval I b
  | bin .sub a b => eval I a - eval I b
  | bin .mul a b => eval I a * eval I b
  | bin .div a b => eval I a / eval I b
  | bin .pow a b => I.pw (eval I a) (eval I b)
  | ipow n a => (eval I a) ^ n
  | fn1 _ c a => I.f1 c (eval I a)
  | fn2 f a b => I.f2 f (eval I a) (eval I b)
  | cond c a b => if holds I c then eval I a else eval I b
  | expd a b d => if eval I a = 0 ∧ 0 < eval I b then 0 else eval I d
  | cmp _ _ _ => 0 | land _ _ => 0 | lor _ _ => 0 | lnot _ => 0
/-- truth value of a logical expression -/
def holds (I : Interp ν K) : Expr ν → Bool
  | cmp .eq a b => decide (eval I a = eval I b)
  | cmp .gt a b => decide (eval I a > eval I b)
  | cmp .ge a b => decide (eval I a ≥ eval I b)
  | cmp .lt a b => decide (eval I a < eval I b)
  | cmp .le a b => decide (eval I a ≤ eval I b)
  | land a b => holds I a && holds I b
  | lor a b => holds I a || holds I b
  | lnot a => !holds I a
  | _ => false
end


/-! ### evaluation is preserved by the tree rewritings -/

theorem except_bind_ok {ε α β : Type} (x : Except ε α) (f : α → Except ε β) (y : β) :
    (x >>= f) = .ok y ↔ ∃ a, x = .ok a ∧ f a = .ok y := by
  cases x with
  | error e => simp [bind, Except.bind]
  | ok a => simp [bind, Except.bind]

theorem except_pure_ok {ε α : Type} (a y : α) : (pure a : Except ε α) = .ok y ↔ a = y := by
  simp [pure, Except.pure]

/-- parameter → variable rewriting (`createFunctionByChangingParametersIntoVariables`) preserves the value
    when the new variables carry the parameters' values -/
theorem rewriteParams_eval (I : Interp ν K) (ps : List String) (hps : ∀ p ∈ ps, I.var p = I.par p)
    (e : Expr ν) : ∀ e', e.rewriteParams ps = .ok e' → eval I e' = eval I e ∧ holds I e' = holds I e := by
  induction e with
  | num s v => intro e' h; simp only [rewriteParams, except_pure_ok] at h; subst h; exact ⟨rfl, rfl⟩
  | var n => intro e' h; simp only [rewriteParams, except_pure_ok] at h; subst h; exact ⟨rfl, rfl⟩
  | param n =>
    intro e' h
    simp only [rewriteParams] at h
    split at h
    · rename_i hc
      simp only [except_pure_ok] at h; subst h
      simp only [eval, holds, and_true]
      exact hps n (by simpa using hc)
    · cases h
  | neg a ih =>
    intro e' h
    simp only [rewriteParams, except_bind_ok, except_pure_ok] at h
    obtain ⟨a', ha, rfl⟩ := h
    simp [eval, holds, (ih a' ha).1]
  | bin o a b iha ihb =>
    intro e' h
    simp only [rewriteParams, except_bind_ok, except_pure_ok] at h
    obtain ⟨a', ha, b', hb, rfl⟩ := h
    cases o <;> simp [eval, holds, (iha a' ha).1, (ihb b' hb).1]
  | ipow n a ih =>
    intro e' h
    simp only [rewriteParams, except_bind_ok, except_pure_ok] at h
    obtain ⟨a', ha, rfl⟩ := h
    simp [eval, holds, (ih a' ha).1]
  | fn1 f c a ih =>
    intro e' h
    simp only [rewriteParams, except_bind_ok, except_pure_ok] at h
    obtain ⟨a', ha, rfl⟩ := h
    simp [eval, holds, (ih a' ha).1]
  | fn2 f a b iha ihb =>
    intro e' h
    simp only [rewriteParams, except_bind_ok, except_pure_ok] at h
    obtain ⟨a', ha, b', hb, rfl⟩ := h
    simp [eval, holds, (iha a' ha).1, (ihb b' hb).1]
  | cond c a b ihc iha ihb =>
    intro e' h
    simp only [rewriteParams, except_bind_ok, except_pure_ok] at h
    obtain ⟨c', hc, a', ha, b', hb, rfl⟩ := h
    simp [eval, holds, (iha a' ha).1, (ihb b' hb).1, (ihc c' hc).2]
  | cmp o a b iha ihb =>
    intro e' h
    simp only [rewriteParams, except_bind_ok, except_pure_ok] at h
    obtain ⟨a', ha, b', hb, rfl⟩ := h
    cases o <;> simp [eval, holds, (iha a' ha).1, (ihb b' hb).1]
  | land a b iha ihb =>
    intro e' h
    simp only [rewriteParams, except_bind_ok, except_pure_ok] at h
    obtain ⟨a', ha, b', hb, rfl⟩ := h
    simp [eval, holds, (iha a' ha).2, (ihb b' hb).2]
  | lor a b iha ihb =>
    intro e' h
    simp only [rewriteParams, except_bind_ok, except_pure_ok] at h
    obtain ⟨a', ha, b', hb, rfl⟩ := h
    simp [eval, holds, (iha a' ha).2, (ihb b' hb).2]
  | lnot a ih =>
    intro e' h
    simp only [rewriteParams, except_bind_ok, except_pure_ok] at h
    obtain ⟨a', ha, rfl⟩ := h
    simp [eval, holds, (ih a' ha).2]
  | expd a b d iha ihb ihd =>
    intro e' h
    simp only [rewriteParams, except_bind_ok, except_pure_ok] at h
    obtain ⟨a', ha, b', hb, d', hd, rfl⟩ := h
    simp [eval, holds, (iha a' ha).1, (ihb b' hb).1, (ihd d' hd).1]

end Expr
end TfelVerif.C13
