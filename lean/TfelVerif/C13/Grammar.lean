/-
  C13 — helper lemmas: the five passes of the code compute the tree of the five-level grammar
  (`AddC.tree`), and the precedence-aware printer `Tm.print` is inverted by it.
-/
import TfelVerif.C13.Value

namespace TfelVerif.C13

variable {α : Type} [Alg α]

/-- a chain of one operator is folded from the left -/
theorem foldE_chain (k o : Op) (n : Bool) (a : α) (l : List (Bool × α)) :
    foldE k ((o, n, a) :: chainTail k l) = [(o, n, chainTree k a l)] := by
  induction l generalizing a with
  | nil => simp [chainTail, chainTree, foldE]
  | cons e l ih =>
    simp only [chainTail, List.map_cons] at ih ⊢
    rw [foldE]; simp only [if_true]
    rw [ih]; simp [chainTree]

/-- a fold keeps the operator and the sign of the first entry -/
theorem foldE_head (k o : Op) (n : Bool) (a : α) (t : List (Entry α)) :
    ∃ x tl, foldE k ((o, n, a) :: t) = (o, n, x) :: tl := by
  induction t generalizing a with
  | nil => exact ⟨a, [], by simp [foldE]⟩
  | cons e t ih =>
    obtain ⟨o', m, b⟩ := e
    rw [foldE]
    by_cases h : o' = k
    · simp only [h, if_true]; exact ih _
    · simp only [h, if_false]; exact ⟨_, _, rfl⟩

def stage2 (l : List (Entry α)) : List (Entry α) := foldE Op.div (foldE Op.pow l)
def stage3 (l : List (Entry α)) : List (Entry α) := foldE Op.mul (stage2 l)

theorem stage2_head (o : Op) (n : Bool) (a : α) (t : List (Entry α)) :
    ∃ x tl, stage2 ((o, n, a) :: t) = (o, n, x) :: tl := by
  obtain ⟨x, tl, h⟩ := foldE_head Op.pow o n a t
  obtain ⟨y, tl', h'⟩ := foldE_head Op.div o n x tl
  exact ⟨y, tl', by rw [stage2, h, h']⟩

theorem stage3_head (o : Op) (n : Bool) (a : α) (t : List (Entry α)) :
    ∃ x tl, stage3 ((o, n, a) :: t) = (o, n, x) :: tl := by
  obtain ⟨x, tl, h⟩ := stage2_head o n a t
  obtain ⟨y, tl', h'⟩ := foldE_head Op.mul o n x tl
  exact ⟨y, tl', by rw [stage3, h, h']⟩

theorem stage2_flatMap {ι : Type} (f : ι → List (Entry α))
    (hf : ∀ i, ∃ o n a t, f i = (o, n, a) :: t ∧ o ≠ Op.pow ∧ o ≠ Op.div) (is : List ι) (l0 : List (Entry α)) :
    stage2 (l0 ++ is.flatMap f) = stage2 l0 ++ is.flatMap (fun i => stage2 (f i)) := by
  unfold stage2
  rw [foldE_flatMap Op.pow f (fun i => by
        obtain ⟨o, n, a, t, h, h1, _⟩ := hf i; exact ⟨_, _, h, h1⟩)]
  rw [foldE_flatMap Op.div _ (fun i => by
        obtain ⟨o, n, a, t, h, _, h2⟩ := hf i
        obtain ⟨x, tl, hx⟩ := foldE_head Op.pow o n a t
        exact ⟨_, _, by rw [h, hx], h2⟩)]

theorem stage3_flatMap {ι : Type} (f : ι → List (Entry α))
    (hf : ∀ i, ∃ o n a t, f i = (o, n, a) :: t ∧ o ≠ Op.pow ∧ o ≠ Op.div ∧ o ≠ Op.mul) (is : List ι)
    (l0 : List (Entry α)) :
    stage3 (l0 ++ is.flatMap f) = stage3 l0 ++ is.flatMap (fun i => stage3 (f i)) := by
  unfold stage3
  rw [stage2_flatMap f (fun i => by
        obtain ⟨o, n, a, t, h, h1, h2, _⟩ := hf i; exact ⟨o, n, a, t, h, h1, h2⟩)]
  rw [foldE_flatMap Op.mul _ (fun i => by
        obtain ⟨o, n, a, t, h, _, _, h3⟩ := hf i
        obtain ⟨x, tl, hx⟩ := stage2_head o n a t
        exact ⟨_, _, by rw [h, hx], h3⟩)]

theorem flatMap_singleton_map {ι β : Type} (g : ι → β) (l : List ι) :
    l.flatMap (fun i => [g i]) = l.map g := by
  induction l with
  | nil => rfl
  | cons i l ih => simp [List.flatMap_cons, ih]

/-! #### blocks of the grammar levels -/

def PowC.block (o : Op) (n : Bool) (p : PowC α) : List (Entry α) := (o, n, p.1) :: PowC.tail p
def DivC.block (o : Op) (n : Bool) (d : DivC α) : List (Entry α) := (o, n, DivC.base d) :: DivC.tail d
def MulC.block (o : Op) (n : Bool) (m : MulC α) : List (Entry α) := (o, n, MulC.base m) :: MulC.tail m
def SubC.block (o : Op) (s : SubC α) : List (Entry α) := (o, s.1.1, MulC.base s.1.2) :: SubC.tail s

omit [Alg α] in
theorem DivC.block_eq (o : Op) (n : Bool) (d : DivC α) :
    DivC.block o n d = PowC.block o n d.1 ++ d.2.flatMap (fun e => PowC.block Op.div e.1 e.2) := rfl
omit [Alg α] in
theorem MulC.block_eq (o : Op) (n : Bool) (m : MulC α) :
    MulC.block o n m = DivC.block o n m.1 ++ m.2.flatMap (fun e => DivC.block Op.mul e.1 e.2) := rfl
omit [Alg α] in
theorem SubC.block_eq (o : Op) (s : SubC α) :
    SubC.block o s = MulC.block o s.1.1 s.1.2 ++ s.2.flatMap (fun m => MulC.block Op.sub false m) := rfl
omit [Alg α] in
theorem AddC.toE_yield (c : AddC α) :
    toE c.yield = SubC.block Op.add c.1 ++ c.2.flatMap (fun s => SubC.block Op.add s) := rfl

theorem pow_block (o : Op) (n : Bool) (p : PowC α) : foldE Op.pow (PowC.block o n p) = [(o, n, p.tree)] :=
  foldE_chain Op.pow o n p.1 p.2

theorem div_block1 (o : Op) (n : Bool) (d : DivC α) :
    foldE Op.pow (DivC.block o n d)
      = (o, n, d.1.tree) :: chainTail Op.div (d.2.map (fun e => (e.1, PowC.tree e.2))) := by
  rw [DivC.block_eq, foldE_flatMap Op.pow (fun e : Bool × PowC α => PowC.block Op.div e.1 e.2)
    (fun e => ⟨_, _, rfl, by simp⟩), pow_block]
  simp only [pow_block, flatMap_singleton_map, chainTail, List.map_map, List.singleton_append]
  rfl

theorem div_block (o : Op) (n : Bool) (d : DivC α) : stage2 (DivC.block o n d) = [(o, n, d.tree)] := by
  rw [stage2, div_block1, foldE_chain]; rfl

theorem mul_block1 (o : Op) (n : Bool) (m : MulC α) :
    stage2 (MulC.block o n m)
      = (o, n, m.1.tree) :: chainTail Op.mul (m.2.map (fun e => (e.1, DivC.tree e.2))) := by
  rw [MulC.block_eq, stage2_flatMap (fun e : Bool × DivC α => DivC.block Op.mul e.1 e.2)
    (fun e => ⟨_, _, _, _, rfl, by simp, by simp⟩), div_block]
  simp only [div_block, flatMap_singleton_map, chainTail, List.map_map, List.singleton_append]
  rfl

theorem mul_block (o : Op) (n : Bool) (m : MulC α) : stage3 (MulC.block o n m) = [(o, n, m.tree)] := by
  rw [stage3, mul_block1, foldE_chain]; rfl

theorem sub_block1 (o : Op) (s : SubC α) :
    stage3 (SubC.block o s)
      = (o, s.1.1, s.1.2.tree) :: chainTail Op.sub (s.2.map (fun m => (false, MulC.tree m))) := by
  rw [SubC.block_eq, stage3_flatMap (fun m : MulC α => MulC.block Op.sub false m)
    (fun e => ⟨_, _, _, _, rfl, by simp, by simp, by simp⟩), mul_block]
  simp only [mul_block, flatMap_singleton_map, chainTail, List.map_map, List.singleton_append]
  rfl

theorem sub_block (o : Op) (s : SubC α) :
    foldE Op.sub (applyFlags (stage3 (SubC.block o s))) = [(o, false, s.tree)] := by
  rw [sub_block1]
  have : applyFlags ((o, s.1.1, s.1.2.tree) :: chainTail Op.sub (s.2.map (fun m => (false, MulC.tree m))))
      = (o, false, negIf s.1.1 s.1.2.tree) :: chainTail Op.sub (s.2.map (fun m => (false, MulC.tree m))) := by
    simp [applyFlags, chainTail, negIf]
  rw [this, foldE_chain]; rfl

omit [Alg α] in
theorem applyFlags_append [Alg α] (l1 l2 : List (Entry α)) :
    applyFlags (l1 ++ l2) = applyFlags l1 ++ applyFlags l2 := by simp [applyFlags]

theorem applyFlags_flatMap {ι : Type} (f : ι → List (Entry α)) (is : List ι) :
    applyFlags (is.flatMap f) = is.flatMap (fun i => applyFlags (f i)) := by
  induction is with
  | nil => rfl
  | cons i is ih => simp only [List.flatMap_cons, applyFlags_append, ih]

theorem applyFlags_head (o : Op) (n : Bool) (a : α) (t : List (Entry α)) :
    applyFlags ((o, n, a) :: t) = (o, false, negIf n a) :: applyFlags t := rfl

/-- the five levels on the yield of a derivation of the five-level grammar -/
theorem levelsE_yield5 (c : AddC α) :
    foldE Op.add (foldE Op.sub (applyFlags (stage3 (toE c.yield)))) = [(Op.add, false, c.tree)] := by
  rw [AddC.toE_yield, stage3_flatMap (fun s : SubC α => SubC.block Op.add s)
    (fun s => ⟨_, _, _, _, rfl, by simp, by simp, by simp⟩)]
  rw [applyFlags_append, applyFlags_flatMap]
  rw [foldE_flatMap Op.sub (fun s : SubC α => applyFlags (stage3 (SubC.block Op.add s))) (fun s => by
        obtain ⟨x, tl, h⟩ := stage3_head Op.add s.1.1 (MulC.base s.1.2) (SubC.tail s)
        refine ⟨(Op.add, false, negIf s.1.1 x), applyFlags tl, ?_, by simp⟩
        show applyFlags (stage3 ((Op.add, s.1.1, MulC.base s.1.2) :: SubC.tail s)) = _
        rw [h, applyFlags_head])]
  rw [sub_block]
  simp only [sub_block, flatMap_singleton_map, List.singleton_append]
  have : (c.2.map (fun s => (Op.add, false, SubC.tree s))) = chainTail Op.add (c.2.map (fun s => (false, SubC.tree s))) := by
    simp [chainTail, List.map_map]
  rw [this, foldE_chain]; rfl

omit [Alg α] in
theorem pow_tail_ops (p : PowC α) : ∀ e ∈ PowC.tail p, e.1 = Op.pow := by
  intro e he
  simp only [PowC.tail, chainTail, List.mem_map] at he
  obtain ⟨x, _, rfl⟩ := he; rfl

omit [Alg α] in
theorem div_tail_ops (d : DivC α) : ∀ e ∈ DivC.tail d, e.1 = Op.pow ∨ e.1 = Op.div := by
  intro e he
  simp only [DivC.tail, List.mem_append, List.mem_flatMap, List.mem_cons] at he
  rcases he with h | ⟨x, _, rfl | h⟩
  · exact Or.inl (pow_tail_ops _ e h)
  · exact Or.inr rfl
  · exact Or.inl (pow_tail_ops _ e h)

omit [Alg α] in
theorem mul_tail_ops (m : MulC α) : ∀ e ∈ MulC.tail m, e.1 ≠ Op.sub := by
  intro e he
  simp only [MulC.tail, List.mem_append, List.mem_flatMap, List.mem_cons] at he
  rcases he with h | ⟨x, _, rfl | h⟩
  · rcases div_tail_ops _ e h with h | h <;> simp [h]
  · simp
  · rcases div_tail_ops _ e h with h | h <;> simp [h]

omit [Alg α] in
theorem sub_tail_ok (s : SubC α) : ∀ e ∈ SubC.tail s, e.1 = Op.sub → e.2.1 = false := by
  intro e he hs
  simp only [SubC.tail, List.mem_append, List.mem_flatMap, List.mem_cons] at he
  rcases he with h | ⟨x, _, rfl | h⟩
  · exact absurd hs (mul_tail_ops _ e h)
  · rfl
  · exact absurd hs (mul_tail_ops _ e h)

omit [Alg α] in
theorem yield5_WF (c : AddC α) : c.yield.WF := by
  intro e he hs
  simp only [AddC.yield, List.mem_append, List.mem_flatMap, List.mem_cons] at he
  rcases he with h | ⟨x, _, rfl | h⟩
  · exact sub_tail_ok _ e h hs
  · simp at hs
  · exact sub_tail_ok _ e h hs

/-- the code's five levels compute the tree of the five-level grammar -/
theorem T5_yield5 (c : AddC α) : T5 c.yield = c.tree := by
  have h := toE_levels c.yield (yield5_WF c)
  have h2 := levelsE_yield5 c
  simp only [stage3, stage2] at h2
  rw [h2] at h
  simp only [toE, List.cons.injEq, Prod.mk.injEq] at h
  exact h.1.2.2

/-! #### the printer is inverted -/

namespace Tm
variable {β : Type}

theorem negIf_unneg (t : Tm β) : negIf (unneg t).1 (unneg t).2 = t := by
  cases t <;> rfl

theorem chainTree_snoc (k : Op) (a : Tm β) (l : List (Bool × Tm β)) (e : Bool × Tm β) :
    chainTree k a (l ++ [e]) = Tm.bin k (chainTree k a l) (negIf e.1 e.2) := by
  simp [chainTree, List.foldl_append]; rfl

theorem toPow_tree (t : Tm β) : PowC.tree (toPow t) = t := by
  induction t with
  | atom b => rfl
  | neg t _ => rfl
  | bin o a b iha _ =>
    cases o <;> try rfl
    simp only [toPow, PowC.tree] at iha ⊢
    rw [chainTree_snoc, iha, negIf_unneg]

theorem toDiv_tree (t : Tm β) : DivC.tree (toDiv t) = t := by
  induction t with
  | atom b => simp [toDiv, DivC.tree, chainTree, toPow_tree]
  | neg t _ => simp [toDiv, DivC.tree, chainTree, toPow_tree]
  | bin o a b iha _ =>
    cases o
    case div =>
      simp only [toDiv, DivC.tree, List.map_append, List.map_cons, List.map_nil] at iha ⊢
      rw [chainTree_snoc, iha]; simp only [toPow_tree, negIf_unneg]
    all_goals simp [toDiv, DivC.tree, chainTree, toPow_tree]

theorem toMul_tree (t : Tm β) : MulC.tree (toMul t) = t := by
  induction t with
  | atom b => simp [toMul, MulC.tree, chainTree, toDiv_tree]
  | neg t _ => simp [toMul, MulC.tree, chainTree, toDiv_tree]
  | bin o a b iha _ =>
    cases o
    case mul =>
      simp only [toMul, MulC.tree, List.map_append, List.map_cons, List.map_nil] at iha ⊢
      rw [chainTree_snoc, iha]; simp only [toDiv_tree, negIf_unneg]
    all_goals simp [toMul, MulC.tree, chainTree, toDiv_tree]

theorem toSub_tree (t : Tm β) : SubC.tree (toSub t) = t := by
  induction t with
  | atom b => simp [toSub, SubC.tree, chainTree, toMul_tree, unneg, negIf]
  | neg t _ => simp [toSub, SubC.tree, chainTree, toMul_tree, unneg, negIf]; rfl
  | bin o a b iha _ =>
    cases o
    case sub =>
      simp only [toSub, SubC.tree, List.map_append, List.map_cons, List.map_nil] at iha ⊢
      rw [chainTree_snoc, iha]; simp only [toMul_tree, negIf]; rfl
    all_goals simp [toSub, SubC.tree, chainTree, toMul_tree, unneg, negIf]

theorem toAdd_tree (t : Tm β) : AddC.tree (toAdd t) = t := by
  induction t with
  | atom b => simp [toAdd, AddC.tree, chainTree, toSub_tree]
  | neg t _ => simp [toAdd, AddC.tree, chainTree, toSub_tree]
  | bin o a b iha _ =>
    cases o
    case add =>
      simp only [toAdd, AddC.tree, List.map_append, List.map_cons, List.map_nil] at iha ⊢
      rw [chainTree_snoc, iha]; simp only [toSub_tree, negIf]; rfl
    all_goals simp [toAdd, AddC.tree, chainTree, toSub_tree]

end Tm

end TfelVerif.C13
