/-
  C13 — executable model of tfel::math::Evaluator (core Lean only, no Mathlib).

  Part A  `Op`, `Item`, `passAux`, `reduceItems`: Evaluator::TGroup::reduce (EvaluatorTExpr.cxx), generic in
          the operand type (class `Alg`), the object of the theorems of Props.lean.
  Part B  `Expr`: the tree of tfel::math::parser::Expr nodes, its rendering (`getCxxFormula`), constancy,
          parameter -> variable rewriting, the integer-power specialisation (`TBinaryOperation::analyse`).
  Part C  formula lexer (`EvaluatorBase::analyse/splitAtTokenSeperator/readNumber`).
  Part D  token list -> raw tree (`Evaluator::treatGroup/treatGroup2/treatLogicalExpression...`),
          reduction, analysis; evaluation over `Float` (= C double).
  The function/constant tables come from the generated `GenTable.lean` (T2 dump of the real
  FunctionGeneratorManager on every run).
-/
import TfelVerif.C13.GenTable

namespace TfelVerif.C13

/-! ## Part A — group reduction -/

inductive Op | pow | div | mul | sub | add
  deriving DecidableEq, Repr, Inhabited

/-- error classes (the innermost message of the exception raised by the code) -/
inductive Err
  | tokEos | tokChar | eol | emptyGroup | condNocond | condNothing | condNested | condNocolon
  | condEmptyLeft | condEmptyRight | unbalanced | badIdent | unexpectedToken | unknownFunction
  | unknownVariable | unterminated | logNoLeft | logNoRight | logUnmatched | logMany | logNoLeftPart
  | logNoOp | logNoRightPart | logExpectedParen | argsOpen | badParameter
  | beginOp | endOp | twoOps | threeOps
  | notReduced | divSmall | badInt | nparam | callFailed
  | unimplemented | noFunction | noVariable | alreadyVariable | noParameter
  | unmodelled | dom
  deriving DecidableEq, Repr, Inhabited

def Err.name : Err → String
  | .tokEos => "tok-eos" | .tokChar => "tok-char" | .eol => "eol" | .emptyGroup => "empty-group"
  | .condNocond => "cond-nocond" | .condNothing => "cond-nothing" | .condNested => "cond-nested"
  | .condNocolon => "cond-nocolon" | .condEmptyLeft => "cond-emptyleft" | .condEmptyRight => "cond-emptyright"
  | .unbalanced => "unbalanced" | .badIdent => "bad-ident" | .unexpectedToken => "unexpected-token"
  | .unknownFunction => "unknown-function" | .unknownVariable => "unknown-variable"
  | .unterminated => "unterminated" | .logNoLeft => "log-noleft" | .logNoRight => "log-noright"
  | .logUnmatched => "log-unmatched" | .logMany => "log-many" | .logNoLeftPart => "log-noleftpart"
  | .logNoOp => "log-noop" | .logNoRightPart => "log-norightpart" | .logExpectedParen => "log-expectedparen"
  | .argsOpen => "args-open" | .badParameter => "bad-parameter"
  | .beginOp => "begin-op" | .endOp => "end-op" | .twoOps => "two-ops" | .threeOps => "three-ops"
  | .notReduced => "not-reduced" | .divSmall => "div-small" | .badInt => "bad-int" | .nparam => "nparam"
  | .callFailed => "call-failed" | .unimplemented => "unimplemented" | .noFunction => "no-function"
  | .noVariable => "no-variable" | .alreadyVariable => "already-variable" | .noParameter => "no-parameter"
  | .unmodelled => "unmodelled" | .dom => "dom"

/-- what a group is reduced with: unary minus and the five binary operators -/
class Alg (α : Type) where
  neg : α → α
  bin : Op → α → α → α

/-- an element of `TGroup::subExpr`: an operand (anything that is not a `TOperator`) or an operator -/
inductive Item (α : Type)
  | opnd (a : α)
  | oper (o : Op)
  deriving Repr

/-- `Evaluator::TGroup::reduce(op)`: one left-to-right pass. `pre` is the already scanned prefix,
    reversed (its head is `*previous`); the second list starts at `*p`. -/
def passAux {α : Type} [Alg α] (k : Op) : List (Item α) → List (Item α) → Except Err (List (Item α))
  | pre, [] => .ok pre.reverse
  | pre, .opnd a :: rest => passAux k (.opnd a :: pre) rest
  | pre, .oper o :: rest =>
    if o ≠ k then passAux k (.oper o :: pre) rest
    else match pre, rest with
      -- p == begin: only a unary minus may start a group
      | [], rest =>
        if k ≠ .sub then .error .beginOp
        else match rest with
          | [] => .error .endOp
          | .oper _ :: _ => .error .twoOps
          | .opnd x :: rest' => passAux k [.opnd (Alg.neg x)] rest'
      | _ :: _, [] => .error .endOp
      -- *previous is an operator: only `+ -` is accepted
      | .oper po :: pre', nxt :: rest' =>
        if k ≠ .sub then .error .twoOps
        else if po ≠ .add then .error .twoOps
        else match nxt with
          | .oper _ => .error .threeOps
          | .opnd x => passAux k (.opnd (Alg.neg x) :: .oper po :: pre') rest'
      -- binary operation, possibly with a unary minus on the right operand (`a * - b`)
      | .opnd a :: pre', .opnd b :: rest' => passAux k (.opnd (Alg.bin k a b) :: pre') rest'
      | .opnd a :: pre', .oper no :: rest' =>
        if k = .sub then .error .twoOps
        else if no ≠ .sub then .error .twoOps
        else match rest' with
          | [] => .error .endOp
          | .oper _ :: _ => .error .twoOps
          | .opnd b :: rest'' => passAux k (.opnd (Alg.bin k a (Alg.neg b)) :: pre') rest''
termination_by _ rest => rest.length
decreasing_by all_goals simp_wf <;> omega

def pass {α : Type} [Alg α] (k : Op) (l : List (Item α)) : Except Err (List (Item α)) := passAux k [] l

/-- `Evaluator::TGroup::reduce()` after the sub-expressions have been reduced: the five passes in the
    code's order `**`, `/`, `*`, `-`, `+` -/
def reduceItems {α : Type} [Alg α] (l : List (Item α)) : Except Err (List (Item α)) :=
  pass .pow l >>= pass .div >>= pass .mul >>= pass .sub >>= pass .add

/-! ## Part B — expression trees -/

inductive Cmp | eq | gt | ge | lt | le
  deriving DecidableEq, Repr, Inhabited

/-- tfel::math::parser::Expr / LogicalExpr nodes. `ν` is the type of numeric literals' values
    (`Float` in the driver, anything in the theorems). -/
inductive Expr (ν : Type)
  | num (s : String) (v : ν)                 -- Number(str, value)
  | var (n : String)                          -- Variable
  | param (n : String)                        -- ExternalFunctionExpr without argument
  | neg (a : Expr ν)                          -- Negation
  | bin (o : Op) (a b : Expr ν)               -- BinaryOperation<Op>
  | ipow (n : Int) (a : Expr ν)               -- PowerFunction<n> (1 ≤ |n| ≤ 16), GeneralPowerFunction otherwise
  | fn1 (name cfun : String) (a : Expr ν)     -- StandardFunction<cfun>(name, a)
  | fn2 (name : String) (a b : Expr ν)        -- StandardBinaryFunction
  | cond (c a b : Expr ν)                     -- ConditionalExpr
  | cmp (o : Cmp) (a b : Expr ν)              -- LogicalOperation<Op>
  | land (a b : Expr ν) | lor (a b : Expr ν) | lnot (a : Expr ν)
  | expd (a b d : Expr ν)                     -- ExponentDerivative(a, b, ·) with `derivative = d` (C14)
  deriving Repr, Inhabited

namespace Expr
variable {ν : Type}

def opStr : Op → String
  | .add => "+" | .sub => "-" | .mul => "*" | .div => "/" | .pow => "**"

def cmpStr : Cmp → String
  | .eq => "==" | .gt => ">" | .ge => ">=" | .lt => "<" | .le => "<="

/-- `Expr::isConstant` -/
def isConstant : Expr ν → Bool
  | num _ _ => true
  | var _ => false
  | param _ => true
  | neg a => a.isConstant
  | bin _ a b => a.isConstant && b.isConstant
  | ipow _ a => a.isConstant
  | fn1 _ _ a => a.isConstant
  | fn2 _ a b => a.isConstant && b.isConstant
  | cond c a b => a.isConstant && b.isConstant && c.isConstant
  | cmp _ a b => a.isConstant && b.isConstant
  | land a b => a.isConstant && b.isConstant
  | lor a b => a.isConstant && b.isConstant
  | lnot a => a.isConstant
  | expd _ _ d => d.isConstant

/-- `Expr::dependsOnVariable` -/
def dependsOn (x : String) : Expr ν → Bool
  | num _ _ => false
  | var n => n == x
  | param _ => false
  | neg a => a.dependsOn x
  | bin _ a b => a.dependsOn x || b.dependsOn x
  | ipow _ a => a.dependsOn x
  | fn1 _ _ a => a.dependsOn x
  | fn2 _ a b => a.dependsOn x || b.dependsOn x
  | cond c a b => a.dependsOn x || b.dependsOn x || c.dependsOn x
  | cmp _ a b => a.dependsOn x || b.dependsOn x
  | land a b => a.dependsOn x || b.dependsOn x
  | lor a b => a.dependsOn x || b.dependsOn x
  | lnot a => a.dependsOn x
  | expd _ _ d => d.dependsOn x

/-- `getCxxFormula` (`none`: ExternalFunctionExpr::getCxxFormula raises "unimplemented feature") -/
def render : Expr ν → Option String
  | num s _ => some s
  | var n => some n
  | param _ => none
  | neg a => do let sa ← a.render; pure ("-(" ++ sa ++ ")")
  | bin .pow a b => do let sa ← a.render; let sb ← b.render; pure ("std::pow(" ++ sa ++ "," ++ sb ++ ")")
  | bin o a b => do
      let sa ← a.render; let sb ← b.render
      pure ("(" ++ sa ++ ")" ++ (match o with | .add => "+" | .sub => "-" | .mul => "*" | _ => "/") ++ "(" ++ sb ++ ")")
  | ipow n a => do
      let sa ← a.render
      if n == 0 then pure "1"
      else if n == 1 then pure sa
      else if -16 ≤ n && n ≤ 16 then pure ("tfel::math::power<" ++ toString n ++ ">(" ++ sa ++ ")")
      else pure ("std::pow(" ++ sa ++ "," ++ toString n ++ ")")
  | fn1 name _ a => do let sa ← a.render; pure (name ++ "(" ++ sa ++ ")")
  | fn2 name a b => do let sa ← a.render; let sb ← b.render; pure (name ++ "(" ++ sa ++ "," ++ sb ++ ")")
  | cond c a b => do
      let sc ← c.render; let sa ← a.render; let sb ← b.render
      pure ("(" ++ sc ++ ") ? (" ++ sa ++ ") : (" ++ sb ++ ")")
  | cmp o a b => do let sa ← a.render; let sb ← b.render; pure ("(" ++ sa ++ ")" ++ cmpStr o ++ "(" ++ sb ++ ")")
  | land a b => do let sa ← a.render; let sb ← b.render; pure ("(" ++ sa ++ ")&&(" ++ sb ++ ")")
  | lor a b => do let sa ← a.render; let sb ← b.render; pure ("(" ++ sa ++ ")||(" ++ sb ++ ")")
  | lnot a => do let sa ← a.render; pure ("!(" ++ sa ++ ")")
  | expd a b d => do
      let sd ← d.render
      if a.isConstant then pure sd
      else
        let sa ← a.render; let sb ← b.render
        pure ("(((tfel::math::ieee754::fpclassify(" ++ sa ++ ")==FP_ZERO)&&(" ++ sb ++ " > 0)) ? 0 : " ++ sd ++ ")")

/-- `createFunctionByChangingParametersIntoVariables(params)` on the tree: a parameter listed in
    `ps` becomes a variable; any other parameter is an error ("no function ... declared") -/
def rewriteParams (ps : List String) : Expr ν → Except Err (Expr ν)
  | num s v => pure (num s v)
  | var n => pure (var n)
  | param n => if ps.contains n then pure (var n) else .error .noFunction
  | neg a => do pure (neg (← a.rewriteParams ps))
  | bin o a b => do let a' ← a.rewriteParams ps; let b' ← b.rewriteParams ps; pure (bin o a' b')
  | ipow n a => do pure (ipow n (← a.rewriteParams ps))
  | fn1 f c a => do pure (fn1 f c (← a.rewriteParams ps))
  | fn2 f a b => do let a' ← a.rewriteParams ps; let b' ← b.rewriteParams ps; pure (fn2 f a' b')
  | cond c a b => do
      let c' ← c.rewriteParams ps; let a' ← a.rewriteParams ps; let b' ← b.rewriteParams ps; pure (cond c' a' b')
  | cmp o a b => do let a' ← a.rewriteParams ps; let b' ← b.rewriteParams ps; pure (cmp o a' b')
  | land a b => do let a' ← a.rewriteParams ps; let b' ← b.rewriteParams ps; pure (land a' b')
  | lor a b => do let a' ← a.rewriteParams ps; let b' ← b.rewriteParams ps; pure (lor a' b')
  | lnot a => do pure (lnot (← a.rewriteParams ps))
  | expd a b d => do
      let a' ← a.rewriteParams ps; let b' ← b.rewriteParams ps; let d' ← d.rewriteParams ps; pure (expd a' b' d')

/-- the set of parameter names (`getParametersNames`) -/
def params : Expr ν → List String
  | num _ _ => [] | var _ => [] | param n => [n]
  | neg a => a.params | ipow _ a => a.params | fn1 _ _ a => a.params | lnot a => a.params
  | bin _ a b => a.params ++ b.params | fn2 _ a b => a.params ++ b.params
  | cmp _ a b => a.params ++ b.params | land a b => a.params ++ b.params | lor a b => a.params ++ b.params
  | cond c a b => c.params ++ a.params ++ b.params
  | expd _ _ d => d.params

/-- `Evaluator::makePowerFunctionExpression`: `e ** 0` is the number one -/
def makePower (one : ν) (e : Expr ν) (n : Int) : Expr ν :=
  if n == 0 then num "1" one else ipow n e

/-- `TBinaryOperation::analyse` for `**` applied bottom-up: `small b` tells whether the exponent is a
    constant whose value is an integer of `(-16.5, 16.5)` (computed with doubles in the code) -/
def specialise (one : ν) (small : Expr ν → Except Err (Option Int)) : Expr ν → Except Err (Expr ν)
  | num s v => pure (num s v)
  | var n => pure (var n)
  | param n => pure (param n)
  | neg a => do pure (neg (← a.specialise one small))
  | bin o a b => do
      let a' ← a.specialise one small
      let b' ← b.specialise one small
      if o = .pow then
        match ← small b' with
        | some n => pure (makePower one a' n)
        | none => pure (bin .pow a' b')
      else pure (bin o a' b')
  | ipow n a => do pure (ipow n (← a.specialise one small))
  | fn1 f c a => do pure (fn1 f c (← a.specialise one small))
  | fn2 f a b => do let a' ← a.specialise one small; let b' ← b.specialise one small; pure (fn2 f a' b')
  | cond c a b => do
      let c' ← c.specialise one small; let a' ← a.specialise one small; let b' ← b.specialise one small
      pure (cond c' a' b')
  | cmp o a b => do let a' ← a.specialise one small; let b' ← b.specialise one small; pure (cmp o a' b')
  | land a b => do let a' ← a.specialise one small; let b' ← b.specialise one small; pure (land a' b')
  | lor a b => do let a' ← a.specialise one small; let b' ← b.specialise one small; pure (lor a' b')
  | lnot a => do pure (lnot (← a.specialise one small))
  | expd a b d => pure (expd a b d)

end Expr

/-! ## Part C — lexer -/

def isDigit (c : Char) : Bool := '0' ≤ c && c ≤ '9'
def isAlpha (c : Char) : Bool := ('a' ≤ c && c ≤ 'z') || ('A' ≤ c && c ≤ 'Z')
def isSpace (c : Char) : Bool := c == ' ' || c == '\t' || c == '\n' || c == '\x0b' || c == '\x0c' || c == '\r'

def spanDigits : List Char → List Char × List Char
  | c :: cs => if isDigit c then let (d, r) := spanDigits cs; (c :: d, r) else ([], c :: cs)
  | [] => ([], [])

/-- `EvaluatorBase::readNumber` called on a digit: the longest `D+ [. D*] [(e|E) [+|-] D+]` prefix -/
def readNumber (cs : List Char) : List Char × List Char :=
  let (i, r1) := spanDigits cs
  let (f, r2) := match r1 with
    | '.' :: r => let (d, r') := spanDigits r; ('.' :: d, r')
    | _ => ([], r1)
  let (e, r3) := match r2 with
    | c :: r =>
      if c == 'e' || c == 'E' then
        match r with
        | s :: d :: r' =>
          if (s == '+' || s == '-') && isDigit d then
            let (ds, r'') := spanDigits (d :: r'); (c :: s :: ds, r'')
          else if isDigit s then let (ds, r'') := spanDigits (s :: d :: r'); (c :: ds, r'')
          else ([], r2)
        | [s] => if isDigit s then ([c, s], []) else ([], r2)
        | [] => ([], r2)
      else ([], r2)
    | [] => ([], r2)
  (i ++ f ++ e, r3)

def flush (cur : List Char) (res : Array String) : Array String :=
  if cur.isEmpty then res else res.push (String.ofList cur.reverse)

/-- `EvaluatorBase::splitAtTokenSeperator` on one white-space separated word;
    `cur` = characters since the last separator, reversed -/
partial def splitWord (cs : List Char) (cur : List Char) (res : Array String) : Except Err (Array String) :=
  match cs with
  | [] => pure (flush cur res)
  | c :: rest =>
    if isDigit c && cur.isEmpty then
      let (n, r) := readNumber (c :: rest)
      splitWord r [] (res.push (String.ofList n))
    else if c == '+' || c == '!' || c == '-' || c == '/' || c == '(' || c == ')' || c == ',' || c == '?' || c == ':' then
      splitWord rest [] ((flush cur res).push (String.singleton c))
    else if c == '*' then
      match rest with
      | '*' :: r => splitWord r [] ((flush cur res).push "**")
      | _ => splitWord rest [] ((flush cur res).push "*")
    else if c == '|' then
      match rest with
      | [] => .error .tokEos
      | '|' :: r => splitWord r [] ((flush cur res).push "||")
      | _ => .error .tokChar
    else if c == '&' then
      match rest with
      | [] => .error .tokEos
      | '&' :: r => splitWord r [] ((flush cur res).push "&&")
      | _ => .error .tokChar
    else if c == '>' then
      match rest with
      | '=' :: r => splitWord r [] ((flush cur res).push ">=")
      | _ => splitWord rest [] ((flush cur res).push ">")
    else if c == '<' then
      match rest with
      | '=' :: r => splitWord r [] ((flush cur res).push "<=")
      | _ => splitWord rest [] ((flush cur res).push "<")
    else if c == '=' then
      match rest with
      | '=' :: r => splitWord r [] ((flush cur res).push "==")
      | _ => splitWord rest [] ((flush cur res).push "=")
    else splitWord rest (c :: cur) res

def splitSpaces (cs : List Char) : List (List Char) :=
  let rec go : List Char → List Char → List (List Char) → List (List Char)
    | [], cur, acc => (if cur.isEmpty then acc else cur.reverse :: acc).reverse
    | c :: r, cur, acc =>
      if isSpace c then go r [] (if cur.isEmpty then acc else cur.reverse :: acc)
      else go r (c :: cur) acc
  go cs [] []

/-- `EvaluatorBase::analyse`: white-space split, then token separators -/
def tokenize (f : String) : Except Err (Array String) :=
  (splitSpaces f.toList).foldlM (fun acc w => splitWord w [] acc) #[]

/-! ### numbers -/

/-- what `std::istringstream >> double` accepts completely (libstdc++ `_M_extract_float` + strtod):
    `[+-] (D+ [. D*] | . D+) [(e|E) [+-] D+]` -/
def isNumberChars (cs : List Char) : Bool :=
  let cs := match cs with | '+' :: r => r | '-' :: r => r | _ => cs
  let (i, r1) := spanDigits cs
  let (f, r2, dot) := match r1 with
    | '.' :: r => let (d, r') := spanDigits r; (d, r', true)
    | _ => ([], r1, false)
  let _ := dot
  if i.isEmpty && f.isEmpty then false
  else match r2 with
    | [] => true
    | c :: r =>
      if c == 'e' || c == 'E' then
        let r := match r with | '+' :: r' => r' | '-' :: r' => r' | _ => r
        let (d, r') := spanDigits r
        !d.isEmpty && r'.isEmpty
      else false


def digitsToNat (ds : List Char) : Nat := ds.foldl (fun n c => 10 * n + (c.toNat - '0'.toNat)) 0

/-- round the positive rational `num / den` to the nearest double (ties to even); subnormals and
    overflow are handled (overflow → +∞) -/
def ratToFloat (num den : Nat) : Float :=
  if num == 0 then 0.0 else
  -- find e with 2^52 ≤ num / den * 2^(-e) < 2^53
  let e0 : Int := (num.log2 : Int) - (den.log2 : Int) - 52
  let scaled (e : Int) : Nat × Nat :=   -- (numerator, denominator) of num/den * 2^(-e)
    if e ≥ 0 then (num, den * 2 ^ e.toNat) else (num * 2 ^ (-e).toNat, den)
  let fix (e : Int) : Int :=
    let (n, d) := scaled e
    let q := n / d
    if q < 2 ^ 52 then e - 1 else if q ≥ 2 ^ 53 then e + 1 else e
  let e := fix (fix e0)
  -- subnormal range: exponent of the last place is at least -1074
  let e := if e < -1074 then -1074 else e
  let (n, d) := scaled e
  let q := n / d
  let r := n % d
  let q := if 2 * r > d || (2 * r == d && q % 2 == 1) then q + 1 else q
  -- q * 2^e with q < 2^53 + 1: exact in double arithmetic
  Float.scaleB (Float.ofNat q) e

/-- value of a decimal literal accepted by `isNumber` -/
def parseFloat (s : String) : Float :=
  let cs := s.toList
  let (sgn, cs) := match cs with | '-' :: r => (true, r) | '+' :: r => (false, r) | _ => (false, cs)
  let (i, r1) := spanDigits cs
  let (f, r2) := match r1 with | '.' :: r => spanDigits r | _ => ([], r1)
  let ex : Int := match r2 with
    | _ :: r =>
      let (neg, r) := match r with | '-' :: r' => (true, r') | '+' :: r' => (false, r') | _ => (false, r)
      let v : Int := digitsToNat (spanDigits r).1
      if neg then -v else v
    | [] => 0
  let m := digitsToNat (i ++ f)
  let e10 : Int := ex - f.length
  let v := if e10 ≥ 0 then ratToFloat (m * 10 ^ e10.toNat) 1 else ratToFloat m (10 ^ (-e10).toNat)
  if sgn then -v else v

/-- `Evaluator::isNumber`: the extraction must consume the token and not overflow (libstdc++ sets failbit
    when strtod returns HUGE_VAL) -/
def isNumber (s : String) : Bool := isNumberChars s.toList && (parseFloat s).isFinite

/-! ## Part D — parser -/

/-- raw trees (`Evaluator::TExpr` hierarchy) -/
inductive T
  | num (s : String)
  | cst (name : String)                       -- a physical constant of the table
  | var (n : String)
  | param (n : String)
  | group (items : List (Item T))
  | neg (a : T)
  | bin (o : Op) (a b : T)
  | unreduced
  | fn1 (name : String) (a : T)
  | fn2 (name : String) (a b : T)
  | extop (name : String) (params : List String) (args : List T)
  | cond (c a b : T)
  | cmp (o : Cmp) (a b : T)
  | land (a b : T) | lor (a b : T) | lnot (a : T)
  deriving Inhabited

instance : Alg T := ⟨T.neg, T.bin⟩

structure Ctx where
  toks : Array String
  fixed : Bool            -- `b`: the variable names are fixed
  vars : List String
  mgr : Bool              -- an ExternalFunctionManager was given

def Ctx.tok (c : Ctx) (p : Nat) : String := c.toks[p]!

def isExtOp (n : String) : Bool := GenTable.extops.contains n
def isBinaryFn (n : String) : Bool := GenTable.binary.any (·.1 == n)
def unaryFn (n : String) : Option String := (GenTable.unary.find? (·.1 == n)).map (·.2.1)
def constant (n : String) : Option (UInt64 × String) := (GenTable.constants.find? (·.1 == n)).map (·.2)

/-- `Evaluator::search(p, pe, m, s)` -/
partial def search (c : Ctx) (p pe : Nat) (m s : String) (opened : Nat := 0) : Except Err (Bool × Nat) :=
  if p == pe || (!s.isEmpty && c.tok p == s) then pure (false, p)
  else
    let t := c.tok p
    let opened := if t == "(" then opened + 1 else opened
    if t == ")" && opened == 0 then .error .unbalanced
    else
      let opened := if t == ")" then opened - 1 else opened
      if t == m && opened == 0 then pure (true, p)
      else search c (p + 1) pe m s opened

def checkNotEnd (p pe : Nat) : Except Err Unit := if p == pe then .error .eol else pure ()

def readSpecified (c : Ctx) (v : String) (p pe : Nat) : Except Err Nat := do
  checkNotEnd p pe
  if c.tok p != v then .error .unexpectedToken else pure (p + 1)

/-- digits up to the closing bracket of `name[12]` -/
def identIndex : List Char → Option (List Char)
  | [] => none
  | ']' :: r => some r
  | x :: r => if isDigit x then identIndex r else none

partial def identTail : List Char → Bool
  | [] => true
  | c :: r =>
    if !(isAlpha c || isDigit c || c == '_' || c == '[') then false
    else if c == '[' then
      match r with
      | [] => false
      | d :: r' =>
        if !isDigit d then false
        else match identIndex (d :: r') with
          | none => false
          | some r'' => identTail r''
    else identTail r

/-- the `checkIdentifier` lambda of `treatGroup2` -/
def checkIdentifier (s : String) : Except Err Unit :=
  match s.toList with
  | [] => .error .badIdent
  | c0 :: cs =>
    if isDigit c0 then .error .badIdent
    else if !(isAlpha c0 || c0 == '_' || c0 == '$') then .error .badIdent
    else if identTail cs then pure () else .error .badIdent

/-- `countNumberOfArguments` -/
partial def countArgs (c : Ctx) (p pe : Nat) : Except Err Nat := do
  checkNotEnd p pe
  if c.tok p == ")" then pure 0
  else
    let rec loop (p opened nbr : Nat) : Except Err Nat :=
      if p == pe then .error .argsOpen
      else
        let t := c.tok p
        if t == "(" then loop (p + 1) (opened + 1) nbr
        else if t == ")" then
          if opened == 1 then pure nbr else loop (p + 1) (opened - 1) nbr
        else if t == "," then loop (p + 1) opened (if opened == 1 then nbr + 1 else nbr)
        else loop (p + 1) opened nbr
    loop p 1 1

/-- `analyseParameters` (after `<`) -/
partial def analyseParameters (c : Ctx) (p pe : Nat) : Except Err (List String × Nat) := do
  checkNotEnd p pe
  let rec loop (p : Nat) (acc : List String) : Except Err (List String × Nat) := do
    if c.tok p == ">" then pure (acc.reverse, p + 1)
    else
      if c.tok p == "," then throw .unexpectedToken
      let (acc, p) ←
        if c.tok p == "-" then do
          let p := p + 1
          checkNotEnd p pe
          if !(c.tok p).toList.all isDigit then throw .badParameter
          pure (("-" ++ c.tok p) :: acc, p + 1)
        else do
          if (c.tok p).toList.any (fun ch => !(isAlpha ch || isDigit ch || ch == '-') || ch == '_') then
            throw .badParameter
          pure (c.tok p :: acc, p + 1)
      checkNotEnd p pe
      if c.tok p != ">" then
        if c.tok p != "," then throw .unexpectedToken
        let p := p + 1
        checkNotEnd p pe
        loop p acc
      else loop p acc
  loop p []

/-- `searchComparisonOperator` -/
partial def searchCmp (c : Ctx) (pb pe : Nat) : Except Err Nat := do
  let rec loop (p opened : Nat) (po : Option Nat) : Except Err (Option Nat) := do
    if p == pe then pure po
    else
      let t := c.tok p
      let opened := if t == "(" then opened + 1 else opened
      if t == ")" && opened == 0 then throw .unbalanced
      let opened := if t == ")" then opened - 1 else opened
      if opened == 0 then
        let po ← if t == "==" || t == "<=" || t == ">" || t == ">=" then
            (if po.isSome then throw .logMany else pure (some p)) else pure po
        if t == "<" then
          if p == pb then throw .logNoLeftPart
          if isExtOp (c.tok (p - 1)) then
            -- template parameters of an external operator: skip to the token after `>`
            let p := p + 1
            checkNotEnd p pe
            let rec skip (p : Nat) : Except Err Nat := do
              let stop := c.tok p == ">"
              let p := p + 1
              checkNotEnd p pe
              if stop then pure p else skip p
            let p ← skip p
            if c.tok p != "(" then throw .logExpectedParen
            loop (p + 1) (opened + 1) po
          else
            if po.isSome then throw .logMany
            loop (p + 1) opened (some p)
        else loop (p + 1) opened po
      else loop (p + 1) opened po
  match ← loop pb 0 none with
  | none => throw .logNoOp
  | some po =>
    if po == pb then throw .logNoLeftPart
    if po + 1 == pe then throw .logNoRightPart
    pure po

def cmpOf (s : String) : Option Cmp :=
  if s == "==" then some .eq else if s == ">" then some .gt else if s == ">=" then some .ge
  else if s == "<" then some .lt else if s == "<=" then some .le else none

mutual
/-- `Evaluator::treatGroup(p, pe, b, s)`; returns the tree and the new position -/
partial def treatGroup (c : Ctx) (p pe : Nat) (s : String) : Except Err (T × Nat) := do
  checkNotEnd p pe
  if c.tok p == s then throw .emptyGroup
  let (found, q) ← search c p pe "?" s
  if found then
    if p == q then throw .condNocond
    if q + 1 == pe then throw .condNothing
    if (← search c (q + 1) pe "?" s).1 then throw .condNested
    let (found2, q2) ← search c (q + 1) pe ":" s
    if !found2 then throw .condNocolon
    if q + 1 == q2 then throw .condEmptyLeft
    if q2 + 1 == pe then throw .condEmptyRight
    let l ← treatLogical c p q
    let (le, _) ← treatGroup c (q + 1) q2 ""
    let (re, p') ← treatGroup c (q2 + 1) pe s
    pure (T.cond l le re, p')
  else treatGroup2 c p pe s

/-- `Evaluator::treatGroup2` -/
partial def treatGroup2 (c : Ctx) (p pe : Nat) (s : String) : Except Err (T × Nat) := do
  let rec loop (p : Nat) (g : Array (Item T)) : Except Err (Array (Item T) × Nat) := do
    if p == pe || (!s.isEmpty && c.tok p == s) then pure (g, p)
    else
      let t := c.tok p
      if t == "diff" then throw .unmodelled
      else if isNumber t then loop (p + 1) (g.push (.opnd (T.num t)))
      else if t == "(" then
        let (e, p') ← treatGroup c (p + 1) pe ")"
        loop (p' + 1) (g.push (.opnd e))
      else if t == "+" then loop (p + 1) (g.push (.oper .add))
      else if t == "-" then loop (p + 1) (g.push (.oper .sub))
      else if t == "*" then loop (p + 1) (g.push (.oper .mul))
      else if t == "/" then loop (p + 1) (g.push (.oper .div))
      else if t == "**" then loop (p + 1) (g.push (.oper .pow))
      else
        -- readVariableOrFunctionName
        checkIdentifier t
        let rec qual (p : Nat) (vn : String) (vs : Nat) : Except Err (String × Nat × Nat) := do
          if p != pe && c.tok p == ":" then
            let p := p + 1
            checkNotEnd p pe
            let p ← readSpecified c ":" p pe
            checkNotEnd p pe
            checkIdentifier (c.tok p)
            qual (p + 1) (vn ++ "::" ++ c.tok p) (vs + 1)
          else pure (vn, vs, p)
        let (vn, vs, p) ← qual (p + 1) t 1
        if isExtOp vn then
          checkNotEnd p pe
          if c.tok p == "<" then
            let (params, p) ← analyseParameters c (p + 1) pe
            let p ← readSpecified c "(" p pe
            let n ← countArgs c p pe
            let (args, p) ← analyseArguments c n p pe
            loop (p + 1) (g.push (.opnd (T.extop vn params args)))
          else
            let p ← readSpecified c "(" p pe
            let n ← countArgs c p pe
            let (args, p) ← analyseArguments c n p pe
            loop (p + 1) (g.push (.opnd (T.extop vn [] args)))
        else if isBinaryFn vn then
          let p ← readSpecified c "(" p pe
          let (args, p) ← analyseArguments c 2 p pe
          match args with
          | [a1, a2] => loop (p + 1) (g.push (.opnd (T.fn2 vn a1 a2)))
          | _ => throw .unmodelled
        else if (unaryFn vn).isSome then
          let p ← readSpecified c "(" p pe
          let (a, p) ← treatGroup c p pe ")"
          loop (p + 1) (g.push (.opnd (T.fn1 vn a)))
        else match constant vn with
        | some _ => loop p (g.push (.opnd (T.cst vn)))
        | none =>
          if p != pe && c.tok p == "(" then
            if c.mgr then throw .unmodelled else throw .unknownFunction
          else if c.fixed then
            if !c.vars.contains vn then
              if !c.mgr then throw (if vs != 1 then .unknownFunction else .unknownVariable)
              loop p (g.push (.opnd (T.param vn)))
            else
              if vs != 1 then throw .badIdent
              loop p (g.push (.opnd (T.var vn)))
          else
            if vs == 1 then loop p (g.push (.opnd (T.var vn)))
            else
              if !c.mgr then throw .unknownFunction
              loop p (g.push (.opnd (T.param vn)))
  let (g, p) ← loop p #[]
  if !s.isEmpty && p == pe then throw .unterminated
  pure (T.group g.toList, p)

/-- `Evaluator::analyseArguments(nbr, p, pe, b)` -/
partial def analyseArguments (c : Ctx) (nbr : Nat) (p pe : Nat) : Except Err (List T × Nat) := do
  if nbr == 0 then pure ([], p)
  else
    let rec loop (i : Nat) (p : Nat) (acc : List T) : Except Err (List T × Nat) := do
      if i + 1 == nbr then
        let (e, p) ← treatGroup c p pe ")"
        pure ((e :: acc).reverse, p)
      else
        let (e, p) ← treatGroup c p pe ","
        loop (i + 1) (p + 1) (e :: acc)
    loop 0 p []

/-- `Evaluator::treatLogicalExpression` -/
partial def treatLogical (c : Ctx) (pb pbe : Nat) : Except Err T := do
  checkNotEnd pb pbe
  let pa ← search c pb pbe "&&" ""
  let po ← search c pb pbe "||" ""
  if pa.2 != pbe || po.2 != pbe then
    let pt := if pa.1 then pa.2 else po.2
    if pt == pb then throw .logNoLeft
    if pt + 1 == pbe then throw .logNoRight
    let lo ← treatLogical c pb pt
    let ro ← treatLogical c (pt + 1) pbe
    if c.tok pt == "&&" then pure (T.land lo ro) else pure (T.lor lo ro)
  else if c.tok pb == "(" then
    let pbe := pbe - 1
    checkNotEnd pb pbe
    if c.tok pbe != ")" then throw .logUnmatched
    treatLogical c (pb + 1) pbe
  else if c.tok pb == "!" then
    pure (T.lnot (← treatLogical c (pb + 1) pbe))
  else
    -- treatLogicalExpression2
    let plo ← searchCmp c pb pbe
    let (lo, _) ← treatGroup c pb plo ""
    let (ro, _) ← treatGroup c (plo + 1) pbe ""
    match cmpOf (c.tok plo) with
    | some o => pure (T.cmp o lo ro)
    | none => throw .unmodelled
end

/-- `reduce()`: sub-expressions first (left to right), then the five passes of the group -/
partial def reduceT : T → Except Err T
  | .group items => do
    let items ← items.mapM (fun it => match it with
      | .opnd a => do pure (Item.opnd (← reduceT a))
      | .oper o => pure (Item.oper o))
    match ← reduceItems items with
    | [.opnd a] => pure a
    | _ => pure .unreduced
  | .neg a => do pure (.neg (← reduceT a))
  | .bin o a b => do let a' ← reduceT a; let b' ← reduceT b; pure (.bin o a' b')
  | .fn1 f a => do pure (.fn1 f (← reduceT a))
  | .fn2 f a b => do let a' ← reduceT a; let b' ← reduceT b; pure (.fn2 f a' b')
  | .extop f ps args => do pure (.extop f ps (← args.mapM reduceT))
  | .cond c a b => do let c' ← reduceT c; let a' ← reduceT a; let b' ← reduceT b; pure (.cond c' a' b')
  | .cmp o a b => do let a' ← reduceT a; let b' ← reduceT b; pure (.cmp o a' b')
  | .land a b => do let a' ← reduceT a; let b' ← reduceT b; pure (.land a' b')
  | .lor a b => do let a' ← reduceT a; let b' ← reduceT b; pure (.lor a' b')
  | .lnot a => do pure (.lnot (← reduceT a))
  | t => pure t

/-! ### evaluation with doubles -/

def dblMin : Float := Float.ofBits 0x0010000000000000

/-- tfel::math::power<N> for N ≥ 0 (`PowerPos`): `t*t*t*t*t2` with `t = x^(N/4)`, `t2 = x^(N%4)` -/
partial def powerPos (n : Nat) (x : Float) : Float :=
  if n == 0 then 1.0 else if n == 1 then x else if n == 2 then x * x else if n == 3 then x * x * x
  else
    let t := powerPos (n / 4) x
    if n % 4 == 0 then t * t * t * t
    else
      let t2 := powerPos (n % 4) x
      t * t * t * t * t2

/-- a libm function available in Lean's `Float` (same glibc); `none` = not available -/
def libm (cfun : String) : Option (Float → Float) :=
  match cfun with
  | "exp" => some Float.exp | "exp2" => some Float.exp2 | "cbrt" => some Float.cbrt
  | "fabs" => some Float.abs | "sqrt" => some Float.sqrt | "log" => some Float.log
  | "log10" => some Float.log10 | "log2" => some Float.log2 | "cosh" => some Float.cosh
  | "sinh" => some Float.sinh | "tanh" => some Float.tanh | "acosh" => some Float.acosh
  | "asinh" => some Float.asinh | "atanh" => some Float.atanh | "sin" => some Float.sin
  | "cos" => some Float.cos | "tan" => some Float.tan | "acos" => some Float.acos
  | "asin" => some Float.asin | "atan" => some Float.atan
  | "tfel::math::Evaluator::Heavyside" => some (fun x => if x < 0 then 0 else 1)
  | _ => none

/-- `getValue()`. Returns `.dom` where the model does not predict the code (errno-based exceptions at
    the edge of a libm function's domain, libm functions Lean does not bind). -/
partial def evalF (env : String → Float) : Expr Float → Except Err Float
  | .num _ v => pure v
  | .var n => pure (env n)
  | .param _ => .error .unknownFunction
  | .neg a => do pure (-(← evalF env a))
  | .bin o a b => do
    let x ← evalF env a
    let y ← evalF env b
    match o with
    | .add => pure (x + y) | .sub => pure (x - y) | .mul => pure (x * y)
    | .div => if y.abs < dblMin then .error .divSmall else pure (x / y)
    | .pow =>
      -- OpPower::apply does not look at errno, but a domain/range error of pow leaks into the errno
      -- test of an enclosing binary function: not predicted by the model
      let r := Float.pow x y
      if !r.isFinite || (r.abs < dblMin && x != 0) then .error .dom else pure r
  | .ipow n a => do
    let x ← evalF env a
    if -16 ≤ n && n ≤ 16 then
      if n < 0 then
        if x == 0 then .error .callFailed else pure (powerPos (-n).toNat (1 / x))
      else pure (powerPos n.toNat x)
    else
      let r := Float.pow x (Float.ofInt n)
      if !r.isFinite || (r.abs < dblMin) then .error .dom else pure r
  | .fn1 _ cfun a => do
    let x ← evalF env a
    match libm cfun with
    | none => .error .dom
    | some f =>
      let r := f x
      if !r.isFinite || (r.abs < dblMin && x != 0 && cfun != "tfel::math::Evaluator::Heavyside") then .error .dom
      else pure r
  | .fn2 name a b => do
    let x ← evalF env a
    let y ← evalF env b
    if name == "max" then pure (if x < y then y else x)
    else if name == "min" then pure (if y < x then y else x)
    else if name == "atan2" then
      let r := Float.atan2 x y
      if !r.isFinite || r.abs < dblMin then .error .dom else pure r
    else .error .dom
  | .cond c a b => do if ← evalB env c then evalF env a else evalF env b
  | .expd a b d => do
    let va ← evalF env a
    let vb ← evalF env b
    if va == 0 && vb > 0 then pure 0 else evalF env d
  | _ => .error .unmodelled
where
  evalB (env : String → Float) : Expr Float → Except Err Bool
    | .cmp o a b => do
      let x ← evalF env a
      let y ← evalF env b
      match o with
      | .eq => pure ((x - y).abs == 0) | .gt => pure (x > y) | .ge => pure (x ≥ y)
      | .lt => pure (x < y) | .le => pure (x ≤ y)
    | .land a b => do let x ← evalB env a; let y ← evalB env b; pure (x && y)
    | .lor a b => do let x ← evalB env a; let y ← evalB env b; pure (x || y)
    | .lnot a => do pure (!(← evalB env a))
    | _ => .error .unmodelled

/-- the exponent test of `TBinaryOperation::analyse`: constant, `-16.5 < v < 16.5`, no fractional part -/
def smallInt (b : Expr Float) : Except Err (Option Int) :=
  if !b.isConstant then pure none
  else
    match evalF (fun _ => 0) b with
    | .error .dom => .error .dom
    | .error .unmodelled => .error .unmodelled
    | .error e => .error e
    | .ok v =>
      if v > -16.5 && v < 16.5 && v == v.floor then pure (some (v.toInt64.toInt)) else pure none

def isInteger (s : String) : Bool :=
  match s.toList with
  | [] => false
  | '-' :: r => r.all isDigit
  | cs => cs.all isDigit

/-- `convertToInt` -/
def convertToInt (s : String) : Except Err Int :=
  if !isInteger s then .error .badInt
  else match s.toList with
    | '-' :: r => if r.isEmpty then .error .badInt
                  else let v := digitsToNat r; if v > 2147483648 then .error .badInt else pure (-(v : Int))
    | cs => let v := digitsToNat cs; if v > 2147483647 then .error .badInt else pure (v : Int)

/-- `analyse()`: raw tree → expression tree (number values, function table, integer powers) -/
partial def analyseT : T → Except Err (Expr Float)
  | .num s => pure (.num s (parseFloat s))
  | .cst n => match constant n with
    | some (bits, str) => pure (.num str (Float.ofBits bits))
    | none => .error .unmodelled
  | .var n => pure (.var n)
  | .param n => pure (.param n)
  | .group _ => .error .unmodelled
  | .unreduced => .error .notReduced
  | .neg a => do pure (.neg (← analyseT a))
  | .bin o a b => do
    let a' ← analyseT a
    let b' ← analyseT b
    if o = .pow then
      match ← smallInt b' with
      | some n => pure (Expr.makePower 1.0 a' n)
      | none => pure (.bin .pow a' b')
    else pure (.bin o a' b')
  | .fn1 f a => do pure (.fn1 f ((unaryFn f).getD "?") (← analyseT a))
  | .fn2 f a b => do
    -- the two arguments are analysed right to left by g++ (unspecified order): only matters for which
    -- analyse-phase error is reported, and those are compared as one class
    let b' ← analyseT b
    let a' ← analyseT a
    pure (.fn2 f a' b')
  | .extop _ ps args => do
    let args ← args.mapM analyseT
    if ps.length != 1 then throw .nparam
    if args.length != 1 then throw .nparam
    let n ← convertToInt ps[0]!
    pure (Expr.makePower 1.0 args[0]! n)
  | .cond c a b => do
    let b' ← analyseT b
    let a' ← analyseT a
    let c' ← analyseT c
    pure (.cond c' a' b')
  | .cmp o a b => do let b' ← analyseT b; let a' ← analyseT a; pure (.cmp o a' b')
  | .land a b => do let b' ← analyseT b; let a' ← analyseT a; pure (.land a' b')
  | .lor a b => do let b' ← analyseT b; let a' ← analyseT a; pure (.lor a' b')
  | .lnot a => do pure (.lnot (← analyseT a))

/-- `Evaluator::analyse(f, b)` -/
def parseWith (fixed : Bool) (vars : List String) (mgr : Bool) (f : String) : Except Err (Expr Float) := do
  let toks ← tokenize f
  let c : Ctx := { toks := toks, fixed := fixed, vars := vars, mgr := mgr }
  let (g, _) ← treatGroup c 0 toks.size ""
  let r ← reduceT g
  analyseT r

def parse (f : String) : Except Err (Expr Float) := parseWith false [] false f

end TfelVerif.C13
