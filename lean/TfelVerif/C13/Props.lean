import TfelVerif.C13.Model
namespace TfelVerif.C13.Props
theorem placeholder : (1 : Nat) = 1 := rfl
end TfelVerif.C13.Props
