/-
  C13 — Expression evaluator implements the documented formula language.

  Theorems about the executable model of `tfel::math::Evaluator` (Model.lean; tied to the C++ by the string
  correspondence of checks/C13.py on every run). `reduceItems` is `Evaluator::TGroup::reduce`: the five
  passes `**`, `/`, `*`, `-`, `+` over the items of a group, generic in the operand type, and it is the
  function the driver runs on every group of every formula.

  (a) round trip / unambiguity: every term, printed by the precedence-aware printer `Tm.print` (parentheses
      only where the five-level grammar needs them), is parsed back to itself; shapes are parsed back too.
  (b) standard precedence by value: for every derivation of the textbook grammar
      `expr := [-] term {(+ [-] | -) term}`, `term := power {(*|/) [-] power}`, `power := atom [** [-] atom]`
      the code's reduction succeeds and its result has the standard value in every field
      (tree shapes differ: `a*b/c ↦ a*(b/c)`, `a+b-c ↦ a+(b-c)`); chained `**` are excluded (see the
      observation `chained_power_is_left_associative`).
  (c) rejection: a group is reduced to a tree only if it is a shape (`[-] x (op [-] x)*`, no `- -`);
      every other item list raises an error or stays unreduced.
  (d) parameter → variable rewriting and the integer-power specialisation preserve the value.
-/
import TfelVerif.C13.Eval

namespace TfelVerif.C13.Props
open TfelVerif.C13 Item

variable {α : Type} [Alg α]

/-! ### the reduction is complete and deterministic on shapes -/

/-- every well-formed shape is reduced, without error, to the tree `T5` of the code's effective grammar -/
theorem group_reduction_complete (s : Flat α) (hs : s.WF) :
    reduceItems (flatten s) = .ok [opnd (T5 s)] :=
  reduceItems_flatten s hs

example : Flat.WF (((false, (1 : Nat)), [(Op.mul, true, 2), (Op.sub, false, 3)]) : Flat Nat) := by
  intro e he; simp at he; rcases he with rfl | rfl <;> simp

/-- the code's passes compute exactly the five-level left-associative grammar
    `+ < - < * < / < **` (unary minus at the head of a `-`-chain and after `+ * / **`) -/
theorem reduction_is_five_level_grammar (c : AddC α) :
    reduceItems (flatten c.yield) = .ok [opnd c.tree] := by
  rw [reduceItems_flatten _ (yield5_WF c), T5_yield5]

/-! ### (a) round trip -/

/-- print/parse round trip: for every term (any depth), reducing the printed group gives the term back -/
theorem print_parse_round_trip {β : Type} (t : Tm β) :
    reduceItems (flatten t.print) = .ok [opnd t] := by
  rw [Tm.print, reduction_is_five_level_grammar, Tm.toAdd_tree]

/-- the printer does omit parentheses: `a * b - c / d ** e` is printed as one group of nine items -/
example : (flatten (Tm.print (Tm.bin .sub (Tm.bin .mul (Tm.atom 1) (Tm.atom 2))
    (Tm.bin .div (Tm.atom 3) (Tm.bin .pow (Tm.atom 4) (Tm.atom 5)))))).length = 9 := by decide

omit [Alg α] in
/-- shapes are unambiguous: the item list of a shape is parsed back to the shape -/
theorem shape_round_trip (s : Flat α) (hs : s.WF) : unflat (flatten s) = some s := by
  obtain ⟨⟨n, a⟩, t⟩ := s
  have ht : ∀ t : List (Entry α), (∀ e ∈ t, e.1 = Op.sub → e.2.1 = false) →
      unflatTail (flattenTail t) = some t := by
    intro t
    induction t with
    | nil => intro _; rfl
    | cons e t ih =>
      intro h
      obtain ⟨o, m, b⟩ := e
      have ih' := ih (fun e he => h e (List.mem_cons_of_mem _ he))
      cases m
      · simp [flattenTail, unflatTail, ih']
      · have ho : o ≠ Op.sub := fun ho => by
          have := h (o, true, b) (List.mem_cons_self ..) ho; simp at this
        cases o <;> simp_all [flattenTail, unflatTail]
  have := ht t hs
  cases n <;> simp [flatten, flattenHead, unflat, this]

/-! ### (b) standard precedence by value -/

/-- for every derivation `S` of the textbook grammar (standard precedence, no chained `**`) and every
    field, the code's reduction of the yield of `S` succeeds with the standard value of `S` -/
theorem standard_precedence_value {K : Type} [Field K] [HasPw K] (S : SumD K) (hS : S.WF) :
    reduceItems (flatten S.yield) = .ok [opnd S.val3] := by
  rw [reduceItems_flatten _ (S.yield_WF hS), T5_yield_val3 S hS]

/-- the same on trees: the code-order parse and the reference parse `S.val3` (built with the standard
    precedence) have the same value under every interpretation in an ordered field -/
theorem standard_precedence_trees {ν K : Type} [Field K] [LinearOrder K] (I : Interp ν K)
    (S : SumD (Expr ν)) (hS : S.WF) :
    ∃ t, reduceItems (flatten S.yield) = .ok [opnd t] ∧ Expr.eval I t = Expr.eval I S.val3 := by
  refine ⟨T5 S.yield, reduceItems_flatten _ (S.yield_WF hS), ?_⟩
  let _ : HasPw K := ⟨I.pw⟩
  have hh : AlgHom (Expr.eval I) := ⟨fun a => rfl, fun o a b => by cases o <;> rfl⟩
  rw [hom_T5 _ hh _ (S.yield_WF hS), ← SumD.yield_map, SumD.val3_map _ hh,
    T5_yield_val3 _ (S.map_WF _ hS)]

/-- non-vacuity and the shape difference: `a * b / c` is reduced to `a * (b / c)`, not `(a * b) / c` -/
example (a b c : α) :
    reduceItems [opnd a, oper .mul, opnd b, oper .div, opnd c]
      = .ok [opnd (Alg.bin .mul a (Alg.bin .div b c))] := by
  simp [reduceItems, pass, bind, Except.bind, pa_opnd, pa_other, pa_bin, pa_nil]

/-- observation (docs/web/math.md is silent on associativity): chained powers are left-associative -/
theorem chained_power_is_left_associative (a b c : α) :
    reduceItems [opnd a, oper .pow, opnd b, oper .pow, opnd c]
      = .ok [opnd (Alg.bin .pow (Alg.bin .pow a b) c)] := by
  simp [reduceItems, pass, bind, Except.bind, pa_opnd, pa_other, pa_bin, pa_nil]

/-- ... and a unary minus in the exponent only takes the next operand: `a ** - b ** c = (a ** (-b)) ** c` -/
theorem chained_power_with_minus (a b c : α) :
    reduceItems [opnd a, oper .pow, oper .sub, opnd b, oper .pow, opnd c]
      = .ok [opnd (Alg.bin .pow (Alg.bin .pow a (Alg.neg b)) c)] := by
  simp [reduceItems, pass, bind, Except.bind, pa_opnd, pa_other, pa_bin, pa_binneg, pa_nil]

/-! ### (c) rejection -/

/-- a group is reduced to one tree only if its items form a shape, and then the tree is `T5` of it:
    nothing else is silently accepted, and no shape is parsed differently -/
theorem accepted_only_shapes (l : List (Item α)) (v : α) (h : reduceItems l = .ok [opnd v]) :
    ∃ s : Flat α, s.WF ∧ flatten s = l ∧ v = T5 s := by
  have hacc : accept l := by
    have := run_reduceItems l _ h
    unfold accept; rw [← this]; rfl
  obtain ⟨s, hs⟩ := unflat_of_accept l hacc
  obtain ⟨hfl, hwf⟩ := flatten_of_unflat l s hs
  refine ⟨s, hwf, hfl, ?_⟩
  have := reduceItems_flatten s hwf
  rw [hfl, h] at this
  simpa using this

/-- malformed item lists are never reduced to a tree -/
theorem malformed_rejected (l : List (Item α)) (hl : ¬ accept l) (v : α) : reduceItems l ≠ .ok [opnd v] := by
  intro h
  obtain ⟨s, _, hfl, _⟩ := accepted_only_shapes l v h
  apply hl
  have := run_reduceItems l _ h
  unfold accept; rw [← this]; rfl

omit [Alg α] in
theorem empty_not_accepted : ¬ accept ([] : List (Item α)) := by simp [accept, St.run]

omit [Alg α] in
/-- operator at the end of the group -/
theorem trailing_operator_not_accepted (l : List (Item α)) (o : Op) : ¬ accept (l ++ [oper o]) := by
  unfold accept
  rw [run_append]
  cases St.run .start l with
  | none => simp
  | some q => cases q <;> cases o <;> simp [St.run, St.step]

omit [Alg α] in
/-- two operands without an operator (`2 x`) -/
theorem adjacent_operands_not_accepted (l r : List (Item α)) (a b : α) :
    ¬ accept (l ++ opnd a :: opnd b :: r) := by
  unfold accept
  rw [run_append]
  cases St.run .start l with
  | none => simp
  | some q => cases q <;> simp [St.run, St.step]

omit [Alg α] in
/-- two operators other than the allowed `op -` (with `op ≠ -`) patterns -/
theorem two_operators_not_accepted (l r : List (Item α)) (o1 o2 : Op) (h : o2 ≠ .sub ∨ o1 = .sub) :
    ¬ accept (l ++ oper o1 :: oper o2 :: r) := by
  unfold accept
  rw [run_append]
  cases St.run .start l with
  | none => simp
  | some q => cases q <;> cases o1 <;> cases o2 <;> simp_all [St.run, St.step]

omit [Alg α] in
/-- operator other than `-` at the beginning -/
theorem leading_operator_not_accepted (r : List (Item α)) (o : Op) (h : o ≠ .sub) : ¬ accept (oper o :: r) := by
  unfold accept; cases o <;> simp_all [St.run, St.step]

/-- e.g. `a + * b`, `a - - b`, `a +` are rejected -/
example (a b : α) (v : α) : reduceItems [opnd a, oper .sub, oper .sub, opnd b] ≠ .ok [opnd v] :=
  malformed_rejected _ (two_operators_not_accepted [opnd a] [opnd b] .sub .sub (Or.inr rfl)) v

/-! ### (d) rewritings preserve the value -/

/-- `createFunctionByChangingParametersIntoVariables`: the rewritten tree has the same value when the new
    variables are given the parameters' values -/
theorem parameter_rewriting_preserves_value {ν K : Type} [Field K] [LinearOrder K] (I : Interp ν K)
    (ps : List String) (hps : ∀ p ∈ ps, I.var p = I.par p) (e e' : Expr ν)
    (h : e.rewriteParams ps = .ok e') : Expr.eval I e' = Expr.eval I e :=
  (Expr.rewriteParams_eval I ps hps e e' h).1

example : (Expr.bin .mul (Expr.param "a") (Expr.var "x") : Expr Nat).rewriteParams ["a"]
    = .ok (Expr.bin .mul (Expr.var "a") (Expr.var "x")) := by
  simp [Expr.rewriteParams, bind, Except.bind, pure, Except.pure]

/-- `TBinaryOperation::analyse`: replacing `a ** b` by the integer power `power<n>(a)` preserves the value
    whenever the exponent test is exact and `pw x n = x ^ n` -/
theorem power_specialisation_preserves_value {ν K : Type} [Field K] [LinearOrder K] (I : Interp ν K)
    (one : ν) (small : Expr ν → Except Err (Option Int)) (hone : I.num one = 1)
    (hsmall : ∀ b n, small b = .ok (some n) → Expr.eval I b = (n : K))
    (hpw : ∀ (x : K) (n : Int), I.pw x (n : K) = x ^ n) (e e' : Expr ν)
    (h : e.specialise one small = .ok e') : Expr.eval I e' = Expr.eval I e :=
  (Expr.specialise_eval I one small hone hsmall hpw e e' h).1

end TfelVerif.C13.Props
