/-
  C13 — reference definitions (hand-written, independent of the code's algorithm).

  * `Flat`: the *shape* of a well-formed group: `[-] x (op [-] x)*` where no unary minus follows a binary
    minus; `flatten` prints it as the item list a `TGroup` holds; `accept` is the 4-state automaton of
    that regular language; `unflat` its parser.
  * `T5`: the tree of a shape under the code's effective grammar (five left-associative levels
    `+ < - < * < / < **`, a unary minus binds to what follows it at the level it is met).
  * `SumD/TermD/PowD`: derivations of the textbook grammar with the *standard* precedence
    (`{+,-} < {*,/} < **`, no chained `**`), their yield and their value `val3`.
-/
import TfelVerif.C13.Model

namespace TfelVerif.C13

variable {α : Type}

/-- `(negated?, operand)` followed by `(operator, negated?, operand)*` -/
abbrev Entry (α : Type) := Op × Bool × α
abbrev Flat (α : Type) := (Bool × α) × List (Entry α)

/-- no unary minus after a binary minus (`a - - b` is not in the language) -/
def Flat.WF (s : Flat α) : Prop := ∀ e ∈ s.2, e.1 = Op.sub → e.2.1 = false

def flattenHead (h : Bool × α) : List (Item α) :=
  (if h.1 then [Item.oper Op.sub] else []) ++ [Item.opnd h.2]

def flattenTail : List (Entry α) → List (Item α)
  | [] => []
  | (o, n, a) :: t => Item.oper o :: ((if n then [Item.oper Op.sub] else []) ++ Item.opnd a :: flattenTail t)

/-- the item list of a shape -/
def flatten (s : Flat α) : List (Item α) := flattenHead s.1 ++ flattenTail s.2

section folds
variable [Alg α]

def negIf (n : Bool) (a : α) : α := if n then Alg.neg a else a

/-- fold the maximal runs of operator `k` (`k ≠ -`), left-associatively; a unary minus after `k` is applied
    to the operand that follows; everything else is kept -/
def foldK (k : Op) : (Bool × α) → List (Entry α) → Flat α
  | cur, [] => (cur, [])
  | cur, (o, n, b) :: t =>
    if o = k then foldK k (cur.1, Alg.bin k cur.2 (negIf n b)) t
    else let r := foldK k (n, b) t; (cur, (o, r.1.1, r.1.2) :: r.2)

/-- the `-` level: the leading unary minus and the ones after `+` are applied, binary minus runs are folded -/
def foldSub : α → List (Entry α) → Flat α
  | cur, [] => ((false, cur), [])
  | cur, (o, n, b) :: t =>
    if o = Op.sub then foldSub (Alg.bin Op.sub cur b) t
    else let r := foldSub (negIf n b) t; ((false, cur), (o, false, r.1.2) :: r.2)

def foldL (k : Op) (s : Flat α) : Flat α := foldK k s.1 s.2
def foldS (s : Flat α) : Flat α := foldSub (negIf s.1.1 s.1.2) s.2

/-- the five levels in the code's order -/
def levels (s : Flat α) : Flat α := foldL .add (foldS (foldL .mul (foldL .div (foldL .pow s))))

/-- the tree of a shape under the code's effective grammar -/
def T5 (s : Flat α) : α := (levels s).1.2

end folds

/-! ### the regular language of shapes -/

inductive St | start | opnd | afterOp | needOpnd
  deriving DecidableEq, Repr

/-- one step of the automaton: `start -(-)→ needOpnd`, `x` accepted in `start/afterOp/needOpnd`,
    after an operand any operator, after an operator other than `-` a unary minus -/
def St.step : St → Item α → Option St
  | .start, .opnd _ => some .opnd
  | .start, .oper .sub => some .needOpnd
  | .start, .oper _ => none
  | .opnd, .opnd _ => none
  | .opnd, .oper .sub => some .needOpnd
  | .opnd, .oper _ => some .afterOp
  | .afterOp, .opnd _ => some .opnd
  | .afterOp, .oper .sub => some .needOpnd
  | .afterOp, .oper _ => none
  | .needOpnd, .opnd _ => some .opnd
  | .needOpnd, .oper _ => none

def St.run : St → List (Item α) → Option St
  | q, [] => some q
  | q, i :: l => match q.step i with
    | none => none
    | some q' => q'.run l

/-- the item list is a well-formed group -/
def accept (l : List (Item α)) : Prop := St.run .start l = some .opnd

/-- parser of shapes -/
def unflatTail : List (Item α) → Option (List (Entry α))
  | [] => some []
  | .oper o :: .opnd b :: r => (unflatTail r).map ((o, false, b) :: ·)
  | .oper o :: .oper .sub :: .opnd b :: r =>
    if o = Op.sub then none else (unflatTail r).map ((o, true, b) :: ·)
  | _ => none

def unflat : List (Item α) → Option (Flat α)
  | .opnd a :: r => (unflatTail r).map (((false, a), ·))
  | .oper .sub :: .opnd a :: r => (unflatTail r).map (((true, a), ·))
  | _ => none

/-! ### the textbook grammar: standard precedence -/

/-- `power := atom [ ** [-] atom ]` (no chained `**`) -/
structure PowD (α : Type) where
  base : α
  exp : Option (Bool × α)

/-- `term := power { (*|/) [-] power }` ; `true` = division -/
structure TermD (α : Type) where
  first : PowD α
  rest : List (Bool × Bool × PowD α)

/-- `expr := [-] term { (+ [-] | -) term }` ; `true` = subtraction -/
structure SumD (α : Type) where
  neg : Bool
  first : TermD α
  rest : List (Bool × Bool × TermD α)

def SumD.WF (S : SumD α) : Prop := ∀ e ∈ S.rest, e.1 = true → e.2.1 = false

def PowD.yieldTail (p : PowD α) : List (Entry α) :=
  match p.exp with
  | none => []
  | some (n, e) => [(Op.pow, n, e)]

def TermD.yieldTail (t : TermD α) : List (Entry α) :=
  t.first.yieldTail ++ t.rest.flatMap (fun e => ((if e.1 then Op.div else Op.mul), e.2.1, e.2.2.base) :: e.2.2.yieldTail)

def SumD.yield (S : SumD α) : Flat α :=
  ((S.neg, S.first.first.base),
   S.first.yieldTail ++ S.rest.flatMap (fun e =>
      ((if e.1 then Op.sub else Op.add), e.2.1, e.2.2.first.base) :: e.2.2.yieldTail))

section val
variable [Alg α]

def PowD.val (p : PowD α) : α :=
  match p.exp with
  | none => p.base
  | some (n, e) => Alg.bin Op.pow p.base (negIf n e)

/-- left-associative product/quotient of the (signed) powers -/
def TermD.val (t : TermD α) : α :=
  t.rest.foldl (fun acc e => Alg.bin (if e.1 then Op.div else Op.mul) acc (negIf e.2.1 e.2.2.val)) t.first.val

/-- left-associative sum/difference of the (signed) terms -/
def SumD.val3 (S : SumD α) : α :=
  S.rest.foldl (fun acc e => Alg.bin (if e.1 then Op.sub else Op.add) acc (negIf e.2.1 e.2.2.val))
    (negIf S.neg S.first.val)

end val


/-! ### the code's effective grammar (five left-associative levels) and the precedence-aware printer -/

/-- `x ** [-]x ** ...` -/
abbrev PowC (α : Type) := α × List (Bool × α)
/-- `p / [-]p / ...` -/
abbrev DivC (α : Type) := PowC α × List (Bool × PowC α)
/-- `d * [-]d * ...` -/
abbrev MulC (α : Type) := DivC α × List (Bool × DivC α)
/-- `[-]m - m - ...` -/
abbrev SubC (α : Type) := (Bool × MulC α) × List (MulC α)
/-- `s + s + ...` (each `s` may start with a unary minus) -/
abbrev AddC (α : Type) := SubC α × List (SubC α)

def chainTail (k : Op) (l : List (Bool × α)) : List (Entry α) := l.map (fun e => (k, e.1, e.2))

def PowC.tail (p : PowC α) : List (Entry α) := chainTail Op.pow p.2
def DivC.tail (d : DivC α) : List (Entry α) :=
  PowC.tail d.1 ++ d.2.flatMap (fun e => (Op.div, e.1, e.2.1) :: PowC.tail e.2)
def DivC.base (d : DivC α) : α := d.1.1
def MulC.tail (m : MulC α) : List (Entry α) :=
  DivC.tail m.1 ++ m.2.flatMap (fun e => (Op.mul, e.1, DivC.base e.2) :: DivC.tail e.2)
def MulC.base (m : MulC α) : α := DivC.base m.1
def SubC.tail (s : SubC α) : List (Entry α) :=
  MulC.tail s.1.2 ++ s.2.flatMap (fun m => (Op.sub, false, MulC.base m) :: MulC.tail m)
def AddC.yield (c : AddC α) : Flat α :=
  ((c.1.1.1, MulC.base c.1.1.2),
   SubC.tail c.1 ++ c.2.flatMap (fun s => (Op.add, s.1.1, MulC.base s.1.2) :: SubC.tail s))

section tree5
variable [Alg α]
def chainTree (k : Op) (a : α) (l : List (Bool × α)) : α :=
  l.foldl (fun acc e => Alg.bin k acc (negIf e.1 e.2)) a
def PowC.tree (p : PowC α) : α := chainTree Op.pow p.1 p.2
def DivC.tree (d : DivC α) : α := chainTree Op.div (PowC.tree d.1) (d.2.map (fun e => (e.1, PowC.tree e.2)))
def MulC.tree (m : MulC α) : α := chainTree Op.mul (DivC.tree m.1) (m.2.map (fun e => (e.1, DivC.tree e.2)))
def SubC.tree (s : SubC α) : α :=
  chainTree Op.sub (negIf s.1.1 (MulC.tree s.1.2)) (s.2.map (fun m => (false, MulC.tree m)))
/-- the tree of a derivation of the five-level grammar -/
def AddC.tree (c : AddC α) : α := chainTree Op.add (SubC.tree c.1) (c.2.map (fun s => (false, SubC.tree s)))
end tree5

/-- terms over atoms (the free algebra) -/
inductive Tm (β : Type)
  | atom (b : β)
  | neg (t : Tm β)
  | bin (o : Op) (a b : Tm β)

instance {β : Type} : Alg (Tm β) := ⟨Tm.neg, Tm.bin⟩

namespace Tm
variable {β : Type}

/-- `(flag, t')` with `t = -t'` when a unary minus can be printed in front of the operand -/
def unneg : Tm β → Bool × Tm β
  | .neg t => (true, t)
  | t => (false, t)

/-- the precedence-aware printer: a sub-term is inlined where the grammar level allows it, otherwise it
    stays an operand of its own (printed between parentheses, or an atom) -/
def toPow : Tm β → PowC (Tm β)
  | .bin .pow a b => let p := toPow a; (p.1, p.2 ++ [unneg b])
  | t => (t, [])

def toDiv : Tm β → DivC (Tm β)
  | .bin .div a b => let d := toDiv a; (d.1, d.2 ++ [((unneg b).1, toPow (unneg b).2)])
  | t => (toPow t, [])

def toMul : Tm β → MulC (Tm β)
  | .bin .mul a b => let m := toMul a; (m.1, m.2 ++ [((unneg b).1, toDiv (unneg b).2)])
  | t => (toDiv t, [])

def toSub : Tm β → SubC (Tm β)
  | .bin .sub a b => let s := toSub a; (s.1, s.2 ++ [toMul b])
  | t => (((unneg t).1, toMul (unneg t).2), [])

def toAdd : Tm β → AddC (Tm β)
  | .bin .add a b => let c := toAdd a; (c.1, c.2 ++ [toSub b])
  | t => (toSub t, [])

/-- the printed shape of a term -/
def print (t : Tm β) : Flat (Tm β) := (toAdd t).yield

end Tm

end TfelVerif.C13
