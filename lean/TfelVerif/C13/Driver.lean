/- line-protocol driver of the C13 model: one request per line, one answer per line (see harness/C13/harness.cxx) -/
import TfelVerif.C13.Model
open TfelVerif.C13

namespace TfelVerif.C13.Driver

def hexDigit (n : Nat) : Char := if n < 10 then Char.ofNat (48 + n) else Char.ofNat (87 + n)

def hex16 (u : UInt64) : String :=
  String.ofList ((List.range 16).map (fun i => hexDigit ((u.toNat >>> (4 * (15 - i))) % 16)))

def hexVal (c : Char) : Nat :=
  if '0' ≤ c && c ≤ '9' then c.toNat - 48 else if 'a' ≤ c && c ≤ 'f' then c.toNat - 87
  else if 'A' ≤ c && c ≤ 'F' then c.toNat - 55 else 0

def ofHex (s : String) : Float := Float.ofBits (UInt64.ofNat (s.toList.foldl (fun n c => 16 * n + hexVal c) 0))

/-- split at the first `n` semicolons -/
def fields (s : String) (n : Nat) : List String :=
  let rec go : Nat → List Char → List Char → List String → List String
    | 0, cs, cur, acc => (String.ofList (cur.reverse ++ cs) :: acc).reverse
    | _, [], cur, acc => (String.ofList cur.reverse :: acc).reverse
    | k + 1, c :: cs, cur, acc =>
      if c == ';' then go k cs [] (String.ofList cur.reverse :: acc) else go (k + 1) cs (c :: cur) acc
  go n s.toList [] []

def splitComma (s : String) : List String := if s.isEmpty then [] else s.splitOn ","

def envOf (b : String) : String → Float :=
  let kv := (splitComma b).filterMap (fun e => match e.splitOn "=" with
    | [k, v] => some (k, ofHex v) | _ => none)
  fun n => match kv.find? (·.1 == n) with | some (_, v) => v | none => 0.0

def showErr (e : Err) : String := "err " ++ e.name

def renderAns (e : Expr Float) : String :=
  match e.render with
  | some s => "ok " ++ s
  | none => showErr .unimplemented

def dedup (l : List String) : List String := l.foldl (fun acc x => if acc.contains x then acc else acc ++ [x]) []

def answer (line : String) : String :=
  let k := line.toList.headD ' '
  let a := String.ofList (line.toList.drop 2)
  match k with
  | 'P' => match parse a with
    | .ok e => renderAns e
    | .error e => showErr e
  | 'V' => match fields a 1 with
    | [b, f] => match parse f with
      | .error e => showErr e
      | .ok e => match evalF (envOf b) e with
        | .ok v => "val " ++ hex16 v.toBits
        | .error er => showErr er
    | _ => "bad-op"
  | 'Q' => match fields a 2 with
    | [vs, ps, f] =>
      let vars := splitComma vs
      let params := splitComma ps
      match parseWith true vars true f with
      | .error e => showErr e
      | .ok e =>
        let evp := e.params
        match params.find? (fun p => !evp.contains p) with
        | some _ => showErr .noParameter
        | none => match params.find? (fun p => vars.contains p) with
          | some _ => showErr .alreadyVariable
          | none => match e.rewriteParams params with
            | .ok e' => renderAns e'
            | .error er => showErr er
    | _ => "bad-op"
  | _ => "bad-op"

partial def loop (h : IO.FS.Stream) (ans : String → String) : IO Unit := do
  let line ← h.getLine
  if line.isEmpty then return ()
  let l := if line.back == '\n' then (line.dropEnd 1).toString else line
  IO.println (ans l)
  loop h ans

end TfelVerif.C13.Driver
