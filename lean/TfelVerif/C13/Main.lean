/- entry point of the C13 model driver -/
import TfelVerif.C13.Driver
def main : IO Unit := do TfelVerif.C13.Driver.loop (← IO.getStdin) TfelVerif.C13.Driver.answer
