/-
  C13 — helper lemmas for the "standard precedence by value" theorem: the folds of Spec.lean on entry
  lists (`foldE`), their locality, and the field identities that make the code's order
  (`/` before `*`, `-` before `+`) agree with the left-to-right evaluation of the textbook grammar.
-/
import Mathlib.Algebra.Field.Basic
import Mathlib.Tactic.Ring
import TfelVerif.C13.Lemmas

namespace TfelVerif.C13

section generic
variable {α : Type} [Alg α]

/-- `foldK` on a plain entry list (the operator of the first entry is never looked at) -/
def foldE (k : Op) : List (Entry α) → List (Entry α)
  | [] => []
  | [e] => [e]
  | e1 :: (o, n, b) :: t =>
    if o = k then foldE k ((e1.1, e1.2.1, Alg.bin k e1.2.2 (negIf n b)) :: t)
    else e1 :: foldE k ((o, n, b) :: t)
termination_by l => l.length

def toE (s : Flat α) : List (Entry α) := (Op.add, s.1.1, s.1.2) :: s.2

theorem foldE_toE (k : Op) (d : Op) (cur : Bool × α) (t : List (Entry α)) :
    foldE k ((d, cur.1, cur.2) :: t)
      = (d, (foldK k cur t).1.1, (foldK k cur t).1.2) :: (foldK k cur t).2 := by
  induction t generalizing d cur with
  | nil => simp [foldE, foldK]
  | cons e t ih =>
    obtain ⟨o, n, b⟩ := e
    rw [foldE]
    by_cases h : o = k
    · simp only [h, if_true, foldK]
      exact ih d (cur.1, Alg.bin k cur.2 (negIf n b))
    · simp only [h, if_false, foldK]
      rw [ih o (n, b)]

theorem foldE_toE' (k : Op) (s : Flat α) : foldE k (toE s) = toE (foldL k s) := by
  simp only [toE, foldL]; exact foldE_toE k Op.add s.1 s.2

/-- apply the pending unary minus signs -/
def applyFlags (l : List (Entry α)) : List (Entry α) := l.map (fun e => (e.1, false, negIf e.2.1 e.2.2))

theorem foldE_sub_applyFlags (d : Op) (n : Bool) (a : α) (t : List (Entry α))
    (ht : ∀ e ∈ t, e.1 = Op.sub → e.2.1 = false) :
    foldE Op.sub (applyFlags ((d, n, a) :: t))
      = (d, false, (foldSub (negIf n a) t).1.2) :: (foldSub (negIf n a) t).2 := by
  induction t generalizing d n a with
  | nil => simp [foldE, foldSub, applyFlags]
  | cons e t ih =>
    obtain ⟨o, m, b⟩ := e
    have ht' : ∀ e ∈ t, e.1 = Op.sub → e.2.1 = false := fun e he => ht e (List.mem_cons_of_mem _ he)
    simp only [applyFlags, List.map_cons]
    rw [foldE]
    by_cases h : o = Op.sub
    · have hm : m = false := ht (o, m, b) (List.mem_cons_self ..) h
      subst hm; subst h
      simp only [if_true, foldSub, negIf, Bool.false_eq_true, if_false]
      have := ih d false (Alg.bin Op.sub (if n = true then Alg.neg a else a) b) ht'
      simpa [applyFlags, negIf] using this
    · simp only [h, if_false, foldSub]
      have := ih o m b ht'
      simp only [applyFlags, List.map_cons] at this
      rw [this]

theorem foldE_append (k : Op) (l1 : List (Entry α)) (e : Entry α) (t : List (Entry α)) (he : e.1 ≠ k) :
    foldE k (l1 ++ e :: t) = foldE k l1 ++ foldE k (e :: t) := by
  fun_induction foldE k l1
  case case1 => simp [foldE]
  case case2 e1 =>
    obtain ⟨o, n, b⟩ := e
    simp only [List.singleton_append]
    rw [foldE]; simp only [] at he; simp [he, foldE]
  case case3 e1 o n b t' h ih => simp only [List.cons_append]; rw [foldE]; simp only [h, if_true]; exact ih
  case case4 e1 o n b t' h ih =>
    simp only [List.cons_append]; rw [foldE]; simp only [h, if_false]
    rw [show (o, n, b) :: (t' ++ e :: t) = ((o, n, b) :: t') ++ e :: t from rfl, ih]; rfl

/-- locality: blocks that start with an operator other than `k` are folded independently -/
theorem foldE_flatMap {ι : Type} (k : Op) (f : ι → List (Entry α))
    (hf : ∀ i, ∃ e t, f i = e :: t ∧ e.1 ≠ k) (is : List ι) (l0 : List (Entry α)) :
    foldE k (l0 ++ is.flatMap f) = foldE k l0 ++ is.flatMap (fun i => foldE k (f i)) := by
  induction is generalizing l0 with
  | nil => simp
  | cons i is ih =>
    simp only [List.flatMap_cons]
    rw [← List.append_assoc, ih]
    obtain ⟨e, t, hfi, he⟩ := hf i
    rw [hfi, foldE_append k l0 e t he, List.append_assoc]

end generic

/-! ### values in a field -/

section field
variable {K : Type} [Field K]

/-- the five operators in a field; `pw` is an arbitrary power function (no law is needed: chained `**`
    are outside the reference grammar) -/
def fieldAlg (pw : K → K → K) : Alg K where
  neg := fun a => -a
  bin := fun o a b => match o with
    | .pow => pw a b | .div => a / b | .mul => a * b | .sub => a - b | .add => a + b

variable (pw : K → K → K)

def sgn (n : Bool) (a : K) : K := if n then -a else a

omit [Field K] in
theorem negIf_field [Field K] (n : Bool) (a : K) : @negIf K (fieldAlg pw) n a = sgn n a := rfl

/-- standard left-to-right value of a product/quotient chain (entries: `true` = division) -/
def tv (x : K) (l : List (Bool × Bool × K)) : K :=
  l.foldl (fun acc e => if e.1 then acc / sgn e.2.1 e.2.2 else acc * sgn e.2.1 e.2.2) x

theorem tv_mul (x y : K) (l : List (Bool × Bool × K)) : tv (x * y) l = x * tv y l := by
  induction l generalizing y with
  | nil => rfl
  | cons e l ih =>
    simp only [tv, List.foldl_cons] at ih ⊢
    split_ifs
    · rw [mul_div_assoc]; exact ih _
    · rw [mul_assoc]; exact ih _

theorem tv_neg (y : K) (l : List (Bool × Bool × K)) : tv (-y) l = - tv y l := by
  have := tv_mul (-1) y l
  simpa using this

theorem tv_sgn (n : Bool) (y : K) (l : List (Bool × Bool × K)) : tv (sgn n y) l = sgn n (tv y l) := by
  cases n <;> simp [sgn, tv_neg]

def mdOp (d : Bool) : Op := if d then Op.div else Op.mul
def mdEntries (l : List (Bool × Bool × K)) : List (Entry K) := l.map (fun e => (mdOp e.1, e.2.1, e.2.2))

/-- `/` first: what remains is a chain of products with the same standard value -/
theorem foldE_div_chain (o : Op) (n : Bool) (x : K) (l : List (Bool × Bool × K)) :
    ∃ (g : K) (l' : List (Bool × K)),
      @foldE K (fieldAlg pw) Op.div ((o, n, x) :: mdEntries l) = (o, n, g) :: l'.map (fun e => (Op.mul, e.1, e.2))
      ∧ tv g (l'.map (fun e => (false, e.1, e.2))) = tv x l := by
  induction l generalizing o n x with
  | nil => exact ⟨x, [], by simp [mdEntries, foldE], rfl⟩
  | cons e l ih =>
    obtain ⟨d, m, b⟩ := e
    cases d
    · -- a product: the quotient chain that follows is folded on its own
      obtain ⟨g, l', h1, h2⟩ := ih Op.mul m b
      refine ⟨x, (m, g) :: l', ?_, ?_⟩
      · simp only [mdEntries, List.map_cons, mdOp, Bool.false_eq_true, if_false] at h1 ⊢
        rw [foldE]; simp only [show (Op.mul = Op.div) = False from by simp, if_false]
        rw [h1]
      · simp only [List.map_cons, tv, List.foldl_cons, Bool.false_eq_true, if_false]
        have e1 := tv_mul x (sgn m g) (l'.map (fun e => (false, e.1, e.2)))
        have e2 := tv_mul x (sgn m b) l
        simp only [tv] at e1 e2 h2
        rw [e1, e2]
        have e3 := tv_sgn m g (l'.map (fun e => (false, e.1, e.2)))
        have e4 := tv_sgn m b l
        simp only [tv] at e3 e4
        rw [e3, e4, h2]
    · obtain ⟨g, l', h1, h2⟩ := ih o n (x / sgn m b)
      refine ⟨g, l', ?_, ?_⟩
      · simp only [mdEntries, List.map_cons, mdOp, if_true] at h1 ⊢
        rw [foldE]; simp only [if_true]
        exact h1
      · rw [h2]; simp [tv]

/-- then `*`: a chain of products is folded from the left -/
theorem foldE_mul_chain (o : Op) (n : Bool) (g : K) (l' : List (Bool × K)) :
    @foldE K (fieldAlg pw) Op.mul ((o, n, g) :: l'.map (fun e => (Op.mul, e.1, e.2)))
      = [(o, n, tv g (l'.map (fun e => (false, e.1, e.2))))] := by
  induction l' generalizing g with
  | nil => simp [foldE, tv]
  | cons e l' ih =>
    simp only [List.map_cons]
    rw [foldE]; simp only [if_true]
    rw [ih]; simp [tv, fieldAlg, negIf, sgn]

/-- standard left-to-right value of a sum/difference chain (entries: `true` = subtraction) -/
def sv (x : K) (l : List (Bool × K)) : K :=
  l.foldl (fun acc e => if e.1 then acc - e.2 else acc + e.2) x

theorem sv_add (x y : K) (l : List (Bool × K)) : sv (x + y) l = x + sv y l := by
  induction l generalizing y with
  | nil => rfl
  | cons e l ih =>
    simp only [sv, List.foldl_cons] at ih ⊢
    split_ifs
    · rw [add_sub_assoc]; exact ih _
    · rw [add_assoc]; exact ih _

def asOp (d : Bool) : Op := if d then Op.sub else Op.add

/-- `-` first (unary minus signs already applied): what remains is a chain of sums with the same value -/
theorem foldE_sub_chain (o : Op) (x : K) (l : List (Bool × K)) :
    ∃ (g : K) (l' : List K),
      @foldE K (fieldAlg pw) Op.sub ((o, false, x) :: l.map (fun e => (asOp e.1, false, e.2)))
        = (o, false, g) :: l'.map (fun e => (Op.add, false, e))
      ∧ sv g (l'.map (fun e => (false, e))) = sv x l := by
  induction l generalizing o x with
  | nil => exact ⟨x, [], by simp [foldE], rfl⟩
  | cons e l ih =>
    obtain ⟨d, b⟩ := e
    cases d
    · obtain ⟨g, l', h1, h2⟩ := ih Op.add b
      refine ⟨x, g :: l', ?_, ?_⟩
      · simp only [List.map_cons, asOp, Bool.false_eq_true, if_false] at h1 ⊢
        rw [foldE]; simp only [show (Op.add = Op.sub) = False from by simp, if_false]
        rw [h1]
      · simp only [List.map_cons, sv, List.foldl_cons, Bool.false_eq_true, if_false]
        have e1 := sv_add x g (l'.map (fun e => (false, e)))
        have e2 := sv_add x b l
        simp only [sv] at e1 e2 h2
        rw [e1, e2, h2]
    · obtain ⟨g, l', h1, h2⟩ := ih o (x - b)
      refine ⟨g, l', ?_, ?_⟩
      · simp only [List.map_cons, asOp, if_true] at h1 ⊢
        rw [foldE]; simp only [if_true]
        simpa [fieldAlg, negIf] using h1
      · rw [h2]; simp [sv]

theorem foldE_add_chain (o : Op) (g : K) (l' : List K) :
    @foldE K (fieldAlg pw) Op.add ((o, false, g) :: l'.map (fun e => (Op.add, false, e)))
      = [(o, false, sv g (l'.map (fun e => (false, e))))] := by
  induction l' generalizing g with
  | nil => simp [foldE, sv]
  | cons e l' ih =>
    simp only [List.map_cons]
    rw [foldE]; simp only [if_true]
    rw [ih]; simp [sv, fieldAlg, negIf]

end field

end TfelVerif.C13
