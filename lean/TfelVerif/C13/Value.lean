/-
  C13 — helper lemmas for the "standard precedence by value" theorem: the folds of Spec.lean on entry
  lists (`foldE`), their locality, and the field identities that make the code's order
  (`/` before `*`, `-` before `+`) agree with the left-to-right evaluation of the textbook grammar.
-/
import Mathlib.Algebra.Field.Basic
import Mathlib.Tactic.Ring
import TfelVerif.C13.Lemmas

namespace TfelVerif.C13

section generic
variable {α : Type} [Alg α]

/-- `foldK` on a plain entry list (the operator of the first entry is never looked at) -/
def foldE (k : Op) : List (Entry α) → List (Entry α)
  | [] => []
  | [e] => [e]
  | e1 :: (o, n, b) :: t =>
    if o = k then foldE k ((e1.1, e1.2.1, Alg.bin k e1.2.2 (negIf n b)) :: t)
    else e1 :: foldE k ((o, n, b) :: t)
termination_by l => l.length

def toE (s : Flat α) : List (Entry α) := (Op.add, s.1.1, s.1.2) :: s.2

theorem foldE_toE (k : Op) (d : Op) (cur : Bool × α) (t : List (Entry α)) :
    foldE k ((d, cur.1, cur.2) :: t)
      = (d, (foldK k cur t).1.1, (foldK k cur t).1.2) :: (foldK k cur t).2 := by
  induction t generalizing d cur with
  | nil => simp [foldE, foldK]
  | cons e t ih =>
    obtain ⟨o, n, b⟩ := e
    rw [foldE]
    by_cases h : o = k
    · simp only [h, if_true, foldK]
      exact ih d (cur.1, Alg.bin k cur.2 (negIf n b))
    · simp only [h, if_false, foldK]
      rw [ih o (n, b)]

theorem foldE_toE' (k : Op) (s : Flat α) : foldE k (toE s) = toE (foldL k s) := by
  simp only [toE, foldL]; exact foldE_toE k Op.add s.1 s.2

/-- apply the pending unary minus signs -/
def applyFlags (l : List (Entry α)) : List (Entry α) := l.map (fun e => (e.1, false, negIf e.2.1 e.2.2))

theorem foldE_sub_applyFlags (d : Op) (n : Bool) (a : α) (t : List (Entry α))
    (ht : ∀ e ∈ t, e.1 = Op.sub → e.2.1 = false) :
    foldE Op.sub (applyFlags ((d, n, a) :: t))
      = (d, false, (foldSub (negIf n a) t).1.2) :: (foldSub (negIf n a) t).2 := by
  induction t generalizing d n a with
  | nil => simp [foldE, foldSub, applyFlags]
  | cons e t ih =>
    obtain ⟨o, m, b⟩ := e
    have ht' : ∀ e ∈ t, e.1 = Op.sub → e.2.1 = false := fun e he => ht e (List.mem_cons_of_mem _ he)
    simp only [applyFlags, List.map_cons]
    rw [foldE]
    by_cases h : o = Op.sub
    · have hm : m = false := ht (o, m, b) (List.mem_cons_self ..) h
      subst hm; subst h
      simp only [if_true, foldSub, negIf, Bool.false_eq_true, if_false]
      have := ih d false (Alg.bin Op.sub (if n = true then Alg.neg a else a) b) ht'
      simpa [applyFlags, negIf] using this
    · simp only [h, if_false, foldSub]
      have := ih o m b ht'
      simp only [applyFlags, List.map_cons] at this
      rw [this]

theorem foldE_append (k : Op) (l1 : List (Entry α)) (e : Entry α) (t : List (Entry α)) (he : e.1 ≠ k) :
    foldE k (l1 ++ e :: t) = foldE k l1 ++ foldE k (e :: t) := by
  fun_induction foldE k l1
  case case1 => simp [foldE]
  case case2 e1 =>
    obtain ⟨o, n, b⟩ := e
    simp only [List.singleton_append]
    rw [foldE]; simp only [] at he; simp [he, foldE]
  case case3 e1 n b t' ih =>
    simp only [List.cons_append] at ih ⊢
    rw [foldE]; simp only [if_true]; exact ih
  case case4 e1 o n b t' h ih =>
    simp only [List.cons_append] at ih ⊢
    rw [foldE]; simp only [h, if_false]; rw [ih]

/-- locality: blocks that start with an operator other than `k` are folded independently -/
theorem foldE_flatMap {ι : Type} (k : Op) (f : ι → List (Entry α))
    (hf : ∀ i, ∃ e t, f i = e :: t ∧ e.1 ≠ k) (is : List ι) (l0 : List (Entry α)) :
    foldE k (l0 ++ is.flatMap f) = foldE k l0 ++ is.flatMap (fun i => foldE k (f i)) := by
  induction is generalizing l0 with
  | nil => simp
  | cons i is ih =>
    simp only [List.flatMap_cons]
    rw [← List.append_assoc, ih]
    obtain ⟨e, t, hfi, he⟩ := hf i
    rw [hfi, foldE_append k l0 e t he, List.append_assoc]

end generic

/-! ### values in a field -/

section field
variable {K : Type} [Field K]

/-- an arbitrary power function (no law is needed for the precedence theorem: chained `**` are outside
    the reference grammar) -/
class HasPw (K : Type) where
  pw : K → K → K

variable [HasPw K]

/-- the five operators in a field -/
instance fieldAlg : Alg K where
  neg := fun a => -a
  bin := fun o a b => match o with
    | .pow => HasPw.pw a b | .div => a / b | .mul => a * b | .sub => a - b | .add => a + b

def sgn (n : Bool) (a : K) : K := if n then -a else a

@[simp] theorem alg_neg (a : K) : (Alg.neg a : K) = -a := rfl
@[simp] theorem alg_pow (a b : K) : Alg.bin Op.pow a b = HasPw.pw a b := rfl
@[simp] theorem alg_div (a b : K) : Alg.bin Op.div a b = a / b := rfl
@[simp] theorem alg_mul (a b : K) : Alg.bin Op.mul a b = a * b := rfl
@[simp] theorem alg_sub (a b : K) : Alg.bin Op.sub a b = a - b := rfl
@[simp] theorem alg_add (a b : K) : Alg.bin Op.add a b = a + b := rfl

theorem negIf_field (n : Bool) (a : K) : negIf n a = sgn n a := rfl

/-- standard left-to-right value of a product/quotient chain (entries: `true` = division) -/
def tv (x : K) (l : List (Bool × Bool × K)) : K :=
  l.foldl (fun acc e => if e.1 then acc / sgn e.2.1 e.2.2 else acc * sgn e.2.1 e.2.2) x

theorem tv_mul (x y : K) (l : List (Bool × Bool × K)) : tv (x * y) l = x * tv y l := by
  induction l generalizing y with
  | nil => rfl
  | cons e l ih =>
    simp only [tv, List.foldl_cons] at ih ⊢
    split_ifs
    · rw [mul_div_assoc]; exact ih _
    · rw [mul_assoc]; exact ih _

theorem tv_neg (y : K) (l : List (Bool × Bool × K)) : tv (-y) l = - tv y l := by
  have := tv_mul (-1) y l
  simpa using this

theorem tv_sgn (n : Bool) (y : K) (l : List (Bool × Bool × K)) : tv (sgn n y) l = sgn n (tv y l) := by
  cases n <;> simp [sgn, tv_neg]

def mdOp (d : Bool) : Op := if d then Op.div else Op.mul
def mdEntries (l : List (Bool × Bool × K)) : List (Entry K) := l.map (fun e => (mdOp e.1, e.2.1, e.2.2))

/-- `/` first, computed: the head and the remaining factors of the chain of products -/
def dchain : K → List (Bool × Bool × K) → K × List (Bool × K)
  | x, [] => (x, [])
  | x, (true, m, b) :: l => dchain (x / sgn m b) l
  | x, (false, m, b) :: l => (x, (m, (dchain b l).1) :: (dchain b l).2)

/-- `/` first: what remains is a chain of products ... -/
theorem foldE_div_chain (o : Op) (n : Bool) (x : K) (l : List (Bool × Bool × K)) :
    foldE Op.div ((o, n, x) :: mdEntries l)
      = (o, n, (dchain x l).1) :: (dchain x l).2.map (fun e => (Op.mul, e.1, e.2)) := by
  induction l generalizing o n x with
  | nil => simp [mdEntries, foldE, dchain]
  | cons e l ih =>
    obtain ⟨d, m, b⟩ := e
    cases d
    · have h1 := ih Op.mul m b
      simp only [mdEntries, List.map_cons, mdOp, Bool.false_eq_true, if_false, dchain] at h1 ⊢
      rw [foldE]; simp only [show (Op.mul = Op.div) = False from by simp, if_false]
      rw [h1]
    · have h1 := ih o n (x / sgn m b)
      simp only [mdEntries, List.map_cons, mdOp, if_true, dchain] at h1 ⊢
      rw [foldE]; simp only [if_true]
      exact h1

/-- ... with the same standard value -/
theorem tv_dchain (x : K) (l : List (Bool × Bool × K)) :
    tv (dchain x l).1 ((dchain x l).2.map (fun e => (false, e.1, e.2))) = tv x l := by
  induction l generalizing x with
  | nil => rfl
  | cons e l ih =>
    obtain ⟨d, m, b⟩ := e
    cases d
    · have h2 := ih b
      simp only [dchain, List.map_cons, tv, List.foldl_cons, Bool.false_eq_true, if_false]
      have e1 := tv_mul x (sgn m (dchain b l).1) ((dchain b l).2.map (fun e => (false, e.1, e.2)))
      have e2 := tv_mul x (sgn m b) l
      have e3 := tv_sgn m (dchain b l).1 ((dchain b l).2.map (fun e => (false, e.1, e.2)))
      have e4 := tv_sgn m b l
      simp only [tv] at e1 e2 e3 e4 h2
      rw [e1, e2, e3, e4, h2]
    · have h2 := ih (x / sgn m b)
      simp only [dchain]; rw [h2]; simp [tv]

/-- then `*`: a chain of products is folded from the left -/
theorem foldE_mul_chain (o : Op) (n : Bool) (g : K) (l' : List (Bool × K)) :
    foldE Op.mul ((o, n, g) :: l'.map (fun e => (Op.mul, e.1, e.2)))
      = [(o, n, tv g (l'.map (fun e => (false, e.1, e.2))))] := by
  induction l' generalizing g with
  | nil => simp [foldE, tv]
  | cons e l' ih =>
    simp only [List.map_cons]
    rw [foldE]; simp only [if_true]
    rw [ih]; simp [tv, negIf, sgn]

/-- standard left-to-right value of a sum/difference chain (entries: `true` = subtraction) -/
def sv (x : K) (l : List (Bool × K)) : K :=
  l.foldl (fun acc e => if e.1 then acc - e.2 else acc + e.2) x

theorem sv_add (x y : K) (l : List (Bool × K)) : sv (x + y) l = x + sv y l := by
  induction l generalizing y with
  | nil => rfl
  | cons e l ih =>
    simp only [sv, List.foldl_cons] at ih ⊢
    split_ifs
    · rw [add_sub_assoc]; exact ih _
    · rw [add_assoc]; exact ih _

def asOp (d : Bool) : Op := if d then Op.sub else Op.add

/-- `-` first, computed -/
def schain : K → List (Bool × K) → K × List K
  | x, [] => (x, [])
  | x, (true, b) :: l => schain (x - b) l
  | x, (false, b) :: l => (x, (schain b l).1 :: (schain b l).2)

/-- `-` first (unary minus signs already applied): what remains is a chain of sums ... -/
theorem foldE_sub_chain (o : Op) (x : K) (l : List (Bool × K)) :
    foldE Op.sub ((o, false, x) :: l.map (fun e => (asOp e.1, false, e.2)))
      = (o, false, (schain x l).1) :: (schain x l).2.map (fun e => (Op.add, false, e)) := by
  induction l generalizing o x with
  | nil => simp [foldE, schain]
  | cons e l ih =>
    obtain ⟨d, b⟩ := e
    cases d
    · have h1 := ih Op.add b
      simp only [List.map_cons, asOp, Bool.false_eq_true, if_false, schain] at h1 ⊢
      rw [foldE]; simp only [show (Op.add = Op.sub) = False from by simp, if_false]
      rw [h1]
    · have h1 := ih o (x - b)
      simp only [List.map_cons, asOp, if_true, schain] at h1 ⊢
      rw [foldE]; simp only [if_true]
      simpa [negIf] using h1

/-- ... with the same standard value -/
theorem sv_schain (x : K) (l : List (Bool × K)) :
    sv (schain x l).1 ((schain x l).2.map (fun e => (false, e))) = sv x l := by
  induction l generalizing x with
  | nil => rfl
  | cons e l ih =>
    obtain ⟨d, b⟩ := e
    cases d
    · have h2 := ih b
      simp only [schain, List.map_cons, sv, List.foldl_cons, Bool.false_eq_true, if_false]
      have e1 := sv_add x (schain b l).1 ((schain b l).2.map (fun e => (false, e)))
      have e2 := sv_add x b l
      simp only [sv] at e1 e2 h2
      rw [e1, e2, h2]
    · have h2 := ih (x - b)
      simp only [schain]; rw [h2]; simp [sv]

theorem foldE_add_chain (o : Op) (g : K) (l' : List K) :
    foldE Op.add ((o, false, g) :: l'.map (fun e => (Op.add, false, e)))
      = [(o, false, sv g (l'.map (fun e => (false, e))))] := by
  induction l' generalizing g with
  | nil => simp [foldE, sv]
  | cons e l' ih =>
    simp only [List.map_cons]
    rw [foldE]; simp only [if_true]
    rw [ih]; simp [sv, negIf]


/-! ### assembling: the yield of a derivation of the textbook grammar -/

def PowD.block (o : Op) (n : Bool) (p : PowD K) : List (Entry K) := (o, n, p.base) :: p.yieldTail

def TermD.block (o : Op) (n : Bool) (t : TermD K) : List (Entry K) :=
  PowD.block o n t.first ++ t.rest.flatMap (fun e => PowD.block (mdOp e.1) e.2.1 e.2.2)

def SumD.blocks (S : SumD K) : List (Entry K) :=
  TermD.block Op.add S.neg S.first ++ S.rest.flatMap (fun e => TermD.block (asOp e.1) e.2.1 e.2.2)

omit [Field K] [HasPw K] in
theorem toE_yield (S : SumD K) : toE S.yield = S.blocks := by
  simp [toE, SumD.yield, SumD.blocks, TermD.block, PowD.block, TermD.yieldTail, mdOp, asOp]

theorem foldE_pow_block (o : Op) (n : Bool) (p : PowD K) : foldE Op.pow (PowD.block o n p) = [(o, n, p.val)] := by
  obtain ⟨base, exp⟩ := p
  cases exp with
  | none => simp [PowD.block, PowD.yieldTail, PowD.val, foldE]
  | some e => obtain ⟨m, e⟩ := e; simp [PowD.block, PowD.yieldTail, PowD.val, foldE]

/-- the factors of a term, evaluated -/
def TermD.factors (t : TermD K) : List (Bool × Bool × K) := t.rest.map (fun e => (e.1, e.2.1, e.2.2.val))

theorem foldE_pow_term (o : Op) (n : Bool) (t : TermD K) :
    foldE Op.pow (TermD.block o n t) = (o, n, t.first.val) :: mdEntries t.factors := by
  unfold TermD.block
  rw [foldE_flatMap]
  · rw [foldE_pow_block]
    have : ∀ (l : List (Bool × Bool × PowD K)),
        l.flatMap (fun i => foldE Op.pow (PowD.block (mdOp i.1) i.2.1 i.2.2))
          = mdEntries (l.map (fun e => (e.1, e.2.1, e.2.2.val))) := by
      intro l
      induction l with
      | nil => rfl
      | cons e l ih => rw [List.flatMap_cons, ih, foldE_pow_block]; rfl
    rw [this]; rfl
  · intro e; exact ⟨_, _, rfl, by cases e.1 <;> simp [mdOp]⟩

theorem termVal_eq (t : TermD K) : t.val = tv t.first.val t.factors := by
  simp only [TermD.val, tv, TermD.factors, List.foldl_map]
  congr 1; funext acc e; cases e.1 <;> simp [negIf_field]

theorem foldE_mul_div_pow_term (o : Op) (n : Bool) (t : TermD K) :
    foldE Op.mul (foldE Op.div (foldE Op.pow (TermD.block o n t))) = [(o, n, t.val)] := by
  rw [foldE_pow_term, foldE_div_chain, foldE_mul_chain, tv_dchain, termVal_eq]

theorem block_head (o : Op) (n : Bool) (t : TermD K) :
    ∃ tl, TermD.block o n t = (o, n, t.first.base) :: tl := ⟨_, rfl⟩

theorem foldE_pow_head (o : Op) (n : Bool) (t : TermD K) :
    ∃ tl, foldE Op.pow (TermD.block o n t) = (o, n, t.first.val) :: tl := ⟨_, foldE_pow_term o n t⟩

theorem foldE_div_head (o : Op) (n : Bool) (t : TermD K) :
    ∃ x tl, foldE Op.div (foldE Op.pow (TermD.block o n t)) = (o, n, x) :: tl := by
  rw [foldE_pow_term, foldE_div_chain]; exact ⟨_, _, rfl⟩

/-- the three upper levels on the whole yield: one entry per term -/
theorem foldE_mul_div_pow_blocks (S : SumD K) :
    foldE Op.mul (foldE Op.div (foldE Op.pow S.blocks))
      = (Op.add, S.neg, S.first.val) :: S.rest.map (fun e => (asOp e.1, e.2.1, e.2.2.val)) := by
  unfold SumD.blocks
  rw [foldE_flatMap Op.pow _ (fun e => by
        obtain ⟨tl, h⟩ := block_head (asOp e.1) e.2.1 e.2.2
        exact ⟨_, _, h, by cases e.1 <;> simp [asOp]⟩)]
  rw [foldE_flatMap Op.div _ (fun e => by
        obtain ⟨tl, h⟩ := foldE_pow_head (asOp e.1) e.2.1 e.2.2
        exact ⟨_, _, h, by cases e.1 <;> simp [asOp]⟩)]
  rw [foldE_flatMap Op.mul _ (fun e => by
        obtain ⟨x, tl, h⟩ := foldE_div_head (asOp e.1) e.2.1 e.2.2
        exact ⟨_, _, h, by cases e.1 <;> simp [asOp]⟩)]
  rw [foldE_mul_div_pow_term]
  have : ∀ (l : List (Bool × Bool × TermD K)),
      l.flatMap (fun i => foldE Op.mul (foldE Op.div (foldE Op.pow (TermD.block (asOp i.1) i.2.1 i.2.2))))
        = l.map (fun e => (asOp e.1, e.2.1, e.2.2.val)) := by
    intro l
    induction l with
    | nil => rfl
    | cons e l ih => rw [List.flatMap_cons, ih, foldE_mul_div_pow_term]; rfl
  rw [this]; rfl

theorem val3_eq (S : SumD K) :
    S.val3 = sv (sgn S.neg S.first.val) (S.rest.map (fun e => (e.1, sgn e.2.1 e.2.2.val))) := by
  simp only [SumD.val3, sv, List.foldl_map, negIf_field]
  congr 1; funext acc e; cases e.1 <;> simp

theorem levelsE_blocks (S : SumD K) :
    foldE Op.add (foldE Op.sub (applyFlags (foldE Op.mul (foldE Op.div (foldE Op.pow S.blocks)))))
      = [(Op.add, false, S.val3)] := by
  rw [foldE_mul_div_pow_blocks]
  have : applyFlags ((Op.add, S.neg, S.first.val) :: S.rest.map (fun e => (asOp e.1, e.2.1, e.2.2.val)))
      = (Op.add, false, sgn S.neg S.first.val)
        :: (S.rest.map (fun e => (e.1, sgn e.2.1 e.2.2.val))).map (fun e => (asOp e.1, false, e.2)) := by
    simp [applyFlags, negIf_field, List.map_map, Function.comp_def]
  rw [this, foldE_sub_chain, foldE_add_chain, sv_schain, val3_eq]

end field

/-! ### back to `levels` -/

section bridge
variable {α : Type} [Alg α]

theorem stage3_sub_unflagged (s : Flat α) (hs : s.WF) :
    ∀ e ∈ (foldL .mul (foldL .div (foldL .pow s))).2, e.1 = Op.sub → e.2.1 = false := by
  intro e he h
  have hq : sk e ∈ skel (foldL .mul (foldL .div (foldL .pow s))) := mem_sk_of_mem he
  simp only [skel_foldL, List.mem_filter, decide_eq_true_eq] at hq
  obtain ⟨e', he', hsk⟩ := List.mem_map.mp hq.1.1.1
  simp only [sk, Prod.mk.injEq] at hsk
  rw [← hsk.2]; exact hs e' he' (by rw [hsk.1]; exact h)

theorem toE_levels (s : Flat α) (hs : s.WF) :
    toE (levels s)
      = foldE Op.add (foldE Op.sub (applyFlags (foldE Op.mul (foldE Op.div (foldE Op.pow (toE s)))))) := by
  rw [foldE_toE', foldE_toE', foldE_toE']
  have h := foldE_sub_applyFlags Op.add (foldL .mul (foldL .div (foldL .pow s))).1.1
      (foldL .mul (foldL .div (foldL .pow s))).1.2 (foldL .mul (foldL .div (foldL .pow s))).2
      (stage3_sub_unflagged s hs)
  have h' : toE (foldL .mul (foldL .div (foldL .pow s)))
      = (Op.add, (foldL .mul (foldL .div (foldL .pow s))).1.1, (foldL .mul (foldL .div (foldL .pow s))).1.2)
        :: (foldL .mul (foldL .div (foldL .pow s))).2 := rfl
  rw [h', h]
  have h2 : ∀ (u : Flat α), (Op.add, false, u.1.2) :: u.2 = toE ((false, u.1.2), u.2) := fun u => rfl
  have hu : ∀ u : Flat α, u.1.1 = false → ((false, u.1.2), u.2) = u := by
    intro u h; obtain ⟨⟨f, x⟩, t⟩ := u; simp only at h; subst h; rfl
  rw [h2, hu _ (foldSub_head_flag _ _), foldE_toE']
  rfl

end bridge

end TfelVerif.C13
