/- trace-validation driver of the C46 model: one history per line
     <name> o<p> l<p> i<p> u<p> x<p> k<p> K<p> v<n> v-
   (open, lock, sem_wait interrupted (EINTR), unlock, exit, kill outside / inside a critical section, observed semaphore value)
   answer: <name> fixed=<accept|reject@k:tok:sem:pstate> orig=<accept|reject@k> maxholders=<n> final=<sem> -/
import TfelVerif.C46.Model
open TfelVerif.LTS TfelVerif.C46

def parseEvent (t : String) : Option Event :=
  let rest := (t.drop 1).toString
  match t.front with
  | 'v' => if rest == "-" then some (.value none) else rest.toNat?.map (fun n => .value (some n))
  | 'o' => rest.toNat?.map .openSem
  | 'l' => rest.toNat?.map .lock
  | 'u' => rest.toNat?.map .unlock
  | 'i' => rest.toNat?.map .intr
  | 'x' => rest.toNat?.map .exit
  | 'k' => rest.toNat?.map .kill
  | 'K' => rest.toNat?.map .killcs
  | _ => none

def evProc : Event → Nat
  | .openSem p | .lock p | .intr p | .unlock p | .exit p | .kill p | .killcs p => p
  | .value _ => 0

def showSem : Option Nat → String
  | none => "-"
  | some n => toString n

def showP : PState → String
  | .notOpened => "notOpened"
  | .opened d => s!"opened{d}"
  | .exiting => "exiting"
  | .exited => "exited"

def verdict (m : Sys State Event) (es : List Event) (toks : List String) (full : Bool) : String :=
  match m.firstReject m.init es 0 with
  | none => "accept"
  | some (k, s) =>
    if full then
      let e := es.getD k (.value none)
      s!"reject@{k}:{toks.getD k "?"}:{showSem s.sem}:{showP (s.proc (evProc e))}"
    else s!"reject@{k}"

def answer (line : String) : String :=
  match (line.trimAscii.toString.splitOn " ").filter (· ≠ "") with
  | [] => "bad-op"
  | name :: toks =>
    match toks.mapM parseEvent with
    | none => s!"{name} bad-op"
    | some es =>
      let n := es.foldl (fun a e => max a (evProc e + 1)) 0
      let mh := match maxHolders fixed n es with
        | some k => toString k
        | none => match maxHolders orig n es with
          | some k => toString k
          | none => "-"
      let fin := match fixed.run fixed.init es with
        | some s => showSem s.sem
        | none => match orig.run orig.init es with
          | some s => showSem s.sem
          | none => "?"
      s!"{name} fixed={verdict fixed es toks true} orig={verdict orig es toks false} maxholders={mh} final={fin}"

partial def loop (h : IO.FS.Stream) : IO Unit := do
  let line ← h.getLine
  if line.isEmpty then return ()
  IO.println (answer line)
  loop h

def main : IO Unit := do loop (← IO.getStdin)
