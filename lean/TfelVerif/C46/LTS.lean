/-
  Labelled transition systems for trace validation (core Lean only, so that the native drivers
  can link it).  Shared by C46, C30, C29.

  A system is given by an initial state and a *partial, deterministic* step function on
  events: all the non-determinism of the real system (which thread/process moves next, what the
  kernel answers, which garbage an uninitialised variable holds) is carried by the event itself.
  `run` executes a list of events; a history is *accepted* when every step is enabled.
  Safety properties are proved as inductive invariants and lifted to every reachable state by
  induction on the event list (`invariant`), for any number of processes/threads/tasks since the
  event list is arbitrary.
-/
namespace TfelVerif.LTS

structure Sys (σ ε : Type) where
  init : σ
  step : σ → ε → Option σ

variable {σ ε : Type}

/-- execute a history from a state; `none` as soon as a step is not enabled -/
def Sys.run (m : Sys σ ε) : σ → List ε → Option σ
  | s, [] => some s
  | s, e :: es => match m.step s e with
    | none => none
    | some s' => m.run s' es

/-- the history is a possible behaviour of the system -/
def Sys.accepts (m : Sys σ ε) (es : List ε) : Bool := (m.run m.init es).isSome

/-- index of the first event that is not enabled (for diagnostics), with the state before it -/
def Sys.firstReject (m : Sys σ ε) : σ → List ε → Nat → Option (Nat × σ)
  | _, [], _ => none
  | s, e :: es, k => match m.step s e with
    | none => some (k, s)
    | some s' => m.firstReject s' es (k + 1)

/-- all the states visited by a history (initial state included), `none` if rejected -/
def Sys.states (m : Sys σ ε) : σ → List ε → Option (List σ)
  | s, [] => some [s]
  | s, e :: es => match m.step s e with
    | none => none
    | some s' => (m.states s' es).map (s :: ·)

def Sys.Reachable (m : Sys σ ε) (s : σ) : Prop := ∃ es, m.run m.init es = some s

@[simp] theorem Sys.run_nil (m : Sys σ ε) (s : σ) : m.run s [] = some s := rfl

theorem Sys.run_cons (m : Sys σ ε) (s : σ) (e : ε) (es : List ε) :
    m.run s (e :: es) = (m.step s e).bind (fun s' => m.run s' es) := by
  simp only [Sys.run]; cases m.step s e <;> rfl

theorem Sys.run_append (m : Sys σ ε) (s : σ) (es fs : List ε) :
    m.run s (es ++ fs) = (m.run s es).bind (fun s' => m.run s' fs) := by
  induction es generalizing s with
  | nil => rfl
  | cons e es ih =>
    simp only [List.cons_append, Sys.run]
    cases m.step s e with
    | none => rfl
    | some s' => exact ih s'

theorem Sys.run_snoc (m : Sys σ ε) (s s' : σ) (es : List ε) (e : ε)
    (h : m.run s es = some s') : m.run s (es ++ [e]) = m.step s' e := by
  rw [Sys.run_append, h]; simp only [Option.bind, Sys.run]
  cases m.step s' e <;> rfl

/-- invariant induction from an arbitrary starting state -/
theorem Sys.invariant_from (m : Sys σ ε) (Inv : σ → Prop)
    (hstep : ∀ s e s', Inv s → m.step s e = some s' → Inv s') :
    ∀ (es : List ε) (s s' : σ), Inv s → m.run s es = some s' → Inv s' := by
  intro es
  induction es with
  | nil => intro s s' hs h; simp only [Sys.run, Option.some.injEq] at h; exact h ▸ hs
  | cons e es ih =>
    intro s s' hs h
    simp only [Sys.run] at h
    cases hst : m.step s e with
    | none => rw [hst] at h; simp at h
    | some s1 => rw [hst] at h; exact ih s1 s' (hstep s e s1 hs hst) h

/-- an inductive invariant holds in every state reached by any accepted history -/
theorem Sys.invariant (m : Sys σ ε) (Inv : σ → Prop) (hinit : Inv m.init)
    (hstep : ∀ s e s', Inv s → m.step s e = some s' → Inv s') :
    ∀ (es : List ε) (s : σ), m.run m.init es = some s → Inv s :=
  fun es s h => m.invariant_from Inv hstep es m.init s hinit h

theorem Sys.invariant_reachable (m : Sys σ ε) (Inv : σ → Prop) (hinit : Inv m.init)
    (hstep : ∀ s e s', Inv s → m.step s e = some s' → Inv s') :
    ∀ s, m.Reachable s → Inv s :=
  fun s ⟨es, h⟩ => m.invariant Inv hinit hstep es s h

/-- an invariant that is inductive only *relative to* an already established invariant -/
theorem Sys.invariant_rel (m : Sys σ ε) (J Inv : σ → Prop)
    (hJ : ∀ es s, m.run m.init es = some s → J s) (hinit : Inv m.init)
    (hstep : ∀ s e s', J s → Inv s → m.step s e = some s' → Inv s') :
    ∀ (es : List ε) (s : σ), m.run m.init es = some s → Inv s := by
  have key : ∀ (es pre : List ε) (s s' : σ), m.run m.init pre = some s → Inv s →
      m.run s es = some s' → Inv s' := by
    intro es
    induction es with
    | nil => intro pre s s' _ hs h; simp only [Sys.run, Option.some.injEq] at h; exact h ▸ hs
    | cons e es ih =>
      intro pre s s' hpre hs h
      simp only [Sys.run] at h
      cases hst : m.step s e with
      | none => rw [hst] at h; simp at h
      | some s1 =>
        rw [hst] at h
        have hpre' : m.run m.init (pre ++ [e]) = some s1 := by
          rw [m.run_snoc m.init s pre e hpre]; exact hst
        exact ih (pre ++ [e]) s1 s' hpre' (hstep s e s1 (hJ pre s hpre) hs hst) h
  exact fun es s h => key es [] m.init s rfl hinit h

/-- a prefix of an accepted history is accepted -/
theorem Sys.run_prefix (m : Sys σ ε) (s s' : σ) (es fs : List ε)
    (h : m.run s (es ++ fs) = some s') : ∃ s1, m.run s es = some s1 ∧ m.run s1 fs = some s' := by
  rw [Sys.run_append] at h
  cases hr : m.run s es with
  | none => rw [hr] at h; simp at h
  | some s1 => rw [hr] at h; exact ⟨s1, rfl, h⟩

theorem Sys.accepts_iff (m : Sys σ ε) (es : List ε) :
    m.accepts es = true ↔ ∃ s, m.run m.init es = some s := by
  simp only [Sys.accepts, Option.isSome_iff_exists]

/-- a property of states that, once true, stays true along every step -/
def Sys.Stable (m : Sys σ ε) (P : σ → Prop) : Prop :=
  ∀ s e s', P s → m.step s e = some s' → P s'

theorem Sys.stable_run (m : Sys σ ε) (P : σ → Prop) (hP : m.Stable P) :
    ∀ (es : List ε) (s s' : σ), P s → m.run s es = some s' → P s' :=
  m.invariant_from P hP

/-- function update on `Nat`-indexed families (processes, threads, tasks) -/
def upd {α : Type} (f : Nat → α) (i : Nat) (v : α) : Nat → α :=
  fun j => if j = i then v else f j

@[simp] theorem upd_same {α : Type} (f : Nat → α) (i : Nat) (v : α) : upd f i v i = v := by
  simp [upd]

theorem upd_other {α : Type} (f : Nat → α) (i j : Nat) (v : α) (h : j ≠ i) : upd f i v j = f j := by
  simp [upd, h]

theorem upd_apply {α : Type} (f : Nat → α) (i j : Nat) (v : α) :
    upd f i v j = if j = i then v else f j := rfl

end TfelVerif.LTS
