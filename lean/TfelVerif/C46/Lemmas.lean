/- helper lemmas for C46 (core Lean only) -/
import TfelVerif.C46.Model
namespace TfelVerif.C46
open TfelVerif.LTS

/-- nobody is inside a critical section -/
def Free (s : State) : Prop := ∀ p, (s.proc p).depth = 0

/-- `p` holds exactly one guard and nobody else holds any -/
def HeldBy (s : State) (p : Nat) : Prop :=
  (s.proc p).depth = 1 ∧ ∀ q, q ≠ p → (s.proc q).depth = 0

/-- `count + #guards ≤ 1` without counting: either nobody holds and the count is at most 1, or the
    count is 0 and exactly one process holds exactly one guard -/
def Inv (s : State) : Prop :=
  (Free s ∧ ∀ c, s.sem = some c → c ≤ 1) ∨ (s.sem = some 0 ∧ ∃ p, HeldBy s p)

/-- `count + #guards = 1` (no token lost), plus: a process that opened the lock implies the
    semaphore exists -/
def InvEq (s : State) : Prop :=
  (s.sem = none ∧ ∀ p, s.proc p = .notOpened ∨ s.proc p = .exited) ∨
  (s.sem = some 1 ∧ Free s) ∨ (s.sem = some 0 ∧ ∃ p, HeldBy s p)

theorem depth_upd (f : Nat → PState) (p q : Nat) (v : PState) :
    (upd f p v q).depth = if q = p then v.depth else (f q).depth := by
  unfold upd; split <;> rfl

/-- an update that does not change the depth of `p` changes no depth -/
theorem depth_upd_same (f : Nat → PState) (p : Nat) (v : PState) (h : v.depth = (f p).depth) (q : Nat) :
    (upd f p v q).depth = (f q).depth := by
  rw [depth_upd]; split
  · next hq => rw [hq, h]
  · rfl

theorem free_upd_same {sem sem' : Option Nat} {f : Nat → PState} {p : Nat} {v : PState}
    (h : v.depth = (f p).depth) (hf : Free ⟨sem, f⟩) : Free ⟨sem', upd f p v⟩ :=
  fun q => by show (upd f p v q).depth = 0; rw [depth_upd_same f p v h]; exact hf q

theorem heldBy_upd_same {sem sem' : Option Nat} {f : Nat → PState} {p r : Nat} {v : PState}
    (h : v.depth = (f p).depth) (hf : HeldBy ⟨sem, f⟩ r) : HeldBy ⟨sem', upd f p v⟩ r :=
  ⟨by show (upd f p v r).depth = 1; rw [depth_upd_same f p v h]; exact hf.1,
   fun q hq => by show (upd f p v q).depth = 0; rw [depth_upd_same f p v h]; exact hf.2 q hq⟩

/-- the only holder is the one found in a critical section -/
theorem holder_unique {s : State} {p r d : Nat} (hp : s.proc p = .opened (d + 1)) (hr : HeldBy s r) :
    p = r ∧ d = 0 := by
  have hpr : p = r := by
    apply Classical.byContradiction; intro hne
    have := hr.2 p hne; rw [hp] at this; simp [PState.depth] at this
  subst hpr
  have := hr.1; rw [hp] at this; simp only [PState.depth] at this
  exact ⟨rfl, by omega⟩

theorem not_free_of_opened {s : State} {p d : Nat} (hp : s.proc p = .opened (d + 1)) (hf : Free s) :
    False := by
  have := hf p; rw [hp] at this; simp [PState.depth] at this

/-- after `p` moves to a state of depth 0 from being the only holder, nobody holds -/
theorem free_after_release {s : State} {p : Nat} {v : PState} {sem' : Option Nat}
    (hv : v.depth = 0) (hr : HeldBy s p) : Free ⟨sem', upd s.proc p v⟩ := by
  intro q; show (upd s.proc p v q).depth = 0; rw [depth_upd]
  split
  · exact hv
  · next hq => exact hr.2 q hq

/-- after `p` enters from a free state, `p` is the only holder -/
theorem held_after_acquire {s : State} {p : Nat} {sem' : Option Nat} (hf : Free s) :
    HeldBy ⟨sem', upd s.proc p (.opened 1)⟩ p := by
  refine ⟨?_, ?_⟩
  · show (upd s.proc p (.opened 1) p).depth = 1; rw [depth_upd]; simp [PState.depth]
  · intro q hq; show (upd s.proc p (.opened 1) q).depth = 0; rw [depth_upd]; simp [hq]; exact hf q

/-- counted form of the invariant over any finite set of processes `0..n-1` -/
theorem holders_le (s : State) (hinv : Inv s) (n : Nat) :
    holders s n + (s.sem.getD 0) ≤ 1 := by
  rcases hinv with ⟨hf, hc⟩ | ⟨hs, r, hr1, hr2⟩
  · have h0 : holders s n = 0 := by
      induction n with
      | zero => rfl
      | succ n ih => simp only [holders, ih, hf n]
    cases hsem : s.sem with
    | none => simp [h0]
    | some c => have := hc c hsem; simp [h0]; omega
  · have hb : ∀ n, holders s n = if r < n then 1 else 0 := by
      intro n
      induction n with
      | zero => rfl
      | succ n ih =>
        simp only [holders, ih]
        by_cases hnr : n = r
        · subst hnr; rw [hr1]; simp
        · rw [hr2 n hnr]; split <;> split <;> omega
    rw [hb, hs]; simp only [Option.getD]; split <;> omega

/-- `k` successive mfront runs, each instantiating the lock and exiting normally
    (processes `n, n+1, …, n+k-1`) -/
def touchRuns : Nat → Nat → List Event
  | _, 0 => []
  | n, k + 1 => [.openSem n, .exit n, .unlock n] ++ touchRuns (n + 1) k

/-- with the destructor posting, each run that touches the lock leaves the count one higher:
    from any state where the semaphore holds `c` and the processes `n..` have not started,
    `k` runs lead to the count `c + k` -/
theorem orig_runs_add (k : Nat) : ∀ (n c : Nat) (s : State), s.sem = some c →
    (∀ p, n ≤ p → s.proc p = .notOpened) →
    ∃ s', orig.run s (touchRuns n k) = some s' ∧ s'.sem = some (c + k) ∧
      (∀ p, n + k ≤ p → s'.proc p = .notOpened) ∧ (∀ p, p < n → s'.proc p = s.proc p) := by
  induction k with
  | zero => intro n c s hs hn; exact ⟨s, rfl, hs, hn, fun _ _ => rfl⟩
  | succ k ih =>
    intro n c s hs hn
    obtain ⟨sem, f⟩ := s
    subst hs
    have hfn : f n = .notOpened := hn n (Nat.le_refl n)
    let s1 : State := ⟨some (c + 1), upd (upd (upd f n (.opened 0)) n .exiting) n .exited⟩
    have h1 : orig.run ⟨some c, f⟩ [.openSem n, .exit n, .unlock n] = some s1 := by
      simp [Sys.run, orig, stepOrig, stepCommon, hfn, s1]
    have hs1 : ∀ p, p ≠ n → s1.proc p = f p := by
      intro p hp; simp [s1, upd_apply, hp]
    obtain ⟨s', hr, hsem, hnot, hold⟩ := ih (n + 1) (c + 1) s1 rfl
      (fun p hp => by rw [hs1 p (by omega)]; exact hn p (by omega))
    refine ⟨s', ?_, ?_, ?_, ?_⟩
    · simp only [touchRuns]; rw [Sys.run_append, h1]; exact hr
    · rw [hsem]; congr 1; omega
    · intro p hp; exact hnot p (by omega)
    · intro p hp; rw [hold p (by omega), hs1 p (by omega)]

end TfelVerif.C46
