/-
  C46 — model of the mfront inter-process lock (mfront/src/MFrontLock.cxx).

  State: the persistent named POSIX semaphore `/mfront-<uid>` (absent, or present with a count)
  and, per process, where it stands in the protocol.  Steps = the syscalls of MFrontLock.cxx:
    open p    `MFrontLock::MFrontLock`   sem_open(name, O_CREAT, 0600, 1): creates the semaphore with
                                         value 1 only when it does not exist, never resets it
    lock p    `MFrontLockGuard` ctor     sem_wait returned 0: enabled iff count > 0, count - 1
    intr p    `MFrontLock::lock`         sem_wait returned -1/EINTR (a signal handler installed without
                                         SA_RESTART ran while the process was blocked): the count is
                                         unchanged and the process has NOT acquired anything; the code may
                                         raise or call sem_wait again, it may not enter the section
    unlock p  `MFrontLock::unlock`       sem_post: count + 1
    exit p    normal process exit        static destructor `~MFrontLock` runs
    kill p / killcs p                    abnormal termination outside / inside a critical section
                                         (no destructor runs; nothing is posted)
    value v   observer                   sem_getvalue (`none`: the semaphore does not exist)

  Two step relations:
    `fixed` — the repaired code: `~MFrontLock` only sem_close()s (patches/C46-mfrontlock.diff);
    `orig`  — the code as found: `~MFrontLock` calls `unlock()`, i.e. one more sem_post per process
              that instantiated the singleton (logged as `exit p` followed by `unlock p`).
-/
import TfelVerif.C46.LTS
namespace TfelVerif.C46
open TfelVerif.LTS

inductive PState where
  | notOpened
  | opened (depth : Nat)   -- depth = number of live `MFrontLockGuard`s of the process
  | exiting                -- (orig only) inside `~MFrontLock`, before its sem_post
  | exited
  deriving DecidableEq, Repr

structure State where
  sem : Option Nat
  proc : Nat → PState

inductive Event where
  | openSem (p : Nat)
  | lock (p : Nat)
  | intr (p : Nat)
  | unlock (p : Nat)
  | exit (p : Nat)
  | kill (p : Nat)
  | killcs (p : Nat)
  | value (v : Option Nat)
  deriving DecidableEq, Repr

def PState.depth : PState → Nat
  | .opened d => d
  | _ => 0

def init : State := ⟨none, fun _ => .notOpened⟩

/-- the steps shared by both relations -/
def stepCommon (s : State) : Event → Option State
  | .openSem p =>
    match s.proc p with
    | .notOpened => some ⟨some (s.sem.getD 1), upd s.proc p (.opened 0)⟩
    | _ => none
  | .lock p =>
    match s.proc p, s.sem with
    | .opened d, some (c + 1) => some ⟨some c, upd s.proc p (.opened (d + 1))⟩
    | _, _ => none
  | .intr p =>
    match s.proc p with
    | .opened _ => some s
    | _ => none
  | .unlock p =>
    match s.proc p, s.sem with
    | .opened (d + 1), some c => some ⟨some (c + 1), upd s.proc p (.opened d)⟩
    | _, _ => none
  | .kill p =>
    match s.proc p with
    | .notOpened => some ⟨s.sem, upd s.proc p .exited⟩
    | .opened 0 => some ⟨s.sem, upd s.proc p .exited⟩
    | _ => none
  | .killcs p =>
    match s.proc p with
    | .opened (_ + 1) => some ⟨s.sem, upd s.proc p .exited⟩
    | _ => none
  | .value v => if s.sem = v then some s else none
  | .exit _ => none

/-- repaired code: the static destructor closes the semaphore handle, the count is untouched -/
def stepFixed (s : State) : Event → Option State
  | .exit p =>
    match s.proc p with
    | .notOpened => some ⟨s.sem, upd s.proc p .exited⟩
    | .opened 0 => some ⟨s.sem, upd s.proc p .exited⟩
    | _ => none
  | e => stepCommon s e

/-- code as found: the static destructor posts -/
def stepOrig (s : State) : Event → Option State
  | .exit p =>
    match s.proc p with
    | .notOpened => some ⟨s.sem, upd s.proc p .exited⟩
    | .opened 0 => some ⟨s.sem, upd s.proc p .exiting⟩
    | _ => none
  | .unlock p =>
    match s.proc p, s.sem with
    | .opened (d + 1), some c => some ⟨some (c + 1), upd s.proc p (.opened d)⟩
    | .exiting, some c => some ⟨some (c + 1), upd s.proc p .exited⟩
    | _, _ => none
  | e => stepCommon s e

def fixed : Sys State Event := ⟨init, stepFixed⟩
def orig : Sys State Event := ⟨init, stepOrig⟩

/-- `p` is inside a lock-protected section -/
def holds (s : State) (p : Nat) : Prop := 0 < (s.proc p).depth

instance (s : State) (p : Nat) : Decidable (holds s p) := by unfold holds; infer_instance

/-- number of live guards over the processes `0..n-1` -/
def holders (s : State) : Nat → Nat
  | 0 => 0
  | n + 1 => holders s n + (s.proc n).depth

/-- the largest number of simultaneously live guards seen along a history (processes < n) -/
def maxHolders (m : Sys State Event) (n : Nat) (es : List Event) : Option Nat :=
  (m.states m.init es).map (fun l => l.foldl (fun a s => max a (holders s n)) 0)

end TfelVerif.C46
