/-
  C46 — The mfront inter-process lock provides mutual exclusion.

  Theorems about the transition systems of Model.lean, over *all* histories (arbitrary event
  lists: any number of processes, any interleaving of open / lock / unlock / exit / kill):

  * for the repaired relation `fixed` (static destructor does not post): `count + #guards ≤ 1` is an
    inductive invariant, hence mutual exclusion; with no process killed inside a critical section,
    `count + #guards = 1` (no token is ever lost, the lock is free whenever nobody holds it);
  * for the relation `orig` (code as found: `~MFrontLock` posts): the count grows by one per
    process that touched the lock and exited, and two processes hold the lock together.
-/
import TfelVerif.C46.Lemmas
namespace TfelVerif.C46.Props
open TfelVerif.LTS TfelVerif.C46

theorem inv_init : Inv fixed.init := by
  left; exact ⟨fun _ => rfl, fun c h => by simp [fixed, init] at h⟩

/-- `count + #guards ≤ 1` is preserved by every step of the repaired code -/
theorem inv_step (s : State) (e : Event) (s' : State) (hinv : Inv s)
    (hstep : fixed.step s e = some s') : Inv s' := by
  cases e with
  | openSem p =>
    simp only [fixed, stepFixed, stepCommon] at hstep
    split at hstep <;> simp only [Option.some.injEq, reduceCtorEq] at hstep
    rename_i hp
    subst hstep
    have hd : (PState.opened 0).depth = (s.proc p).depth := by rw [hp]; rfl
    rcases hinv with ⟨hf, hc⟩ | ⟨hs, r, hr⟩
    · left; refine ⟨free_upd_same hd hf, ?_⟩
      intro c h
      cases hsem : s.sem with
      | none => rw [hsem] at h; simp [Option.getD] at h; omega
      | some c0 => rw [hsem] at h; simp [Option.getD] at h; exact h ▸ hc c0 hsem
    · right; exact ⟨by simp [hs], r, heldBy_upd_same hd hr⟩
  | lock p =>
    simp only [fixed, stepFixed, stepCommon] at hstep
    split at hstep <;> simp only [Option.some.injEq, reduceCtorEq] at hstep
    rename_i d c hp hs
    subst hstep
    rcases hinv with ⟨hf, hc⟩ | ⟨hs0, _⟩
    · have hc1 := hc (c + 1) hs
      have hc0 : c = 0 := by omega
      have hd : d = 0 := by have := hf p; rw [hp] at this; simpa [PState.depth] using this
      subst hc0; subst hd
      right; exact ⟨rfl, p, held_after_acquire hf⟩
    · rw [hs0] at hs; simp at hs
  | unlock p =>
    simp only [fixed, stepFixed, stepCommon] at hstep
    split at hstep <;> simp only [Option.some.injEq, reduceCtorEq] at hstep
    rename_i d c hp hs
    subst hstep
    rcases hinv with ⟨hf, _⟩ | ⟨hs0, r, hr⟩
    · exact (not_free_of_opened hp hf).elim
    · obtain ⟨hpr, hd⟩ := holder_unique hp hr
      subst hpr; subst hd
      have hc : c = 0 := by rw [hs0] at hs; simp at hs; omega
      subst hc
      left; exact ⟨free_after_release rfl hr, fun c h => by simp at h; omega⟩
  | exit p =>
    simp only [fixed, stepFixed] at hstep
    split at hstep <;> simp only [Option.some.injEq, reduceCtorEq] at hstep
    all_goals
      rename_i hp
      subst hstep
      have hd : (PState.exited).depth = (s.proc p).depth := by rw [hp]; rfl
      rcases hinv with ⟨hf, hc⟩ | ⟨hs, r, hr⟩
      · left; exact ⟨free_upd_same hd hf, hc⟩
      · right; exact ⟨hs, r, heldBy_upd_same hd hr⟩
  | kill p =>
    simp only [fixed, stepFixed, stepCommon] at hstep
    split at hstep <;> simp only [Option.some.injEq, reduceCtorEq] at hstep
    all_goals
      rename_i hp
      subst hstep
      have hd : (PState.exited).depth = (s.proc p).depth := by rw [hp]; rfl
      rcases hinv with ⟨hf, hc⟩ | ⟨hs, r, hr⟩
      · left; exact ⟨free_upd_same hd hf, hc⟩
      · right; exact ⟨hs, r, heldBy_upd_same hd hr⟩
  | killcs p =>
    simp only [fixed, stepFixed, stepCommon] at hstep
    split at hstep <;> simp only [Option.some.injEq, reduceCtorEq] at hstep
    rename_i d hp
    subst hstep
    rcases hinv with ⟨hf, _⟩ | ⟨hs0, r, hr⟩
    · exact (not_free_of_opened hp hf).elim
    · obtain ⟨hpr, _⟩ := holder_unique hp hr
      subst hpr
      left; exact ⟨free_after_release rfl hr, fun c h => by
        have h' : s.sem = some c := h
        rw [hs0] at h'; simp at h'; omega⟩
  | value v =>
    simp only [fixed, stepFixed, stepCommon] at hstep
    split at hstep <;> simp only [Option.some.injEq, reduceCtorEq] at hstep
    subst hstep; exact hinv
  | intr p =>
    simp only [fixed, stepFixed, stepCommon] at hstep
    split at hstep <;> simp only [Option.some.injEq, reduceCtorEq] at hstep
    subst hstep; exact hinv

/-- the invariant holds after every history the repaired code can produce -/
theorem inv_reachable (es : List Event) (s : State) (h : fixed.run fixed.init es = some s) : Inv s :=
  fixed.invariant Inv inv_init inv_step es s h

/-- **Mutual exclusion**: whatever the history (any number of processes that took the lock or not,
    exited normally or were killed, in any interleaving), at most one process is inside a
    lock-protected section. -/
theorem mutual_exclusion (es : List Event) (s : State) (h : fixed.run fixed.init es = some s)
    (p q : Nat) (hp : holds s p) (hq : holds s q) : p = q := by
  rcases inv_reachable es s h with ⟨hf, _⟩ | ⟨_, r, _, hr2⟩
  · have := hf p; unfold holds at hp; omega
  · have hpr : p = r := by
      apply Classical.byContradiction; intro hne
      have := hr2 p hne; unfold holds at hp; omega
    have hqr : q = r := by
      apply Classical.byContradiction; intro hne
      have := hr2 q hne; unfold holds at hq; omega
    rw [hpr, hqr]

/-- **The lock never admits more holders than it was created with** (`count + #guards ≤ 1`): the
    count never exceeds its creation value 1, it is 0 while a process is inside, and no process
    ever holds two guards. -/
theorem count_plus_holders_le_one (es : List Event) (s : State) (h : fixed.run fixed.init es = some s) :
    (∀ c, s.sem = some c → c ≤ 1) ∧ (∀ p, holds s p → s.sem = some 0) ∧ (∀ p, (s.proc p).depth ≤ 1) := by
  rcases inv_reachable es s h with ⟨hf, hc⟩ | ⟨hs, r, hr1, hr2⟩
  · exact ⟨hc, fun p hp => by have := hf p; unfold holds at hp; omega, fun p => by have := hf p; omega⟩
  · refine ⟨fun c hc => by rw [hs] at hc; simp at hc; omega, fun _ _ => hs, fun p => ?_⟩
    by_cases hpr : p = r
    · rw [hpr, hr1]; exact Nat.le_refl 1
    · have := hr2 p hpr; omega

/-- `count + #guards ≤ 1` along every history, counted over the processes `0..n-1` -/
theorem count_plus_holders_counted (es : List Event) (s : State) (h : fixed.run fixed.init es = some s)
    (n : Nat) : holders s n + (s.sem.getD 0) ≤ 1 :=
  holders_le s (inv_reachable es s h) n

/-! ### no token is lost when no process dies inside a critical section -/

def NotKillCS : Event → Prop
  | .killcs _ => False
  | _ => True

theorem invEq_init : InvEq fixed.init := by
  left; exact ⟨rfl, fun _ => Or.inl rfl⟩

theorem invEq_step (s : State) (e : Event) (s' : State) (he : NotKillCS e) (hinv : InvEq s)
    (hstep : fixed.step s e = some s') : InvEq s' := by
  cases e with
  | killcs p => exact absurd he (by simp [NotKillCS])
  | openSem p =>
    simp only [fixed, stepFixed, stepCommon] at hstep
    split at hstep <;> simp only [Option.some.injEq, reduceCtorEq] at hstep
    rename_i hp
    subst hstep
    have hd : (PState.opened 0).depth = (s.proc p).depth := by rw [hp]; rfl
    rcases hinv with ⟨hs, hall⟩ | ⟨hs, hf⟩ | ⟨hs, r, hr⟩
    · right; left
      refine ⟨by simp [hs], ?_⟩
      intro q; show (upd s.proc p (.opened 0) q).depth = 0; rw [depth_upd]
      split
      · rfl
      · rcases hall q with h | h <;> rw [h] <;> rfl
    · right; left; exact ⟨by simp [hs], free_upd_same hd hf⟩
    · right; right; exact ⟨by simp [hs], r, heldBy_upd_same hd hr⟩
  | lock p =>
    simp only [fixed, stepFixed, stepCommon] at hstep
    split at hstep <;> simp only [Option.some.injEq, reduceCtorEq] at hstep
    rename_i d c hp hs
    subst hstep
    rcases hinv with ⟨hs0, _⟩ | ⟨hs1, hf⟩ | ⟨hs0, _⟩
    · rw [hs0] at hs; simp at hs
    · rw [hs1] at hs
      have hc0 : c = 0 := by simp at hs; omega
      have hd : d = 0 := by have := hf p; rw [hp] at this; simpa [PState.depth] using this
      subst hc0; subst hd
      right; right; exact ⟨rfl, p, held_after_acquire hf⟩
    · rw [hs0] at hs; simp at hs
  | unlock p =>
    simp only [fixed, stepFixed, stepCommon] at hstep
    split at hstep <;> simp only [Option.some.injEq, reduceCtorEq] at hstep
    rename_i d c hp hs
    subst hstep
    rcases hinv with ⟨hs0, _⟩ | ⟨_, hf⟩ | ⟨hs0, r, hr⟩
    · rw [hs0] at hs; simp at hs
    · exact (not_free_of_opened hp hf).elim
    · obtain ⟨hpr, hd⟩ := holder_unique hp hr
      subst hpr; subst hd
      have hc : c = 0 := by rw [hs0] at hs; simp at hs; omega
      subst hc
      right; left; exact ⟨rfl, free_after_release rfl hr⟩
  | exit p =>
    simp only [fixed, stepFixed] at hstep
    split at hstep <;> simp only [Option.some.injEq, reduceCtorEq] at hstep
    all_goals
      rename_i hp
      subst hstep
      have hd : (PState.exited).depth = (s.proc p).depth := by rw [hp]; rfl
      rcases hinv with ⟨hs, hall⟩ | ⟨hs, hf⟩ | ⟨hs, r, hr⟩
      · left; refine ⟨hs, fun q => ?_⟩
        show upd s.proc p .exited q = .notOpened ∨ upd s.proc p .exited q = .exited
        rw [upd_apply]; split
        · exact Or.inr rfl
        · exact hall q
      · right; left; exact ⟨hs, free_upd_same hd hf⟩
      · right; right; exact ⟨hs, r, heldBy_upd_same hd hr⟩
  | kill p =>
    simp only [fixed, stepFixed, stepCommon] at hstep
    split at hstep <;> simp only [Option.some.injEq, reduceCtorEq] at hstep
    all_goals
      rename_i hp
      subst hstep
      have hd : (PState.exited).depth = (s.proc p).depth := by rw [hp]; rfl
      rcases hinv with ⟨hs, hall⟩ | ⟨hs, hf⟩ | ⟨hs, r, hr⟩
      · left; refine ⟨hs, fun q => ?_⟩
        show upd s.proc p .exited q = .notOpened ∨ upd s.proc p .exited q = .exited
        rw [upd_apply]; split
        · exact Or.inr rfl
        · exact hall q
      · right; left; exact ⟨hs, free_upd_same hd hf⟩
      · right; right; exact ⟨hs, r, heldBy_upd_same hd hr⟩
  | value v =>
    simp only [fixed, stepFixed, stepCommon] at hstep
    split at hstep <;> simp only [Option.some.injEq, reduceCtorEq] at hstep
    subst hstep; exact hinv
  | intr p =>
    simp only [fixed, stepFixed, stepCommon] at hstep
    split at hstep <;> simp only [Option.some.injEq, reduceCtorEq] at hstep
    subst hstep; exact hinv

/-- **No token is lost** (`count + #guards = 1`): along every history in which no process dies
    inside a critical section, once the semaphore exists its count is 1 exactly when nobody is
    inside and 0 exactly when one process is; in particular runs that took the lock and exited
    normally leave the count at 1. -/
theorem no_token_lost (es : List Event) (s : State) (hk : ∀ e ∈ es, NotKillCS e)
    (h : fixed.run fixed.init es = some s) : InvEq s := by
  have key : ∀ (es : List Event) (s s' : State), (∀ e ∈ es, NotKillCS e) → InvEq s →
      fixed.run s es = some s' → InvEq s' := by
    intro es
    induction es with
    | nil => intro s s' _ hs h; simp only [Sys.run, Option.some.injEq] at h; exact h ▸ hs
    | cons e es ih =>
      intro s s' hk hs h
      simp only [Sys.run] at h
      cases hst : fixed.step s e with
      | none => rw [hst] at h; simp at h
      | some s1 =>
        rw [hst] at h
        exact ih s1 s' (fun e' he' => hk e' (List.mem_cons_of_mem _ he'))
          (invEq_step s e s1 (hk e (List.mem_cons_self)) hs hst) h
  exact key es fixed.init s hk invEq_init h

/-- progress: with no death inside a critical section, a process that opened the lock and finds
    nobody inside can always enter (its `sem_wait` is enabled) -/
theorem lock_enabled_when_free (es : List Event) (s : State) (hk : ∀ e ∈ es, NotKillCS e)
    (h : fixed.run fixed.init es = some s) (p : Nat) (hp : s.proc p = .opened 0)
    (hfree : ∀ q, ¬ holds s q) : (fixed.step s (.lock p)).isSome = true := by
  rcases no_token_lost es s hk h with ⟨_, hall⟩ | ⟨hs, _⟩ | ⟨_, r, hr1, _⟩
  · rcases hall p with h' | h' <;> rw [hp] at h' <;> simp at h'
  · simp only [fixed, stepFixed, stepCommon, hp, hs]; rfl
  · exact absurd (show holds s r by unfold holds; omega) (hfree r)

/-! ### the code as found (`~MFrontLock` posts) -/

/-- **Defect of the code as found**: after `k ≥ 1` mfront runs that merely instantiated the lock
    and exited, the persistent semaphore's count is `k + 1` instead of 1. -/
theorem orig_count_grows (k : Nat) :
    ∃ s, orig.run orig.init (touchRuns 0 (k + 1)) = some s ∧ s.sem = some (k + 2) := by
  let s1 : State := ⟨some 2, upd (upd (upd init.proc 0 (.opened 0)) 0 .exiting) 0 .exited⟩
  have h1 : orig.run orig.init [.openSem 0, .exit 0, .unlock 0] = some s1 := by
    simp [Sys.run, orig, stepOrig, stepCommon, init, s1]
  obtain ⟨s', hr, hsem, _, _⟩ := orig_runs_add k 1 2 s1 rfl
    (fun p hp => by
      have hp0 : p ≠ 0 := by omega
      simp [s1, upd_apply, init, hp0])
  refine ⟨s', ?_, ?_⟩
  · simp only [touchRuns]; rw [Sys.run_append, h1]; exact hr
  · rw [hsem]; congr 1; omega

/-- **Defect of the code as found**: one earlier run that touched the lock is enough for two
    later processes to be inside lock-protected sections together
    (run A: open, exit · B: open, lock · C: open, lock). -/
theorem orig_two_holders :
    ∃ es s, orig.run orig.init es = some s ∧ holds s 1 ∧ holds s 2 ∧ s.sem = some 0 := by
  refine ⟨[.openSem 0, .exit 0, .unlock 0, .openSem 1, .lock 1, .openSem 2, .lock 2], ?_⟩
  simp [Sys.run, orig, stepOrig, stepCommon, init, holds, upd_apply, PState.depth]

/-- the same history is *not* a behaviour of the repaired code (its destructor cannot post) -/
theorem fixed_rejects_witness :
    fixed.accepts [.openSem 0, .exit 0, .unlock 0, .openSem 1, .lock 1, .openSem 2, .lock 2] = false := by
  simp [Sys.accepts, Sys.run, fixed, stepFixed, stepCommon, init]

/-! ### sem_wait interrupted by a signal -/

/-- an interrupted `sem_wait` (-1/EINTR) acquires nothing: the count, and who is inside, are
    unchanged — so a process that goes on as if it had the lock is not a behaviour of the model -/
theorem interrupt_acquires_nothing (s s' : State) (p : Nat) (h : fixed.step s (.intr p) = some s') :
    s' = s := by
  simp only [fixed, stepFixed, stepCommon] at h
  split at h <;> simp only [Option.some.injEq, reduceCtorEq] at h
  exact h.symm

/-- after any history (interruptions included), a process whose last `sem_wait` was interrupted
    while a process is inside cannot take the lock: `lock` is not enabled for anybody -/
theorem no_entry_after_interrupt (es : List Event) (s : State) (h : fixed.run fixed.init es = some s)
    (p q : Nat) (hq : holds s q) : fixed.step s (.lock p) = none := by
  have hc := (count_plus_holders_le_one es s h).2.1 q hq
  simp only [fixed, stepFixed, stepCommon, hc]
  split <;> simp_all

/-- "EINTR treated as an acquisition" is rejected: B, interrupted while A is inside, enters -/
theorem fixed_rejects_eintr_as_success :
    fixed.accepts [.openSem 0, .lock 0, .openSem 1, .intr 1, .lock 1] = false := by
  simp [Sys.accepts, Sys.run, fixed, stepFixed, stepCommon, init, upd_apply]

/-- the legitimate continuations are accepted: B raises (takes no step) or retries once A left -/
example : fixed.accepts [.openSem 0, .lock 0, .openSem 1, .intr 1, .intr 1, .unlock 0, .lock 1,
    .unlock 1, .exit 0, .exit 1, .value (some 1)] = true := by
  simp [Sys.accepts, Sys.run, fixed, stepFixed, stepCommon, init, upd_apply]

/-! ### non-vacuity: a history with three processes taking the lock in turn is accepted and
    ends with the count at 1 -/
example : ∃ s, fixed.run fixed.init
    [.openSem 0, .lock 0, .openSem 1, .unlock 0, .lock 1, .exit 0, .unlock 1, .openSem 2,
     .lock 2, .unlock 2, .exit 1, .exit 2, .value (some 1)] = some s ∧ s.sem = some 1 := by
  simp [Sys.run, fixed, stepFixed, stepCommon, init, upd_apply]

example : NotKillCS (.lock 3) := trivial

end TfelVerif.C46.Props
