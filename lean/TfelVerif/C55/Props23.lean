/-
  C55 — strain-measure strategies of the generic interface, 2D (plane strain) and 3D. Property theorems only.
  Units and conventions: see Props1. Proved here, for every input:

  * `GL_N*_strain`        : Green-Lagrange strategy, pre-processing: the behaviour receives `E = ½ (Fᵀ F - 1)`;
  * `GL_N*_stress_PK2/Cauchy` : the returned stress is `S = la tr(E) 1 + 2 mu E` (Saint-Venant Kirchhoff), `σ = F S Fᵀ / det F` for K[1] = 1, 0
                            (PK1 goes through `J σ F⁻ᵀ`: proved in 1D, compared exactly on every run in 2D/3D);
  * `GL_N*_tangent_DS_DEGL` : flavour K[2] = 1 returns the Lamé stiffness `la 1⊗1 + 2 mu I`, the derivative of `S`
                            with respect to `E` (S is linear in E);
  * `HK_N*_strain`        : Hencky strategy, pre-processing: the behaviour receives `M diag(½ log1p(vp_i - 1)) Mᵀ` built
                            from the eigen-decomposition answered for the END-of-step deformation gradient.
  The other tangent flavours in 2D/3D and the Hencky post-processing are compared exactly (rational arithmetic, dual
  numbers) with the reference on every run (checks/C55.py) and rest on C24's theorems for the handler.
-/
import TfelVerif.Common.M3
import TfelVerif.C55.Gen23
import Mathlib.Algebra.CharZero.Defs
import Mathlib.RingTheory.Derivation.Basic

namespace TfelVerif.C55.Props23
open TfelVerif TfelVerif.Mandel
set_option linter.unusedVariables false
set_option linter.unusedSimpArgs false
set_option linter.unusedSectionVars false
set_option linter.unusedTactic false
set_option maxRecDepth 100000

variable {K : Type} [Field K] [CharZero K] (c c3 : K) (fn : Fns K)

/-- finishing tactic: polynomial identity modulo `c * c = 2` -/
macro "c55_ring" hc:term : tactic =>
  `(tactic| (first
      | exact True.intro
      | ring1
      | (ring_nf; (try c_powers $hc); first | done | ring1 | (ring_nf; (try c_powers $hc); ring1))))

/-- Green-Lagrange strain and Saint-Venant Kirchhoff stress -/
def EGL (F : M3 K) : M3 K := (1 / 2 : K) • (F.transpose * F - 1)
def SVK (la mu : K) (E : M3 K) : M3 K := (la * E.trace) • (1 : M3 K) + (2 * mu) • E

/-! ## 2D -/
section N2
variable (F0 F1 F2 F3 F4 Fa0 Fa1 Fa2 Fa3 Fa4 la m00 m01 m10 m11 ma00 ma01 ma10 ma11 mu sa0 sa1 sa2 sa3 sa4 vp0 vp1 vp2 vpa0 vpa1 vpa2 : K)
abbrev Fmat2 : M3 K := M3.ofTens [F0, F1, F2, F3, F4]

theorem GL_N2_strain (hc : c * c = 2) :
    [Gen23.GL_N2_sm1_to1_e0 c c3 fn Fa0 Fa1 Fa2 Fa3 Fa4 F0 F1 F2 F3 F4 sa0 sa1 sa2 sa3 la mu, Gen23.GL_N2_sm1_to1_e1 c c3 fn Fa0 Fa1 Fa2 Fa3 Fa4 F0 F1 F2 F3 F4 sa0 sa1 sa2 sa3 la mu, Gen23.GL_N2_sm1_to1_e2 c c3 fn Fa0 Fa1 Fa2 Fa3 Fa4 F0 F1 F2 F3 F4 sa0 sa1 sa2 sa3 la mu, Gen23.GL_N2_sm1_to1_e3 c c3 fn Fa0 Fa1 Fa2 Fa3 Fa4 F0 F1 F2 F3 F4 sa0 sa1 sa2 sa3 la mu] = M3.mandel2 c (EGL (Fmat2 F0 F1 F2 F3 F4)) := by
  simp only [gen_simp, EGL, Fmat2, M3.ofTens, M3.mandel2, M3.mandel3, M3.smul_def, M3.smul, M3.sub_def, M3.sub, M3.one_def, M3.one,
    M3.mul_def, M3.mul, M3.transpose, List.cons.injEq, and_true]
  repeat' apply And.intro
  all_goals c55_ring hc

theorem GL_N2_stress_PK2 (hc : c * c = 2) :
    [Gen23.GL_N2_sm1_to1_s0 c c3 fn Fa0 Fa1 Fa2 Fa3 Fa4 F0 F1 F2 F3 F4 sa0 sa1 sa2 sa3 la mu, Gen23.GL_N2_sm1_to1_s1 c c3 fn Fa0 Fa1 Fa2 Fa3 Fa4 F0 F1 F2 F3 F4 sa0 sa1 sa2 sa3 la mu, Gen23.GL_N2_sm1_to1_s2 c c3 fn Fa0 Fa1 Fa2 Fa3 Fa4 F0 F1 F2 F3 F4 sa0 sa1 sa2 sa3 la mu, Gen23.GL_N2_sm1_to1_s3 c c3 fn Fa0 Fa1 Fa2 Fa3 Fa4 F0 F1 F2 F3 F4 sa0 sa1 sa2 sa3 la mu] = M3.mandel2 c (SVK la mu (EGL (Fmat2 F0 F1 F2 F3 F4))) := by
  simp only [gen_simp, SVK, EGL, Fmat2, M3.ofTens, M3.mandel2, M3.mandel3, M3.trace, M3.smul_def, M3.smul, M3.add_def, M3.add,
    M3.sub_def, M3.sub, M3.one_def, M3.one, M3.mul_def, M3.mul, M3.transpose, List.cons.injEq, and_true]
  repeat' apply And.intro
  all_goals c55_ring hc

theorem GL_N2_stress_Cauchy (hc : c * c = 2) :
    [Gen23.GL_N2_sm0_to1_s0 c c3 fn Fa0 Fa1 Fa2 Fa3 Fa4 F0 F1 F2 F3 F4 sa0 sa1 sa2 sa3 la mu, Gen23.GL_N2_sm0_to1_s1 c c3 fn Fa0 Fa1 Fa2 Fa3 Fa4 F0 F1 F2 F3 F4 sa0 sa1 sa2 sa3 la mu, Gen23.GL_N2_sm0_to1_s2 c c3 fn Fa0 Fa1 Fa2 Fa3 Fa4 F0 F1 F2 F3 F4 sa0 sa1 sa2 sa3 la mu, Gen23.GL_N2_sm0_to1_s3 c c3 fn Fa0 Fa1 Fa2 Fa3 Fa4 F0 F1 F2 F3 F4 sa0 sa1 sa2 sa3 la mu] = M3.mandel2 c ((1 / (Fmat2 F0 F1 F2 F3 F4).det) • ((Fmat2 F0 F1 F2 F3 F4) * SVK la mu (EGL (Fmat2 F0 F1 F2 F3 F4)) * (Fmat2 F0 F1 F2 F3 F4).transpose)) := by
  have hi : c⁻¹ = c / 2 := c_inv hc two_ne_zero
  simp only [gen_simp, SVK, EGL, Fmat2, M3.ofTens, M3.mandel2, M3.mandel3, M3.trace, M3.det, M3.smul_def, M3.smul, M3.add_def, M3.add,
    M3.sub_def, M3.sub, M3.one_def, M3.one, M3.mul_def, M3.mul, M3.transpose, List.cons.injEq, and_true, div_eq_mul_inv, hi]
  repeat' apply And.intro
  all_goals c55_ring hc

theorem GL_N2_tangent_DS_DEGL :
    [Gen23.GL_N2_sm1_to1_K0_0 c c3 fn Fa0 Fa1 Fa2 Fa3 Fa4 F0 F1 F2 F3 F4 sa0 sa1 sa2 sa3 la mu, Gen23.GL_N2_sm1_to1_K0_1 c c3 fn Fa0 Fa1 Fa2 Fa3 Fa4 F0 F1 F2 F3 F4 sa0 sa1 sa2 sa3 la mu, Gen23.GL_N2_sm1_to1_K0_2 c c3 fn Fa0 Fa1 Fa2 Fa3 Fa4 F0 F1 F2 F3 F4 sa0 sa1 sa2 sa3 la mu, Gen23.GL_N2_sm1_to1_K0_3 c c3 fn Fa0 Fa1 Fa2 Fa3 Fa4 F0 F1 F2 F3 F4 sa0 sa1 sa2 sa3 la mu, Gen23.GL_N2_sm1_to1_K1_0 c c3 fn Fa0 Fa1 Fa2 Fa3 Fa4 F0 F1 F2 F3 F4 sa0 sa1 sa2 sa3 la mu, Gen23.GL_N2_sm1_to1_K1_1 c c3 fn Fa0 Fa1 Fa2 Fa3 Fa4 F0 F1 F2 F3 F4 sa0 sa1 sa2 sa3 la mu, Gen23.GL_N2_sm1_to1_K1_2 c c3 fn Fa0 Fa1 Fa2 Fa3 Fa4 F0 F1 F2 F3 F4 sa0 sa1 sa2 sa3 la mu, Gen23.GL_N2_sm1_to1_K1_3 c c3 fn Fa0 Fa1 Fa2 Fa3 Fa4 F0 F1 F2 F3 F4 sa0 sa1 sa2 sa3 la mu, Gen23.GL_N2_sm1_to1_K2_0 c c3 fn Fa0 Fa1 Fa2 Fa3 Fa4 F0 F1 F2 F3 F4 sa0 sa1 sa2 sa3 la mu, Gen23.GL_N2_sm1_to1_K2_1 c c3 fn Fa0 Fa1 Fa2 Fa3 Fa4 F0 F1 F2 F3 F4 sa0 sa1 sa2 sa3 la mu, Gen23.GL_N2_sm1_to1_K2_2 c c3 fn Fa0 Fa1 Fa2 Fa3 Fa4 F0 F1 F2 F3 F4 sa0 sa1 sa2 sa3 la mu, Gen23.GL_N2_sm1_to1_K2_3 c c3 fn Fa0 Fa1 Fa2 Fa3 Fa4 F0 F1 F2 F3 F4 sa0 sa1 sa2 sa3 la mu, Gen23.GL_N2_sm1_to1_K3_0 c c3 fn Fa0 Fa1 Fa2 Fa3 Fa4 F0 F1 F2 F3 F4 sa0 sa1 sa2 sa3 la mu, Gen23.GL_N2_sm1_to1_K3_1 c c3 fn Fa0 Fa1 Fa2 Fa3 Fa4 F0 F1 F2 F3 F4 sa0 sa1 sa2 sa3 la mu, Gen23.GL_N2_sm1_to1_K3_2 c c3 fn Fa0 Fa1 Fa2 Fa3 Fa4 F0 F1 F2 F3 F4 sa0 sa1 sa2 sa3 la mu, Gen23.GL_N2_sm1_to1_K3_3 c c3 fn Fa0 Fa1 Fa2 Fa3 Fa4 F0 F1 F2 F3 F4 sa0 sa1 sa2 sa3 la mu]
    = [la + 2 * mu, la, la, 0, la, la + 2 * mu, la, 0, la, la, la + 2 * mu, 0, 0, 0, 0, 2 * mu] := by
  simp only [gen_simp, List.cons.injEq, and_true]
  repeat' apply And.intro
  all_goals (first | exact True.intro | ring1)

/-- Hencky strategy: the strain handed to the behaviour is the Hencky strain of the END-of-step handler -/
theorem HK_N2_strain (hc : c * c = 2) :
    [Gen23.HK_N2_sm0_to1_e0 c c3 fn Fa0 Fa1 Fa2 Fa3 Fa4 F0 F1 F2 F3 F4 sa0 sa1 sa2 sa3 la mu vpa0 vpa1 vpa2 ma00 ma01 ma10 ma11 vp0 vp1 vp2 m00 m01 m10 m11, Gen23.HK_N2_sm0_to1_e1 c c3 fn Fa0 Fa1 Fa2 Fa3 Fa4 F0 F1 F2 F3 F4 sa0 sa1 sa2 sa3 la mu vpa0 vpa1 vpa2 ma00 ma01 ma10 ma11 vp0 vp1 vp2 m00 m01 m10 m11, Gen23.HK_N2_sm0_to1_e2 c c3 fn Fa0 Fa1 Fa2 Fa3 Fa4 F0 F1 F2 F3 F4 sa0 sa1 sa2 sa3 la mu vpa0 vpa1 vpa2 ma00 ma01 ma10 ma11 vp0 vp1 vp2 m00 m01 m10 m11, Gen23.HK_N2_sm0_to1_e3 c c3 fn Fa0 Fa1 Fa2 Fa3 Fa4 F0 F1 F2 F3 F4 sa0 sa1 sa2 sa3 la mu vpa0 vpa1 vpa2 ma00 ma01 ma10 ma11 vp0 vp1 vp2 m00 m01 m10 m11]
    = M3.mandel2 c ((⟨m00, m01, 0, m10, m11, 0, 0, 0, 1⟩ : M3 K) * M3.diag (fn.call "log1p" [vp0 - 1] / 2) (fn.call "log1p" [vp1 - 1] / 2) (fn.call "log1p" [F2 * F2 - 1] / 2) * (⟨m00, m01, 0, m10, m11, 0, 0, 0, 1⟩ : M3 K).transpose) := by
  simp only [gen_simp, M3.diag, M3.mandel2, M3.mandel3, M3.mul_def, M3.mul, M3.transpose, List.cons.injEq, and_true]
  repeat' apply And.intro
  all_goals c55_ring hc

end N2

/-! ## 3D -/
section N3
variable (F0 F1 F2 F3 F4 F5 F6 F7 F8 Fa0 Fa1 Fa2 Fa3 Fa4 Fa5 Fa6 Fa7 Fa8 la m00 m01 m02 m10 m11 m12 m20 m21 m22 ma00 ma01 ma02 ma10 ma11 ma12 ma20 ma21 ma22 mu sa0 sa1 sa2 sa3 sa4 sa5 sa6 sa7 sa8 vp0 vp1 vp2 vpa0 vpa1 vpa2 : K)
abbrev Fmat3 : M3 K := M3.ofTens [F0, F1, F2, F3, F4, F5, F6, F7, F8]

theorem GL_N3_strain (hc : c * c = 2) :
    [Gen23.GL_N3_sm1_to1_e0 c c3 fn Fa0 Fa1 Fa2 Fa3 Fa4 Fa5 Fa6 Fa7 Fa8 F0 F1 F2 F3 F4 F5 F6 F7 F8 sa0 sa1 sa2 sa3 sa4 sa5 la mu, Gen23.GL_N3_sm1_to1_e1 c c3 fn Fa0 Fa1 Fa2 Fa3 Fa4 Fa5 Fa6 Fa7 Fa8 F0 F1 F2 F3 F4 F5 F6 F7 F8 sa0 sa1 sa2 sa3 sa4 sa5 la mu, Gen23.GL_N3_sm1_to1_e2 c c3 fn Fa0 Fa1 Fa2 Fa3 Fa4 Fa5 Fa6 Fa7 Fa8 F0 F1 F2 F3 F4 F5 F6 F7 F8 sa0 sa1 sa2 sa3 sa4 sa5 la mu, Gen23.GL_N3_sm1_to1_e3 c c3 fn Fa0 Fa1 Fa2 Fa3 Fa4 Fa5 Fa6 Fa7 Fa8 F0 F1 F2 F3 F4 F5 F6 F7 F8 sa0 sa1 sa2 sa3 sa4 sa5 la mu, Gen23.GL_N3_sm1_to1_e4 c c3 fn Fa0 Fa1 Fa2 Fa3 Fa4 Fa5 Fa6 Fa7 Fa8 F0 F1 F2 F3 F4 F5 F6 F7 F8 sa0 sa1 sa2 sa3 sa4 sa5 la mu, Gen23.GL_N3_sm1_to1_e5 c c3 fn Fa0 Fa1 Fa2 Fa3 Fa4 Fa5 Fa6 Fa7 Fa8 F0 F1 F2 F3 F4 F5 F6 F7 F8 sa0 sa1 sa2 sa3 sa4 sa5 la mu] = M3.mandel3 c (EGL (Fmat3 F0 F1 F2 F3 F4 F5 F6 F7 F8)) := by
  simp only [gen_simp, EGL, Fmat3, M3.ofTens, M3.mandel2, M3.mandel3, M3.smul_def, M3.smul, M3.sub_def, M3.sub, M3.one_def, M3.one,
    M3.mul_def, M3.mul, M3.transpose, List.cons.injEq, and_true]
  repeat' apply And.intro
  all_goals c55_ring hc

theorem GL_N3_stress_PK2 (hc : c * c = 2) :
    [Gen23.GL_N3_sm1_to1_s0 c c3 fn Fa0 Fa1 Fa2 Fa3 Fa4 Fa5 Fa6 Fa7 Fa8 F0 F1 F2 F3 F4 F5 F6 F7 F8 sa0 sa1 sa2 sa3 sa4 sa5 la mu, Gen23.GL_N3_sm1_to1_s1 c c3 fn Fa0 Fa1 Fa2 Fa3 Fa4 Fa5 Fa6 Fa7 Fa8 F0 F1 F2 F3 F4 F5 F6 F7 F8 sa0 sa1 sa2 sa3 sa4 sa5 la mu, Gen23.GL_N3_sm1_to1_s2 c c3 fn Fa0 Fa1 Fa2 Fa3 Fa4 Fa5 Fa6 Fa7 Fa8 F0 F1 F2 F3 F4 F5 F6 F7 F8 sa0 sa1 sa2 sa3 sa4 sa5 la mu, Gen23.GL_N3_sm1_to1_s3 c c3 fn Fa0 Fa1 Fa2 Fa3 Fa4 Fa5 Fa6 Fa7 Fa8 F0 F1 F2 F3 F4 F5 F6 F7 F8 sa0 sa1 sa2 sa3 sa4 sa5 la mu, Gen23.GL_N3_sm1_to1_s4 c c3 fn Fa0 Fa1 Fa2 Fa3 Fa4 Fa5 Fa6 Fa7 Fa8 F0 F1 F2 F3 F4 F5 F6 F7 F8 sa0 sa1 sa2 sa3 sa4 sa5 la mu, Gen23.GL_N3_sm1_to1_s5 c c3 fn Fa0 Fa1 Fa2 Fa3 Fa4 Fa5 Fa6 Fa7 Fa8 F0 F1 F2 F3 F4 F5 F6 F7 F8 sa0 sa1 sa2 sa3 sa4 sa5 la mu] = M3.mandel3 c (SVK la mu (EGL (Fmat3 F0 F1 F2 F3 F4 F5 F6 F7 F8))) := by
  simp only [gen_simp, SVK, EGL, Fmat3, M3.ofTens, M3.mandel2, M3.mandel3, M3.trace, M3.smul_def, M3.smul, M3.add_def, M3.add,
    M3.sub_def, M3.sub, M3.one_def, M3.one, M3.mul_def, M3.mul, M3.transpose, List.cons.injEq, and_true]
  repeat' apply And.intro
  all_goals c55_ring hc

theorem GL_N3_stress_Cauchy (hc : c * c = 2) :
    [Gen23.GL_N3_sm0_to1_s0 c c3 fn Fa0 Fa1 Fa2 Fa3 Fa4 Fa5 Fa6 Fa7 Fa8 F0 F1 F2 F3 F4 F5 F6 F7 F8 sa0 sa1 sa2 sa3 sa4 sa5 la mu, Gen23.GL_N3_sm0_to1_s1 c c3 fn Fa0 Fa1 Fa2 Fa3 Fa4 Fa5 Fa6 Fa7 Fa8 F0 F1 F2 F3 F4 F5 F6 F7 F8 sa0 sa1 sa2 sa3 sa4 sa5 la mu, Gen23.GL_N3_sm0_to1_s2 c c3 fn Fa0 Fa1 Fa2 Fa3 Fa4 Fa5 Fa6 Fa7 Fa8 F0 F1 F2 F3 F4 F5 F6 F7 F8 sa0 sa1 sa2 sa3 sa4 sa5 la mu, Gen23.GL_N3_sm0_to1_s3 c c3 fn Fa0 Fa1 Fa2 Fa3 Fa4 Fa5 Fa6 Fa7 Fa8 F0 F1 F2 F3 F4 F5 F6 F7 F8 sa0 sa1 sa2 sa3 sa4 sa5 la mu, Gen23.GL_N3_sm0_to1_s4 c c3 fn Fa0 Fa1 Fa2 Fa3 Fa4 Fa5 Fa6 Fa7 Fa8 F0 F1 F2 F3 F4 F5 F6 F7 F8 sa0 sa1 sa2 sa3 sa4 sa5 la mu, Gen23.GL_N3_sm0_to1_s5 c c3 fn Fa0 Fa1 Fa2 Fa3 Fa4 Fa5 Fa6 Fa7 Fa8 F0 F1 F2 F3 F4 F5 F6 F7 F8 sa0 sa1 sa2 sa3 sa4 sa5 la mu] = M3.mandel3 c ((1 / (Fmat3 F0 F1 F2 F3 F4 F5 F6 F7 F8).det) • ((Fmat3 F0 F1 F2 F3 F4 F5 F6 F7 F8) * SVK la mu (EGL (Fmat3 F0 F1 F2 F3 F4 F5 F6 F7 F8)) * (Fmat3 F0 F1 F2 F3 F4 F5 F6 F7 F8).transpose)) := by
  have hi : c⁻¹ = c / 2 := c_inv hc two_ne_zero
  simp only [gen_simp, SVK, EGL, Fmat3, M3.ofTens, M3.mandel2, M3.mandel3, M3.trace, M3.det, M3.smul_def, M3.smul, M3.add_def, M3.add,
    M3.sub_def, M3.sub, M3.one_def, M3.one, M3.mul_def, M3.mul, M3.transpose, List.cons.injEq, and_true, div_eq_mul_inv, hi]
  repeat' apply And.intro
  all_goals c55_ring hc

theorem GL_N3_tangent_DS_DEGL :
    [Gen23.GL_N3_sm1_to1_K0_0 c c3 fn Fa0 Fa1 Fa2 Fa3 Fa4 Fa5 Fa6 Fa7 Fa8 F0 F1 F2 F3 F4 F5 F6 F7 F8 sa0 sa1 sa2 sa3 sa4 sa5 la mu, Gen23.GL_N3_sm1_to1_K0_1 c c3 fn Fa0 Fa1 Fa2 Fa3 Fa4 Fa5 Fa6 Fa7 Fa8 F0 F1 F2 F3 F4 F5 F6 F7 F8 sa0 sa1 sa2 sa3 sa4 sa5 la mu, Gen23.GL_N3_sm1_to1_K0_2 c c3 fn Fa0 Fa1 Fa2 Fa3 Fa4 Fa5 Fa6 Fa7 Fa8 F0 F1 F2 F3 F4 F5 F6 F7 F8 sa0 sa1 sa2 sa3 sa4 sa5 la mu, Gen23.GL_N3_sm1_to1_K0_3 c c3 fn Fa0 Fa1 Fa2 Fa3 Fa4 Fa5 Fa6 Fa7 Fa8 F0 F1 F2 F3 F4 F5 F6 F7 F8 sa0 sa1 sa2 sa3 sa4 sa5 la mu, Gen23.GL_N3_sm1_to1_K0_4 c c3 fn Fa0 Fa1 Fa2 Fa3 Fa4 Fa5 Fa6 Fa7 Fa8 F0 F1 F2 F3 F4 F5 F6 F7 F8 sa0 sa1 sa2 sa3 sa4 sa5 la mu, Gen23.GL_N3_sm1_to1_K0_5 c c3 fn Fa0 Fa1 Fa2 Fa3 Fa4 Fa5 Fa6 Fa7 Fa8 F0 F1 F2 F3 F4 F5 F6 F7 F8 sa0 sa1 sa2 sa3 sa4 sa5 la mu, Gen23.GL_N3_sm1_to1_K1_0 c c3 fn Fa0 Fa1 Fa2 Fa3 Fa4 Fa5 Fa6 Fa7 Fa8 F0 F1 F2 F3 F4 F5 F6 F7 F8 sa0 sa1 sa2 sa3 sa4 sa5 la mu, Gen23.GL_N3_sm1_to1_K1_1 c c3 fn Fa0 Fa1 Fa2 Fa3 Fa4 Fa5 Fa6 Fa7 Fa8 F0 F1 F2 F3 F4 F5 F6 F7 F8 sa0 sa1 sa2 sa3 sa4 sa5 la mu, Gen23.GL_N3_sm1_to1_K1_2 c c3 fn Fa0 Fa1 Fa2 Fa3 Fa4 Fa5 Fa6 Fa7 Fa8 F0 F1 F2 F3 F4 F5 F6 F7 F8 sa0 sa1 sa2 sa3 sa4 sa5 la mu, Gen23.GL_N3_sm1_to1_K1_3 c c3 fn Fa0 Fa1 Fa2 Fa3 Fa4 Fa5 Fa6 Fa7 Fa8 F0 F1 F2 F3 F4 F5 F6 F7 F8 sa0 sa1 sa2 sa3 sa4 sa5 la mu, Gen23.GL_N3_sm1_to1_K1_4 c c3 fn Fa0 Fa1 Fa2 Fa3 Fa4 Fa5 Fa6 Fa7 Fa8 F0 F1 F2 F3 F4 F5 F6 F7 F8 sa0 sa1 sa2 sa3 sa4 sa5 la mu, Gen23.GL_N3_sm1_to1_K1_5 c c3 fn Fa0 Fa1 Fa2 Fa3 Fa4 Fa5 Fa6 Fa7 Fa8 F0 F1 F2 F3 F4 F5 F6 F7 F8 sa0 sa1 sa2 sa3 sa4 sa5 la mu, Gen23.GL_N3_sm1_to1_K2_0 c c3 fn Fa0 Fa1 Fa2 Fa3 Fa4 Fa5 Fa6 Fa7 Fa8 F0 F1 F2 F3 F4 F5 F6 F7 F8 sa0 sa1 sa2 sa3 sa4 sa5 la mu, Gen23.GL_N3_sm1_to1_K2_1 c c3 fn Fa0 Fa1 Fa2 Fa3 Fa4 Fa5 Fa6 Fa7 Fa8 F0 F1 F2 F3 F4 F5 F6 F7 F8 sa0 sa1 sa2 sa3 sa4 sa5 la mu, Gen23.GL_N3_sm1_to1_K2_2 c c3 fn Fa0 Fa1 Fa2 Fa3 Fa4 Fa5 Fa6 Fa7 Fa8 F0 F1 F2 F3 F4 F5 F6 F7 F8 sa0 sa1 sa2 sa3 sa4 sa5 la mu, Gen23.GL_N3_sm1_to1_K2_3 c c3 fn Fa0 Fa1 Fa2 Fa3 Fa4 Fa5 Fa6 Fa7 Fa8 F0 F1 F2 F3 F4 F5 F6 F7 F8 sa0 sa1 sa2 sa3 sa4 sa5 la mu, Gen23.GL_N3_sm1_to1_K2_4 c c3 fn Fa0 Fa1 Fa2 Fa3 Fa4 Fa5 Fa6 Fa7 Fa8 F0 F1 F2 F3 F4 F5 F6 F7 F8 sa0 sa1 sa2 sa3 sa4 sa5 la mu, Gen23.GL_N3_sm1_to1_K2_5 c c3 fn Fa0 Fa1 Fa2 Fa3 Fa4 Fa5 Fa6 Fa7 Fa8 F0 F1 F2 F3 F4 F5 F6 F7 F8 sa0 sa1 sa2 sa3 sa4 sa5 la mu, Gen23.GL_N3_sm1_to1_K3_0 c c3 fn Fa0 Fa1 Fa2 Fa3 Fa4 Fa5 Fa6 Fa7 Fa8 F0 F1 F2 F3 F4 F5 F6 F7 F8 sa0 sa1 sa2 sa3 sa4 sa5 la mu, Gen23.GL_N3_sm1_to1_K3_1 c c3 fn Fa0 Fa1 Fa2 Fa3 Fa4 Fa5 Fa6 Fa7 Fa8 F0 F1 F2 F3 F4 F5 F6 F7 F8 sa0 sa1 sa2 sa3 sa4 sa5 la mu, Gen23.GL_N3_sm1_to1_K3_2 c c3 fn Fa0 Fa1 Fa2 Fa3 Fa4 Fa5 Fa6 Fa7 Fa8 F0 F1 F2 F3 F4 F5 F6 F7 F8 sa0 sa1 sa2 sa3 sa4 sa5 la mu, Gen23.GL_N3_sm1_to1_K3_3 c c3 fn Fa0 Fa1 Fa2 Fa3 Fa4 Fa5 Fa6 Fa7 Fa8 F0 F1 F2 F3 F4 F5 F6 F7 F8 sa0 sa1 sa2 sa3 sa4 sa5 la mu, Gen23.GL_N3_sm1_to1_K3_4 c c3 fn Fa0 Fa1 Fa2 Fa3 Fa4 Fa5 Fa6 Fa7 Fa8 F0 F1 F2 F3 F4 F5 F6 F7 F8 sa0 sa1 sa2 sa3 sa4 sa5 la mu, Gen23.GL_N3_sm1_to1_K3_5 c c3 fn Fa0 Fa1 Fa2 Fa3 Fa4 Fa5 Fa6 Fa7 Fa8 F0 F1 F2 F3 F4 F5 F6 F7 F8 sa0 sa1 sa2 sa3 sa4 sa5 la mu, Gen23.GL_N3_sm1_to1_K4_0 c c3 fn Fa0 Fa1 Fa2 Fa3 Fa4 Fa5 Fa6 Fa7 Fa8 F0 F1 F2 F3 F4 F5 F6 F7 F8 sa0 sa1 sa2 sa3 sa4 sa5 la mu, Gen23.GL_N3_sm1_to1_K4_1 c c3 fn Fa0 Fa1 Fa2 Fa3 Fa4 Fa5 Fa6 Fa7 Fa8 F0 F1 F2 F3 F4 F5 F6 F7 F8 sa0 sa1 sa2 sa3 sa4 sa5 la mu, Gen23.GL_N3_sm1_to1_K4_2 c c3 fn Fa0 Fa1 Fa2 Fa3 Fa4 Fa5 Fa6 Fa7 Fa8 F0 F1 F2 F3 F4 F5 F6 F7 F8 sa0 sa1 sa2 sa3 sa4 sa5 la mu, Gen23.GL_N3_sm1_to1_K4_3 c c3 fn Fa0 Fa1 Fa2 Fa3 Fa4 Fa5 Fa6 Fa7 Fa8 F0 F1 F2 F3 F4 F5 F6 F7 F8 sa0 sa1 sa2 sa3 sa4 sa5 la mu, Gen23.GL_N3_sm1_to1_K4_4 c c3 fn Fa0 Fa1 Fa2 Fa3 Fa4 Fa5 Fa6 Fa7 Fa8 F0 F1 F2 F3 F4 F5 F6 F7 F8 sa0 sa1 sa2 sa3 sa4 sa5 la mu, Gen23.GL_N3_sm1_to1_K4_5 c c3 fn Fa0 Fa1 Fa2 Fa3 Fa4 Fa5 Fa6 Fa7 Fa8 F0 F1 F2 F3 F4 F5 F6 F7 F8 sa0 sa1 sa2 sa3 sa4 sa5 la mu, Gen23.GL_N3_sm1_to1_K5_0 c c3 fn Fa0 Fa1 Fa2 Fa3 Fa4 Fa5 Fa6 Fa7 Fa8 F0 F1 F2 F3 F4 F5 F6 F7 F8 sa0 sa1 sa2 sa3 sa4 sa5 la mu, Gen23.GL_N3_sm1_to1_K5_1 c c3 fn Fa0 Fa1 Fa2 Fa3 Fa4 Fa5 Fa6 Fa7 Fa8 F0 F1 F2 F3 F4 F5 F6 F7 F8 sa0 sa1 sa2 sa3 sa4 sa5 la mu, Gen23.GL_N3_sm1_to1_K5_2 c c3 fn Fa0 Fa1 Fa2 Fa3 Fa4 Fa5 Fa6 Fa7 Fa8 F0 F1 F2 F3 F4 F5 F6 F7 F8 sa0 sa1 sa2 sa3 sa4 sa5 la mu, Gen23.GL_N3_sm1_to1_K5_3 c c3 fn Fa0 Fa1 Fa2 Fa3 Fa4 Fa5 Fa6 Fa7 Fa8 F0 F1 F2 F3 F4 F5 F6 F7 F8 sa0 sa1 sa2 sa3 sa4 sa5 la mu, Gen23.GL_N3_sm1_to1_K5_4 c c3 fn Fa0 Fa1 Fa2 Fa3 Fa4 Fa5 Fa6 Fa7 Fa8 F0 F1 F2 F3 F4 F5 F6 F7 F8 sa0 sa1 sa2 sa3 sa4 sa5 la mu, Gen23.GL_N3_sm1_to1_K5_5 c c3 fn Fa0 Fa1 Fa2 Fa3 Fa4 Fa5 Fa6 Fa7 Fa8 F0 F1 F2 F3 F4 F5 F6 F7 F8 sa0 sa1 sa2 sa3 sa4 sa5 la mu]
    = [la + 2 * mu, la, la, 0, 0, 0, la, la + 2 * mu, la, 0, 0, 0, la, la, la + 2 * mu, 0, 0, 0, 0, 0, 0, 2 * mu, 0, 0, 0, 0, 0, 0, 2 * mu, 0, 0, 0, 0, 0, 0, 2 * mu] := by
  simp only [gen_simp, List.cons.injEq, and_true]
  repeat' apply And.intro
  all_goals (first | exact True.intro | ring1)

/-- Hencky strategy: the strain handed to the behaviour is the Hencky strain of the END-of-step handler -/
theorem HK_N3_strain (hc : c * c = 2) :
    [Gen23.HK_N3_sm0_to1_e0 c c3 fn Fa0 Fa1 Fa2 Fa3 Fa4 Fa5 Fa6 Fa7 Fa8 F0 F1 F2 F3 F4 F5 F6 F7 F8 sa0 sa1 sa2 sa3 sa4 sa5 la mu vpa0 vpa1 vpa2 ma00 ma01 ma02 ma10 ma11 ma12 ma20 ma21 ma22 vp0 vp1 vp2 m00 m01 m02 m10 m11 m12 m20 m21 m22, Gen23.HK_N3_sm0_to1_e1 c c3 fn Fa0 Fa1 Fa2 Fa3 Fa4 Fa5 Fa6 Fa7 Fa8 F0 F1 F2 F3 F4 F5 F6 F7 F8 sa0 sa1 sa2 sa3 sa4 sa5 la mu vpa0 vpa1 vpa2 ma00 ma01 ma02 ma10 ma11 ma12 ma20 ma21 ma22 vp0 vp1 vp2 m00 m01 m02 m10 m11 m12 m20 m21 m22, Gen23.HK_N3_sm0_to1_e2 c c3 fn Fa0 Fa1 Fa2 Fa3 Fa4 Fa5 Fa6 Fa7 Fa8 F0 F1 F2 F3 F4 F5 F6 F7 F8 sa0 sa1 sa2 sa3 sa4 sa5 la mu vpa0 vpa1 vpa2 ma00 ma01 ma02 ma10 ma11 ma12 ma20 ma21 ma22 vp0 vp1 vp2 m00 m01 m02 m10 m11 m12 m20 m21 m22, Gen23.HK_N3_sm0_to1_e3 c c3 fn Fa0 Fa1 Fa2 Fa3 Fa4 Fa5 Fa6 Fa7 Fa8 F0 F1 F2 F3 F4 F5 F6 F7 F8 sa0 sa1 sa2 sa3 sa4 sa5 la mu vpa0 vpa1 vpa2 ma00 ma01 ma02 ma10 ma11 ma12 ma20 ma21 ma22 vp0 vp1 vp2 m00 m01 m02 m10 m11 m12 m20 m21 m22, Gen23.HK_N3_sm0_to1_e4 c c3 fn Fa0 Fa1 Fa2 Fa3 Fa4 Fa5 Fa6 Fa7 Fa8 F0 F1 F2 F3 F4 F5 F6 F7 F8 sa0 sa1 sa2 sa3 sa4 sa5 la mu vpa0 vpa1 vpa2 ma00 ma01 ma02 ma10 ma11 ma12 ma20 ma21 ma22 vp0 vp1 vp2 m00 m01 m02 m10 m11 m12 m20 m21 m22, Gen23.HK_N3_sm0_to1_e5 c c3 fn Fa0 Fa1 Fa2 Fa3 Fa4 Fa5 Fa6 Fa7 Fa8 F0 F1 F2 F3 F4 F5 F6 F7 F8 sa0 sa1 sa2 sa3 sa4 sa5 la mu vpa0 vpa1 vpa2 ma00 ma01 ma02 ma10 ma11 ma12 ma20 ma21 ma22 vp0 vp1 vp2 m00 m01 m02 m10 m11 m12 m20 m21 m22]
    = M3.mandel3 c ((⟨m00, m01, m02, m10, m11, m12, m20, m21, m22⟩ : M3 K) * M3.diag (fn.call "log1p" [vp0 - 1] / 2) (fn.call "log1p" [vp1 - 1] / 2) (fn.call "log1p" [vp2 - 1] / 2) * (⟨m00, m01, m02, m10, m11, m12, m20, m21, m22⟩ : M3 K).transpose) := by
  simp only [gen_simp, M3.diag, M3.mandel2, M3.mandel3, M3.mul_def, M3.mul, M3.transpose, List.cons.injEq, and_true]
  repeat' apply And.intro
  all_goals c55_ring hc
end N3

end TfelVerif.C55.Props23
