/-
  C55 — strain-measure strategies of the generic interface, 1D (axisymmetrical generalised plane strain),
  proved in full for both strategies. Property theorems only.

  Units `<GL|HK>_N1_sm<K[1]>_to<K[2]>` (harness/C55/trace.cxx): the shipped
  `mfront::gb::green_lagrange_strain::integrate` / `mfront::gb::logarithmic_strain::integrate` instantiated with
  `mfront_gb_real = Sym` on the mock linear elastic behaviour (`la`, `mu` = Lamé coefficients), `Fa*` = F at
  the beginning of the time step, `F*` = F at the end. Outputs: `e*` the strain handed to the behaviour,
  `s*` the returned stress (measure K[1]: 0 Cauchy, 1 PK2, 2 PK1), `K*_*` the returned operator (flavour K[2]:
  0 dσ/dF, 1 dS/dE_GL, 2 dP/dF, 3 dτ/dΔF with ΔF = F Fa⁻¹).

  For each strategy and each of the four flavours (with the matching stress measure):
  * `*_strain`     : the pre-processing gives `E_GL = (F² - 1)/2` resp. `E_log = log F` (`log` uninterpreted);
  * `*_stress`     : the returned stress is the conversion of `S = C : E_GL` (Saint-Venant Kirchhoff) resp. of
                     the dual `T = C : E_log` of the Hencky strain;
  * `*_derivative` : for EVERY derivation `δ` of the field with `δ la = δ mu = 0` (and `δ Fa = 0` for dτ/dΔF, and
                     the chain rule `δ(log F_i) = δF_i / F_i` for Hencky): `δ(stress_i) = Σ_j K_ij δ(g_j)` where `g` is
                     the variable of the flavour — the returned operator is the derivative of the returned stress.
-/
import TfelVerif.Common.M3
import TfelVerif.C55.Gen1
import Mathlib.Algebra.CharZero.Defs
import Mathlib.RingTheory.Derivation.Basic

namespace TfelVerif.C55.Props1
open TfelVerif
set_option linter.unusedVariables false
set_option linter.unusedSimpArgs false
set_option linter.unusedSectionVars false
set_option linter.unusedTactic false
set_option maxRecDepth 100000

variable {K : Type} [Field K] [CharZero K] (c c3 : K) (fn : Fns K)
variable (Fa0 Fa1 Fa2 F0 F1 F2 sa0 sa1 sa2 la mu vpa0 vpa1 vpa2 ma00 ma01 ma10 ma11 vp0 vp1 vp2 m00 m01 m10 m11 : K)
variable (δ : Derivation ℤ K K)

/-- Lamé stiffness in 1D -/
def Cel (la mu : K) (i j : Fin 3) : K := la + (if i = j then 2 * mu else 0)

/-! ## GL_N1_sm0_to0: stress measure 0, flavour 0 -/
theorem GL_N1_sm0_to0_strain :
    [Gen1.GL_N1_sm0_to0_e0 c c3 fn Fa0 Fa1 Fa2 F0 F1 F2 sa0 sa1 sa2 la mu, Gen1.GL_N1_sm0_to0_e1 c c3 fn Fa0 Fa1 Fa2 F0 F1 F2 sa0 sa1 sa2 la mu, Gen1.GL_N1_sm0_to0_e2 c c3 fn Fa0 Fa1 Fa2 F0 F1 F2 sa0 sa1 sa2 la mu] = [(F0 * F0 - 1) / 2, (F1 * F1 - 1) / 2, (F2 * F2 - 1) / 2] := by
  simp only [gen_simp, List.cons.injEq, and_true]
  repeat' apply And.intro
  all_goals (first | exact True.intro | ring1)

theorem GL_N1_sm0_to0_stress (h0 : F0 ≠ 0) (h1 : F1 ≠ 0) (h2 : F2 ≠ 0) :
    [Gen1.GL_N1_sm0_to0_s0 c c3 fn Fa0 Fa1 Fa2 F0 F1 F2 sa0 sa1 sa2 la mu, Gen1.GL_N1_sm0_to0_s1 c c3 fn Fa0 Fa1 Fa2 F0 F1 F2 sa0 sa1 sa2 la mu, Gen1.GL_N1_sm0_to0_s2 c c3 fn Fa0 Fa1 Fa2 F0 F1 F2 sa0 sa1 sa2 la mu]
    = [(la * ((F0 * F0 - 1) / 2 + (F1 * F1 - 1) / 2 + (F2 * F2 - 1) / 2) + 2 * mu * ((F0 * F0 - 1) / 2)) * (F0 * F0) / (F0 * F1 * F2), (la * ((F0 * F0 - 1) / 2 + (F1 * F1 - 1) / 2 + (F2 * F2 - 1) / 2) + 2 * mu * ((F1 * F1 - 1) / 2)) * (F1 * F1) / (F0 * F1 * F2), (la * ((F0 * F0 - 1) / 2 + (F1 * F1 - 1) / 2 + (F2 * F2 - 1) / 2) + 2 * mu * ((F2 * F2 - 1) / 2)) * (F2 * F2) / (F0 * F1 * F2)] := by
  simp only [gen_simp, List.cons.injEq, and_true]
  repeat' apply And.intro
  all_goals (first | exact True.intro | ring1 | (field_simp; ring1))

set_option maxHeartbeats 3200000 in
/-- the returned operator is the derivative of the returned stress -/
theorem GL_N1_sm0_to0_derivative (h0 : F0 ≠ 0) (h1 : F1 ≠ 0) (h2 : F2 ≠ 0) (hla : δ la = 0) (hmu : δ mu = 0) (hf0 : δ Fa0 = 0) (hf1 : δ Fa1 = 0) (hf2 : δ Fa2 = 0) :
    [δ (Gen1.GL_N1_sm0_to0_s0 c c3 fn Fa0 Fa1 Fa2 F0 F1 F2 sa0 sa1 sa2 la mu), δ (Gen1.GL_N1_sm0_to0_s1 c c3 fn Fa0 Fa1 Fa2 F0 F1 F2 sa0 sa1 sa2 la mu), δ (Gen1.GL_N1_sm0_to0_s2 c c3 fn Fa0 Fa1 Fa2 F0 F1 F2 sa0 sa1 sa2 la mu)]
    = [Gen1.GL_N1_sm0_to0_K0_0 c c3 fn Fa0 Fa1 Fa2 F0 F1 F2 sa0 sa1 sa2 la mu * δ F0 + Gen1.GL_N1_sm0_to0_K0_1 c c3 fn Fa0 Fa1 Fa2 F0 F1 F2 sa0 sa1 sa2 la mu * δ F1 + Gen1.GL_N1_sm0_to0_K0_2 c c3 fn Fa0 Fa1 Fa2 F0 F1 F2 sa0 sa1 sa2 la mu * δ F2,
       Gen1.GL_N1_sm0_to0_K1_0 c c3 fn Fa0 Fa1 Fa2 F0 F1 F2 sa0 sa1 sa2 la mu * δ F0 + Gen1.GL_N1_sm0_to0_K1_1 c c3 fn Fa0 Fa1 Fa2 F0 F1 F2 sa0 sa1 sa2 la mu * δ F1 + Gen1.GL_N1_sm0_to0_K1_2 c c3 fn Fa0 Fa1 Fa2 F0 F1 F2 sa0 sa1 sa2 la mu * δ F2,
       Gen1.GL_N1_sm0_to0_K2_0 c c3 fn Fa0 Fa1 Fa2 F0 F1 F2 sa0 sa1 sa2 la mu * δ F0 + Gen1.GL_N1_sm0_to0_K2_1 c c3 fn Fa0 Fa1 Fa2 F0 F1 F2 sa0 sa1 sa2 la mu * δ F1 + Gen1.GL_N1_sm0_to0_K2_2 c c3 fn Fa0 Fa1 Fa2 F0 F1 F2 sa0 sa1 sa2 la mu * δ F2] := by
  have d2 : δ (2 : K) = 0 := by simpa using δ.map_natCast 2
  have d1 : δ (1 : K) = 0 := δ.map_one_eq_zero
  have d4 : δ (4 : K) = 0 := by simpa using δ.map_natCast 4
  simp only [gen_simp, Derivation.leibniz_div, Derivation.leibniz, Derivation.map_sub, Derivation.map_add, Derivation.map_neg,
    d1, d2, d4, hla, hmu, hf0, hf1, hf2, smul_eq_mul, List.cons.injEq, and_true]
  refine ⟨?_, ?_, ?_⟩ <;> (field_simp; ring1)

/-! ## GL_N1_sm1_to1: stress measure 1, flavour 1 -/
theorem GL_N1_sm1_to1_strain :
    [Gen1.GL_N1_sm1_to1_e0 c c3 fn Fa0 Fa1 Fa2 F0 F1 F2 sa0 sa1 sa2 la mu, Gen1.GL_N1_sm1_to1_e1 c c3 fn Fa0 Fa1 Fa2 F0 F1 F2 sa0 sa1 sa2 la mu, Gen1.GL_N1_sm1_to1_e2 c c3 fn Fa0 Fa1 Fa2 F0 F1 F2 sa0 sa1 sa2 la mu] = [(F0 * F0 - 1) / 2, (F1 * F1 - 1) / 2, (F2 * F2 - 1) / 2] := by
  simp only [gen_simp, List.cons.injEq, and_true]
  repeat' apply And.intro
  all_goals (first | exact True.intro | ring1)

theorem GL_N1_sm1_to1_stress (h0 : F0 ≠ 0) (h1 : F1 ≠ 0) (h2 : F2 ≠ 0) :
    [Gen1.GL_N1_sm1_to1_s0 c c3 fn Fa0 Fa1 Fa2 F0 F1 F2 sa0 sa1 sa2 la mu, Gen1.GL_N1_sm1_to1_s1 c c3 fn Fa0 Fa1 Fa2 F0 F1 F2 sa0 sa1 sa2 la mu, Gen1.GL_N1_sm1_to1_s2 c c3 fn Fa0 Fa1 Fa2 F0 F1 F2 sa0 sa1 sa2 la mu]
    = [(la * ((F0 * F0 - 1) / 2 + (F1 * F1 - 1) / 2 + (F2 * F2 - 1) / 2) + 2 * mu * ((F0 * F0 - 1) / 2)), (la * ((F0 * F0 - 1) / 2 + (F1 * F1 - 1) / 2 + (F2 * F2 - 1) / 2) + 2 * mu * ((F1 * F1 - 1) / 2)), (la * ((F0 * F0 - 1) / 2 + (F1 * F1 - 1) / 2 + (F2 * F2 - 1) / 2) + 2 * mu * ((F2 * F2 - 1) / 2))] := by
  simp only [gen_simp, List.cons.injEq, and_true]
  repeat' apply And.intro
  all_goals (first | exact True.intro | ring1 | (field_simp; ring1))

set_option maxHeartbeats 3200000 in
/-- the returned operator is the derivative of the returned stress -/
theorem GL_N1_sm1_to1_derivative (h0 : F0 ≠ 0) (h1 : F1 ≠ 0) (h2 : F2 ≠ 0) (hla : δ la = 0) (hmu : δ mu = 0) (hf0 : δ Fa0 = 0) (hf1 : δ Fa1 = 0) (hf2 : δ Fa2 = 0) :
    [δ (Gen1.GL_N1_sm1_to1_s0 c c3 fn Fa0 Fa1 Fa2 F0 F1 F2 sa0 sa1 sa2 la mu), δ (Gen1.GL_N1_sm1_to1_s1 c c3 fn Fa0 Fa1 Fa2 F0 F1 F2 sa0 sa1 sa2 la mu), δ (Gen1.GL_N1_sm1_to1_s2 c c3 fn Fa0 Fa1 Fa2 F0 F1 F2 sa0 sa1 sa2 la mu)]
    = [Gen1.GL_N1_sm1_to1_K0_0 c c3 fn Fa0 Fa1 Fa2 F0 F1 F2 sa0 sa1 sa2 la mu * δ ((F0 * F0 - 1) / 2) + Gen1.GL_N1_sm1_to1_K0_1 c c3 fn Fa0 Fa1 Fa2 F0 F1 F2 sa0 sa1 sa2 la mu * δ ((F1 * F1 - 1) / 2) + Gen1.GL_N1_sm1_to1_K0_2 c c3 fn Fa0 Fa1 Fa2 F0 F1 F2 sa0 sa1 sa2 la mu * δ ((F2 * F2 - 1) / 2),
       Gen1.GL_N1_sm1_to1_K1_0 c c3 fn Fa0 Fa1 Fa2 F0 F1 F2 sa0 sa1 sa2 la mu * δ ((F0 * F0 - 1) / 2) + Gen1.GL_N1_sm1_to1_K1_1 c c3 fn Fa0 Fa1 Fa2 F0 F1 F2 sa0 sa1 sa2 la mu * δ ((F1 * F1 - 1) / 2) + Gen1.GL_N1_sm1_to1_K1_2 c c3 fn Fa0 Fa1 Fa2 F0 F1 F2 sa0 sa1 sa2 la mu * δ ((F2 * F2 - 1) / 2),
       Gen1.GL_N1_sm1_to1_K2_0 c c3 fn Fa0 Fa1 Fa2 F0 F1 F2 sa0 sa1 sa2 la mu * δ ((F0 * F0 - 1) / 2) + Gen1.GL_N1_sm1_to1_K2_1 c c3 fn Fa0 Fa1 Fa2 F0 F1 F2 sa0 sa1 sa2 la mu * δ ((F1 * F1 - 1) / 2) + Gen1.GL_N1_sm1_to1_K2_2 c c3 fn Fa0 Fa1 Fa2 F0 F1 F2 sa0 sa1 sa2 la mu * δ ((F2 * F2 - 1) / 2)] := by
  have d2 : δ (2 : K) = 0 := by simpa using δ.map_natCast 2
  have d1 : δ (1 : K) = 0 := δ.map_one_eq_zero
  have d4 : δ (4 : K) = 0 := by simpa using δ.map_natCast 4
  simp only [gen_simp, Derivation.leibniz_div, Derivation.leibniz, Derivation.map_sub, Derivation.map_add, Derivation.map_neg,
    d1, d2, d4, hla, hmu, hf0, hf1, hf2, smul_eq_mul, List.cons.injEq, and_true]
  refine ⟨?_, ?_, ?_⟩ <;> (field_simp; ring1)

/-! ## GL_N1_sm2_to2: stress measure 2, flavour 2 -/
theorem GL_N1_sm2_to2_strain :
    [Gen1.GL_N1_sm2_to2_e0 c c3 fn Fa0 Fa1 Fa2 F0 F1 F2 sa0 sa1 sa2 la mu, Gen1.GL_N1_sm2_to2_e1 c c3 fn Fa0 Fa1 Fa2 F0 F1 F2 sa0 sa1 sa2 la mu, Gen1.GL_N1_sm2_to2_e2 c c3 fn Fa0 Fa1 Fa2 F0 F1 F2 sa0 sa1 sa2 la mu] = [(F0 * F0 - 1) / 2, (F1 * F1 - 1) / 2, (F2 * F2 - 1) / 2] := by
  simp only [gen_simp, List.cons.injEq, and_true]
  repeat' apply And.intro
  all_goals (first | exact True.intro | ring1)

theorem GL_N1_sm2_to2_stress (h0 : F0 ≠ 0) (h1 : F1 ≠ 0) (h2 : F2 ≠ 0) :
    [Gen1.GL_N1_sm2_to2_s0 c c3 fn Fa0 Fa1 Fa2 F0 F1 F2 sa0 sa1 sa2 la mu, Gen1.GL_N1_sm2_to2_s1 c c3 fn Fa0 Fa1 Fa2 F0 F1 F2 sa0 sa1 sa2 la mu, Gen1.GL_N1_sm2_to2_s2 c c3 fn Fa0 Fa1 Fa2 F0 F1 F2 sa0 sa1 sa2 la mu]
    = [F0 * (la * ((F0 * F0 - 1) / 2 + (F1 * F1 - 1) / 2 + (F2 * F2 - 1) / 2) + 2 * mu * ((F0 * F0 - 1) / 2)), F1 * (la * ((F0 * F0 - 1) / 2 + (F1 * F1 - 1) / 2 + (F2 * F2 - 1) / 2) + 2 * mu * ((F1 * F1 - 1) / 2)), F2 * (la * ((F0 * F0 - 1) / 2 + (F1 * F1 - 1) / 2 + (F2 * F2 - 1) / 2) + 2 * mu * ((F2 * F2 - 1) / 2))] := by
  simp only [gen_simp, List.cons.injEq, and_true]
  repeat' apply And.intro
  all_goals (first | exact True.intro | ring1 | (field_simp; ring1))

set_option maxHeartbeats 3200000 in
/-- the returned operator is the derivative of the returned stress -/
theorem GL_N1_sm2_to2_derivative (h0 : F0 ≠ 0) (h1 : F1 ≠ 0) (h2 : F2 ≠ 0) (hla : δ la = 0) (hmu : δ mu = 0) (hf0 : δ Fa0 = 0) (hf1 : δ Fa1 = 0) (hf2 : δ Fa2 = 0) :
    [δ (Gen1.GL_N1_sm2_to2_s0 c c3 fn Fa0 Fa1 Fa2 F0 F1 F2 sa0 sa1 sa2 la mu), δ (Gen1.GL_N1_sm2_to2_s1 c c3 fn Fa0 Fa1 Fa2 F0 F1 F2 sa0 sa1 sa2 la mu), δ (Gen1.GL_N1_sm2_to2_s2 c c3 fn Fa0 Fa1 Fa2 F0 F1 F2 sa0 sa1 sa2 la mu)]
    = [Gen1.GL_N1_sm2_to2_K0_0 c c3 fn Fa0 Fa1 Fa2 F0 F1 F2 sa0 sa1 sa2 la mu * δ F0 + Gen1.GL_N1_sm2_to2_K0_1 c c3 fn Fa0 Fa1 Fa2 F0 F1 F2 sa0 sa1 sa2 la mu * δ F1 + Gen1.GL_N1_sm2_to2_K0_2 c c3 fn Fa0 Fa1 Fa2 F0 F1 F2 sa0 sa1 sa2 la mu * δ F2,
       Gen1.GL_N1_sm2_to2_K1_0 c c3 fn Fa0 Fa1 Fa2 F0 F1 F2 sa0 sa1 sa2 la mu * δ F0 + Gen1.GL_N1_sm2_to2_K1_1 c c3 fn Fa0 Fa1 Fa2 F0 F1 F2 sa0 sa1 sa2 la mu * δ F1 + Gen1.GL_N1_sm2_to2_K1_2 c c3 fn Fa0 Fa1 Fa2 F0 F1 F2 sa0 sa1 sa2 la mu * δ F2,
       Gen1.GL_N1_sm2_to2_K2_0 c c3 fn Fa0 Fa1 Fa2 F0 F1 F2 sa0 sa1 sa2 la mu * δ F0 + Gen1.GL_N1_sm2_to2_K2_1 c c3 fn Fa0 Fa1 Fa2 F0 F1 F2 sa0 sa1 sa2 la mu * δ F1 + Gen1.GL_N1_sm2_to2_K2_2 c c3 fn Fa0 Fa1 Fa2 F0 F1 F2 sa0 sa1 sa2 la mu * δ F2] := by
  have d2 : δ (2 : K) = 0 := by simpa using δ.map_natCast 2
  have d1 : δ (1 : K) = 0 := δ.map_one_eq_zero
  have d4 : δ (4 : K) = 0 := by simpa using δ.map_natCast 4
  simp only [gen_simp, Derivation.leibniz_div, Derivation.leibniz, Derivation.map_sub, Derivation.map_add, Derivation.map_neg,
    d1, d2, d4, hla, hmu, hf0, hf1, hf2, smul_eq_mul, List.cons.injEq, and_true]
  refine ⟨?_, ?_, ?_⟩ <;> (field_simp; ring1)

/-! ## GL_N1_sm0_to3: stress measure 0, flavour 3 -/
theorem GL_N1_sm0_to3_strain :
    [Gen1.GL_N1_sm0_to3_e0 c c3 fn Fa0 Fa1 Fa2 F0 F1 F2 sa0 sa1 sa2 la mu, Gen1.GL_N1_sm0_to3_e1 c c3 fn Fa0 Fa1 Fa2 F0 F1 F2 sa0 sa1 sa2 la mu, Gen1.GL_N1_sm0_to3_e2 c c3 fn Fa0 Fa1 Fa2 F0 F1 F2 sa0 sa1 sa2 la mu] = [(F0 * F0 - 1) / 2, (F1 * F1 - 1) / 2, (F2 * F2 - 1) / 2] := by
  simp only [gen_simp, List.cons.injEq, and_true]
  repeat' apply And.intro
  all_goals (first | exact True.intro | ring1)

theorem GL_N1_sm0_to3_stress (h0 : F0 ≠ 0) (h1 : F1 ≠ 0) (h2 : F2 ≠ 0) :
    [Gen1.GL_N1_sm0_to3_s0 c c3 fn Fa0 Fa1 Fa2 F0 F1 F2 sa0 sa1 sa2 la mu, Gen1.GL_N1_sm0_to3_s1 c c3 fn Fa0 Fa1 Fa2 F0 F1 F2 sa0 sa1 sa2 la mu, Gen1.GL_N1_sm0_to3_s2 c c3 fn Fa0 Fa1 Fa2 F0 F1 F2 sa0 sa1 sa2 la mu]
    = [(la * ((F0 * F0 - 1) / 2 + (F1 * F1 - 1) / 2 + (F2 * F2 - 1) / 2) + 2 * mu * ((F0 * F0 - 1) / 2)) * (F0 * F0) / (F0 * F1 * F2), (la * ((F0 * F0 - 1) / 2 + (F1 * F1 - 1) / 2 + (F2 * F2 - 1) / 2) + 2 * mu * ((F1 * F1 - 1) / 2)) * (F1 * F1) / (F0 * F1 * F2), (la * ((F0 * F0 - 1) / 2 + (F1 * F1 - 1) / 2 + (F2 * F2 - 1) / 2) + 2 * mu * ((F2 * F2 - 1) / 2)) * (F2 * F2) / (F0 * F1 * F2)] := by
  simp only [gen_simp, List.cons.injEq, and_true]
  repeat' apply And.intro
  all_goals (first | exact True.intro | ring1 | (field_simp; ring1))

set_option maxHeartbeats 3200000 in
/-- the returned operator is the derivative of the returned stress -/
theorem GL_N1_sm0_to3_derivative (h0 : F0 ≠ 0) (h1 : F1 ≠ 0) (h2 : F2 ≠ 0) (hla : δ la = 0) (hmu : δ mu = 0) (ha0 : Fa0 ≠ 0) (ha1 : Fa1 ≠ 0) (ha2 : Fa2 ≠ 0) (hf0 : δ Fa0 = 0) (hf1 : δ Fa1 = 0) (hf2 : δ Fa2 = 0) :
    [δ ((F0 * F1 * F2) * (Gen1.GL_N1_sm0_to3_s0 c c3 fn Fa0 Fa1 Fa2 F0 F1 F2 sa0 sa1 sa2 la mu)), δ ((F0 * F1 * F2) * (Gen1.GL_N1_sm0_to3_s1 c c3 fn Fa0 Fa1 Fa2 F0 F1 F2 sa0 sa1 sa2 la mu)), δ ((F0 * F1 * F2) * (Gen1.GL_N1_sm0_to3_s2 c c3 fn Fa0 Fa1 Fa2 F0 F1 F2 sa0 sa1 sa2 la mu))]
    = [Gen1.GL_N1_sm0_to3_K0_0 c c3 fn Fa0 Fa1 Fa2 F0 F1 F2 sa0 sa1 sa2 la mu * δ (F0 / Fa0) + Gen1.GL_N1_sm0_to3_K0_1 c c3 fn Fa0 Fa1 Fa2 F0 F1 F2 sa0 sa1 sa2 la mu * δ (F1 / Fa1) + Gen1.GL_N1_sm0_to3_K0_2 c c3 fn Fa0 Fa1 Fa2 F0 F1 F2 sa0 sa1 sa2 la mu * δ (F2 / Fa2),
       Gen1.GL_N1_sm0_to3_K1_0 c c3 fn Fa0 Fa1 Fa2 F0 F1 F2 sa0 sa1 sa2 la mu * δ (F0 / Fa0) + Gen1.GL_N1_sm0_to3_K1_1 c c3 fn Fa0 Fa1 Fa2 F0 F1 F2 sa0 sa1 sa2 la mu * δ (F1 / Fa1) + Gen1.GL_N1_sm0_to3_K1_2 c c3 fn Fa0 Fa1 Fa2 F0 F1 F2 sa0 sa1 sa2 la mu * δ (F2 / Fa2),
       Gen1.GL_N1_sm0_to3_K2_0 c c3 fn Fa0 Fa1 Fa2 F0 F1 F2 sa0 sa1 sa2 la mu * δ (F0 / Fa0) + Gen1.GL_N1_sm0_to3_K2_1 c c3 fn Fa0 Fa1 Fa2 F0 F1 F2 sa0 sa1 sa2 la mu * δ (F1 / Fa1) + Gen1.GL_N1_sm0_to3_K2_2 c c3 fn Fa0 Fa1 Fa2 F0 F1 F2 sa0 sa1 sa2 la mu * δ (F2 / Fa2)] := by
  have d2 : δ (2 : K) = 0 := by simpa using δ.map_natCast 2
  have d1 : δ (1 : K) = 0 := δ.map_one_eq_zero
  have d4 : δ (4 : K) = 0 := by simpa using δ.map_natCast 4
  simp only [gen_simp, Derivation.leibniz_div, Derivation.leibniz, Derivation.map_sub, Derivation.map_add, Derivation.map_neg,
    d1, d2, d4, hla, hmu, hf0, hf1, hf2, smul_eq_mul, List.cons.injEq, and_true]
  refine ⟨?_, ?_, ?_⟩ <;> (field_simp; ring1)

/-! ## HK_N1_sm0_to0: stress measure 0, flavour 0 -/
theorem HK_N1_sm0_to0_strain :
    [Gen1.HK_N1_sm0_to0_e0 c c3 fn Fa0 Fa1 Fa2 F0 F1 F2 sa0 sa1 sa2 la mu vpa0 vpa1 vpa2 ma00 ma01 ma10 ma11 vp0 vp1 vp2 m00 m01 m10 m11, Gen1.HK_N1_sm0_to0_e1 c c3 fn Fa0 Fa1 Fa2 F0 F1 F2 sa0 sa1 sa2 la mu vpa0 vpa1 vpa2 ma00 ma01 ma10 ma11 vp0 vp1 vp2 m00 m01 m10 m11, Gen1.HK_N1_sm0_to0_e2 c c3 fn Fa0 Fa1 Fa2 F0 F1 F2 sa0 sa1 sa2 la mu vpa0 vpa1 vpa2 ma00 ma01 ma10 ma11 vp0 vp1 vp2 m00 m01 m10 m11] = [fn.log F0, fn.log F1, fn.log F2] := by
  simp only [gen_simp, List.cons.injEq, and_true]
  repeat' apply And.intro
  all_goals (first | exact True.intro | ring1)

theorem HK_N1_sm0_to0_stress (h0 : F0 ≠ 0) (h1 : F1 ≠ 0) (h2 : F2 ≠ 0) :
    [Gen1.HK_N1_sm0_to0_s0 c c3 fn Fa0 Fa1 Fa2 F0 F1 F2 sa0 sa1 sa2 la mu vpa0 vpa1 vpa2 ma00 ma01 ma10 ma11 vp0 vp1 vp2 m00 m01 m10 m11, Gen1.HK_N1_sm0_to0_s1 c c3 fn Fa0 Fa1 Fa2 F0 F1 F2 sa0 sa1 sa2 la mu vpa0 vpa1 vpa2 ma00 ma01 ma10 ma11 vp0 vp1 vp2 m00 m01 m10 m11, Gen1.HK_N1_sm0_to0_s2 c c3 fn Fa0 Fa1 Fa2 F0 F1 F2 sa0 sa1 sa2 la mu vpa0 vpa1 vpa2 ma00 ma01 ma10 ma11 vp0 vp1 vp2 m00 m01 m10 m11]
    = [(la * (fn.log F0 + fn.log F1 + fn.log F2) + 2 * mu * (fn.log F0)) / (F0 * F1 * F2), (la * (fn.log F0 + fn.log F1 + fn.log F2) + 2 * mu * (fn.log F1)) / (F0 * F1 * F2), (la * (fn.log F0 + fn.log F1 + fn.log F2) + 2 * mu * (fn.log F2)) / (F0 * F1 * F2)] := by
  simp only [gen_simp, List.cons.injEq, and_true]
  repeat' apply And.intro
  all_goals (first | exact True.intro | ring1 | (field_simp; ring1))

set_option maxHeartbeats 3200000 in
/-- the returned operator is the derivative of the returned stress -/
theorem HK_N1_sm0_to0_derivative (h0 : F0 ≠ 0) (h1 : F1 ≠ 0) (h2 : F2 ≠ 0) (hla : δ la = 0) (hmu : δ mu = 0) (hf0 : δ Fa0 = 0) (hf1 : δ Fa1 = 0) (hf2 : δ Fa2 = 0)
    (hl0 : δ (fn.log F0) = δ F0 / F0) (hl1 : δ (fn.log F1) = δ F1 / F1) (hl2 : δ (fn.log F2) = δ F2 / F2)
    (hla0 : δ (fn.log Fa0) = 0) (hla1 : δ (fn.log Fa1) = 0) (hla2 : δ (fn.log Fa2) = 0) :
    [δ (Gen1.HK_N1_sm0_to0_s0 c c3 fn Fa0 Fa1 Fa2 F0 F1 F2 sa0 sa1 sa2 la mu vpa0 vpa1 vpa2 ma00 ma01 ma10 ma11 vp0 vp1 vp2 m00 m01 m10 m11), δ (Gen1.HK_N1_sm0_to0_s1 c c3 fn Fa0 Fa1 Fa2 F0 F1 F2 sa0 sa1 sa2 la mu vpa0 vpa1 vpa2 ma00 ma01 ma10 ma11 vp0 vp1 vp2 m00 m01 m10 m11), δ (Gen1.HK_N1_sm0_to0_s2 c c3 fn Fa0 Fa1 Fa2 F0 F1 F2 sa0 sa1 sa2 la mu vpa0 vpa1 vpa2 ma00 ma01 ma10 ma11 vp0 vp1 vp2 m00 m01 m10 m11)]
    = [Gen1.HK_N1_sm0_to0_K0_0 c c3 fn Fa0 Fa1 Fa2 F0 F1 F2 sa0 sa1 sa2 la mu vpa0 vpa1 vpa2 ma00 ma01 ma10 ma11 vp0 vp1 vp2 m00 m01 m10 m11 * δ F0 + Gen1.HK_N1_sm0_to0_K0_1 c c3 fn Fa0 Fa1 Fa2 F0 F1 F2 sa0 sa1 sa2 la mu vpa0 vpa1 vpa2 ma00 ma01 ma10 ma11 vp0 vp1 vp2 m00 m01 m10 m11 * δ F1 + Gen1.HK_N1_sm0_to0_K0_2 c c3 fn Fa0 Fa1 Fa2 F0 F1 F2 sa0 sa1 sa2 la mu vpa0 vpa1 vpa2 ma00 ma01 ma10 ma11 vp0 vp1 vp2 m00 m01 m10 m11 * δ F2,
       Gen1.HK_N1_sm0_to0_K1_0 c c3 fn Fa0 Fa1 Fa2 F0 F1 F2 sa0 sa1 sa2 la mu vpa0 vpa1 vpa2 ma00 ma01 ma10 ma11 vp0 vp1 vp2 m00 m01 m10 m11 * δ F0 + Gen1.HK_N1_sm0_to0_K1_1 c c3 fn Fa0 Fa1 Fa2 F0 F1 F2 sa0 sa1 sa2 la mu vpa0 vpa1 vpa2 ma00 ma01 ma10 ma11 vp0 vp1 vp2 m00 m01 m10 m11 * δ F1 + Gen1.HK_N1_sm0_to0_K1_2 c c3 fn Fa0 Fa1 Fa2 F0 F1 F2 sa0 sa1 sa2 la mu vpa0 vpa1 vpa2 ma00 ma01 ma10 ma11 vp0 vp1 vp2 m00 m01 m10 m11 * δ F2,
       Gen1.HK_N1_sm0_to0_K2_0 c c3 fn Fa0 Fa1 Fa2 F0 F1 F2 sa0 sa1 sa2 la mu vpa0 vpa1 vpa2 ma00 ma01 ma10 ma11 vp0 vp1 vp2 m00 m01 m10 m11 * δ F0 + Gen1.HK_N1_sm0_to0_K2_1 c c3 fn Fa0 Fa1 Fa2 F0 F1 F2 sa0 sa1 sa2 la mu vpa0 vpa1 vpa2 ma00 ma01 ma10 ma11 vp0 vp1 vp2 m00 m01 m10 m11 * δ F1 + Gen1.HK_N1_sm0_to0_K2_2 c c3 fn Fa0 Fa1 Fa2 F0 F1 F2 sa0 sa1 sa2 la mu vpa0 vpa1 vpa2 ma00 ma01 ma10 ma11 vp0 vp1 vp2 m00 m01 m10 m11 * δ F2] := by
  have d2 : δ (2 : K) = 0 := by simpa using δ.map_natCast 2
  have d1 : δ (1 : K) = 0 := δ.map_one_eq_zero
  have d4 : δ (4 : K) = 0 := by simpa using δ.map_natCast 4
  simp only [gen_simp, Derivation.leibniz_div, Derivation.leibniz, Derivation.map_sub, Derivation.map_add, Derivation.map_neg,
    d1, d2, d4, hla, hmu, hf0, hf1, hf2, hl0, hl1, hl2, hla0, hla1, hla2, smul_eq_mul, List.cons.injEq, and_true]
  refine ⟨?_, ?_, ?_⟩ <;> (field_simp; ring1)

/-! ## HK_N1_sm1_to1: stress measure 1, flavour 1 -/
theorem HK_N1_sm1_to1_strain :
    [Gen1.HK_N1_sm1_to1_e0 c c3 fn Fa0 Fa1 Fa2 F0 F1 F2 sa0 sa1 sa2 la mu vpa0 vpa1 vpa2 ma00 ma01 ma10 ma11 vp0 vp1 vp2 m00 m01 m10 m11, Gen1.HK_N1_sm1_to1_e1 c c3 fn Fa0 Fa1 Fa2 F0 F1 F2 sa0 sa1 sa2 la mu vpa0 vpa1 vpa2 ma00 ma01 ma10 ma11 vp0 vp1 vp2 m00 m01 m10 m11, Gen1.HK_N1_sm1_to1_e2 c c3 fn Fa0 Fa1 Fa2 F0 F1 F2 sa0 sa1 sa2 la mu vpa0 vpa1 vpa2 ma00 ma01 ma10 ma11 vp0 vp1 vp2 m00 m01 m10 m11] = [fn.log F0, fn.log F1, fn.log F2] := by
  simp only [gen_simp, List.cons.injEq, and_true]
  repeat' apply And.intro
  all_goals (first | exact True.intro | ring1)

theorem HK_N1_sm1_to1_stress (h0 : F0 ≠ 0) (h1 : F1 ≠ 0) (h2 : F2 ≠ 0) :
    [Gen1.HK_N1_sm1_to1_s0 c c3 fn Fa0 Fa1 Fa2 F0 F1 F2 sa0 sa1 sa2 la mu vpa0 vpa1 vpa2 ma00 ma01 ma10 ma11 vp0 vp1 vp2 m00 m01 m10 m11, Gen1.HK_N1_sm1_to1_s1 c c3 fn Fa0 Fa1 Fa2 F0 F1 F2 sa0 sa1 sa2 la mu vpa0 vpa1 vpa2 ma00 ma01 ma10 ma11 vp0 vp1 vp2 m00 m01 m10 m11, Gen1.HK_N1_sm1_to1_s2 c c3 fn Fa0 Fa1 Fa2 F0 F1 F2 sa0 sa1 sa2 la mu vpa0 vpa1 vpa2 ma00 ma01 ma10 ma11 vp0 vp1 vp2 m00 m01 m10 m11]
    = [(la * (fn.log F0 + fn.log F1 + fn.log F2) + 2 * mu * (fn.log F0)) / (F0 * F0), (la * (fn.log F0 + fn.log F1 + fn.log F2) + 2 * mu * (fn.log F1)) / (F1 * F1), (la * (fn.log F0 + fn.log F1 + fn.log F2) + 2 * mu * (fn.log F2)) / (F2 * F2)] := by
  simp only [gen_simp, List.cons.injEq, and_true]
  repeat' apply And.intro
  all_goals (first | exact True.intro | ring1 | (field_simp; ring1))

set_option maxHeartbeats 3200000 in
/-- the returned operator is the derivative of the returned stress -/
theorem HK_N1_sm1_to1_derivative (h0 : F0 ≠ 0) (h1 : F1 ≠ 0) (h2 : F2 ≠ 0) (hla : δ la = 0) (hmu : δ mu = 0) (hf0 : δ Fa0 = 0) (hf1 : δ Fa1 = 0) (hf2 : δ Fa2 = 0)
    (hl0 : δ (fn.log F0) = δ F0 / F0) (hl1 : δ (fn.log F1) = δ F1 / F1) (hl2 : δ (fn.log F2) = δ F2 / F2)
    (hla0 : δ (fn.log Fa0) = 0) (hla1 : δ (fn.log Fa1) = 0) (hla2 : δ (fn.log Fa2) = 0) :
    [δ (Gen1.HK_N1_sm1_to1_s0 c c3 fn Fa0 Fa1 Fa2 F0 F1 F2 sa0 sa1 sa2 la mu vpa0 vpa1 vpa2 ma00 ma01 ma10 ma11 vp0 vp1 vp2 m00 m01 m10 m11), δ (Gen1.HK_N1_sm1_to1_s1 c c3 fn Fa0 Fa1 Fa2 F0 F1 F2 sa0 sa1 sa2 la mu vpa0 vpa1 vpa2 ma00 ma01 ma10 ma11 vp0 vp1 vp2 m00 m01 m10 m11), δ (Gen1.HK_N1_sm1_to1_s2 c c3 fn Fa0 Fa1 Fa2 F0 F1 F2 sa0 sa1 sa2 la mu vpa0 vpa1 vpa2 ma00 ma01 ma10 ma11 vp0 vp1 vp2 m00 m01 m10 m11)]
    = [Gen1.HK_N1_sm1_to1_K0_0 c c3 fn Fa0 Fa1 Fa2 F0 F1 F2 sa0 sa1 sa2 la mu vpa0 vpa1 vpa2 ma00 ma01 ma10 ma11 vp0 vp1 vp2 m00 m01 m10 m11 * δ ((F0 * F0 - 1) / 2) + Gen1.HK_N1_sm1_to1_K0_1 c c3 fn Fa0 Fa1 Fa2 F0 F1 F2 sa0 sa1 sa2 la mu vpa0 vpa1 vpa2 ma00 ma01 ma10 ma11 vp0 vp1 vp2 m00 m01 m10 m11 * δ ((F1 * F1 - 1) / 2) + Gen1.HK_N1_sm1_to1_K0_2 c c3 fn Fa0 Fa1 Fa2 F0 F1 F2 sa0 sa1 sa2 la mu vpa0 vpa1 vpa2 ma00 ma01 ma10 ma11 vp0 vp1 vp2 m00 m01 m10 m11 * δ ((F2 * F2 - 1) / 2),
       Gen1.HK_N1_sm1_to1_K1_0 c c3 fn Fa0 Fa1 Fa2 F0 F1 F2 sa0 sa1 sa2 la mu vpa0 vpa1 vpa2 ma00 ma01 ma10 ma11 vp0 vp1 vp2 m00 m01 m10 m11 * δ ((F0 * F0 - 1) / 2) + Gen1.HK_N1_sm1_to1_K1_1 c c3 fn Fa0 Fa1 Fa2 F0 F1 F2 sa0 sa1 sa2 la mu vpa0 vpa1 vpa2 ma00 ma01 ma10 ma11 vp0 vp1 vp2 m00 m01 m10 m11 * δ ((F1 * F1 - 1) / 2) + Gen1.HK_N1_sm1_to1_K1_2 c c3 fn Fa0 Fa1 Fa2 F0 F1 F2 sa0 sa1 sa2 la mu vpa0 vpa1 vpa2 ma00 ma01 ma10 ma11 vp0 vp1 vp2 m00 m01 m10 m11 * δ ((F2 * F2 - 1) / 2),
       Gen1.HK_N1_sm1_to1_K2_0 c c3 fn Fa0 Fa1 Fa2 F0 F1 F2 sa0 sa1 sa2 la mu vpa0 vpa1 vpa2 ma00 ma01 ma10 ma11 vp0 vp1 vp2 m00 m01 m10 m11 * δ ((F0 * F0 - 1) / 2) + Gen1.HK_N1_sm1_to1_K2_1 c c3 fn Fa0 Fa1 Fa2 F0 F1 F2 sa0 sa1 sa2 la mu vpa0 vpa1 vpa2 ma00 ma01 ma10 ma11 vp0 vp1 vp2 m00 m01 m10 m11 * δ ((F1 * F1 - 1) / 2) + Gen1.HK_N1_sm1_to1_K2_2 c c3 fn Fa0 Fa1 Fa2 F0 F1 F2 sa0 sa1 sa2 la mu vpa0 vpa1 vpa2 ma00 ma01 ma10 ma11 vp0 vp1 vp2 m00 m01 m10 m11 * δ ((F2 * F2 - 1) / 2)] := by
  have d2 : δ (2 : K) = 0 := by simpa using δ.map_natCast 2
  have d1 : δ (1 : K) = 0 := δ.map_one_eq_zero
  have d4 : δ (4 : K) = 0 := by simpa using δ.map_natCast 4
  simp only [gen_simp, Derivation.leibniz_div, Derivation.leibniz, Derivation.map_sub, Derivation.map_add, Derivation.map_neg,
    d1, d2, d4, hla, hmu, hf0, hf1, hf2, hl0, hl1, hl2, hla0, hla1, hla2, smul_eq_mul, List.cons.injEq, and_true]
  refine ⟨?_, ?_, ?_⟩ <;> (field_simp; ring1)

/-! ## HK_N1_sm2_to2: stress measure 2, flavour 2 -/
theorem HK_N1_sm2_to2_strain :
    [Gen1.HK_N1_sm2_to2_e0 c c3 fn Fa0 Fa1 Fa2 F0 F1 F2 sa0 sa1 sa2 la mu vpa0 vpa1 vpa2 ma00 ma01 ma10 ma11 vp0 vp1 vp2 m00 m01 m10 m11, Gen1.HK_N1_sm2_to2_e1 c c3 fn Fa0 Fa1 Fa2 F0 F1 F2 sa0 sa1 sa2 la mu vpa0 vpa1 vpa2 ma00 ma01 ma10 ma11 vp0 vp1 vp2 m00 m01 m10 m11, Gen1.HK_N1_sm2_to2_e2 c c3 fn Fa0 Fa1 Fa2 F0 F1 F2 sa0 sa1 sa2 la mu vpa0 vpa1 vpa2 ma00 ma01 ma10 ma11 vp0 vp1 vp2 m00 m01 m10 m11] = [fn.log F0, fn.log F1, fn.log F2] := by
  simp only [gen_simp, List.cons.injEq, and_true]
  repeat' apply And.intro
  all_goals (first | exact True.intro | ring1)

theorem HK_N1_sm2_to2_stress (h0 : F0 ≠ 0) (h1 : F1 ≠ 0) (h2 : F2 ≠ 0) :
    [Gen1.HK_N1_sm2_to2_s0 c c3 fn Fa0 Fa1 Fa2 F0 F1 F2 sa0 sa1 sa2 la mu vpa0 vpa1 vpa2 ma00 ma01 ma10 ma11 vp0 vp1 vp2 m00 m01 m10 m11, Gen1.HK_N1_sm2_to2_s1 c c3 fn Fa0 Fa1 Fa2 F0 F1 F2 sa0 sa1 sa2 la mu vpa0 vpa1 vpa2 ma00 ma01 ma10 ma11 vp0 vp1 vp2 m00 m01 m10 m11, Gen1.HK_N1_sm2_to2_s2 c c3 fn Fa0 Fa1 Fa2 F0 F1 F2 sa0 sa1 sa2 la mu vpa0 vpa1 vpa2 ma00 ma01 ma10 ma11 vp0 vp1 vp2 m00 m01 m10 m11]
    = [(la * (fn.log F0 + fn.log F1 + fn.log F2) + 2 * mu * (fn.log F0)) / F0, (la * (fn.log F0 + fn.log F1 + fn.log F2) + 2 * mu * (fn.log F1)) / F1, (la * (fn.log F0 + fn.log F1 + fn.log F2) + 2 * mu * (fn.log F2)) / F2] := by
  simp only [gen_simp, List.cons.injEq, and_true]
  repeat' apply And.intro
  all_goals (first | exact True.intro | ring1 | (field_simp; ring1))

set_option maxHeartbeats 3200000 in
/-- the returned operator is the derivative of the returned stress -/
theorem HK_N1_sm2_to2_derivative (h0 : F0 ≠ 0) (h1 : F1 ≠ 0) (h2 : F2 ≠ 0) (hla : δ la = 0) (hmu : δ mu = 0) (hf0 : δ Fa0 = 0) (hf1 : δ Fa1 = 0) (hf2 : δ Fa2 = 0)
    (hl0 : δ (fn.log F0) = δ F0 / F0) (hl1 : δ (fn.log F1) = δ F1 / F1) (hl2 : δ (fn.log F2) = δ F2 / F2)
    (hla0 : δ (fn.log Fa0) = 0) (hla1 : δ (fn.log Fa1) = 0) (hla2 : δ (fn.log Fa2) = 0) :
    [δ (Gen1.HK_N1_sm2_to2_s0 c c3 fn Fa0 Fa1 Fa2 F0 F1 F2 sa0 sa1 sa2 la mu vpa0 vpa1 vpa2 ma00 ma01 ma10 ma11 vp0 vp1 vp2 m00 m01 m10 m11), δ (Gen1.HK_N1_sm2_to2_s1 c c3 fn Fa0 Fa1 Fa2 F0 F1 F2 sa0 sa1 sa2 la mu vpa0 vpa1 vpa2 ma00 ma01 ma10 ma11 vp0 vp1 vp2 m00 m01 m10 m11), δ (Gen1.HK_N1_sm2_to2_s2 c c3 fn Fa0 Fa1 Fa2 F0 F1 F2 sa0 sa1 sa2 la mu vpa0 vpa1 vpa2 ma00 ma01 ma10 ma11 vp0 vp1 vp2 m00 m01 m10 m11)]
    = [Gen1.HK_N1_sm2_to2_K0_0 c c3 fn Fa0 Fa1 Fa2 F0 F1 F2 sa0 sa1 sa2 la mu vpa0 vpa1 vpa2 ma00 ma01 ma10 ma11 vp0 vp1 vp2 m00 m01 m10 m11 * δ F0 + Gen1.HK_N1_sm2_to2_K0_1 c c3 fn Fa0 Fa1 Fa2 F0 F1 F2 sa0 sa1 sa2 la mu vpa0 vpa1 vpa2 ma00 ma01 ma10 ma11 vp0 vp1 vp2 m00 m01 m10 m11 * δ F1 + Gen1.HK_N1_sm2_to2_K0_2 c c3 fn Fa0 Fa1 Fa2 F0 F1 F2 sa0 sa1 sa2 la mu vpa0 vpa1 vpa2 ma00 ma01 ma10 ma11 vp0 vp1 vp2 m00 m01 m10 m11 * δ F2,
       Gen1.HK_N1_sm2_to2_K1_0 c c3 fn Fa0 Fa1 Fa2 F0 F1 F2 sa0 sa1 sa2 la mu vpa0 vpa1 vpa2 ma00 ma01 ma10 ma11 vp0 vp1 vp2 m00 m01 m10 m11 * δ F0 + Gen1.HK_N1_sm2_to2_K1_1 c c3 fn Fa0 Fa1 Fa2 F0 F1 F2 sa0 sa1 sa2 la mu vpa0 vpa1 vpa2 ma00 ma01 ma10 ma11 vp0 vp1 vp2 m00 m01 m10 m11 * δ F1 + Gen1.HK_N1_sm2_to2_K1_2 c c3 fn Fa0 Fa1 Fa2 F0 F1 F2 sa0 sa1 sa2 la mu vpa0 vpa1 vpa2 ma00 ma01 ma10 ma11 vp0 vp1 vp2 m00 m01 m10 m11 * δ F2,
       Gen1.HK_N1_sm2_to2_K2_0 c c3 fn Fa0 Fa1 Fa2 F0 F1 F2 sa0 sa1 sa2 la mu vpa0 vpa1 vpa2 ma00 ma01 ma10 ma11 vp0 vp1 vp2 m00 m01 m10 m11 * δ F0 + Gen1.HK_N1_sm2_to2_K2_1 c c3 fn Fa0 Fa1 Fa2 F0 F1 F2 sa0 sa1 sa2 la mu vpa0 vpa1 vpa2 ma00 ma01 ma10 ma11 vp0 vp1 vp2 m00 m01 m10 m11 * δ F1 + Gen1.HK_N1_sm2_to2_K2_2 c c3 fn Fa0 Fa1 Fa2 F0 F1 F2 sa0 sa1 sa2 la mu vpa0 vpa1 vpa2 ma00 ma01 ma10 ma11 vp0 vp1 vp2 m00 m01 m10 m11 * δ F2] := by
  have d2 : δ (2 : K) = 0 := by simpa using δ.map_natCast 2
  have d1 : δ (1 : K) = 0 := δ.map_one_eq_zero
  have d4 : δ (4 : K) = 0 := by simpa using δ.map_natCast 4
  simp only [gen_simp, Derivation.leibniz_div, Derivation.leibniz, Derivation.map_sub, Derivation.map_add, Derivation.map_neg,
    d1, d2, d4, hla, hmu, hf0, hf1, hf2, hl0, hl1, hl2, hla0, hla1, hla2, smul_eq_mul, List.cons.injEq, and_true]
  refine ⟨?_, ?_, ?_⟩ <;> (field_simp; ring1)

/-! ## HK_N1_sm0_to3: stress measure 0, flavour 3 -/
theorem HK_N1_sm0_to3_strain :
    [Gen1.HK_N1_sm0_to3_e0 c c3 fn Fa0 Fa1 Fa2 F0 F1 F2 sa0 sa1 sa2 la mu vpa0 vpa1 vpa2 ma00 ma01 ma10 ma11 vp0 vp1 vp2 m00 m01 m10 m11, Gen1.HK_N1_sm0_to3_e1 c c3 fn Fa0 Fa1 Fa2 F0 F1 F2 sa0 sa1 sa2 la mu vpa0 vpa1 vpa2 ma00 ma01 ma10 ma11 vp0 vp1 vp2 m00 m01 m10 m11, Gen1.HK_N1_sm0_to3_e2 c c3 fn Fa0 Fa1 Fa2 F0 F1 F2 sa0 sa1 sa2 la mu vpa0 vpa1 vpa2 ma00 ma01 ma10 ma11 vp0 vp1 vp2 m00 m01 m10 m11] = [fn.log F0, fn.log F1, fn.log F2] := by
  simp only [gen_simp, List.cons.injEq, and_true]
  repeat' apply And.intro
  all_goals (first | exact True.intro | ring1)

theorem HK_N1_sm0_to3_stress (h0 : F0 ≠ 0) (h1 : F1 ≠ 0) (h2 : F2 ≠ 0) :
    [Gen1.HK_N1_sm0_to3_s0 c c3 fn Fa0 Fa1 Fa2 F0 F1 F2 sa0 sa1 sa2 la mu vpa0 vpa1 vpa2 ma00 ma01 ma10 ma11 vp0 vp1 vp2 m00 m01 m10 m11, Gen1.HK_N1_sm0_to3_s1 c c3 fn Fa0 Fa1 Fa2 F0 F1 F2 sa0 sa1 sa2 la mu vpa0 vpa1 vpa2 ma00 ma01 ma10 ma11 vp0 vp1 vp2 m00 m01 m10 m11, Gen1.HK_N1_sm0_to3_s2 c c3 fn Fa0 Fa1 Fa2 F0 F1 F2 sa0 sa1 sa2 la mu vpa0 vpa1 vpa2 ma00 ma01 ma10 ma11 vp0 vp1 vp2 m00 m01 m10 m11]
    = [(la * (fn.log F0 + fn.log F1 + fn.log F2) + 2 * mu * (fn.log F0)) / (F0 * F1 * F2), (la * (fn.log F0 + fn.log F1 + fn.log F2) + 2 * mu * (fn.log F1)) / (F0 * F1 * F2), (la * (fn.log F0 + fn.log F1 + fn.log F2) + 2 * mu * (fn.log F2)) / (F0 * F1 * F2)] := by
  simp only [gen_simp, List.cons.injEq, and_true]
  repeat' apply And.intro
  all_goals (first | exact True.intro | ring1 | (field_simp; ring1))

set_option maxHeartbeats 3200000 in
/-- the returned operator is the derivative of the returned stress -/
theorem HK_N1_sm0_to3_derivative (h0 : F0 ≠ 0) (h1 : F1 ≠ 0) (h2 : F2 ≠ 0) (hla : δ la = 0) (hmu : δ mu = 0) (ha0 : Fa0 ≠ 0) (ha1 : Fa1 ≠ 0) (ha2 : Fa2 ≠ 0) (hf0 : δ Fa0 = 0) (hf1 : δ Fa1 = 0) (hf2 : δ Fa2 = 0)
    (hl0 : δ (fn.log F0) = δ F0 / F0) (hl1 : δ (fn.log F1) = δ F1 / F1) (hl2 : δ (fn.log F2) = δ F2 / F2)
    (hla0 : δ (fn.log Fa0) = 0) (hla1 : δ (fn.log Fa1) = 0) (hla2 : δ (fn.log Fa2) = 0) :
    [δ ((F0 * F1 * F2) * (Gen1.HK_N1_sm0_to3_s0 c c3 fn Fa0 Fa1 Fa2 F0 F1 F2 sa0 sa1 sa2 la mu vpa0 vpa1 vpa2 ma00 ma01 ma10 ma11 vp0 vp1 vp2 m00 m01 m10 m11)), δ ((F0 * F1 * F2) * (Gen1.HK_N1_sm0_to3_s1 c c3 fn Fa0 Fa1 Fa2 F0 F1 F2 sa0 sa1 sa2 la mu vpa0 vpa1 vpa2 ma00 ma01 ma10 ma11 vp0 vp1 vp2 m00 m01 m10 m11)), δ ((F0 * F1 * F2) * (Gen1.HK_N1_sm0_to3_s2 c c3 fn Fa0 Fa1 Fa2 F0 F1 F2 sa0 sa1 sa2 la mu vpa0 vpa1 vpa2 ma00 ma01 ma10 ma11 vp0 vp1 vp2 m00 m01 m10 m11))]
    = [Gen1.HK_N1_sm0_to3_K0_0 c c3 fn Fa0 Fa1 Fa2 F0 F1 F2 sa0 sa1 sa2 la mu vpa0 vpa1 vpa2 ma00 ma01 ma10 ma11 vp0 vp1 vp2 m00 m01 m10 m11 * δ (F0 / Fa0) + Gen1.HK_N1_sm0_to3_K0_1 c c3 fn Fa0 Fa1 Fa2 F0 F1 F2 sa0 sa1 sa2 la mu vpa0 vpa1 vpa2 ma00 ma01 ma10 ma11 vp0 vp1 vp2 m00 m01 m10 m11 * δ (F1 / Fa1) + Gen1.HK_N1_sm0_to3_K0_2 c c3 fn Fa0 Fa1 Fa2 F0 F1 F2 sa0 sa1 sa2 la mu vpa0 vpa1 vpa2 ma00 ma01 ma10 ma11 vp0 vp1 vp2 m00 m01 m10 m11 * δ (F2 / Fa2),
       Gen1.HK_N1_sm0_to3_K1_0 c c3 fn Fa0 Fa1 Fa2 F0 F1 F2 sa0 sa1 sa2 la mu vpa0 vpa1 vpa2 ma00 ma01 ma10 ma11 vp0 vp1 vp2 m00 m01 m10 m11 * δ (F0 / Fa0) + Gen1.HK_N1_sm0_to3_K1_1 c c3 fn Fa0 Fa1 Fa2 F0 F1 F2 sa0 sa1 sa2 la mu vpa0 vpa1 vpa2 ma00 ma01 ma10 ma11 vp0 vp1 vp2 m00 m01 m10 m11 * δ (F1 / Fa1) + Gen1.HK_N1_sm0_to3_K1_2 c c3 fn Fa0 Fa1 Fa2 F0 F1 F2 sa0 sa1 sa2 la mu vpa0 vpa1 vpa2 ma00 ma01 ma10 ma11 vp0 vp1 vp2 m00 m01 m10 m11 * δ (F2 / Fa2),
       Gen1.HK_N1_sm0_to3_K2_0 c c3 fn Fa0 Fa1 Fa2 F0 F1 F2 sa0 sa1 sa2 la mu vpa0 vpa1 vpa2 ma00 ma01 ma10 ma11 vp0 vp1 vp2 m00 m01 m10 m11 * δ (F0 / Fa0) + Gen1.HK_N1_sm0_to3_K2_1 c c3 fn Fa0 Fa1 Fa2 F0 F1 F2 sa0 sa1 sa2 la mu vpa0 vpa1 vpa2 ma00 ma01 ma10 ma11 vp0 vp1 vp2 m00 m01 m10 m11 * δ (F1 / Fa1) + Gen1.HK_N1_sm0_to3_K2_2 c c3 fn Fa0 Fa1 Fa2 F0 F1 F2 sa0 sa1 sa2 la mu vpa0 vpa1 vpa2 ma00 ma01 ma10 ma11 vp0 vp1 vp2 m00 m01 m10 m11 * δ (F2 / Fa2)] := by
  have d2 : δ (2 : K) = 0 := by simpa using δ.map_natCast 2
  have d1 : δ (1 : K) = 0 := δ.map_one_eq_zero
  have d4 : δ (4 : K) = 0 := by simpa using δ.map_natCast 4
  simp only [gen_simp, Derivation.leibniz_div, Derivation.leibniz, Derivation.map_sub, Derivation.map_add, Derivation.map_neg,
    d1, d2, d4, hla, hmu, hf0, hf1, hf2, hl0, hl1, hl2, hla0, hla1, hla2, smul_eq_mul, List.cons.injEq, and_true]
  refine ⟨?_, ?_, ?_⟩ <;> (field_simp; ring1)

end TfelVerif.C55.Props1
