/-
  C55 — Green-Lagrange strategy under the PLANE STRESS hypothesis (unit `GL_N2p_sm0_to1`: Cauchy stress
  requested). Property theorems only. The mock behaviour exposes the axial strain as internal state variable 0
  and eliminates it from sigma_zz = 0, as generated plane-stress behaviours do; `ezza` is its value at the
  beginning of the step, output `ezz` the value the behaviour writes in the END-of-step state `d.s1`.

  * `GL_N2p_axial_strain`   : the behaviour returns `ezz = -(la/(la+2mu)) (E_xx + E_yy)`, `E = ½ (Fᵀ F - 1)` in the plane;
  * `GL_N2p_stress_Cauchy`  : the returned Cauchy stress is `F S Fᵀ / det F` with `S = C : E` (axial strain `ezz`) and the
                              axial stretch `F_zz = sqrt(1 + 2 ezz)` built from the END-of-step axial strain
                              (`sqrt` uninterpreted; the in-plane `F` is the one given, the axial component given is 0).
-/
import TfelVerif.Common.M3
import TfelVerif.C55.Gen2p
import Mathlib.Algebra.CharZero.Defs

namespace TfelVerif.C55.Props2p
open TfelVerif TfelVerif.Mandel
set_option linter.unusedVariables false
set_option linter.unusedSimpArgs false
set_option linter.unusedSectionVars false
set_option maxRecDepth 100000

variable {K : Type} [Field K] [CharZero K] (c c3 : K) (fn : Fns K)
variable (Fa0 Fa1 Fa2 Fa3 Fa4 F0 F1 F2 F3 F4 ezza sa0 sa1 sa2 sa3 la mu : K)

macro "c55_ring" hc:term : tactic =>
  `(tactic| (first
      | exact True.intro
      | ring1
      | (ring_nf; (try c_powers $hc); first | done | ring1 | (ring_nf; (try c_powers $hc); ring1))))

/-- in-plane Green-Lagrange strain of the given deformation gradient -/
def Exx (F0 F4 : K) : K := (F0 * F0 + F4 * F4 - 1) / 2
def Eyy (F1 F3 : K) : K := (F1 * F1 + F3 * F3 - 1) / 2
def Exy (F0 F1 F3 F4 : K) : K := (F0 * F3 + F4 * F1) / 2

theorem GL_N2p_axial_strain :
    Gen2p.GL_N2p_sm0_to1_ezz c c3 fn Fa0 Fa1 Fa2 Fa3 Fa4 F0 F1 F2 F3 F4 ezza sa0 sa1 sa2 sa3 la mu = -(la / (la + 2 * mu)) * (Exx F0 F4 + Eyy F1 F3) := by
  simp only [gen_simp, Exx, Eyy]
  ring

theorem GL_N2p_stress_Cauchy (hc : c * c = 2) :
    [Gen2p.GL_N2p_sm0_to1_s0 c c3 fn Fa0 Fa1 Fa2 Fa3 Fa4 F0 F1 F2 F3 F4 ezza sa0 sa1 sa2 sa3 la mu, Gen2p.GL_N2p_sm0_to1_s1 c c3 fn Fa0 Fa1 Fa2 Fa3 Fa4 F0 F1 F2 F3 F4 ezza sa0 sa1 sa2 sa3 la mu, Gen2p.GL_N2p_sm0_to1_s2 c c3 fn Fa0 Fa1 Fa2 Fa3 Fa4 F0 F1 F2 F3 F4 ezza sa0 sa1 sa2 sa3 la mu, Gen2p.GL_N2p_sm0_to1_s3 c c3 fn Fa0 Fa1 Fa2 Fa3 Fa4 F0 F1 F2 F3 F4 ezza sa0 sa1 sa2 sa3 la mu]
    = (let ezz := Gen2p.GL_N2p_sm0_to1_ezz c c3 fn Fa0 Fa1 Fa2 Fa3 Fa4 F0 F1 F2 F3 F4 ezza sa0 sa1 sa2 sa3 la mu
       let S : M3 K := (la * (Exx F0 F4 + Eyy F1 F3 + ezz)) • (1 : M3 K)
          + (2 * mu) • (⟨Exx F0 F4, Exy F0 F1 F3 F4, 0, Exy F0 F1 F3 F4, Eyy F1 F3, 0, 0, 0, ezz⟩ : M3 K)
       let Ff : M3 K := M3.ofTens [F0, F1, fn.sqrt ((1 : K) + (2 : K) * ezz), F3, F4]
       M3.mandel2 c ((1 / Ff.det) • (Ff * S * Ff.transpose))) := by
  have hi : c⁻¹ = c / 2 := c_inv hc two_ne_zero
  simp only [gen_simp, Exx, Eyy, Exy, M3.ofTens, M3.mandel2, M3.det, M3.smul_def, M3.smul, M3.add_def, M3.add, M3.one_def, M3.one,
    M3.mul_def, M3.mul, M3.transpose, List.cons.injEq, and_true, div_eq_mul_inv, hi]
  repeat' apply And.intro
  all_goals c55_ring hc

end TfelVerif.C55.Props2p
