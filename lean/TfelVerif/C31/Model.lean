/-
C31 — executable model of `tfel::utilities::CxxTokenizer` (src/Utilities/CxxTokenizer.cxx).

Core Lean only (linked into the native driver). Characters are `Char`; the driver feeds bytes
(`Char.ofNat b`, b < 256). `std::isspace/isdigit/isalpha` are those of the "C" locale (bytes ≥ 0x80 are in
no class). Reading `*pe` (the one-past-the-end iterator of a `std::string`, which the code does in a few
places) yields the string's NUL terminator: `peek [] = '\x00'`.

The model follows the code function by function (same names), every loop is a structural recursion over
the remaining characters or over an explicit fuel (`stdLoop`, fuel = length of the line + 1; `Props`
proves the fuel is never exhausted).

Intended behaviour is modelled at the three places where the unchanged code is defective
(patches/C31-*.diff): hexadecimal/binary integers, the `->*` operator, and the backward doxygen comment
in `stripComments`.
-/
namespace TfelVerif.C31

inductive Flag where
  | standard | comment | number | doxygen | doxygenBack | string | char | preproc
  deriving DecidableEq, Repr, Inhabited

def Flag.code : Flag → Nat
  | .standard => 0 | .comment => 1 | .number => 2 | .doxygen => 3
  | .doxygenBack => 4 | .string => 5 | .char => 6 | .preproc => 7

structure Tok where
  value : List Char
  line : Nat
  off : Nat
  flag : Flag
  comment : List Char := []
  deriving DecidableEq, Repr, Inhabited

/-- `CxxTokenizerOptions` (same defaults) -/
structure Opts where
  keepCommentBoundaries : Bool := false
  mergeStrings : Bool := false
  allowStrayHash : Bool := false
  hashAsComment : Bool := false
  allowStrayBackSlash : Bool := false
  treatPreprocessor : Bool := true
  treatStrings : Bool := true
  treatNumbers : Bool := true
  treatCComments : Bool := true
  treatCxxComments : Bool := true
  joinTwo : Bool := true
  graveAsSep : Bool := true
  charAsString : Bool := false
  dotAsSep : Bool := true
  plusAsSep : Bool := true
  minusAsSep : Bool := true
  addCurlyBraces : Bool := false
  deriving Repr, Inhabited

/-- tokenizer state carried from line to line; `toks` is in REVERSE order (`toks.head?` = `tokens.back()`) -/
structure St where
  toks : List Tok := []
  cOpen : Bool := false
  rawOpen : Bool := false
  rawDelim : List Char := []
  deriving Repr, Inhabited

abbrev Err := List Char
abbrev R := Except Err

/-! ## character classes -/

def isSpace (c : Char) : Bool := c = ' ' || (9 ≤ c.toNat && c.toNat ≤ 13)
def isDigit (c : Char) : Bool := 48 ≤ c.toNat && c.toNat ≤ 57
def isAlpha (c : Char) : Bool := (65 ≤ c.toNat && c.toNat ≤ 90) || (97 ≤ c.toNat && c.toNat ≤ 122)
def isBinary (c : Char) : Bool := c = '0' || c = '1'
def isHex (c : Char) : Bool :=
  isDigit c || (97 ≤ c.toNat && c.toNat ≤ 102) || (65 ≤ c.toNat && c.toNat ≤ 70)

/-- the 23 listed characters and NUL (the 24-element array has one value-initialised slot) -/
def fixedSeps : List Char :=
  ['?', ';', '/', '!', '&', '*', '|', '{', '}', '[', ']', '(', ')', '%', '=', '^', ',', ':', '<', '>',
   '\'', '"', '\\', '\x00']

def isSep (o : Opts) (c : Char) : Bool :=
  if c = '.' then o.dotAsSep
  else if c = '+' then o.plusAsSep
  else if c = '-' then o.minusAsSep
  else if c = '`' then o.graveAsSep
  else fixedSeps.contains c

def isSepOrSpace (o : Opts) (c : Char) : Bool := isSpace c || isSep o c

/-- `*p`, with `*pe` = the NUL terminator -/
def peek (l : List Char) : Char := l.headD '\x00'

def err (fn msg : String) : Err := (fn ++ ": " ++ msg).toList
def errC (fn msg : String) (c : Char) : Err := (fn ++ ": " ++ msg).toList ++ [c, '\'']

/-- `ignore_space`: (number of spaces skipped, remaining characters) -/
def skipSpaces : List Char → Nat × List Char
  | [] => (0, [])
  | c :: r => if isSpace c then let (k, r') := skipSpaces r; (k + 1, r') else (0, c :: r)

/-- `std::find_if(p, pe, is_separator_or_space)`: (word, remaining) -/
def takeWord (o : Opts) : List Char → List Char × List Char
  | [] => ([], [])
  | c :: r => if isSepOrSpace o c then ([], c :: r) else let (w, r') := takeWord o r; (c :: w, r')

/-- value with trailing whitespace removed -/
def trimRight (l : List Char) : List Char := (l.reverse.dropWhile isSpace).reverse

/-! ## sub-lexers: each returns (consumed characters, remaining characters) -/

/-- `parseChar` when `charAsString` is off; `l` starts with the opening quote -/
def parseChar (l : List Char) : R (List Char × List Char) :=
  match l with
  | [] => .error (err "CxxTokenizer::parseCChar" "unterminated char")
  | [_] => .error (err "CxxTokenizer::parseCChar" "unterminated char")
  | q :: a :: r =>
    if a = '\\' then
      match r with
      | [] => .error (err "CxxTokenizer::parseCChar" "unterminated char")
      | [_] => .error (err "CxxTokenizer::parseCChar" "unterminated char")
      | x :: y :: r' =>
        if y ≠ '\'' then .error (errC "CxxTokenizer::parseCChar" "unexpected token '" y)
        else .ok ([q, a, x, y], r')
    else
      if peek r ≠ '\'' then .error (errC "CxxTokenizer::parseCChar" "unexpected token '" (peek r))
      else .ok ([q, a, peek r], r.tail)

/-- search of the closing delimiter `e`; `ev` = "the number of backslashes just before is even".
    Returns (characters up to and including the closing delimiter, remaining). -/
def scanString (e : Char) : Bool → List Char → Option (List Char × List Char)
  | _, [] => none
  | ev, c :: r =>
    if c = e && ev then some ([c], r)
    else
      match scanString e (if c = '\\' then !ev else true) r with
      | some (a, b) => some (c :: a, b)
      | none => none

/-- `parseString`: `l` starts with the opening delimiter -/
def parseString (e : Char) (l : List Char) : R (List Char × List Char) :=
  match l with
  | [] => .error (err "CxxTokenizer::parseString" "internal")
  | q :: r =>
    match scanString e true r with
    | some (a, b) => .ok (q :: a, b)
    | none => .error ((err "CxxTokenizer::parseString" "found no matching '") ++ [e] ++ "' to close string\n".toList)

/-- `while ((p != pe) && (isdigit(*p) || *p == '\''))` with C++14 digit separators: after a `'` the next
    character must be a digit (it is then consumed by the next iteration) -/
def digitsSep : List Char → R (List Char × List Char)
  | [] => .ok ([], [])
  | c :: r =>
    if isDigit c then
      match digitsSep r with
      | .ok (a, b) => .ok (c :: a, b)
      | .error e => .error e
    else if c = '\'' then
      if r.isEmpty then .error (err "CxxTokenizer::parseNumber" "invalid number")
      else if isDigit (peek r) then
        match digitsSep r with
        | .ok (a, b) => .ok (c :: a, b)
        | .error e => .error e
      else .error (errC "CxxTokenizer::parseNumber" "expected digit, read '" (peek r))
    else .ok ([], c :: r)

/-- binary digits: `while (p != pe && isdigit(*p)) { throw_if(!is_binary(*p)); ++p; }` -/
def binDigits : List Char → R (List Char × List Char)
  | [] => .ok ([], [])
  | c :: r =>
    if isDigit c then
      if isBinary c then
        match binDigits r with
        | .ok (a, b) => .ok (c :: a, b)
        | .error e => .error e
      else .error (err "CxxTokenizer::parseNumber" "invalid binary integer")
    else .ok ([], c :: r)

/-- hexadecimal digits (repaired loop: `while (p != pe && is_hex(*p)) ++p;`) -/
def hexDigits : List Char → List Char × List Char
  | [] => ([], [])
  | c :: r => if isHex c then let (a, b) := hexDigits r; (c :: a, b) else ([], c :: r)

/-- user defined literal suffix body: `[A-Za-z0-9_]*` -/
def udlChars : List Char → List Char × List Char
  | [] => ([], [])
  | c :: r => if isAlpha c || isDigit c || c = '_' then let (a, b) := udlChars r; (c :: a, b) else ([], c :: r)

def isL (c : Char) : Bool := c = 'l' || c = 'L'
def isU (c : Char) : Bool := c = 'u' || c = 'U'
def isF (c : Char) : Bool := c = 'f' || c = 'F'

/-- the integer / floating point suffix part of `parseNumber` -/
def numSuffix (isFloat isSigned : Bool) (l : List Char) : R (List Char × List Char) :=
  let E (m : String) : R (List Char × List Char) := .error (err "CxxTokenizer::parseNumber" m)
  match l with
  | [] => .ok ([], [])
  | c :: r =>
    if (isFloat && (isL c || isF c)) || (!isFloat && (isU c || isL c)) then
      if isU c && isSigned then E "invalid number (unsigned can't be signed)"
      else if isF c then .ok ([c], r)
      else if isL c then
        match r with
        | [] => .ok ([c], [])
        | c2 :: r2 =>
          if isL c2 then
            if isFloat then E "invalid float suffix"
            else
              match r2 with
              | [] => .ok ([c, c2], [])
              | c3 :: r3 =>
                if isU c3 then
                  if isSigned then E "invalid number (unsigned can't be signed)"
                  else .ok ([c, c2, c3], r3)
                else .ok ([c, c2], c3 :: r3)
          else if isU c2 then
            if isFloat then E "invalid number (floating points can't be unsigned)"
            else if isSigned then E "invalid number (unsigned can't be signed)"
            else .ok ([c, c2], r2)
          else .ok ([c], c2 :: r2)
      else
        -- `u`/`U` (not signed: tested above)
        match r with
        | [] => .ok ([c], [])
        | c2 :: r2 =>
          if isL c2 then
            match r2 with
            | [] => .ok ([c, c2], [])
            | c3 :: r3 => if isL c3 then .ok ([c, c2, c3], r3) else .ok ([c, c2], c3 :: r3)
          else .ok ([c], c2 :: r2)
    else .ok ([], c :: r)

/-- leading part of a number: `.d`, `0b…`, `0x…` or nothing:
    (consumed, is_float, is_binary_integer, is_hex_integer, remaining) -/
def numLead (l1 : List Char) : R (List Char × Bool × Bool × Bool × List Char) :=
  let c1 := peek l1
  if c1 = '.' then
    match l1.tail with
    | [] => .error (err "CxxTokenizer::parseNumber" "invalid number")
    | d :: r => if isDigit d then .ok (['.'], true, false, false, d :: r)
                else .error (errC "CxxTokenizer::parseNumber" "expected digit, read '" d)
  else if c1 = '0' then
    match l1.tail with
    | [] => .ok (['0'], false, false, false, [])
    | x :: r =>
      if x = 'b' then
        match r with
        | [] => .error (err "CxxTokenizer::parseNumber" "invalid binary integer")
        | d :: _ =>
          if !isBinary d then .error (err "CxxTokenizer::parseNumber" "invalid binary integer")
          else
            match binDigits r with
            | .ok (a, b) => .ok ('0' :: 'b' :: a, false, true, false, b)
            | .error e => .error e
      else if x = 'x' then
        match r with
        | [] => .error (err "CxxTokenizer::parseNumber" "invalid hexadecimal integer")
        | d :: _ =>
          if !isHex d then .error (err "CxxTokenizer::parseNumber" "invalid hexadecimal integer")
          else let (a, b) := hexDigits r; .ok ('0' :: 'x' :: a, false, false, true, b)
      else .ok ([], false, false, false, l1)
  else .ok ([], false, false, false, l1)

/-- leading part and integer digits: (consumed, is_float, is_binary_integer, is_hex_integer, remaining) -/
def numIntPart (l1 : List Char) : R (List Char × Bool × Bool × Bool × List Char) :=
  match numLead l1 with
  | .error e => .error e
  | .ok (ld, isFloat0, isBin, isHexI, l2) =>
    match digitsSep l2 with
    | .error e => .error e
    | .ok (ds, l3) => .ok (ld ++ ds, isFloat0, isBin, isHexI, l3)

/-- decimal part: (consumed, is_float, remaining) -/
def numDec (isHexI isBin isFloat0 : Bool) (l3 : List Char) : R (List Char × Bool × List Char) :=
  match l3 with
  | c :: r =>
    if c = '.' then
      if isHexI then .error (err "CxxTokenizer::parseNumber" "invalid hexadecimal integer")
      else if isBin then .error (err "CxxTokenizer::parseNumber" "invalid binary integer")
      else if isFloat0 then .error (err "CxxTokenizer::parseNumber" "decimal sign multiply defined")
      else
        match digitsSep r with
        | .ok (a, b) => .ok ('.' :: a, true, b)
        | .error e => .error e
    else .ok ([], isFloat0, l3)
  | [] => .ok ([], isFloat0, [])

/-- exponent: (consumed, is_float, remaining) -/
def numExp (isHexI isBin isFloat1 : Bool) (l4 : List Char) : R (List Char × Bool × List Char) :=
  match l4 with
  | c :: r =>
    if c = 'e' || c = 'E' then
      if isHexI then .error (err "CxxTokenizer::parseNumber" "invalid hexadecimal integer")
      else if isBin then .error (err "CxxTokenizer::parseNumber" "invalid binary integer")
      else
        match r with
        | [] => .error (err "CxxTokenizer::parseNumber" "invalid number")
        | s :: r1 =>
          let hasS := s = '+' || s = '-'
          let r2 := if hasS then r1 else s :: r1
          if hasS && r1.isEmpty then .error (err "CxxTokenizer::parseNumber" "invalid number")
          else
            match r2 with
            | [] => .error (err "CxxTokenizer::parseNumber" "invalid number")
            | d :: r3 =>
              if !isDigit d then .error (err "CxxTokenizer::parseNumber" "invalid number")
              else
                match digitsSep r3 with
                | .ok (a, b) =>
                  .ok (c :: (if hasS then [s] else []) ++ d :: a, isFloat1 || s = '-', b)
                | .error e => .error e
    else .ok ([], isFloat1, l4)
  | [] => .ok ([], isFloat1, [])

/-- C++11 user defined literal suffix -/
def numUdl (l6 : List Char) : R (List Char × List Char) :=
  match l6 with
  | c :: r =>
    if c = '_' then
      if r.isEmpty then .error (err "CxxTokenizer::parseNumber" "invalid user litteral")
      else let (a, b) := udlChars r; .ok (c :: a, b)
    else .ok ([], l6)
  | [] => .ok ([], [])

/-- `throw_if((p != pe) && (*p == '.'), "invalid number")` -/
def noDot (l : List Char) : R Unit :=
  if peek l = '.' && !l.isEmpty then .error (err "CxxTokenizer::parseNumber" "invalid number") else .ok ()

/-- `parseNumber`; returns (consumed text, remaining). The token value is the consumed text without `'`. -/
def parseNumber (l : List Char) : R (List Char × List Char) := do
  -- sign
  let c0 := peek l
  let hasSign := c0 = '-' || c0 = '+'
  let isSigned := c0 = '-'
  let l1 := if hasSign then l.tail else l
  let sgn := if hasSign then [c0] else []
  if hasSign && l1.isEmpty then .error (err "CxxTokenizer::parseNumber" "invalid number") else
  let c1 := peek l1
  if !(isDigit c1) && c1 ≠ '.' then .error (errC "CxxTokenizer::parseNumber" "expected digit, read '" c1) else
  let (ip, isFloat0, isBin, isHexI, l3) ← numIntPart l1
  let (fs, isFloat1, l4) ← numDec isHexI isBin isFloat0 l3
  noDot l4
  let (es, isFloat, l5) ← numExp isHexI isBin isFloat1 l4
  noDot l5
  let (sf, l6) ← numSuffix isFloat isSigned l5
  noDot l6
  let (us, l7) ← numUdl l6
  noDot l7
  .ok (sgn ++ ip ++ fs ++ es ++ sf ++ us, l7)

def numberValue (consumed : List Char) : List Char := consumed.filter (· ≠ '\'')

/-- `get_end` / `line.find("*/")`: (text before the first `*/`, text after it) -/
def splitCEnd : List Char → Option (List Char × List Char)
  | [] => none
  | c :: r =>
    if c = '*' && r.head? = some '/' then some ([], r.tail)
    else
      match splitCEnd r with
      | some (a, b) => some (c :: a, b)
      | none => none

/-- search of `)delim"`: (text before, `some rest` when the closing delimiter was found) -/
def rawBody (delim : List Char) : List Char → List Char × Option (List Char)
  | [] => ([], none)
  | c :: r =>
    if c = ')' && (delim ++ ['"']).isPrefixOf r then ([], some (r.drop (delim.length + 1)))
    else let (a, b) := rawBody delim r; (c :: a, b)

/-- raw string delimiter: characters up to `(`; `none` when the line ends first -/
def rawDelimiter : List Char → Option (List Char × List Char)
  | [] => none
  | c :: r => if c = '(' then some ([], r) else
      match rawDelimiter r with
      | some (a, b) => some (c :: a, b)
      | none => none

/-- the preprocessor keywords (as character lists: no `String` in the model) -/
def ppKeywords : List (List Char) :=
  [['d', 'e', 'f', 'i', 'n', 'e'],
   ['u', 'n', 'd', 'e', 'f'],
   ['i', 'n', 'c', 'l', 'u', 'd', 'e'],
   ['l', 'i', 'n', 'e'],
   ['e', 'r', 'r', 'o', 'r'],
   ['i', 'f'],
   ['i', 'f', 'd', 'e', 'f'],
   ['i', 'f', 'n', 'd', 'e', 'f'],
   ['e', 'l', 'i', 'f'],
   ['e', 'l', 's', 'e'],
   ['e', 'n', 'd', 'i', 'f'],
   ['p', 'r', 'a', 'g', 'm', 'a'],
   ['w', 'a', 'r', 'n', 'i', 'n', 'g']]

/-! ## comments -/

/-- the `!` / `!<` doxygen markers after `/*` or `//`: (flag, number of marker characters, remaining) -/
def doxyFlag (empty : Bool) (l : List Char) : Flag × Nat × List Char :=
  match l with
  | c :: r =>
    if c = '!' then
      match r with
      | d :: r' =>
        if d = '<' then ((if empty then .comment else .doxygenBack), 2, r')
        else ((if empty then .comment else .doxygen), 1, d :: r')
      | [] => ((if empty then .comment else .doxygen), 1, [])
    else (.comment, 0, l)
  | [] => (.comment, 0, [])

structure LineSt where
  st : St
  o : Nat
  prev : Char
  rest : List Char

def push (s : St) (t : Tok) : St := { s with toks := t :: s.toks }

/-- `parseCComment`; `l` starts with `/*`. Returns the new state, offset and remaining characters. -/
def parseCComment (op : Opts) (n : Nat) (s : St) (o : Nat) (l : List Char) : St × Nat × List Char :=
  let body := l.drop 2
  let (flag, k, r1) := doxyFlag s.toks.isEmpty body
  if op.keepCommentBoundaries then
    match splitCEnd r1 with
    | some (a, b) =>
      (push s ⟨l.take (2 + k + a.length + 2), n, o, flag, []⟩, o + a.length + 2, b)
    | none => ({ push s ⟨l, n, o, flag, []⟩ with cOpen := true }, o + r1.length, [])
  else
    let (w, r2) := skipSpaces r1
    let o1 := o + 2 + k + w
    match splitCEnd r2 with
    | some (a, b) => (push s ⟨trimRight a, n, o1, flag, []⟩, o1 + a.length + 2, b)
    | none => ({ push s ⟨trimRight r2, n, o1, flag, []⟩ with cOpen := true }, o1 + r2.length, [])

/-- `parseCxxComment`; `l` starts with `//` -/
def parseCxxComment (op : Opts) (n : Nat) (s : St) (o : Nat) (l : List Char) : St × Nat :=
  let body := l.drop 2
  let (flag, k, r1) := doxyFlag s.toks.isEmpty body
  if op.keepCommentBoundaries then (push s ⟨l, n, o, flag, []⟩, o + r1.length)
  else
    let (w, r2) := skipSpaces r1
    let o1 := o + 2 + k + w
    (push s ⟨r2, n, o1, flag, []⟩, o1 + r2.length)

/-! ## the main loop of `parseStandardLine` -/

def tok1 (s : St) (n o : Nat) (v : List Char) (f : Flag := .standard) : St := push s ⟨v, n, o, f, []⟩

/-- `try_join(c1, c2)`: number of characters of the operator starting at `c` -/
def joinLen (op : Opts) (r : List Char) (c1 c2 : Char) : Nat :=
  if op.joinTwo then
    match r with
    | d :: _ => if d = c1 || d = c2 then 2 else 1
    | [] => 1
  else 1

/-- one iteration of the `while (p != pe)` loop of `parseStandardLine` on `c :: r`
    (without the trailing `ignore_space`). `prev` is `*(p-1)` (a space at the beginning `p == b`). -/
def stdStep (op : Opts) (n : Nat) (s : St) (o : Nat) (prev c : Char) (r : List Char) :
    R (St × Nat × List Char × List Char) :=   -- state, offset, consumed, remaining
  let l := c :: r
  let E (m : String) : R (St × Nat × List Char × List Char) := .error (err "CxxTokenizer::parseStandardLine" m)
  let single : R (St × Nat × List Char × List Char) := .ok (tok1 s n o [c], o + 1, [c], r)
  let join (c1 c2 : Char) : R (St × Nat × List Char × List Char) :=
    let k := joinLen op r c1 c2
    .ok (tok1 s n o (l.take k), o + k, l.take k, l.drop k)
  let number : R (St × Nat × List Char × List Char) :=
    if op.treatNumbers then
      match parseNumber l with
      | .ok (a, b) => .ok (tok1 s n o (numberValue a) .number, o + a.length, a, b)
      | .error e => .error e
    else single
  if c = '#' then
    if op.hashAsComment && op.allowStrayHash then
      if op.keepCommentBoundaries then .ok (tok1 s n o l .comment, o, l, [])
      else
        let (w, r2) := skipSpaces r
        if r2.isEmpty then .ok (s, o + w, l, [])
        else .ok (tok1 s n (o + w) r2 .comment, o + w, l, [])
    else
      if !op.allowStrayHash && (r.isEmpty || !isAlpha (peek r)) then E "stray ‘#’"
      else single
  else if c = '\\' then
    if !op.allowStrayBackSlash && !r.isEmpty then E "stray ‘\\’" else single
  else if isDigit c then number
  else if c = 'R' && r.head? = some '"' then
    match rawDelimiter r.tail with
    | none => E "invalid end of line, expected to read the raw string delimiter"
    | some (d, r2) =>
      let o1 := o + 2 + d.length + 1
      let (v, cl) := rawBody d r2
      match cl with
      | some r3 =>
        let k := 2 + d.length + 1 + v.length + d.length + 2
        .ok (tok1 s n o1 v .string, o1 + v.length + d.length + 2, l.take k, r3)
      | none =>
        .ok ({ tok1 s n o1 v .string with rawOpen := true, rawDelim := d }, o1 + v.length, l, [])
  else if c = '"' then
    if op.treatStrings then
      match parseString '"' l with
      | .ok (a, b) =>
        match s.toks with
        | t :: ts =>
          if t.flag = .string && op.mergeStrings then
            .ok ({ s with toks := { t with value := t.value.dropLast ++ a.tail } :: ts }, o + a.length, a, b)
          else .ok (tok1 s n o a .string, o + a.length, a, b)
        | [] => .ok (tok1 s n o a .string, o + a.length, a, b)
      | .error e => .error e
    else single
  else if c = '\'' then
    if op.treatStrings then
      if op.charAsString then
        match parseString '\'' l with
        | .ok (a, b) => .ok (tok1 s n o a .string, o + a.length, a, b)
        | .error e => .error e
      else
        match parseChar l with
        | .ok (a, b) => .ok (tok1 s n o a .char, o + a.length, a, b)
        | .error e => .error e
    else single
  else if c = '<' then join '<' '='
  else if c = '>' then join '>' '='
  else if c = ':' then join ':' ':'
  else if c = '+' || c = '-' then
    match r with
    | d :: r' =>
      if d = c then .ok (tok1 s n o [c, d], o + 2, [c, d], r')
      else if c = '-' && d = '>' then
        match r' with
        | x :: r'' =>
          if x = '*' then .ok (tok1 s n o [c, d, x], o + 3, [c, d, x], r'')
          else .ok (tok1 s n o [c, d], o + 2, [c, d], r')
        | [] => .ok (tok1 s n o [c, d], o + 2, [c, d], r')
      else if isSepOrSpace op prev && (d = '.' || isDigit d) then number
      else join '=' '='
    | [] => join '=' '='
  else if c = '/' then
    match r with
    | d :: _ =>
      if d = '/' && op.treatCxxComments then
        let (s', o') := parseCxxComment op n s o l
        .ok (s', o', l, [])
      else if d = '*' && op.treatCComments then
        let (s', o', b) := parseCComment op n s o l
        .ok (s', o', l.take (l.length - b.length), b)
      else join '=' '='
    | [] => join '=' '='
  else if c = '*' || c = '%' || c = '!' || c = '=' then join '=' '='
  else if c = '&' then join '&' '&'
  else if c = '.' then
    if isDigit (peek r) && !r.isEmpty then number else join '.' '*'
  else if c = '|' then join '|' '='
  else
    let (w, r2) := takeWord op l
    if w.isEmpty then single else .ok (tok1 s n o w, o + w.length, w, r2)

/-- the loop of `parseStandardLine` (after the first `ignore_space`): `fuel` bounds the number of iterations -/
def stdLoop (op : Opts) (n : Nat) : Nat → St → Nat → Char → List Char → R St
  | _, s, _, _, [] => .ok s
  | 0, _, _, _, _ :: _ => .error "model: out of fuel".toList
  | fuel + 1, s, o, prev, c :: r =>
    match stdStep op n s o prev c r with
    | .error e => .error e
    | .ok (s', o', consumed, rest) =>
      let (w, rest') := skipSpaces rest
      let prev' := if w = 0 then consumed.getLastD c else ' '
      stdLoop op n fuel s' (o' + w) prev' rest'

/-- `parseStandardLine(o, p, b, pe, n)`; `prev` = `*(p-1)`, a space when `p == b` -/
def parseStandardLine (op : Opts) (n : Nat) (s : St) (o : Nat) (prev : Char) (l : List Char) : R St :=
  let (w, r) := skipSpaces l
  stdLoop op n (r.length + 1) s (o + w) (if w = 0 then prev else ' ') r

/-- `parsePreprocessorDirective`; `l` starts with `#` -/
def parsePreprocessorDirective (op : Opts) (n : Nat) (s : St) (o : Nat) (l : List Char) : R St :=
  let fn := "CxxTokenizer::parsePreprocessorDirective"
  let s1 := tok1 s n o ['#'] .preproc
  let (w, r) := skipSpaces l.tail
  let o1 := o + 1 + w
  match r with
  | [] => .error (err fn "lonely ‘#’")
  | c :: _ =>
    let (key, r2) := takeWord op r
    if key.isEmpty then .error (errC fn "unexpected token '" c)
    else if !ppKeywords.contains key then
      .error (err fn "invalid preprocessor keyword '" ++ key ++ ['\''])
    else
      -- `parseStandardLine(o, p, p, pe, n)`: the beginning of the line is now `p`
      parseStandardLine op n (tok1 s1 n o1 key .preproc) (o1 + key.length) ' ' r2

/-- append to the value of the last token (`tokens.back().value += …`) -/
def appendBack (s : St) (f : List Char → List Char) : St :=
  match s.toks with
  | t :: ts => { s with toks := { t with value := f t.value } :: ts }
  | [] => s

def isCommentFlag (f : Flag) : Bool := f = .comment || f = .doxygen || f = .doxygenBack

/-- `splitLine(line, n)` -/
def splitLine (op : Opts) (n : Nat) (s : St) (line : List Char) : R St :=
  let fn := "CxxTokenizer::splitLine"
  -- an opened C comment
  let a : R (St × Nat × List Char × Bool) :=
    if s.cOpen then
      let s1 := if s.toks.isEmpty then tok1 s n 0 [] .comment else s
      match s1.toks with
      | [] => .error (err fn "internal")
      | t :: _ =>
        if !isCommentFlag t.flag then .error (err fn "internal error (previous token is not a comment)")
        else
          let nl : List Char := if t.value.isEmpty then [] else ['\n']
          match splitCEnd line with
          | none => .ok (appendBack s1 (fun v => v ++ nl ++ line), line.length, [], true)
          | some (x, y) =>
            let add := if op.keepCommentBoundaries then x ++ ['*', '/'] else x
            .ok ({ appendBack s1 (fun v => v ++ nl ++ add) with cOpen := false }, x.length + 2, y, false)
    else .ok (s, 0, line, false)
  match a with
  | .error e => .error e
  | .ok (s2, o2, r2, done) =>
    if done then .ok s2 else
    -- an opened raw string (only reachable here when no C comment was opened: `r2 = line`)
    let b : R (St × Nat × List Char × Bool) :=
      if s2.rawOpen then
        let s3 := if s2.toks.isEmpty then tok1 s2 n o2 [] .string else s2
        match s3.toks with
        | [] => .error (err fn "internal")
        | t :: _ =>
          if t.flag ≠ .string then .error (err fn "internal error (previous token is not a string)")
          else
            let nl : List Char := if t.value.isEmpty then [] else ['\n']
            match rawBody s3.rawDelim r2 with
            | (_, none) => .ok (appendBack s3 (fun v => v ++ nl ++ r2), o2 + r2.length, [], true)
            | (x, some y) =>
              .ok ({ appendBack s3 (fun v => v ++ nl ++ x) with rawOpen := false, rawDelim := [] },
                   o2 + x.length + s3.rawDelim.length + 2, y, false)
      else .ok (s2, o2, r2, false)
    match b with
    | .error e => .error e
    | .ok (s4, o4, r4, done) =>
      if done then .ok s4 else
      let atStart := r4.length = line.length
      let (w, r5) := skipSpaces r4
      let prev : Char := if w = 0 then (if atStart then ' ' else '/') else ' '
      if peek r5 = '#' && !r5.isEmpty && op.treatPreprocessor then
        parsePreprocessorDirective op n s4 (o4 + w) r5
      else
        parseStandardLine op n s4 (o4 + w) prev r5

/-- lines of a stream as read by `std::getline` in `while (!in.eof())` -/
def splitLines : List Char → List (List Char)
  | [] => [[]]
  | c :: r =>
    if c = '\n' then [] :: splitLines r
    else
      match splitLines r with
      | l :: ls => (c :: l) :: ls
      | [] => [[c]]

def truncNul : List Char → List Char
  | [] => []
  | c :: r => if c = '\x00' then [] else c :: truncNul r

/-- the lines loop of `parseStream`; on error the `what()` text of the exception -/
def parseLines (op : Opts) (input : List Char) : Nat → St → List (List Char) → R St
  | _, s, [] => .ok s
  | n, s, l :: ls =>
    match splitLine op n s l with
    | .ok s' => parseLines op input (n + 1) s' ls
    | .error e =>
      .error (truncNul (truncNul e ++ ".\nError at line: ".toList ++ (toString n).toList ++
        " of string '".toList ++ input ++ ['\'']))

/-- `parseString(s)` on a fresh tokenizer: final state, tokens in source order -/
def tokenize (op : Opts) (input : List Char) : R (List Tok × St) :=
  match parseLines op input 1 {} (splitLines input) with
  | .error e => .error e
  | .ok s =>
    let ts := s.toks.reverse
    let ts :=
      if op.addCurlyBraces then
        let ts1 := (⟨['{'], 0, 0, .standard, []⟩ : Tok) :: ts
        ts1 ++ [⟨['}'], (ts1.getLastD default).line + 1, 0, .standard, []⟩]
      else ts
    .ok (ts, s)

/-! ## `stripComments` (token list only; the `comments` map is not modelled) -/

/-- the forward doxygen comment `d` just erased is attached to the next token `t` -/
def attachDoc (d : Option (List Char)) (t : Tok) : Tok :=
  match d with
  | none => t
  | some v =>
    if t.flag = .standard then
      { t with comment := (if t.comment.isEmpty then [] else t.comment ++ ['\n']) ++ v }
    else if t.flag = .doxygen then { t with value := v ++ '\n' :: t.value }
    else t

/-- `kept` = the tokens kept so far, in reverse order -/
def stripLoop : List Tok → Option (List Char) → List Tok → List Tok
  | kept, _, [] => kept.reverse
  | kept, d, t :: r =>
    let t := attachDoc d t
    match t.flag with
    | .comment => stripLoop kept none r
    | .doxygen => stripLoop kept (some t.value) r
    | .doxygenBack =>
      match kept with
      | [] => stripLoop [] none r
      | p :: ks =>
        stripLoop ((if p.flag = .standard then { p with comment := p.comment ++ t.value } else p) :: ks) none r
    | _ => stripLoop (t :: kept) none r

def stripComments (ts : List Tok) : List Tok := stripLoop [] none ts

end TfelVerif.C31
