/-
C31 — basic lemmas: blanks, words, character classes.
-/
import TfelVerif.C31.Spec

namespace TfelVerif.C31

theorem skipSpaces_append (ws rest : List Char) (h : allSpaces ws)
    (hr : ∀ c, rest.head? = some c → isSpace c = false) :
    skipSpaces (ws ++ rest) = (ws.length, rest) := by
  induction ws with
  | nil =>
    cases rest with
    | nil => rfl
    | cons c r => simp [skipSpaces, hr c rfl]
  | cons c ws ih =>
    have hc : isSpace c = true := h c (by simp)
    have := ih (fun d hd => h d (by simp [hd]))
    simp [skipSpaces, hc, this]

theorem skipSpaces_nonspace (rest : List Char) (hr : ∀ c, rest.head? = some c → isSpace c = false) :
    skipSpaces rest = (0, rest) := by
  simpa using skipSpaces_append [] rest (by intro c hc; cases hc) hr

theorem takeWord_append (w rest : List Char) (hw : ∀ c ∈ w, isSepOrSpace dflt c = false)
    (hr : ∀ c, rest.head? = some c → isSepOrSpace dflt c = true) :
    takeWord dflt (w ++ rest) = (w, rest) := by
  induction w with
  | nil =>
    cases rest with
    | nil => rfl
    | cons c r => simp [takeWord, hr c rfl]
  | cons c w ih =>
    have hc : isSepOrSpace dflt c = false := hw c (by simp)
    have := ih (fun d hd => hw d (by simp [hd]))
    simp [takeWord, hc, this]

/-- a character that is neither a separator nor a blank is none of the dispatch characters -/
theorem notSep_ne (c : Char) (h : isSepOrSpace dflt c = false) :
    c ≠ '\\' ∧ c ≠ '"' ∧ c ≠ '\'' ∧ c ≠ '<' ∧ c ≠ '>' ∧ c ≠ ':' ∧ c ≠ '+' ∧ c ≠ '-' ∧ c ≠ '/' ∧ c ≠ '*' ∧
    c ≠ '%' ∧ c ≠ '!' ∧ c ≠ '=' ∧ c ≠ '&' ∧ c ≠ '.' ∧ c ≠ '|' := by
  simp only [isSepOrSpace, Bool.or_eq_false_iff] at h
  obtain ⟨_, h⟩ := h
  refine ⟨?_, ?_, ?_, ?_, ?_, ?_, ?_, ?_, ?_, ?_, ?_, ?_, ?_, ?_, ?_, ?_⟩ <;>
    (intro e; subst e; revert h; decide)

end TfelVerif.C31
