/-
C31 — progress of `parseNumber`.
-/
import TfelVerif.C31.LemFuel

namespace TfelVerif.C31

theorem numSuffix_len (f sg : Bool) (l a b : List Char) (h : numSuffix f sg l = .ok (a, b)) :
    b.length ≤ l.length := by
  unfold numSuffix at h
  simp only at h
  repeat' split at h
  all_goals
    first
    | (cases h; done)
    | (cases h; simp; done)
    | (cases h; simp; omega)
    | (cases h; omega)

theorem numUdl_len (l a b : List Char) (h : numUdl l = .ok (a, b)) : b.length ≤ l.length := by
  unfold numUdl at h
  split at h
  · split at h
    · split at h
      · cases h
      · cases h
        rename_i c r _ _
        have := udlChars_len r
        simp; omega
    · cases h; simp
  · cases h; simp

theorem numDec_len (x y z : Bool) (l a b : List Char) (f : Bool) (h : numDec x y z l = .ok (a, f, b)) :
    b.length ≤ l.length := by
  unfold numDec at h
  split at h
  · split at h
    · split at h
      · cases h
      · split at h
        · cases h
        · split at h
          · cases h
          · split at h
            · rename_i a' b' hd
              cases h
              have := (digitsSep_len _ a' b hd).1
              simp; omega
            · cases h
    · cases h; simp
  · cases h; simp

theorem numExp_len (x y z : Bool) (l a b : List Char) (f : Bool) (h : numExp x y z l = .ok (a, f, b)) :
    b.length ≤ l.length := by
  unfold numExp at h
  split at h
  · split at h
    · split at h
      · cases h
      · split at h
        · cases h
        · split at h
          · cases h
          · simp only at h
            split at h
            · cases h
            · split at h
              · cases h
              · split at h
                · cases h
                · split at h
                  · cases h
                    rename_i s r1 _ _ d r3 hr2 _ _ a' hd
                    have h1 := (digitsSep_len _ a' b hd).1
                    have h2 : (d :: r3).length ≤ (s :: r1).length := by
                      rw [← hr2]; split <;> simp
                    simp at h2 ⊢; omega
                  · cases h
    · cases h; simp
  · cases h; simp

end TfelVerif.C31
