/-
C31 — `parseNumber` on the decimal number grammar.
-/
import TfelVerif.C31.LemBasic

namespace TfelVerif.C31

/-- facts about a digit -/
theorem digit_ne (c : Char) (h : isDigit c = true) :
    c ≠ '-' ∧ c ≠ '+' ∧ c ≠ '.' ∧ c ≠ '\'' ∧ c ≠ 'e' ∧ c ≠ 'E' ∧ c ≠ 'b' ∧ c ≠ 'x' := by
  refine ⟨?_, ?_, ?_, ?_, ?_, ?_, ?_, ?_⟩ <;> (intro e; subst e; revert h; decide)

/-- facts about a separator or a blank -/
theorem sep_ne (c : Char) (h : isSepOrSpace dflt c = true) :
    isDigit c = false ∧ c ≠ 'e' ∧ c ≠ 'E' ∧ c ≠ 'b' ∧ c ≠ 'x' ∧ c ≠ '_' ∧ isL c = false ∧ isU c = false ∧
      isF c = false := by
  have key : ∀ d : Char, isSepOrSpace dflt d = false → c ≠ d := by
    intro d hd e; subst e; rw [h] at hd; cases hd
  refine ⟨?_, key 'e' (by decide), key 'E' (by decide), key 'b' (by decide), key 'x' (by decide),
    key '_' (by decide), ?_, ?_, ?_⟩
  · cases hd : isDigit c with
    | false => rfl
    | true =>
      exfalso
      have h48 : 48 ≤ c.toNat ∧ c.toNat ≤ 57 := by simpa [isDigit] using hd
      have : isSepOrSpace dflt c = false := by
        have hlt : c.toNat < 58 := by omega
        have hc : c = Char.ofNat c.toNat := by simp
        have : ∀ k : Fin 58, 48 ≤ k.val → isSepOrSpace dflt (Char.ofNat k.val) = false := by decide
        rw [hc]
        exact this ⟨c.toNat, hlt⟩ h48.1
      rw [h] at this; cases this
  · have h1 := key 'l' (by decide); have h2 := key 'L' (by decide); simp [isL, h1, h2]
  · have h1 := key 'u' (by decide); have h2 := key 'U' (by decide); simp [isU, h1, h2]
  · have h1 := key 'f' (by decide); have h2 := key 'F' (by decide); simp [isF, h1, h2]

/-- where a run of digits stops -/
def StopDigits (tl : List Char) : Prop := ∀ c, tl.head? = some c → isDigit c = false ∧ c ≠ '\''

theorem digitsSep_digits (ds tl : List Char) (hd : allDigits ds) (ht : StopDigits tl) :
    digitsSep (ds ++ tl) = .ok (ds, tl) := by
  induction ds with
  | nil =>
    cases tl with
    | nil => rfl
    | cons c r =>
      obtain ⟨h1, h2⟩ := ht c rfl
      simp [digitsSep, h1, h2]
  | cons c ds ih =>
    have hc : isDigit c = true := hd c (by simp)
    have := ih (fun d hd' => hd d (by simp [hd']))
    simp [digitsSep, hc, this]

/-- integer part: the digits `ip`, followed by `tl` which starts with neither a digit, `'`, `b` nor `x` -/
theorem numIntPart_digits (ip tl : List Char) (hne : ip ≠ []) (hd : allDigits ip) (ht : StopDigits tl)
    (hbx : ∀ c, tl.head? = some c → c ≠ 'b' ∧ c ≠ 'x') :
    numIntPart (ip ++ tl) = .ok (ip, false, false, false, tl) := by
  cases ip with
  | nil => exact absurd rfl hne
  | cons c ip' =>
    have hc : isDigit c = true := hd c (by simp)
    obtain ⟨_, _, hdot, _, _, _, _, _⟩ := digit_ne c hc
    have hrest := digitsSep_digits (c :: ip') tl hd ht
    by_cases h0 : c = '0'
    · -- a leading zero
      subst h0
      cases hT : ip' ++ tl with
      | nil =>
        have h1 : ip' = [] := (List.append_eq_nil_iff.mp hT).1
        have h2 : tl = [] := (List.append_eq_nil_iff.mp hT).2
        subst h1; subst h2
        simp [numIntPart, numLead, peek, digitsSep]
      | cons x r =>
        have hx : x ≠ 'b' ∧ x ≠ 'x' := by
          cases ip' with
          | nil =>
            have : tl.head? = some x := by simp at hT; simp [hT]
            exact hbx x this
          | cons d ip'' =>
            have hdx : d = x := by simp at hT; exact hT.1
            have hdd : isDigit d = true := hd d (by simp)
            obtain ⟨_, _, _, _, _, _, hb, hx⟩ := digit_ne d hdd
            exact hdx ▸ ⟨hb, hx⟩
        have hl : numLead ('0' :: (ip' ++ tl)) = .ok ([], false, false, false, '0' :: (ip' ++ tl)) := by
          simp [numLead, peek, hT, hx.1, hx.2]
        simp only [List.cons_append] at hrest ⊢
        simp [numIntPart, hl, hrest]
    · have hl : numLead (c :: (ip' ++ tl)) = .ok ([], false, false, false, c :: (ip' ++ tl)) := by
        simp [numLead, peek, hdot, h0]
      simp only [List.cons_append] at hrest ⊢
      simp [numIntPart, hl, hrest]

/-! ### the three optional parts -/

theorem numDec_some (f tl : List Char) (hd : allDigits f) (ht : StopDigits tl) :
    numDec false false false ('.' :: f ++ tl) = .ok ('.' :: f, true, tl) := by
  have := digitsSep_digits f tl hd ht
  simp [numDec, this]

theorem numDec_none (b : Bool) (tl : List Char) (ht : tl.head? ≠ some '.') :
    numDec false false b tl = .ok ([], b, tl) := by
  cases tl with
  | nil => rfl
  | cons c r =>
    have : c ≠ '.' := by simpa using ht
    simp [numDec, this]

theorem noDot_ok (tl : List Char) (ht : tl.head? ≠ some '.') : noDot tl = .ok () := by
  cases tl with
  | nil => rfl
  | cons c r =>
    have : c ≠ '.' := by simpa using ht
    simp [noDot, peek, this]

theorem numExp_none (b : Bool) (tl : List Char) (ht : ∀ c, tl.head? = some c → c ≠ 'e' ∧ c ≠ 'E') :
    numExp false false b tl = .ok ([], b, tl) := by
  cases tl with
  | nil => rfl
  | cons c r =>
    obtain ⟨h1, h2⟩ := ht c rfl
    simp [numExp, h1, h2]

def sgText : Option Char → List Char
  | some c => [c]
  | none => []

theorem numExp_some (e : Char) (sg : Option Char) (ds tl : List Char)
    (he : e = 'e' ∨ e = 'E') (hs : ∀ c, sg = some c → c = '+' ∨ c = '-')
    (hne : ds ≠ []) (hd : allDigits ds) (ht : StopDigits tl) :
    ∃ f : Bool → Bool, ∀ b, numExp false false b (e :: sgText sg ++ ds ++ tl) =
      .ok (e :: sgText sg ++ ds, f b, tl) := by
  cases ds with
  | nil => exact absurd rfl hne
  | cons d ds' =>
    have hdd : isDigit d = true := hd d (by simp)
    have hrest := digitsSep_digits ds' tl (fun x hx => hd x (by simp [hx])) ht
    obtain ⟨hm, hp, _⟩ := digit_ne d hdd
    have hee : (e = 'e' || e = 'E') = true := by rcases he with rfl | rfl <;> decide
    cases sg with
    | none =>
      refine ⟨fun b => b || d = '-', fun b => ?_⟩
      simp [sgText, numExp, hee, hm, hp, hdd, hrest]
    | some c =>
      have hc : (c = '+' || c = '-') = true := by rcases hs c rfl with rfl | rfl <;> decide
      refine ⟨fun b => b || c = '-', fun b => ?_⟩
      simp only [sgText, List.cons_append, List.nil_append]
      simp [numExp, hee, hc, hdd, hrest]

theorem numSuffix_none (b : Bool) (tl : List Char)
    (ht : ∀ c, tl.head? = some c → isL c = false ∧ isU c = false ∧ isF c = false) :
    numSuffix b false tl = .ok ([], tl) := by
  cases tl with
  | nil => rfl
  | cons c r =>
    obtain ⟨h1, h2, h3⟩ := ht c rfl
    simp [numSuffix, h1, h2, h3]

theorem numUdl_none (tl : List Char) (ht : tl.head? ≠ some '_') : numUdl tl = .ok ([], tl) := by
  cases tl with
  | nil => rfl
  | cons c r =>
    have : c ≠ '_' := by simpa using ht
    simp [numUdl, this]

end TfelVerif.C31
