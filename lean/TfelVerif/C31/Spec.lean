/-
C31 — the lexical grammar of the round-trip theorem: lexemes, their rendering, the token each must
produce, and the "must-separate" relation (`Follow`): what may come directly after a lexeme.

Everything here is about the DEFAULT options (`dflt`).
-/
import TfelVerif.C31.Model

namespace TfelVerif.C31

def dflt : Opts := {}

/-! ## lexemes -/

/-- an element of a string literal body: a plain character or a backslash escape -/
inductive SItem where
  | plain (c : Char)
  | esc (c : Char)

def SItem.text : SItem → List Char
  | .plain c => [c]
  | .esc c => ['\\', c]

def SItem.OK : SItem → Prop
  | .plain c => c ≠ '"' ∧ c ≠ '\\'
  | .esc _ => True

def bodyText : List SItem → List Char
  | [] => []
  | i :: is => i.text ++ bodyText is

/-- doxygen marker of a comment -/
inductive Marker where
  | none | fwd | back
  deriving DecidableEq

def Marker.text : Marker → List Char
  | .none => [] | .fwd => ['!'] | .back => ['!', '<']

/-- flag of a comment token; the very first token of a tokenizer is never a doxygen comment -/
def Marker.flag (empty : Bool) : Marker → Flag
  | .none => .comment
  | .fwd => if empty then .comment else .doxygen
  | .back => if empty then .comment else .doxygenBack

/-- the operators and separators of the tokenizer -/
def ops1 : List Char :=
  ['<', '>', ':', '+', '-', '/', '*', '%', '!', '=', '&', '.', '|', '?', ';', '{', '}', '[', ']', '(', ')',
   '^', ',', '`']

def ops2 : List (Char × Char) :=
  [('<', '<'), ('<', '='), ('>', '>'), ('>', '='), (':', ':'), ('+', '+'), ('-', '-'), ('-', '>'), ('+', '='),
   ('-', '='), ('/', '='), ('*', '='), ('%', '='), ('!', '='), ('=', '='), ('&', '&'), ('.', '.'), ('.', '*'),
   ('|', '|'), ('|', '=')]

/-- a decimal number `ip [. frac] [e [sign] digits]` -/
structure Num where
  ip : List Char
  frac : Option (List Char)
  exp : Option (Char × Option Char × List Char)

def Num.fracText (x : Num) : List Char := match x.frac with | some f => '.' :: f | none => []
def Num.expText (x : Num) : List Char :=
  match x.exp with
  | some (e, sg, ds) => e :: (match sg with | some c => [c] | none => []) ++ ds
  | none => []
def Num.text (x : Num) : List Char := x.ip ++ x.fracText ++ x.expText

def allDigits (l : List Char) : Prop := ∀ c ∈ l, isDigit c = true
def allSpaces (l : List Char) : Prop := ∀ c ∈ l, isSpace c = true

def Num.OK (x : Num) : Prop :=
  x.ip ≠ [] ∧ allDigits x.ip ∧
  (match x.frac with | some f => allDigits f | none => True) ∧
  (match x.exp with
   | some (e, sg, ds) => (e = 'e' ∨ e = 'E') ∧ (match sg with | some c => c = '+' ∨ c = '-' | none => True) ∧
       ds ≠ [] ∧ allDigits ds
   | none => True)

inductive Lx where
  /-- identifier, keyword (`@Behaviour`), or any other word free of separators -/
  | word (w : List Char)
  | num (x : Num)
  | str (body : List SItem)
  | chr (c : Char)
  | chrEsc (c : Char)
  | op1 (c : Char)
  | op2 (c d : Char)
  | arrowStar
  /-- `/*` marker blanks text blanks `*/` on one line -/
  | ccom (m : Marker) (ws1 text ws2 : List Char)
  /-- `//` marker blanks text, up to the end of the line -/
  | cxxcom (m : Marker) (ws1 text : List Char)

def Lx.text : Lx → List Char
  | .word w => w
  | .num x => x.text
  | .str b => '"' :: bodyText b ++ ['"']
  | .chr c => ['\'', c, '\'']
  | .chrEsc c => ['\'', '\\', c, '\'']
  | .op1 c => [c]
  | .op2 c d => [c, d]
  | .arrowStar => ['-', '>', '*']
  | .ccom m ws1 t ws2 => '/' :: '*' :: m.text ++ ws1 ++ t ++ ws2 ++ ['*', '/']
  | .cxxcom m ws1 t => '/' :: '/' :: m.text ++ ws1 ++ t

/-- value of the token -/
def Lx.value : Lx → List Char
  | .ccom _ _ t _ => t
  | .cxxcom _ _ t => t
  | l => l.text

/-- offset of the token relative to the first character of the lexeme -/
def Lx.skip : Lx → Nat
  | .ccom m ws1 _ _ => 2 + m.text.length + ws1.length
  | .cxxcom m ws1 _ => 2 + m.text.length + ws1.length
  | _ => 0

def Lx.flag (empty : Bool) : Lx → Flag
  | .word _ => .standard
  | .num _ => .number
  | .str _ => .string
  | .chr _ => .char
  | .chrEsc _ => .char
  | .op1 _ => .standard
  | .op2 _ _ => .standard
  | .arrowStar => .standard
  | .ccom m _ _ _ => m.flag empty
  | .cxxcom m _ _ => m.flag empty

/-- no `*/` inside -/
def noCEnd : List Char → Prop
  | [] => True
  | c :: r => ¬(c = '*' ∧ r.head? = some '/') ∧ noCEnd r

/-- marker / blanks / text of a comment are read back as such -/
def comHeadOK (m : Marker) (ws1 t : List Char) (after : List Char) : Prop :=
  allSpaces ws1 ∧ (∀ c, t.head? = some c → isSpace c = false) ∧
  (match m with
   | .none => (ws1 ++ t ++ after).head? ≠ some '!'
   | .fwd => (ws1 ++ t ++ after).head? ≠ some '<'
   | .back => True)

/-- well-formedness of a lexeme -/
def Lx.OK : Lx → Prop
  | .word w => w ≠ [] ∧ (∀ c ∈ w, isSepOrSpace dflt c = false) ∧
      (∀ c, w.head? = some c → isDigit c = false ∧ c ≠ '#')
  | .num x => x.OK
  | .str b => ∀ i ∈ b, i.OK
  | .chr c => c ≠ '\\'
  | .chrEsc _ => True
  | .op1 c => c ∈ ops1
  | .op2 c d => (c, d) ∈ ops2
  | .arrowStar => True
  | .ccom m ws1 t ws2 => comHeadOK m ws1 t (ws2 ++ ['*', '/']) ∧ allSpaces ws2 ∧ noCEnd t ∧
      (∀ c, t.getLast? = some c → isSpace c = false) ∧ (t = [] → ws2 = [])
  | .cxxcom m ws1 t => comHeadOK m ws1 t []

/-- characters that must not directly follow the one-character operator `c` -/
def join1 (c : Char) : List Char :=
  if c = '<' then ['<', '=']
  else if c = '>' then ['>', '=']
  else if c = ':' then [':']
  else if c = '+' then ['+', '=']
  else if c = '-' then ['-', '=', '>']
  else if c = '/' then ['/', '*', '=']
  else if c = '*' ∨ c = '%' ∨ c = '!' ∨ c = '=' then ['=']
  else if c = '&' then ['&']
  else if c = '.' then ['.', '*']
  else if c = '|' then ['|', '=']
  else []

/-- the must-separate relation: `Follow l rest` says the lexeme `l` may be directly followed by `rest`
    (the rest of the line). Anything may follow after a blank. -/
def Lx.Follow : Lx → List Char → Prop
  | .word w, rest => (∀ c, rest.head? = some c → isSepOrSpace dflt c = true) ∧
      ¬(w = ['R'] ∧ rest.head? = some '"')
  | .num _, rest => ∀ c, rest.head? = some c → isSepOrSpace dflt c = true ∧ c ≠ '.' ∧ c ≠ '\''
  | .op1 c, rest => ∀ d, rest.head? = some d → d ∉ join1 c ∧
      ((c = '+' ∨ c = '-' ∨ c = '.') → isDigit d = false) ∧ ((c = '+' ∨ c = '-') → d ≠ '.')
  | .op2 c d, rest => (c = '-' ∧ d = '>') → rest.head? ≠ some '*'
  | .cxxcom _ _ _, rest => rest = []
  | _, _ => True

/-! ## lines -/

/-- a lexeme and the blanks after it -/
structure Item where
  lx : Lx
  ws : List Char

def renderItems : List Item → List Char
  | [] => []
  | i :: is => i.lx.text ++ i.ws ++ renderItems is

def ItemsOK : List Item → Prop
  | [] => True
  | i :: is => i.lx.OK ∧ allSpaces i.ws ∧ i.lx.Follow (i.ws ++ renderItems is) ∧ ItemsOK is

/-- expected tokens of the items rendered from offset `o` of line `n`; `empty` = no token yet -/
def expToks (n : Nat) : Bool → Nat → List Item → List Tok
  | _, _, [] => []
  | empty, o, i :: is =>
    ⟨i.lx.value, n, o + i.lx.skip, i.lx.flag empty, []⟩ ::
      expToks n false (o + i.lx.text.length + i.ws.length) is

end TfelVerif.C31
