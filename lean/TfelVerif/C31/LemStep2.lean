/-
C31 — one iteration of the main loop: two/three character operators and character literals.
-/
import TfelVerif.C31.LemStep

namespace TfelVerif.C31

@[simp] theorem isDigit_squote : isDigit '\'' = false := by decide
@[simp] theorem isDigit_dquote : isDigit '"' = false := by decide
@[simp] theorem isDigit_slash : isDigit '/' = false := by decide
@[simp] theorem isDigit_minus : isDigit '-' = false := by decide

theorem ops2_notDigit : ∀ p ∈ ops2, isDigit p.1 = false ∧ isDigit p.2 = false := by decide

theorem step_op2 (n : Nat) (s : St) (o : Nat) (prev : Char) (c d : Char) (rest : List Char)
    (hok : (Lx.op2 c d).OK) (hf : (Lx.op2 c d).Follow rest) : StepsTo n s o prev (.op2 c d) rest := by
  refine ⟨c, [d], rfl, ?_⟩
  obtain ⟨hnc, hnd⟩ := ops2_notDigit (c, d) hok
  simp only at hnc hnd
  simp only [Lx.OK, ops2, List.mem_cons, List.not_mem_nil, or_false, Prod.mk.injEq] at hok
  simp only [Lx.Follow] at hf
  have hdm : isDigit '-' = false := by decide
  have hdp : isDigit '+' = false := by decide
  have hdd : isDigit '.' = false := by decide
  have hde : isDigit '*' = false := by decide
  rcases hok with ⟨rfl, rfl⟩ | ⟨rfl, rfl⟩ | ⟨rfl, rfl⟩ | ⟨rfl, rfl⟩ | ⟨rfl, rfl⟩ | ⟨rfl, rfl⟩ | ⟨rfl, rfl⟩ |
    ⟨rfl, rfl⟩ | ⟨rfl, rfl⟩ | ⟨rfl, rfl⟩ | ⟨rfl, rfl⟩ | ⟨rfl, rfl⟩ | ⟨rfl, rfl⟩ | ⟨rfl, rfl⟩ | ⟨rfl, rfl⟩ |
    ⟨rfl, rfl⟩ | ⟨rfl, rfl⟩ | ⟨rfl, rfl⟩ | ⟨rfl, rfl⟩ | ⟨rfl, rfl⟩
  case inr.inr.inr.inr.inr.inr.inr.inl =>
    -- `->` not followed by `*`
    cases rest with
    | nil => simp [stdStep, tok1, dflt, hdm, Lx.value, Lx.text, Lx.skip, Lx.flag]
    | cons x r =>
      have hx : x ≠ '*' := by simpa using hf
      simp [stdStep, tok1, hx, dflt, hdm, Lx.value, Lx.text, Lx.skip, Lx.flag]
  all_goals
    simp [stdStep, joinLen, tok1, peek, dflt, hnc, hnd, Lx.value, Lx.text, Lx.skip, Lx.flag]

theorem step_arrowStar (n : Nat) (s : St) (o : Nat) (prev : Char) (rest : List Char) :
    StepsTo n s o prev .arrowStar rest := by
  refine ⟨'-', ['>', '*'], rfl, ?_⟩
  have hdm : isDigit '-' = false := by decide
  simp [stdStep, tok1, hdm, Lx.value, Lx.text, Lx.skip, Lx.flag]

theorem step_chr (n : Nat) (s : St) (o : Nat) (prev : Char) (c : Char) (rest : List Char)
    (hok : (Lx.chr c).OK) : StepsTo n s o prev (.chr c) rest := by
  refine ⟨'\'', [c, '\''], rfl, ?_⟩
  have hc : c ≠ '\\' := hok
  simp [stdStep, parseChar, tok1, peek, hc, dflt, Lx.value, Lx.text, Lx.skip, Lx.flag]

theorem step_chrEsc (n : Nat) (s : St) (o : Nat) (prev : Char) (c : Char) (rest : List Char) :
    StepsTo n s o prev (.chrEsc c) rest := by
  refine ⟨'\'', ['\\', c, '\''], rfl, ?_⟩
  simp [stdStep, parseChar, tok1, dflt, Lx.value, Lx.text, Lx.skip, Lx.flag]

end TfelVerif.C31
