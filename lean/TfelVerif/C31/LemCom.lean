/-
C31 — `parseCxxComment` / `parseCComment` on the comment grammar.
-/
import TfelVerif.C31.LemStr

namespace TfelVerif.C31

theorem comHead_cases (m : Marker) (ws1 t after : List Char) (h : comHeadOK m ws1 t after) (tl : List Char)
    (hne : after ≠ [] ∨ tl = []) :
    MarkerHead m (ws1 ++ (t ++ (after ++ tl))) := by
  obtain ⟨_, _, hm⟩ := h
  have key : (ws1 ++ (t ++ (after ++ tl))).head? = (ws1 ++ t ++ after).head? := by
    cases ws1 with
    | cons a b => simp
    | nil =>
      cases t with
      | cons a b => simp
      | nil =>
        cases after with
        | cons a b => simp
        | nil =>
          rcases hne with h | h
          · exact absurd rfl h
          · simp [h]
  cases m with
  | none => simpa [MarkerHead, key] using hm
  | fwd => simpa [MarkerHead, key] using hm
  | back => trivial

theorem parseCxxComment_spec (n : Nat) (s : St) (o : Nat) (m : Marker) (ws1 t : List Char)
    (h : comHeadOK m ws1 t []) :
    parseCxxComment dflt n s o ('/' :: '/' :: (m.text ++ (ws1 ++ t))) =
      (push s ⟨t, n, o + (2 + m.text.length + ws1.length), m.flag s.toks.isEmpty, []⟩,
       o + (2 + m.text.length + ws1.length + t.length)) := by
  have hm := comHead_cases m ws1 t [] h [] (Or.inr rfl)
  simp only [List.append_nil] at hm
  have hd := doxyFlag_marker s.toks.isEmpty m (ws1 ++ t) hm
  have hs := skipSpaces_append ws1 t h.1 h.2.1
  simp only [parseCxxComment, List.drop, dflt, hd, hs]
  simp [Nat.add_assoc]

theorem splitCEnd_close (rest : List Char) : splitCEnd ('*' :: '/' :: rest) = some ([], rest) := by
  simp [splitCEnd]

theorem parseCComment_spec (n : Nat) (s : St) (o : Nat) (m : Marker) (ws1 t ws2 rest : List Char)
    (h : (Lx.ccom m ws1 t ws2).OK) :
    parseCComment dflt n s o ('/' :: '*' :: (m.text ++ (ws1 ++ (t ++ (ws2 ++ ('*' :: '/' :: rest)))))) =
      (push s ⟨t, n, o + (2 + m.text.length + ws1.length), m.flag s.toks.isEmpty, []⟩,
       o + (2 + m.text.length + ws1.length + t.length + ws2.length + 2), rest) := by
  obtain ⟨hhead, hws2, hnoend, hlast, hempty⟩ := h
  have hm := comHead_cases m ws1 t (ws2 ++ ['*', '/']) hhead rest (Or.inl (by simp))
  have hX : ws1 ++ (t ++ ((ws2 ++ ['*', '/']) ++ rest)) = ws1 ++ (t ++ (ws2 ++ ('*' :: '/' :: rest))) := by
    simp
  rw [hX] at hm
  have hd := doxyFlag_marker s.toks.isEmpty m (ws1 ++ (t ++ (ws2 ++ ('*' :: '/' :: rest)))) hm
  -- the blanks after the marker
  have hY : ∀ c, (t ++ (ws2 ++ ('*' :: '/' :: rest))).head? = some c → isSpace c = false := by
    intro c hc
    cases t with
    | cons a b => exact hhead.2.1 c (by simpa using hc)
    | nil =>
      have : ws2 = [] := hempty rfl
      subst this
      have : c = '*' := by simpa using hc.symm
      subst this; decide
  have hs := skipSpaces_append ws1 _ hhead.1 hY
  -- the end of the comment
  have hslash : (ws2 ++ ('*' :: '/' :: rest)).head? ≠ some '/' := by
    cases ws2 with
    | nil => simp
    | cons a b =>
      have ha : isSpace a = true := hws2 a (by simp)
      intro hh
      have : a = '/' := by simpa using hh
      subst this; revert ha; decide
  have he : splitCEnd (t ++ (ws2 ++ ('*' :: '/' :: rest))) = some (t ++ ws2, rest) := by
    rw [splitCEnd_text t _ hnoend hslash, splitCEnd_spaces ws2 _ hws2, splitCEnd_close]
    simp
  have htrim := trimRight_text t ws2 hws2 hlast
  simp only [parseCComment, List.drop, dflt, hd, hs, he, htrim]
  simp [Nat.add_assoc]

end TfelVerif.C31
