/-
C31 — lines and files of the round-trip theorem: layout, rendering, expected tokens.
-/
import TfelVerif.C31.Spec

namespace TfelVerif.C31

/-- a line: blanks then lexemes, or a preprocessor directive `# key` followed by lexemes -/
inductive Line where
  | std (ws0 : List Char) (items : List Item)
  | pp (ws0 ws1 key ws2 : List Char) (items : List Item)

def Line.render : Line → List Char
  | .std ws0 is => ws0 ++ renderItems is
  | .pp ws0 ws1 key ws2 is => ws0 ++ '#' :: (ws1 ++ (key ++ (ws2 ++ renderItems is)))

def Line.OK : Line → Prop
  | .std ws0 is => allSpaces ws0 ∧ ItemsOK is
  | .pp ws0 ws1 key ws2 is =>
    allSpaces ws0 ∧ allSpaces ws1 ∧ key ∈ ppKeywords ∧ allSpaces ws2 ∧ ItemsOK is ∧
      -- must-separate: the keyword is followed by a blank, the end of the line or a separator
      (ws2 = [] → ∀ c, (renderItems is).head? = some c → isSepOrSpace dflt c = true)

/-- expected tokens of line number `n`; `empty` = no token before this line -/
def Line.toks (n : Nat) (empty : Bool) : Line → List Tok
  | .std ws0 is => expToks n empty ws0.length is
  | .pp ws0 ws1 key ws2 is =>
    ⟨['#'], n, ws0.length, .preproc, []⟩ :: ⟨key, n, ws0.length + 1 + ws1.length, .preproc, []⟩ ::
      expToks n false (ws0.length + 1 + ws1.length + key.length + ws2.length) is

/-- the lines joined by newlines -/
def renderFile : List Line → List Char
  | [] => []
  | l :: ls =>
    match ls with
    | [] => l.render
    | _ :: _ => l.render ++ '\n' :: renderFile ls

def fileToks : Nat → Bool → List Line → List Tok
  | _, _, [] => []
  | n, empty, l :: ls => l.toks n empty ++ fileToks (n + 1) (empty && (l.toks n empty).isEmpty) ls

end TfelVerif.C31
