/-
C31 — property theorems about the tokenizer model (Model.lean); helper lemmas in Strip.lean / Lemmas.lean.
-/
import TfelVerif.C31.Strip

namespace TfelVerif.C31

/-- (b) `stripComments` removes exactly the comment tokens: what is left is, token for token (value, line,
    offset, flag), the list of the non-comment tokens in their original order. (Only the documentation
    strings attached to the surviving tokens may change.) -/
theorem stripComments_removes_exactly_the_comments (ts : List Tok) :
    (stripComments ts).map Tok.core = (ts.filter fun t => !isCommentFlag t.flag).map Tok.core := by
  simpa [stripComments] using stripLoop_core ts [] none

/-- (b) no comment token survives `stripComments` -/
theorem stripComments_leaves_no_comment (ts : List Tok) :
    ∀ t ∈ stripComments ts, isCommentFlag t.flag = false := by
  intro t ht
  have h := stripComments_removes_exactly_the_comments ts
  have hm : t.core ∈ (stripComments ts).map Tok.core := List.mem_map_of_mem ht
  rw [h] at hm
  obtain ⟨u, hu, hcore⟩ := List.mem_map.mp hm
  have hflag : u.flag = t.flag := by
    have := congrArg (fun c => c.2.2.2) hcore
    simpa [Tok.core] using this
  have := (List.mem_filter.mp hu).2
  simpa [hflag] using this

example : (stripComments [⟨['a'], 1, 0, .comment, []⟩, ⟨['x'], 1, 3, .standard, []⟩,
    ⟨['d'], 1, 5, .doxygenBack, []⟩]).map Tok.core = [(['x'], 1, 3, .standard)] := by decide

end TfelVerif.C31
