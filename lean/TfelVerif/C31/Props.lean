/-
C31 — property theorems about the tokenizer model (Model.lean).
Grammar and layout of the round trip: Spec.lean / SpecFile.lean; helper lemmas: Lem*.lean, Strip.lean.
-/
import TfelVerif.C31.Strip
import TfelVerif.C31.LemFile
import TfelVerif.C31.LemFuel4

namespace TfelVerif.C31

/-! ## (a) round trip, default options

A file is a non-empty list of lines; a line is blanks followed by lexemes (`Line.std`) or a preprocessor
directive `# keyword` followed by lexemes (`Line.pp`); each lexeme is followed by arbitrary blanks
(`Item.ws`, any of the six `isspace` characters except that a line contains no `\n`). The lexemes (`Lx`) are
words (identifiers, `@Keyword`s, …: any run of characters that are neither separators nor blanks and that
does not start with a digit or `#`), decimal numbers, string literals with escapes, character literals,
the 24 one-character, 20 two-character operators/separators of the tokenizer and `->*`, one-line C
comments and C++ comments (with the doxygen markers `!` and `!<`). `Lx.Follow` is the must-separate
relation: what may come directly (without a blank) after a lexeme.
-/

/-- (a) `tokenize (render ls) = ls`: every file rendered from well-formed lexemes with a layout that respects
    the must-separate relation is tokenized into exactly the expected tokens `fileToks 1 true ls` — one per
    lexeme, in order, with its value, its flag, its line number (from 1) and its offset in the line —
    and the tokenizer ends in a clean state (no opened comment or raw string). -/
theorem tokenize_render (ls : List Line) (hne : ls ≠ []) (hok : ∀ l ∈ ls, l.OK)
    (hnl : ∀ l ∈ ls, '\n' ∉ l.render) :
    ∃ st, tokenize dflt (renderFile ls) = .ok (fileToks 1 true ls, st) ∧
      st.cOpen = false ∧ st.rawOpen = false := by
  have h1 := splitLines_renderFile ls hne hnl
  have h2 := parseLines_lines (renderFile ls) ls 1 {} rfl rfl hok
  refine ⟨{ ({} : St) with toks := (fileToks 1 true ls).reverse ++ [] }, ?_, rfl, rfl⟩
  have hB : dflt.addCurlyBraces = false := rfl
  simp [tokenize, h1, h2, hB]

/-- (a) one token per lexeme, in order: values and flags of the tokens of a line are those of its lexemes
    (`empty` = no token before: the first token of a tokenizer is never flagged as a doxygen comment) -/
theorem expToks_values (n : Nat) (is : List Item) : ∀ (empty : Bool) (o : Nat),
    (expToks n empty o is).map (fun t => t.value) = is.map (fun i => i.lx.value) ∧
    (expToks n empty o is).map (fun t => t.line) = is.map (fun _ => n) ∧
    ((expToks n empty o is).map (fun t => t.flag)).tail = (is.map (fun i => i.lx.flag false)).tail := by
  induction is with
  | nil => intro _ _; simp [expToks]
  | cons i is ih =>
    intro empty o
    obtain ⟨h1, h2, h3⟩ := ih false (o + i.lx.text.length + i.ws.length)
    refine ⟨by simp [expToks, h1], by simp [expToks, h2], ?_⟩
    simp only [expToks, List.map_cons, List.tail_cons]
    cases is with
    | nil => simp [expToks]
    | cons j js =>
      simp only [expToks, List.map_cons, List.tail_cons] at h3 ⊢
      rw [h3]

/-- (a) positions: the offset of the first token of a run of items is the offset of its lexeme (plus, for
    a comment, the `/*`/`//`, marker and blanks before its text); the next lexeme starts after the text and
    the blanks of this one -/
theorem expToks_offsets (n : Nat) (empty : Bool) (o : Nat) (i : Item) (is : List Item) :
    expToks n empty o (i :: is) =
      ⟨i.lx.value, n, o + i.lx.skip, i.lx.flag empty, []⟩ ::
        expToks n false (o + i.lx.text.length + i.ws.length) is := rfl

/-! ## (b) `stripComments` -/

/-- (b) `stripComments` removes exactly the comment tokens: what is left is, token for token (value, line,
    offset, flag), the list of the non-comment tokens in their original order. (Only the documentation
    strings attached to the surviving tokens may change.) -/
theorem stripComments_removes_exactly_the_comments (ts : List Tok) :
    (stripComments ts).map Tok.core = (ts.filter fun t => !isCommentFlag t.flag).map Tok.core := by
  simpa [stripComments] using stripLoop_core ts [] none

/-- (b) no comment token survives `stripComments` -/
theorem stripComments_leaves_no_comment (ts : List Tok) :
    ∀ t ∈ stripComments ts, isCommentFlag t.flag = false := by
  intro t ht
  have h := stripComments_removes_exactly_the_comments ts
  have hm : t.core ∈ (stripComments ts).map Tok.core := List.mem_map_of_mem ht
  rw [h] at hm
  obtain ⟨u, hu, hcore⟩ := List.mem_map.mp hm
  have hflag : u.flag = t.flag := by
    have := congrArg (fun c => c.2.2.2) hcore
    simpa [Tok.core] using this
  have := (List.mem_filter.mp hu).2
  simpa [hflag] using this

example : (stripComments [⟨['a'], 1, 0, .comment, []⟩, ⟨['x'], 1, 3, .standard, []⟩,
    ⟨['d'], 1, 5, .doxygenBack, []⟩]).map Tok.core = [(['x'], 1, 3, .standard)] := by decide

/-! ## (c) totality

Every function of the model is accepted by Lean as a structural recursion (over the remaining characters,
or over the explicit fuel of `stdLoop`), and every read of a character is guarded (`peek`, pattern matching).
The two theorems below show that the fuel is not a hidden partiality: for EVERY option set and EVERY input
an iteration consumes at least one character, so the loop started by `parseStandardLine` with
`fuel = length + 1` never reaches its `out of fuel` branch (its result is the same for any larger fuel).
-/

/-- (c) progress: whatever the options and the input, a successful iteration of the main loop leaves a
    strict suffix of `c :: r` -/
theorem main_loop_progress (op : Opts) (n : Nat) (s : St) (o : Nat) (prev c : Char) (r : List Char)
    (s' : St) (o' : Nat) (cons rest : List Char)
    (h : stdStep op n s o prev c r = .ok (s', o', cons, rest)) : rest.length ≤ r.length :=
  stdStep_progress op n s o prev c r s' o' cons rest h

/-- (c) the fuel `length + 1` used by `parseStandardLine` is sufficient: any larger fuel gives the same result -/
theorem main_loop_fuel_is_sufficient (op : Opts) (n : Nat) (s : St) (o : Nat) (prev : Char) (l : List Char)
    (f : Nat) (hf : l.length < f) :
    stdLoop op n f s o prev l = stdLoop op n (l.length + 1) s o prev l :=
  stdLoop_fuel_irrelevant op n f (l.length + 1) s o prev l hf (Nat.lt_succ_self _)

/-! ## non-vacuity of (a): a two-line file satisfying every hypothesis -/

/-- ` x =1.5;// c` / `#if X` -/
def sampleFile : List Line :=
  [.std [' '] [⟨.word ['x'], [' ']⟩, ⟨.op1 '=', []⟩, ⟨.num ⟨['1'], some ['5'], none⟩, []⟩, ⟨.op1 ';', []⟩,
      ⟨.cxxcom .none [' '] ['c'], []⟩],
   .pp [] [] ['i', 'f'] [' '] [⟨.word ['X'], []⟩]]

example : tokenize dflt (renderFile sampleFile) =
    .ok ([⟨['x'], 1, 1, .standard, []⟩, ⟨['='], 1, 3, .standard, []⟩, ⟨['1', '.', '5'], 1, 4, .number, []⟩,
          ⟨[';'], 1, 7, .standard, []⟩, ⟨['c'], 1, 11, .comment, []⟩, ⟨['#'], 2, 0, .preproc, []⟩,
          ⟨['i', 'f'], 2, 1, .preproc, []⟩, ⟨['X'], 2, 4, .standard, []⟩],
         { toks := (fileToks 1 true sampleFile).reverse }) := by rfl

example : fileToks 1 true sampleFile =
    [⟨['x'], 1, 1, .standard, []⟩, ⟨['='], 1, 3, .standard, []⟩, ⟨['1', '.', '5'], 1, 4, .number, []⟩,
     ⟨[';'], 1, 7, .standard, []⟩, ⟨['c'], 1, 11, .comment, []⟩, ⟨['#'], 2, 0, .preproc, []⟩,
     ⟨['i', 'f'], 2, 1, .preproc, []⟩, ⟨['X'], 2, 4, .standard, []⟩] := by rfl

/-- the sample file satisfies the hypotheses of `tokenize_render` -/
example : sampleFile ≠ [] ∧ (∀ l ∈ sampleFile, l.OK) ∧ (∀ l ∈ sampleFile, '\n' ∉ l.render) := by
  refine ⟨by simp [sampleFile], ?_, ?_⟩
  · intro l hl
    simp only [sampleFile, List.mem_cons, List.not_mem_nil, or_false] at hl
    rcases hl with rfl | rfl
    · simp [Line.OK, ItemsOK, Lx.OK, Lx.Follow, allSpaces, allDigits, Num.OK, comHeadOK, renderItems, Lx.text,
        Num.text, Num.fracText, Num.expText, Marker.text, ops1, join1]
      decide
    · simp [Line.OK, ItemsOK, Lx.OK, Lx.Follow, allSpaces, renderItems, Lx.text, ppKeywords]
      decide
  · intro l hl
    simp only [sampleFile, List.mem_cons, List.not_mem_nil, or_false] at hl
    rcases hl with rfl | rfl <;>
      simp [Line.render, renderItems, Lx.text, Num.text, Num.fracText, Num.expText, Marker.text]

end TfelVerif.C31
