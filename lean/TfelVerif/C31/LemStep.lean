/-
C31 — one iteration of the main loop on each class of lexeme.
-/
import TfelVerif.C31.LemBasic

namespace TfelVerif.C31

/-- what one iteration must do on the lexeme `l` followed by `rest` -/
def StepsTo (n : Nat) (s : St) (o : Nat) (prev : Char) (l : Lx) (rest : List Char) : Prop :=
  ∃ c r, l.text = c :: r ∧
    stdStep dflt n s o prev c (r ++ rest) =
      .ok (push s ⟨l.value, n, o + l.skip, l.flag s.toks.isEmpty, []⟩, o + l.text.length, l.text, rest)

theorem step_word (n : Nat) (s : St) (o : Nat) (prev : Char) (w rest : List Char)
    (hok : (Lx.word w).OK) (hf : (Lx.word w).Follow rest) : StepsTo n s o prev (.word w) rest := by
  obtain ⟨hne, hall, hhead⟩ := hok
  obtain ⟨hrest, hR⟩ := hf
  cases w with
  | nil => exact absurd rfl hne
  | cons c r =>
    refine ⟨c, r, rfl, ?_⟩
    have hc : isSepOrSpace dflt c = false := hall c (by simp)
    obtain ⟨h1, h2, h3, h4, h5, h6, h7, h8, h9, h10, h11, h12, h13, h14, h15, h16⟩ := notSep_ne c hc
    obtain ⟨hd, hh⟩ := hhead c rfl
    have hRaw : ¬(c = 'R' ∧ (r ++ rest).head? = some '"') := by
      rintro ⟨e, hq⟩
      cases r with
      | nil => exact hR ⟨by simp [e], by simpa using hq⟩
      | cons d r' =>
        have hdq : d = '"' := by simpa using hq
        have := hall d (by simp)
        rw [hdq] at this
        revert this; decide
    have htw := takeWord_append (c :: r) rest hall hrest
    simp only [List.cons_append] at htw
    generalize r ++ rest = tl at hRaw htw ⊢
    simp [stdStep, hh, h1, h2, h3, h4, h5, h6, h7, h8, h9, h10, h11, h12, h13, h14, h15, h16, hd, hRaw, htw,
      tok1, Lx.value, Lx.text, Lx.skip, Lx.flag]


theorem ops1_sep : ∀ c ∈ ops1, isSepOrSpace dflt c = true := by decide

theorem ops1_notDigit : ∀ c ∈ ops1, isDigit c = false := by decide

theorem step_op1 (n : Nat) (s : St) (o : Nat) (prev : Char) (c : Char) (rest : List Char)
    (hok : (Lx.op1 c).OK) (hf : (Lx.op1 c).Follow rest) : StepsTo n s o prev (.op1 c) rest := by
  refine ⟨c, [], rfl, ?_⟩
  have hsep := ops1_sep c hok
  have hnd := ops1_notDigit c hok
  simp only [List.nil_append]
  simp only [Lx.OK, ops1, List.mem_cons, List.not_mem_nil, or_false] at hok
  cases rest with
  | nil =>
    rcases hok with rfl | rfl | rfl | rfl | rfl | rfl | rfl | rfl | rfl | rfl | rfl | rfl | rfl | rfl | rfl | rfl |
      rfl | rfl | rfl | rfl | rfl | rfl | rfl | rfl <;>
    simp [stdStep, joinLen, tok1, takeWord, hsep, hnd, peek, Lx.value, Lx.text, Lx.skip, Lx.flag]
  | cons d r =>
    have hd := hf d rfl
    rcases hok with rfl | rfl | rfl | rfl | rfl | rfl | rfl | rfl | rfl | rfl | rfl | rfl | rfl | rfl | rfl | rfl |
      rfl | rfl | rfl | rfl | rfl | rfl | rfl | rfl <;>
    simp [join1] at hd <;>
    simp [stdStep, joinLen, tok1, takeWord, hsep, hnd, hd, peek, Lx.value, Lx.text, Lx.skip, Lx.flag]

end TfelVerif.C31
