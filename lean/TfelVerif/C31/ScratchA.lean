import TfelVerif.C31.LemFuel
namespace TfelVerif.C31
theorem numExp_len' (x y z : Bool) (l a b : List Char) (f : Bool) (h : numExp x y z l = .ok (a, f, b)) :
    b.length ≤ l.length := by
  unfold numExp at h
  split at h
  · split at h
    · split at h
      · cases h
      · split at h
        · cases h
        · split at h
          · cases h
          · simp only at h
            split at h
            · cases h
            · split at h
              · cases h
              · split at h
                · cases h
                · split at h
                  · cases h
                    trace_state
                    all_goals sorry
                  · cases h
    · cases h; simp
  · cases h; simp
end TfelVerif.C31
