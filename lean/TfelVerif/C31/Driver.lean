/-
C31 — line-protocol driver of the tokenizer model (same protocol as harness/C31/harness.cxx).
in : "<options> <hex bytes>"
out: "ok c=<0|1> r=<0|1> d=<hex>|<tokens>|<tokens after stripComments>"  or  "err <hex of what()>"
-/
import TfelVerif.C31.Model
open TfelVerif.C31

def hexDigit (n : Nat) : Char := if n < 10 then Char.ofNat (48 + n) else Char.ofNat (87 + n)

def byteHex (b : Nat) (acc : String) : String := (acc.push (hexDigit (b / 16))).push (hexDigit (b % 16))

/-- bytes < 256 are input bytes; other characters come from message literals (UTF-8 encoded) -/
def hexOf (l : List Char) : String :=
  if l.isEmpty then "-" else
  l.foldl (fun acc c =>
    if c.toNat < 256 then byteHex c.toNat acc
    else (String.singleton c).toUTF8.foldl (fun a b => byteHex b.toNat a) acc) ""

def hexVal (c : Char) : Option Nat :=
  if '0' ≤ c ∧ c ≤ '9' then some (c.toNat - 48)
  else if 'a' ≤ c ∧ c ≤ 'f' then some (c.toNat - 87) else none

def unhex : List Char → Option (List Char)
  | [] => some []
  | a :: b :: r =>
    match hexVal a, hexVal b, unhex r with
    | some x, some y, some t => some (Char.ofNat (16 * x + y) :: t)
    | _, _, _ => none
  | _ => none

def parseOpts (s : String) : Option Opts :=
  if s = "-" then some {} else
  s.toList.foldl (fun (o : Option Opts) c =>
    match o with
    | none => none
    | some o =>
      match c with
      | 'k' => some { o with keepCommentBoundaries := true }
      | 'm' => some { o with mergeStrings := true }
      | 'h' => some { o with allowStrayHash := true }
      | 'H' => some { o with hashAsComment := true }
      | 'b' => some { o with allowStrayBackSlash := true }
      | 'p' => some { o with treatPreprocessor := false }
      | 's' => some { o with treatStrings := false }
      | 'n' => some { o with treatNumbers := false }
      | 'c' => some { o with treatCComments := false }
      | 'x' => some { o with treatCxxComments := false }
      | 'j' => some { o with joinTwo := false }
      | 'g' => some { o with graveAsSep := false }
      | 'q' => some { o with charAsString := true }
      | 'd' => some { o with dotAsSep := false }
      | 'P' => some { o with plusAsSep := false }
      | 'M' => some { o with minusAsSep := false }
      | 'B' => some { o with addCurlyBraces := true }
      | _ => none) (some {})

def showToks (ts : List Tok) : String :=
  ";".intercalate (ts.map fun t =>
    s!"{t.flag.code},{t.line},{t.off},{hexOf t.value},{hexOf t.comment}")

def b01 (b : Bool) : String := if b then "1" else "0"

def answer (line : String) : String :=
  match line.splitOn " " with
  | [so, sh] =>
    match parseOpts so, (if sh = "-" then some [] else unhex sh.toList) with
    | some o, some input =>
      match tokenize o input with
      | .error e => "err " ++ hexOf e
      | .ok (ts, s) =>
        s!"ok c={b01 s.cOpen} r={b01 s.rawOpen} d={hexOf s.rawDelim}|{showToks ts}|{showToks (stripComments ts)}"
    | _, _ => "bad-request"
  | _ => "bad-request"

partial def loop (hin hout : IO.FS.Stream) : IO Unit := do
  let line ← hin.getLine
  if line.isEmpty then return
  hout.putStrLn (answer (line.trimRight))
  loop hin hout

def main : IO Unit := do
  let hin ← IO.getStdin
  let hout ← IO.getStdout
  loop hin hout
  hout.flush
