/-
C31 — `splitLine` on a line of the grammar, `parseLines`/`tokenize` on a file of such lines.
-/
import TfelVerif.C31.LemLine
import TfelVerif.C31.SpecFile

namespace TfelVerif.C31

theorem ppKeywords_chars : ∀ k ∈ ppKeywords, k ≠ [] ∧ ∀ c ∈ k, isSepOrSpace dflt c = false := by decide

theorem splitLine_std (n : Nat) (s : St) (ws0 : List Char) (is : List Item)
    (hc : s.cOpen = false) (hr : s.rawOpen = false) (hws : allSpaces ws0) (hok : ItemsOK is) :
    splitLine dflt n s (ws0 ++ renderItems is) =
      .ok { s with toks := (expToks n s.toks.isEmpty ws0.length is).reverse ++ s.toks } := by
  have hhead := renderItems_head is hok
  have hskip := skipSpaces_append ws0 (renderItems is) hws (fun d hd => (hhead d hd).1)
  have hpp : (peek (renderItems is) = '#' && !(renderItems is).isEmpty) = false := by
    cases hR : renderItems is with
    | nil => simp
    | cons c r =>
      have : c ≠ '#' := (hhead c (by simp [hR])).2
      simp [peek, this]
  have hps := parseStandardLine_items n s (0 + ws0.length)
    (if ws0.length = 0 then ' ' else ' ') [] is (by intro c hc; cases hc) hok
  simp only [List.nil_append] at hps
  simp only [splitLine, hc, hr, Bool.false_eq_true, ↓reduceIte, hskip, hpp, Bool.false_and]
  simp only [ite_self] at hps ⊢
  rw [hps]
  simp [hc, hr]

theorem splitLine_pp (n : Nat) (s : St) (ws0 ws1 key ws2 : List Char) (is : List Item)
    (hc : s.cOpen = false) (hr : s.rawOpen = false) (hok : (Line.pp ws0 ws1 key ws2 is).OK) :
    splitLine dflt n s ((Line.pp ws0 ws1 key ws2 is).render) =
      .ok { s with toks := ((Line.pp ws0 ws1 key ws2 is).toks n s.toks.isEmpty).reverse ++ s.toks } := by
  obtain ⟨hws0, hws1, hkey, hws2, hitems, hsep⟩ := hok
  obtain ⟨hkne, hkch⟩ := ppKeywords_chars key hkey
  have hskip0 := skipSpaces_append ws0 ('#' :: (ws1 ++ (key ++ (ws2 ++ renderItems is)))) hws0
    (fun d hd => by
      have : d = '#' := by simpa using hd.symm
      subst this; decide)
  -- the blanks after `#`, then the keyword
  have hkhead : ∀ d, (key ++ (ws2 ++ renderItems is)).head? = some d → isSpace d = false := by
    intro d hd
    cases key with
    | nil => exact absurd rfl hkne
    | cons a b =>
      have : d = a := by simpa using hd.symm
      subst this
      have := hkch d (by simp)
      simp only [isSepOrSpace, Bool.or_eq_false_iff] at this
      exact this.1
  have hskip1 := skipSpaces_append ws1 (key ++ (ws2 ++ renderItems is)) hws1 hkhead
  have hafter : ∀ d, (ws2 ++ renderItems is).head? = some d → isSepOrSpace dflt d = true := by
    intro d hd
    cases ws2 with
    | nil => exact hsep rfl d (by simpa using hd)
    | cons a b =>
      have : d = a := by simpa using hd.symm
      subst this
      have := hws2 d (by simp)
      simp [isSepOrSpace, this]
  have htw := takeWord_append key (ws2 ++ renderItems is) hkch hafter
  have hcont : ppKeywords.contains key = true := by simpa using hkey
  obtain ⟨k0, krest, hk⟩ : ∃ k0 krest, key ++ (ws2 ++ renderItems is) = k0 :: krest := by
    cases key with
    | nil => exact absurd rfl hkne
    | cons a b => exact ⟨a, _, rfl⟩
  have hkempty : key.isEmpty = false := by
    cases key with
    | nil => exact absurd rfl hkne
    | cons a b => rfl
  have hT : dflt.treatPreprocessor = true := rfl
  have hps := parseStandardLine_items n
    (tok1 (tok1 s n (0 + ws0.length) ['#'] .preproc) n (0 + ws0.length + 1 + ws1.length) key .preproc)
    (0 + ws0.length + 1 + ws1.length + key.length) ' ' ws2 is hws2 hitems
  simp only [Line.render, splitLine, hc, hr, Bool.false_eq_true, ↓reduceIte, hskip0, peek, List.headD_cons,
    List.isEmpty_cons, Bool.not_false, Bool.and_true, hT, decide_true, parsePreprocessorDirective,
    List.tail_cons, hskip1, htw, hkempty, hcont, Bool.not_true]
  rw [hk]
  simp only [hps]
  simp [tok1, push, Line.toks, Nat.add_assoc, hc, hr]

theorem splitLine_line (n : Nat) (s : St) (l : Line) (hc : s.cOpen = false) (hr : s.rawOpen = false)
    (hok : l.OK) :
    splitLine dflt n s l.render = .ok { s with toks := (l.toks n s.toks.isEmpty).reverse ++ s.toks } := by
  cases l with
  | std ws0 is => exact splitLine_std n s ws0 is hc hr hok.1 hok.2
  | pp ws0 ws1 key ws2 is => exact splitLine_pp n s ws0 ws1 key ws2 is hc hr hok

/-! ### files -/

theorem splitLines_ne_nil (l : List Char) : splitLines l ≠ [] := by
  induction l with
  | nil => simp [splitLines]
  | cons c r ih =>
    unfold splitLines
    by_cases h : c = '\n'
    · simp [h]
    · simp only [h, ↓reduceIte]
      cases splitLines r <;> simp

theorem splitLines_single (a : List Char) (h : '\n' ∉ a) : splitLines a = [a] := by
  induction a with
  | nil => rfl
  | cons c a ih =>
    have hc : c ≠ '\n' := fun e => h (by simp [e])
    have := ih (fun hm => h (by simp [hm]))
    simp [splitLines, hc, this]

theorem splitLines_append (a b : List Char) (h : '\n' ∉ a) :
    splitLines (a ++ '\n' :: b) = a :: splitLines b := by
  induction a with
  | nil => simp [splitLines]
  | cons c a ih =>
    have hc : c ≠ '\n' := fun e => h (by simp [e])
    have := ih (fun hm => h (by simp [hm]))
    simp [splitLines, hc, this]

theorem splitLines_renderFile (ls : List Line) (hne : ls ≠ []) (hnl : ∀ l ∈ ls, '\n' ∉ l.render) :
    splitLines (renderFile ls) = ls.map Line.render := by
  induction ls with
  | nil => exact absurd rfl hne
  | cons l ls ih =>
    cases ls with
    | nil => simpa [renderFile] using splitLines_single l.render (hnl l (by simp))
    | cons l2 ls2 =>
      have := ih (by simp) (fun x hx => hnl x (by simp [hx]))
      simp only [renderFile] at this ⊢
      rw [splitLines_append _ _ (hnl l (by simp)), this]
      simp

theorem isEmpty_reverse_append {α} (a b : List α) :
    (a.reverse ++ b).isEmpty = (b.isEmpty && a.isEmpty) := by
  cases a <;> cases b <;> simp

theorem parseLines_lines (input : List Char) : ∀ (ls : List Line) (n : Nat) (s : St),
    s.cOpen = false → s.rawOpen = false → (∀ l ∈ ls, l.OK) →
    parseLines dflt input n s (ls.map Line.render) =
      .ok { s with toks := (fileToks n s.toks.isEmpty ls).reverse ++ s.toks } := by
  intro ls
  induction ls with
  | nil => intro n s _ _ _; simp [parseLines, fileToks]
  | cons l ls ih =>
    intro n s hc hr hok
    have h1 := splitLine_line n s l hc hr (hok l (by simp))
    simp only [List.map_cons, parseLines, h1]
    rw [ih (n + 1) { s with toks := (l.toks n s.toks.isEmpty).reverse ++ s.toks } hc hr
      (fun x hx => hok x (by simp [hx]))]
    simp [fileToks, isEmpty_reverse_append]

end TfelVerif.C31
