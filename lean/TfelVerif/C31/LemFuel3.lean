/-
C31 — progress of `parseNumber`, of one iteration of the main loop, and the fuel theorem.
-/
import TfelVerif.C31.LemFuel2

namespace TfelVerif.C31

theorem numIntPart_len (c : Char) (r ip l3 : List Char) (f bi hx : Bool)
    (h : numIntPart (c :: r) = .ok (ip, f, bi, hx, l3)) (hc : isDigit c = true ∨ c = '.') :
    l3.length ≤ r.length := by
  cases hl : numLead (c :: r) with
  | error e => simp [numIntPart, hl] at h
  | ok v =>
    obtain ⟨ld, f0, b0, h0, l2⟩ := v
    cases hd : digitsSep l2 with
    | error e => simp [numIntPart, hl, hd] at h
    | ok w =>
      obtain ⟨ds, l3'⟩ := w
      simp only [numIntPart, hl, hd, Except.ok.injEq, Prod.mk.injEq] at h
      obtain ⟨_, _, _, _, rfl⟩ := h
      have hd1 := digitsSep_len l2 ds l3' hd
      unfold numLead at hl
      simp only [peek, List.headD_cons, List.tail_cons] at hl
      by_cases hdot : c = '.'
      · -- `.d…`
        simp only [hdot, ↓reduceIte] at hl
        split at hl
        · cases hl
        · split at hl
          · simp only [Except.ok.injEq, Prod.mk.injEq] at hl
            obtain ⟨_, _, _, _, rfl⟩ := hl
            exact hd1.1
          · cases hl
      · have hdig : isDigit c = true := by
          rcases hc with h | h
          · exact h
          · exact absurd h hdot
        simp only [hdot, ↓reduceIte] at hl
        by_cases hz : c = '0'
        · simp only [hz, ↓reduceIte] at hl
          cases r with
          | nil =>
            simp only [Except.ok.injEq, Prod.mk.injEq] at hl
            obtain ⟨_, _, _, _, rfl⟩ := hl
            have := hd1.1
            simp at this
            simp [this]
          | cons x r' =>
            simp only at hl
            by_cases hb : x = 'b'
            · simp only [hb, ↓reduceIte] at hl
              cases r' with
              | nil => simp at hl
              | cons d r'' =>
                simp only at hl
                by_cases hbin : (!isBinary d) = true
                · simp [hbin] at hl
                · simp only [hbin, Bool.false_eq_true, ↓reduceIte] at hl
                  cases hbd : binDigits (d :: r'') with
                  | error e => simp [hbd] at hl
                  | ok p =>
                    obtain ⟨a1, b1⟩ := p
                    simp only [hbd, Except.ok.injEq, Prod.mk.injEq] at hl
                    obtain ⟨_, _, _, _, rfl⟩ := hl
                    have h1 := binDigits_len _ a1 _ hbd
                    have h2 := hd1.1
                    simp at h1 ⊢; omega
            · simp only [hb, ↓reduceIte] at hl
              by_cases hxx : x = 'x'
              · simp only [hxx, ↓reduceIte] at hl
                cases r' with
                | nil => simp at hl
                | cons d r'' =>
                  simp only at hl
                  by_cases hhex : (!isHex d) = true
                  · simp [hhex] at hl
                  · simp only [hhex, Bool.false_eq_true, ↓reduceIte, Except.ok.injEq, Prod.mk.injEq] at hl
                    obtain ⟨_, _, _, _, rfl⟩ := hl
                    have h1 := hexDigits_len (d :: r'')
                    have h2 := hd1.1
                    simp at h1 ⊢; omega
              · simp only [hxx, ↓reduceIte, Except.ok.injEq, Prod.mk.injEq] at hl
                obtain ⟨_, _, _, _, rfl⟩ := hl
                exact hd1.2 _ _ rfl (by decide)
        · simp only [hz, ↓reduceIte, Except.ok.injEq, Prod.mk.injEq] at hl
          obtain ⟨_, _, _, _, rfl⟩ := hl
          exact hd1.2 _ _ rfl hdig

theorem bind_ok' {ε α β : Type} {x : Except ε α} {f : α → Except ε β} {b : β} (h : (x >>= f) = .ok b) :
    ∃ a, x = .ok a ∧ f a = .ok b := (bind_ok x f b).mp h

/-- the part of `parseNumber` after the sign: what is left is no longer than what `numIntPart` left -/
theorem parseNumber_tail {sgn : List Char} {sg : Bool} {l1 a b : List Char}
    (h : (do
      let (ip, isFloat0, isBin, isHexI, l3) ← numIntPart l1
      let (fs, isFloat1, l4) ← numDec isHexI isBin isFloat0 l3
      noDot l4
      let (es, isFloat, l5) ← numExp isHexI isBin isFloat1 l4
      noDot l5
      let (sf, l6) ← numSuffix isFloat sg l5
      noDot l6
      let (us, l7) ← numUdl l6
      noDot l7
      (Except.ok (sgn ++ ip ++ fs ++ es ++ sf ++ us, l7) : R (List Char × List Char))) = .ok (a, b)) :
    ∃ ip f0 bi hx l3, numIntPart l1 = .ok (ip, f0, bi, hx, l3) ∧ b.length ≤ l3.length := by
  obtain ⟨v, hI, h⟩ := bind_ok' h
  obtain ⟨ip, f0, bi, hx, l3⟩ := v
  obtain ⟨v2, hD, h⟩ := bind_ok' h
  obtain ⟨fs, f1, l4⟩ := v2
  obtain ⟨_, _, h⟩ := bind_ok' h
  obtain ⟨v3, hE, h⟩ := bind_ok' h
  obtain ⟨es, f2, l5⟩ := v3
  obtain ⟨_, _, h⟩ := bind_ok' h
  obtain ⟨v4, hS, h⟩ := bind_ok' h
  obtain ⟨sf, l6⟩ := v4
  obtain ⟨_, _, h⟩ := bind_ok' h
  obtain ⟨v5, hU, h⟩ := bind_ok' h
  obtain ⟨us, l7⟩ := v5
  obtain ⟨_, _, h⟩ := bind_ok' h
  simp only [Except.ok.injEq, Prod.mk.injEq] at h
  obtain ⟨_, rfl⟩ := h
  have h1 := numDec_len _ _ _ _ _ _ _ hD
  have h2 := numExp_len _ _ _ _ _ _ _ hE
  have h3 := numSuffix_len _ _ _ _ _ hS
  have h4 := numUdl_len _ _ _ hU
  exact ⟨ip, f0, bi, hx, l3, hI, by omega⟩

/-- `parseNumber` consumes at least one character -/
theorem parseNumber_len (c : Char) (r a b : List Char) (h : parseNumber (c :: r) = .ok (a, b)) :
    b.length ≤ r.length := by
  unfold parseNumber at h
  simp only [List.tail_cons] at h
  generalize hg : peek (c :: r) = c0 at h
  obtain rfl : c0 = c := by rw [← hg]; rfl
  cases hs : (decide (c0 = '-') || decide (c0 = '+'))
  case true =>
    rw [hs] at h
    simp only [↓reduceIte, Bool.true_and] at h
    split at h
    · cases h
    · split at h
      · cases h
      · obtain ⟨ip, f0, bi, hx, l3, hI, hlen⟩ := parseNumber_tail h
        rename_i hcond
        cases r with
        | nil => simp at *
        | cons d r' =>
          have hd : isDigit d = true ∨ d = '.' := by
            simp only [peek, List.headD_cons] at hcond
            by_cases hdd : isDigit d = true
            · exact Or.inl hdd
            · right
              false_or_by_contra
              rename_i hne
              simp [hdd, hne] at hcond
          have := numIntPart_len d r' ip l3 f0 bi hx hI hd
          simp; omega
  case false =>
    rw [hs] at h
    simp only [Bool.false_eq_true, ↓reduceIte, Bool.false_and, peek, List.headD_cons] at h
    split at h
    · cases h
    · obtain ⟨ip, f0, bi, hx, l3, hI, hlen⟩ := parseNumber_tail h
      rename_i hcond
      have hd : isDigit c0 = true ∨ c0 = '.' := by
        by_cases hdd : isDigit c0 = true
        · exact Or.inl hdd
        · right
          false_or_by_contra
          rename_i hne
          simp [hdd, hne] at hcond
      have := numIntPart_len c0 r ip l3 f0 bi hx hI hd
      omega

end TfelVerif.C31
