/-
C31 — one iteration of the main loop: strings, numbers, comments; and the combined statement.
-/
import TfelVerif.C31.LemStep2
import TfelVerif.C31.LemNum2
import TfelVerif.C31.LemCom

namespace TfelVerif.C31

theorem step_str (n : Nat) (s : St) (o : Nat) (prev : Char) (b : List SItem) (rest : List Char)
    (hok : (Lx.str b).OK) : StepsTo n s o prev (.str b) rest := by
  refine ⟨'"', bodyText b ++ ['"'], rfl, ?_⟩
  have hp := parseString_str b hok rest
  have hassoc : (bodyText b ++ ['"']) ++ rest = bodyText b ++ '"' :: rest := by simp
  rw [hassoc]
  simp only [List.cons_append] at hp
  generalize bodyText b ++ '"' :: rest = tl at hp ⊢
  obtain ⟨toks, cO, rO, rD⟩ := s
  have hT : dflt.treatStrings = true := rfl
  have hM : dflt.mergeStrings = false := rfl
  cases toks <;>
    simp [stdStep, hp, hT, hM, tok1, push, Lx.value, Lx.text, Lx.skip, Lx.flag]

theorem digit_ne2 (c : Char) (h : isDigit c = true) : c ≠ '#' ∧ c ≠ '\\' := by
  refine ⟨?_, ?_⟩ <;> (intro e; subst e; revert h; decide)

theorem numberValue_text (x : Num) (hx : x.OK) : numberValue x.text = x.text := by
  obtain ⟨ip, frac, exp⟩ := x
  obtain ⟨_, hip, hfr, hex⟩ := hx
  simp only at hip hfr hex
  unfold numberValue
  rw [List.filter_eq_self]
  intro c hc
  have hdig : ∀ l : List Char, allDigits l → c ∈ l → c ≠ '\'' := fun l hl hm => (digit_ne c (hl c hm)).2.2.2.1
  simp only [Num.text, Num.fracText, Num.expText, List.mem_append] at hc
  have : c ≠ '\'' := by
    rcases hc with (hc | hc) | hc
    · exact hdig ip hip hc
    · cases frac with
      | none => simp at hc
      | some f =>
        simp only [List.mem_cons] at hc
        rcases hc with rfl | hc
        · decide
        · exact hdig f hfr hc
    · cases exp with
      | none => simp at hc
      | some p =>
        obtain ⟨e, sg, ds⟩ := p
        obtain ⟨he, hs, _, hds⟩ := hex
        simp only [List.cons_append, List.mem_cons, List.mem_append] at hc
        rcases hc with rfl | hc | hc
        · rcases he with rfl | rfl <;> decide
        · cases sg with
          | none => simp at hc
          | some d =>
            simp only [List.mem_cons, List.not_mem_nil, or_false] at hc
            subst hc
            rcases hs with rfl | rfl <;> decide
        · exact hdig ds hds hc
  simpa using this

theorem step_num (n : Nat) (s : St) (o : Nat) (prev : Char) (x : Num) (rest : List Char)
    (hok : (Lx.num x).OK) (hf : (Lx.num x).Follow rest) : StepsTo n s o prev (.num x) rest := by
  have hp := parseNumber_num x hok rest hf
  have hv := numberValue_text x hok
  obtain ⟨hne, hip, _, _⟩ := hok
  cases hipc : x.ip with
  | nil => exact absurd hipc hne
  | cons c ip' =>
    have hc : isDigit c = true := hip c (by simp [hipc])
    obtain ⟨h1, h2⟩ := digit_ne2 c hc
    have htext : x.text = c :: (ip' ++ x.fracText ++ x.expText) := by simp [Num.text, hipc]
    refine ⟨c, ip' ++ x.fracText ++ x.expText, htext, ?_⟩
    have hp' : parseNumber (c :: ((ip' ++ x.fracText ++ x.expText) ++ rest)) = .ok (x.text, rest) := by
      rw [← List.cons_append, ← htext]; exact hp
    generalize (ip' ++ x.fracText ++ x.expText) ++ rest = tl at hp' ⊢
    have hT : dflt.treatNumbers = true := rfl
    simp [stdStep, h1, h2, hc, hp', hv, hT, tok1, Lx.value, Lx.text, Lx.skip, Lx.flag]

theorem take_length_sub {α} (a b : List α) : (a ++ b).take ((a ++ b).length - b.length) = a := by
  simp

theorem step_cxxcom (n : Nat) (s : St) (o : Nat) (prev : Char) (m : Marker) (ws1 t rest : List Char)
    (hok : (Lx.cxxcom m ws1 t).OK) (hf : (Lx.cxxcom m ws1 t).Follow rest) :
    StepsTo n s o prev (.cxxcom m ws1 t) rest := by
  have hr : rest = [] := hf
  subst hr
  refine ⟨'/', '/' :: (m.text ++ (ws1 ++ t)), by simp [Lx.text], ?_⟩
  have hp := parseCxxComment_spec n s o m ws1 t hok
  simp only [List.append_nil]
  generalize hbody : m.text ++ (ws1 ++ t) = body at hp ⊢
  have hT : dflt.treatCxxComments = true := rfl
  simp only [stdStep, hT, hp]
  simp [Lx.value, Lx.text, Lx.skip, Lx.flag, ← hbody, Nat.add_assoc, Nat.add_comm, Nat.add_left_comm] <;> omega

theorem step_ccom (n : Nat) (s : St) (o : Nat) (prev : Char) (m : Marker) (ws1 t ws2 rest : List Char)
    (hok : (Lx.ccom m ws1 t ws2).OK) : StepsTo n s o prev (.ccom m ws1 t ws2) rest := by
  refine ⟨'/', '*' :: (m.text ++ (ws1 ++ (t ++ (ws2 ++ ['*', '/'])))), by simp [Lx.text], ?_⟩
  have hp := parseCComment_spec n s o m ws1 t ws2 rest hok
  have hl : '*' :: (m.text ++ (ws1 ++ (t ++ (ws2 ++ ['*', '/'])))) ++ rest =
      '*' :: (m.text ++ (ws1 ++ (t ++ (ws2 ++ ('*' :: '/' :: rest))))) := by simp
  rw [hl]
  have htake := take_length_sub ('/' :: '*' :: (m.text ++ (ws1 ++ (t ++ (ws2 ++ ['*', '/']))))) rest
  have hl2 : '/' :: '*' :: (m.text ++ (ws1 ++ (t ++ (ws2 ++ ['*', '/'])))) ++ rest =
      '/' :: '*' :: (m.text ++ (ws1 ++ (t ++ (ws2 ++ ('*' :: '/' :: rest))))) := by simp
  rw [hl2] at htake
  have htext : (Lx.ccom m ws1 t ws2).text = '/' :: '*' :: (m.text ++ (ws1 ++ (t ++ (ws2 ++ ['*', '/'])))) := by
    simp [Lx.text]
  have hlen : (Lx.ccom m ws1 t ws2).text.length = 2 + m.text.length + ws1.length + t.length + ws2.length + 2 := by
    simp [htext] <;> omega
  rw [htext] at hlen ⊢
  generalize hbody : m.text ++ (ws1 ++ (t ++ (ws2 ++ ('*' :: '/' :: rest)))) = body at hp htake ⊢
  generalize htx : '/' :: '*' :: (m.text ++ (ws1 ++ (t ++ (ws2 ++ ['*', '/'])))) = tx at htake hlen ⊢
  have hT : dflt.treatCComments = true := rfl
  simp only [stdStep, hT, hp, htake]
  simp [Lx.value, Lx.skip, Lx.flag, hlen, Nat.add_assoc] <;> omega

/-- every well-formed lexeme, followed by something it may be followed by, is read back as one token -/
theorem step_lx (n : Nat) (s : St) (o : Nat) (prev : Char) (l : Lx) (rest : List Char)
    (hok : l.OK) (hf : l.Follow rest) : StepsTo n s o prev l rest := by
  cases l with
  | word w => exact step_word n s o prev w rest hok hf
  | num x => exact step_num n s o prev x rest hok hf
  | str b => exact step_str n s o prev b rest hok
  | chr c => exact step_chr n s o prev c rest hok
  | chrEsc c => exact step_chrEsc n s o prev c rest
  | op1 c => exact step_op1 n s o prev c rest hok hf
  | op2 c d => exact step_op2 n s o prev c d rest hok hf
  | arrowStar => exact step_arrowStar n s o prev rest
  | ccom m ws1 t ws2 => exact step_ccom n s o prev m ws1 t ws2 rest hok
  | cxxcom m ws1 t => exact step_cxxcom n s o prev m ws1 t rest hok hf

end TfelVerif.C31
