/-
C31 — lemmas about the `stripComments` model.
-/
import TfelVerif.C31.Model

namespace TfelVerif.C31

/-- what a token is, apart from the documentation attached to it -/
def Tok.core (t : Tok) : List Char × Nat × Nat × Flag := (t.value, t.line, t.off, t.flag)

theorem attachDoc_flag (d : Option (List Char)) (t : Tok) : (attachDoc d t).flag = t.flag := by
  unfold attachDoc
  cases d with
  | none => rfl
  | some v => by_cases h1 : t.flag = .standard <;> by_cases h2 : t.flag = .doxygen <;> simp [h1, h2]

theorem attachDoc_core (d : Option (List Char)) (t : Tok) (h : isCommentFlag t.flag = false) :
    (attachDoc d t).core = t.core := by
  unfold attachDoc
  cases d with
  | none => rfl
  | some v =>
    have h2 : t.flag ≠ .doxygen := by
      intro e; simp [isCommentFlag, e] at h
    by_cases h1 : t.flag = .standard <;> simp [h1, h2, Tok.core]

theorem stripLoop_core (ts : List Tok) : ∀ (kept : List Tok) (d : Option (List Char)),
    (stripLoop kept d ts).map Tok.core =
      (kept.reverse.map Tok.core) ++ ((ts.filter fun t => !isCommentFlag t.flag).map Tok.core) := by
  induction ts with
  | nil => intro kept d; simp [stripLoop]
  | cons t r ih =>
    intro kept d
    have hf := attachDoc_flag d t
    unfold stripLoop
    simp only []
    cases hfl : t.flag <;> rw [hfl] at hf <;> simp only [hf]
    case comment => rw [ih]; simp [List.filter, isCommentFlag, hfl]
    case doxygen => rw [ih]; simp [List.filter, isCommentFlag, hfl]
    case doxygenBack =>
      cases kept with
      | nil => rw [ih]; simp [List.filter, isCommentFlag, hfl]
      | cons p ks =>
        rw [ih]
        have : (if p.flag = Flag.standard then { p with comment := p.comment ++ (attachDoc d t).value } else p).core
            = p.core := by
          by_cases hp : p.flag = .standard <;> simp [hp, Tok.core]
        simp [List.filter, isCommentFlag, hfl, this]
    all_goals
      rw [ih]
      have hc : isCommentFlag t.flag = false := by simp [isCommentFlag, hfl]
      simp [List.filter, hc, attachDoc_core d t hc]

end TfelVerif.C31
