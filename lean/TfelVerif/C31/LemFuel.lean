/-
C31 — progress of the main loop: every iteration consumes at least one character, for every option set and
every input, hence the fuel `length + 1` of `parseStandardLine` is never exhausted.
-/
import TfelVerif.C31.Model

namespace TfelVerif.C31

theorem bind_ok {ε α β : Type} (x : Except ε α) (f : α → Except ε β) (b : β) :
    (x >>= f) = .ok b ↔ ∃ a, x = .ok a ∧ f a = .ok b := by
  cases x <;> simp [bind, Except.bind]

theorem ite_err_ok {ε β : Type} (c : Prop) [Decidable c] (e : ε) (x : Except ε β) (b : β) :
    (if c then .error e else x) = .ok b ↔ ¬c ∧ x = .ok b := by
  by_cases h : c <;> simp [h]

/-! ### sub-lexers return a suffix -/

theorem skipSpaces_len (l : List Char) : (skipSpaces l).2.length ≤ l.length := by
  induction l with
  | nil => simp [skipSpaces]
  | cons c r ih =>
    by_cases h : isSpace c = true
    · simp only [skipSpaces, h, ↓reduceIte, List.length_cons]
      omega
    · simp [skipSpaces, h]

theorem takeWord_len (op : Opts) (l : List Char) : (takeWord op l).2.length ≤ l.length := by
  induction l with
  | nil => simp [takeWord]
  | cons c r ih =>
    by_cases h : isSepOrSpace op c = true
    · simp [takeWord, h]
    · simp only [takeWord, h, Bool.false_eq_true, ↓reduceIte, List.length_cons]
      omega

theorem takeWord_nonempty (op : Opts) (c : Char) (r : List Char) (h : (takeWord op (c :: r)).1 ≠ []) :
    (takeWord op (c :: r)).2.length ≤ r.length := by
  by_cases hc : isSepOrSpace op c = true
  · simp [takeWord, hc] at h
  · simp only [takeWord, hc, Bool.false_eq_true, ↓reduceIte]
    exact takeWord_len op r

theorem digitsSep_len : ∀ (l a b : List Char), digitsSep l = .ok (a, b) →
    b.length ≤ l.length ∧ (∀ c r, l = c :: r → isDigit c = true → b.length ≤ r.length) := by
  intro l
  induction l with
  | nil =>
    intro a b h
    simp [digitsSep] at h
    exact ⟨by simp [h.2], fun c r e _ => by simp at e⟩
  | cons c r ih =>
    intro a b h
    unfold digitsSep at h
    by_cases hd : isDigit c = true
    · simp only [hd, ↓reduceIte] at h
      split at h
      · rename_i a' b' hr
        cases h
        have := (ih a' b hr).1
        exact ⟨by simp; omega, fun c' r' e _ => by cases e; exact this⟩
      · cases h
    · simp only [hd, Bool.false_eq_true, ↓reduceIte] at h
      refine ⟨?_, fun c' r' e hc' => by cases e; exact absurd hc' hd⟩
      by_cases hq : c = '\''
      · simp only [hq, ↓reduceIte] at h
        split at h
        · cases h
        · split at h
          · split at h
            · rename_i a' b' hr
              cases h
              have := (ih a' b hr).1
              simp; omega
            · cases h
          · cases h
      · simp only [hq, ↓reduceIte] at h
        cases h
        simp

theorem binDigits_len : ∀ (l a b : List Char), binDigits l = .ok (a, b) → b.length ≤ l.length := by
  intro l
  induction l with
  | nil => intro a b h; simp [binDigits] at h; simp [h.2.symm]
  | cons c r ih =>
    intro a b h
    unfold binDigits at h
    split at h
    · split at h
      · split at h
        · rename_i a' b' hr
          cases h
          have := ih a' b hr
          simp; omega
        · cases h
      · cases h
    · cases h; simp

theorem hexDigits_len (l : List Char) : (hexDigits l).2.length ≤ l.length := by
  induction l with
  | nil => simp [hexDigits]
  | cons c r ih =>
    by_cases h : isHex c = true
    · simp only [hexDigits, h, ↓reduceIte, List.length_cons]; omega
    · simp [hexDigits, h]

theorem udlChars_len (l : List Char) : (udlChars l).2.length ≤ l.length := by
  induction l with
  | nil => simp [udlChars]
  | cons c r ih =>
    by_cases h : (isAlpha c || isDigit c || decide (c = '_')) = true
    · simp only [udlChars, h, ↓reduceIte, List.length_cons]; omega
    · simp [udlChars, h]

theorem scanString_len (e : Char) : ∀ (l : List Char) (ev : Bool) (a b : List Char),
    scanString e ev l = some (a, b) → b.length < l.length := by
  intro l
  induction l with
  | nil => intro ev a b h; simp [scanString] at h
  | cons c r ih =>
    intro ev a b h
    unfold scanString at h
    split at h
    · cases h; simp
    · split at h
      · rename_i a' b' hr
        cases h
        have := ih _ a' b hr
        simp; omega
      · cases h

theorem parseString_len (e : Char) (l a b : List Char) (h : parseString e l = .ok (a, b)) :
    b.length < l.length := by
  cases l with
  | nil => simp [parseString] at h
  | cons q r =>
    simp only [parseString] at h
    cases hs : scanString e true r with
    | none => simp [hs] at h
    | some p =>
      obtain ⟨a', b'⟩ := p
      simp only [hs, Except.ok.injEq, Prod.mk.injEq] at h
      obtain ⟨_, rfl⟩ := h
      have := scanString_len e r true a' b' hs
      simp; omega

theorem parseChar_len (l a b : List Char) (h : parseChar l = .ok (a, b)) : b.length < l.length := by
  unfold parseChar at h
  split at h
  · cases h
  · cases h
  · split at h
    · split at h
      · cases h
      · cases h
      · split at h
        · cases h
        · cases h; simp; omega
    · split at h
      · cases h
      · cases h
        rename_i r _ _
        cases r <;> simp <;> omega

theorem splitCEnd_len : ∀ (l a b : List Char), splitCEnd l = some (a, b) → b.length < l.length := by
  intro l
  induction l with
  | nil => intro a b h; simp [splitCEnd] at h
  | cons c r ih =>
    intro a b h
    unfold splitCEnd at h
    split at h
    · cases h
      cases r <;> simp
      omega
    · split at h
      · rename_i a' b' hr
        cases h
        have := ih a' b hr
        simp; omega
      · cases h

theorem rawBody_len (d : List Char) : ∀ (l b : List Char), (rawBody d l).2 = some b → b.length < l.length := by
  intro l
  induction l with
  | nil => intro b h; simp [rawBody] at h
  | cons c r ih =>
    intro b h
    unfold rawBody at h
    split at h
    · simp only [Option.some.injEq] at h
      subst h
      simp; omega
    · have := ih b h
      simp; omega

theorem rawDelimiter_len : ∀ (l a b : List Char), rawDelimiter l = some (a, b) → b.length < l.length := by
  intro l
  induction l with
  | nil => intro a b h; simp [rawDelimiter] at h
  | cons c r ih =>
    intro a b h
    unfold rawDelimiter at h
    split at h
    · cases h; simp
    · split at h
      · rename_i a' b' hr
        cases h
        have := ih a' b hr
        simp; omega
      · cases h

theorem doxyFlag_len (e : Bool) (l : List Char) : (doxyFlag e l).2.2.length ≤ l.length := by
  unfold doxyFlag
  split
  · split
    · split
      · split <;> simp <;> omega
      · simp
    · simp
  · simp

theorem parseCComment_len (op : Opts) (n : Nat) (s : St) (o : Nat) (l : List Char) :
    (parseCComment op n s o l).2.2.length ≤ (l.drop 2).length := by
  simp only [parseCComment]
  have h1 := doxyFlag_len s.toks.isEmpty (l.drop 2)
  generalize doxyFlag s.toks.isEmpty (l.drop 2) = df at h1 ⊢
  obtain ⟨flag, k, r1⟩ := df
  simp only at h1 ⊢
  have h2 := skipSpaces_len r1
  generalize skipSpaces r1 = sk at h2 ⊢
  obtain ⟨w, r2⟩ := sk
  simp only at h2 ⊢
  by_cases hk : op.keepCommentBoundaries = true
  · simp only [hk, ↓reduceIte]
    cases hs : splitCEnd r1 with
    | none => simp
    | some p =>
      obtain ⟨a, b⟩ := p
      have := splitCEnd_len _ a b hs
      simp only; omega
  · simp only [hk, Bool.false_eq_true, ↓reduceIte]
    cases hs : splitCEnd r2 with
    | none => simp
    | some p =>
      obtain ⟨a, b⟩ := p
      have := splitCEnd_len _ a b hs
      simp only; omega

end TfelVerif.C31
