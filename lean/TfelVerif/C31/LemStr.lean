/-
C31 — string literals and comments: the sub-lexers on the grammar.
-/
import TfelVerif.C31.LemBasic

namespace TfelVerif.C31

theorem scanString_body (b : List SItem) (hb : ∀ i ∈ b, i.OK) (rest : List Char) :
    scanString '"' true (bodyText b ++ '"' :: rest) = some (bodyText b ++ ['"'], rest) := by
  induction b with
  | nil => simp [bodyText, scanString]
  | cons i b ih =>
    have hi : i.OK := hb i (by simp)
    have := ih (fun j hj => hb j (by simp [hj]))
    cases i with
    | plain c =>
      obtain ⟨h1, h2⟩ := hi
      simp [bodyText, SItem.text, scanString, h1, h2, this]
    | esc c =>
      by_cases hc : c = '\\' <;> simp [bodyText, SItem.text, scanString, hc, this]

theorem parseString_str (b : List SItem) (hb : ∀ i ∈ b, i.OK) (rest : List Char) :
    parseString '"' ('"' :: bodyText b ++ '"' :: rest) = .ok ('"' :: bodyText b ++ ['"'], rest) := by
  simp [parseString, scanString_body b hb rest]

/-! ### comments -/

/-- the text after a doxygen marker does not extend the marker -/
def MarkerHead : Marker → List Char → Prop
  | .none, x => x.head? ≠ some '!'
  | .fwd, x => x.head? ≠ some '<'
  | .back, _ => True

theorem doxyFlag_marker (empty : Bool) (m : Marker) (x : List Char) (h : MarkerHead m x) :
    doxyFlag empty (m.text ++ x) = (m.flag empty, m.text.length, x) := by
  cases m with
  | none =>
    cases x with
    | nil => rfl
    | cons c r =>
      have : c ≠ '!' := by simpa [MarkerHead] using h
      simp [Marker.text, doxyFlag, this, Marker.flag]
  | fwd =>
    cases x with
    | nil => simp [Marker.text, doxyFlag, Marker.flag]
    | cons c r =>
      have : c ≠ '<' := by simpa [MarkerHead] using h
      simp [Marker.text, doxyFlag, this, Marker.flag]
  | back => simp [Marker.text, doxyFlag, Marker.flag]

theorem splitCEnd_spaces (ws tl : List Char) (h : allSpaces ws) :
    splitCEnd (ws ++ tl) = (splitCEnd tl).map fun p => (ws ++ p.1, p.2) := by
  induction ws with
  | nil => simp only [List.nil_append]; cases splitCEnd tl <;> simp
  | cons c ws ih =>
    have hc : isSpace c = true := h c (by simp)
    have hne : c ≠ '*' := by intro e; subst e; revert hc; decide
    have := ih (fun d hd => h d (by simp [hd]))
    rw [List.cons_append, splitCEnd]
    simp only [hne, decide_false, Bool.false_and, Bool.false_eq_true, ↓reduceIte, this]
    cases splitCEnd tl <;> simp

theorem splitCEnd_text (t tl : List Char) (h : noCEnd t) (htl : tl.head? ≠ some '/') :
    splitCEnd (t ++ tl) = (splitCEnd tl).map fun p => (t ++ p.1, p.2) := by
  induction t with
  | nil => simp only [List.nil_append]; cases splitCEnd tl <;> simp
  | cons c t ih =>
    obtain ⟨h1, h2⟩ := h
    have := ih h2
    have hcond : ¬(c = '*' ∧ (t ++ tl).head? = some '/') := by
      rintro ⟨e, hh⟩
      cases t with
      | nil => exact htl (by simpa using hh)
      | cons d t' => exact h1 ⟨e, by simpa using hh⟩
    rw [List.cons_append, splitCEnd]
    have hb : (decide (c = '*') && decide ((t ++ tl).head? = some '/')) = false := by
      simpa using hcond
    simp only [hb, Bool.false_eq_true, ↓reduceIte, this]
    cases splitCEnd tl <;> simp

theorem dropWhile_spaces (ws l : List Char) (h : allSpaces ws) :
    (ws ++ l).dropWhile isSpace = l.dropWhile isSpace := by
  induction ws with
  | nil => rfl
  | cons c ws ih =>
    have hc : isSpace c = true := h c (by simp)
    simp [List.dropWhile, hc, ih (fun d hd => h d (by simp [hd]))]

theorem trimRight_text (t ws : List Char) (h : allSpaces ws)
    (ht : ∀ c, t.getLast? = some c → isSpace c = false) : trimRight (t ++ ws) = t := by
  unfold trimRight
  rw [List.reverse_append, dropWhile_spaces ws.reverse t.reverse (fun c hc => h c (by simpa using hc))]
  cases hr : t.reverse with
  | nil => simp [List.reverse_eq_nil_iff.mp hr]
  | cons c r =>
    have hl : t.getLast? = some c := by
      rw [← List.head?_reverse, hr]; rfl
    have hc := ht c hl
    have : t = (c :: r).reverse := by rw [← hr, List.reverse_reverse]
    simp [List.dropWhile, hc, this]

end TfelVerif.C31
