/-
C31 — the main loop over a whole line of lexemes, `splitLine` on standard and preprocessor lines.
-/
import TfelVerif.C31.LemStep3

namespace TfelVerif.C31

theorem ops1_head : ∀ c ∈ ops1, isSpace c = false ∧ c ≠ '#' := by decide
theorem ops2_head : ∀ p ∈ ops2, isSpace p.1 = false ∧ p.1 ≠ '#' := by decide

/-- a lexeme starts with a character that is neither a blank nor `#` -/
theorem lx_text_head (l : Lx) (h : l.OK) : ∃ c r, l.text = c :: r ∧ isSpace c = false ∧ c ≠ '#' := by
  cases l with
  | word w =>
    obtain ⟨hne, hall, hhead⟩ := h
    cases w with
    | nil => exact absurd rfl hne
    | cons c r =>
      have hc : isSepOrSpace dflt c = false := hall c (by simp)
      have hs : isSpace c = false := by
        simp only [isSepOrSpace, Bool.or_eq_false_iff] at hc; exact hc.1
      exact ⟨c, r, rfl, hs, (hhead c rfl).2⟩
  | num x =>
    obtain ⟨hne, hip, _, _⟩ := h
    cases hipc : x.ip with
    | nil => exact absurd hipc hne
    | cons c ip' =>
      have hc : isDigit c = true := hip c (by simp [hipc])
      refine ⟨c, ip' ++ x.fracText ++ x.expText, by simp [Lx.text, Num.text, hipc], ?_, (digit_ne2 c hc).1⟩
      cases hs : isSpace c with
      | false => rfl
      | true =>
        exfalso
        have h48 : 48 ≤ c.toNat := by
          have : 48 ≤ c.toNat ∧ c.toNat ≤ 57 := by simpa [isDigit] using hc
          exact this.1
        have : c = ' ' ∨ (9 ≤ c.toNat ∧ c.toNat ≤ 13) := by simpa [isSpace] using hs
        rcases this with rfl | ⟨_, h13⟩
        · revert hc; decide
        · omega
  | str b => exact ⟨'"', bodyText b ++ ['"'], rfl, by decide, by decide⟩
  | chr c => exact ⟨'\'', [c, '\''], rfl, by decide, by decide⟩
  | chrEsc c => exact ⟨'\'', ['\\', c, '\''], rfl, by decide, by decide⟩
  | op1 c => exact ⟨c, [], rfl, ops1_head c h⟩
  | op2 c d => exact ⟨c, [d], rfl, ops2_head (c, d) h⟩
  | arrowStar => exact ⟨'-', ['>', '*'], rfl, by decide, by decide⟩
  | ccom m ws1 t ws2 =>
    exact ⟨'/', '*' :: (m.text ++ (ws1 ++ (t ++ (ws2 ++ ['*', '/'])))), by simp [Lx.text], by decide, by decide⟩
  | cxxcom m ws1 t =>
    exact ⟨'/', '/' :: (m.text ++ (ws1 ++ t)), by simp [Lx.text], by decide, by decide⟩

theorem renderItems_head (is : List Item) (h : ItemsOK is) :
    ∀ c, (renderItems is).head? = some c → isSpace c = false ∧ c ≠ '#' := by
  intro c hc
  cases is with
  | nil => simp [renderItems] at hc
  | cons i is =>
    obtain ⟨hok, _, _, _⟩ := h
    obtain ⟨d, r, ht, hs, hh⟩ := lx_text_head i.lx hok
    have : c = d := by simpa [renderItems, ht] using hc.symm
    subst this
    exact ⟨hs, hh⟩

/-- the main loop reads a rendered line of lexemes back, token by token -/
theorem stdLoop_items (n : Nat) : ∀ (is : List Item) (fuel : Nat) (s : St) (o : Nat) (prev : Char),
    ItemsOK is → (renderItems is).length < fuel →
    stdLoop dflt n fuel s o prev (renderItems is) =
      .ok { s with toks := (expToks n s.toks.isEmpty o is).reverse ++ s.toks } := by
  intro is
  induction is with
  | nil =>
    intro fuel s o prev _ _
    simp [renderItems, stdLoop, expToks]
  | cons i is ih =>
    intro fuel s o prev hok hfuel
    obtain ⟨hlx, hws, hfol, hrest⟩ := hok
    obtain ⟨c, r, htext, hstep⟩ := step_lx n s o prev i.lx (i.ws ++ renderItems is) hlx hfol
    cases fuel with
    | zero => exact absurd hfuel (Nat.not_lt_zero _)
    | succ fuel' =>
      have hrender : renderItems (i :: is) = c :: (r ++ (i.ws ++ renderItems is)) := by
        simp [renderItems, htext]
      have hskip := skipSpaces_append i.ws (renderItems is) hws
        (fun d hd => (renderItems_head is hrest d hd).1)
      have hlen : (renderItems is).length < fuel' := by
        have : (renderItems (i :: is)).length = i.lx.text.length + i.ws.length + (renderItems is).length := by
          simp [renderItems, Nat.add_assoc]
        have h1 : 1 ≤ i.lx.text.length := by simp [htext]
        omega
      rw [hrender]
      simp only [stdLoop, hstep, hskip]
      rw [ih fuel' _ _ _ hrest hlen]
      simp [push, expToks, Nat.add_assoc]

/-- `parseStandardLine` on blanks followed by lexemes -/
theorem parseStandardLine_items (n : Nat) (s : St) (o : Nat) (prev : Char) (ws0 : List Char) (is : List Item)
    (hws : allSpaces ws0) (hok : ItemsOK is) :
    parseStandardLine dflt n s o prev (ws0 ++ renderItems is) =
      .ok { s with toks := (expToks n s.toks.isEmpty (o + ws0.length) is).reverse ++ s.toks } := by
  have hskip := skipSpaces_append ws0 (renderItems is) hws (fun d hd => (renderItems_head is hok d hd).1)
  simp only [parseStandardLine, hskip]
  exact stdLoop_items n is _ s _ _ hok (Nat.lt_succ_self _)

end TfelVerif.C31
