/-
C31 — `parseNumber` reads back a number of the decimal grammar.
-/
import TfelVerif.C31.LemNum

namespace TfelVerif.C31

theorem head?_append_cons {α} (a : List α) (c : α) (r : List α) :
    (a ++ c :: r).head? = some (a.headD c) := by
  cases a <;> simp

theorem parseNumber_num (x : Num) (hx : x.OK) (rest : List Char)
    (hf : ∀ c, rest.head? = some c → isSepOrSpace dflt c = true ∧ c ≠ '.' ∧ c ≠ '\'') :
    parseNumber (x.text ++ rest) = .ok (x.text, rest) := by
  obtain ⟨ip, frac, exp⟩ := x
  obtain ⟨hne, hip, hfr, hex⟩ := hx
  simp only at hne hip hfr hex
  -- what follows the number
  have hrest : ∀ c, rest.head? = some c →
      isDigit c = false ∧ c ≠ '\'' ∧ c ≠ '.' ∧ c ≠ 'e' ∧ c ≠ 'E' ∧ c ≠ 'b' ∧ c ≠ 'x' ∧ c ≠ '_' ∧
        isL c = false ∧ isU c = false ∧ isF c = false := by
    intro c hc
    obtain ⟨h1, h2, h3⟩ := hf c hc
    obtain ⟨a1, a2, a3, a4, a5, a6, a7, a8, a9⟩ := sep_ne c h1
    exact ⟨a1, h3, h2, a2, a3, a4, a5, a6, a7, a8, a9⟩
  have hstopR : StopDigits rest := fun c hc => ⟨(hrest c hc).1, (hrest c hc).2.1⟩
  have hdotR : rest.head? ≠ some '.' := fun h => (hrest '.' h).2.2.1 rfl
  have heR : ∀ c, rest.head? = some c → c ≠ 'e' ∧ c ≠ 'E' := fun c hc =>
    ⟨(hrest c hc).2.2.2.1, (hrest c hc).2.2.2.2.1⟩
  have hsufR : ∀ c, rest.head? = some c → isL c = false ∧ isU c = false ∧ isF c = false := fun c hc =>
    ⟨(hrest c hc).2.2.2.2.2.2.2.2.1, (hrest c hc).2.2.2.2.2.2.2.2.2.1, (hrest c hc).2.2.2.2.2.2.2.2.2.2⟩
  have hudlR : rest.head? ≠ some '_' := fun h => (hrest '_' h).2.2.2.2.2.2.2.1 rfl
  -- the exponent part and what follows it
  obtain ⟨T2, hT2⟩ : ∃ T2, T2 = (Num.expText ⟨ip, frac, exp⟩) ++ rest := ⟨_, rfl⟩
  have hT2head : ∀ c, T2.head? = some c →
      isDigit c = false ∧ c ≠ '\'' ∧ c ≠ '.' ∧ c ≠ 'b' ∧ c ≠ 'x' := by
    intro c hc
    cases exp with
    | none =>
      have : rest.head? = some c := by simpa [hT2, Num.expText] using hc
      obtain ⟨a1, a2, a3, _, _, a6, a7, _⟩ := hrest c this
      exact ⟨a1, a2, a3, a6, a7⟩
    | some p =>
      obtain ⟨e, sg, ds⟩ := p
      have : c = e := by simpa [hT2, Num.expText] using hc.symm
      subst this
      rcases hex.1 with rfl | rfl <;> decide
  have hE : ∃ b' : Bool → Bool, ∀ b, numExp false false b T2 = .ok (Num.expText ⟨ip, frac, exp⟩, b' b, rest) := by
    cases exp with
    | none =>
      refine ⟨fun b => b, fun b => ?_⟩
      simpa [hT2, Num.expText] using numExp_none b rest heR
    | some p =>
      obtain ⟨e, sg, ds⟩ := p
      obtain ⟨he, hs, hdne, hds⟩ := hex
      obtain ⟨f, hf'⟩ := numExp_some e sg ds rest he (by intro c hc; subst hc; exact hs) hdne hds hstopR
      refine ⟨f, fun b => ?_⟩
      have hb := hf' b
      cases sg <;> simpa [sgText, hT2, Num.expText, List.append_assoc] using hb
  obtain ⟨bE, hE⟩ := hE
  -- the decimal part and what follows it
  obtain ⟨T1, hT1⟩ : ∃ T1, T1 = (Num.fracText ⟨ip, frac, exp⟩) ++ T2 := ⟨_, rfl⟩
  have hT1head : ∀ c, T1.head? = some c → isDigit c = false ∧ c ≠ '\'' ∧ c ≠ 'b' ∧ c ≠ 'x' := by
    intro c hc
    cases frac with
    | none =>
      have : T2.head? = some c := by simpa [hT1, Num.fracText] using hc
      obtain ⟨a1, a2, _, a4, a5⟩ := hT2head c this
      exact ⟨a1, a2, a4, a5⟩
    | some f =>
      have : c = '.' := by simpa [hT1, Num.fracText] using hc.symm
      subst this
      decide
  have hD : ∃ bD, numDec false false false T1 = .ok (Num.fracText ⟨ip, frac, exp⟩, bD, T2) := by
    cases frac with
    | none =>
      refine ⟨false, ?_⟩
      have hdot : T2.head? ≠ some '.' := fun h => (hT2head '.' h).2.2.1 rfl
      simpa [hT1, Num.fracText] using numDec_none false T2 hdot
    | some f =>
      refine ⟨true, ?_⟩
      have hst : StopDigits T2 := fun c hc => ⟨(hT2head c hc).1, (hT2head c hc).2.1⟩
      simpa [hT1, Num.fracText] using numDec_some f T2 hfr hst
  obtain ⟨bD, hD⟩ := hD
  have hI : numIntPart (ip ++ T1) = .ok (ip, false, false, false, T1) :=
    numIntPart_digits ip T1 hne hip (fun c hc => ⟨(hT1head c hc).1, (hT1head c hc).2.1⟩)
      (fun c hc => ⟨(hT1head c hc).2.2.1, (hT1head c hc).2.2.2⟩)
  have hN4 : noDot T2 = .ok () := noDot_ok T2 (fun h => (hT2head '.' h).2.2.1 rfl)
  have hN5 := noDot_ok rest hdotR
  have hS := fun b => numSuffix_none b rest hsufR
  have hU := numUdl_none rest hudlR
  -- assemble
  have htext : Num.text ⟨ip, frac, exp⟩ ++ rest = ip ++ T1 := by
    simp [Num.text, hT1, hT2, List.append_assoc]
  rw [htext]
  cases ip with
  | nil => exact absurd rfl hne
  | cons c ip' =>
    have hc : isDigit c = true := hip c (by simp)
    obtain ⟨hm, hp, _⟩ := digit_ne c hc
    rw [List.cons_append] at hI ⊢
    simp [parseNumber, peek, hm, hp, hc, hI, hD, hN4, hE, hN5, hS, hU, bind, Except.bind, Num.text]

end TfelVerif.C31
